/-
C09 model: the context lifecycle (stdlib/stdlib.go: pushBusy, popBusy, Close, Done and
the prologues/epilogues of RunCode, ModuleInit, ResolveAndCompile) as a transition
system over shared state with an arbitrary number of threads.

The *program text* is data (`Src`): `GPy.C09.Generated.src` is regenerated from the Go
source by verif/extract/lifecycle on every run; `origSrc` below is the hand transcription
of the code before the `fix:` commit (used only by the `…_witness` theorems).
Granularity: one instruction = one shared-state access = one H1 yield point
(`ret`, `brErr`, `jmpBack`, `body`, `work` are thread-local and carry no yield point).
Core Lean only (linked into `gpymodel`).
-/
import GPy.Common.Basic
namespace GPy.C09

/-- atomic actions.  Branches are relative: `brX k` continues at `pc+1` when the tested
condition holds and at `pc+1+k` otherwise. -/
inductive Instr
  | lock | unlock                 -- ctx.mu.Lock() / ctx.mu.Unlock()
  | brClosed (k : Nat)            -- if ctx.closed { k instructions }
  | incRunning | decRunning       -- ctx.running++ / ctx.running--
  | brZero (k : Nat)              -- if ctx.running == 0 { k instructions }
  | brPos (k : Nat)               -- for ctx.running > 0 { k instructions, the last one `jmpBack k` }
  | jmpBack (k : Nat)
  | broadcast | condWait          -- ctx.idle.Broadcast() / ctx.idle.Wait()
  | storeClosing | storeClosed    -- ctx.closing = true / ctx.closed = true
  | callbacks                     -- ctx.store.OnContextClosed()
  | closeDone                     -- close(ctx.done)
  | onceDo (k : Nat)              -- ctx.closeOnce.Do(func() { k instructions, the last one `onceEnd` })
  | onceEnd
  | waitDone                      -- <-ctx.Done()
  | wgAdd | wgDone | wgWait       -- sync.WaitGroup (code before the fix only)
  | ret (e : Option Bool) (k : Nat) -- return (some true = error, some false = nil, none = no result); `k` filled in by inlining
  | brErr (k : Nat)               -- if err != nil { k instructions }
  | body                          -- the admitted Python run itself (vm.EvalCode); thread-local, observable
  | work                          -- other admitted Go work between lifecycle calls (compile, NewModule, file lookup); thread-local
deriving DecidableEq, Repr, Inhabited

/-- prologue/epilogue actions of the three execution entry points -/
inductive EAct
  | pushBusy | deferPopBusy | ifErrReturn | body | work | callRunCode | callModuleInit
deriving DecidableEq, Repr, Inhabited

/-- the extracted program text -/
structure Src where
  pushBusy : List Instr
  popBusy : List Instr
  close : List Instr
  runCode : List EAct
  moduleInit : List EAct
  resolve : List EAct
deriving DecidableEq, Repr

/-- the code BEFORE the fix commit (transcribed by hand from git history):
```
func pushBusy() error { if ctx.closed { return err }; ctx.running.Add(1); return nil }
func popBusy()        { ctx.running.Done() }   (extract/lifecycle -allow-missing-yields on the pre-fix source prints exactly this value)
func Close()          { closeOnce.Do(func(){ closing = true; running.Wait(); closed = true; callbacks; close(done) }) }
func RunCode(..)      { err := pushBusy(); defer popBusy(); if err != nil { return err }; body }
``` -/
def origSrc : Src where
  pushBusy := [.brClosed 1, .ret (some true) 0, .wgAdd, .ret (some false) 0]
  popBusy := [.wgDone]
  close := [.onceDo 6, .storeClosing, .wgWait, .storeClosed, .callbacks, .closeDone, .onceEnd, .ret (some false) 0]
  runCode := [.pushBusy, .deferPopBusy, .ifErrReturn, .body]
  moduleInit := [.pushBusy, .deferPopBusy, .ifErrReturn, .work, .callRunCode, .ifErrReturn]
  resolve := [.pushBusy, .deferPopBusy, .ifErrReturn, .work]

/-- inline a function body: every `ret` jumps to the end of the inlined block -/
def inlineFn (f : List Instr) : List Instr :=
  go f.length f
where
  go (n : Nat) : List Instr → List Instr
    | [] => []
    | .ret e _ :: r => .ret e r.length :: go n r
    | i :: r => i :: go n r

/-- flatten an entry point into one instruction list.  `d` = a `defer popBusy()` is active;
`callee`/`callee2` = the already flattened RunCode / ModuleInit. -/
def flatten (push pop callee callee2 : List Instr) : List EAct → Bool → List Instr
  | [], d => if d then inlineFn pop else []
  | .pushBusy :: r, d => inlineFn push ++ flatten push pop callee callee2 r d
  | .deferPopBusy :: r, _ => flatten push pop callee callee2 r true
  | .ifErrReturn :: r, d =>
      let blk := if d then inlineFn pop else []
      let rest := flatten push pop callee callee2 r d
      [.brErr (blk.length + 1)] ++ blk ++ [.ret none rest.length] ++ rest
  | .body :: r, d => .body :: flatten push pop callee callee2 r d
  | .work :: r, d => .work :: flatten push pop callee callee2 r d
  | .callRunCode :: r, d => callee ++ flatten push pop callee callee2 r d
  | .callModuleInit :: r, d => callee2 ++ flatten push pop callee callee2 r d

/-- what a thread does -/
inductive Kind
  | runCode        -- ctx.RunCode(code …)
  | moduleInit     -- ctx.ModuleInit(impl) whose module body is run by the nested RunCode
  | resolve        -- ctx.ResolveAndCompile(path …)
  | close          -- ctx.Close()
  | waitDone       -- <-ctx.Done()
  | runImport      -- ctx.RunCode of code that imports: RunCode ⊃ ModuleInit ⊃ RunCode
deriving DecidableEq, Repr, Inhabited

def Kind.all : List Kind := [.runCode, .moduleInit, .resolve, .close, .waitDone, .runImport]

def Kind.isExec : Kind → Bool
  | .close | .waitDone => false
  | _ => true

/-- number of `body` sections (Python runs) a fully admitted execution of this kind performs -/
def Kind.bodies : Kind → Nat
  | .runCode => 1 | .moduleInit => 1 | .resolve => 0 | .runImport => 3 | _ => 0

def Src.runCodeProg (S : Src) : List Instr := flatten S.pushBusy S.popBusy [] [] S.runCode false
def Src.moduleInitProg (S : Src) : List Instr := flatten S.pushBusy S.popBusy S.runCodeProg [] S.moduleInit false
/-- the flat program of each thread kind -/
def Src.prog (S : Src) : Kind → List Instr
  | .runCode => S.runCodeProg
  | .moduleInit => S.moduleInitProg
  | .resolve => flatten S.pushBusy S.popBusy [] [] S.resolve false
  | .close => inlineFn S.close
  | .waitDone => [.waitDone]
  | .runImport =>
      -- the prologue/epilogue of RunCode around: body, nested ModuleInit, body
      flatten S.pushBusy S.popBusy S.runCodeProg S.moduleInitProg
        (S.runCode.flatMap fun a => if a = .body then [.body, .callModuleInit, .body] else [a]) false

inductive Once | idle | active (t : Nat) | done
deriving DecidableEq, Repr, Inhabited

/-- shared state of one context (+ ghost fields used only by specifications) -/
structure Shared where
  mu : Option Nat := none      -- ctx.mu: the holder
  closing : Bool := false
  closed : Bool := false
  running : Int := 0           -- ctx.running (int) of the fixed code
  wg : Int := 0                -- ctx.running (sync.WaitGroup) of the code before the fix
  once : Once := .idle         -- ctx.closeOnce
  doneClosed : Bool := false   -- ctx.done is closed
  callbacks : Nat := 0         -- how often store.OnContextClosed() ran
  gen : Nat := 0               -- number of Broadcasts so far
  pend : Bool := false         -- ghost: running dropped to 0 and no Broadcast yet
  lateAdmit : Bool := false    -- ghost: an execution was admitted after the callbacks ran
deriving DecidableEq, Repr, Inhabited

structure Thread where
  kind : Kind
  pc : Nat := 0
  err : Bool := false          -- the `err` result of the last returning call
  bodies : Nat := 0            -- observable: how many `body` sections ran
  sleep : Option Nat := none   -- parked inside Cond.Wait since Broadcast generation …
  panicked : Bool := false
  started : Bool := false
  afterClose : Bool := false   -- ghost: a Close had completed (Once done) when this thread took its first step
  adm : Bool := false          -- ghost: was admitted at least once
  holds : Nat := 0             -- ghost: admissions this thread currently holds (admitted and not yet released)
deriving DecidableEq, Repr, Inhabited

structure State where
  sh : Shared := {}
  ths : List Thread
deriving DecidableEq, Repr

def State.init (kinds : List Kind) : State := { ths := kinds.map fun k => { kind := k } }

/-- mark the first step of a thread -/
def Thread.start (th : Thread) (sh : Shared) : Thread :=
  if th.started then th else { th with started := true, afterClose := sh.once == .done }

def Thread.goto (th : Thread) (pc : Nat) : Thread := { th with pc := pc }
def Thread.br (th : Thread) (c : Bool) (k : Nat) : Thread := { th with pc := if c then th.pc + 1 else th.pc + 1 + k }
def Thread.panic (th : Thread) : Thread := { th with panicked := true }

/-- the effect of one instruction `ins` of thread `t` (local state `th`) on the shared state;
`none` = not enabled (blocked).  Go's rules: Unlock of an unlocked mutex is fatal, Cond.Wait
unlocks first, WaitGroup counter < 0 panics, close of a closed channel panics, Once.Do blocks
later callers until the first has returned. -/
def execI (ins : Instr) (sh : Shared) (t : Nat) (th : Thread) : Option (Shared × Thread) :=
  match ins with
  | .lock => if sh.mu = none then some ({ sh with mu := some t }, th.goto (th.pc + 1)) else none
  | .unlock => if sh.mu = none then some (sh, th.panic) else some ({ sh with mu := none }, th.goto (th.pc + 1))
  | .brClosed k => some (sh, th.br sh.closed k)
  | .incRunning => some ({ sh with running := sh.running + 1, pend := false, lateAdmit := (sh.lateAdmit || decide (sh.callbacks > 0)) },
                         { th with pc := th.pc + 1, adm := true, holds := th.holds + 1 })
  | .decRunning => some ({ sh with running := sh.running - 1, pend := decide (sh.running - 1 = 0) }, { th with pc := th.pc + 1, holds := th.holds - 1 })
  | .brZero k => some (sh, th.br (decide (sh.running = 0)) k)
  | .brPos k => some (sh, th.br (decide (sh.running > 0)) k)
  | .jmpBack k => some (sh, th.goto (th.pc - k))
  | .broadcast => some ({ sh with gen := sh.gen + 1, pend := false }, th.goto (th.pc + 1))
  | .condWait =>
    match th.sleep with
    | none => if sh.mu = none then some (sh, th.panic)
              else some ({ sh with mu := none }, { th with sleep := some sh.gen })
    | some g => if sh.gen > g ∧ sh.mu = none
                then some ({ sh with mu := some t }, { th with pc := th.pc + 1, sleep := none }) else none
  | .storeClosing => some ({ sh with closing := true }, th.goto (th.pc + 1))
  | .storeClosed => some ({ sh with closed := true }, th.goto (th.pc + 1))
  | .callbacks => some ({ sh with callbacks := sh.callbacks + 1 }, th.goto (th.pc + 1))
  | .closeDone => if sh.doneClosed then some (sh, th.panic) else some ({ sh with doneClosed := true }, th.goto (th.pc + 1))
  | .onceDo k =>
    match sh.once with
    | .idle => some ({ sh with once := .active t }, th.goto (th.pc + 1))
    | .done => some (sh, th.goto (th.pc + 1 + k))
    | .active _ => none
  | .onceEnd => some ({ sh with once := .done }, th.goto (th.pc + 1))
  | .waitDone => if sh.doneClosed then some (sh, th.goto (th.pc + 1)) else none
  | .wgAdd => some ({ sh with wg := sh.wg + 1, lateAdmit := (sh.lateAdmit || decide (sh.callbacks > 0)) },
                    { th with pc := th.pc + 1, adm := true, holds := th.holds + 1 })
  | .wgDone => if sh.wg - 1 < 0 then some (sh, th.panic) else some ({ sh with wg := sh.wg - 1 }, { th with pc := th.pc + 1, holds := th.holds - 1 })
  | .wgWait => if sh.wg = 0 then some (sh, th.goto (th.pc + 1)) else none
  | .ret e k => some (sh, { th with pc := th.pc + 1 + k, err := e.getD th.err })
  | .brErr k => some (sh, th.br th.err k)
  | .body => some (sh, { th with pc := th.pc + 1, bodies := th.bodies + 1 })
  | .work => some (sh, th.goto (th.pc + 1))

/-- one instruction of thread `t`; `none` = not enabled (blocked, finished or dead) -/
def exec (P : Kind → List Instr) (sh : Shared) (t : Nat) (th : Thread) : Option (Shared × Thread) :=
  if th.panicked then none else
  match (P th.kind)[th.pc]? with
  | none => none
  | some ins => execI ins sh t (th.start sh)

/-- thread `t` takes one step -/
def step (P : Kind → List Instr) (s : State) (t : Nat) : Option State :=
  match s.ths[t]? with
  | none => none
  | some th =>
    match exec P s.sh t th with
    | none => none
    | some (sh', th') => some { sh := sh', ths := s.ths.set t th' }

/-- run a schedule (list of thread ids); `none` if some scheduled thread was not enabled -/
def runSched (P : Kind → List Instr) : State → List Nat → Option State
  | s, [] => some s
  | s, t :: r => match step P s t with
    | none => none
    | some s' => runSched P s' r

def Thread.finished (P : Kind → List Instr) (th : Thread) : Bool := decide ((P th.kind).length ≤ th.pc)

/-- states reachable from an initial state by any schedule -/
inductive Reachable (P : Kind → List Instr) (kinds : List Kind) : State → Prop
  | init : Reachable P kinds (State.init kinds)
  | step {s s' t} : Reachable P kinds s → step P s t = some s' → Reachable P kinds s'

end GPy.C09
