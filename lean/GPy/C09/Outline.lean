/-
C09 proof outline machinery (core Lean only): an Owicki–Gries style annotation of a flat
program with one abstract fact record per (pc, err) and a decidable checker `check`.
`Proofs.lean` proves, once and for all programs, that a checked annotation makes the
invariant inductive; `Props.lean` checks the annotation of the regenerated program by `decide`.
-/
import GPy.C09.Model
namespace GPy.C09

/-- what a thread knows/owns at a program point -/
structure Abs where
  mu : Bool := false      -- holds ctx.mu
  held : Nat := 0         -- admissions it holds (its share of ctx.running)
  nc : Bool := false      -- knows closed = false   (valid while it holds mu)
  zero : Bool := false    -- knows running = 0      (valid while it holds mu)
  pos : Bool := false     -- knows running > 0      (valid while it holds mu)
  owe : Bool := false     -- decremented running and has not yet tested it / broadcast
  once : Bool := false    -- is inside closeOnce.Do
  cl : Bool := false      -- (inside once) closed has been set
  cb : Bool := false      -- (inside once) callbacks have run
  dn : Bool := false      -- (inside once) done has been closed
  od : Bool := false      -- knows the Once is done (stable)
  adm : Bool := false     -- was admitted at least once on every path to here
  nb : Bool := true       -- no Python body has run on any path to here
deriving DecidableEq, Repr, Inhabited

/-- `a.le b`: `b` is `a` with some knowledge forgotten -/
def Abs.le (a b : Abs) : Bool :=
  a.mu == b.mu && a.held == b.held && a.owe == b.owe && a.once == b.once && a.cl == b.cl && a.cb == b.cb && a.dn == b.dn
  && (!b.nc || a.nc) && (!b.zero || a.zero) && (!b.pos || a.pos) && (!b.od || a.od) && (!b.adm || a.adm) && (!b.nb || a.nb)

/-- at the end of a program nothing may be owned -/
def Abs.clean (a : Abs) : Bool := !a.mu && a.held == 0 && !a.once && !a.owe

/-- annotation: per pc the facts for err = false and err = true (`none` = unreachable) -/
abbrev Annot := List (Option Abs × Option Abs)

def Annot.at (A : Annot) (pc : Nat) (e : Bool) : Option Abs :=
  match A[pc]? with
  | none => none
  | some (a, b) => if e then b else a

/-- precondition and successors of an instruction under facts `a` -/
def transfer (i : Instr) (pc : Nat) (e : Bool) (a : Abs) : Option (List (Nat × Bool × Abs)) :=
  match i with
  | .lock => if !a.mu && !a.owe then some [(pc + 1, e, { a with mu := true, nc := false, zero := false, pos := false })] else none
  | .unlock => if a.mu && !a.owe then some [(pc + 1, e, { a with mu := false, nc := false, zero := false, pos := false })] else none
  | .brClosed k =>
    -- an execution that holds an admission cannot see closed = true (closed ⇒ running = 0): that branch is dead
    if a.mu then (if decide (a.held > 0) then some [(pc + 1 + k, e, { a with nc := true })]
                  else some [(pc + 1, e, a), (pc + 1 + k, e, { a with nc := true })]) else none
  | .incRunning => if a.mu && a.nc then some [(pc + 1, e, { a with held := a.held + 1, adm := true, zero := false, pos := false })] else none
  -- a thread that holds an admission knows running > 0, hence closed = false (closed ⇒ running = 0); the fact stays
  -- valid after the decrement for as long as it keeps the mutex (only the mutex holder writes `closed`)
  | .decRunning => if a.mu && decide (a.held > 0) then some [(pc + 1, e, { a with held := a.held - 1, owe := true, zero := false, pos := false, nc := true })] else none
  | .brZero k => if a.mu then some [(pc + 1, e, a), (pc + 1 + k, e, { a with owe := false })] else none
  | .brPos k => if a.mu then some [(pc + 1, e, { a with pos := true }), (pc + 1 + k, e, { a with zero := true })] else none
  | .jmpBack k => if decide (k ≤ pc) then some [(pc - k, e, a)] else none
  | .broadcast => if a.mu then some [(pc + 1, e, { a with owe := false })] else none
  | .condWait => if a.mu && a.once && a.held == 0 && a.pos && !a.owe
                 then some [(pc + 1, e, { a with nc := false, zero := false, pos := false })] else none
  | .storeClosing => if a.mu then some [(pc + 1, e, a)] else none
  | .storeClosed => if a.mu && a.zero && a.once then some [(pc + 1, e, { a with cl := true, nc := false })] else none
  | .callbacks => if a.once && a.cl && !a.cb then some [(pc + 1, e, { a with cb := true })] else none
  | .closeDone => if a.once && a.cb && !a.dn then some [(pc + 1, e, { a with dn := true })] else none
  | .onceDo k => if !a.mu && !a.once && a.held == 0
                 then some [(pc + 1, e, { a with once := true, cl := false, cb := false, dn := false }), (pc + 1 + k, e, { a with od := true })] else none
  | .onceEnd => if a.once && a.cl && a.cb && a.dn && !a.mu
                then some [(pc + 1, e, { a with once := false, cl := false, cb := false, dn := false, od := true })] else none
  | .waitDone => if !a.mu && !a.once && a.held == 0 then some [(pc + 1, e, a)] else none
  | .wgAdd | .wgDone | .wgWait => none
  | .ret eo k => some [(pc + 1 + k, eo.getD e, a)]
  | .brErr k => if e then some [(pc + 1, e, a)] else some [(pc + 1 + k, e, a)]
  | .body => if decide (a.held > 0) then some [(pc + 1, e, { a with nb := false })] else none
  | .work => some [(pc + 1, e, a)]

def okSucc (A : Annot) (x : Nat × Bool × Abs) : Bool :=
  match A.at x.1 x.2.1 with
  | some b => x.2.2.le b
  | none => false

def checkAt (p : List Instr) (A : Annot) (pc : Nat) (e : Bool) : Bool :=
  match A.at pc e with
  | none => true
  | some a =>
    match p[pc]? with
    | none => a.clean
    | some i =>
      match transfer i pc e a with
      | none => false
      | some l => l.all (okSucc A)

/-- the annotation is a valid proof outline of the program -/
def check (p : List Instr) (A : Annot) : Bool :=
  A.length == p.length + 1 && A.at 0 false == some {} &&
  (List.range (p.length + 1)).all fun pc => checkAt p A pc false && checkAt p A pc true

/-! ### inference (development aid and `gpymodel` search helper; never trusted: `check` validates) -/

def Abs.meet (a b : Abs) : Abs :=
  { a with nc := a.nc && b.nc, zero := a.zero && b.zero, pos := a.pos && b.pos, od := a.od && b.od, adm := a.adm && b.adm, nb := a.nb && b.nb }

def Annot.join (A : Annot) (pc : Nat) (e : Bool) (a : Abs) : Annot :=
  match A[pc]? with
  | none => A
  | some (x, y) =>
    let m (o : Option Abs) : Option Abs := match o with | none => some a | some b => some (b.meet a)
    A.set pc (if e then (x, m y) else (m x, y))

/-- one forward propagation pass -/
def inferRound (p : List Instr) (A : Annot) : Annot :=
  (List.range p.length).foldl (fun A pc =>
    [false, true].foldl (fun A e =>
      match A.at pc e, p[pc]? with
      | some a, some i =>
        match transfer i pc e a with
        | some l => l.foldl (fun A x => A.join x.1 x.2.1 x.2.2) A
        | none => A
      | _, _ => A) A) A

/-- forward dataflow, a fixed number of passes (the programs have one backward jump); written with
structural recursion only so that the kernel can evaluate it inside `decide` -/
def infer (p : List Instr) : Annot :=
  (List.range 4).foldl (fun A _ => inferRound p A) ((List.replicate (p.length + 1) (none, none)).set 0 (some {}, none))

end GPy.C09
