/-
C09 proofs: a checked proof outline (`check p A = true`, Outline.lean) makes the global
invariant `Inv` inductive for ANY number of threads and ANY schedule; consequences.
-/
import GPy.C09.ProofsOwn
import GPy.C09.ProofsOther
import GPy.C09.ProofsFrame
namespace GPy.C09

/-! ### the global invariant -/

def holdsSum (ths : List Thread) : Nat := (ths.map (·.holds)).sum

theorem holdsSum_set (l : List Thread) (t : Nat) (th th' : Thread) (h : l[t]? = some th) :
    holdsSum (l.set t th') + th.holds = holdsSum l + th'.holds := by
  induction l generalizing t with
  | nil => simp at h
  | cons x xs ih =>
    cases t with
    | zero =>
      simp at h; subst h
      simp [holdsSum]; omega
    | succ n =>
      simp at h
      have := ih n h
      simp [holdsSum] at this ⊢; omega

theorem holds_le_sum (l : List Thread) (t : Nat) (th : Thread) (h : l[t]? = some th) : th.holds ≤ holdsSum l := by
  induction l generalizing t with
  | nil => simp at h
  | cons x xs ih =>
    cases t with
    | zero => simp at h; subst h; simp [holdsSum]
    | succ n => simp at h; have := ih n h; simp [holdsSum] at this ⊢; omega

theorem sum_zero_all (l : List Thread) (h : holdsSum l = 0) : ∀ th ∈ l, th.holds = 0 := by
  induction l with
  | nil => simp
  | cons x xs ih =>
    simp [holdsSum] at h
    intro th hth
    cases hth with
    | head => exact h.1
    | tail _ hm => exact ih (by simpa [holdsSum] using h.2) th hm

/-- the invariant: every thread's annotated facts hold, the counter equals the number of admitted
unfinished executions, the Once/closed/callbacks/done fields are consistent, no wake-up is lost -/
structure Inv (P : Kind → List Instr) (An : Kind → Annot) (s : State) : Prop where
  loc : ∀ (u : Nat) (th : Thread), s.ths[u]? = some th → ∃ a, (An th.kind).at th.pc th.err = some a ∧ Local P s.sh u th a
  gs : GS s.sh
  sum : s.sh.running = (holdsSum s.ths : Int)
  onceAct : ∀ v, s.sh.once = .active v → v < s.ths.length
  muVal : ∀ v, s.sh.mu = some v → v < s.ths.length
  wake : ∀ (w : Nat) (th : Thread) (g : Nat), s.ths[w]? = some th → th.sleep = some g → s.sh.gen > g ∨ s.sh.running > 0 ∨ s.sh.pend = true

theorem Local.start {P sh u th a} (h : Local P sh u th a) : Local P sh u (th.start sh) a := by
  unfold Thread.start
  split
  · exact h
  · rename_i hns
    have hf := h.fresh (by simpa using hns)
    obtain ⟨l1, l2, l3, l4, l5, l6, l7, l8, l9, l10, l11, l12, l13, l14, l15, l16, l17, l18⟩ := h
    constructor <;> simp_all

/-- everything one instruction of thread `t` establishes -/
theorem step_all {P : Kind → List Instr} {A : Annot} {sh sh' : Shared} {t : Nat} {th th' : Thread} {a : Abs} {i : Instr}
    (hS : Sound (P th.kind) A) (ha : A.at th.pc th.err = some a) (hi : (P th.kind)[th.pc]? = some i)
    (hL : Local P sh t th a) (hst : th.started = true) (hG : GS sh) (hholds : (th.holds : Int) ≤ sh.running)
    (hx : execI i sh t th = some (sh', th')) :
    OwnOK P A sh' t th th' ∧ Frame sh sh' t th th' ∧
      ∀ u thu au, u ≠ t → Local P sh u thu au → Local P sh' u thu au := by
  have hok := hS.ok _ _ _ ha
  rw [hi] at hok
  obtain ⟨l, htr, -⟩ := hok
  have hsl : i ≠ Instr.condWait → th.sleep = none := by
    intro hne
    cases hs : th.sleep with
    | none => rfl
    | some g => have := (hL.sleep g hs).1; rw [hi] at this; exact absurd (Option.some.inj this) hne
  cases i with
  | lock => exact ⟨own_lock hS ha hi hL hst hG hholds hx, frame_lock hG hL hholds hsl htr hx, fun u thu au hne hu => oth_lock hne hu hL hsl htr hx⟩
  | unlock => exact ⟨own_unlock hS ha hi hL hst hG hholds hx, frame_unlock hG hL hholds hsl htr hx, fun u thu au hne hu => oth_unlock hne hu hL hsl htr hx⟩
  | brClosed k => exact ⟨own_brClosed hS ha hi hL hst hG hholds hx, frame_brClosed hG hL hholds hsl htr hx, fun u thu au hne hu => oth_brClosed hne hu hL hsl htr hx⟩
  | incRunning => exact ⟨own_incRunning hS ha hi hL hst hG hholds hx, frame_incRunning hG hL hholds hsl htr hx, fun u thu au hne hu => oth_incRunning hne hu hL hsl htr hx⟩
  | decRunning => exact ⟨own_decRunning hS ha hi hL hst hG hholds hx, frame_decRunning hG hL hholds hsl htr hx, fun u thu au hne hu => oth_decRunning hne hu hL hsl htr hx⟩
  | brZero k => exact ⟨own_brZero hS ha hi hL hst hG hholds hx, frame_brZero hG hL hholds hsl htr hx, fun u thu au hne hu => oth_brZero hne hu hL hsl htr hx⟩
  | brPos k => exact ⟨own_brPos hS ha hi hL hst hG hholds hx, frame_brPos hG hL hholds hsl htr hx, fun u thu au hne hu => oth_brPos hne hu hL hsl htr hx⟩
  | jmpBack k => exact ⟨own_jmpBack hS ha hi hL hst hG hholds hx, frame_jmpBack hG hL hholds hsl htr hx, fun u thu au hne hu => oth_jmpBack hne hu hL hsl htr hx⟩
  | broadcast => exact ⟨own_broadcast hS ha hi hL hst hG hholds hx, frame_broadcast hG hL hholds hsl htr hx, fun u thu au hne hu => oth_broadcast hne hu hL hsl htr hx⟩
  | condWait => exact ⟨own_condWait hS ha hi hL hst hG hholds hx, frame_condWait hG hL hholds hsl htr hx, fun u thu au hne hu => oth_condWait hne hu hL hsl htr hx⟩
  | storeClosing => exact ⟨own_storeClosing hS ha hi hL hst hG hholds hx, frame_storeClosing hG hL hholds hsl htr hx, fun u thu au hne hu => oth_storeClosing hne hu hL hsl htr hx⟩
  | storeClosed => exact ⟨own_storeClosed hS ha hi hL hst hG hholds hx, frame_storeClosed hG hL hholds hsl htr hx, fun u thu au hne hu => oth_storeClosed hne hu hL hsl htr hx⟩
  | callbacks => exact ⟨own_callbacks hS ha hi hL hst hG hholds hx, frame_callbacks hG hL hholds hsl htr hx, fun u thu au hne hu => oth_callbacks hne hu hL hsl htr hx⟩
  | closeDone => exact ⟨own_closeDone hS ha hi hL hst hG hholds hx, frame_closeDone hG hL hholds hsl htr hx, fun u thu au hne hu => oth_closeDone hne hu hL hsl htr hx⟩
  | onceDo k => exact ⟨own_onceDo hS ha hi hL hst hG hholds hx, frame_onceDo hG hL hholds hsl htr hx, fun u thu au hne hu => oth_onceDo hne hu hL hsl htr hx⟩
  | onceEnd => exact ⟨own_onceEnd hS ha hi hL hst hG hholds hx, frame_onceEnd hG hL hholds hsl htr hx, fun u thu au hne hu => oth_onceEnd hne hu hL hsl htr hx⟩
  | waitDone => exact ⟨own_waitDone hS ha hi hL hst hG hholds hx, frame_waitDone hG hL hholds hsl htr hx, fun u thu au hne hu => oth_waitDone hne hu hL hsl htr hx⟩
  | wgAdd => simp [transfer] at htr
  | wgDone => simp [transfer] at htr
  | wgWait => simp [transfer] at htr
  | ret eo k => exact ⟨own_ret hS ha hi hL hst hG hholds hx, frame_ret hG hL hholds hsl htr hx, fun u thu au hne hu => oth_ret hne hu hL hsl htr hx⟩
  | brErr k => exact ⟨own_brErr hS ha hi hL hst hG hholds hx, frame_brErr hG hL hholds hsl htr hx, fun u thu au hne hu => oth_brErr hne hu hL hsl htr hx⟩
  | body => exact ⟨own_body hS ha hi hL hst hG hholds hx, frame_body hG hL hholds hsl htr hx, fun u thu au hne hu => oth_body hne hu hL hsl htr hx⟩
  | work => exact ⟨own_work hS ha hi hL hst hG hholds hx, frame_work hG hL hholds hsl htr hx, fun u thu au hne hu => oth_work hne hu hL hsl htr hx⟩

theorem Thread.start_kind (th : Thread) (sh : Shared) : (th.start sh).kind = th.kind := by unfold Thread.start; split <;> rfl
theorem Thread.start_pc (th : Thread) (sh : Shared) : (th.start sh).pc = th.pc := by unfold Thread.start; split <;> rfl
theorem Thread.start_err (th : Thread) (sh : Shared) : (th.start sh).err = th.err := by unfold Thread.start; split <;> rfl
theorem Thread.start_holds (th : Thread) (sh : Shared) : (th.start sh).holds = th.holds := by unfold Thread.start; split <;> rfl
theorem Thread.start_started (th : Thread) (sh : Shared) : (th.start sh).started = true := by
  unfold Thread.start; split <;> simp_all

/-- the invariant is preserved by every step of every thread -/
theorem inv_step {P : Kind → List Instr} {An : Kind → Annot} (hS : ∀ k, Sound (P k) (An k))
    {s s' : State} {t : Nat} (hI : Inv P An s) (h : step P s t = some s') : Inv P An s' := by
  unfold step at h
  cases hth : s.ths[t]? with
  | none => simp [hth] at h
  | some th0 =>
    simp only [hth] at h
    cases hex : exec P s.sh t th0 with
    | none => simp [hex] at h
    | some r =>
      obtain ⟨sh', th'⟩ := r
      simp only [hex, Option.some.injEq] at h
      subst h
      unfold exec at hex
      split at hex
      · exact absurd hex (by simp)
      · cases hi : (P th0.kind)[th0.pc]? with
        | none => simp [hi] at hex
        | some i =>
          simp only [hi] at hex
          obtain ⟨a, ha, hL0⟩ := hI.loc t th0 hth
          have hL := hL0.start
          have hle : ((th0.start s.sh).holds : Int) ≤ s.sh.running := by
            rw [Thread.start_holds, hI.sum]; exact_mod_cast holds_le_sum _ _ _ hth
          have hi' : (P (th0.start s.sh).kind)[(th0.start s.sh).pc]? = some i := by
            rw [Thread.start_kind, Thread.start_pc]; exact hi
          have ha' : (An (th0.start s.sh).kind).at (th0.start s.sh).pc (th0.start s.sh).err = some a := by
            rw [Thread.start_kind, Thread.start_pc, Thread.start_err]; exact ha
          obtain ⟨⟨hk, a', ha2, hL2⟩, hF, hO⟩ :=
            step_all (hS _) ha' hi' hL (Thread.start_started _ _) hI.gs hle hex
          have htlt : t < s.ths.length := (List.getElem?_eq_some_iff.mp hth).1
          refine ⟨?_, hF.gs, ?_, ?_, ?_, ?_⟩
          · intro u thu hu
            by_cases hut : u = t
            · subst hut
              simp [htlt] at hu
              subst hu
              refine ⟨a', ?_, hL2⟩
              rw [hk, Thread.start_kind] at *
              exact ha2
            · rw [List.getElem?_set_ne (fun h => hut h.symm)] at hu
              obtain ⟨au, hau, hLu⟩ := hI.loc u thu hu
              exact ⟨au, hau, hO u thu au hut hLu⟩
          · have h1 := holdsSum_set s.ths t th0 th' hth
            have h2 := hF.delta
            rw [Thread.start_holds] at h2
            have h3 := hI.sum
            show sh'.running = ((holdsSum (s.ths.set t th') : Nat) : Int)
            omega
          · intro v hv
            simp only [List.length_set]
            cases hF.onceAct v hv with
            | inl h => exact hI.onceAct v h
            | inr h => omega
          · intro v hv
            simp only [List.length_set]
            cases hF.muVal v hv with
            | inl h => exact hI.muVal v h
            | inr h => omega
          · intro w thw g hw hsg
            by_cases hwt : w = t
            · subst hwt
              simp [htlt] at hw
              subst hw
              exact Or.inr (Or.inl (hF.ownSleep g hsg))
            · rw [List.getElem?_set_ne (fun h => hwt h.symm)] at hw
              obtain ⟨au, -, hLw⟩ := hI.loc w thw hw
              have hg := (hLw.sleep g hsg).2.1
              have hm := hF.genMono
              rcases hI.wake w thw g hw hsg with h | h | h
              · left; show sh'.gen > g; omega
              · rcases hF.runPos h with h' | h'
                · exact Or.inr (Or.inl h')
                · exact Or.inr (Or.inr h')
              · rcases hF.pendKeep h with h' | h' | h'
                · exact Or.inr (Or.inr h')
                · left; show sh'.gen > g; omega
                · exact Or.inr (Or.inl h')

theorem holdsSum_init (kinds : List Kind) : holdsSum (kinds.map fun k => ({ kind := k } : Thread)) = 0 := by
  induction kinds with
  | nil => rfl
  | cons k ks ih => simp [holdsSum] at ih ⊢; exact ih

/-- the invariant holds initially -/
theorem inv_init {P : Kind → List Instr} {An : Kind → Annot} (hS : ∀ k, Sound (P k) (An k)) (kinds : List Kind) :
    Inv P An (State.init kinds) := by
  refine ⟨?_, ?_, ?_, ?_, ?_, ?_⟩
  · intro u th hu
    simp [State.init, List.getElem?_map] at hu
    obtain ⟨k, -, rfl⟩ := hu
    refine ⟨{}, (hS k).init, ?_⟩
    constructor <;> simp [State.init]
  · constructor <;> simp [State.init]
  · simp [State.init, holdsSum_init]
  · intro v hv; simp [State.init] at hv
  · intro v hv; simp [State.init] at hv
  · intro w th g hw hs
    simp [State.init, List.getElem?_map] at hw
    obtain ⟨k, -, rfl⟩ := hw
    simp at hs

/-- the invariant holds in every reachable state -/
theorem inv_reachable {P : Kind → List Instr} {An : Kind → Annot} (hS : ∀ k, Sound (P k) (An k)) {kinds : List Kind}
    {s : State} (h : Reachable P kinds s) : Inv P An s := by
  induction h with
  | init => exact inv_init hS kinds
  | step _ hst ih => exact inv_step hS ih hst

/-! ### consequences of the invariant: the clauses of the property -/

theorem mem_idx {l : List Thread} {th : Thread} (h : th ∈ l) : ∃ u : Nat, l[u]? = some th := by
  obtain ⟨u, hu, rfl⟩ := List.getElem_of_mem h
  exact ⟨u, by simp [hu]⟩

theorem Inv.noPanic {P An s} (hI : Inv P An s) : NoPanic s := by
  intro th hth
  obtain ⟨u, hu⟩ := mem_idx hth
  obtain ⟨a, -, hL⟩ := hI.loc u th hu
  exact hL.nopanic

theorem Inv.idle_of_closed {P An s} (hI : Inv P An s) (hc : s.sh.closed = true) : ∀ th ∈ s.ths, th.holds = 0 := by
  have h0 := hI.gs.closedZero hc
  have hs := hI.sum
  rw [h0] at hs
  exact sum_zero_all _ (by exact_mod_cast hs.symm)

theorem Inv.doneSafe {P An s} (hI : Inv P An s) : DoneSafe s := by
  intro hd
  have hcb := hI.gs.dnCb hd
  exact ⟨hcb, hI.idle_of_closed (hI.gs.cbClosed (by omega))⟩

theorem Inv.callbacksOnce {P An s} (hI : Inv P An s) : CallbacksOnce s := hI.gs.cbLe

theorem Inv.noLateAdmission {P An s} (hI : Inv P An s) : NoLateAdmission s :=
  ⟨hI.gs.late, fun hcb => hI.idle_of_closed (hI.gs.cbClosed hcb)⟩

/-- every access to closed/closing/running happens with the mutex held (data-race freedom of the protocol) -/
def Instr.touchesShared : Instr → Bool
  | .brClosed _ | .incRunning | .decRunning | .brZero _ | .brPos _ | .storeClosing | .storeClosed | .broadcast | .condWait => true
  | _ => false

theorem Inv.syncAccess {P An s} (hS : ∀ k, Sound (P k) (An k)) (hI : Inv P An s) :
    ∀ u th i, s.ths[u]? = some th → th.next P = some i → i.touchesShared = true → th.sleep = none → s.sh.mu = some u := by
  intro u th i hu hi ht hsl
  obtain ⟨a, ha, hL⟩ := hI.loc u th hu
  have hok := (hS th.kind).ok _ _ _ ha
  unfold Thread.next at hi
  rw [hi] at hok
  obtain ⟨l, htr, -⟩ := hok
  have hmu : a.mu = true := by
    cases i <;> simp [Instr.touchesShared] at ht <;> simp [transfer] at htr <;> simp_all
  exact hL.mu_iff.mp ⟨hmu, hsl⟩

/-- facts about the annotation at the end of a program -/
def endOK (p : List Instr) (A : Annot) (f : Bool → Abs → Bool) : Bool :=
  (match A.at p.length false with | none => true | some a => f false a) &&
  (match A.at p.length true with | none => true | some a => f true a)

theorem endOK_elim {p : List Instr} {A : Annot} {f} (hS : Sound p A) (h : endOK p A f = true)
    {pc e a} (hpc : p.length ≤ pc) (ha : A.at pc e = some a) : f e a = true := by
  have hlt := Annot.at_lt ha
  have : pc = p.length := by have := hS.len; omega
  subst this
  unfold endOK at h
  simp only [Bool.and_eq_true] at h
  cases e
  · simpa [ha] using h.1
  · simpa [ha] using h.2

theorem Inv.closeWaits {P An s} (hS : ∀ k, Sound (P k) (An k))
    (hE : endOK (P .close) (An .close) (fun e a => !e && a.od) = true) (hI : Inv P An s) : CloseWaits P s := by
  intro th hth hk hfin
  obtain ⟨u, hu⟩ := mem_idx hth
  obtain ⟨a, ha, hL⟩ := hI.loc u th hu
  rw [hk] at ha
  have hf := endOK_elim (hS .close) hE (by simpa [Thread.finished, hk] using hfin) ha
  simp only [Bool.and_eq_true, Bool.not_eq_true'] at hf
  have hd := hI.gs.onceDone (hL.od hf.2)
  exact ⟨hf.1, hd.2.2, hd.2.1, hI.idle_of_closed hd.1⟩

theorem Inv.rejectAfterClose {P An s} (hS : ∀ k, Sound (P k) (An k))
    (hE : ∀ k, k.isExec = true → endOK (P k) (An k) (fun e a => e || a.adm) = true) (hI : Inv P An s) :
    RejectAfterClose P s := by
  intro th hth hk haft hfin
  obtain ⟨u, hu⟩ := mem_idx hth
  obtain ⟨a, ha, hL⟩ := hI.loc u th hu
  have hf := endOK_elim (hS th.kind) (hE _ hk) (by simpa [Thread.finished] using hfin) ha
  have hadm := (hL.after haft).2
  refine ⟨?_, ?_, hadm⟩
  · cases he : th.err with
    | true => rfl
    | false =>
      simp only [he, Bool.false_or] at hf
      have := hL.adm hf
      simp [hadm] at this
  · cases hb : th.bodies with
    | zero => rfl
    | succ n => have := hL.bodies (by omega); simp [hadm] at this

theorem Inv.allOrNothing {P An s} (hS : ∀ k, Sound (P k) (An k))
    (hE : ∀ k, k.isExec = true → endOK (P k) (An k) (fun e a => !e || a.nb) = true) (hI : Inv P An s) :
    AllOrNothing P s := by
  intro th hth hk hfin
  obtain ⟨u, hu⟩ := mem_idx hth
  obtain ⟨a, ha, hL⟩ := hI.loc u th hu
  have hlen : (P th.kind).length ≤ th.pc := by simpa [Thread.finished] using hfin
  have hf := endOK_elim (hS th.kind) (hE _ hk) hlen ha
  have hok := (hS th.kind).ok _ _ _ ha
  have hnone : (P th.kind)[th.pc]? = none := List.getElem?_eq_none hlen
  rw [hnone] at hok
  simp only [Abs.clean, Bool.and_eq_true, Bool.not_eq_true', beq_iff_eq] at hok
  refine ⟨by rw [hL.held]; exact hok.1.1.2, ?_⟩
  intro he
  simp only [he, Bool.not_true, Bool.false_or] at hf
  exact hL.nb hf

/-! ### deadlock freedom -/

theorem step_isSome {P : Kind → List Instr} {s : State} {t : Nat} {th : Thread} {i : Instr}
    (hth : s.ths[t]? = some th) (hp : th.panicked = false) (hi : (P th.kind)[th.pc]? = some i)
    (hx : (execI i s.sh t (th.start s.sh)).isSome = true) : Enabled P s t := by
  unfold Enabled step
  simp only [hth]
  unfold exec
  simp only [hp, Bool.false_eq_true, ↓reduceIte, hi]
  cases h : execI i s.sh t (th.start s.sh) with
  | none => simp [h] at hx
  | some r => simp

theorem Thread.start_sleep (th : Thread) (sh : Shared) : (th.start sh).sleep = th.sleep := by unfold Thread.start; split <;> rfl

/-- an instruction is enabled unless it is one of the blocking primitives in its blocking situation -/
theorem execI_isSome (i : Instr) (sh : Shared) (t : Nat) (th : Thread)
    (h1 : i = .lock → sh.mu = none)
    (h2 : ∀ k, i = .onceDo k → ∀ v, sh.once ≠ .active v)
    (h3 : i = .condWait → ∀ g, th.sleep = some g → sh.gen > g ∧ sh.mu = none)
    (h4 : i = .waitDone → sh.doneClosed = true)
    (h5 : i ≠ .wgWait) : (execI i sh t (th.start sh)).isSome = true := by
  cases i with
  | lock => simp [execI, h1 rfl]
  | onceDo k =>
    have := h2 k rfl
    cases ho : sh.once with
    | idle => simp [execI, ho]
    | done => simp [execI, ho]
    | active v => exact absurd ho (this v)
  | condWait =>
    cases hs : th.sleep with
    | none => simp only [execI, Thread.start_sleep, hs]; split <;> simp
    | some g => have := h3 rfl g hs; simp [execI, Thread.start_sleep, hs, this.1, this.2]
  | waitDone => simp [execI, h4 rfl]
  | wgWait => exact absurd rfl h5
  | unlock => simp only [execI]; split <;> simp
  | closeDone => simp only [execI]; split <;> simp
  | wgDone => simp only [execI]; split <;> simp
  | _ => simp [execI]

theorem exists_pos_of_sum {l : List Thread} (h : holdsSum l > 0) : ∃ th ∈ l, th.holds > 0 := by
  induction l with
  | nil => simp [holdsSum] at h
  | cons x xs ih =>
    by_cases hx : x.holds > 0
    · exact ⟨x, List.mem_cons_self, hx⟩
    · have : holdsSum xs > 0 := by simp [holdsSum] at h ⊢; omega
      obtain ⟨th, hm, hp⟩ := ih this
      exact ⟨th, List.mem_cons_of_mem _ hm, hp⟩

/-- what the checker guarantees about a thread's next instruction, given its facts -/
theorem next_facts {P : Kind → List Instr} {An : Kind → Annot} (hS : ∀ k, Sound (P k) (An k)) {th : Thread} {a : Abs}
    (ha : (An th.kind).at th.pc th.err = some a) :
    (match (P th.kind)[th.pc]? with
     | none => a.mu = false ∧ a.held = 0 ∧ a.once = false
     | some i => i ≠ .wgWait ∧ (i = .lock → a.mu = false) ∧ (∀ k, i = .onceDo k → a.mu = false ∧ a.once = false ∧ a.held = 0)
        ∧ (i = .waitDone → a.mu = false ∧ a.once = false ∧ a.held = 0) ∧ (i = .condWait → a.once = true ∧ a.held = 0)) := by
  have hok := (hS th.kind).ok _ _ _ ha
  cases hi : (P th.kind)[th.pc]? with
  | none =>
    rw [hi] at hok
    simp only [Abs.clean, Bool.and_eq_true, Bool.not_eq_true', beq_iff_eq] at hok
    exact ⟨hok.1.1.1, hok.1.1.2, hok.1.2⟩
  | some i =>
    rw [hi] at hok
    obtain ⟨l, htr, -⟩ := hok
    cases i <;> simp [transfer] at htr <;> simp_all

/-- deadlock freedom -/
theorem Inv.deadlockFree {P An s} (hS : ∀ k, Sound (P k) (An k)) (hI : Inv P An s) : DeadlockFree P s := by
  intro ⟨thw, hmem, iw, hiw, hwd⟩
  -- generic: thread `u` is enabled if its next instruction is not in its blocking situation
  have enab : ∀ u th a i, s.ths[u]? = some th → (An th.kind).at th.pc th.err = some a → Local P s.sh u th a →
      (P th.kind)[th.pc]? = some i →
      (i = .lock → s.sh.mu = none) → (∀ k, i = .onceDo k → ∀ v, s.sh.once ≠ .active v) →
      (i = .condWait → ∀ g, th.sleep = some g → s.sh.gen > g ∧ s.sh.mu = none) →
      (i = .waitDone → s.sh.doneClosed = true) → ∃ t, Enabled P s t := by
    intro u th a i hu ha hL hi h1 h2 h3 h4
    have hn := next_facts hS ha
    rw [hi] at hn
    exact ⟨u, step_isSome hu hL.nopanic hi (execI_isSome i s.sh u th h1 h2 h3 h4 hn.1)⟩
  cases hmu : s.sh.mu with
  | some v =>
    -- the holder of the mutex can always move
    have hv := hI.muVal v hmu
    obtain ⟨th, hth⟩ : ∃ th, s.ths[v]? = some th := ⟨s.ths[v], by simp [hv]⟩
    obtain ⟨a, ha, hL⟩ := hI.loc v th hth
    have hm := hL.mu_iff.mpr hmu
    have hn := next_facts hS ha
    cases hi : (P th.kind)[th.pc]? with
    | none => rw [hi] at hn; simp [hm.1] at hn
    | some i =>
      rw [hi] at hn
      refine enab v th a i hth ha hL hi ?_ ?_ ?_ ?_
      · intro h; have := hn.2.1 h; simp [hm.1] at this
      · intro k h; have := (hn.2.2.1 k h).1; simp [hm.1] at this
      · intro _ g hg; simp [hm.2] at hg
      · intro h; have := (hn.2.2.2.1 h).1; simp [hm.1] at this
  | none =>
    cases hon : s.sh.once with
    | active v =>
      -- the thread inside the Once can move, or it sleeps and an admitted execution can move
      have hv := hI.onceAct v hon
      obtain ⟨th, hth⟩ : ∃ th, s.ths[v]? = some th := ⟨s.ths[v], by simp [hv]⟩
      obtain ⟨a, ha, hL⟩ := hI.loc v th hth
      have ho := hL.once_iff.mpr hon
      have hn := next_facts hS ha
      cases hi : (P th.kind)[th.pc]? with
      | none => rw [hi] at hn; simp [ho] at hn
      | some i =>
        rw [hi] at hn
        by_cases hblk : i = .condWait ∧ ∃ g, th.sleep = some g ∧ ¬ s.sh.gen > g
        · obtain ⟨-, g, hg, hng⟩ := hblk
          rcases hI.wake v th g hth hg with h | h | h
          · exact absurd h hng
          · -- some execution is admitted and unfinished: it is not blocked
            have hs := hI.sum
            obtain ⟨thx, hxm, hxp⟩ := exists_pos_of_sum (l := s.ths) (by omega)
            obtain ⟨x, hx⟩ := mem_idx hxm
            obtain ⟨ax, hax, hLx⟩ := hI.loc x thx hx
            have hh : ax.held > 0 := by rw [← hLx.held]; exact hxp
            have hnx := next_facts hS hax
            cases hix : (P thx.kind)[thx.pc]? with
            | none => rw [hix] at hnx; omega
            | some ix =>
              rw [hix] at hnx
              refine enab x thx ax ix hx hax hLx hix (fun _ => hmu) ?_ ?_ ?_
              · intro k h; have := (hnx.2.2.1 k h).2.2; omega
              · intro h; have := (hnx.2.2.2.2 h).2; omega
              · intro h; have := (hnx.2.2.2.1 h).2.2; omega
          · have := (hI.gs.pend h).2; exact absurd hmu this
        · refine enab v th a i hth ha hL hi (fun _ => hmu) ?_ ?_ ?_
          · intro k h; have := (hn.2.2.1 k h).2.1; simp [ho] at this
          · intro hc g hg
            refine ⟨?_, hmu⟩
            by_cases hgt : s.sh.gen > g
            · exact hgt
            · exact absurd ⟨hc, g, hg, hgt⟩ hblk
          · intro h; have := (hn.2.2.2.1 h).2.1; simp [ho] at this
    | idle =>
      obtain ⟨w, hw⟩ := mem_idx hmem
      obtain ⟨a, ha, hL⟩ := hI.loc w thw hw
      unfold Thread.next at hiw
      refine enab w thw a iw hw ha hL hiw (fun _ => hmu) ?_ ?_ ?_
      · intro k _ v; simp [hon]
      · intro hc g hg
        have := (hL.sleep g hg).2.2.2
        have := hL.once_iff.mp this
        simp [hon] at this
      · intro h; exact absurd hon (hwd h)
    | done =>
      obtain ⟨w, hw⟩ := mem_idx hmem
      obtain ⟨a, ha, hL⟩ := hI.loc w thw hw
      unfold Thread.next at hiw
      refine enab w thw a iw hw ha hL hiw (fun _ => hmu) ?_ ?_ ?_
      · intro k _ v; simp [hon]
      · intro hc g hg
        have := (hL.sleep g hg).2.2.2
        have := hL.once_iff.mp this
        simp [hon] at this
      · intro _; exact (hI.gs.onceDone hon).2.2


/-! ### schedules -/

theorem reachable_runSched {P : Kind → List Instr} {kinds : List Kind} {s s' : State} (sched : List Nat)
    (h : Reachable P kinds s) (hr : runSched P s sched = some s') : Reachable P kinds s' := by
  induction sched generalizing s with
  | nil => simp [runSched] at hr; subst hr; exact h
  | cons t r ih =>
    simp only [runSched] at hr
    cases hs : step P s t with
    | none => simp [hs] at hr
    | some s1 => simp only [hs] at hr; exact ih (Reachable.step h hs) hr

theorem exists_of_map_eq {α : Type} {o : Option α} {f : α → Bool} (h : o.map f = some true) : ∃ a, o = some a ∧ f a = true := by
  cases o with
  | none => simp at h
  | some a => exact ⟨a, rfl, by simpa using h⟩

end GPy.C09
