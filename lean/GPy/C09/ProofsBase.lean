/-
C09 proofs, base definitions: a checked proof outline (`check p A = true`, Outline.lean) makes the global
invariant `Inv` inductive for ANY number of threads and ANY schedule.
-/
import GPy.C09.Outline
import GPy.C09.Spec
namespace GPy.C09

/-- Prop form of `check` -/
structure Sound (p : List Instr) (A : Annot) : Prop where
  init : A.at 0 false = some {}
  len : A.length = p.length + 1
  ok : ∀ pc e a, A.at pc e = some a →
        match p[pc]? with
        | none => a.clean = true
        | some i => ∃ l, transfer i pc e a = some l ∧ ∀ x ∈ l, okSucc A x = true

theorem Annot.at_lt {A : Annot} {pc e a} (h : A.at pc e = some a) : pc < A.length := by
  unfold Annot.at at h
  cases hh : A[pc]? with
  | none => simp [hh] at h
  | some v => exact (List.getElem?_eq_some_iff.mp hh).1

theorem check_sound {p : List Instr} {A : Annot} (h : check p A = true) : Sound p A := by
  unfold check at h
  simp only [Bool.and_eq_true, beq_iff_eq, List.all_eq_true, List.mem_range] at h
  obtain ⟨⟨hlen, hinit⟩, hall⟩ := h
  refine ⟨hinit, hlen, ?_⟩
  intro pc e a ha
  have hlt : pc < p.length + 1 := by have := Annot.at_lt ha; omega
  have hc := hall pc hlt
  have hce : checkAt p A pc e = true := by cases e <;> simp [hc.1, hc.2]
  unfold checkAt at hce
  rw [ha] at hce
  cases hp : p[pc]? with
  | none => simpa [hp] using hce
  | some i =>
    simp only [hp] at hce ⊢
    cases ht : transfer i pc e a with
    | none => simp [ht] at hce
    | some l => exact ⟨l, rfl, by simpa [ht, List.all_eq_true] using hce⟩

theorem okSucc_elim {A : Annot} {pc e a} (h : okSucc A (pc, e, a) = true) : ∃ b, A.at pc e = some b ∧ a.le b = true := by
  unfold okSucc at h
  cases hb : A.at pc e with
  | none => simp [hb] at h
  | some b => exact ⟨b, rfl, by simpa [hb] using h⟩

/-- the facts `a` hold for thread `u` in shared state `sh` -/
structure Local (P : Kind → List Instr) (sh : Shared) (u : Nat) (th : Thread) (a : Abs) : Prop where
  mu_iff : (a.mu = true ∧ th.sleep = none) ↔ sh.mu = some u
  nc : sh.mu = some u → a.nc = true → sh.closed = false
  zero : sh.mu = some u → a.zero = true → sh.running = 0
  pos : sh.mu = some u → a.pos = true → sh.running > 0
  owe : sh.mu = some u → sh.pend = true → a.owe = true
  once_iff : a.once = true ↔ sh.once = .active u
  cl : a.once = true → sh.closed = a.cl
  cb : a.once = true → sh.callbacks = (if a.cb then 1 else 0)
  dn : a.once = true → sh.doneClosed = a.dn
  od : a.od = true → sh.once = .done
  adm : a.adm = true → th.adm = true
  nb : a.nb = true → th.bodies = 0
  held : th.holds = a.held
  heldAdm : th.holds > 0 → th.adm = true
  bodies : th.bodies > 0 → th.adm = true
  after : th.afterClose = true → sh.once = .done ∧ th.adm = false
  sleep : ∀ g, th.sleep = some g → (P th.kind)[th.pc]? = some .condWait ∧ g ≤ sh.gen ∧ a.mu = true ∧ a.once = true
  nopanic : th.panicked = false
  fresh : th.started = false → th.adm = false ∧ th.afterClose = false

theorem Local.weaken {P sh u th a b} (h : Local P sh u th a) (hle : a.le b = true) : Local P sh u th b := by
  unfold Abs.le at hle
  simp only [Bool.and_eq_true, beq_iff_eq, Bool.or_eq_true, Bool.not_eq_true'] at hle
  obtain ⟨⟨⟨⟨⟨⟨⟨⟨⟨⟨⟨⟨h1, h2⟩, h3⟩, h4⟩, h5⟩, h6⟩, h7⟩, h8⟩, h9⟩, h10⟩, h11⟩, h12⟩, h13⟩ := hle
  constructor
  · rw [← h1]; exact h.mu_iff
  · intro hm hb; exact h.nc hm (by cases h8 with | inl x => simp [x] at hb | inr x => exact x)
  · intro hm hb; exact h.zero hm (by cases h9 with | inl x => simp [x] at hb | inr x => exact x)
  · intro hm hb; exact h.pos hm (by cases h10 with | inl x => simp [x] at hb | inr x => exact x)
  · rw [← h3]; exact h.owe
  · rw [← h4]; exact h.once_iff
  · rw [← h4, ← h5]; exact h.cl
  · rw [← h4, ← h6]; exact h.cb
  · rw [← h4, ← h7]; exact h.dn
  · intro hb; exact h.od (by cases h11 with | inl x => simp [x] at hb | inr x => exact x)
  · intro hb; exact h.adm (by cases h12 with | inl x => simp [x] at hb | inr x => exact x)
  · intro hb; exact h.nb (by cases h13 with | inl x => simp [x] at hb | inr x => exact x)
  · rw [← h2]; exact h.held
  · exact h.heldAdm
  · exact h.bodies
  · exact h.after
  · intro g hg; rw [← h1, ← h4]; exact h.sleep g hg
  · exact h.nopanic
  · exact h.fresh

/-- invariants that mention only the shared state -/
structure GS (sh : Shared) : Prop where
  nonneg : 0 ≤ sh.running
  closedZero : sh.closed = true → sh.running = 0
  onceIdle : sh.once = .idle → sh.closed = false ∧ sh.callbacks = 0 ∧ sh.doneClosed = false
  onceDone : sh.once = .done → sh.closed = true ∧ sh.callbacks = 1 ∧ sh.doneClosed = true
  pend : sh.pend = true → sh.running = 0 ∧ sh.mu ≠ none
  cbClosed : sh.callbacks ≥ 1 → sh.closed = true
  dnCb : sh.doneClosed = true → sh.callbacks = 1
  cbLe : sh.callbacks ≤ 1
  late : sh.lateAdmit = false

/-- split the successor list of a checked instruction -/
macro "succs" h:ident : tactic => `(tactic| simp only [List.forall_mem_cons, List.not_mem_nil, false_imp_iff, implies_true, and_true, List.mem_cons, forall_eq_or_imp, forall_eq] at $h:ident)

/-- the conclusion of the own-thread step lemmas -/
def OwnOK (P : Kind → List Instr) (A : Annot) (sh' : Shared) (t : Nat) (th th' : Thread) : Prop :=
  th'.kind = th.kind ∧ ∃ a', A.at th'.pc th'.err = some a' ∧ Local P sh' t th' a'


/-- what one step of thread `t` does to the shared-state invariants and to the quantities the
thread-indexed invariants depend on -/
structure Frame (sh sh' : Shared) (t : Nat) (th th' : Thread) : Prop where
  gs : GS sh'
  delta : sh'.running + (th.holds : Int) = sh.running + (th'.holds : Int)
  genMono : sh.gen ≤ sh'.gen
  runPos : sh.running > 0 → sh'.running > 0 ∨ sh'.pend = true
  pendKeep : sh.pend = true → sh'.pend = true ∨ sh'.gen > sh.gen ∨ sh'.running > 0
  ownSleep : ∀ g, th'.sleep = some g → sh'.running > 0
  onceAct : ∀ v, sh'.once = .active v → sh.once = .active v ∨ v = t
  muVal : ∀ v, sh'.mu = some v → sh.mu = some v ∨ v = t


end GPy.C09
