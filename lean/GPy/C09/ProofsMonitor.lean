/-
C09 proofs: the observation monitor (`Spec.monitor`) accepts every trace of scheduling steps of a
program with a checked outline.  Ingredients: (A) what a single instruction can do to the observable
fields, (B) the same along any path of steps, (C) one observation against the previous one, (D) induction
over the trace.
-/
import GPy.C09.Proofs
namespace GPy.C09

/-! ### (A) one instruction -/

theorem execI_mono {i : Instr} {sh sh' : Shared} {t : Nat} {th th' : Thread} (h : execI i sh t th = some (sh', th')) :
    th'.kind = th.kind ∧ th.bodies ≤ th'.bodies ∧ th'.started = th.started ∧ th'.afterClose = th.afterClose ∧
    (sh.doneClosed = true → sh'.doneClosed = true) ∧ sh.callbacks ≤ sh'.callbacks ∧ (sh.once = .done → sh'.once = .done) ∧
    (th.bodies < th'.bodies → i = .body) := by
  cases i <;> simp only [execI] at h <;> (repeat' split at h) <;>
    simp only [Option.some.injEq, Prod.mk.injEq, reduceCtorEq] at h <;>
    (try (obtain ⟨rfl, rfl⟩ := h)) <;> simp_all [Thread.goto, Thread.br, Thread.panic]

theorem step_elim {P : Kind → List Instr} {s s' : State} {t : Nat} (h : step P s t = some s') :
    ∃ th i sh' th', s.ths[t]? = some th ∧ th.panicked = false ∧ (P th.kind)[th.pc]? = some i ∧
      execI i s.sh t (th.start s.sh) = some (sh', th') ∧ s' = { sh := sh', ths := s.ths.set t th' } := by
  unfold step at h
  cases hth : s.ths[t]? with
  | none => simp [hth] at h
  | some th =>
    simp only [hth] at h
    cases hex : exec P s.sh t th with
    | none => simp [hex] at h
    | some r =>
      obtain ⟨sh', th'⟩ := r
      simp only [hex, Option.some.injEq] at h
      unfold exec at hex
      split at hex
      · simp at hex
      · rename_i hp
        cases hi : (P th.kind)[th.pc]? with
        | none => simp [hi] at hex
        | some i =>
          simp only [hi] at hex
          exact ⟨th, i, sh', th', rfl, by simpa using hp, hi, hex, h.symm⟩

theorem Thread.start_bodies (th : Thread) (sh : Shared) : (th.start sh).bodies = th.bodies := by unfold Thread.start; split <;> rfl
theorem Thread.start_afterClose (th : Thread) (sh : Shared) :
    (th.start sh).afterClose = if th.started then th.afterClose else (sh.once == .done) := by unfold Thread.start; split <;> simp_all

/-! ### (B) paths of steps -/

/-- what stays true of the observable fields along any path of steps -/
structure Mono (s s' : State) : Prop where
  thr : ∀ (u : Nat) (th : Thread), s.ths[u]? = some th → ∃ th' : Thread, s'.ths[u]? = some th' ∧ th'.kind = th.kind ∧ th.bodies ≤ th'.bodies ∧
      (th.started = true → th'.started = true ∧ th'.afterClose = th.afterClose) ∧
      (th.started = false → th'.started = true → s.sh.once = .done → th'.afterClose = true) ∧
      (s.sh.callbacks > 0 → th'.bodies = th.bodies)
  len : s'.ths.length = s.ths.length
  done : s.sh.doneClosed = true → s'.sh.doneClosed = true
  cb : s.sh.callbacks ≤ s'.sh.callbacks
  once : s.sh.once = .done → s'.sh.once = .done

theorem Mono.refl (s : State) : Mono s s :=
  ⟨fun u th h => ⟨th, h, rfl, Nat.le_refl _, fun h => ⟨h, rfl⟩, fun h1 h2 => by simp [h1] at h2, fun _ => rfl⟩, rfl, id, Nat.le_refl _, id⟩

theorem Mono.trans {s s1 s2 : State} (h1 : Mono s s1) (h2 : Mono s1 s2) : Mono s s2 := by
  refine ⟨?_, by rw [h2.len, h1.len], fun h => h2.done (h1.done h), Nat.le_trans h1.cb h2.cb, fun h => h2.once (h1.once h)⟩
  intro u th hu
  obtain ⟨th1, hu1, k1, b1, st1, af1, cb1⟩ := h1.thr u th hu
  obtain ⟨th2, hu2, k2, b2, st2, af2, cb2⟩ := h2.thr u th1 hu1
  refine ⟨th2, hu2, k2.trans k1, Nat.le_trans b1 b2, ?_, ?_, ?_⟩
  · intro hs
    obtain ⟨a, b⟩ := st1 hs
    obtain ⟨c, d⟩ := st2 a
    exact ⟨c, d.trans b⟩
  · intro hs hs2 ho
    cases h : th1.started with
    | true =>
      have := af1 hs h ho
      rw [(st2 h).2]; exact this
    | false => exact af2 h hs2 (h1.once ho)
  · intro hc
    have hc1 : s1.sh.callbacks > 0 := Nat.lt_of_lt_of_le hc h1.cb
    rw [cb2 hc1, cb1 hc]

/-- one step -/
theorem Mono.step {P : Kind → List Instr} {An : Kind → Annot} (hS : ∀ k, Sound (P k) (An k)) {s s' : State} {t : Nat}
    (hI : Inv P An s) (h : step P s t = some s') : Mono s s' := by
  obtain ⟨th, i, sh', th', hth, hp, hi, hx, rfl⟩ := step_elim h
  obtain ⟨hk, hb, hst, haf, hd, hcb, hon, hbody⟩ := execI_mono hx
  have htlt : t < s.ths.length := (List.getElem?_eq_some_iff.mp hth).1
  refine ⟨?_, by simp, hd, hcb, hon⟩
  intro u thu hu
  by_cases hut : u = t
  · subst hut
    rw [hth] at hu; cases hu
    refine ⟨th', by simp [htlt], by rw [hk, Thread.start_kind], by rw [← Thread.start_bodies th s.sh]; exact hb, ?_, ?_, ?_⟩
    · intro hs
      rw [hst, haf, Thread.start_started, Thread.start_afterClose, hs]; simp
    · intro hs _ ho
      rw [haf, Thread.start_afterClose, hs]; simp [ho]
    · intro hc
      rw [Thread.start_bodies] at hb hbody
      by_cases hlt : th.bodies < th'.bodies
      · -- a body cannot run once the callbacks have run: the thread would hold an admission while closed
        have hib := hbody hlt
        subst hib
        obtain ⟨a, ha, hL⟩ := hI.loc u th hth
        have hok := (hS th.kind).ok _ _ _ ha
        rw [hi] at hok
        obtain ⟨l, htr, -⟩ := hok
        have hheld : a.held > 0 := by
          simp only [transfer] at htr
          split at htr
          · simpa using ‹decide (a.held > 0) = true›
          · simp at htr
        have h0 := hI.idle_of_closed (hI.gs.cbClosed hc) th (List.mem_of_getElem? hth)
        have := hL.held
        omega
      · omega
  · refine ⟨thu, by simp [List.getElem?_set_ne (fun h => hut h.symm), hu], rfl, Nat.le_refl _, fun h => ⟨h, rfl⟩, fun h1 h2 => by simp [h1] at h2, fun _ => rfl⟩

/-- `s'` is reached from `s` by steps -/
inductive Steps (P : Kind → List Instr) : State → State → Prop
  | refl (s) : Steps P s s
  | step {s s1 s' t} : step P s t = some s1 → Steps P s1 s' → Steps P s s'

theorem Steps.reachable {P : Kind → List Instr} {kinds : List Kind} {s s' : State} (h : Steps P s s') (hr : Reachable P kinds s) : Reachable P kinds s' := by
  induction h with
  | refl => exact hr
  | step hs _ ih => exact ih (Reachable.step hr hs)

theorem Steps.mono {P : Kind → List Instr} {An : Kind → Annot} (hS : ∀ k, Sound (P k) (An k)) {kinds : List Kind} {s s' : State}
    (h : Steps P s s') (hr : Reachable P kinds s) : Mono s s' := by
  induction h with
  | refl => exact Mono.refl _
  | step hs _ ih => exact (Mono.step hS (inv_reachable hS hr) hs).trans (ih (Reachable.step hr hs))

/-! ### (C) one observation against the previous one -/

/-- every execution that returned nil ran all its Python bodies -/
def CompleteRuns (P : Kind → List Instr) (s : State) : Prop :=
  ∀ th ∈ s.ths, th.kind.isExec = true → th.finished P = true → th.err = false → th.bodies = th.kind.bodies



/-- every started thread is parked at a yield point (or has returned): what a scheduling step leaves behind -/
def Quiescent (P : Kind → List Instr) (s : State) : Prop :=
  ∀ (u : Nat) (th : Thread), s.ths[u]? = some th → th.started = true → th.parked P = true

/-- the state facts the monitor's clauses rest on -/
structure Good (P : Kind → List Instr) (kinds : List Kind) (s : State) : Prop where
  kinds : s.ths.map (·.kind) = kinds
  noPanic : NoPanic s
  cbOnce : CallbacksOnce s
  doneSafe : DoneSafe s
  closeWaits : CloseWaits P s
  closeOnce : ∀ th ∈ s.ths, th.kind = .close → th.finished P = true → s.sh.once = .done
  reject : RejectAfterClose P s
  aon : AllOrNothing P s
  complete : CompleteRuns P s
  waitDone : ∀ th ∈ s.ths, th.kind = .waitDone → th.finished P = true → s.sh.doneClosed = true
  inflight : s.sh.closed = true → ∀ th ∈ s.ths, th.started = true → th.finished P = false → th.parked P = true → th.bodies = 0
  afterNoBody : ∀ th ∈ s.ths, th.afterClose = true → th.bodies = 0
  fresh : ∀ th ∈ s.ths, th.started = false → th.afterClose = false
  doneClosed : s.sh.doneClosed = true → s.sh.closed = true
  onceClosed : s.sh.once = .done → s.sh.closed = true

/-- `after[i] = true` only for threads whose first step happened when a Close had completed -/
def Linked (after : List Bool) (s : State) : Prop :=
  ∀ (i : Nat), after[i]? = some true → ∃ th : Thread, s.ths[i]? = some th ∧ th.afterClose = true

theorem status_notStarted {P : Kind → List Instr} {th : Thread} (hp : th.panicked = false) :
    th.status P = .notStarted ↔ th.started = false := by
  unfold Thread.status; simp only [hp]; cases th.started <;> simp <;> (split <;> (try split) <;> simp)

theorem status_running {P : Kind → List Instr} {th : Thread} (hp : th.panicked = false) :
    th.status P = .running ↔ th.started = true ∧ th.finished P = false := by
  unfold Thread.status; simp only [hp]; cases th.started <;> cases th.finished P <;> simp <;> (try (split <;> simp))

theorem status_ok {P : Kind → List Instr} {th : Thread} (hp : th.panicked = false) :
    th.status P = .ok ↔ th.started = true ∧ th.finished P = true ∧ th.err = false := by
  unfold Thread.status; simp only [hp]; cases th.started <;> cases th.finished P <;> cases th.err <;> simp

theorem status_err {P : Kind → List Instr} {th : Thread} (hp : th.panicked = false) :
    th.status P = .err ↔ th.started = true ∧ th.finished P = true ∧ th.err = true := by
  unfold Thread.status; simp only [hp]; cases th.started <;> cases th.finished P <;> cases th.err <;> simp

theorem status_finished {P : Kind → List Instr} {th : Thread} (hp : th.panicked = false) :
    (th.status P).finished = true ↔ th.started = true ∧ th.finished P = true := by
  unfold Thread.status; simp only [hp]; cases th.started <;> cases th.finished P <;> cases th.err <;> simp [TStatus.finished]

theorem status_panicked {P : Kind → List Instr} {th : Thread} (hp : th.panicked = false) : th.status P ≠ .panicked := by
  unfold Thread.status; simp only [hp]; cases th.started <;> cases th.finished P <;> cases th.err <;> simp

theorem observe_ths_get {P : Kind → List Instr} {s : State} {i : Nat} {t : TObs} (h : (observe P s).ths[i]? = some t) :
    ∃ th : Thread, s.ths[i]? = some th ∧ t = ⟨th.status P, th.bodies⟩ := by
  simp only [observe, List.getElem?_map] at h
  cases hth : s.ths[i]? with
  | none => simp [hth] at h
  | some th => exact ⟨th, rfl, by simpa [hth] using h.symm⟩

theorem Good.kind_at {P : Kind → List Instr} {kinds : List Kind} {s : State} (hG : Good P kinds s) {i : Nat} {k : Kind} {th : Thread}
    (hk : kinds[i]? = some k) (hth : s.ths[i]? = some th) : th.kind = k := by
  have := hG.kinds
  rw [← this, List.getElem?_map, hth] at hk
  simpa using hk

/-- a Close had returned in `s` (as the monitor sees it) ⇒ the Once is done -/
theorem Good.closeReturned_once {P : Kind → List Instr} {kinds : List Kind} {s : State} (hG : Good P kinds s)
    (h : ((kinds.zip (observe P s).ths).any fun x => x.1 == .close && x.2.st.finished) = true) : s.sh.once = .done := by
  obtain ⟨x, hx, hc⟩ := List.any_eq_true.mp h
  obtain ⟨j, hj⟩ := List.mem_iff_getElem?.mp hx
  obtain ⟨hk, ht⟩ := List.getElem?_zip_eq_some.mp hj
  obtain ⟨th, hth, hte⟩ := observe_ths_get ht
  simp only [Bool.and_eq_true, beq_iff_eq] at hc
  have hmem := List.mem_of_getElem? hth
  have hp := hG.noPanic th hmem
  rw [hte] at hc
  exact hG.closeOnce th hmem (by rw [hG.kind_at hk hth]; exact hc.1) ((status_finished hp).mp hc.2).2

/-- the `after` flags stay linked to the ghost field `afterClose` -/
theorem linked_next {P : Kind → List Instr} {kinds : List Kind} {s s' : State} {after : List Bool}
    (hG : Good P kinds s) (hG' : Good P kinds s') (hM : Mono s s') (hL : Linked after s) :
    Linked (afterNext kinds (observe P s) (observe P s') after) s' := by
  intro i hi
  simp only [afterNext, List.getElem?_map] at hi
  cases hz : (after.zip ((observe P s).ths.zip (observe P s').ths))[i]? with
  | none => simp [hz] at hi
  | some x =>
    simp only [hz, Option.map_some, Option.some.injEq] at hi
    obtain ⟨ha, hz2⟩ := List.getElem?_zip_eq_some.mp hz
    obtain ⟨htp, ht⟩ := List.getElem?_zip_eq_some.mp hz2
    obtain ⟨th, hth, htpe⟩ := observe_ths_get htp
    obtain ⟨th', hth', hte⟩ := observe_ths_get ht
    obtain ⟨th2, hth2, -, -, hst, haf, -⟩ := hM.thr i th hth
    rw [hth'] at hth2; cases hth2
    have hp := hG.noPanic th (List.mem_of_getElem? hth)
    have hp' := hG'.noPanic th' (List.mem_of_getElem? hth')
    refine ⟨th', hth', ?_⟩
    split at hi
    · rename_i hc
      simp only [Bool.and_eq_true, beq_iff_eq, bne_iff_ne, ne_eq] at hc
      rw [htpe, hte] at hc
      have h1 := (status_notStarted hp).mp hc.1
      have h2 : th'.started = true := by
        cases h : th'.started with
        | true => rfl
        | false => exact absurd ((status_notStarted hp').mpr h) hc.2
      exact haf h1 h2 (hG.closeReturned_once hi)
    · obtain ⟨th0, hth0, haf0⟩ := hL i (by rw [ha, hi])
      rw [hth] at hth0; cases hth0
      cases hs : th.started with
      | true => rw [(hst hs).2]; exact haf0
      | false => have := hG.fresh th (List.mem_of_getElem? hth) hs; rw [haf0] at this; exact absurd this (by simp)

/-- the clauses about one thread hold -/
theorem checkThread_none {P : Kind → List Instr} {kinds : List Kind} {s s' : State} {after : List Bool}
    (hG : Good P kinds s) (hG' : Good P kinds s') (hM : Mono s s') (hQ : Quiescent P s') (hL : Linked after s')
    {i : Nat} {k : Kind} {th th' : Thread} {aft cr : Bool}
    (hk : kinds[i]? = some k) (hth : s.ths[i]? = some th) (hth' : s'.ths[i]? = some th') (ha : after[i]? = some aft)
    (hcr : cr = true → s'.sh.closed = true) :
    checkThread (observe P s) (observe P s') cr k ⟨th'.status P, th'.bodies⟩ ⟨th.status P, th.bodies⟩ aft = none := by
  have hmem' := List.mem_of_getElem? hth'
  have hp' := hG'.noPanic th' hmem'
  have hkind : th'.kind = k := hG'.kind_at hk hth'
  obtain ⟨th2, hth2, -, hbod, -, -, hcb⟩ := hM.thr i th hth
  rw [hth'] at hth2; cases hth2
  have inflight : s'.sh.closed = true → ¬ (th'.status P = .running ∧ th'.bodies > 0) := by
    intro hc ⟨hr, hb⟩
    obtain ⟨hs, hf⟩ := (status_running hp').mp hr
    have := hG'.inflight hc th' hmem' hs hf (hQ i th' hth' hs)
    omega
  unfold checkThread
  simp only [observe]
  have c1 : ¬ ((k == Kind.close && th'.status P == TStatus.err) = true) := by
    simp only [Bool.and_eq_true, beq_iff_eq]
    intro ⟨hc, he⟩
    obtain ⟨-, hf, her⟩ := (status_err hp').mp he
    have := (hG'.closeWaits th' hmem' (hkind.trans hc) hf).1
    rw [this] at her; exact absurd her (by simp)
  have c2 : ¬ ((k == Kind.close && th'.status P == TStatus.ok && !s'.sh.doneClosed) = true) := by
    simp only [Bool.and_eq_true, beq_iff_eq, Bool.not_eq_true']
    intro ⟨⟨hc, he⟩, hd⟩
    obtain ⟨-, hf, -⟩ := (status_ok hp').mp he
    have := (hG'.closeWaits th' hmem' (hkind.trans hc) hf).2.1
    rw [this] at hd; exact absurd hd (by simp)
  have c3 : ¬ ((k == Kind.waitDone && (th'.status P).finished && !s'.sh.doneClosed) = true) := by
    simp only [Bool.and_eq_true, beq_iff_eq, Bool.not_eq_true']
    intro ⟨⟨hc, he⟩, hd⟩
    have := hG'.waitDone th' hmem' (hkind.trans hc) ((status_finished hp').mp he).2
    rw [this] at hd; exact absurd hd (by simp)
  rw [if_neg c1, if_neg c2, if_neg c3]
  by_cases hx : k.isExec = true
  · have c4 : ¬ ((!k.isExec) = true) := by simp [hx]
    have c5 : ¬ ((th'.status P == TStatus.running && decide (th'.bodies > 0) && cr) = true) := by
      simp only [Bool.and_eq_true, beq_iff_eq, decide_eq_true_eq]
      intro ⟨⟨hr, hb⟩, hc⟩
      exact inflight (hcr hc) ⟨hr, hb⟩
    have c6 : ¬ ((th'.status P == TStatus.running && decide (th'.bodies > 0) && s'.sh.doneClosed) = true) := by
      simp only [Bool.and_eq_true, beq_iff_eq, decide_eq_true_eq]
      intro ⟨⟨hr, hb⟩, hd⟩
      exact inflight (hG'.doneClosed hd) ⟨hr, hb⟩
    have c7 : ¬ ((decide (th'.bodies > th.bodies) && decide (s.sh.callbacks > 0)) = true) := by
      simp only [Bool.and_eq_true, decide_eq_true_eq]
      intro ⟨hb, hc⟩
      have := hcb hc
      omega
    have haft : aft = true → th'.afterClose = true := by
      intro h
      obtain ⟨th0, hth0, h0⟩ := hL i (by rw [ha, h])
      rw [hth'] at hth0; cases hth0; exact h0
    have c8 : ¬ ((aft && decide (th'.bodies > 0)) = true) := by
      simp only [Bool.and_eq_true, decide_eq_true_eq]
      intro ⟨h, hb⟩
      have := hG'.afterNoBody th' hmem' (haft h)
      omega
    have c9 : ¬ ((aft && th'.status P == TStatus.ok) = true) := by
      simp only [Bool.and_eq_true, beq_iff_eq]
      intro ⟨h, he⟩
      obtain ⟨-, hf, her⟩ := (status_ok hp').mp he
      have := (hG'.reject th' hmem' (by rw [hkind]; exact hx) (haft h) hf).1
      rw [this] at her; exact absurd her (by simp)
    have c10 : ¬ ((th'.status P == TStatus.ok && th'.bodies != k.bodies) = true) := by
      simp only [Bool.and_eq_true, beq_iff_eq, bne_iff_ne, ne_eq]
      intro ⟨he, hb⟩
      obtain ⟨-, hf, her⟩ := (status_ok hp').mp he
      exact hb (by rw [← hkind]; exact hG'.complete th' hmem' (by rw [hkind]; exact hx) hf her)
    have c11 : ¬ ((th'.status P == TStatus.err && th'.bodies != 0) = true) := by
      simp only [Bool.and_eq_true, beq_iff_eq, bne_iff_ne, ne_eq]
      intro ⟨he, hb⟩
      obtain ⟨-, hf, her⟩ := (status_err hp').mp he
      exact hb ((hG'.aon th' hmem' (by rw [hkind]; exact hx) hf).2 her)
    rw [if_neg c4, if_neg c5, if_neg c6]
    split <;> first
      | rfl
      | (rename_i h; first | exact absurd h c7 | exact absurd h c8 | exact absurd h c9 | exact absurd h c10 | exact absurd h c11)
  · have c4 : ((!k.isExec) = true) := by simpa using hx
    rw [if_pos c4]

/-- one observation after a path of steps is accepted -/
theorem checkObs_none {P : Kind → List Instr} {kinds : List Kind} {s s' : State} {after : List Bool}
    (hG : Good P kinds s) (hG' : Good P kinds s') (hM : Mono s s') (hQ : Quiescent P s') (hL : Linked after s') :
    checkObs kinds (observe P s) (observe P s') after = none := by
  unfold checkObs
  have g1 : ¬ (((observe P s').ths.any fun x => x.st == TStatus.panicked) = true) := by
    intro h
    obtain ⟨x, hx, hc⟩ := List.any_eq_true.mp h
    obtain ⟨j, hj⟩ := List.mem_iff_getElem?.mp hx
    obtain ⟨th, hth, rfl⟩ := observe_ths_get hj
    exact status_panicked (hG'.noPanic th (List.mem_of_getElem? hth)) (by simpa using hc)
  have g2 : ¬ ((observe P s').cb > 1) := by have := hG'.cbOnce; simp only [observe]; unfold CallbacksOnce at this; omega
  have g3 : ¬ (((observe P s').done && (observe P s').cb != 1) = true) := by
    simp only [observe, Bool.and_eq_true, bne_iff_ne, ne_eq]
    intro ⟨hd, hc⟩
    exact hc (hG'.doneSafe hd).1
  have g4 : ¬ (((observe P s).done && !(observe P s').done) = true) := by
    simp only [observe, Bool.and_eq_true, Bool.not_eq_true']
    intro ⟨hd, hn⟩
    rw [hM.done hd] at hn; exact absurd hn (by simp)
  simp only [g1, g2, g3, g4, if_false, Bool.false_eq_true, ↓reduceIte]
  rw [List.findSome?_eq_none_iff]
  intro x hx
  obtain ⟨i, hi⟩ := List.mem_iff_getElem?.mp hx
  obtain ⟨hk, hz⟩ := List.getElem?_zip_eq_some.mp hi
  obtain ⟨ht, hz2⟩ := List.getElem?_zip_eq_some.mp hz
  obtain ⟨htp, ha⟩ := List.getElem?_zip_eq_some.mp hz2
  obtain ⟨th', hth', hte⟩ := observe_ths_get ht
  obtain ⟨th, hth, htpe⟩ := observe_ths_get htp
  rw [hte, htpe]
  refine checkThread_none hG hG' hM hQ hL hk hth hth' ha ?_
  -- a Close has returned in s' ⇒ closed
  intro hcr
  obtain ⟨y, hy, hc⟩ := List.any_eq_true.mp hcr
  obtain ⟨j, hj⟩ := List.mem_iff_getElem?.mp hy
  obtain ⟨hkj, hzj⟩ := List.getElem?_zip_eq_some.mp hj
  obtain ⟨htj, -⟩ := List.getElem?_zip_eq_some.mp hzj
  obtain ⟨thj, hthj, htje⟩ := observe_ths_get htj
  simp only [Bool.and_eq_true, beq_iff_eq] at hc
  have hmem := List.mem_of_getElem? hthj
  rw [htje] at hc
  exact hG'.onceClosed (hG'.closeOnce thj hmem (by rw [hG'.kind_at hkj hthj]; exact hc.1)
    ((status_finished (hG'.noPanic thj hmem)).mp hc.2).2)

/-! ### how many Python bodies an execution runs: a thread-local path analysis -/

/-- thread-local control flow: the (pc, err) an instruction can lead to and how many bodies it adds -/
def localSucc (i : Instr) (pc : Nat) (e : Bool) : List (Nat × Bool × Nat) :=
  match i with
  | .brClosed k | .brZero k | .brPos k | .onceDo k => [(pc + 1, e, 0), (pc + 1 + k, e, 0)]
  | .jmpBack k => [(pc - k, e, 0)]
  | .condWait => [(pc, e, 0), (pc + 1, e, 0)]
  | .ret eo k => [(pc + 1 + k, eo.getD e, 0)]
  | .brErr k => [(if e then pc + 1 else pc + 1 + k, e, 0)]
  | .body => [(pc + 1, e, 1)]
  | _ => [(pc + 1, e, 0)]

theorem execI_local {i : Instr} {sh sh' : Shared} {t : Nat} {th th' : Thread} (h : execI i sh t th = some (sh', th')) :
    (th'.pc = th.pc ∧ th'.err = th.err ∧ th'.bodies = th.bodies) ∨
    ∃ x ∈ localSucc i th.pc th.err, th'.pc = x.1 ∧ th'.err = x.2.1 ∧ th'.bodies = th.bodies + x.2.2 := by
  cases i <;> simp only [execI] at h <;> (repeat' split at h) <;>
    simp only [Option.some.injEq, Prod.mk.injEq, reduceCtorEq] at h <;>
    (try (obtain ⟨rfl, rfl⟩ := h)) <;> simp_all [Thread.goto, Thread.br, Thread.panic, localSucc] <;> (try (split <;> simp_all)) <;> (try omega)

/-- body-count annotation: per (pc, err) unreachable (`none`), reachable with an unknown count (`some none`)
or reachable with exactly `n` bodies run on every path (`some (some n)`) -/
abbrev BAnnot := List (Option (Option Nat) × Option (Option Nat))

def BAnnot.at (B : BAnnot) (pc : Nat) (e : Bool) : Option (Option Nat) :=
  match B[pc]? with
  | none => none
  | some (a, b) => if e then b else a

def bvOK (B : BAnnot) (pc : Nat) (e : Bool) (v : Option Nat) : Bool :=
  match B.at pc e with
  | none => false
  | some none => true
  | some (some m) => v == some m

def bCheckAt (p : List Instr) (B : BAnnot) (pc : Nat) (e : Bool) : Bool :=
  match B.at pc e, p[pc]? with
  | some (some n), some i => (localSucc i pc e).all fun x => bvOK B x.1 x.2.1 (some (n + x.2.2))
  | some none, some i => (localSucc i pc e).all fun x => bvOK B x.1 x.2.1 none
  | _, _ => true

/-- `B` is a valid body-count annotation of `p` and a return with err = false has run exactly `want` bodies -/
def bCheck (p : List Instr) (B : BAnnot) (want : Nat) : Bool :=
  B.length == p.length + 1 && bvOK B 0 false (some 0) &&
  ((List.range (p.length + 1)).all fun pc => bCheckAt p B pc false && bCheckAt p B pc true) &&
  (match B.at p.length false with | none => true | some v => v == some want)

def BAnnot.join (B : BAnnot) (pc : Nat) (e : Bool) (v : Option Nat) : BAnnot :=
  match B[pc]? with
  | none => B
  | some (x, y) =>
    let m (o : Option (Option Nat)) : Option (Option Nat) := match o with | none => some v | some w => if w == v then some w else some none
    B.set pc (if e then (x, m y) else (m x, y))

def bInferRound (p : List Instr) (B : BAnnot) : BAnnot :=
  (List.range p.length).foldl (fun B pc =>
    [false, true].foldl (fun B e =>
      match B.at pc e, p[pc]? with
      | some v, some i => (localSucc i pc e).foldl (fun B x => B.join x.1 x.2.1 (v.map (· + x.2.2))) B
      | _, _ => B) B) B

/-- inferred annotation (never trusted: `bCheck` validates) -/
def bInfer (p : List Instr) : BAnnot :=
  (List.range 4).foldl (fun B _ => bInferRound p B) ((List.replicate (p.length + 1) (none, none)).set 0 (some (some 0), none))

/-- every thread's body counter is what the annotation says -/
def BInv (P : Kind → List Instr) (Bn : Kind → BAnnot) (s : State) : Prop :=
  ∀ th ∈ s.ths, bvOK (Bn th.kind) th.pc th.err (some th.bodies) = true

theorem bCheck_step {p : List Instr} {B : BAnnot} {want : Nat} (hB : bCheck p B want = true) {pc : Nat} {e : Bool} {n : Nat} {i : Instr}
    (hi : p[pc]? = some i) (hv : bvOK B pc e (some n) = true) {x : Nat × Bool × Nat} (hx : x ∈ localSucc i pc e) :
    bvOK B x.1 x.2.1 (some (n + x.2.2)) = true := by
  have hlt : pc < p.length + 1 := by have := (List.getElem?_eq_some_iff.mp hi).1; omega
  unfold bCheck at hB
  simp only [Bool.and_eq_true, List.all_eq_true, List.mem_range] at hB
  have hc := hB.1.2 pc hlt
  have hce : bCheckAt p B pc e = true := by cases e; exact hc.1; exact hc.2
  unfold bCheckAt at hce
  unfold bvOK at hv
  cases hb : B.at pc e with
  | none => simp [hb] at hv
  | some v =>
    cases v with
    | none =>
      simp only [hb, hi, List.all_eq_true] at hce
      have := hce x hx
      unfold bvOK at this ⊢
      split at this <;> simp_all
    | some m =>
      simp only [hb, beq_iff_eq, Option.some.injEq] at hv
      subst hv
      simp only [hb, hi, List.all_eq_true] at hce
      exact hce x hx

theorem binv_reachable {P : Kind → List Instr} {Bn : Kind → BAnnot} (hB : ∀ k, bCheck (P k) (Bn k) k.bodies = true)
    {kinds : List Kind} {s : State} (h : Reachable P kinds s) : BInv P Bn s := by
  induction h with
  | init =>
    intro th hth
    simp only [State.init, List.mem_map] at hth
    obtain ⟨k, -, rfl⟩ := hth
    have := hB k
    unfold bCheck at this
    simp only [Bool.and_eq_true] at this
    exact this.1.1.2
  | step _ hst ih =>
    rename_i s0 s1 t _
    obtain ⟨th, i, sh', th', hth, hp, hi, hx, rfl⟩ := step_elim hst
    obtain ⟨hk, -⟩ := execI_mono hx
    have htlt : t < s0.ths.length := (List.getElem?_eq_some_iff.mp hth).1
    intro thu hmem
    obtain ⟨u, hu⟩ := List.mem_iff_getElem?.mp hmem
    by_cases hut : u = t
    · subst hut
      simp only [List.getElem?_set_self htlt, Option.some.injEq] at hu
      subst hu
      have h0 := ih th (List.mem_of_getElem? hth)
      rw [hk, Thread.start_kind]
      rcases execI_local hx with ⟨h1, h2, h3⟩ | ⟨x, hxm, h1, h2, h3⟩
      · rw [h1, h2, h3, Thread.start_pc, Thread.start_err, Thread.start_bodies]; exact h0
      · rw [Thread.start_pc, Thread.start_err] at hxm
        rw [h1, h2, h3, Thread.start_bodies]
        exact bCheck_step (hB th.kind) hi h0 hxm
    · simp only [List.getElem?_set_ne (fun h => hut h.symm)] at hu
      exact ih thu (List.mem_of_getElem? hu)

theorem completeRuns_of_binv {P : Kind → List Instr} {Bn : Kind → BAnnot} (hB : ∀ k, bCheck (P k) (Bn k) k.bodies = true)
    {s : State} (h : BInv P Bn s) : CompleteRuns P s := by
  intro th hth _ hfin herr
  have hv := h th hth
  have hb := hB th.kind
  unfold bCheck at hb
  simp only [Bool.and_eq_true, beq_iff_eq] at hb
  have hlen := hb.1.1.1
  have hge : (P th.kind).length ≤ th.pc := by simpa [Thread.finished] using hfin
  unfold bvOK at hv
  rw [herr] at hv
  cases hat : (Bn th.kind).at th.pc false with
  | none => simp [hat] at hv
  | some v =>
    have hlt : th.pc < (Bn th.kind).length := by
      unfold BAnnot.at at hat
      cases hh : (Bn th.kind)[th.pc]? with
      | none => simp [hh] at hat
      | some w => exact (List.getElem?_eq_some_iff.mp hh).1
    have hpc : th.pc = (P th.kind).length := by omega
    have hend := hb.2
    rw [← hpc, hat] at hend
    simp only [beq_iff_eq] at hend
    subst hend
    simpa [hat] using hv

/-! ### the state facts from the invariant -/

/-- outline check: wherever a thread can be parked after a Python body ran, it either still holds an admission or
holds the mutex knowing `closed = false` (it is in the critical section in which it gave its admission back) -/
def inflightAt (p : List Instr) (A : Annot) (pc : Nat) (e : Bool) : Bool :=
  match A.at pc e, p[pc]? with
  | some a, some i => i.silent || a.nb || decide (a.held > 0) || (a.mu && a.nc && !a.once)
  | _, _ => true

def inflightOK (p : List Instr) (A : Annot) : Bool :=
  (List.range p.length).all fun pc => inflightAt p A pc false && inflightAt p A pc true

theorem inflightOK_elim {p : List Instr} {A : Annot} (h : inflightOK p A = true) {pc : Nat} {e : Bool} {a : Abs} {i : Instr}
    (ha : A.at pc e = some a) (hi : p[pc]? = some i) :
    i.silent = true ∨ a.nb = true ∨ a.held > 0 ∨ (a.mu = true ∧ a.nc = true ∧ a.once = false) := by
  have hlt : pc < p.length := (List.getElem?_eq_some_iff.mp hi).1
  unfold inflightOK at h
  rw [List.all_eq_true] at h
  have := h pc (List.mem_range.mpr hlt)
  simp only [Bool.and_eq_true] at this
  have hh : inflightAt p A pc e = true := by cases e; exact this.1; exact this.2
  unfold inflightAt at hh
  simp only [ha, hi, Bool.or_eq_true, Bool.and_eq_true, decide_eq_true_eq, Bool.not_eq_true'] at hh
  rcases hh with ((h1 | h2) | h3) | h4
  · exact Or.inl h1
  · exact Or.inr (Or.inl h2)
  · exact Or.inr (Or.inr (Or.inl h3))
  · exact Or.inr (Or.inr (Or.inr ⟨h4.1.1, h4.1.2, h4.2⟩))

/-- a thread that waited for Done and returned: Done is closed -/
def WaitDoneOK (P : Kind → List Instr) (s : State) : Prop :=
  ∀ th ∈ s.ths, th.kind = .waitDone → th.finished P = true → s.sh.doneClosed = true

theorem waitDone_reachable {P : Kind → List Instr} (hW : P .waitDone = [.waitDone]) {kinds : List Kind} {s : State}
    (h : Reachable P kinds s) : WaitDoneOK P s := by
  induction h with
  | init =>
    intro th hth hk hf
    simp only [State.init, List.mem_map] at hth
    obtain ⟨k, -, rfl⟩ := hth
    simp only at hk
    subst hk
    simp [Thread.finished, hW] at hf
  | step _ hst ih =>
    rename_i s0 s1 t _
    obtain ⟨th, i, sh', th', hth, hp, hi, hx, rfl⟩ := step_elim hst
    obtain ⟨hk, -, -, -, hd, -, -, -⟩ := execI_mono hx
    intro thu hmem hku hf
    obtain ⟨u, hu⟩ := List.mem_iff_getElem?.mp hmem
    have htlt : t < s0.ths.length := (List.getElem?_eq_some_iff.mp hth).1
    by_cases hut : u = t
    · subst hut
      simp only [List.getElem?_set_self htlt, Option.some.injEq] at hu
      subst hu
      rw [Thread.start_kind] at hk
      have hkk : th.kind = .waitDone := hk.symm.trans hku
      rw [hkk, hW] at hi
      have hi0 : i = .waitDone := by
        cases hpc : th.pc with
        | zero => rw [hpc] at hi; simpa using hi.symm
        | succ n => rw [hpc] at hi; simp at hi
      subst hi0
      simp only [execI] at hx
      split at hx
      · rename_i hdc
        simp only [Option.some.injEq, Prod.mk.injEq] at hx
        rw [← hx.1]; exact hdc
      · simp at hx
    · simp only [List.getElem?_set_ne (fun h => hut h.symm)] at hu
      exact hd (ih thu (List.mem_of_getElem? hu) hku hf)

theorem observe_init (P : Kind → List Instr) (kinds : List Kind) : observe P (State.init kinds) = Obs.init kinds := by
  simp [observe, State.init, Obs.init, Thread.status]

theorem kinds_of_mono {kinds : List Kind} {s : State} (hM : Mono (State.init kinds) s) : s.ths.map (·.kind) = kinds := by
  apply List.ext_getElem?
  intro i
  rw [List.getElem?_map]
  cases hk : kinds[i]? with
  | none =>
    have hlen : kinds.length ≤ i := by simpa using hk
    have : s.ths.length ≤ i := by rw [hM.len]; simpa [State.init] using hlen
    rw [List.getElem?_eq_none this]; rfl
  | some k =>
    have h0 : (State.init kinds).ths[i]? = some { kind := k } := by simp [State.init, List.getElem?_map, hk]
    obtain ⟨th', hth', hkk, -⟩ := hM.thr i _ h0
    rw [hth']; simp [hkk]

theorem Thread.next_of_unfinished {P : Kind → List Instr} {th : Thread} (h : th.finished P = false) : ∃ i, (P th.kind)[th.pc]? = some i := by
  have : th.pc < (P th.kind).length := by simpa [Thread.finished] using h
  exact ⟨(P th.kind)[th.pc], by simp [this]⟩

/-- all the state facts, from the invariant and the outline checks -/
theorem good_of_reachable {P : Kind → List Instr} {An : Kind → Annot} (hS : ∀ k, Sound (P k) (An k))
    (hE1 : endOK (P .close) (An .close) (fun e a => !e && a.od) = true)
    (hE2 : ∀ k, k.isExec = true → endOK (P k) (An k) (fun e a => e || a.adm) = true)
    (hE3 : ∀ k, k.isExec = true → endOK (P k) (An k) (fun e a => !e || a.nb) = true)
    (hF : ∀ k, inflightOK (P k) (An k) = true) (hW : P .waitDone = [.waitDone])
    {kinds : List Kind} (hC : ∀ s, Reachable P kinds s → CompleteRuns P s) {s : State} (hr : Reachable P kinds s) : Good P kinds s := by
  have hI := inv_reachable hS hr
  refine ⟨kinds_of_mono (Steps.mono hS (?_ : Steps P (State.init kinds) s) Reachable.init), hI.noPanic, hI.callbacksOnce, hI.doneSafe, hI.closeWaits hS hE1, ?_,
    hI.rejectAfterClose hS hE2, hI.allOrNothing hS hE3, hC s hr, waitDone_reachable hW hr, ?_, ?_, ?_, ?_, fun h => (hI.gs.onceDone h).1⟩
  · clear hI
    induction hr with
    | init => exact Steps.refl _
    | step _ hst ih =>
      have : ∀ {a b c : State}, Steps P a b → Steps P b c → Steps P a c := by
        intro a b c h1 h2
        induction h1 with
        | refl => exact h2
        | step hs _ ih2 => exact Steps.step hs (ih2 h2)
      exact this ih (Steps.step hst (Steps.refl _))
  · intro th hth hk hfin
    obtain ⟨u, hu⟩ := mem_idx hth
    obtain ⟨a, ha, hL⟩ := hI.loc u th hu
    rw [hk] at ha
    have hf := endOK_elim (hS .close) hE1 (by simpa [Thread.finished, hk] using hfin) ha
    simp only [Bool.and_eq_true, Bool.not_eq_true'] at hf
    exact hL.od hf.2
  · intro hc th hth hs hfin hpk
    obtain ⟨u, hu⟩ := mem_idx hth
    obtain ⟨a, ha, hL⟩ := hI.loc u th hu
    obtain ⟨i, hi⟩ := Thread.next_of_unfinished hfin
    have hns : i.silent = false := by
      unfold Thread.parked Thread.next at hpk
      rw [hi] at hpk
      simpa using hpk
    rcases inflightOK_elim (hF th.kind) ha hi with h | h | h | ⟨h1, h2, h3⟩
    · rw [hns] at h; exact absurd h (by simp)
    · exact hL.nb h
    · have h0 := hI.idle_of_closed hc th hth
      have := hL.held
      omega
    · have hsl : th.sleep = none := by
        cases hsl : th.sleep with
        | none => rfl
        | some g => have := (hL.sleep g hsl).2.2.2; rw [h3] at this; exact absurd this (by simp)
      have := hL.nc (hL.mu_iff.mp ⟨h1, hsl⟩) h2
      rw [hc] at this; exact absurd this (by simp)
  · intro th hth haf
    obtain ⟨u, hu⟩ := mem_idx hth
    obtain ⟨a, ha, hL⟩ := hI.loc u th hu
    cases hb : th.bodies with
    | zero => rfl
    | succ n =>
      have h1 := hL.bodies (by omega)
      have h2 := (hL.after haf).2
      rw [h1] at h2; exact absurd h2 (by simp)
  · intro th hth hs
    obtain ⟨u, hu⟩ := mem_idx hth
    obtain ⟨a, ha, hL⟩ := hI.loc u th hu
    exact (hL.fresh hs).2
  · intro hd
    exact hI.gs.cbClosed (by have := hI.gs.dnCb hd; omega)

/-! ### (D) scheduling steps and traces -/

theorem step_other {P : Kind → List Instr} {s s' : State} {t u : Nat} (h : step P s t = some s') (hne : u ≠ t) : s'.ths[u]? = s.ths[u]? := by
  obtain ⟨th, i, sh', th', -, -, -, -, rfl⟩ := step_elim h
  simp [List.getElem?_set_ne (fun h => hne h.symm)]

theorem runSilent_spec (P : Kind → List Instr) (t : Nat) (n : Nat) (s : State) :
    Steps P s (runSilent P t n s) ∧ ∀ u, u ≠ t → (runSilent P t n s).ths[u]? = s.ths[u]? := by
  induction n generalizing s with
  | zero => exact ⟨Steps.refl _, fun _ _ => rfl⟩
  | succ n ih =>
    unfold runSilent
    split
    · exact ⟨Steps.refl _, fun _ _ => rfl⟩
    · split
      · split
        · split
          · rename_i s1 hs
            obtain ⟨h1, h2⟩ := ih s1
            exact ⟨Steps.step hs h1, fun u hu => (h2 u hu).trans (step_other hs hu)⟩
          · exact ⟨Steps.refl _, fun _ _ => rfl⟩
        · exact ⟨Steps.refl _, fun _ _ => rfl⟩
      · exact ⟨Steps.refl _, fun _ _ => rfl⟩

theorem macroStep_elim {P : Kind → List Instr} {s s' : State} {t : Nat} (h : macroStep P s t = some s') :
    Steps P s s' ∧ (∀ u, u ≠ t → s'.ths[u]? = s.ths[u]?) ∧
      ∃ th : Thread, s'.ths[t]? = some th ∧ (th.panicked = true ∨ th.parked P = true) := by
  unfold macroStep at h
  cases hs : step P s t with
  | none => simp [hs] at h
  | some s1 =>
    simp only [hs] at h
    obtain ⟨h1, h2⟩ := runSilent_spec P t 64 s1
    cases hth : (runSilent P t 64 s1).ths[t]? with
    | none => simp [hth] at h
    | some th =>
      simp only [hth] at h
      split at h
      · rename_i hc
        simp only [Option.some.injEq] at h
        subst h
        exact ⟨Steps.step hs h1, fun u hu => (h2 u hu).trans (step_other hs hu), th, hth, by simpa using hc⟩
      · simp at h

theorem Quiescent.init (P : Kind → List Instr) (kinds : List Kind) : Quiescent P (State.init kinds) := by
  intro u th hu hs
  simp only [State.init, List.getElem?_map] at hu
  cases hk : kinds[u]? with
  | none => simp [hk] at hu
  | some k => simp [hk] at hu; subst hu; simp at hs

theorem Quiescent.macroStep {P : Kind → List Instr} {s s' : State} {t : Nat} (hQ : Quiescent P s)
    (h : macroStep P s t = some s') (hnp : NoPanic s') : Quiescent P s' := by
  obtain ⟨-, hoth, th, hth, hpk⟩ := macroStep_elim h
  intro u thu hu hs
  by_cases hut : u = t
  · subst hut
    rw [hth] at hu; cases hu
    rcases hpk with hp | hp
    · rw [hnp th (List.mem_of_getElem? hth)] at hp; exact absurd hp (by simp)
    · exact hp
  · rw [hoth u hut] at hu
    exact hQ u thu hu hs

/-- the states after each token of a schedule: a scheduling step of some thread, or a blocking probe
(the harness observes again, the model state is unchanged) -/
inductive MacroTrace (P : Kind → List Instr) : State → List State → Prop
  | nil (s) : MacroTrace P s []
  | step {s s' t tr} : macroStep P s t = some s' → MacroTrace P s' tr → MacroTrace P s (s' :: tr)
  | probe {s tr} : MacroTrace P s tr → MacroTrace P s (s :: tr)

theorem monitorFrom_ok {P : Kind → List Instr} {An : Kind → Annot} (hS : ∀ k, Sound (P k) (An k)) {kinds : List Kind}
    (hG : ∀ s, Reachable P kinds s → Good P kinds s) {s : State} {tr : List State} (hT : MacroTrace P s tr) :
    ∀ (after : List Bool) (i : Nat), Reachable P kinds s → Quiescent P s → Linked after s →
      monitorFrom kinds (observe P s) after i (tr.map (observe P)) = "OK" := by
  induction hT with
  | nil => intro after i _ _ _; simp [monitorFrom]
  | step hm _ ih =>
    intro after i hr hQ hL
    obtain ⟨hst, -, -⟩ := macroStep_elim hm
    have hr' := hst.reachable hr
    have hM := hst.mono hS hr
    have hQ' := hQ.macroStep hm (hG _ hr').noPanic
    have hL' := linked_next (hG _ hr) (hG _ hr') hM hL
    simp only [List.map_cons, monitorFrom, checkObs_none (hG _ hr) (hG _ hr') hM hQ' hL']
    exact ih _ _ hr' hQ' hL'
  | probe _ ih =>
    rename_i s0 _ _
    intro after i hr hQ hL
    have hM := Mono.refl s0
    have hL' := linked_next (hG _ hr) (hG _ hr) hM hL
    have hc := checkObs_none (hG _ hr) (hG _ hr) hM hQ hL'
    simp only [List.map_cons, monitorFrom, hc]
    exact ih _ _ hr hQ hL'

/-- the monitor accepts every trace of scheduling steps from the initial state -/
theorem monitor_ok {P : Kind → List Instr} {An : Kind → Annot} (hS : ∀ k, Sound (P k) (An k)) {kinds : List Kind}
    (hG : ∀ s, Reachable P kinds s → Good P kinds s) {tr : List State} (hT : MacroTrace P (State.init kinds) tr) :
    monitor kinds (tr.map (observe P)) = "OK" := by
  unfold monitor
  rw [← observe_init P kinds]
  refine monitorFrom_ok hS hG hT _ 0 Reachable.init (Quiescent.init P kinds) ?_
  intro i hi
  simp only [List.getElem?_map] at hi
  cases hk : kinds[i]? with
  | none => simp [hk] at hi
  | some k => simp [hk] at hi

end GPy.C09
