/-
C09 property theorems: Context Close/Done are safe under every interleaving with execution.

Every theorem is about `prog = Generated.src.prog`, the action lists REGENERATED from
stdlib/stdlib.go by verif/extract/lifecycle on every run, and quantifies over
  * every list `kinds` of threads (any number, each RunCode | ModuleInit (nested RunCode) |
    ResolveAndCompile | Close | wait-Done | RunCode of importing code), and
  * every state reachable by any schedule (`Reachable prog kinds s`: induction over steps).
The proof goes through a proof outline (`outline k`, recomputed from the regenerated program)
that the kernel re-validates by evaluating the checker (`outline_checked`, `decide`); the
generic soundness of checked outlines is `inv_step`/`inv_init` (Proofs.lean).
`unchanged_…_witness`: the code before the fix commit reaches a panic / a late admission.
-/
import GPy.C09.Proofs
import GPy.C09.ProofsMonitor
import GPy.C09.Generated
namespace GPy.C09

/-- the program under verification (regenerated from the Go source) -/
abbrev prog : Kind → List Instr := Generated.src.prog

/-- its proof outline, recomputed from the regenerated program; never trusted: see `outline_checked` -/
def outline (k : Kind) : Annot := infer (prog k)

set_option maxRecDepth 200000 in
/-- the kernel evaluates the outline checker on the regenerated program of every thread kind -/
theorem outline_checked : ∀ k : Kind, check (prog k) (outline k) = true := by
  intro k; cases k <;> decide +kernel

theorem outline_sound (k : Kind) : Sound (prog k) (outline k) := check_sound (outline_checked k)

set_option maxRecDepth 200000 in
/-- when Close returns it returns nil and knows the Once is done -/
theorem close_end : endOK (prog .close) (outline .close) (fun e a => !e && a.od) = true := by decide +kernel

set_option maxRecDepth 200000 in
/-- an execution entry point that returns nil was admitted on every path -/
theorem exec_end_adm : ∀ k : Kind, k.isExec = true → endOK (prog k) (outline k) (fun e a => e || a.adm) = true := by
  intro k; cases k <;> decide +kernel

set_option maxRecDepth 200000 in
/-- an execution entry point that returns an error has run no Python body on any path -/
theorem exec_end_nb : ∀ k : Kind, k.isExec = true → endOK (prog k) (outline k) (fun e a => !e || a.nb) = true := by
  intro k; cases k <;> decide +kernel

/-- `Inv` for the program under verification -/
abbrev LifecycleInv (s : State) : Prop := Inv prog outline s

/-- the invariant holds initially, for any number of threads of any kinds -/
theorem inv_init' (kinds : List Kind) : LifecycleInv (State.init kinds) := inv_init outline_sound kinds

/-- the invariant is preserved by every step of every thread -/
theorem inv_step' {s s' : State} {t : Nat} (h : LifecycleInv s) (hs : step prog s t = some s') : LifecycleInv s' :=
  inv_step outline_sound h hs

theorem inv_always {kinds : List Kind} {s : State} (h : Reachable prog kinds s) : LifecycleInv s :=
  inv_reachable outline_sound h

/-- no interleaving panics (negative counter, unlock of unlocked mutex, double close of Done, Wait without lock) -/
theorem no_panic {kinds : List Kind} {s : State} (h : Reachable prog kinds s) : NoPanic s :=
  (inv_always h).noPanic

/-- the counter is never negative and equals the number of admitted, unfinished executions -/
theorem counter_exact {kinds : List Kind} {s : State} (h : Reachable prog kinds s) :
    s.sh.running = ((s.ths.map (·.holds)).sum : Nat) := (inv_always h).sum

/-- Done is signalled only after the callbacks ran exactly once and every admitted execution finished -/
theorem done_after_callbacks {kinds : List Kind} {s : State} (h : Reachable prog kinds s) : DoneSafe s :=
  (inv_always h).doneSafe

/-- the close callbacks run at most once, whatever the number of Close calls -/
theorem callbacks_once {kinds : List Kind} {s : State} (h : Reachable prog kinds s) : CallbacksOnce s :=
  (inv_always h).callbacksOnce

/-- no execution is admitted after the callbacks have run, and none is in flight when they run -/
theorem no_admission_after_callbacks {kinds : List Kind} {s : State} (h : Reachable prog kinds s) : NoLateAdmission s :=
  (inv_always h).noLateAdmission

/-- a Close that has returned returned nil, after Done was signalled, the callbacks ran once and
every admitted execution finished -/
theorem close_waits {kinds : List Kind} {s : State} (h : Reachable prog kinds s) : CloseWaits prog s :=
  (inv_always h).closeWaits outline_sound close_end

/-- an execution whose first action happens after a Close completed gets an error, runs no body, is never admitted -/
theorem reject_after_close {kinds : List Kind} {s : State} (h : Reachable prog kinds s) : RejectAfterClose prog s :=
  (inv_always h).rejectAfterClose outline_sound exec_end_adm

/-- an execution that returns has released every admission; if it returns an error it ran nothing -/
theorem all_or_nothing {kinds : List Kind} {s : State} (h : Reachable prog kinds s) : AllOrNothing prog s :=
  (inv_always h).allOrNothing outline_sound exec_end_nb

/-- every access to closed / closing / running / the condition variable happens with the mutex held -/
theorem sync_access {kinds : List Kind} {s : State} (h : Reachable prog kinds s) :
    ∀ u th i, s.ths[u]? = some th → th.next prog = some i → i.touchesShared = true → th.sleep = none → s.sh.mu = some u :=
  (inv_always h).syncAccess outline_sound

/-- deadlock freedom: while some thread is unfinished (other than Done-waiters before any Close call) some thread can move -/
theorem no_deadlock {kinds : List Kind} {s : State} (h : Reachable prog kinds s) : DeadlockFree prog s :=
  (inv_always h).deadlockFree outline_sound

/-! ### the observation monitor accepts every trace of the model -/

set_option maxRecDepth 200000 in
/-- the kernel evaluates the in-flight check on the regenerated program: wherever a thread can be parked after a Python
body ran it still holds an admission, or holds the mutex knowing `closed = false` -/
theorem inflight_checked : ∀ k : Kind, inflightOK (prog k) (outline k) = true := by
  intro k; cases k <;> decide +kernel

/-- body-count annotation of the regenerated program, recomputed; never trusted: see `bodies_checked` -/
def bodyCount (k : Kind) : BAnnot := bInfer (prog k)

set_option maxRecDepth 200000 in
/-- the kernel evaluates the thread-local path analysis: every path of an entry point that returns nil has run exactly
`Kind.bodies` Python bodies (RunCode 1, ModuleInit 1, ResolveAndCompile 0, importing RunCode 3) -/
theorem bodies_checked : ∀ k : Kind, bCheck (prog k) (bodyCount k) k.bodies = true := by
  intro k; cases k <;> decide +kernel

/-- an execution that returns nil has run completely -/
theorem complete_runs {kinds : List Kind} {s : State} (h : Reachable prog kinds s) : CompleteRuns prog s :=
  completeRuns_of_binv bodies_checked (binv_reachable bodies_checked h)

/-- a goroutine that waited for Done and came back: Done is closed -/
theorem done_wait_returns_after_done {kinds : List Kind} {s : State} (h : Reachable prog kinds s) : WaitDoneOK prog s :=
  waitDone_reachable rfl h

/-- all the state facts the monitor's clauses rest on hold in every reachable state -/
theorem good_always {kinds : List Kind} {s : State} (h : Reachable prog kinds s) : Good prog kinds s :=
  good_of_reachable outline_sound close_end exec_end_adm exec_end_nb inflight_checked rfl (fun _ hr => complete_runs hr) h

/-- THE MONITOR ACCEPTS EVERY MODEL TRACE: for any number of threads of any kinds and any schedule of tokens
(`MacroTrace`: each token is a scheduling step `macroStep` of some thread – its shared-state access and the thread-local
instructions up to its next yield point – or a blocking probe, which repeats the observation), the observation monitor
of Spec.lean, applied to the observations of the successive model states, answers "OK".  Hence `specV = "OK"` of the
correspondence run is what the model itself is proved to produce, and every `BAD@…` verdict of the implementation is a
departure from the model. -/
theorem monitor_accepts {kinds : List Kind} {tr : List State} (h : MacroTrace prog (State.init kinds) tr) :
    monitor kinds (tr.map (observe prog)) = "OK" :=
  monitor_ok outline_sound (fun _ hr => good_always hr) h

/-- the states after each token of a schedule of scheduling steps -/
def runMacro (P : Kind → List Instr) : State → List Nat → Option (List State)
  | _, [] => some []
  | s, t :: r => match macroStep P s t with
    | none => none
    | some s' => (runMacro P s' r).map (s' :: ·)

theorem runMacro_trace {P : Kind → List Instr} {s : State} {sched : List Nat} {tr : List State}
    (h : runMacro P s sched = some tr) : MacroTrace P s tr := by
  induction sched generalizing s tr with
  | nil => simp [runMacro] at h; subst h; exact MacroTrace.nil _
  | cons t r ih =>
    simp only [runMacro] at h
    cases hm : macroStep P s t with
    | none => simp [hm] at h
    | some s' =>
      simp only [hm] at h
      cases hr : runMacro P s' r with
      | none => simp [hr] at h
      | some tr' =>
        simp only [hr, Option.map_some, Option.some.injEq] at h
        subst h
        exact MacroTrace.step hm (ih hr)

set_option maxRecDepth 200000 in
/-- non-vacuity of `monitor_accepts`: a 33-token trace in which Close has to sleep in Cond.Wait while a RunCode is in
flight, a second RunCode is admitted BETWEEN the Broadcast and the woken Close's re-acquisition of the mutex (Close
waits again), and Done is finally closed with both bodies run -/
example : ∃ tr, MacroTrace prog (State.init [.runCode, .close, .runCode]) tr ∧ tr.length = 33 ∧
    (∃ s ∈ tr.getLast?, s.sh.doneClosed = true ∧ (s.ths.map (·.bodies)) = [1, 0, 1]) := by
  obtain ⟨tr, htr, hf⟩ := exists_of_map_eq
    (o := runMacro prog (State.init [.runCode, .close, .runCode])
      [1,0,0,0,0,1,1,1,1,0,0,0,0,0,2,2,2,2,1,1,1,2,2,2,2,2,1,1,1,1,1,1,1])
    (f := fun tr => decide (tr.length = 33 ∧ ∃ s ∈ tr.getLast?, s.sh.doneClosed = true ∧ (s.ths.map (·.bodies)) = [1, 0, 1]))
    (by decide +kernel)
  exact ⟨tr, runMacro_trace htr, (of_decide_eq_true hf).1, (of_decide_eq_true hf).2⟩

/-! ### the code before the fix commit -/

/-- the pre-fix program (what extract/lifecycle prints for the pre-fix source, see Model.lean) -/
abbrev origProg : Kind → List Instr := origSrc.prog

/-- ORIGINAL code: "Close completes; RunCode: load closed → return error → deferred WaitGroup.Done" panics
(negative WaitGroup counter).  Threads: 0 = Close, 1 = RunCode. -/
theorem unchanged_panic_witness :
    ∃ s, runSched origProg (State.init [.close, .runCode]) [0, 0, 0, 0, 0, 0, 0, 0, 1, 1, 1, 1] = some s ∧ ¬ NoPanic s := by
  obtain ⟨s, hs, hf⟩ := exists_of_map_eq (o := runSched origProg (State.init [.close, .runCode]) [0, 0, 0, 0, 0, 0, 0, 0, 1, 1, 1, 1])
    (f := fun s => s.ths.any (·.panicked)) (by decide)
  refine ⟨s, hs, fun h => ?_⟩
  obtain ⟨th, hm, hp⟩ := List.any_eq_true.mp hf
  rw [h th hm] at hp
  exact absurd hp (by decide)

/-- ORIGINAL code: RunCode reads closed = false, Close then runs to completion (Wait sees counter 0), RunCode is
admitted and runs its body after the callbacks; Done is closed while the execution is in flight. -/
theorem unchanged_late_admission_witness :
    ∃ s, runSched origProg (State.init [.close, .runCode]) [1, 0, 0, 0, 0, 0, 0, 0, 1, 1, 1, 1] = some s ∧
      s.sh.lateAdmit = true ∧ ¬ DoneSafe s := by
  obtain ⟨s, hs, hf⟩ := exists_of_map_eq (o := runSched origProg (State.init [.close, .runCode]) [1, 0, 0, 0, 0, 0, 0, 0, 1, 1, 1, 1])
    (f := fun s => s.sh.lateAdmit && s.sh.doneClosed && s.ths.any (fun th => decide (th.holds > 0))) (by decide)
  simp only [Bool.and_eq_true] at hf
  refine ⟨s, hs, hf.1.1, fun h => ?_⟩
  obtain ⟨th, hm, hp⟩ := List.any_eq_true.mp hf.2
  have := (h hf.1.2).2 th hm
  simp [this] at hp

/-- the outline checker rejects the pre-fix program of every execution kind and of Close (test) -/
example : (Kind.all.filter fun k => check (origProg k) (infer (origProg k))) = [.waitDone] := by decide +kernel

/-! ### non-vacuity: the hypotheses of the theorems are satisfiable at non-trivial points -/

/-- a reachable state of the FIXED program in which Close has returned while a RunCode ran to completion
before it and a second RunCode started afterwards was rejected -/
example : ∃ s, Reachable prog [.runCode, .close, .runCode] s ∧
    (∃ th ∈ s.ths, th.kind = .close ∧ th.finished prog = true) ∧
    (∃ th ∈ s.ths, th.kind.isExec = true ∧ th.afterClose = true ∧ th.finished prog = true) ∧ s.sh.doneClosed = true := by
  obtain ⟨s, hs, hf⟩ := exists_of_map_eq
    (o := runSched prog (State.init [.runCode, .close, .runCode]) (List.replicate 12 0 ++ List.replicate 10 1 ++ List.replicate 6 2))
    (f := fun s => decide ((∃ th ∈ s.ths, th.kind = .close ∧ th.finished prog = true) ∧
      (∃ th ∈ s.ths, th.kind.isExec = true ∧ th.afterClose = true ∧ th.finished prog = true) ∧ s.sh.doneClosed = true)) (by decide +kernel)
  exact ⟨s, reachable_runSched _ Reachable.init hs, of_decide_eq_true hf⟩

/-- a reachable state of the FIXED program in which Close sleeps in Cond.Wait while a ModuleInit is in flight
(the situations `no_deadlock` and `done_after_callbacks` are about) -/
example : ∃ s, Reachable prog [.moduleInit, .close] s ∧ (∃ th ∈ s.ths, th.sleep.isSome = true) ∧ s.sh.running = 2 := by
  obtain ⟨s, hs, hf⟩ := exists_of_map_eq
    (o := runSched prog (State.init [.moduleInit, .close]) (List.replicate 13 0 ++ List.replicate 5 1))
    (f := fun s => decide ((∃ th ∈ s.ths, th.sleep.isSome = true) ∧ s.sh.running = 2)) (by decide +kernel)
  exact ⟨s, reachable_runSched _ Reachable.init hs, of_decide_eq_true hf⟩

end GPy.C09
