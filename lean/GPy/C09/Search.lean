/-
C09 `search`: bounded breadth-first search over the transition system of the REGENERATED program
(`Generated.src`), at the granularity of the schedule tokens the harness can drive (one token = one
yield point; queue-jump probes included).  It returns, per set of thread kinds, a SHORTEST schedule
after which the observation monitor (`Spec.checkObs`) reports a violated clause, or after which the
model is deadlocked.  The schedules are ordinary cases: the check replays them on the real goroutines
through hook H1; a reproduced one is the VIOLATION's failing input.
Never trusted: it only produces candidate inputs (the theorems are in Props.lean).
-/
import GPy.C09.Gen
import Std.Data.HashSet
namespace GPy.C09

deriving instance Hashable for Kind, Once, Shared, Thread, State

structure Node where
  m : Sim
  after : List Bool

def Node.key (n : Node) : State × List Nat × List Nat × List Bool := (n.m.s, n.m.queue, n.m.loose, n.after)

/-- the moves of the schedule generator: a step of an enabled (or the urgent) thread, or a queue-jump probe -/
def Node.children (kinds : List Kind) (n : Node) : List (Node × Option String) :=
  let p := observe P n.m.s
  let mk (m' : Sim) : Node × Option String :=
    let o := observe P m'.s
    let after' := afterNext kinds p o n.after
    (⟨m', after'⟩, checkObs kinds p o after')
  (n.m.stepChoices.filterMap fun t => (n.m.doStep t).map mk) ++ (queueJumpCands n.m).map fun c => mk (n.m.doProbe c)

/-- model-level deadlock: some thread is unfinished – other than threads that wait for Done while nobody
called Close (the harness's teardown Close releases those) – and no thread can move -/
def deadlocked (m : Sim) : Bool :=
  m.stepChoices.isEmpty && (unfinished m.s).any fun t =>
    !(nextIs m.s t (· == .waitDone) && m.s.sh.once == .idle)

structure Found where
  kinds : List Kind
  m : Sim
  why : String
  dead : Bool

structure Stats where
  sets : Nat := 0
  states : Nat := 0
  cut : Nat := 0     -- kind sets whose exploration hit the state bound

/-- BFS from the initial state of `kinds`; the first violating node found has a shortest schedule -/
partial def bfs (kinds : List Kind) (maxStates : Nat) : Option Found × Nat × Bool := Id.run do
  let start : Node := ⟨Sim.start kinds, kinds.map fun _ => false⟩
  let mut seen : Std.HashSet (State × List Nat × List Nat × List Bool) := {}
  seen := seen.insert start.key
  let mut frontier : Array Node := #[start]
  let mut count := 1
  while !frontier.isEmpty do
    let mut next : Array Node := #[]
    for n in frontier do
      if deadlocked n.m then
        return (some ⟨kinds, n.m, "deadlock", true⟩, count, false)
      for (c, bad) in n.children kinds do
        match bad with
        | some why => return (some ⟨kinds, c.m, why, false⟩, count, false)
        | none =>
          if !seen.contains c.key then
            seen := seen.insert c.key
            next := next.push c
            count := count + 1
    if count > maxStates then return (none, count, true)
    frontier := next
  return (none, count, false)

def Found.toCase (f : Found) : Case :=
  let c := f.m.toCase f.kinds ((unfinished f.m.s).isEmpty)
  { c with modelV := if f.dead then "DEADLOCK@teardown" else c.modelV, tags := "nt" :: "search" :: c.tags.filter (· != "nt") }

/-- search every multiset of at most `maxThreads` thread kinds; results sorted by schedule length -/
def search (maxThreads maxStates : Nat) (small4 : Bool) : Array Found × Stats := Id.run do
  let mut found : Array Found := #[]
  let mut st : Stats := {}
  for n in [1:maxThreads + 1] do
    for ks in multisets n Kind.all do
      -- quick tier: of the 4-thread sets only those made of the short programs (RunCode, ResolveAndCompile, Close, Done) with a Close
      if n == 4 && small4 && !(ks.any (· == .close) && ks.all fun k => k != .moduleInit && k != .runImport) then continue
      let (f, cnt, cut) := bfs ks maxStates
      st := { sets := st.sets + 1, states := st.states + cnt, cut := st.cut + (if cut then 1 else 0) }
      match f with
      | some x => found := found.push x
      | none => pure ()
  return (found.qsort (fun a b => a.m.toks.length < b.m.toks.length || (a.m.toks.length == b.m.toks.length && a.kinds.length < b.kinds.length)), st)

/-- `gpymodel-C09 C09 search <seed>`: print the (at most `limit`) shortest violating schedules as cases, a summary on stderr -/
def searchMain (maxThreads maxStates limit : Nat) (small4 : Bool) (emit : Case → IO Unit) : IO Unit := do
  let (found, st) := search maxThreads maxStates small4
  IO.eprintln s!"search: kind-sets={st.sets} states={st.states} bound-hit={st.cut} violating-kind-sets={found.size}"
  let mut i := 0
  for f in found do
    if i < limit then
      let c := f.toCase
      IO.eprintln s!"search: {c.input} -> {c.modelV}"
      emit c
    i := i + 1

end GPy.C09

namespace GPy.C09
/-- driver entry: tier `search` prints only the search result; `quick`/`thorough` print the search result
followed by the enumerated and random schedules -/
def genMain (tier : String) (seed : Nat) : IO Unit := do
  if tier == "search" then
    searchMain 4 400000 8 (seed == 0) (fun c => IO.println c.line)   -- seed 0 = the quick-tier bounds
  else
    genCases tier seed (searchMain 4 400000 8 (tier != "thorough"))
end GPy.C09
