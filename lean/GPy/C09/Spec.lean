/-
C09 specification.  Two forms of the same clauses of the property text:

* state predicates over the transition system (what the theorems in Props.lean prove for
  every reachable state, any number of threads, any schedule);
* an executable *monitor* over the sequence of observations an embedder can make after
  every scheduling step (return values, Done closed?, how often the close callbacks ran,
  how many Python bodies each thread ran, panics).  The correspondence run applies the
  monitor to the model's observations (`specV`); the Go harness applies its own
  transcription of the same clauses to what the real goroutines did.
-/
import GPy.C09.Model
namespace GPy.C09

/-! ### state predicates -/

/-- no goroutine has panicked (negative WaitGroup counter, unlock of an unlocked mutex,
close of a closed channel, Wait without the lock) -/
def NoPanic (s : State) : Prop := ∀ th ∈ s.ths, th.panicked = false

/-- Done is signalled only after the callbacks ran exactly once and every admitted execution finished -/
def DoneSafe (s : State) : Prop :=
  s.sh.doneClosed = true → s.sh.callbacks = 1 ∧ ∀ th ∈ s.ths, th.holds = 0

/-- the close callbacks never run twice -/
def CallbacksOnce (s : State) : Prop := s.sh.callbacks ≤ 1

/-- once the callbacks have run no execution is admitted any more (`lateAdmit` is set by the
admission actions when `callbacks > 0`) and none is still in flight -/
def NoLateAdmission (s : State) : Prop :=
  s.sh.lateAdmit = false ∧ (s.sh.callbacks > 0 → ∀ th ∈ s.ths, th.holds = 0)

/-- a Close call that has returned has waited: Done is signalled, callbacks ran once, nothing in flight -/
def CloseWaits (P : Kind → List Instr) (s : State) : Prop :=
  ∀ th ∈ s.ths, th.kind = .close → th.finished P = true →
    th.err = false ∧ s.sh.doneClosed = true ∧ s.sh.callbacks = 1 ∧ ∀ th' ∈ s.ths, th'.holds = 0

/-- an execution request whose first action happens after a Close has completed fails with an
ordinary error and runs nothing -/
def RejectAfterClose (P : Kind → List Instr) (s : State) : Prop :=
  ∀ th ∈ s.ths, th.kind.isExec = true → th.afterClose = true → th.finished P = true →
    th.err = true ∧ th.bodies = 0 ∧ th.adm = false

/-- an execution either runs completely and reports success, or reports an error and ran nothing -/
def AllOrNothing (P : Kind → List Instr) (s : State) : Prop :=
  ∀ th ∈ s.ths, th.kind.isExec = true → th.finished P = true → th.holds = 0 ∧ (th.err = true → th.bodies = 0)

/-- thread `t` can take a step -/
def Enabled (P : Kind → List Instr) (s : State) (t : Nat) : Prop := (step P s t).isSome = true

/-- the next instruction of a thread, if it is still running -/
def Thread.next (P : Kind → List Instr) (th : Thread) : Option Instr := (P th.kind)[th.pc]?

/-- no deadlock: whenever some thread is unfinished – other than threads that merely wait for Done
while nobody has called Close yet – some thread is enabled.  (Bodies terminate: `body` is one step.
A body that calls Close on its own context is not among the thread kinds: that one case contradicts
"Close returns only after every admitted execution has finished".) -/
def DeadlockFree (P : Kind → List Instr) (s : State) : Prop :=
  (∃ th ∈ s.ths, ∃ i, th.next P = some i ∧ (i = .waitDone → s.sh.once ≠ .idle)) → ∃ t, Enabled P s t

/-! ### observations and the monitor -/

inductive TStatus | notStarted | running | ok | err | panicked
deriving DecidableEq, Repr, Inhabited

structure TObs where
  st : TStatus
  bodies : Nat
deriving DecidableEq, Repr, Inhabited

structure Obs where
  done : Bool
  cb : Nat
  ths : List TObs
deriving DecidableEq, Repr, Inhabited

def Thread.status (P : Kind → List Instr) (th : Thread) : TStatus :=
  if th.panicked then .panicked
  else if !th.started then .notStarted
  else if th.finished P then (if th.err then .err else .ok)
  else .running

def observe (P : Kind → List Instr) (s : State) : Obs :=
  { done := s.sh.doneClosed, cb := s.sh.callbacks, ths := s.ths.map fun th => ⟨th.status P, th.bodies⟩ }

def TStatus.letter : TStatus → String
  | .notStarted => "n" | .running => "r" | .ok => "k" | .err => "e" | .panicked => "p"

def Obs.text (o : Obs) : String :=
  s!"D{if o.done then 1 else 0}C{o.cb}:" ++ String.join (o.ths.map fun t => t.st.letter ++ toString t.bodies)

def TStatus.finished : TStatus → Bool
  | .ok | .err => true | _ => false

/-- check one observation `o` (after a step) against the previous one `p`.
`after[i]` = thread i took its first step when a Close had already returned. -/
def checkObs (kinds : List Kind) (p o : Obs) (after : List Bool) : Option String := Id.run do
  let ks := kinds.zip (o.ths.zip (p.ths.zip after))
  if o.ths.any (·.st == .panicked) then return some "panic"
  if o.cb > 1 then return some "callbacks-twice"
  if o.done && o.cb != 1 then return some "done-before-callbacks"
  if p.done && !o.done then return some "done-reopened"
  let closeReturned := ks.any fun (k, t, _) => k == .close && t.st.finished
  for (k, t, tp, aft) in ks do
    if k == .close then
      if t.st == .err then return some "close-returned-error"
      if t.st == .ok && !o.done then return some "close-returned-before-done"
    if k == .waitDone then
      if t.st.finished && !o.done then return some "done-wait-returned-early"
    if k.isExec then
      let inFlight := t.st == .running && t.bodies > 0
      if inFlight && closeReturned then return some "close-returned-while-execution-in-flight"
      if inFlight && o.done then return some "done-while-execution-in-flight"
      if t.bodies > tp.bodies && p.cb > 0 then return some "body-ran-after-callbacks"
      if aft && t.bodies > 0 then return some "executed-after-close"
      if aft && t.st == .ok then return some "admitted-after-close"
      if t.st == .ok && t.bodies != k.bodies then return some "success-without-complete-run"
      if t.st == .err && t.bodies != 0 then return some "error-after-partial-run"
  return none

/-- the monitor: "OK" or the first violated clause -/
def monitor (kinds : List Kind) (obs : List Obs) : String := Id.run do
  let mut prev : Obs := { done := false, cb := 0, ths := kinds.map fun _ => ⟨.notStarted, 0⟩ }
  let mut after : List Bool := kinds.map fun _ => false
  let mut i := 0
  for o in obs do
    -- a thread that starts in this step started "after Close" if a Close had returned before the step
    let closeReturnedBefore := (kinds.zip prev.ths).any fun (k, t) => k == .close && t.st.finished
    after := (after.zip (prev.ths.zip o.ths)).map fun (a, tp, t) =>
      if tp.st == .notStarted && t.st != .notStarted then closeReturnedBefore else a
    match checkObs kinds prev o after with
    | some why => return s!"BAD@{i}:{why}"
    | none => pure ()
    prev := o
    i := i + 1
  return "OK"

end GPy.C09
