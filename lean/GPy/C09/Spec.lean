/-
C09 specification.  Two forms of the same clauses of the property text:

* state predicates over the transition system (what the theorems in Props.lean prove for
  every reachable state, any number of threads, any schedule);
* an executable *monitor* over the sequence of observations an embedder can make after
  every scheduling step (return values, Done closed?, how often the close callbacks ran,
  how many Python bodies each thread ran, panics).  The correspondence run applies the
  monitor to the model's observations (`specV`); the Go harness applies its own
  transcription of the same clauses to what the real goroutines did.
-/
import GPy.C09.Model
namespace GPy.C09

/-! ### state predicates -/

/-- no goroutine has panicked (negative WaitGroup counter, unlock of an unlocked mutex,
close of a closed channel, Wait without the lock) -/
def NoPanic (s : State) : Prop := ∀ th ∈ s.ths, th.panicked = false

/-- Done is signalled only after the callbacks ran exactly once and every admitted execution finished -/
def DoneSafe (s : State) : Prop :=
  s.sh.doneClosed = true → s.sh.callbacks = 1 ∧ ∀ th ∈ s.ths, th.holds = 0

/-- the close callbacks never run twice -/
def CallbacksOnce (s : State) : Prop := s.sh.callbacks ≤ 1

/-- once the callbacks have run no execution is admitted any more (`lateAdmit` is set by the
admission actions when `callbacks > 0`) and none is still in flight -/
def NoLateAdmission (s : State) : Prop :=
  s.sh.lateAdmit = false ∧ (s.sh.callbacks > 0 → ∀ th ∈ s.ths, th.holds = 0)

/-- a Close call that has returned has waited: Done is signalled, callbacks ran once, nothing in flight -/
def CloseWaits (P : Kind → List Instr) (s : State) : Prop :=
  ∀ th ∈ s.ths, th.kind = .close → th.finished P = true →
    th.err = false ∧ s.sh.doneClosed = true ∧ s.sh.callbacks = 1 ∧ ∀ th' ∈ s.ths, th'.holds = 0

/-- an execution request whose first action happens after a Close has completed fails with an
ordinary error and runs nothing -/
def RejectAfterClose (P : Kind → List Instr) (s : State) : Prop :=
  ∀ th ∈ s.ths, th.kind.isExec = true → th.afterClose = true → th.finished P = true →
    th.err = true ∧ th.bodies = 0 ∧ th.adm = false

/-- an execution either runs completely and reports success, or reports an error and ran nothing -/
def AllOrNothing (P : Kind → List Instr) (s : State) : Prop :=
  ∀ th ∈ s.ths, th.kind.isExec = true → th.finished P = true → th.holds = 0 ∧ (th.err = true → th.bodies = 0)

/-- thread `t` can take a step -/
def Enabled (P : Kind → List Instr) (s : State) (t : Nat) : Prop := (step P s t).isSome = true

/-- the next instruction of a thread, if it is still running -/
def Thread.next (P : Kind → List Instr) (th : Thread) : Option Instr := (P th.kind)[th.pc]?

/-- no deadlock: whenever some thread is unfinished – other than threads that merely wait for Done
while nobody has called Close yet – some thread is enabled.  (Bodies terminate: `body` is one step.
A body that calls Close on its own context is not among the thread kinds: that one case contradicts
"Close returns only after every admitted execution has finished".) -/
def DeadlockFree (P : Kind → List Instr) (s : State) : Prop :=
  (∃ th ∈ s.ths, ∃ i, th.next P = some i ∧ (i = .waitDone → s.sh.once ≠ .idle)) → ∃ t, Enabled P s t

/-! ### observations and the monitor -/

inductive TStatus | notStarted | running | ok | err | panicked
deriving DecidableEq, Repr, Inhabited

structure TObs where
  st : TStatus
  bodies : Nat
deriving DecidableEq, Repr, Inhabited

structure Obs where
  done : Bool
  cb : Nat
  ths : List TObs
deriving DecidableEq, Repr, Inhabited

def Thread.status (P : Kind → List Instr) (th : Thread) : TStatus :=
  if th.panicked then .panicked
  else if !th.started then .notStarted
  else if th.finished P then (if th.err then .err else .ok)
  else .running

def observe (P : Kind → List Instr) (s : State) : Obs :=
  { done := s.sh.doneClosed, cb := s.sh.callbacks, ths := s.ths.map fun th => ⟨th.status P, th.bodies⟩ }

def TStatus.letter : TStatus → String
  | .notStarted => "n" | .running => "r" | .ok => "k" | .err => "e" | .panicked => "p"

def Obs.text (o : Obs) : String :=
  s!"D{if o.done then 1 else 0}C{o.cb}:" ++ String.join (o.ths.map fun t => t.st.letter ++ toString t.bodies)

def TStatus.finished : TStatus → Bool
  | .ok | .err => true | _ => false

/-- the clauses about one thread `k` with current observation `t`, previous observation `tp`;
`aft` = the thread took its first step when a Close had already returned -/
def checkThread (p o : Obs) (closeReturned : Bool) (k : Kind) (t tp : TObs) (aft : Bool) : Option String :=
  if k == .close && t.st == .err then some "close-returned-error"
  else if k == .close && t.st == .ok && !o.done then some "close-returned-before-done"
  else if k == .waitDone && t.st.finished && !o.done then some "done-wait-returned-early"
  else if !k.isExec then none
  -- in flight = started, not yet returned, has run Python code
  else if t.st == .running && decide (t.bodies > 0) && closeReturned then some "close-returned-while-execution-in-flight"
  else if t.st == .running && decide (t.bodies > 0) && o.done then some "done-while-execution-in-flight"
  else if decide (t.bodies > tp.bodies) && decide (p.cb > 0) then some "body-ran-after-callbacks"
  else if aft && decide (t.bodies > 0) then some "executed-after-close"
  else if aft && t.st == .ok then some "admitted-after-close"
  else if t.st == .ok && t.bodies != k.bodies then some "success-without-complete-run"
  else if t.st == .err && t.bodies != 0 then some "error-after-partial-run"
  else none

/-- check one observation `o` (after a step) against the previous one `p`.
`after[i]` = thread i took its first step when a Close had already returned.
(Pure functional form; the Go harness carries a transcription, `c09Check`.) -/
def checkObs (kinds : List Kind) (p o : Obs) (after : List Bool) : Option String :=
  let ks := kinds.zip (o.ths.zip (p.ths.zip after))
  if o.ths.any (·.st == .panicked) then some "panic"
  else if o.cb > 1 then some "callbacks-twice"
  else if o.done && o.cb != 1 then some "done-before-callbacks"
  else if p.done && !o.done then some "done-reopened"
  else
    let closeReturned := ks.any fun x => x.1 == .close && x.2.1.st.finished
    ks.findSome? fun x => checkThread p o closeReturned x.1 x.2.1 x.2.2.1 x.2.2.2

/-- a thread that starts in this step started "after Close" if a Close had returned before the step -/
def afterNext (kinds : List Kind) (prev o : Obs) (after : List Bool) : List Bool :=
  let closeReturnedBefore := (kinds.zip prev.ths).any fun x => x.1 == .close && x.2.st.finished
  (after.zip (prev.ths.zip o.ths)).map fun x =>
    if x.2.1.st == .notStarted && x.2.2.st != .notStarted then closeReturnedBefore else x.1

def monitorFrom (kinds : List Kind) : Obs → List Bool → Nat → List Obs → String
  | _, _, _, [] => "OK"
  | prev, after, i, o :: rest =>
    let after' := afterNext kinds prev o after
    match checkObs kinds prev o after' with
    | some why => s!"BAD@{i}:{why}"
    | none => monitorFrom kinds o after' (i + 1) rest

/-- the observation before anything happened -/
def Obs.init (kinds : List Kind) : Obs := { done := false, cb := 0, ths := kinds.map fun _ => ⟨.notStarted, 0⟩ }

/-- the monitor: "OK" or the first violated clause -/
def monitor (kinds : List Kind) (obs : List Obs) : String :=
  monitorFrom kinds (Obs.init kinds) (kinds.map fun _ => false) 0 obs

/-! ### scheduling steps (what one token of a schedule does) -/

/-- thread-local instructions: they carry no yield point -/
def Instr.silent : Instr → Bool
  | .ret .. | .brErr _ | .jmpBack _ | .body | .work => true
  | _ => false

def runSilent (P : Kind → List Instr) (t : Nat) : Nat → State → State
  | 0, s => s
  | fuel + 1, s =>
    match s.ths[t]? with
    | none => s
    | some th =>
      match th.next P with
      | some i => if i.silent && !th.panicked then
                    match step P s t with
                    | some s' => runSilent P t fuel s'
                    | none => s
                  else s
      | none => s

/-- the thread is parked at a yield point (a shared-state access) or has returned -/
def Thread.parked (P : Kind → List Instr) (th : Thread) : Bool :=
  match th.next P with
  | some i => !i.silent
  | none => true

/-- one scheduling step: the visible action thread `t` is parked at, then its thread-local
instructions up to the next yield point (the thread must get there: `none` otherwise) -/
def macroStep (P : Kind → List Instr) (s : State) (t : Nat) : Option State :=
  match step P s t with
  | none => none
  | some s' =>
    let s'' := runSilent P t 64 s'
    match s''.ths[t]? with
    | some th => if th.panicked || th.parked P then some s'' else none
    | none => none

end GPy.C09
