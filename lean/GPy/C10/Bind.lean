/-
C10, second round: models of the three pieces of Go code that make the remaining "unguarded" type
assertions safe.  Core Lean only.

1. THE BINDING PROTOCOL (py/method.go `Method.M__get__`, `Method.M__call__`; py/boundmethod.go
   `BoundMethod.M__call__`; py/property.go `Property.check/M__get__/M__set__/M__delete__`; the three binding sites
   of py/internal.go `GetAttrString`), after fixes d16b718 (unbound Go methods check their receiver), 56b876c
   (module functions and static methods never bind) and 09ff1b2 (properties check their receiver):
   which object reaches the `self` parameter of the Go function of a Method / Property stored in `T.Dict`.
2. `py.MakeBool` (py/internal.go) after fix 6a3ddf8: the result is a `py.Bool`.
3. `vm.RunFrame`'s error path (vm/eval.go): an error returned by an opcode handler becomes `whyException`, unwinds the
   block stack and is delivered as the error result; a Go panic of a handler is NOT recovered.
-/
namespace GPy.C10.Bind

/-! ## 1. the binding protocol -/

/-- what the model needs to know of a Python object: its Python type (`o.Type()`, an id), whether it is `None`,
and – when it is a class object (`*py.Type`) – which class -/
structure Obj where
  pyType : Nat
  isNone : Bool := false
  asClass : Option Nat := none
deriving DecidableEq, Repr, Inhabited

/-- `a.IsSubtype(b)` on type ids (py/type.go walks `a.Mro`); the theorems hold for every such relation -/
abbrev Sub := Nat → Nat → Bool

/-- a `*py.Method`.  `hasModule`: `m.Module != nil` (a function of a module – NewModule copies the prototype and sets
Module); `static`: METH_STATIC; `objclass`: set on the copy `M__get__(None, cls)` makes -/
structure Meth where
  hasModule : Bool
  static : Bool
  objclass : Option Nat
deriving DecidableEq, Repr, Inhabited

/-- the entry `T.Dict[name] = MustNewMethod(name, func(self Object, …) …)` itself -/
def rawTypeMethod : Meth := { hasModule := false, static := false, objclass := none }
/-- the copy of a module-table prototype NewModule puts in the module's globals -/
def moduleFunction : Meth := { hasModule := true, static := false, objclass := none }

/-- callable values Python code can hold -/
inductive Val where
  | meth (m : Meth)                 -- a *py.Method
  | bound (self : Obj) (m : Meth)   -- a *py.BoundMethod{Self, Method: m}
deriving DecidableEq, Repr, Inhabited

inductive Err where
  | typeError
deriving DecidableEq, Repr, Inhabited

/-- `Method.M__get__(instance, owner)`; `definer` = the class of `owner`'s MRO whose Dict holds the method
(`base.Dict[m.Name] == Object(m)`), else `owner` itself -/
def methGet (sub : Sub) (definer : Nat → Nat) (m : Meth) (inst owner : Obj) : Except Err Val :=
  if m.hasModule || m.static then .ok (.meth m)                       -- fix 56b876c
  else if !inst.isNone then
    match m.objclass with
    | some c =>
      if !sub inst.pyType c then .error .typeError
      else .ok (.bound inst { m with objclass := none })              -- NewBoundMethod(instance, m.descr)
    | none => .ok (.bound inst m)
  else
    match owner.asClass with
    | none => .ok (.meth m)                                            -- owner is not a *Type
    | some cls =>
      if m.objclass.isSome then .ok (.meth m)                          -- already unbound
      else .ok (.meth { m with objclass := some (definer cls) })

/-- who receives the call: the `self` argument of the Go function -/
inductive Recv where
  | obj (o : Obj)
  | module        -- `Object(m.Module)`: the module for a module function – `(*Module)(nil)` for a raw type method!
deriving DecidableEq, Repr, Inhabited

inductive Outcome where
  | goFunc (self : Recv) (nargs : Nat)   -- the Go function runs with this self
  | raised (e : Err)
deriving DecidableEq, Repr, Inhabited

/-- `Method.M__call__(args, kwargs)` -/
def methCall (sub : Sub) (m : Meth) (args : List Obj) : Outcome :=
  match m.objclass with
  | some c =>
    match args with
    | [] => .raised .typeError
    | a :: rest => if !sub a.pyType c then .raised .typeError else .goFunc (.obj a) rest.length
  | none => .goFunc .module args.length

/-- calling a value: `BoundMethod.M__call__` hands `bm.Self` to `m.Call` -/
def invoke (sub : Sub) : Val → List Obj → Outcome
  | .bound s _, args => .goFunc (.obj s) args.length
  | .meth m, args => methCall sub m args

/-- the callable values Python code can obtain from the Method stored in `T.Dict`:
* `inst`: `GetAttrString(o, name)` found it in the MRO of `o.Type()` (so `o.Type()` is a subtype of `T`) and called
  `M__get__(o, o.Type())`;
* `cls`: `GetAttrString(C, name)` on a class `C` whose MRO holds it called `M__get__(None, C)`; the definer found by
  the MRO walk is `T` (the raw method object sits in `T.Dict` only: it is never handed to Python code);
* `reget`: Python code called `v.__get__(i, o)` on a Method value it holds, with ANY two objects.
(a BoundMethod has no `__get__`.) -/
inductive Reach (sub : Sub) (T : Nat) : Val → Prop where
  | inst (o ty : Obj) (v : Val) (hsub : sub o.pyType T = true) (hn : o.isNone = false) (definer : Nat → Nat)
      (h : methGet sub definer rawTypeMethod o ty = .ok v) : Reach sub T v
  | cls (c : Nat) (cobj : Obj) (hc : cobj.asClass = some c) (none_ : Obj) (hnone : none_.isNone = true) (v : Val)
      (h : methGet sub (fun _ => T) rawTypeMethod none_ cobj = .ok v) : Reach sub T v
  | reget (m : Meth) (hm : Reach sub T (.meth m)) (i o : Obj) (definer : Nat → Nat) (v : Val)
      (h : methGet sub definer m i o = .ok v) : Reach sub T v

/-- the same for a function of a module: `GetAttr(module, name)` reads the globals (no binding);
`__get__` can be called on it by Python code -/
inductive ReachModule (sub : Sub) : Val → Prop where
  | global : ReachModule sub (.meth moduleFunction)
  | reget (m : Meth) (hm : ReachModule sub (.meth m)) (i o : Obj) (definer : Nat → Nat) (v : Val)
      (h : methGet sub definer m i o = .ok v) : ReachModule sub v

/-- a `*py.Property` stored in `T.Dict` (Type.Ready set `objclass := T`, fix 09ff1b2); `M__get__`, `M__set__`,
`M__delete__` all start with `check(instance)` -/
def propAccess (sub : Sub) (objclass : Option Nat) (inst : Obj) : Outcome :=
  match objclass with
  | some c => if !sub inst.pyType c then .raised .typeError else .goFunc (.obj inst) 0
  | none => .goFunc (.obj inst) 0

/-! ## 2. MakeBool -/

/-- result of a Go `M__bool__()` / `M__len__()` as MakeBool sees it -/
inductive BoolRes where
  | err | notImplemented
  | val (isBool : Bool)          -- some object; is it a py.Bool?
deriving Repr, Inhabited

mutual
  /-- an object as `MakeBool` sees it: is it a `py.Bool`; what its `M__bool__` returns (none = no such method);
  what its `M__len__` returns -/
  inductive BObj where
    | mk (isBool : Bool) (mbool : Option BoolRes) (mlen : LenRes)
  inductive LenRes where
    | absent | err | notImplemented
    | val (o : BObj)
end

/-- outcome of MakeBool: an error, or an object of which we record whether it is a `py.Bool` -/
inductive BoolOut where
  | err
  | obj (isBool : Bool)
deriving DecidableEq, Repr, Inhabited

mutual
  /-- py/internal.go `MakeBool`, line by line (after fix 6a3ddf8) -/
  def makeBool : BObj → BoolOut
    | .mk isBool mbool mlen =>
      if isBool then .obj true                                   -- `if _, ok := a.(Bool); ok { return a, nil }`
      else
        match mbool with
        | some .err => .err
        | some (.val b) => if !b then .err else .obj true        -- the comma-ok test added by the fix
        | some .notImplemented => makeBoolLen mlen
        | none => makeBoolLen mlen
  def makeBoolLen : LenRes → BoolOut
    | .absent => .obj true                                       -- `return True, nil`
    | .err => .err
    | .notImplemented => .obj true
    | .val o => makeBool o                                       -- `return MakeBool(res)`
end

/-- the code BEFORE the fix returned `res` unchecked -/
def makeBoolOld : BObj → BoolOut
  | .mk isBool mbool _ =>
    if isBool then .obj true
    else match mbool with
      | some (.val b) => .obj b
      | some .err => .err
      | _ => .obj true

/-! ## 3. RunFrame's error path -/

/-- vm.why -/
inductive Why where
  | not | exception | ret | brk | cont | yld
deriving DecidableEq, Repr, Inhabited

/-- block kinds of py/frame.go that matter for unwinding -/
inductive Block where
  | loop | setupExcept | setupFinally | exceptHandler
deriving DecidableEq, Repr, Inhabited

/-- what ONE opcode handler (`jumpTable[opcode](&vm, arg)`) can do, as RunFrame sees it -/
inductive Handler where
  | ok                              -- returned nil, vm.why untouched
  | err (exc : Nat)                 -- returned a non-nil error (any error value; identified by a number)
  | setRet (v : Nat)                -- RETURN_VALUE: vm.retval = v (non-nil), vm.why = whyReturn
  | setYield (v : Nat)              -- YIELD_VALUE
  | setBreak | setContinue
  | push (b : Block)                -- SETUP_LOOP / SETUP_EXCEPT / SETUP_FINALLY
  | pop                             -- POP_BLOCK / POP_EXCEPT (on a non-empty block stack)
  | goPanic                         -- the handler panicked (an open obligation of the site table)
deriving DecidableEq, Repr, Inhabited

/-- what RunFrame delivers to its caller -/
inductive Result where
  | returned (v : Nat)              -- (retval, nil)
  | raised (exc : Nat)              -- (nil, vm.curexc): the ERROR RESULT carries the exception
  | yielded (v : Nat)
  | goPanic                         -- a Go panic leaves RunFrame (no recover anywhere in vm/, py/, stdlib/)
  | running                         -- the instruction stream given to the model ended first
deriving DecidableEq, Repr, Inhabited

structure VmState where
  why : Why := .not
  retval : Option Nat := none
  curexc : Option Nat := none
  blocks : List Block := []          -- top of the block stack first
deriving DecidableEq, Repr, Inhabited

/-- the unwinding loop `for vm.why != whyNot && frame.Block != nil` for the reasons exception / return / break:
pops blocks until one handles the reason (then `why = whyNot` and execution continues at the handler) or none is left -/
def unwindBlocks (why : Why) : List Block → Why × Bool × List Block      -- (why, curexc cleared?, blocks)
  | [] => (why, false, [])
  | b :: rest =>
    if why == .not then (why, false, b :: rest)
    else if b == .loop && why == .cont then (.not, false, b :: rest)
    else if b == .exceptHandler then unwindBlocks why rest
    else if b == .loop && why == .brk then (.not, false, rest)
    else if why == .exception && (b == .setupExcept || b == .setupFinally) then
      -- the exception is moved to the handler's stack, curexc is cleared, an EXCEPT_HANDLER block is pushed
      (.not, true, .exceptHandler :: rest)
    else if b == .setupFinally then (.not, false, rest)
    else unwindBlocks why rest

def unwind (s : VmState) : VmState :=
  let r := unwindBlocks s.why s.blocks
  { s with why := r.1, curexc := if r.2.1 then none else s.curexc, blocks := r.2.2 }

/-- one iteration of `for vm.why == whyNot { … }` -/
def step (s : VmState) (h : Handler) : Except Unit VmState :=
  match h with
  | .goPanic => .error ()
  | .ok => .ok s
  | .err e => .ok (unwind { s with why := .exception, curexc := some e })   -- `vm.why = whyException` / SetException
  | .setRet v => .ok (unwind { s with why := .ret, retval := some v })
  | .setYield v => .ok { s with why := .yld, retval := some v }              -- `goto fast_yield`
  | .setBreak => .ok (unwind { s with why := .brk })
  | .setContinue => .ok (unwind { s with why := .cont })
  | .push b => .ok { s with blocks := b :: s.blocks }
  | .pop => .ok { s with blocks := s.blocks.drop 1 }

/-- the exit sequence of RunFrame after the loop -/
def finish (s : VmState) : Result :=
  if s.why == .yld then (match s.retval with | some v => .yielded v | none => .goPanic)
  else
    let retval := if s.why != .ret then none else s.retval
    match retval, s.curexc with
    | none, none => .goPanic           -- panic("vm: no result or exception")
    | some _, some _ => .goPanic       -- panic("vm: result and exception")
    | none, some e => .raised e
    | some v, none => .returned v

/-- RunFrame over a finite stream of handler outcomes -/
def runFrame : VmState → List Handler → Result
  | s, [] => if s.why == .not then .running else finish s
  | s, h :: hs =>
    if s.why != .not then finish s
    else match step s h with
      | .error () => .goPanic
      | .ok s' => runFrame s' hs

end GPy.C10.Bind
