/-
C10 second round: helper lemmas for the binding protocol, MakeBool and RunFrame models of Bind.lean.
The property theorems themselves are in Props.lean.
-/
import GPy.C10.Bind
import Mathlib.Tactic.SplitIfs
namespace GPy.C10.Bind

def Good (sub : Sub) (T : Nat) : Val → Prop
  | .meth m => m.hasModule = false ∧ m.static = false ∧ m.objclass = some T
  | .bound s _ => sub s.pyType T = true

theorem reach_good (sub : Sub) (T : Nat) (v : Val) (h : Reach sub T v) : Good sub T v := by
  induction h with
  | inst o ty v hsub hn definer h =>
    simp only [methGet, rawTypeMethod, hn] at h
    simp at h
    subst h
    exact hsub
  | cls c cobj hc none_ hnone v h =>
    simp only [methGet, rawTypeMethod, hnone, hc] at h
    simp at h
    subst h
    simp [Good]
  | reget m hm i o definer v h ih =>
    obtain ⟨hmod, hst, hoc⟩ := ih
    simp only [methGet, hmod, hst, hoc] at h
    by_cases hi : i.isNone = true
    · simp [hi] at h
      cases ho : o.asClass with
      | none => simp [ho] at h; subst h; exact ⟨hmod, hst, hoc⟩
      | some c => simp [ho] at h; subst h; exact ⟨hmod, hst, hoc⟩
    · simp [hi] at h
      split_ifs at h with hs
      simp only [Except.ok.injEq] at h
      subst h
      simpa [Good] using hs

theorem reachModule_is_fn (sub : Sub) (v : Val) (h : ReachModule sub v) : v = .meth moduleFunction := by
  induction h with
  | global => rfl
  | reget m hm i o definer v h ih =>
    cases ih
    simp [methGet, moduleFunction] at h
    exact h.symm

mutual
theorem makeBool_returns_bool_aux : ∀ (o : BObj) (b : Bool), makeBool o = .obj b → b = true
  | .mk isBool mbool mlen, b, h => by
    simp only [makeBool] at h
    split_ifs at h with h1
    · cases h; rfl
    · split at h
      · cases h
      · split_ifs at h
        simp only [BoolOut.obj.injEq] at h; exact h.symm
      · exact makeBoolLen_returns_bool_aux mlen b h
      · exact makeBoolLen_returns_bool_aux mlen b h
theorem makeBoolLen_returns_bool_aux : ∀ (l : LenRes) (b : Bool), makeBoolLen l = .obj b → b = true
  | .absent, b, h => by simp [makeBoolLen] at h; exact h
  | .err, b, h => by simp [makeBoolLen] at h
  | .notImplemented, b, h => by simp [makeBoolLen] at h; exact h
  | .val o, b, h => by simp only [makeBoolLen] at h; exact makeBool_returns_bool_aux o b h
end

def NoCatch (bs : List Block) : Prop := ∀ b ∈ bs, b = .loop ∨ b = .exceptHandler

theorem unwindBlocks_exc_nocatch (bs : List Block) (h : NoCatch bs) :
    unwindBlocks .exception bs = (.exception, false, []) := by
  induction bs with
  | nil => rfl
  | cons b rest ih =>
    have hb := h b (by simp)
    have ih := ih (fun x hx => h x (by simp [hx]))
    rcases hb with hb | hb <;> subst hb <;> simp [unwindBlocks, ih]

theorem finish_after (s : VmState) (hs : List Handler) (h : s.why ≠ .not) : runFrame s hs = finish s := by
  cases hs <;> simp [runFrame, h]

theorem unwindBlocks_exc_caught (pre post : List Block) (b : Block) (hpre : NoCatch pre)
    (hb : b = .setupExcept ∨ b = .setupFinally) :
    unwindBlocks .exception (pre ++ b :: post) = (.not, true, .exceptHandler :: post) := by
  induction pre with
  | nil => rcases hb with hb | hb <;> subst hb <;> simp [unwindBlocks]
  | cons x rest ih =>
    have hx := hpre x (by simp)
    have ih := ih (fun y hy => hpre y (by simp [hy]))
    rcases hx with hx | hx <;> subst hx <;> simp [unwindBlocks, ih]

/-- invariant of the interpreter loop -/
def Inv (s : VmState) : Prop :=
  match s.why with
  | .not => s.curexc = none
  | .exception => s.curexc.isSome = true ∧ True
  | .ret => s.retval.isSome = true ∧ s.curexc = none
  | .yld => s.retval.isSome = true
  | .brk => False
  | .cont => False

theorem unwindBlocks_exc_shape (bs : List Block) :
    (unwindBlocks .exception bs).1 = .exception ∧ (unwindBlocks .exception bs).2.1 = false ∨
    (unwindBlocks .exception bs).1 = .not ∧ (unwindBlocks .exception bs).2.1 = true := by
  induction bs with
  | nil => simp [unwindBlocks]
  | cons b rest ih => cases b <;> simp [unwindBlocks, ih]

theorem unwindBlocks_ret_shape (bs : List Block) :
    ((unwindBlocks .ret bs).1 = .ret ∨ (unwindBlocks .ret bs).1 = .not) ∧ (unwindBlocks .ret bs).2.1 = false := by
  induction bs with
  | nil => simp [unwindBlocks]
  | cons b rest ih => cases b <;> simp [unwindBlocks, ih]

theorem finish_ok (s : VmState) (hi : Inv s) (hw : s.why ≠ .not) : finish s ≠ .goPanic := by
  unfold Inv at hi
  cases hwy : s.why <;> rw [hwy] at hi <;> simp only at hi
  · exact absurd hwy hw
  · cases hc : s.curexc with
    | none => simp [hc] at hi
    | some e => simp [finish, hwy, hc]
  · cases hr : s.retval with
    | none => simp [hr] at hi
    | some v => simp [finish, hwy, hr, hi.2]
  · cases hr : s.retval with
    | none => simp [hr] at hi
    | some v => simp [finish, hwy, hr]

def Plain (h : Handler) : Prop := h ≠ .setBreak ∧ h ≠ .setContinue ∧ h ≠ .goPanic

theorem step_inv (s : VmState) (h : Handler) (hi : Inv s) (hw : s.why = .not) (hp : Plain h) :
    ∃ s', step s h = .ok s' ∧ Inv s' := by
  have hc : s.curexc = none := by unfold Inv at hi; rw [hw] at hi; exact hi
  obtain ⟨h1, h2, h3⟩ := hp
  cases h with
  | goPanic => exact absurd rfl h3
  | setBreak => exact absurd rfl h1
  | setContinue => exact absurd rfl h2
  | ok => exact ⟨s, rfl, hi⟩
  | push b => exact ⟨_, rfl, by unfold Inv; simp [hw, hc]⟩
  | pop => exact ⟨_, rfl, by unfold Inv; simp [hw, hc]⟩
  | setYield v => exact ⟨_, rfl, by unfold Inv; simp⟩
  | err e =>
    refine ⟨_, rfl, ?_⟩
    unfold Inv
    rcases unwindBlocks_exc_shape s.blocks with ⟨ha, hb⟩ | ⟨ha, hb⟩ <;> simp [unwind, ha, hb]
  | setRet v =>
    refine ⟨_, rfl, ?_⟩
    unfold Inv
    obtain ⟨ha, hb⟩ := unwindBlocks_ret_shape s.blocks
    rcases ha with ha | ha <;> simp [unwind, ha, hb, hc]

end GPy.C10.Bind
