/-
C10: the EXPECTED open obligations of the regenerated assertion-site table (committed; updated by hand
with `python3 checks/c10.py --regen-expected` only after a new site has been reviewed).
-/
namespace GPy.C10.Expected

/-- contract-guarded sites whose format does NOT guarantee the asserted type -/
def contractNotDischarged : List String := [
  "py/classmethod.go:init·closure:assert:self.(*ClassMethod)#0",
  "py/staticmethod.go:init·closure:assert:self.(*StaticMethod)#0"]

def openCount : Nat := 74

def openIndexCount : Nat := 259

/-- every unchecked type assertion / explicit panic no modelled contract covers -/
def openKeys : List String := [
  "py/classmethod.go:init·closure:assert:self.(*ClassMethod)#0",
  "py/code.go:NewCode:assert:cellvarsTuple[i].(String)#0",
  "py/code.go:NewCode:assert:cellvars_.(Tuple)#0",
  "py/code.go:NewCode:assert:code_.(String)#0",
  "py/code.go:NewCode:assert:consts_.(Tuple)#0",
  "py/code.go:NewCode:assert:filename_.(String)#0",
  "py/code.go:NewCode:assert:freevarsTuple[i].(String)#0",
  "py/code.go:NewCode:assert:freevars_.(Tuple)#0",
  "py/code.go:NewCode:assert:lnotab_.(String)#0",
  "py/code.go:NewCode:assert:name_.(String)#0",
  "py/code.go:NewCode:assert:namesTuple[i].(String)#0",
  "py/code.go:NewCode:assert:names_.(Tuple)#0",
  "py/code.go:NewCode:assert:varnamesTuple[i].(String)#0",
  "py/code.go:NewCode:assert:varnames_.(Tuple)#0",
  "py/code.go:NewCode:panic:panic(\"Bad arguments to NewCode\")#0",
  "py/code.go:intern_strings:assert:v_.(String)#0",
  "py/complex.go:ComplexNew:assert:imag.(Float)#0",
  "py/complex.go:ComplexNew:assert:real.(Float)#0",
  "py/dict.go:init·closure:assert:other.(StringDict)#0",
  "py/exception.go:(*Exception).M__repr__:assert:e.Args.(Tuple)#0",
  "py/exception.go:(*Exception).M__repr__:assert:msg.(String)#0",
  "py/exception.go:ExceptionGivenMatches:assert:err.(*Type)#0",
  "py/exception.go:ExceptionGivenMatches:assert:exc.(*Type)#0",
  "py/file.go:(*File).Write:assert:err.(*os.PathError)#0",
  "py/frame.go:dict_to_map:panic:panic(\"dict_to_map: expecting Cell\")#0",
  "py/frame.go:map_to_dict:panic:panic(\"map_to_dict: expecting Cell\")#0",
  "py/method.go:(*Method).Call:panic:panic(fmt.Sprintf(\"Unknown method type: %T\", m.method))#0",
  "py/method.go:(*Method).CallWithKeywords:panic:panic(fmt.Sprintf(\"Unknown method type: %T\", m.method))#0",
  "py/set.go:(*Set).inplace:assert:res.(*Set)#0",
  "py/staticmethod.go:init·closure:assert:self.(*StaticMethod)#0",
  "py/string.go:(String).Count:assert:pysub.(String)#0",
  "py/string.go:(String).Split:assert:pymax.(Int)#0",
  "py/string.go:(String).find:assert:pysub.(String)#0",
  "py/type.go:(*Type).IsSubtype:assert:baseObj.(*Type)#0",
  "py/type.go:(*Type).Lookup:assert:baseObj.(*Type)#0",
  "py/type.go:(*Type).Ready:panic:panic(\"Type.Ready Dict is nil\")#0",
  "py/type.go:(*Type).Ready:panic:panic(\"Type.Ready: bases is nil\")#0",
  "py/type.go:(*Type).mro_implementation:assert:bases[i].(*Type)#0",
  "py/type.go:best_base:panic:panic(\"best_base: no bases supplied\")#0",
  "py/type.go:pmerge:assert:to_merge.Items[i].(*List)#0",
  "py/type.go:pmerge:assert:to_merge.Items[j].(*List)#0",
  "py/type.go:pmerge:assert:to_merge.Items[j].(*List)#1",
  "py/util.go:Println:assert:self.(*Module)#0",
  "stdlib/builtin/builtin.go:builtinExit:assert:exc.(*py.Exception)#0",
  "stdlib/builtin/builtin.go:builtin___build_class__:assert:nsObj.(py.StringDict)#0",
  "vm/eval.go:(*Vm).Call:panic:panic(\"vm: Odd length kwargsTuple\")#0",
  "vm/eval.go:(*Vm).UnwindExceptHandler:panic:panic(\"vm: Couldn't find traceback on stack\")#0",
  "vm/eval.go:RunFrame:assert:vm.retval.(py.Int)#0",
  "vm/eval.go:RunFrame:panic:panic(\"vm: no result or exception\")#0",
  "vm/eval.go:RunFrame:panic:panic(\"vm: result and exception\")#0",
  "vm/eval.go:_make_function:assert:code.(*py.Code)#0",
  "vm/eval.go:_make_function:assert:key.(py.String)#0",
  "vm/eval.go:_make_function:assert:name.(py.String)#0",
  "vm/eval.go:_make_function:assert:qualname.(py.String)#0",
  "vm/eval.go:_make_function:assert:vm.POP().(py.Tuple)#0",
  "vm/eval.go:_make_function:assert:vm.POP().(py.Tuple)#1",
  "vm/eval.go:_make_function:panic:panic(\"vm: num_annotations wrong - corrupt bytecode?\")#0",
  "vm/eval.go:do_BUILD_SLICE:panic:panic(\"vm: Bad value for argc in BUILD_SLICE\")#0",
  "vm/eval.go:do_COMPARE_OP:panic:panic(fmt.Sprintf(\"vm: Unknown COMPARE_OP %v\", opname))#0",
  "vm/eval.go:do_DELETE_DEREF:assert:vm.frame.CellAndFreeVars[i].(*py.Cell)#0",
  "vm/eval.go:do_END_FINALLY:panic:panic(\"vm: Expecting EXCEPT_HANDLER in END_FINALLY\")#0",
  "vm/eval.go:do_END_FINALLY:panic:panic(\"vm: Unexpected whyException in END_FINALLY\")#0",
  "vm/eval.go:do_END_FINALLY:panic:panic(\"vm: Unexpected whyYield in END_FINALLY\")#0",
  "vm/eval.go:do_IMPORT_STAR:assert:from.(*py.Module)#0",
  "vm/eval.go:do_LIST_APPEND:assert:v.(*py.List)#0",
  "vm/eval.go:do_LOAD_CLASSDEREF:assert:vm.frame.CellAndFreeVars[i].(*py.Cell)#0",
  "vm/eval.go:do_LOAD_DEREF:assert:vm.frame.CellAndFreeVars[i].(*py.Cell)#0",
  "vm/eval.go:do_RAISE_VARARGS:panic:panic(\"vm: Bad RAISE_VARARGS argc\")#0",
  "vm/eval.go:do_SET_ADD:assert:v.(*py.Set)#0",
  "vm/eval.go:do_STORE_DEREF:assert:vm.frame.CellAndFreeVars[i].(*py.Cell)#0",
  "vm/eval.go:do_WITH_CLEANUP:panic:panic(\"vm: WITH_CLEANUP expecting TryBlockExceptHandler\")#0",
  "vm/eval.go:formatMissing:panic:panic(\"vm: format_missing: no names\")#0",
  "vm/eval.go:objectIs:assert:b.(py.Complex)#0",
  "vm/eval.go:objectIs:assert:b.(py.Float)#0"]

end GPy.C10.Expected
