/-
C10 case generator (contract cases; the sweep over callables is enumerated on the Go side by
reflection and driven by checks/c10.py, DESIGN.md 2.2 step 4 "direction reversed").

  F <fmt> <kwlist|-|=> <nresults> <args|-> <kwargs|->   ParseTupleAndKeywords
  U <min> <max> <nresults> <nargs> <nkwargs>            UnpackTuple
  M <sigkind> <nargs> <nkwargs|-1>                      Method.M__call__
  I <idx> <max>                                         IndexIntCheck

Exhaustive: every format of length ≤ 2 over a 16-symbol alphabet × every argument tuple of length ≤ 2
over 8 value kinds × keyword-list / keyword-dictionary / result-count variants; seeded: longer formats.
-/
import GPy.C10.Sites
namespace GPy.C10

def kinds : List (String × Val) :=
  [("s", .str), ("y", .bytes), ("i", .int 5), ("g", .big), ("t", .bool true), ("f", .float), ("n", .none), ("l", .other)]

def alphabet : List Char := ['O', 's', 'U', 'z', 'Z', 'y', 'i', 'n', 'p', 'd', '|', '$', ':', '#', '*', 'x']

def encFmt (f : List Char) : String := if f.isEmpty then "-" else String.ofList f

def encArgs (a : List (String × Val)) : String := if a.isEmpty then "-" else ",".intercalate (a.map (·.1))

def encKw (k : List (String × String × Val)) : String :=
  if k.isEmpty then "-" else ",".intercalate (k.map fun (n, kc, _) => n ++ "=" ++ kc)

def fCase (fmt : List Char) (kwlist : Option (List String)) (nres : Nat) (args : List (String × Val))
    (kwargs : List (String × String × Val)) : Case :=
  let c : Call := { args := args.map (·.2), kwargs := kwargs.map (fun (n, _, v) => (n, v)), format := fmt, kwlist := kwlist, nresults := nres }
  let r := parseTupleAndKeywords c
  let kl := match kwlist with | none => "-" | some [] => "=" | some l => ",".intercalate l
  let special := fmt.any (fun ch => ch == '|' || ch == '$' || ch == ':' || ch == ';' || ch == '#' || ch == '*')
  let nt := special || (match r with | .error _ => true | .ok rs => rs.any (·.isNone))
  { input := s!"F {encFmt fmt} {kl} {nres} {encArgs args} {encKw kwargs}",
    modelV := showResults r, specV := specOutcome c r,
    tags := (if nt then ["nt"] else []) ++ [match r with | .ok _ => "ok" | .error .type => "type" | .error .overflow => "overflow" | .error _ => "other"] }

def names (n : Nat) : List String := (List.range n).map fun i => s!"k{i}"

def fVariants (fmt : List Char) (args : List (String × Val)) : List Case := Id.run do
  let nops := (parseFormat fmt).ops.length
  let mut out : List Case := []
  for nres in [nops, nops + 1, nops - 1] do
    out := fCase fmt none nres args [] :: out
    out := fCase fmt (some (names nres)) nres args [] :: out
    if nres > 0 then
      -- a keyword for the last slot, for the first slot (clashes with a positional), an unknown keyword
      out := fCase fmt (some (names nres)) nres args [(s!"k{nres - 1}", "s", .str)] :: out
      out := fCase fmt (some (names nres)) nres args [("k0", "i", .int 5)] :: out
      out := fCase fmt (some (names nres)) nres args [("zz", "s", .str)] :: out
      out := fCase fmt none nres args [("k0", "s", .str)] :: out
  out := fCase fmt (some (names (nops + 2))) nops args [] :: out   -- len(results) != len(kwlist)
  return out

def allFormats : Nat → List (List Char)
  | 0 => [[]]
  | n + 1 => (allFormats n).flatMap fun f => alphabet.map fun c => c :: f

def allArgs : Nat → List (List (String × Val))
  | 0 => [[]]
  | n + 1 => (allArgs n).flatMap fun a => kinds.map fun k => k :: a

def uCase (min max : Int) (nres nargs nkw : Nat) : Case :=
  let args := (List.range nargs).map fun i => Val.int (i : Nat)
  let r := unpackTuple args nkw min max nres
  let spec : String :=
    if nkw > 0 ∨ ¬(min ≤ nargs ∧ (nargs : Int) ≤ max) ∨ nargs > nres then "E:TypeError"
    else "ok:" ++ ",".intercalate ((List.range nres).map fun i => if i < nargs then s!"i{i}" else "d")
  { input := s!"U {min} {max} {nres} {nargs} {nkw}", modelV := showResults r, specV := spec,
    tags := (if spec.startsWith "E:" then ["nt"] else []) ++ ["unpack"] }

def Sig.name : Sig → String
  | .tuple => "tuple" | .kw => "kw" | .noargs => "noargs" | .onearg => "onearg" | .internal => "internal"

def mCase (s : Sig) (nargs : Nat) (nkw : Option Nat) : Case :=
  let args := List.range nargs
  let r := methodMCall s args nkw
  let showR : String := match r with
    | .error e => e.show
    | .ok (.tuple a) => s!"ok:tuple/{a.length}"
    | .ok (.kw a k) => s!"ok:kw/{a.length}/{k}"
    | .ok .noargs => "ok:noargs"
    | .ok (.onearg a) => s!"ok:onearg/i{a}"
  let k := nkw.getD 0
  -- Python: calling a builtin with the wrong number of arguments / unexpected keywords is a TypeError
  let spec : String := match s with
    | .tuple => if k > 0 then "E:TypeError" else s!"ok:tuple/{nargs}"
    | .kw => s!"ok:kw/{nargs}/{k}"
    | .noargs => if k > 0 ∨ nargs ≠ 0 then "E:TypeError" else "ok:noargs"
    | .onearg => if k > 0 ∨ nargs ≠ 1 then "E:TypeError" else "ok:onearg/i0"
    | .internal => "E:NotImplementedError"
  { input := s!"M {s.name} {nargs} {match nkw with | none => "-1" | some n => toString n}", modelV := showR, specV := spec,
    tags := (if spec.startsWith "E:" then ["nt"] else []) ++ ["method"] }

def iCase (idx : C13.Idx) (enc : String) (max : Int) : Case :=
  let r := C13.indexIntCheck idx max
  let showR : String := match r with
    | .ok v => s!"ok:{v}"
    | .error .index => "E:IndexError" | .error .type => "E:TypeError" | .error .overflow => "E:OverflowError"
    | .error .panic => "PANIC" | .error _ => "E:?"
  let spec : String := match idx with
    | .int v => let v' := if v < 0 then v + max else v
                if 0 ≤ v' ∧ v' < max then s!"ok:{v'}" else "E:IndexError"
    | .bool b => let v : Int := if b then 1 else 0
                 if v < max then s!"ok:{v}" else "E:IndexError"
    | _ => "E:TypeError"
  { input := s!"I {enc} {max}", modelV := showR, specV := spec,
    tags := (if spec.startsWith "E:" || (match idx with | .int v => decide (v < 0) | _ => false) then ["nt"] else []) ++ ["index"] }

def genMain (tier : String) (seed : Nat) : IO Unit := do
  -- ParseTupleAndKeywords: exhaustive small space
  let maxLen := if tier == "thorough" then 3 else 2
  for n in [0:maxLen + 1] do
    for fmt in allFormats n do
      let argLens := if n ≤ 2 then [0, 1, 2] else [0, 1]
      for k in argLens do
        for a in allArgs k do
          for c in fVariants fmt a do IO.println c.line
  -- seeded: longer formats, more arguments
  let cnt := if tier == "thorough" then 60000 else 6000
  let mut r : Rng := ⟨seed.toUInt64 + 77⟩
  for _ in [0:cnt] do
    let (r1, len) := r.nat 7
    let mut fmt : List Char := []
    let mut rr := r1
    for _ in [0:len + 2] do
      let (r2, ch) := rr.pick alphabet.toArray
      rr := r2
      fmt := ch :: fmt
    let (r3, na) := rr.nat 5
    rr := r3
    let mut args : List (String × Val) := []
    for _ in [0:na] do
      let (r4, k) := rr.pick kinds.toArray
      rr := r4
      args := k :: args
    r := rr
    for c in fVariants fmt args do IO.println c.line
  -- UnpackTuple
  for min in [0, 1, 2, 3] do
    for max in [0, 1, 2, 3] do
      for nres in [0, 1, 2, 3, 4] do
        for nargs in [0, 1, 2, 3, 4] do
          for nkw in [0, 1] do
            IO.println (uCase min max nres nargs nkw).line
  -- Method.Call dispatch
  for s in [Sig.tuple, .kw, .noargs, .onearg, .internal] do
    for nargs in [0, 1, 2, 3] do
      for nkw in [none, some 0, some 1, some 2] do
        IO.println (mCase s nargs nkw).line
  -- IndexIntCheck
  let vals : List Int := [0, 1, -1, 2, -2, 3, -3, 4, -4, 2147483647, -2147483648, 2147483648, 9223372036854775807, -9223372036854775808, 9223372036854775806, -9223372036854775807]
  let maxes : List Int := [0, 1, 3, 4, 65536, 2147483648, 9223372036854775807]
  for m in maxes do
    for v in vals do IO.println (iCase (.int v) s!"i{v}" m).line
    IO.println (iCase (.bool true) "t1" m).line
    IO.println (iCase (.bool false) "t0" m).line
    IO.println (iCase .none "n" m).line
    IO.println (iCase .bad "f" m).line

end GPy.C10
