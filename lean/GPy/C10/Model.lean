/-
C10 model: the CONTRACTS of gpython that are meant to make Go panics impossible, transliterated
line by line (after the `fix:` commits of KNOWN_FINDINGS.txt):

  py/args.go      parseFormat, checkNumberOfArgs, ParseTupleAndKeywords, ParseTuple, UnpackTuple
  py/method.go    Method.Call, Method.CallWithKeywords, Method.M__call__ (dispatch on the Go signature kind)
  py/internal.go  Index / IndexInt / IndexIntCheck           (imported from GPy.C13.Model, not copied)

A Go run-time panic the code would hit (`results[i]` / `args[0]` out of range, the final
`panic("Unknown method type")`) is the distinct outcome `Err.panic`; "no panic" is a theorem
(Props.lean), never an assumption of the model.
-/
import GPy.Common.Basic
import GPy.C13.Model
namespace GPy.C10

/-- the Go dynamic type of a `py.Object` as far as py/args.go distinguishes -/
inductive GoTy where
  | string | bytes | int | bigInt | bool | float | noneType | other
deriving DecidableEq, Repr, Inhabited

/-- argument values: one constructor per Go dynamic type; `floatOfInt v` is `Float(x)` made by the
`d` format unit from the `Int` `x = v` -/
inductive Val where
  | str | bytes | int (v : Int) | big | bool (b : Bool) | float | floatOfInt (v : Int) | none | other
deriving DecidableEq, Repr, Inhabited

def Val.ty : Val → GoTy
  | .str => .string | .bytes => .bytes | .int _ => .int | .big => .bigInt | .bool _ => .bool
  | .float => .float | .floatOfInt _ => .float | .none => .noneType | .other => .other

inductive Err where
  | type | overflow | notImpl | panic
deriving DecidableEq, Repr, Inhabited

instance instDecEqExcept {ε α} [DecidableEq ε] [DecidableEq α] : DecidableEq (Except ε α) := fun a b =>
  match a, b with
  | .ok x, .ok y => if h : x = y then isTrue (by rw [h]) else isFalse (by intro h'; injection h' with h'; exact h h')
  | .error x, .error y => if h : x = y then isTrue (by rw [h]) else isFalse (by intro h'; injection h' with h'; exact h h')
  | .ok _, .error _ => isFalse (by intro h; cases h)
  | .error _, .ok _ => isFalse (by intro h; cases h)

/-- `formatOp{code, modifier}`; modifier `'\x00'` = none -/
structure FormatOp where
  code : Char
  modifier : Char := '\x00'
deriving DecidableEq, Repr, Inhabited

structure Parsed where
  min : Nat
  name : List Char
  kwOnly : Nat
  ops : List FormatOp
deriving DecidableEq, Repr

/-- `if i < N { if mod := format[i]; mod == '*' || mod == '#' { op.modifier = mod; i++ } }` -/
def splitMod : List Char → Char × List Char
  | m :: r => if m = '*' ∨ m = '#' then (m, r) else ('\x00', m :: r)
  | [] => ('\x00', [])

theorem splitMod_length (l : List Char) : (splitMod l).2.length ≤ l.length := by
  cases l with
  | nil => simp [splitMod]
  | cons m r => by_cases h : m = '*' ∨ m = '#' <;> simp [splitMod, h]

/-- the `for i := 0; i < N;` loop of `parseFormat`; `min = none` is Go's `min = -1`.
Structural on `fuel` (so that the kernel can evaluate it on the literal formats of the site table);
`parseFormat` supplies `fuel = len(format)`, which always suffices because every iteration consumes
at least one character (`parseLoop_fuel` in Proofs.lean). -/
def parseLoop : Nat → List Char → Option Nat → List Char → Nat → List FormatOp →
    Option Nat × List Char × Nat × List FormatOp
  | _, [], min, name, kwOnly, ops => (min, name, kwOnly, ops)
  | 0, _ :: _, min, name, kwOnly, ops => (min, name, kwOnly, ops)
  | fuel + 1, c :: rest, min, name, kwOnly, ops =>
    let m := (splitMod rest).1
    let rest' := (splitMod rest).2
    if c = ':' ∨ c = ';' then (min, rest', kwOnly, ops)               -- `name = format[i:]; i = N`
    else if c = '$' then parseLoop fuel rest' min name ops.length ops  -- `kwOnly_i = len(ops)`
    else if c = '|' then parseLoop fuel rest' (some ops.length) name kwOnly ops  -- `min = len(ops)`
    else parseLoop fuel rest' min name kwOnly (ops ++ [⟨c, m⟩])

/-- `parseFormat` -/
def parseFormat (fmt : List Char) : Parsed :=
  let r := parseLoop fmt.length fmt none ['f', 'u', 'n', 'c', 't', 'i', 'o', 'n'] 0xFFFF []
  { min := match r.1 with | some m => m | none => r.2.2.2.length, name := r.2.1, kwOnly := r.2.2.1, ops := r.2.2.2 }

/-- `checkNumberOfArgs` -/
def checkNumberOfArgs (nargs nresults min max : Int) : Except Err Unit :=
  if min = max then
    if nargs ≠ max then .error .type
    else if nargs > nresults then .error .type else .ok ()
  else
    if nargs > max then .error .type
    else if nargs < min then .error .type
    else if nargs > nresults then .error .type else .ok ()

/-- the cases of `switch op.code` in ParseTupleAndKeywords -/
inductive UnitKind where
  | O | Z | z | U | s | y | int | p | d | unknown
deriving DecidableEq, Repr, Inhabited

def classify (c : Char) : UnitKind :=
  if c = 'O' then .O else if c = 'Z' then .Z else if c = 'z' then .z else if c = 'U' then .U
  else if c = 's' then .s else if c = 'y' then .y else if c = 'i' ∨ c = 'n' then .int
  else if c = 'p' then .p else if c = 'd' then .d else .unknown

/-- one format unit applied to a present argument (the `switch op.code` of ParseTupleAndKeywords) -/
def convert (op : FormatOp) (arg : Val) : Except Err Val :=
  let m := op.modifier
  match classify op.code with
  | .O => .ok arg
  | .Z =>
    if m = '#' ∨ m = '\x00' then
      (match arg.ty with | .string | .noneType => .ok arg | _ => .error .type)
    else .error .type
  | .z =>
    if m = '#' ∨ m = '*' then
      (match arg.ty with | .string | .bytes | .noneType => .ok arg | _ => .error .type)
    else (match arg.ty with | .string | .noneType => .ok arg | _ => .error .type)
  | .U => (match arg.ty with | .string => .ok arg | _ => .error .type)
  | .s =>
    if m = '#' ∨ m = '*' then
      (match arg.ty with | .string | .bytes => .ok arg | _ => .error .type)
    else (match arg.ty with | .string => .ok arg | _ => .error .type)
  | .y => (match arg.ty with | .bytes => .ok arg | _ => .error .type)
  | .int => (match arg.ty with | .bigInt => .error .overflow | .int => .ok arg | _ => .error .type)
  | .p => (match arg.ty with | .bool => .ok arg | _ => .error .type)
  | .d => (match arg with | .int v => .ok (.floatOfInt v) | .float => .ok .float | .floatOfInt v => .ok (.floatOfInt v) | _ => .error .type)
  | .unknown => .error .type   -- "Unknown/Unimplemented format character"

/-- Go map `kwargs[kw]` (a missing key, and any key of a nil map, reads nil) -/
def lookup (kw : String) : List (String × Val) → Option Val
  | [] => none
  | (k, v) :: r => if k = kw then some v else lookup kw r

/-- one call of `ParseTupleAndKeywords(args, kwargs, format, kwlist, results...)`;
`kwlist = none` is Go's nil slice, `nresults = len(results)`; every `*results[i]` starts at its
caller-supplied default, modelled as `Option.none` in the output list -/
structure Call where
  args : List Val
  kwargs : List (String × Val)
  format : List Char
  kwlist : Option (List String)
  nresults : Nat
deriving Repr

def Call.kwl (c : Call) : List String := c.kwlist.getD []

/-- `if i < len(kwlist) { kw = kwlist[i]; arg = kwargs[kw] }` -/
def kwArg (c : Call) (i : Nat) : Option Val :=
  match c.kwl[i]? with
  | some kw => lookup kw c.kwargs
  | none => none

/-- `for i, op := range ops { … }` with `rs` = the current contents of the result variables -/
def parseOps (c : Call) (min kwOnly : Nat) : List FormatOp → Nat → List (Option Val) → Except Err (List (Option Val))
  | [], _, rs => .ok rs
  | op :: ops, i, rs =>
    let arg : Option Val := kwArg c i
    -- `if i < len(args) { … arg = args[i] }`
    match c.args[i]? with
    | some a =>
      if i ≥ kwOnly then .error .type
      else if arg.isSome then .error .type
      else
        -- `result := results[i]` : a Go index expression
        if i < rs.length then
          match convert op a with
          | .ok v => parseOps c min kwOnly ops (i + 1) (rs.set i (some v))
          | .error e => .error e
        else .error .panic
    | none =>
      match arg with
      | none =>
        -- `if i < min { return TypeError "Required argument … not found" }; continue` (fix f7408bf)
        if i < min then .error .type else parseOps c min kwOnly ops (i + 1) rs
      | some a =>
        if i < rs.length then
          match convert op a with
          | .ok v => parseOps c min kwOnly ops (i + 1) (rs.set i (some v))
          | .error e => .error e
        else .error .panic

/-- `ParseTupleAndKeywords` -/
def parseTupleAndKeywords (c : Call) : Except Err (List (Option Val)) :=
  -- `if kwlist != nil && len(results) != len(kwlist)`
  if c.kwlist.isSome ∧ c.nresults ≠ c.kwl.length then .error .type
  else
    let p := parseFormat c.format
    match checkNumberOfArgs (c.args.length + c.kwargs.length) c.nresults p.min p.ops.length with
    | .error e => .error e
    | .ok () =>
      -- every keyword must be in kwlist
      if c.kwargs.any (fun kv => !c.kwl.contains kv.1) then .error .type
      else parseOps c p.min p.kwOnly p.ops 0 (List.replicate c.nresults none)

/-- `ParseTuple(args, format, results...)` -/
def parseTuple (args : List Val) (format : List Char) (nresults : Nat) : Except Err (List (Option Val)) :=
  parseTupleAndKeywords { args := args, kwargs := [], format := format, kwlist := none, nresults := nresults }

/-- the copy loop of `UnpackTuple`: `for i := range args { *results[i] = args[i] }` -/
def unpackLoop : List Val → Nat → List (Option Val) → Except Err (List (Option Val))
  | [], _, rs => .ok rs
  | a :: as, i, rs => if i < rs.length then unpackLoop as (i + 1) (rs.set i (some a)) else .error .panic

/-- `UnpackTuple(args, kwargs, name, min, max, results...)` -/
def unpackTuple (args : List Val) (nkwargs : Nat) (min max : Int) (nresults : Nat) : Except Err (List (Option Val)) :=
  if nkwargs ≠ 0 then .error .type
  else match checkNumberOfArgs args.length nresults min max with
    | .error e => .error e
    | .ok () => unpackLoop args 0 (List.replicate nresults none)

/-! ### py/method.go -/

/-- the Go function signature kinds `NewMethod` accepts -/
inductive Sig where
  | tuple      -- func(self Object, args Tuple) (Object, error)
  | kw         -- func(self Object, args Tuple, kwargs StringDict) (Object, error)
  | noargs     -- func(Object) (Object, error)
  | onearg     -- func(Object, Object) (Object, error)
  | internal   -- InternalMethod (implemented inside vm/eval.go)
deriving DecidableEq, Repr, Inhabited

/-- what the Go function is called with -/
inductive Invoked (α : Type) where
  | tuple (args : List α)
  | kw (args : List α) (nkw : Nat)
  | noargs
  | onearg (a : α)
deriving DecidableEq, Repr

/-- `Method.Call` -/
def methodCall {α} (s : Sig) (args : List α) : Except Err (Invoked α) :=
  match s with
  | .tuple => .ok (.tuple args)
  | .kw => .ok (.kw args 0)            -- `f(self, args, NewStringDict())`
  | .noargs => if args.length ≠ 0 then .error .type else .ok .noargs
  | .onearg =>
    if args.length ≠ 1 then .error .type
    else match args[0]? with           -- `args[0]`: a Go index expression
      | some a => .ok (.onearg a)
      | none => .error .panic
  | .internal => .error .notImpl       -- `case InternalMethod:` NotImplementedError (fix 5615ff4; was the final panic)

/-- `Method.CallWithKeywords` -/
def methodCallWithKeywords {α} (s : Sig) (args : List α) (nkw : Nat) : Except Err (Invoked α) :=
  if nkw = 0 then methodCall s args
  else match s with
    | .kw => .ok (.kw args nkw)
    | .tuple | .noargs | .onearg => .error .type
    | .internal => .error .notImpl

/-- `Method.M__call__` (`kwargs = none` is a nil map) -/
def methodMCall {α} (s : Sig) (args : List α) (kwargs : Option Nat) : Except Err (Invoked α) :=
  match kwargs with
  | some n => methodCallWithKeywords s args n
  | none => methodCall s args

/-! ### rendering for the correspondence run -/

def Val.show : Val → String
  | .str => "sa" | .bytes => "yb" | .int v => s!"i{v}" | .big => "g18446744073709551616"
  | .bool b => if b then "t1" else "t0" | .float => "f1.5" | .floatOfInt v => s!"f{v}" | .none => "n" | .other => "l"

def Err.show : Err → String
  | .type => "E:TypeError" | .overflow => "E:OverflowError" | .notImpl => "E:NotImplementedError" | .panic => "PANIC"

def showResults : Except Err (List (Option Val)) → String
  | .error e => e.show
  | .ok rs => "ok:" ++ ",".intercalate (rs.map fun r => match r with | none => "d" | some v => v.show)

end GPy.C10
