/-
C10 helper lemmas (loop invariants of ParseTupleAndKeywords / UnpackTuple).
-/
import GPy.C10.Spec
import Mathlib.Tactic.SplitIfs
namespace GPy.C10

/-! ### convert: outcome classes and the guarantee table -/

theorem convert_no_panic (op : FormatOp) (a : Val) : convert op a ≠ .error .panic := by
  unfold convert
  generalize classify op.code = k
  cases k <;> cases a <;> simp only [Val.ty] <;> (try split_ifs) <;> simp

theorem convert_guaranteed {op : FormatOp} {a v : Val} (h : convert op a = .ok v) : Guaranteed op v := by
  unfold convert at h
  unfold Guaranteed guaranteed
  generalize classify op.code = k at h ⊢
  cases k <;> cases a <;> simp only [Val.ty] at h ⊢ <;> (try split_ifs at h ⊢) <;> (try simp_all [Val.ty]) <;> (try (subst_vars; simp [Val.ty]))

theorem convert_stored {op : FormatOp} {a v : Val} (h : convert op a = .ok v) : v = stored op a := by
  unfold convert at h
  unfold stored
  generalize classify op.code = k at h ⊢
  cases k <;> cases a <;> simp only [Val.ty] at h ⊢ <;> (try split_ifs at h ⊢) <;> (try simp_all [Val.ty]) <;> (try (subst_vars; simp [Val.ty]))
/-! ### the result loop -/

theorem getElem?_set_self' {α} (l : List α) (i : Nat) (x : α) (h : i < l.length) : (l.set i x)[i]? = some x := by
  simp [h]

theorem getElem?_set_ne' {α} (l : List α) (i j : Nat) (x : α) (h : i ≠ j) : (l.set i x)[j]? = l[j]? := by
  simp [List.getElem?_set, h]

/-- the loop's own view of "the argument of slot i" once the two error checks have passed -/
theorem argFor_pos {c : Call} {i : Nat} {a : Val} (h : c.args[i]? = some a) : argFor c i = some a := by
  simp [argFor, h]

theorem argFor_kw {c : Call} {i : Nat} (h : c.args[i]? = none) :
    argFor c i = kwArg c i := by
  simp [argFor, h]

/-- success of the loop: lengths are kept, slots outside `[i, i+|ops|)` are untouched, and every slot
inside holds the converted argument, or its old content when no argument was supplied -/
theorem parseOps_ok (c : Call) (min kwOnly : Nat) :
    ∀ (ops : List FormatOp) (i : Nat) (rs rs' : List (Option Val)),
      parseOps c min kwOnly ops i rs = .ok rs' →
      rs'.length = rs.length ∧
      (∀ j, (j < i ∨ i + ops.length ≤ j) → rs'[j]? = rs[j]?) ∧
      (∀ j op, i ≤ j → ops[j - i]? = some op →
        match argFor c j with
        | none => rs'[j]? = rs[j]? ∧ ¬ j < min
        | some a => ∃ v, convert op a = .ok v ∧ rs'[j]? = some (some v)) := by
  intro ops
  induction ops with
  | nil =>
    intro i rs rs' h
    simp only [parseOps, Except.ok.injEq] at h
    subst h
    refine ⟨rfl, fun _ _ => rfl, ?_⟩
    intro j op _ hop; simp at hop
  | cons op ops ih =>
    intro i rs rs' h
    unfold parseOps at h
    -- common continuation after a store into slot i
    have store : ∀ (a v : Val), argFor c i = some a → convert op a = .ok v → i < rs.length →
        parseOps c min kwOnly ops (i + 1) (rs.set i (some v)) = .ok rs' →
        rs'.length = rs.length ∧
        (∀ j, (j < i ∨ i + (op :: ops).length ≤ j) → rs'[j]? = rs[j]?) ∧
        (∀ j op', i ≤ j → (op :: ops)[j - i]? = some op' →
          match argFor c j with
          | none => rs'[j]? = rs[j]? ∧ ¬ j < min
          | some a => ∃ v, convert op' a = .ok v ∧ rs'[j]? = some (some v)) := by
      intro a v harg hconv hi hrec
      obtain ⟨hlen, hout, hin⟩ := ih (i + 1) _ rs' hrec
      refine ⟨by simpa using hlen, ?_, ?_⟩
      · intro j hj
        have h1 : rs'[j]? = (rs.set i (some v))[j]? := hout j (by simp only [List.length_cons] at hj; omega)
        rw [h1]; apply getElem?_set_ne'; simp only [List.length_cons] at hj; omega
      · intro j op' hij hop
        by_cases hji : j = i
        · subst hji
          simp only [Nat.sub_self, List.getElem?_cons_zero, Option.some.injEq] at hop
          subst hop
          rw [harg]
          refine ⟨v, hconv, ?_⟩
          rw [hout j (by omega)]
          exact getElem?_set_self' _ _ _ hi
        · have hj1 : i + 1 ≤ j := by omega
          have hidx : j - i = (j - (i + 1)) + 1 := by omega
          rw [hidx, List.getElem?_cons_succ] at hop
          have := hin j op' hj1 hop
          cases hA : argFor c j with
          | none =>
            rw [hA] at this; simp only at this ⊢
            refine ⟨?_, this.2⟩
            rw [this.1]; apply getElem?_set_ne'; omega
          | some a' => rw [hA] at this; exact this
    -- common continuation when the slot is skipped
    have skip : argFor c i = none → ¬ i < min → parseOps c min kwOnly ops (i + 1) rs = .ok rs' →
        rs'.length = rs.length ∧
        (∀ j, (j < i ∨ i + (op :: ops).length ≤ j) → rs'[j]? = rs[j]?) ∧
        (∀ j op', i ≤ j → (op :: ops)[j - i]? = some op' →
          match argFor c j with
          | none => rs'[j]? = rs[j]? ∧ ¬ j < min
          | some a => ∃ v, convert op' a = .ok v ∧ rs'[j]? = some (some v)) := by
      intro harg hmin hrec
      obtain ⟨hlen, hout, hin⟩ := ih (i + 1) rs rs' hrec
      refine ⟨hlen, ?_, ?_⟩
      · intro j hj
        exact hout j (by simp only [List.length_cons] at hj; omega)
      · intro j op' hij hop
        by_cases hji : j = i
        · subst hji
          rw [harg]; simp only
          exact ⟨hout j (by omega), hmin⟩
        · have hj1 : i + 1 ≤ j := by omega
          have hidx : j - i = (j - (i + 1)) + 1 := by omega
          rw [hidx, List.getElem?_cons_succ] at hop
          exact hin j op' hj1 hop
    cases hargs : c.args[i]? with
    | some a =>
      rw [hargs] at h
      simp only at h
      split_ifs at h with h1 h2 h3
      cases hc : convert op a with
      | error e => rw [hc] at h; simp at h
      | ok v =>
        rw [hc] at h
        exact store a v (argFor_pos hargs) hc h3 h
    | none =>
      rw [hargs] at h
      simp only at h
      have hA := argFor_kw (c := c) hargs
      cases hk : kwArg c i with
      | none =>
        rw [hk] at h hA
        simp only at h
        split_ifs at h with hmin
        exact skip hA hmin h
      | some a =>
        rw [hk] at h hA
        simp only at h
        split_ifs at h with h3
        cases hc : convert op a with
        | error e => rw [hc] at h; simp at h
        | ok v =>
          rw [hc] at h
          exact store a v hA hc h3 h

/-- the loop never indexes `results` out of range when every slot that can receive an argument exists -/
theorem parseOps_no_panic (c : Call) (min kwOnly : Nat) :
    ∀ (ops : List FormatOp) (i : Nat) (rs : List (Option Val)),
      (∀ j, (argFor c j).isSome → j < rs.length) →
      parseOps c min kwOnly ops i rs ≠ .error .panic := by
  intro ops
  induction ops with
  | nil => intro i rs _; simp [parseOps]
  | cons op ops ih =>
    intro i rs H
    unfold parseOps
    cases hargs : c.args[i]? with
    | some a =>
      simp only
      have hi : i < rs.length := H i (by simp [argFor_pos hargs])
      split_ifs
      · simp
      · simp
      · cases hc : convert op a with
        | error e => simp only; intro h; injection h with h; exact convert_no_panic op a (by rw [hc, h])
        | ok v => simp only; exact ih _ _ (by intro j hj; simpa using H j hj)
    | none =>
      simp only
      have hA := argFor_kw (c := c) hargs
      cases hk : kwArg c i with
      | none =>
        simp only
        split_ifs
        · simp
        · exact ih _ _ H
      | some a =>
        simp only
        have hi : i < rs.length := H i (by rw [hA, hk]; rfl)
        split_ifs
        cases hc : convert op a with
        | error e => simp only; intro h; injection h with h; exact convert_no_panic op a (by rw [hc, h])
        | ok v => simp only; exact ih _ _ (by intro j hj; simpa using H j hj)

theorem checkNumberOfArgs_ok {nargs nresults min max : Int} (h : checkNumberOfArgs nargs nresults min max = .ok ()) :
    nargs ≤ nresults ∧ nargs ≤ max ∧ min ≤ nargs := by
  unfold checkNumberOfArgs at h
  split_ifs at h <;> omega

theorem checkNumberOfArgs_err {nargs nresults min max : Int} {e : Err} (h : checkNumberOfArgs nargs nresults min max = .error e) :
    e = .type := by
  unfold checkNumberOfArgs at h
  split_ifs at h <;> simp_all

theorem lookup_isSome_mem {kw : String} {l : List (String × Val)} (h : (lookup kw l).isSome) : ∃ v, (kw, v) ∈ l := by
  induction l with
  | nil => simp [lookup] at h
  | cons p r ih =>
    obtain ⟨k, v⟩ := p
    unfold lookup at h
    by_cases hk : k = kw
    · subst hk; exact ⟨v, by simp⟩
    · simp only [hk, if_false] at h
      obtain ⟨v', hv⟩ := ih h
      exact ⟨v', by simp [hv]⟩

/-- a slot that can receive an argument exists among the results, once the two preliminary checks passed -/
theorem argFor_lt (c : Call) (hk : ¬(c.kwlist.isSome ∧ c.nresults ≠ c.kwl.length))
    (hn : (c.args.length : Int) + c.kwargs.length ≤ c.nresults) (j : Nat) (h : (argFor c j).isSome) : j < c.nresults := by
  unfold argFor at h
  cases ha : c.args[j]? with
  | some a =>
    obtain ⟨hlt, _⟩ := List.getElem?_eq_some_iff.mp ha
    omega
  | none =>
    rw [ha] at h
    simp only [kwArg] at h
    cases hkw : c.kwl[j]? with
    | none => rw [hkw] at h; simp at h
    | some kw =>
      obtain ⟨hj, _⟩ := List.getElem?_eq_some_iff.mp hkw
      cases hl : c.kwlist with
      | none => simp [Call.kwl, hl] at hj
      | some kl =>
        have : c.nresults = c.kwl.length := by
          rcases Nat.decEq c.nresults c.kwl.length with hne | heq
          · exact absurd ⟨by simp [hl], hne⟩ hk
          · exact heq
        omega

/-! ### UnpackTuple -/

theorem unpackLoop_ok : ∀ (as : List Val) (i : Nat) (rs rs' : List (Option Val)),
    unpackLoop as i rs = .ok rs' →
    rs'.length = rs.length ∧ (∀ j, (j < i ∨ i + as.length ≤ j) → rs'[j]? = rs[j]?) ∧
    (∀ j a, i ≤ j → as[j - i]? = some a → rs'[j]? = some (some a)) := by
  intro as
  induction as with
  | nil => intro i rs rs' h; simp only [unpackLoop, Except.ok.injEq] at h; subst h; simp
  | cons a as ih =>
    intro i rs rs' h
    unfold unpackLoop at h
    split_ifs at h with hi
    obtain ⟨hlen, hout, hin⟩ := ih _ _ _ h
    refine ⟨by simpa using hlen, ?_, ?_⟩
    · intro j hj
      rw [hout j (by simp only [List.length_cons] at hj; omega)]
      apply getElem?_set_ne'; simp only [List.length_cons] at hj; omega
    · intro j a' hij ha'
      by_cases hji : j = i
      · subst hji
        simp only [Nat.sub_self, List.getElem?_cons_zero, Option.some.injEq] at ha'
        subst ha'
        rw [hout j (by omega)]
        exact getElem?_set_self' _ _ _ hi
      · have hidx : j - i = (j - (i + 1)) + 1 := by omega
        rw [hidx, List.getElem?_cons_succ] at ha'
        exact hin j a' (by omega) ha'

theorem unpackLoop_no_panic : ∀ (as : List Val) (i : Nat) (rs : List (Option Val)),
    i + as.length ≤ rs.length → unpackLoop as i rs ≠ .error .panic := by
  intro as
  induction as with
  | nil => intro i rs _; simp [unpackLoop]
  | cons a as ih =>
    intro i rs h
    unfold unpackLoop
    simp only [List.length_cons] at h
    have hi : i < rs.length := by omega
    simp only [hi, if_true]
    exact ih _ _ (by simp; omega)

end GPy.C10

namespace GPy.C10

theorem convert_err {op : FormatOp} {a : Val} {e : Err} (h : convert op a = .error e) : e = .type ∨ e = .overflow := by
  unfold convert at h
  generalize classify op.code = k at h
  cases k <;> cases a <;> simp only [Val.ty] at h <;> (try split_ifs at h) <;> simp_all

/-- every failure of the loop is a TypeError or an OverflowError (in particular never a panic) -/
theorem parseOps_err (c : Call) (min kwOnly : Nat) :
    ∀ (ops : List FormatOp) (i : Nat) (rs : List (Option Val)) (e : Err),
      (∀ j, (argFor c j).isSome → j < rs.length) →
      parseOps c min kwOnly ops i rs = .error e → e = .type ∨ e = .overflow := by
  intro ops
  induction ops with
  | nil => intro i rs e _ h; simp [parseOps] at h
  | cons op ops ih =>
    intro i rs e H h
    unfold parseOps at h
    cases hargs : c.args[i]? with
    | some a =>
      rw [hargs] at h
      simp only at h
      have hi : i < rs.length := H i (by simp [argFor_pos hargs])
      split_ifs at h
      · simp_all
      · simp_all
      · cases hc : convert op a with
        | error e' => rw [hc] at h; simp only [Except.error.injEq] at h; subst h; exact convert_err hc
        | ok v => rw [hc] at h; exact ih _ _ e (by intro j hj; simpa using H j hj) h
    | none =>
      rw [hargs] at h
      simp only at h
      have hA := argFor_kw (c := c) hargs
      cases hk : kwArg c i with
      | none =>
        rw [hk] at h
        simp only at h
        split_ifs at h
        · simp_all
        · exact ih _ _ e H h
      | some a =>
        rw [hk] at h
        simp only at h
        have hi : i < rs.length := H i (by rw [hA, hk]; rfl)
        split_ifs at h
        cases hc : convert op a with
        | error e' => rw [hc] at h; simp only [Except.error.injEq] at h; subst h; exact convert_err hc
        | ok v => rw [hc] at h; exact ih _ _ e (by intro j hj; simpa using H j hj) h

end GPy.C10
