/-
C10 property theorems: the CONTRACTS that are meant to make Go panics impossible.

Honest scope (DESIGN.md section 7, C10 is *partial*): what is PROVED here, for all inputs, is that
the argument-parsing contracts of py/args.go, the signature dispatch of py/method.go and the checked
index conversion of py/internal.go never panic themselves and deliver what the Go code that follows
them relies on; and that every assertion site of the regenerated table whose recognised guard is one
of these contracts is really covered by it.  Sites with no recognised guard are OPEN OBLIGATIONS
(`obligations_open` pins their number and `open_assert_panic_keys` their list, so a new unguarded
site breaks this file); they are attacked by the exhaustive sweep of harness/c10.go, not proved.
-/
import GPy.C10.Proofs
import GPy.C10.BindProofs
import GPy.C10.Generated
import GPy.C10.Expected
namespace GPy.C10

/-! ### py/args.go -/

/-- **format_guarantee.**  For ALL argument tuples, keyword dictionaries, formats, keyword lists and
numbers of result variables: `ParseTupleAndKeywords` either fails with a TypeError/OverflowError
value (never a Go panic), or succeeds, and then every result slot holding a supplied argument has the
Go dynamic type its format unit guarantees (and is the argument itself, `d` converting int→float),
every slot whose argument is absent keeps its default – and is optional –, and slots beyond the
format are untouched. -/
theorem format_guarantee (c : Call) :
    match parseTupleAndKeywords c with
    | .error e => e = .type ∨ e = .overflow
    | .ok rs =>
      rs.length = c.nresults ∧
      ∀ i, i < c.nresults →
        match (parseFormat c.format).ops[i]?, argFor c i with
        | some op, some a => ∃ v, rs[i]? = some (some v) ∧ Guaranteed op v ∧ v = stored op a
        | some _, none => rs[i]? = some none ∧ (parseFormat c.format).min ≤ i
        | none, _ => rs[i]? = some none := by
  unfold parseTupleAndKeywords
  split_ifs with hk hkw
  · simp
  · cases hn : checkNumberOfArgs (↑c.args.length + ↑c.kwargs.length) (↑c.nresults) (↑(parseFormat c.format).min)
        ↑(parseFormat c.format).ops.length with
    | error e => simp only [hn]; exact Or.inl (checkNumberOfArgs_err hn)
    | ok u => simp [hn]
  · cases hn : checkNumberOfArgs (↑c.args.length + ↑c.kwargs.length) (↑c.nresults) (↑(parseFormat c.format).min)
        ↑(parseFormat c.format).ops.length with
    | error e => simp only [hn]; exact Or.inl (checkNumberOfArgs_err hn)
    | ok u =>
      simp only [hn]
      have hle := (checkNumberOfArgs_ok hn).1
      have H : ∀ j, (argFor c j).isSome → j < (List.replicate c.nresults (none : Option Val)).length := by
        intro j hj; simpa using argFor_lt c hk hle j hj
      cases hp : parseOps c (parseFormat c.format).min (parseFormat c.format).kwOnly (parseFormat c.format).ops 0
          (List.replicate c.nresults none) with
      | error e => simp only; exact parseOps_err c _ _ _ _ _ e H hp
      | ok rs =>
        simp only
        obtain ⟨hlen, hout, hin⟩ := parseOps_ok c _ _ _ _ _ _ hp
        refine ⟨by simpa using hlen, ?_⟩
        intro i hi
        have hrep : (List.replicate c.nresults (none : Option Val))[i]? = some none := by
          simp [hi]
        cases hop : (parseFormat c.format).ops[i]? with
        | none =>
          simp only
          have : (parseFormat c.format).ops.length ≤ i := by
            rcases Nat.lt_or_ge i (parseFormat c.format).ops.length with h | h
            · have := List.getElem?_eq_getElem h; simp [this] at hop
            · exact h
          rw [hout i (Or.inr (by omega)), hrep]
        | some op =>
          have := hin i op (Nat.zero_le _) (by simpa using hop)
          cases hA : argFor c i with
          | none =>
            rw [hA] at this
            simp only at this ⊢
            exact ⟨by rw [this.1, hrep], Nat.le_of_not_lt this.2⟩
          | some a =>
            rw [hA] at this
            obtain ⟨v, hc, hv⟩ := this
            exact ⟨v, hv, convert_guaranteed hc, convert_stored hc⟩

/-- corollary: no input makes `ParseTupleAndKeywords` index `results` out of range -/
theorem format_never_panics (c : Call) : parseTupleAndKeywords c ≠ .error .panic := by
  have := format_guarantee c
  intro h; rw [h] at this; simp at this

example : parseTupleAndKeywords ({ args := [.str, .int 5], kwargs := [("c", .float)], format := ['U', 'd', '|', 'd'], kwlist := some ["a", "b", "c"], nresults := 3 } : Call) = .ok [some .str, some (.floatOfInt 5), some .float] := by decide
example : parseTupleAndKeywords ({ args := [.big], kwargs := [], format := ['i'], kwlist := none, nresults := 1 } : Call) = .error .overflow := by decide
/-- the hole repaired by f7408bf: `open(mode='r')` – enough arguments, the required one missing -/
example : parseTupleAndKeywords ({ args := [], kwargs := [("mode", .str)], format := ['s', '|', 's'], kwlist := some ["file", "mode"], nresults := 2 } : Call) = .error .type := by decide

/-- `checkNumberOfArgs` accepts exactly `min ≤ nargs ≤ max` with a result variable for every argument -/
theorem checkNumberOfArgs_spec (nargs nresults min max : Int) :
    checkNumberOfArgs nargs nresults min max = .ok () ↔ (min ≤ nargs ∧ nargs ≤ max ∧ nargs ≤ nresults) := by
  unfold checkNumberOfArgs
  split_ifs <;> simp <;> omega

theorem checkNumberOfArgs_error_is_typeerror (nargs nresults min max : Int) (e : Err)
    (h : checkNumberOfArgs nargs nresults min max = .error e) : e = .type := checkNumberOfArgs_err h

/-- **unpack_guarantee.**  `UnpackTuple` fails with TypeError or copies exactly the given arguments
into the first result variables and leaves the others at their default; it never indexes `results`
out of range. -/
theorem unpack_guarantee (args : List Val) (nkw : Nat) (min max : Int) (n : Nat) :
    match unpackTuple args nkw min max n with
    | .error e => e = .type
    | .ok rs => rs.length = n ∧ args.length ≤ n ∧ min ≤ args.length ∧ (args.length : Int) ≤ max ∧
        ∀ i, i < n → rs[i]? = some (args[i]?) := by
  unfold unpackTuple
  split_ifs
  · simp
  · cases hn : checkNumberOfArgs (↑args.length) (↑n) min max with
    | error e => simp only; exact checkNumberOfArgs_err hn
    | ok u =>
      simp only
      obtain ⟨h1, h2, h3⟩ := checkNumberOfArgs_ok hn
      cases hl : unpackLoop args 0 (List.replicate n none) with
      | error e =>
        simp only
        exfalso
        have hnp := unpackLoop_no_panic args 0 (List.replicate n none) (by simp; omega)
        -- the loop has no other failure
        have : ∀ (as : List Val) (i : Nat) (rs : List (Option Val)) (e : Err), unpackLoop as i rs = .error e → e = .panic := by
          intro as
          induction as with
          | nil => intro i rs e h; simp [unpackLoop] at h
          | cons a as ih =>
            intro i rs e h
            unfold unpackLoop at h
            split_ifs at h
            · exact ih _ _ _ h
            · simp_all
        exact hnp (by rw [hl, this _ _ _ _ hl])
      | ok rs =>
        simp only
        obtain ⟨hlen, hout, hin⟩ := unpackLoop_ok _ _ _ _ hl
        refine ⟨by simpa using hlen, by omega, h3, h2, ?_⟩
        intro i hi
        cases ha : args[i]? with
        | none =>
          have : args.length ≤ i := by
            rcases Nat.lt_or_ge i args.length with h | h
            · have := List.getElem?_eq_getElem h; simp [this] at ha
            · exact h
          rw [hout i (Or.inr (by omega))]; simp [hi]
        | some a => exact hin i a (Nat.zero_le _) (by simpa using ha)

/-! ### py/method.go -/

/-- **method_call_arity_safe.**  For every Go signature kind `NewMethod` accepts, every argument tuple
and every keyword dictionary, `Method.M__call__` / `Call` / `CallWithKeywords` never index `args` out
of range and never reach the final `panic("Unknown method type")`: the outcome is the Go function
invoked with the arguments its signature expects, a TypeError, or NotImplementedError. -/
theorem method_call_arity_safe {α} (s : Sig) (args : List α) (kwargs : Option Nat) :
    methodMCall s args kwargs ≠ .error .panic := by
  cases s <;> cases kwargs <;> simp only [methodMCall, methodCallWithKeywords, methodCall] <;>
    (try split_ifs) <;> (try simp) <;>
    (try (rename_i h; cases args with
      | nil => simp at h
      | cons a t => simp))
  all_goals (try (cases args with
      | nil => simp_all
      | cons a t => simp_all))

/-- a one-argument Go function receives exactly `args[0]`, and only when there is exactly one argument -/
theorem method_call_onearg {α} (args : List α) (a : α) :
    methodCall .onearg args = .ok (.onearg a) ↔ args = [a] := by
  unfold methodCall
  cases args with
  | nil => simp
  | cons x t => cases t <;> simp

/-- the frame-dependent builtins reached through a callback are an exception value since 5615ff4 -/
theorem method_call_internal {α} (args : List α) (kwargs : Option Nat) :
    methodMCall .internal args kwargs = .error .notImpl := by
  cases kwargs <;> simp [methodMCall, methodCallWithKeywords, methodCall]

/-! ### py/internal.go (model of GPy.C13, imported) -/

/-- **index_checked_inbounds.**  Whatever the index object and whatever the length, a successful
`IndexIntCheck(a, max)` returns a position inside `[0, max)`, and it never panics. -/
theorem index_checked_inbounds (a : C13.Idx) (max i : Int) (h : C13.indexIntCheck a max = .ok i) : 0 ≤ i ∧ i < max := by
  unfold C13.indexIntCheck C13.indexInt at h
  cases hidx : C13.index a with
  | error e => rw [hidx] at h; simp [bind, Except.bind] at h
  | ok v =>
    rw [hidx] at h
    simp only [bind, Except.bind] at h
    split_ifs at h <;> simp_all [pure, Except.pure, throw, throwThe, MonadExceptOf.throw] <;> omega

theorem index_checked_never_panics (a : C13.Idx) (max : Int) : C13.indexIntCheck a max ≠ .error .panic := by
  unfold C13.indexIntCheck C13.indexInt
  cases a <;> simp only [C13.index, bind, Except.bind, pure, Except.pure, throw, throwThe, MonadExceptOf.throw] <;>
    (try split_ifs) <;> (try simp) <;> (try split_ifs) <;> simp

/-- so the Go index expression that follows (`l.Items[i]`) cannot panic -/
theorem index_checked_goAt_safe (xs : List Int) (a : C13.Idx) (i : Int) (h : C13.indexIntCheck a xs.length = .ok i) :
    C13.goAt xs i ≠ .error .panic := by
  have := index_checked_inbounds a _ i h
  unfold C13.goAt
  simp [this.1, this.2, pure, Except.pure]

example : C13.indexIntCheck (.int (-1)) 3 = .ok 2 := by decide
example : C13.indexIntCheck (.int 3) 3 = .error .index := by decide

/-! ### the regenerated assertion-site table -/

/-- semantic content of a discharged `format` guard: after a successful parse with that literal
format, the variable bound to `slot` either holds a value of the asserted Go type (or `None` when the
site is under a `!= None` test), or was left at its default – which happens only for an optional slot,
and then the site is nil-tested or the default has the asserted type. -/
theorem format_site_sound (fmt : List Char) (slot : Nat) (ty : GoTy) (n o : Bool) (d : Option GoTy)
    (hd : formatDischarges fmt slot ty n o d = true)
    (c : Call) (hf : c.format = fmt) (rs : List (Option Val)) (hok : parseTupleAndKeywords c = .ok rs)
    (hs : slot < c.nresults) :
    (∃ v, rs[slot]? = some (some v) ∧ (v.ty = ty ∨ (o = true ∧ v.ty = .noneType))) ∨
    (rs[slot]? = some none ∧ (n = true ∨ d = some ty ∨ (o = true ∧ d = some .noneType))) := by
  have hg := format_guarantee c
  rw [hok] at hg
  obtain ⟨_, hg⟩ := hg
  have hg := hg slot hs
  subst hf
  simp only [formatDischarges] at hd
  cases hop : (parseFormat c.format).ops[slot]? with
  | none => rw [hop] at hd; simp at hd
  | some op =>
    rw [hop] at hd hg
    simp only [Bool.and_eq_true, Bool.or_eq_true, decide_eq_true_eq] at hd
    obtain ⟨hty, hopt⟩ := hd
    cases hA : argFor c slot with
    | some a =>
      rw [hA] at hg
      obtain ⟨v, hv, hG, _⟩ := hg
      left
      refine ⟨v, hv, ?_⟩
      unfold Guaranteed at hG
      cases hgu : guaranteed op with
      | none => rw [hgu] at hty; simp at hty
      | some tys =>
        rw [hgu] at hty hG
        simp only at hG
        match tys, hty, hG with
        | [t], hty, hG =>
          simp only [beq_iff_eq] at hty
          simp only [List.mem_singleton] at hG
          left; rw [hG, hty]
        | [t, .noneType], hty, hG =>
          simp only [Bool.and_eq_true, beq_iff_eq] at hty
          simp only [List.mem_cons, List.not_mem_nil, or_false] at hG
          rcases hG with hG | hG
          · left; rw [hG, hty.1]
          · right; exact ⟨hty.2, hG⟩
    | none =>
      rw [hA] at hg
      simp only at hg
      right
      refine ⟨hg.1, ?_⟩
      rcases hopt with ((hlt | hn) | hdf) | hno
      · omega
      · exact Or.inl hn
      · exact Or.inr (Or.inl (by simpa using hdf))
      · exact Or.inr (Or.inr ⟨hno.1, by simpa using hno.2⟩)

set_option maxRecDepth 100000 in
/-- **guarded_sites_safe.**  Every site of the regenerated table whose recognised guard is a modelled
contract (a literal-format `ParseTuple*` in the same function) is discharged by that contract, except
the ones listed in `Expected.contractNotDischarged` (the format does NOT guarantee the asserted type:
these are counted as open obligations).  `decide` over the table; `format_site_sound` gives the
meaning of "discharged". -/
theorem guarded_sites_safe :
    ((Generated.sites.filter fun s => s.isContract && !s.discharged).map Site.key) = Expected.contractNotDischarged := by
  decide

/-- what `guarded_sites_safe` buys, spelled out for every contract-guarded site of the table -/
theorem guarded_sites_sound (s : Site) (_hs : s ∈ Generated.sites) (fmt : List Char) (slot : Nat) (ty : GoTy) (n o : Bool) (d : Option GoTy)
    (hg : s.guard = .format fmt slot ty n o d) (hd : s.discharged = true)
    (c : Call) (hf : c.format = fmt) (rs : List (Option Val)) (hok : parseTupleAndKeywords c = .ok rs) (hsl : slot < c.nresults) :
    (∃ v, rs[slot]? = some (some v) ∧ (v.ty = ty ∨ (o = true ∧ v.ty = .noneType))) ∨
    (rs[slot]? = some none ∧ (n = true ∨ d = some ty ∨ (o = true ∧ d = some .noneType))) := by
  unfold Site.discharged at hd
  rw [hg] at hd
  exact format_site_sound fmt slot ty n o d hd c hf rs hok hsl

set_option maxRecDepth 100000 in
/-- **obligations_open.**  The number of assertion / explicit-panic sites that no modelled contract
covers.  A new unguarded `x.(T)` or `panic(` in py/, vm/ or stdlib/builtin/ changes the regenerated
table and breaks this theorem (and `open_assert_panic_keys`), which the check reports. -/
theorem obligations_open : (Generated.sites.filter Site.isOpen).length = Expected.openCount := by
  decide

set_option maxRecDepth 100000 in
theorem open_assert_panic_keys : (Generated.sites.filter Site.isOpen).map Site.key = Expected.openKeys := by
  decide

set_option maxRecDepth 100000 in
/-- index / slice expressions with a non-constant index that sit under no recognised guard, in total -/
theorem index_obligations_open :
    (Generated.indexSites.map fun r => r.2.2.2.1 + r.2.2.2.2.2).sum = Expected.openIndexCount := by
  decide


/-! ## second round: receivers, MakeBool, RunFrame (models in Bind.lean) -/

namespace Bind

/-- **receiver_guarantee.**  The Go function of a Method stored in `T.Dict` only ever runs with a `self` whose Python
type is a subtype of `T` – for EVERY callable value Python code can derive from it (attribute read on an instance, on a
class, any number of explicit `__get__(i, o)` calls with arbitrary objects) and every argument list; in particular it
never runs with `self = (*Module)(nil)`.  Any other use raises TypeError. -/
theorem receiver_guarantee (sub : Sub) (T : Nat) (v : Val) (h : Reach sub T v) (args : List Obj) :
    match invoke sub v args with
    | .goFunc (.obj s) _ => sub s.pyType T = true
    | .goFunc .module _ => False
    | .raised _ => True := by
  have hg := reach_good sub T v h
  cases v with
  | bound s m => simpa [invoke, Good] using hg
  | meth m =>
    obtain ⟨_, _, hoc⟩ := hg
    simp only [invoke, methCall, hoc]
    cases args with
    | nil => simp
    | cons a rest =>
      simp only
      split_ifs with hs
      · trivial
      · simpa using hs


/-- with the representation hypothesis (`hrep`: an object whose Python type is a subtype of `T` is a value of the Go
type whose `Type()` returns `T` – regenerated table `Generated.goTypeOf`; it is what the sweep explores by trying to
subclass every built-in type) the assertion `self.(S)` of a discharged `receiver` site cannot fail -/
theorem receiver_struct (sub : Sub) (T : Nat) (goTypeOfObj : Obj → Nat) (S : Nat)
    (hrep : ∀ o : Obj, sub o.pyType T = true → goTypeOfObj o = S)
    (v : Val) (h : Reach sub T v) (args : List Obj) (s : Obj) (n : Nat)
    (hcall : invoke sub v args = .goFunc (.obj s) n) : goTypeOfObj s = S := by
  have := receiver_guarantee sub T v h args
  rw [hcall] at this
  exact hrep s this

/-- **module_function_self.**  A function of a module (print, input) always runs with `self` = its module: `__get__`
never rebinds it (fix 56b876c) -/
theorem module_function_self (sub : Sub) (v : Val) (h : ReachModule sub v) (args : List Obj) :
    invoke sub v args = .goFunc .module args.length := by
  rw [reachModule_is_fn sub v h]
  rfl


/-- why the raw dictionary entry must never reach Python code: called directly it would run with `(*Module)(nil)`.
(py.TypeCall calls raw entries of the types in the MRO of a `*py.Type` value's type – object, type, user classes –
none of which holds a Go Method: `Generated.sites` has no `receiver` guard registered on ObjectType / TypeType.) -/
theorem raw_call_unsafe_witness (sub : Sub) : invoke sub (.meth rawTypeMethod) [] = .goFunc .module 0 := rfl


/-- the accessors of a Property of a built-in type run on instances of that type only (fix 09ff1b2) -/
theorem property_receiver_guarantee (sub : Sub) (T : Nat) (inst : Obj) :
    match propAccess sub (some T) inst with
    | .goFunc (.obj s) _ => sub s.pyType T = true
    | .goFunc .module _ => False
    | .raised _ => True := by
  simp only [propAccess]
  split_ifs with hs
  · trivial
  · simpa using hs


/-- **makeBool_returns_bool.**  Whatever `M__bool__` / `M__len__` return, a successful `py.MakeBool` returns a
`py.Bool`: the `b.(py.Bool)` of the four conditional-jump opcodes and of the import machinery cannot fail -/
theorem makeBool_returns_bool (o : BObj) (b : Bool) (h : makeBool o = .obj b) : b = true :=
  makeBool_returns_bool_aux o b h

/-- the code before fix 6a3ddf8 did not have the property (no Go type of the tree exploited it) -/
theorem makeBool_old_witness : makeBoolOld (.mk false (some (.val false)) .absent) = .obj false := rfl


example : makeBool (.mk false (some (.val false)) .absent) = .err := rfl
example : makeBool (.mk false (some .notImplemented) (.val (.mk false (some (.val true)) .absent))) = .obj true := rfl

/-! ### runframe_error_is_exception -/

/-- **runframe_error_is_exception (delivery).**  In a frame whose block stack holds no try block, an error RETURNED
by an opcode handler – any error value – ends the frame and is delivered as RunFrame's error result, whatever
instructions follow. -/
theorem error_delivered (s : VmState) (e : Nat) (rest : List Handler) (hw : s.why = .not) (hb : NoCatch s.blocks) :
    runFrame s (.err e :: rest) = .raised e := by
  have hne : (unwind { s with why := .exception, curexc := some e }).why ≠ .not := by
    simp [unwind, unwindBlocks_exc_nocatch _ hb]
  rw [runFrame]
  simp only [hw, step]
  have hnn : (Why.not != Why.not) = false := by decide
  simp only [hnn, Bool.false_eq_true, if_false]
  rw [finish_after _ _ hne]
  simp [unwind, unwindBlocks_exc_nocatch _ hb, finish]


/-- … and inside a try block it is handed to the innermost handler instead: execution continues (`why = whyNot`),
the pending exception is cleared, an EXCEPT_HANDLER block replaces the try block -/
theorem error_caught_continues (s : VmState) (e : Nat) (pre post : List Block) (b : Block)
    (hbl : s.blocks = pre ++ b :: post) (hpre : NoCatch pre) (hb : b = .setupExcept ∨ b = .setupFinally) :
    step s (.err e) = .ok { s with why := .not, curexc := none, blocks := .exceptHandler :: post } := by
  simp [step, unwind, hbl, unwindBlocks_exc_caught pre post b hpre hb]


/-- a Go PANIC of a handler is not turned into an exception: it leaves RunFrame (there is no `recover()` in vm/, py/,
stdlib/, repl/ or main.go – `Vm.CheckException` is never deferred).  The embedder must recover itself. -/
theorem handler_panic_escapes (s : VmState) (rest : List Handler) (h : s.why = .not) :
    runFrame s (.goPanic :: rest) = .goPanic := by
  simp [runFrame, h, step]


/-- **runframe_no_spurious_panic_partial.**  RunFrame's own `panic("vm: no result or exception")` /
`panic("vm: result and exception")` are unreachable: over every instruction stream whose handlers return normally, return
errors, return / yield values and push / pop blocks, the result is a value, an exception or a yield.  EXCLUDED
(hence `_partial`): `break` / `continue` handlers, whose safety needs the compiler invariant that a loop block
encloses them (C12's domain). -/
theorem runframe_no_spurious_panic_partial (hs : List Handler) : ∀ (s : VmState), Inv s → (∀ h ∈ hs, Plain h) →
    runFrame s hs ≠ .goPanic := by
  induction hs with
  | nil =>
    intro s hi _
    by_cases hw : s.why = .not
    · simp [runFrame, hw]
    · have hw' : (s.why == Why.not) = false := by simpa using hw
      simp only [runFrame, hw']; exact finish_ok s hi hw
  | cons h rest ih =>
    intro s hi hp
    by_cases hw : s.why = .not
    · obtain ⟨s', hs', hi'⟩ := step_inv s h hi hw (hp h (by simp))
      simp only [runFrame, hw, hs']
      simpa using ih s' hi' (fun x hx => hp x (by simp [hx]))
    · rw [finish_after s _ hw]; exact finish_ok s hi hw


example : runFrame {} [.push .loop, .err 7, .ok] = .raised 7 := by decide
example : runFrame {} [.push .setupExcept, .err 7, .setRet 3] = .returned 3 := by decide
example : runFrame {} [.push .setupFinally, .setRet 3, .err 9] = .raised 9 := by decide
example : runFrame {} [.ok, .goPanic, .setRet 1] = .goPanic := by decide
/-- the exclusion is real: a `break` with no enclosing loop block would reach the panic -/
theorem runframe_break_outside_loop_witness : runFrame {} [.setBreak] = .goPanic := by decide

end Bind

set_option maxRecDepth 100000 in
/-- the regenerated table: every `receiver` / `moduleSelf` / `result` guard that is NOT discharged is listed in
`Expected.contractNotDischarged` (with the format guards: `guarded_sites_safe`); and no Go Method is registered on
`object` or `type`, the types `py.TypeCall` reads raw entries from -/
theorem no_go_method_on_object_or_type :
    (Generated.sites.filter fun s => match s.guard with
      | .receiver reg _ _ _ => reg == "ObjectType" || reg == "TypeType"
      | _ => false) = [] := by
  decide

end GPy.C10
