/-
C10 property theorems: the CONTRACTS that are meant to make Go panics impossible.

Honest scope (DESIGN.md section 7, C10 is *partial*): what is PROVED here, for all inputs, is that
the argument-parsing contracts of py/args.go, the signature dispatch of py/method.go and the checked
index conversion of py/internal.go never panic themselves and deliver what the Go code that follows
them relies on; and that every assertion site of the regenerated table whose recognised guard is one
of these contracts is really covered by it.  Sites with no recognised guard are OPEN OBLIGATIONS
(`obligations_open` pins their number and `open_assert_panic_keys` their list, so a new unguarded
site breaks this file); they are attacked by the exhaustive sweep of harness/c10.go, not proved.
-/
import GPy.C10.Proofs
import GPy.C10.Generated
import GPy.C10.Expected
namespace GPy.C10

/-! ### py/args.go -/

/-- **format_guarantee.**  For ALL argument tuples, keyword dictionaries, formats, keyword lists and
numbers of result variables: `ParseTupleAndKeywords` either fails with a TypeError/OverflowError
value (never a Go panic), or succeeds, and then every result slot holding a supplied argument has the
Go dynamic type its format unit guarantees (and is the argument itself, `d` converting int→float),
every slot whose argument is absent keeps its default – and is optional –, and slots beyond the
format are untouched. -/
theorem format_guarantee (c : Call) :
    match parseTupleAndKeywords c with
    | .error e => e = .type ∨ e = .overflow
    | .ok rs =>
      rs.length = c.nresults ∧
      ∀ i, i < c.nresults →
        match (parseFormat c.format).ops[i]?, argFor c i with
        | some op, some a => ∃ v, rs[i]? = some (some v) ∧ Guaranteed op v ∧ v = stored op a
        | some _, none => rs[i]? = some none ∧ (parseFormat c.format).min ≤ i
        | none, _ => rs[i]? = some none := by
  unfold parseTupleAndKeywords
  split_ifs with hk hkw
  · simp
  · cases hn : checkNumberOfArgs (↑c.args.length + ↑c.kwargs.length) (↑c.nresults) (↑(parseFormat c.format).min)
        ↑(parseFormat c.format).ops.length with
    | error e => simp only [hn]; exact Or.inl (checkNumberOfArgs_err hn)
    | ok u => simp [hn]
  · cases hn : checkNumberOfArgs (↑c.args.length + ↑c.kwargs.length) (↑c.nresults) (↑(parseFormat c.format).min)
        ↑(parseFormat c.format).ops.length with
    | error e => simp only [hn]; exact Or.inl (checkNumberOfArgs_err hn)
    | ok u =>
      simp only [hn]
      have hle := (checkNumberOfArgs_ok hn).1
      have H : ∀ j, (argFor c j).isSome → j < (List.replicate c.nresults (none : Option Val)).length := by
        intro j hj; simpa using argFor_lt c hk hle j hj
      cases hp : parseOps c (parseFormat c.format).min (parseFormat c.format).kwOnly (parseFormat c.format).ops 0
          (List.replicate c.nresults none) with
      | error e => simp only; exact parseOps_err c _ _ _ _ _ e H hp
      | ok rs =>
        simp only
        obtain ⟨hlen, hout, hin⟩ := parseOps_ok c _ _ _ _ _ _ hp
        refine ⟨by simpa using hlen, ?_⟩
        intro i hi
        have hrep : (List.replicate c.nresults (none : Option Val))[i]? = some none := by
          simp [hi]
        cases hop : (parseFormat c.format).ops[i]? with
        | none =>
          simp only
          have : (parseFormat c.format).ops.length ≤ i := by
            rcases Nat.lt_or_ge i (parseFormat c.format).ops.length with h | h
            · have := List.getElem?_eq_getElem h; simp [this] at hop
            · exact h
          rw [hout i (Or.inr (by omega)), hrep]
        | some op =>
          have := hin i op (Nat.zero_le _) (by simpa using hop)
          cases hA : argFor c i with
          | none =>
            rw [hA] at this
            simp only at this ⊢
            exact ⟨by rw [this.1, hrep], Nat.le_of_not_lt this.2⟩
          | some a =>
            rw [hA] at this
            obtain ⟨v, hc, hv⟩ := this
            exact ⟨v, hv, convert_guaranteed hc, convert_stored hc⟩

/-- corollary: no input makes `ParseTupleAndKeywords` index `results` out of range -/
theorem format_never_panics (c : Call) : parseTupleAndKeywords c ≠ .error .panic := by
  have := format_guarantee c
  intro h; rw [h] at this; simp at this

example : parseTupleAndKeywords ({ args := [.str, .int 5], kwargs := [("c", .float)], format := ['U', 'd', '|', 'd'], kwlist := some ["a", "b", "c"], nresults := 3 } : Call) = .ok [some .str, some (.floatOfInt 5), some .float] := by decide
example : parseTupleAndKeywords ({ args := [.big], kwargs := [], format := ['i'], kwlist := none, nresults := 1 } : Call) = .error .overflow := by decide
/-- the hole repaired by f7408bf: `open(mode='r')` – enough arguments, the required one missing -/
example : parseTupleAndKeywords ({ args := [], kwargs := [("mode", .str)], format := ['s', '|', 's'], kwlist := some ["file", "mode"], nresults := 2 } : Call) = .error .type := by decide

/-- `checkNumberOfArgs` accepts exactly `min ≤ nargs ≤ max` with a result variable for every argument -/
theorem checkNumberOfArgs_spec (nargs nresults min max : Int) :
    checkNumberOfArgs nargs nresults min max = .ok () ↔ (min ≤ nargs ∧ nargs ≤ max ∧ nargs ≤ nresults) := by
  unfold checkNumberOfArgs
  split_ifs <;> simp <;> omega

theorem checkNumberOfArgs_error_is_typeerror (nargs nresults min max : Int) (e : Err)
    (h : checkNumberOfArgs nargs nresults min max = .error e) : e = .type := checkNumberOfArgs_err h

/-- **unpack_guarantee.**  `UnpackTuple` fails with TypeError or copies exactly the given arguments
into the first result variables and leaves the others at their default; it never indexes `results`
out of range. -/
theorem unpack_guarantee (args : List Val) (nkw : Nat) (min max : Int) (n : Nat) :
    match unpackTuple args nkw min max n with
    | .error e => e = .type
    | .ok rs => rs.length = n ∧ args.length ≤ n ∧ min ≤ args.length ∧ (args.length : Int) ≤ max ∧
        ∀ i, i < n → rs[i]? = some (args[i]?) := by
  unfold unpackTuple
  split_ifs
  · simp
  · cases hn : checkNumberOfArgs (↑args.length) (↑n) min max with
    | error e => simp only; exact checkNumberOfArgs_err hn
    | ok u =>
      simp only
      obtain ⟨h1, h2, h3⟩ := checkNumberOfArgs_ok hn
      cases hl : unpackLoop args 0 (List.replicate n none) with
      | error e =>
        simp only
        exfalso
        have hnp := unpackLoop_no_panic args 0 (List.replicate n none) (by simp; omega)
        -- the loop has no other failure
        have : ∀ (as : List Val) (i : Nat) (rs : List (Option Val)) (e : Err), unpackLoop as i rs = .error e → e = .panic := by
          intro as
          induction as with
          | nil => intro i rs e h; simp [unpackLoop] at h
          | cons a as ih =>
            intro i rs e h
            unfold unpackLoop at h
            split_ifs at h
            · exact ih _ _ _ h
            · simp_all
        exact hnp (by rw [hl, this _ _ _ _ hl])
      | ok rs =>
        simp only
        obtain ⟨hlen, hout, hin⟩ := unpackLoop_ok _ _ _ _ hl
        refine ⟨by simpa using hlen, by omega, h3, h2, ?_⟩
        intro i hi
        cases ha : args[i]? with
        | none =>
          have : args.length ≤ i := by
            rcases Nat.lt_or_ge i args.length with h | h
            · have := List.getElem?_eq_getElem h; simp [this] at ha
            · exact h
          rw [hout i (Or.inr (by omega))]; simp [hi]
        | some a => exact hin i a (Nat.zero_le _) (by simpa using ha)

/-! ### py/method.go -/

/-- **method_call_arity_safe.**  For every Go signature kind `NewMethod` accepts, every argument tuple
and every keyword dictionary, `Method.M__call__` / `Call` / `CallWithKeywords` never index `args` out
of range and never reach the final `panic("Unknown method type")`: the outcome is the Go function
invoked with the arguments its signature expects, a TypeError, or NotImplementedError. -/
theorem method_call_arity_safe {α} (s : Sig) (args : List α) (kwargs : Option Nat) :
    methodMCall s args kwargs ≠ .error .panic := by
  cases s <;> cases kwargs <;> simp only [methodMCall, methodCallWithKeywords, methodCall] <;>
    (try split_ifs) <;> (try simp) <;>
    (try (rename_i h; cases args with
      | nil => simp at h
      | cons a t => simp))
  all_goals (try (cases args with
      | nil => simp_all
      | cons a t => simp_all))

/-- a one-argument Go function receives exactly `args[0]`, and only when there is exactly one argument -/
theorem method_call_onearg {α} (args : List α) (a : α) :
    methodCall .onearg args = .ok (.onearg a) ↔ args = [a] := by
  unfold methodCall
  cases args with
  | nil => simp
  | cons x t => cases t <;> simp

/-- the frame-dependent builtins reached through a callback are an exception value since 5615ff4 -/
theorem method_call_internal {α} (args : List α) (kwargs : Option Nat) :
    methodMCall .internal args kwargs = .error .notImpl := by
  cases kwargs <;> simp [methodMCall, methodCallWithKeywords, methodCall]

/-! ### py/internal.go (model of GPy.C13, imported) -/

/-- **index_checked_inbounds.**  Whatever the index object and whatever the length, a successful
`IndexIntCheck(a, max)` returns a position inside `[0, max)`, and it never panics. -/
theorem index_checked_inbounds (a : C13.Idx) (max i : Int) (h : C13.indexIntCheck a max = .ok i) : 0 ≤ i ∧ i < max := by
  unfold C13.indexIntCheck C13.indexInt at h
  cases hidx : C13.index a with
  | error e => rw [hidx] at h; simp [bind, Except.bind] at h
  | ok v =>
    rw [hidx] at h
    simp only [bind, Except.bind] at h
    split_ifs at h <;> simp_all [pure, Except.pure, throw, throwThe, MonadExceptOf.throw] <;> omega

theorem index_checked_never_panics (a : C13.Idx) (max : Int) : C13.indexIntCheck a max ≠ .error .panic := by
  unfold C13.indexIntCheck C13.indexInt
  cases a <;> simp only [C13.index, bind, Except.bind, pure, Except.pure, throw, throwThe, MonadExceptOf.throw] <;>
    (try split_ifs) <;> (try simp) <;> (try split_ifs) <;> simp

/-- so the Go index expression that follows (`l.Items[i]`) cannot panic -/
theorem index_checked_goAt_safe (xs : List Int) (a : C13.Idx) (i : Int) (h : C13.indexIntCheck a xs.length = .ok i) :
    C13.goAt xs i ≠ .error .panic := by
  have := index_checked_inbounds a _ i h
  unfold C13.goAt
  simp [this.1, this.2, pure, Except.pure]

example : C13.indexIntCheck (.int (-1)) 3 = .ok 2 := by decide
example : C13.indexIntCheck (.int 3) 3 = .error .index := by decide

/-! ### the regenerated assertion-site table -/

/-- semantic content of a discharged `format` guard: after a successful parse with that literal
format, the variable bound to `slot` either holds a value of the asserted Go type (or `None` when the
site is under a `!= None` test), or was left at its default – which happens only for an optional slot,
and then the site is nil-tested or the default has the asserted type. -/
theorem format_site_sound (fmt : List Char) (slot : Nat) (ty : GoTy) (n o : Bool) (d : Option GoTy)
    (hd : formatDischarges fmt slot ty n o d = true)
    (c : Call) (hf : c.format = fmt) (rs : List (Option Val)) (hok : parseTupleAndKeywords c = .ok rs)
    (hs : slot < c.nresults) :
    (∃ v, rs[slot]? = some (some v) ∧ (v.ty = ty ∨ (o = true ∧ v.ty = .noneType))) ∨
    (rs[slot]? = some none ∧ (n = true ∨ d = some ty ∨ (o = true ∧ d = some .noneType))) := by
  have hg := format_guarantee c
  rw [hok] at hg
  obtain ⟨_, hg⟩ := hg
  have hg := hg slot hs
  subst hf
  simp only [formatDischarges] at hd
  cases hop : (parseFormat c.format).ops[slot]? with
  | none => rw [hop] at hd; simp at hd
  | some op =>
    rw [hop] at hd hg
    simp only [Bool.and_eq_true, Bool.or_eq_true, decide_eq_true_eq] at hd
    obtain ⟨hty, hopt⟩ := hd
    cases hA : argFor c slot with
    | some a =>
      rw [hA] at hg
      obtain ⟨v, hv, hG, _⟩ := hg
      left
      refine ⟨v, hv, ?_⟩
      unfold Guaranteed at hG
      cases hgu : guaranteed op with
      | none => rw [hgu] at hty; simp at hty
      | some tys =>
        rw [hgu] at hty hG
        simp only at hG
        match tys, hty, hG with
        | [t], hty, hG =>
          simp only [beq_iff_eq] at hty
          simp only [List.mem_singleton] at hG
          left; rw [hG, hty]
        | [t, .noneType], hty, hG =>
          simp only [Bool.and_eq_true, beq_iff_eq] at hty
          simp only [List.mem_cons, List.not_mem_nil, or_false] at hG
          rcases hG with hG | hG
          · left; rw [hG, hty.1]
          · right; exact ⟨hty.2, hG⟩
    | none =>
      rw [hA] at hg
      simp only at hg
      right
      refine ⟨hg.1, ?_⟩
      rcases hopt with ((hlt | hn) | hdf) | hno
      · omega
      · exact Or.inl hn
      · exact Or.inr (Or.inl (by simpa using hdf))
      · exact Or.inr (Or.inr ⟨hno.1, by simpa using hno.2⟩)

set_option maxRecDepth 100000 in
/-- **guarded_sites_safe.**  Every site of the regenerated table whose recognised guard is a modelled
contract (a literal-format `ParseTuple*` in the same function) is discharged by that contract, except
the ones listed in `Expected.contractNotDischarged` (the format does NOT guarantee the asserted type:
these are counted as open obligations).  `decide` over the table; `format_site_sound` gives the
meaning of "discharged". -/
theorem guarded_sites_safe :
    ((Generated.sites.filter fun s => s.isContract && !s.discharged).map Site.key) = Expected.contractNotDischarged := by
  decide

/-- what `guarded_sites_safe` buys, spelled out for every contract-guarded site of the table -/
theorem guarded_sites_sound (s : Site) (_hs : s ∈ Generated.sites) (fmt : List Char) (slot : Nat) (ty : GoTy) (n o : Bool) (d : Option GoTy)
    (hg : s.guard = .format fmt slot ty n o d) (hd : s.discharged = true)
    (c : Call) (hf : c.format = fmt) (rs : List (Option Val)) (hok : parseTupleAndKeywords c = .ok rs) (hsl : slot < c.nresults) :
    (∃ v, rs[slot]? = some (some v) ∧ (v.ty = ty ∨ (o = true ∧ v.ty = .noneType))) ∨
    (rs[slot]? = some none ∧ (n = true ∨ d = some ty ∨ (o = true ∧ d = some .noneType))) := by
  unfold Site.discharged at hd
  rw [hg] at hd
  exact format_site_sound fmt slot ty n o d hd c hf rs hok hsl

set_option maxRecDepth 100000 in
/-- **obligations_open.**  The number of assertion / explicit-panic sites that no modelled contract
covers.  A new unguarded `x.(T)` or `panic(` in py/, vm/ or stdlib/builtin/ changes the regenerated
table and breaks this theorem (and `open_assert_panic_keys`), which the check reports. -/
theorem obligations_open : (Generated.sites.filter Site.isOpen).length = Expected.openCount := by
  decide

set_option maxRecDepth 100000 in
theorem open_assert_panic_keys : (Generated.sites.filter Site.isOpen).map Site.key = Expected.openKeys := by
  decide

set_option maxRecDepth 100000 in
/-- index / slice expressions with a non-constant index that sit under no recognised guard, in total -/
theorem index_obligations_open :
    (Generated.indexSites.map fun r => r.2.2.2.1 + r.2.2.2.2.2).sum = Expected.openIndexCount := by
  decide

end GPy.C10
