/-
C10: the shape of the regenerated assertion-site table (lean/GPy/C10/Generated.lean, written by
extract/assertsites) and the rule that says when a site's recognised guard DISCHARGES it.
Core Lean only.
-/
import GPy.C10.Spec
namespace GPy.C10

inductive SiteKind where
  | assert      -- unchecked type assertion x.(T)
  | explicit    -- explicit panic(...)
deriving DecidableEq, Repr, Inhabited

/-- the guard the extractor recognised (syntactically, in the same function) -/
inductive Guard where
  | none
  /-- `x` is output `slot` of an earlier ParseTuple*/ParseTupleAndKeywords with the literal `fmt`;
  `ty` = asserted Go type; `nilChecked` = the site is under `x != nil` / after `if x == nil {return}`;
  `noneChecked` = the site is under `x != None`; `dflt` = Go type of the variable's initial value -/
  | format (fmt : List Char) (slot : Nat) (ty : GoTy) (nilChecked noneChecked : Bool) (dflt : Option GoTy)
  /-- `self.(T)` in the Go function of a Method / an accessor of a Property that init() stores in
  `<registeredOn>.Dict[...]` (and nowhere else: the function literal is anonymous); `asserted` = T as written;
  `typeOfAsserted` = the `*Type` variable returned by T's `Type()` method (`func (x T) Type() *Type { return XType }`).
  `others` = number of OTHER Go types whose `Type()` returns `registeredOn` (a value receiver counts `*T` too).
  Discharged by `Bind.receiver_guarantee` when the two type variables agree and no other Go type shares the Python type. -/
  | receiver (registeredOn asserted : String) (typeOfAsserted : Option String) (others : Nat)
  /-- `self.(*py.Module)` in a named function listed in the method table of a module (`[]*py.Method{MustNewMethod("print", builtin_print, …)}`):
  discharged by `Bind.module_function_self` when the asserted type is the module struct -/
  | moduleSelf (asserted : String)
  /-- `x.(T)` where `x` is the first result of an earlier call, in the same function, of a helper whose result type is
  proved in the model (`Bind.makeBool_returns_bool`) -/
  | result (fn : String) (ty : GoTy)
  | checked     -- an earlier comma-ok assertion / type switch on the same expression and type
  | startup     -- explicit panic in init() / Must*: package initialisation, not a Python-level action
deriving DecidableEq, Repr, Inhabited

structure Site where
  file : String
  func : String
  kind : SiteKind
  expr : String
  ordinal : Nat
  receiver : Bool      -- `self.(T)` on the receiver parameter of a method closure
  guard : Guard
deriving Repr, Inhabited

/-- does the format contract discharge the assertion?  The slot must exist, the unit must guarantee
exactly the asserted type (or that type and None under a None test), and an optional slot must be
nil-tested or start from a default of the asserted type. -/
def formatDischarges (fmt : List Char) (slot : Nat) (ty : GoTy) (nilChecked noneChecked : Bool) (dflt : Option GoTy) : Bool :=
  let p := parseFormat fmt
  match p.ops[slot]? with
  | none => false
  | some op =>
    (match guaranteed op with
     | some [t] => t == ty
     | some [t, .noneType] => t == ty && noneChecked
     | _ => false) &&
    (decide (slot < p.min) || nilChecked || dflt == some ty || (noneChecked && dflt == some .noneType))

/-- helpers whose first result has a proved Go dynamic type: (function, type, theorem) -/
def resultContracts : List (String × GoTy) := [("MakeBool", .bool)]

def Site.discharged (s : Site) : Bool :=
  match s.guard with
  | .none => false
  | .receiver reg _ t others => t == some reg && others == 0
  | .moduleSelf a => a == "*Module" || a == "*py.Module"
  | .result fn ty => resultContracts.contains (fn, ty)
  | .format fmt slot ty n o d => formatDischarges fmt slot ty n o d
  | .checked => true
  | .startup => true

def Site.isContract (s : Site) : Bool :=
  match s.guard with
  | .format .. => true
  | .receiver .. => true
  | .moduleSelf .. => true
  | .result .. => true
  | _ => false

/-- an OPEN OBLIGATION: nothing modelled makes the site safe; the sweep attacks it -/
def Site.isOpen (s : Site) : Bool := !s.discharged

/-- the key under which an open site is listed (no line numbers: they move with every edit) -/
def Site.key (s : Site) : String :=
  s.file ++ ":" ++ s.func ++ ":" ++ (match s.kind with | .assert => "assert" | .explicit => "panic") ++ ":" ++ s.expr ++ "#" ++ toString s.ordinal

end GPy.C10
