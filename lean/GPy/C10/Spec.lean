/-
C10 specification: what the argument-parsing contracts PROMISE (from the documentation of the
format units in the header comment of py/args.go, which reproduces the Python/C API reference
"Parsing arguments and building values"), stated independently of the Go control flow.

The property itself ("no Python-level action can panic") has the trivial specification
`outcome ≠ panic`; the content of this file is the *guarantee table* that lets a Go function write
an unchecked type assertion `x.(T)` after a successful `ParseTuple*`.
-/
import GPy.C10.Model
namespace GPy.C10

/-- Go dynamic types a format unit guarantees for the output it writes (`none` = any object).
`s`,`U` → str;  `s#`,`s*` → str or bytes;  `z`,`Z` → str or None (`z#`,`z*` also bytes);
`y` → bytes;  `i`,`n` → int (a machine-word `py.Int`);  `p` → bool;  `d` → float;  `O` → anything. -/
def guaranteed (op : FormatOp) : Option (List GoTy) :=
  let m := op.modifier
  match classify op.code with
  | .O => none
  | .U => some [.string]
  | .s => if m = '#' ∨ m = '*' then some [.string, .bytes] else some [.string]
  | .z => if m = '#' ∨ m = '*' then some [.string, .bytes, .noneType] else some [.string, .noneType]
  | .Z => some [.string, .noneType]
  | .y => some [.bytes]
  | .int => some [.int]
  | .p => some [.bool]
  | .d => some [.float]
  | .unknown => some []          -- every other unit is unimplemented: it never produces an output

def Guaranteed (op : FormatOp) (v : Val) : Prop :=
  match guaranteed op with
  | none => True
  | some tys => v.ty ∈ tys

instance (op : FormatOp) (v : Val) : Decidable (Guaranteed op v) := by
  unfold Guaranteed; split <;> exact inferInstance

/-- the argument bound to result slot `i` by Python's rule: positional first, then the keyword
`kwlist[i]` -/
def argFor (c : Call) (i : Nat) : Option Val :=
  match c.args[i]? with
  | some a => some a
  | none => kwArg c i

/-- the value a unit stores: the argument itself, except `d` which converts an int to a float -/
def stored (op : FormatOp) (a : Val) : Val :=
  if classify op.code = .d then (match a with | .int v => .floatOfInt v | x => x) else a

/-- the property-level reading of an outcome: anything but a Go panic is acceptable; a successful
parse must in addition respect the guarantee table slot by slot -/
def respects (c : Call) (rs : List (Option Val)) : Bool :=
  let ops := (parseFormat c.format).ops
  rs.length == c.nresults &&
  (List.range c.nresults).all fun i =>
    match rs[i]?, ops[i]? with
    | some (some v), some op => decide (Guaranteed op v)
    | some (some _), none => false
    | some none, _ => true
    | none, _ => false

/-- spec observable of a contract case: the model outcome if it is panic-free and respects the
table, otherwise the text that makes the three-way diff fail -/
def specOutcome (c : Call) (r : Except Err (List (Option Val))) : String :=
  match r with
  | .error .panic => "E:TypeError"       -- Python: a bad call is a TypeError, never a crash
  | .error e => e.show
  | .ok rs => if respects c rs then showResults (.ok rs) else "GUARANTEE-BROKEN"

end GPy.C10
