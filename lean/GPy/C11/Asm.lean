/-
C11 assembler model: executable transliteration of compile/instructions.go
  * `Instruction` kinds Op / OpArg / Label / JumpAbs / JumpRel, `pos.SetPos`, `Size()` (EXTENDED_ARG above 0xFFFF)
  * `JumpAbs.Resolve`, `JumpRel.Resolve` (with its two panics)
  * `Instructions.Pass(pass)`  (one sequential sweep: SetPos, Resolve when pass > 0, addr += Size())
  * `Instructions.Assemble()`  (at most 10 passes, panic "Failed to assemble after 10 passes")
Core Lean only.

A Go `*Label` destination is modelled by the INDEX of that label in the stream (`dest`); a label that was
never added to the stream keeps `Pos() = 0` in Go – here an out-of-range index reads position 0.
Go `uint32` addresses are modelled by `Nat` (no wrap-around: a stream of 2^32 bytes does not fit in memory).
A Go panic is the distinct outcome `Except.error`.
-/
namespace GPy.C11

inductive Kind
  | op                       -- `Op`: one byte
  | oparg                    -- `OpArg`: fixed operand
  | label                    -- `Label`: zero bytes
  | jabs (dest : Nat)        -- `JumpAbs` (JUMP_ABSOLUTE, POP_JUMP_IF_*, JUMP_IF_*_OR_POP, CONTINUE_LOOP)
  | jrel (dest : Nat)        -- `JumpRel` (JUMP_FORWARD, FOR_ITER, SETUP_LOOP/EXCEPT/FINALLY/WITH)
  deriving DecidableEq, Repr, Inhabited

structure Instr where
  kind : Kind
  pos : Nat := 0             -- `pos.p`
  arg : Nat := 0             -- `OpArg.Arg`
  deriving DecidableEq, Repr, Inhabited

/-- the panics of the assembler -/
inductive AsmPanic
  | backwards                -- "JUMP_FORWARD can't jump backwards"
  | sizeChanged              -- "FIXME compile: JUMP_FOWARDS size changed"
  | tooManyPasses            -- "Failed to assemble after 10 passes"
  deriving DecidableEq, Repr

/-- `OpArg.Size` -/
def argSize (arg : Nat) : Nat := if arg ≤ 0xFFFF then 3 else 6

/-- `Instruction.Size()` -/
def Instr.size (x : Instr) : Nat :=
  match x.kind with
  | .op => 1
  | .label => 0
  | .oparg => argSize x.arg
  | .jabs _ => argSize x.arg
  | .jrel _ => argSize x.arg

/-- `o.Dest.Pos()` -/
def destPos (is : List Instr) (d : Nat) : Nat := (is[d]?.map (·.pos)).getD 0

/-- `Resolve()` of the instruction `x` (already positioned) against the current stream -/
def resolve (is : List Instr) (x : Instr) : Except AsmPanic Instr :=
  match x.kind with
  | .jabs d => .ok { x with arg := destPos is d }
  | .jrel d =>
    let currentSize := x.size
    let currentPos := x.pos + currentSize
    if destPos is d < currentPos then .error .backwards
    else
      let x' := { x with arg := destPos is d - currentPos }
      if x'.size != currentSize then .error .sizeChanged else .ok x'
  | _ => .ok x

/-- the body of the `for i, instr := range is` loop of `Pass`, from index `i` on (`n` = instructions left) -/
def passLoop (res : Bool) : Nat → Nat → Nat → Bool → List Instr → Except AsmPanic (List Instr × Bool)
  | 0, _, _, changed, is => .ok (is, changed)
  | n + 1, i, addr, changed, is =>
    match is[i]? with
    | none => .ok (is, changed)
    | some x =>
      let posChanged := x.pos != addr
      let x1 := { x with pos := addr }
      let is1 := is.set i x1
      match (if res then resolve is1 x1 else .ok x1) with
      | .error e => .error e
      | .ok x2 => passLoop res n (i + 1) (addr + x2.size) (changed || posChanged) (is1.set i x2)

/-- `Instructions.Pass(pass)`: returns the stream after the pass and `changed` -/
def pass (p : Nat) (is : List Instr) : Except AsmPanic (List Instr × Bool) :=
  passLoop (p > 0) is.length 0 0 false is

/-- the `for i := 0; i < 10; i++` loop of `Assemble` (`n` passes left, this one has number `p`);
returns the final stream and the number of the pass that reported "unchanged" -/
def assembleLoop : Nat → Nat → List Instr → Except AsmPanic (List Instr × Nat)
  | 0, _, _ => .error .tooManyPasses
  | n + 1, p, is =>
    match pass p is with
    | .error e => .error e
    | .ok (is', changed) => if !changed then .ok (is', p) else assembleLoop n (p + 1) is'

/-- `Instructions.Assemble()` -/
def assemble (is : List Instr) : Except AsmPanic (List Instr × Nat) := assembleLoop 10 0 is

/-- `Output()` of one instruction: opcode bytes are abstracted to 0 (only the layout matters here) -/
def Instr.output (x : Instr) : List Nat :=
  match x.kind with
  | .op => [0]
  | .label => []
  | _ => if x.arg ≤ 0xFFFF then [0, x.arg % 256, x.arg / 256 % 256]
         else [144, x.arg / 65536 % 256, x.arg / 16777216 % 256, 0, x.arg % 256, x.arg / 256 % 256]

/-- total size of a stream with its current operands -/
def totalSize : List Instr → Nat
  | [] => 0
  | x :: xs => x.size + totalSize xs

/-- address of instruction `i` = sum of the sizes before it -/
def addrOf (is : List Instr) (i : Nat) : Nat := totalSize (is.take i)

/-- what the compiler hands to `Assemble`: every position 0, every jump operand 0 (compile.go `Jump`: `OpArg{Op: Op}`) -/
def Instr.fresh (x : Instr) : Bool :=
  x.pos == 0 && (match x.kind with | .jabs _ => x.arg == 0 | .jrel _ => x.arg == 0 | _ => true)
def Fresh (is : List Instr) : Prop := ∀ x ∈ is, x.fresh = true

/-- relative jumps go forward to a label of the stream (compile.go uses `JumpRel` only for JUMP_FORWARD, FOR_ITER, SETUP_*) -/
def ForwardOK (is : List Instr) : Prop :=
  ∀ (i d : Nat), (is[i]?.map (·.kind)) = some (Kind.jrel d) → i < d ∧ d < is.length

/-- the stream is assembled: positions are the running sums of the sizes and every jump operand is resolved -/
def Assembled (is : List Instr) : Prop :=
  (∀ (i : Nat) (x : Instr), is[i]? = some x → x.pos = addrOf is i) ∧
  (∀ (i : Nat) (x : Instr) (d : Nat), is[i]? = some x → x.kind = .jabs d → x.arg = destPos is d) ∧
  (∀ (i : Nat) (x : Instr) (d : Nat), is[i]? = some x → x.kind = .jrel d → x.pos + x.size + x.arg = destPos is d)

instance (is : List Instr) : Decidable (Fresh is) := by unfold Fresh; exact inferInstance

end GPy.C11
