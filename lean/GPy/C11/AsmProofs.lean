import GPy.C11.Asm

namespace GPy.C11

/-! ## auxiliary functional descriptions of the two passes -/

/-- what pass 0 computes: every instruction positioned at the running sum of the sizes, starting at `a` -/
def layout : Nat → List Instr → List Instr
  | _, [] => []
  | a, x :: xs => { x with pos := a } :: layout (a + x.size) xs

/-- the `changed` flag of a pass that only repositions -/
def moved : Nat → List Instr → Bool
  | _, [] => false
  | a, x :: xs => (x.pos != a) || moved (a + x.size) xs

/-- what `Resolve` computes when it does not panic and sizes are 3; `P` = the position of each label index -/
def resolved (P : Nat → Nat) (x : Instr) : Instr :=
  match x.kind with
  | .jabs d => { x with arg := P d }
  | .jrel d => { x with arg := P d - (x.pos + 3) }
  | _ => x

/-- side condition for `resolve` to succeed without a size change -/
def Good (P : Nat → Nat) (x : Instr) : Prop :=
  match x.kind with
  | .jabs _ => x.arg ≤ 0xFFFF
  | .jrel d => x.arg ≤ 0xFFFF ∧ x.pos + 3 ≤ P d
  | _ => True

/-! ## sizes and addresses -/

theorem totalSize_append (a b : List Instr) : totalSize (a ++ b) = totalSize a + totalSize b := by
  induction a with
  | nil => simp [totalSize]
  | cons x xs ih => simp [totalSize, ih, Nat.add_assoc]

@[simp] theorem addrOf_zero (l : List Instr) : addrOf l 0 = 0 := by simp [addrOf, totalSize]
@[simp] theorem addrOf_nil (i : Nat) : addrOf [] i = 0 := by simp [addrOf, totalSize]
theorem addrOf_cons_succ (x : Instr) (l : List Instr) (i : Nat) :
    addrOf (x :: l) (i + 1) = x.size + addrOf l i := by simp [addrOf, totalSize]

theorem addrOf_succ : ∀ (l : List Instr) (i : Nat) (x : Instr), l[i]? = some x →
    addrOf l (i + 1) = addrOf l i + x.size := by
  intro l
  induction l with
  | nil => intro i x h; simp at h
  | cons y ys ih =>
    intro i x h
    cases i with
    | zero =>
      simp at h
      subst h
      simp [addrOf_cons_succ]
    | succ j =>
      simp at h
      rw [addrOf_cons_succ, addrOf_cons_succ, ih j x h, Nat.add_assoc]

theorem addrOf_mono : ∀ (l : List Instr) (i j : Nat), i ≤ j → addrOf l i ≤ addrOf l j := by
  intro l
  induction l with
  | nil => intro i j _; simp
  | cons y ys ih =>
    intro i j h
    cases i with
    | zero => simp
    | succ i' =>
      cases j with
      | zero => omega
      | succ j' =>
        rw [addrOf_cons_succ, addrOf_cons_succ]
        have := ih i' j' (by omega)
        omega

theorem addrOf_le_total : ∀ (l : List Instr) (i : Nat), addrOf l i ≤ totalSize l := by
  intro l
  induction l with
  | nil => intro i; simp [totalSize]
  | cons y ys ih =>
    intro i
    cases i with
    | zero => simp
    | succ i' =>
      rw [addrOf_cons_succ]
      have := ih i'
      simp only [totalSize]
      omega


/-! ## pass 0 -/

theorem passLoop_false (suf : List Instr) : ∀ (pre : List Instr) (addr : Nat) (changed : Bool),
    passLoop false suf.length pre.length addr changed (pre ++ suf)
      = .ok (pre ++ layout addr suf, changed || moved addr suf) := by
  induction suf with
  | nil => intro pre addr changed; simp [passLoop, layout, moved]
  | cons x xs ih =>
    intro pre addr changed
    have hget : (pre ++ x :: xs)[pre.length]? = some x := by simp
    have hset : ∀ y z : Instr, ((pre ++ x :: xs).set pre.length y).set pre.length z = (pre ++ [z]) ++ xs := by
      intro y z; simp
    have hlen : (pre ++ [({ x with pos := addr } : Instr)]).length = pre.length + 1 := by simp
    simp only [List.length_cons, passLoop, hget, hset]
    have := ih (pre ++ [{ x with pos := addr }]) (addr + x.size) (changed || (x.pos != addr))
    rw [hlen] at this
    simp only [Bool.false_eq_true, if_false]
    rw [show ({ x with pos := addr } : Instr).size = x.size from rfl, this]
    simp [layout, moved, Bool.or_assoc]

theorem pass_zero (is : List Instr) : pass 0 is = .ok (layout 0 is, moved 0 is) := by
  have := passLoop_false is [] 0 false
  simpa [pass] using this


/-! ## pass 1 -/

theorem resolved_pos (P : Nat → Nat) (x : Instr) : (resolved P x).pos = x.pos := by
  cases x with | mk k p a => cases k <;> rfl

theorem resolved_kind (P : Nat → Nat) (x : Instr) : (resolved P x).kind = x.kind := by
  cases x with | mk k p a => cases k <;> rfl

theorem argSize_small {a : Nat} (h : a ≤ 0xFFFF) : argSize a = 3 := by
  simp [argSize, h]

theorem resolved_size (P : Nat → Nat) (x : Instr) (hPs : ∀ d, P d ≤ 0xFFFF) (hg : Good P x) :
    (resolved P x).size = x.size := by
  cases x with
  | mk k p a =>
    cases k with
    | op => rfl
    | oparg => rfl
    | label => rfl
    | jabs d =>
      simp only [Good] at hg
      simp only [resolved, Instr.size]
      rw [argSize_small hg, argSize_small (hPs d)]
    | jrel d =>
      simp only [Good] at hg
      simp only [resolved, Instr.size]
      have := hPs d
      rw [argSize_small hg.1, argSize_small (by omega)]

theorem resolve_ok (L : List Instr) (P : Nat → Nat) (x : Instr) (hP : ∀ d, destPos L d = P d)
    (hPs : ∀ d, P d ≤ 0xFFFF) (hg : Good P x) : resolve L x = .ok (resolved P x) := by
  cases x with
  | mk k p a =>
    cases k with
    | op => rfl
    | oparg => rfl
    | label => rfl
    | jabs d => simp [resolve, resolved, hP]
    | jrel d =>
      simp only [Good] at hg
      have h1 := hPs d
      have h2 : argSize a = 3 := argSize_small hg.1
      have h3 : argSize (P d - (p + 3)) = 3 := argSize_small (by omega)
      have h4 : ¬ (P d < p + 3) := by omega
      simp [resolve, resolved, hP, Instr.size, h2, h3, h4]

theorem destPos_set_same (pre suf : List Instr) (x y : Instr) (h : y.pos = x.pos) (d : Nat) :
    destPos (pre ++ y :: suf) d = destPos (pre ++ x :: suf) d := by
  unfold destPos
  by_cases hd : d < pre.length
  · simp [List.getElem?_append_left hd]
  · have hd' : pre.length ≤ d := by omega
    rw [List.getElem?_append_right hd', List.getElem?_append_right hd']
    cases hk : d - pre.length with
    | zero => simp [h]
    | succ k => simp

theorem passLoop_true (P : Nat → Nat) (hPs : ∀ d, P d ≤ 0xFFFF) (suf : List Instr) :
    ∀ (pre : List Instr) (addr : Nat) (changed : Bool),
      (∀ d, destPos (pre ++ suf) d = P d) → moved addr suf = false → (∀ x ∈ suf, Good P x) →
      passLoop true suf.length pre.length addr changed (pre ++ suf)
        = .ok (pre ++ suf.map (resolved P), changed) := by
  induction suf with
  | nil => intro pre addr changed _ _ _; simp [passLoop]
  | cons x xs ih =>
    intro pre addr changed hP hm hg
    have hget : (pre ++ x :: xs)[pre.length]? = some x := by simp
    have hset1 : ∀ y : Instr, ((pre ++ x :: xs).set pre.length y) = pre ++ y :: xs := by
      intro y; simp
    simp only [moved, Bool.or_eq_false_iff] at hm
    have hpos : x.pos = addr := by simpa using hm.1
    have hx : ({ x with pos := addr } : Instr) = x := by subst hpos; rfl
    have hgx : Good P x := hg x (by simp)
    have hres := resolve_ok (pre ++ x :: xs) P x hP hPs hgx
    have hlen : (pre ++ [resolved P x]).length = pre.length + 1 := by simp
    have hP' : ∀ d, destPos ((pre ++ [resolved P x]) ++ xs) d = P d := by
      intro d
      rw [← hP d, List.append_assoc]
      exact destPos_set_same pre xs x (resolved P x) (resolved_pos P x) d
    have := ih (pre ++ [resolved P x]) (addr + x.size) changed hP'
      hm.2 (fun y hy => hg y (by simp [hy]))
    rw [hlen] at this
    simp only [List.length_cons, passLoop, hget, hset1, hx, if_true, hres]
    rw [resolved_size P x hPs hgx, hpos]
    simp only [bne_self_eq_false, Bool.or_false]
    rw [show pre ++ resolved P x :: xs = pre ++ [resolved P x] ++ xs by simp, this]
    simp


/-! ## facts about `layout`, `moved` -/

theorem totalSize_eq_sum (l : List Instr) : totalSize l = (l.map Instr.size).sum := by
  induction l with
  | nil => rfl
  | cons x xs ih => simp [totalSize, ih]

theorem addrOf_eq_sum (l : List Instr) (i : Nat) : addrOf l i = ((l.map Instr.size).take i).sum := by
  rw [addrOf, totalSize_eq_sum, List.map_take]

theorem layout_sizes : ∀ (l : List Instr) (a : Nat), (layout a l).map Instr.size = l.map Instr.size := by
  intro l
  induction l with
  | nil => intro a; rfl
  | cons x xs ih => intro a; simp only [layout, List.map_cons, ih]; rfl

theorem layout_kinds : ∀ (l : List Instr) (a : Nat), (layout a l).map (·.kind) = l.map (·.kind) := by
  intro l
  induction l with
  | nil => intro a; rfl
  | cons x xs ih => intro a; simp only [layout, List.map_cons, ih]

theorem layout_length (l : List Instr) (a : Nat) : (layout a l).length = l.length := by
  have := congrArg List.length (layout_kinds l a)
  simpa using this

theorem moved_layout : ∀ (l : List Instr) (a : Nat), moved a (layout a l) = false := by
  intro l
  induction l with
  | nil => intro a; rfl
  | cons x xs ih =>
    intro a
    simp only [layout, moved, bne_self_eq_false, Bool.false_or]
    exact ih (a + x.size)

theorem layout_of_not_moved : ∀ (l : List Instr) (a : Nat), moved a l = false → layout a l = l := by
  intro l
  induction l with
  | nil => intro a _; rfl
  | cons x xs ih =>
    intro a h
    simp only [moved, Bool.or_eq_false_iff] at h
    have hpos : x.pos = a := by simpa using h.1
    simp only [layout, ih _ h.2]
    subst hpos
    rfl

theorem pos_of_not_moved : ∀ (l : List Instr) (a i : Nat) (x : Instr), moved a l = false → l[i]? = some x →
    x.pos = a + addrOf l i := by
  intro l
  induction l with
  | nil => intro a i x _ h; simp at h
  | cons y ys ih =>
    intro a i x hm h
    simp only [moved, Bool.or_eq_false_iff] at hm
    cases i with
    | zero =>
      simp at h
      subst h
      simpa using hm.1
    | succ j =>
      simp at h
      rw [addrOf_cons_succ, ih (a + y.size) j x hm.2 h, Nat.add_assoc]

theorem layout_getElem? : ∀ (l : List Instr) (a i : Nat),
    (layout a l)[i]? = l[i]?.map (fun x => { x with pos := a + addrOf l i }) := by
  intro l
  induction l with
  | nil => intro a i; simp [layout]
  | cons y ys ih =>
    intro a i
    cases i with
    | zero => simp [layout]
    | succ j => simp [layout, ih, addrOf_cons_succ, Nat.add_assoc]


/-! ## a positioned stream with zero jump operands: pass 1 resolves it without moving anything -/

structure Ready (l : List Instr) : Prop where
  hm : moved 0 l = false
  hz : ∀ x ∈ l, ∀ d, (x.kind = .jabs d ∨ x.kind = .jrel d) → x.arg = 0
  hf : ForwardOK l
  ht : totalSize l < 65536

theorem unmoved_pos {l : List Instr} (h : moved 0 l = false) (i : Nat) (x : Instr) (hx : l[i]? = some x) :
    x.pos = addrOf l i := by
  simpa using pos_of_not_moved l 0 i x h hx

theorem destPos_some {l : List Instr} {d : Nat} {y : Instr} (h : l[d]? = some y) : destPos l d = y.pos := by
  simp [destPos, h]

theorem destPos_none {l : List Instr} {d : Nat} (h : l[d]? = none) : destPos l d = 0 := by
  simp [destPos, h]

theorem Ready.destPos_le {l : List Instr} (h : Ready l) (d : Nat) : destPos l d ≤ 0xFFFF := by
  cases hd : l[d]? with
  | none => rw [destPos_none hd]; omega
  | some y =>
    rw [destPos_some hd, unmoved_pos h.hm d y hd]
    have := addrOf_le_total l d
    have := h.ht
    omega

/-- a forward relative jump of size 3 at index `i` (address = its position) has its label at least 3 bytes further -/
theorem forward_gap {l : List Instr} (hm : moved 0 l = false) (hf : ForwardOK l) {i d : Nat} {x : Instr}
    (hx : l[i]? = some x) (hk : x.kind = .jrel d) (hs : x.size = 3) :
    ∃ y, l[d]? = some y ∧ x.pos + 3 ≤ y.pos := by
  have hfw := hf i d (by simp [hx, hk])
  have hd : l[d]? = some l[d] := List.getElem?_eq_getElem hfw.2
  refine ⟨l[d], hd, ?_⟩
  rw [unmoved_pos hm i x hx, unmoved_pos hm d _ hd]
  have h1 := addrOf_succ l i x hx
  have h2 := addrOf_mono l (i + 1) d (by omega)
  omega

theorem Ready.good {l : List Instr} (h : Ready l) : ∀ x ∈ l, Good (destPos l) x := by
  intro x hx
  obtain ⟨i, hi⟩ := List.getElem?_of_mem hx
  have hz := h.hz x hx
  cases hk : x.kind with
  | op => simp [Good, hk]
  | oparg => simp [Good, hk]
  | label => simp [Good, hk]
  | jabs d =>
    have := hz d (Or.inl hk)
    simp [Good, hk, this]
  | jrel d =>
    have ha := hz d (Or.inr hk)
    have hs : x.size = 3 := by simp [Instr.size, hk, ha, argSize]
    obtain ⟨y, hy, hle⟩ := forward_gap h.hm h.hf hi hk hs
    simp only [Good, hk, ha, destPos_some hy]
    omega

theorem pass_one {l : List Instr} (h : Ready l) : pass 1 l = .ok (l.map (resolved (destPos l)), false) := by
  have := passLoop_true (destPos l) h.destPos_le l [] 0 false (by simp) h.hm h.good
  simpa [pass] using this


/-! ## the result of pass 1 is assembled -/

theorem totalSize_congr {l l' : List Instr} (h : l'.map Instr.size = l.map Instr.size) :
    totalSize l' = totalSize l := by
  rw [totalSize_eq_sum, totalSize_eq_sum, h]

theorem addrOf_congr {l l' : List Instr} (h : l'.map Instr.size = l.map Instr.size) (i : Nat) :
    addrOf l' i = addrOf l i := by
  rw [addrOf_eq_sum, addrOf_eq_sum, h]

theorem map_sizes {l : List Instr} {f : Instr → Instr} (h : ∀ x ∈ l, (f x).size = x.size) :
    (l.map f).map Instr.size = l.map Instr.size := by
  rw [List.map_map]
  exact List.map_congr_left (fun x hx => h x hx)

theorem destPos_map {l : List Instr} {f : Instr → Instr} (h : ∀ x ∈ l, (f x).pos = x.pos) (d : Nat) :
    destPos (l.map f) d = destPos l d := by
  unfold destPos
  rw [List.getElem?_map]
  cases hd : l[d]? with
  | none => rfl
  | some y => simp [h y (List.mem_of_getElem? hd)]

theorem resolved_arg_jabs (P : Nat → Nat) (y : Instr) (d : Nat) (hk : y.kind = .jabs d) :
    (resolved P y).arg = P d := by
  obtain ⟨k, p, a⟩ := y
  simp only at hk
  subst hk
  rfl

theorem resolved_arg_jrel (P : Nat → Nat) (y : Instr) (d : Nat) (hk : y.kind = .jrel d) :
    (resolved P y).arg = P d - (y.pos + 3) := by
  obtain ⟨k, p, a⟩ := y
  simp only at hk
  subst hk
  rfl

theorem Ready.assembled {l : List Instr} (h : Ready l) : Assembled (l.map (resolved (destPos l))) := by
  have hsz : ∀ x ∈ l, (resolved (destPos l) x).size = x.size :=
    fun x hx => resolved_size _ x h.destPos_le (h.good x hx)
  have hms := map_sizes hsz
  have hdp : ∀ d, destPos (l.map (resolved (destPos l))) d = destPos l d :=
    destPos_map (fun x _ => resolved_pos _ x)
  have hget : ∀ (i : Nat) (x : Instr), (l.map (resolved (destPos l)))[i]? = some x →
      ∃ y, l[i]? = some y ∧ y ∈ l ∧ resolved (destPos l) y = x := by
    intro i x hx
    rw [List.getElem?_map] at hx
    cases hy : l[i]? with
    | none => rw [hy] at hx; simp at hx
    | some y =>
      rw [hy] at hx
      exact ⟨y, rfl, List.mem_of_getElem? hy, by simpa using hx⟩
  refine ⟨?_, ?_, ?_⟩
  · intro i x hx
    obtain ⟨y, hy, _, rfl⟩ := hget i x hx
    rw [resolved_pos, addrOf_congr hms, unmoved_pos h.hm i y hy]
  · intro i x d hx hk
    obtain ⟨y, hy, _, rfl⟩ := hget i x hx
    rw [resolved_kind] at hk
    rw [resolved_arg_jabs _ y d hk, hdp]
  · intro i x d hx hk
    obtain ⟨y, hy, hmem, rfl⟩ := hget i x hx
    rw [resolved_kind] at hk
    have hg := h.good y hmem
    have ha := h.hz y hmem d (Or.inr hk)
    have hs : y.size = 3 := by simp [Instr.size, hk, ha, argSize]
    simp only [Good, hk] at hg
    rw [resolved_arg_jrel _ y d hk, hdp, hsz y hmem, resolved_pos, hs]
    omega

/-! ## pass 0 reported "unchanged" -/

theorem fresh_pos {x : Instr} (h : x.fresh = true) : x.pos = 0 := by
  simp [Instr.fresh] at h
  exact h.1

theorem fresh_arg {x : Instr} (h : x.fresh = true) (d : Nat) (hk : x.kind = .jabs d ∨ x.kind = .jrel d) :
    x.arg = 0 := by
  obtain ⟨k, p, a⟩ := x
  rcases hk with hk | hk <;> (simp only at hk; subst hk; simp [Instr.fresh] at h; exact h.2)

theorem assembled_unmoved {is : List Instr} (hf : Fresh is) (hfw : ForwardOK is) (hm : moved 0 is = false) :
    Assembled is := by
  have hdp : ∀ d, destPos is d = 0 := by
    intro d
    cases hd : is[d]? with
    | none => exact destPos_none hd
    | some y => rw [destPos_some hd]; exact fresh_pos (hf y (List.mem_of_getElem? hd))
  refine ⟨fun i x hx => unmoved_pos hm i x hx, ?_, ?_⟩
  · intro i x d hx hk
    rw [hdp, fresh_arg (hf x (List.mem_of_getElem? hx)) d (Or.inl hk)]
  · intro i x d hx hk
    have ha := fresh_arg (hf x (List.mem_of_getElem? hx)) d (Or.inr hk)
    have hs : x.size = 3 := by simp [Instr.size, hk, ha, argSize]
    obtain ⟨y, hy, hle⟩ := forward_gap hm hfw hx hk hs
    have := fresh_pos (hf y (List.mem_of_getElem? hy))
    omega

/-! ## main theorem -/

theorem ready_layout {is : List Instr} (hf : Fresh is) (hfw : ForwardOK is) (hsz : totalSize is < 65536) :
    Ready (layout 0 is) := by
  refine ⟨moved_layout is 0, ?_, ?_, ?_⟩
  · intro x hx d hk
    obtain ⟨i, hi⟩ := List.getElem?_of_mem hx
    rw [layout_getElem?] at hi
    cases hy : is[i]? with
    | none => rw [hy] at hi; simp at hi
    | some y =>
      rw [hy] at hi
      have hxy : x = { y with pos := 0 + addrOf is i } := by simpa using hi.symm
      have := fresh_arg (hf y (List.mem_of_getElem? hy)) d (by rw [hxy] at hk; exact hk)
      rw [hxy]; exact this
  · intro i d hk
    have h1 : ((layout 0 is)[i]?.map (·.kind)) = (is[i]?.map (·.kind)) := by
      rw [← List.getElem?_map, ← List.getElem?_map, layout_kinds]
    rw [h1] at hk
    rw [layout_length]
    exact hfw i d hk
  · rw [totalSize_congr (layout_sizes is 0)]; exact hsz

/-- for ALL instruction streams as the compiler hands them to Assemble (positions 0, jump operands 0), whose relative
jumps go forward to labels of the stream and whose size is below 64 KiB: Assemble does not panic, the pass that reports
"unchanged" is pass 0 or pass 1, the instruction kinds and the total size are unchanged, and the result is assembled
(positions = running sums of sizes, every jump operand resolved to its label). -/
theorem assemble_converges_main (is : List Instr) (hf : Fresh is) (hfw : ForwardOK is) (hsz : totalSize is < 65536) :
    ∃ is' p, assemble is = .ok (is', p) ∧ p ≤ 1 ∧ is'.length = is.length ∧
      (∀ i : Nat, (is'[i]?.map (·.kind)) = (is[i]?.map (·.kind))) ∧
      totalSize is' = totalSize is ∧ Assembled is' := by
  cases hm : moved 0 is with
  | false =>
    refine ⟨is, 0, ?_, by omega, rfl, fun _ => rfl, rfl, assembled_unmoved hf hfw hm⟩
    show assembleLoop (9 + 1) 0 is = _
    simp only [assembleLoop, pass_zero, hm, layout_of_not_moved is 0 hm]
    rfl
  | true =>
    have hr := ready_layout hf hfw hsz
    have hsz' : ∀ x ∈ layout 0 is, (resolved (destPos (layout 0 is)) x).size = x.size :=
      fun x hx => resolved_size _ x hr.destPos_le (hr.good x hx)
    refine ⟨(layout 0 is).map (resolved (destPos (layout 0 is))), 1, ?_, by omega, ?_, ?_, ?_, hr.assembled⟩
    · show assembleLoop (9 + 1) 0 is = _
      simp only [assembleLoop, pass_zero, hm]
      show assembleLoop (8 + 1) 1 (layout 0 is) = _
      simp only [assembleLoop, pass_one hr]
      rfl
    · rw [List.length_map, layout_length]
    · intro i
      rw [← List.getElem?_map, ← List.getElem?_map, List.map_map, ← layout_kinds is 0]
      congr 1
      exact List.map_congr_left (fun x _ => resolved_kind _ x)
    · rw [totalSize_congr (map_sizes hsz'), totalSize_congr (layout_sizes is 0)]

/-! ## non-vacuity -/

example : assemble [⟨.jrel 3, 0, 0⟩, ⟨.op, 0, 0⟩, ⟨.jabs 0, 0, 0⟩, ⟨.label, 0, 0⟩, ⟨.op, 0, 0⟩]
    = .ok ([⟨.jrel 3, 0, 4⟩, ⟨.op, 3, 0⟩, ⟨.jabs 0, 4, 0⟩, ⟨.label, 7, 0⟩, ⟨.op, 7, 0⟩], 1) := by rfl

/-- the hypotheses of `assemble_converges` are satisfiable by that stream (which contains both jump kinds) -/
example : let ex : List Instr := [⟨.jrel 3, 0, 0⟩, ⟨.op, 0, 0⟩, ⟨.jabs 0, 0, 0⟩, ⟨.label, 0, 0⟩, ⟨.op, 0, 0⟩]
    Fresh ex ∧ ForwardOK ex ∧ totalSize ex < 65536 := by
  refine ⟨by decide, ?_, by decide⟩
  intro i d h
  match i, h with
  | 0, h => simp at h; subst h; simp
  | 1, h => simp at h
  | 2, h => simp at h
  | 3, h => simp at h
  | 4, h => simp at h
  | n + 5, h => simp at h

/-- a stream on which pass 0 already reports "unchanged" -/
example : assemble [⟨.label, 0, 0⟩, ⟨.jabs 0, 0, 0⟩] = .ok ([⟨.label, 0, 0⟩, ⟨.jabs 0, 0, 0⟩], 0) := by rfl

end GPy.C11
