/-
C11 case generator (core Lean only).  One case per line: `input ⟶ model V ⟶ model R ⟶ spec V ⟶ tags`.

kinds of input (decoded by harness/c11.go):
  alpha <f0> <f1> ...        the alphabet below must equal the harness's
  seq <joiner> <i1> .. <ik>  BATCH: all texts A[i1] j .. A[ik] j A[l] for every l, in exec, eval, single
                             V = ok (every outcome is `code` or a located SyntaxError-family exception) | BAD:…
                             R = lexer digest: per (text, mode) 'E' (SyntaxError) / number of tokens (base 36) /
                                 '?' (text outside the lexer model), then '/' and the FNV-1a hash of the token names
  one <mode> <text>          V = ok | BAD:…          R = lexer digest of the one text
  oneE <mode> <text>         the lexer MODEL predicts a SyntaxError: V = spec V = E:SyntaxError
  big <kind> <n>             generated large program; for kind `for`/`deffor` the assembler model runs on the
                             instruction stream the compiler emits and predicts the outcome (C11-K01)
  mut <seed> <shard> <nshards> <perfile>   mutations of the repository's .py files (done by the harness)
-/
import GPy.Common.Basic
import GPy.C06.Gen
import GPy.C11.Spec
import GPy.C11.AsmProofs
namespace GPy.C11
open GPy.C06

/-! ### text encoding (C06's `enc` with spaces as `\s`) -/
def encS (s : List Char) : String :=
  String.join (s.map fun c => if c == ' ' then "\\s" else encChar c)

structure Frag where
  enc : String
  text : Option (List Char)       -- none = not representable in the lexer model (invalid UTF-8)
  deriving Inhabited

def fr (s : String) : Frag := { enc := encS s.toList, text := some s.toList }
def frRaw (e : String) : Frag := { enc := e, text := none }

/-- the exploration alphabet: must equal `c11Alphabet` of harness/c11.go (checked by the `alpha` case) -/
def alphabet : Array Frag := #[
  -- keywords
  fr "if", fr "else", fr "def", fr "class", fr "return", fr "lambda", fr "for", fr "in", fr "while", fr "try", fr "except", fr "finally",
  fr "with", fr "as", fr "import", fr "from", fr "yield", fr "not", fr "pass", fr "break", fr "global", fr "nonlocal", fr "del", fr "None",
  -- operators and delimiters
  fr "(", fr ")", fr "[", fr "]", fr "{", fr "}", fr ":", fr ",", fr ".", fr "=", fr "+", fr "-", fr "*", fr "**", fr "==", fr "+=",
  fr "->", fr "...", fr "@", fr ";", fr "<>", fr "!",
  -- names
  fr "x", fr "f", fr "__class__", fr "é",
  -- literals, also malformed ones
  fr "1", fr "0777", fr "1e", fr "1.5j", fr "0x", fr "'a'", fr "'abc", fr "\"\"\"", fr "b'é'", fr "r'\\'", fr "'\\x'",
  -- line structure, control bytes, non-ASCII
  fr "\\", fr "#c", fr "\n", fr "\n  ", fr "\n\t", fr "\n ", fr "\r", fr "\x00", fr "\x01", fr "\x0c", frRaw "\\xff",
  fr "\u00a0", fr "λ", fr "$", fr "?", fr " "
]

/-- prefixes of the length-4 exploration (thorough): one or more representatives of every fragment class -/
def coreIdx : List Nat :=
  [0, 1, 2, 3, 4, 5, 6, 7, 9, 10, 12, 14, 16, 17, 18, 20,            -- if else def class return lambda for in try except with import yield not pass global
   24, 25, 26, 27, 30, 31, 32, 33, 34, 36, 37, 39, 41, 42, 43,      -- ( ) [ ] : , . = + * ** += ... @ ;
   46, 50, 51, 55, 56, 57,                                         -- x 1 0777 'a' 'abc """
   61, 63, 64, 65, 68, 71, 76]                                     -- \ \n "\n  " "\n\t" NUL \xff space

def modes : List Mode := [.exec, .eval, .single]
def modeName : Mode → String
  | .exec => "exec" | .eval => "eval" | .single => "single"

/-! ### lexer digest (same algorithm as harness/c11.go c11Digest) -/

def b36 (n : Nat) : Char :=
  let n := if n > 35 then 35 else n
  if n < 10 then Char.ofNat (48 + n) else Char.ofNat (87 + n)

def fnvStep (h : UInt32) (s : String) : UInt32 :=
  s.toUTF8.foldl (fun h b => (h ^^^ b.toUInt32) * 16777619) h

/-- token names as harness/c06.go prints them -/
def tokNames (ts : List Tok) : String := lexOutV (.ok ts)

structure Digest where
  chars : List Char := []      -- reversed
  h : UInt32 := 2166136261

def Digest.add (d : Digest) (text : Option (List Char)) (mode : Mode) : Digest :=
  match text with
  | none => { d with chars := '?' :: d.chars }
  | some t =>
    match lexX t mode with
    | .syntaxError => { chars := 'E' :: d.chars, h := fnvStep d.h "E;" }
    | .ok ts => { chars := b36 ts.length :: d.chars, h := fnvStep (fnvStep d.h (tokNames ts)) ";" }
    | .internal _ => { d with chars := 'I' :: d.chars }     -- never (lexer_total_no_internal); would show as a mismatch
    | .outOfFuel => { d with chars := 'F' :: d.chars }

def hex8 (n : UInt32) : String :=
  let ds := Nat.toDigits 16 n.toNat
  String.ofList (List.replicate (8 - ds.length) '0' ++ ds)

def Digest.str (d : Digest) : String := String.ofList d.chars.reverse ++ "/" ++ hex8 d.h

/-! ### batches -/

def joinerText (j : Nat) : List Char := if j == 1 then [' '] else []

/-- text of a prefix (none when a fragment is outside the model) -/
def prefixText (j : Nat) (idx : List Nat) : Option (List Char) :=
  idx.foldl (fun acc i => match acc, (alphabet[i]!).text with
    | some a, some t => some (a ++ t ++ joinerText j)
    | _, _ => none) (some [])

def seqLine (j : Nat) (idx : List Nat) : String :=
  let pre := prefixText j idx
  let d := alphabet.foldl (fun (d : Digest) f =>
    let text := match pre, f.text with
      | some p, some t => some (p ++ t)
      | _, _ => none
    modes.foldl (fun d m => d.add text m) d) {}
  let input := "seq " ++ toString j ++ String.join (idx.map fun i => " " ++ toString i)
  (Case.line { input := input, modelV := "ok", modelR := d.str, specV := "ok",
               tags := ["nt", "seq" ++ toString (idx.length + 1), if j == 1 then "spaced" else "glued"] })

/-- all index lists of length k over `dom` -/
def tuples (dom : List Nat) : Nat → List (List Nat)
  | 0 => [[]]
  | k + 1 => (tuples dom k).flatMap fun t => dom.map fun i => t ++ [i]

def allIdx : List Nat := List.range alphabet.size

/-- print the lines of the given batches, computed in parallel tasks, in order -/
def emitBatches (bs : List (Nat × List Nat)) : IO Unit := do
  let chunk := 64
  let rec go (rest : List (Nat × List Nat)) (fuel : Nat) : IO Unit := do
    match fuel, rest with
    | 0, _ => pure ()
    | _, [] => pure ()
    | fuel + 1, rest =>
      let now := rest.take (chunk * 32)
      let later := rest.drop (chunk * 32)
      -- one task per `chunk` batches
      let rec split (l : List (Nat × List Nat)) (f : Nat) (acc : Array (Task String)) : Array (Task String) :=
        match f, l with
        | 0, _ => acc
        | _, [] => acc
        | f + 1, l =>
          let part := l.take chunk
          split (l.drop chunk) f (acc.push (Task.spawn fun _ => String.join (part.map fun b => seqLine b.1 b.2 ++ "\n")))
      let tasks := split now (now.length + 1) #[]
      for t in tasks do
        IO.print t.get
      go later fuel
  go bs (bs.length + 1)

/-! ### single texts -/

def oneCase (mode : Mode) (text : List Char) (tags : List String) : Case :=
  let d := ({} : Digest).add (some text) mode
  -- (in `single` mode the parser may accept the first statement before the lexer reaches its error: no prediction there)
  match (if mode == .single then LexX.outOfFuel else lexX text mode) with
  | .syntaxError =>
    { input := "oneE " ++ modeName mode ++ " " ++ encS text, modelV := "E:SyntaxError", modelR := d.str, specV := "E:SyntaxError",
      tags := ["nt", "lexerror"] ++ tags }
  | _ =>
    { input := "one " ++ modeName mode ++ " " ++ encS text, modelV := "ok", modelR := d.str, specV := "ok", tags := ["nt"] ++ tags }

/-- seeded random sequences of `lo..hi` fragments, joined by nothing / a space at random; only model-covered fragments -/
def genRandom (seed : Nat) (n lo hi : Nat) : IO Unit := do
  let mut r : Rng := ⟨UInt64.ofNat (seed * 7919 + 11)⟩
  let covered := alphabet.filter (·.text.isSome)
  for _ in [0:n] do
    let (r1, len) := r.nat (hi - lo + 1)
    r := r1
    let mut text : List Char := []
    for k in [0:lo + len] do
      let (r2, i) := r.nat covered.size
      let (r3, j) := r2.nat 3
      r := r3
      let t := (covered[i]!).text.getD []
      text := text ++ (if k > 0 && j != 0 then [' '] else []) ++ t
    let (r4, m) := r.nat 3
    r := r4
    IO.println (oneCase (modes[m]!) text ["rnd", "len" ++ toString ((lo + len) / 4 * 4)]).line

/-- hand-picked edge texts named by the property and by the lexer's internal branches -/
def edgeTexts : List String := [
  "", "\n", " ", "\t", "\\", "\\\n", "\\\n\\\n", "x\\", "x \\\n", "'", "\"", "'''", "'''a", "'''\n", "'a\\", "'a\\\n", "'a\\\nb'", "r'a\\\nb'", "'\\\n'",
  "'''\\\n'''", "b'\\\n'", ".", "..", "...", ".5", "5.", ".e1", "1e", "1e+", "1e5", "1.e5", "0", "00", "0777", "0o", "0o8", "0b2", "0x", "0xg", "0_1", "1j", "1ej",
  "09", "09.5", "09j", "1__2", "0e0", "1.5.2", "1..2", "1e999", "1e-999", "9999999999999999999999999999999999999999", "0x" ++ String.ofList (List.replicate 40 'f'),
  "if x:\n  y\n z\n", "if x:\n\ty\n        z\n", "  x", " x\ny", "x\n  y", "(\n  x\n)", "(\n", ")", "[)", "{]", "((((((((((", "))))))))))",
  "x = ", "= x", "def", "def f", "def f(", "def f():", "def f():\n", "def f():\n  ", "def f():\n  return", "class", "lambda", "lambda:", "lambda: ",
  "\x00", "x\x00y", "\r", "x\ry", "x\r\ny", "\r\n", "\x0c", "\x0cx", "é", "é = 1", "λx", "$", "?", "!", "x!", "`x`", "\u00a0", "x\u00a0y",
  "b'é'", "b'\\xe9'", "'\\x'", "'\\xg'", "'\\u12'", "'\\U00110000'", "'\\N{BULLET}'", "u'a'", "ur'a'", "rb'a'", "br'a'", "bb'a'", "f'a'",
  "return", "yield", "break", "continue", "nonlocal x", "global x\nx = 1", "x = 1\nglobal x", "def f(x):\n global x", "def f(a, a): pass", "f(a=1, a=2)",
  "f(**a, b)", "f(*a, b)", "(a, b) += 1", "a, 1 = 2", "f() = 1", "None = 1", "True = 1", "del f()", "del None", "x = yield", "def f(*): pass", "def f(**): pass",
  "try:\n pass", "try:\n pass\nexcept:\n pass\nexcept A:\n pass", "with x as 1: pass", "for 1 in x: pass", "import", "import .", "from . import *",
  "def f():\n from x import *", "from x import (a, b", "print 1", "exec 'a'", "a <> b", "a if b", "[x for]", "[for x in y]", "{**a}", "{a:}", "{a: b, c}",
  "@", "@x", "@x\n", "@x\ndef", "@x\ny", "x;;y", ";", "x;", "pass;pass;", "if x: pass\nelse", "else:", "elif x:", "while", "while x", "while x:", "1 if 2 else", "not", "not not", "- - -", "**x", "*x", "*x = 1", "*x, = 1",
  "class A(", "class A(): pass", "class A(B, C=D, *E, **F): pass", "x[", "x[]", "x[:", "x[::]", "x[:::]", "x[1,", "x[...]", "x.1", "x..y", "1.real", "1 .real", "1.j", "1.jx",
  "'a' b'b'", "'a' 'b' b'c'", "\"\"\"a\"\"\"\"", "''''", "'''a''''", "# c", "#", "x #", "x \\ #", "\\ x", "x\n \\\n", "  \\\nx", "if x:\n  \\\n", "if x:\n#c\n  y", "if x:\n  y\n#c\nz"
]

def genEdges : IO Unit := do
  for t in edgeTexts do
    for m in modes do
      IO.println (oneCase m t.toList ["edge"]).line

/-! ### large programs: the assembler model predicts (C11-K01) -/

/-- the instruction stream compile.go emits for  `for x in y:` + n × `a=1` (+ the implicit `return None`) -/
def forStream (n : Nat) : List Instr :=
  -- SETUP_LOOP endpopblock; LOAD_NAME y; GET_ITER; forloop:; FOR_ITER endfor; STORE_NAME x; n × (LOAD_CONST; STORE_NAME);
  -- JUMP_ABSOLUTE forloop; endfor:; POP_BLOCK; endpopblock:; LOAD_CONST None; RETURN_VALUE
  let body := (List.replicate n [({ kind := .oparg } : Instr), { kind := .oparg }]).flatten
  let endfor := 6 + 2 * n + 1
  [{ kind := .jrel (endfor + 2) }, { kind := .oparg }, { kind := .op }, { kind := .label }, { kind := .jrel endfor }, { kind := .oparg }]
    ++ body ++ [{ kind := .jabs 3 }, { kind := .label }, { kind := .op }, { kind := .label }, { kind := .oparg }, { kind := .op }]

/-- the observable the harness prints for an outcome of the pipeline whose code generation stage ended with `r` -/
def asmV (r : Except AsmPanic Unit) : String :=
  match r with
  | .ok _ => "ok"
  | .error p =>
    -- compileAst recovers the string payload: MakeException ↦ SystemError
    match compilePipeline (.ret { errorFlag := false }) { filename := "<c11>", lineno := 1, offset := 0 } (.ret ()) (.panic (asmPayload p)) with
    | .code => "ok"
    | .exc e => if Spec.acceptable (.exc e) then "ok" else "BAD:E:" ++ (match e.cls with | .systemError => "SystemError" | _ => "?")

/-- outcome of `assemble` on a stream the compiler emits.  Small streams: the model itself is run.  Large ones (the
list-based model is quadratic): below 64 KiB `assemble_converges` gives `ok`; above, pass 0 yields `layout 0 is`
(`pass_zero`) and pass 1 starts by resolving instruction 0 against it (`assemble_first_far_jump`). -/
def predictAsm (is : List Instr) : Except AsmPanic Unit :=
  if is.length ≤ 1000 then (match assemble is with | .ok _ => .ok () | .error e => .error e)
  else if totalSize is < 65536 then .ok ()
  else match layout 0 is with
    | x :: _ => (match resolve (layout 0 is) x with | .error e => .error e | .ok _ => .ok ())
    | [] => .ok ()

def genBig (thorough : Bool) : IO Unit := do
  -- below 64 KiB: assemble_converges applies
  for n in [100, 10000] do
    IO.println (Case.line { input := s!"big for {n}", modelV := asmV (predictAsm (forStream n)), specV := "ok", tags := ["nt", "big", "for<64K"] })
  -- above: the relative jumps SETUP_LOOP / FOR_ITER span more than 0xFFFF bytes
  for n in [11000] ++ (if thorough then [12000] else []) do
    IO.println (Case.line { input := s!"big for {n}", modelV := asmV (predictAsm (forStream n)), specV := "ok", tags := ["nt", "big", "kf=C11-K01"] })
  IO.println (Case.line { input := "big deffor 11000", modelV := asmV (predictAsm (forStream 11000)), specV := "ok", tags := ["nt", "big", "kf=C11-K01"] })
  -- large programs without a far relative jump, deep nesting, long tokens
  for (k, n) in [("flat", 12000), ("ifafter", 12000), ("whileafter", 12000), ("ifelse", 5000), ("paren", 1000), ("unary", 1000), ("nestif", 90),
                 ("binchain", 3000), ("longname", 100000), ("longstr", 100000), ("manylines", 20000)] do
    IO.println (Case.line { input := s!"big {k} {n}", modelV := "ok", specV := "ok", tags := ["nt", "big", k] })

/-! ### main -/

def genMain (tier : String) (seed : Nat) : IO Unit := do
  let thorough := tier == "thorough"
  IO.println (Case.line { input := "alpha" ++ String.join (alphabet.toList.map fun f => " " ++ f.enc), modelV := "ok", specV := "ok", tags := ["alphabet"] })
  let t0 ← IO.monoMsNow
  genEdges
  let t1 ← IO.monoMsNow
  genBig thorough
  let t2 ← IO.monoMsNow
  -- mutations of the repository's .py files (harness side), sharded
  let shards := 16
  for s in [0:shards] do
    IO.println (Case.line { input := s!"mut {seed} {s} {shards} {if thorough then 200 else 30}", modelV := "ok", specV := "ok", tags := ["nt", "mut"] })
  genRandom seed (if thorough then 60000 else 6000) 4 12
  genRandom (seed + 1000) (if thorough then 6000 else 600) 13 40
  let t3 ← IO.monoMsNow
  IO.eprintln s!"C11 gen: edges {t1 - t0} ms, big {t2 - t1} ms, mut+random {t3 - t2} ms"
  -- exhaustive sequences: length 1, 2 (glued and spaced), 3 (spaced; thorough also glued), 4 (thorough: prefixes over coreIdx)
  let b1 : List (Nat × List Nat) := [(0, [])]
  let b2 := (tuples allIdx 1).flatMap fun t => [(0, t), (1, t)]
  let b3 := (tuples allIdx 2).map fun t => (1, t)
  let b3g := if thorough then (tuples allIdx 2).map fun t => (0, t) else []
  let b4 := if thorough then (tuples coreIdx 3).map fun t => (1, t) else []
  emitBatches (b1 ++ b2 ++ b3 ++ b3g ++ b4)
  let t4 ← IO.monoMsNow
  IO.eprintln s!"C11 gen: batches {t4 - t3} ms"

end GPy.C11
