/-
C11 model (core Lean only).  Three parts:

1. The lexer of C06 (`GPy.C06.step`, a transliteration of parser/lexer.go `Lex`) INSTRUMENTED with the
   internal-error branches of lexer.go that C06's model totalises silently:
     * `dequeue()` on an empty queue            panic("token queue empty")      (checkIndent: `return x.dequeue()`)
     * `x.indentStack[len-1]` on an empty stack runtime error index out of range (checkIndent)
     * `countIndent` default branch             panic(IndentationError)          (a SyntaxError-family payload)
     * `panic("Unparsed number")`               readNumber after the quick check, no regular expression matches
     * `panic("Bad string start")`              readString after `found:`
     * `buf.Truncate(buf.Len()-1)` on an empty buffer (runtime panic)            readString, backslash-newline
     * `panic("Bad state")`                     the `default:` of the state switch (`stateNum`/`goNext`)
   `internalAt s` says which of them the Go code would hit in state `s`; `stepX/runX/lexX` produce the explicit
   outcome `internal`.  (`panic(err)` after py.IntFromString / py.FloatFromString in readNumber: the digits were
   validated by the regular expression, these library calls are external – trusted base, exercised by the run.)

2. The recover-to-exception map: py.MakeException, py.MakeSyntaxError and the `defer recover` wrappers of
   parser.Parse, symtable.NewSymTable, compiler.compileAst, chained by compile.Compile.

3. The assembler (GPy.C11.Asm).
-/
import GPy.C06.Model
import GPy.C11.Asm
namespace GPy.C11
open GPy.C06

/-! ## 1. instrumented lexer -/

inductive Internal
  | dequeueEmpty | stackIndex | unparsedNumber | badStringStart | truncateEmpty | badState
  deriving DecidableEq, Repr

/-- numbering of the states in lexer.go (`const ( readString = iota ... isEof )`) -/
def stateNum : LState → Nat
  | .readString => 0 | .readIndent => 1 | .checkEmpty => 2 | .checkIndent => 3 | .parseTokens => 4 | .checkEof => 5 | .isEof => 6

/-- the `switch x.state` of Lex over the raw integer: values 0..6 have a case, anything else is `default: panic("Bad state")` -/
def stateOfNum : Nat → Option LState
  | 0 => some .readString | 1 => some .readIndent | 2 => some .checkEmpty | 3 => some .checkIndent
  | 4 => some .parseTokens | 5 => some .checkEof | 6 => some .isEof | _ => none

/-- the quick check at the top of readNumber -/
def isNumStart (line : List Char) : Bool :=
  match line with
  | c :: rest => isDigit c || (c == '.' && match rest with | d :: _ => isDigit d | [] => false)
  | [] => false

/-- after `isNumber:` none of octalInteger, hexInteger, binaryInteger, floatNumber, decimalInteger matches: `panic("Unparsed number")` -/
def unparsedNumber (line : List Char) : Bool :=
  isNumStart line &&
  (matchPrefixed line ['o', 'O'] isOct 8).isNone &&
  (matchPrefixed line ['x', 'X'] (fun c => (hexVal c).isSome) 16).isNone &&
  (matchPrefixed line ['b', 'B'] (fun c => c == '0' || c == '1') 2).isNone &&
  (matchFloat line).isNone &&
  (line.span isDigit).1.isEmpty

/-- the prefix length readString cuts before `found:` (none = not a string) -/
def stringCut (l : List Char) : Option Nat :=
  let r0 := l.head?.getD '\x00'
  let r1 := (l.drop 1).head?.getD '\x00'
  let r2 := (l.drop 2).head?.getD '\x00'
  if l.isEmpty then none
  else if isQuote r0 then some 0
  else if (r0 == 'r' || r0 == 'R') && isQuote r1 then some 1
  else if (r0 == 'b' || r0 == 'B') && isQuote r1 then some 1
  else if (r0 == 'u' || r0 == 'U') && isQuote r1 then some 1
  else if (r0 == 'r' || r0 == 'R') && (r1 == 'b' || r1 == 'B') && isQuote r2 then some 2
  else if (r0 == 'b' || r0 == 'B') && (r1 == 'r' || r1 == 'R') && isQuote r2 then some 2
  else none

/-- after `found:` the line starts with none of `"""`, `'''`, `"`, `'`: `panic("Bad string start")` -/
def badStringStart (l : List Char) : Bool :=
  match stringCut l with
  | none => false
  | some cut =>
    let l' := l.drop cut
    !(startsWith l' ['"', '"', '"'] || startsWith l' ['\'', '\'', '\''] || startsWith l' ['"'] || startsWith l' ['\''])

/-- the inner loop of readString with the `Truncate` precondition made explicit:
`none` = `buf.Truncate(buf.Len()-1)` with an empty buffer (bytes.Buffer panics: truncation out of range) -/
def scanLineX (raw multi : Bool) (endq : List Char) : List Char → Bool → List Char → Option ScanRes
  | [], _, buf => some (.lineEnd buf)
  | c :: cs, escape, buf =>
    if escape then
      if c == '\n' then
        if raw then some (.more (c :: buf))
        else if buf.isEmpty then none else some (.more (buf.drop 1))
      else scanLineX raw multi endq cs false (c :: buf)
    else
      if startsWith (c :: cs) endq then some (.found buf ((c :: cs).drop endq.length))
      else if !multi && c == '\n' then some (.lineEnd buf)
      else scanLineX raw multi endq cs (c == '\\') (c :: buf)

/-- which internal-error branch of lexer.go `Lex` hits from state `s` (none = none of them) -/
def internalAt (s : LexSt) : Option Internal :=
  match s.queue with
  | _ :: _ => none
  | [] =>
  match s.state with
  | .checkIndent =>
    if openBrackets s then none
    else if s.stack.isEmpty then some .stackIndex
    else
      let indent := countIndent s.curIndent
      let top := s.stack.head?.getD 0
      if indent < top then
        match popTo indent s.stack with
        | some (_, 0) => some .dequeueEmpty        -- `foundIndent:` reached without a queued DEDENT
        | _ => none
      else none
  | .parseTokens =>
    let l := s.line.dropWhile (fun c => c == ' ' || c == '\t')
    match l with
    | [] => none
    | c :: cs =>
      if c == '\n' || c == '#' then none
      else if c == '\\' && (cs.isEmpty || cs.head? == some '\n') then none
      else if unparsedNumber l then some .unparsedNumber
      else if isNumStart l then none
      else if badStringStart l then some .badStringStart
      else none
  | _ => none

/-- the `default:` arm of countIndent: a character other than space / tab panics with IndentationError
(a *py.Exception of the SyntaxError family: recovered by Lex/Parse into a SyntaxError) -/
def countIndentPanics (s : LexSt) : Bool :=
  s.queue.isEmpty && s.state == .checkIndent && !openBrackets s && s.curIndent.any (fun c => c != ' ' && c != '\t')

inductive StepX
  | step (s : LexSt) (r : StepRes)
  | internal (i : Internal)
  | indentationPanic               -- panic(py.ExceptionNewf(py.IndentationError, ...))

def stepX (s : LexSt) : StepX :=
  if countIndentPanics s then .indentationPanic
  else match internalAt s with
    | some i => .internal i
    | none => let r := step s; .step r.1 r.2

inductive LexX
  | ok (toks : List Tok)
  | syntaxError                    -- error flag set, or a SyntaxError-family panic recovered by `Lex`
  | internal (i : Internal)        -- a Go panic with a non-exception payload: MakeSyntaxError makes it a SystemError
  | outOfFuel
  deriving DecidableEq, Repr

def runX : Nat → LexSt → List Tok → LexX
  | 0, _, _ => .outOfFuel
  | f + 1, s, out =>
    match stepX s with
    | .internal i => .internal i
    | .indentationPanic => .syntaxError
    | .step s' .cont => runX f s' out
    | .step s' (.emit t) => runX f s' (t :: out)
    | .step s' .stop => if s'.err then .syntaxError else .ok out.reverse

/-- `parser.LexString` with the internal branches explicit -/
def lexX (input : List Char) (mode : Mode) : LexX :=
  runX (lexFuel input) (initLex input mode) []

/-! ## 2. recover-to-exception map -/

/-- Python exception classes that matter here -/
inductive Cls
  | syntaxError | indentationError | tabError | systemError | typeError | valueError | other
  deriving DecidableEq, Repr

/-- subclass-of-SyntaxError test (py/exception.go: IndentationError = SyntaxError.NewType, TabError = IndentationError.NewType) -/
def Cls.isSyntaxFamily : Cls → Bool
  | .syntaxError | .indentationError | .tabError => true
  | _ => false

/-- the location attributes a SyntaxError carries in its Dict -/
structure Loc where
  filename : String
  lineno : Nat
  offset : Nat
  deriving DecidableEq, Repr

/-- a `*py.Exception` -/
structure Exc where
  cls : Cls
  loc : Option Loc := none
  deriving DecidableEq, Repr

/-- what a Go panic (or a returned error) carries -/
inductive Payload
  | exception (e : Exc)                 -- *py.Exception
  | excType (c : Cls) (isExcClass : Bool)  -- *py.Type
  | goError                             -- any other `error` (fmt.Errorf, runtime.Error: index out of range, nil map ...)
  | str                                 -- a string: panic("Bad state"), panic(fmt.Sprintf(...))
  | otherValue
  deriving DecidableEq, Repr

/-- py.MakeException -/
def makeException : Payload → Exc
  | .exception e => e
  | .excType c true => { cls := c }
  | .excType _ false => { cls := .typeError }
  | .goError => { cls := .systemError }
  | .str => { cls := .systemError }
  | .otherValue => { cls := .systemError }

/-- py.MakeSyntaxError: MakeException, then filename / lineno / offset / line are stored in the Dict -/
def makeSyntaxError (r : Payload) (l : Loc) : Exc :=
  { makeException r with loc := some l }

/-- how a stage ends -/
inductive StageEnd (α : Type)
  | ret (v : α)
  | panic (r : Payload)

/-- the lexer/parser's own error channel: `x.error`, turned into SyntaxError by ErrorReturn -/
structure ParseRet where
  errorFlag : Bool

/-- parser.Parse: `defer recover -> MakeSyntaxError(r, filename, lex.pos...)`, `ErrorReturn -> MakeSyntaxError(err, ...)` -/
def parserParse (e : StageEnd ParseRet) (lexPos : Loc) : Except Exc Unit :=
  match e with
  | .panic r => .error (makeSyntaxError r lexPos)
  | .ret p => if p.errorFlag then .error (makeSyntaxError (.exception { cls := .syntaxError }) lexPos) else .ok ()

/-- symtable.NewSymTable: `defer recover -> MakeException(r)` -/
def newSymTable (e : StageEnd Unit) : Except Exc Unit :=
  match e with
  | .panic r => .error (makeException r)
  | .ret _ => .ok ()

/-- compiler.compileAst: `defer recover -> MakeException(r)`.  (A nested scope's error is re-panicked by
newCompilerScope with the `*py.Exception` as payload, which passes through unchanged.) -/
def compileAst (e : StageEnd Unit) : Except Exc Unit :=
  match e with
  | .panic r => .error (makeException r)
  | .ret _ => .ok ()

inductive Outcome
  | code
  | exc (e : Exc)
  deriving DecidableEq, Repr

/-- compile.Compile: parse, then symbol table, then code generation + assembly; the first error is returned -/
def compilePipeline (p : StageEnd ParseRet) (lexPos : Loc) (s c : StageEnd Unit) : Outcome :=
  match parserParse p lexPos with
  | .error e => .exc e
  | .ok _ =>
    match newSymTable s with
    | .error e => .exc e
    | .ok _ =>
      match compileAst c with
      | .error e => .exc e
      | .ok _ => .code

/-- the assembler's panics carry strings -/
def asmPayload : AsmPanic → Payload := fun _ => .str

end GPy.C11
