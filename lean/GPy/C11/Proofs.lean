/-
C11 helper lemmas:
  §1 the internal-error branches of the lexer are unreachable (local facts)
  §2 termination measure of the Lex state machine and the run invariant
  §3 the recover map
-/
import GPy.C11.Spec
import GPy.C11.Generated
import GPy.C11.AsmProofs
import GPy.C06.Proofs
import Mathlib.Tactic.SplitIfs
namespace GPy.C11
open GPy.C06

/-! ## 1. local unreachability facts -/

theorem span_loop_eq {α} (p : α → Bool) : ∀ (l acc : List α),
    List.span.loop p l acc = (acc.reverse ++ l.takeWhile p, l.dropWhile p) := by
  intro l
  induction l with
  | nil => intro acc; simp [List.span.loop]
  | cons x xs ih =>
    intro acc
    unfold List.span.loop
    cases h : p x with
    | true => simp [ih, h]
    | false => simp [h]

theorem span_eq {α} (p : α → Bool) (l : List α) : l.span p = (l.takeWhile p, l.dropWhile p) := by
  unfold List.span; rw [span_loop_eq]; simp

theorem takeWhile_all {α} (p : α → Bool) : ∀ (l : List α), ∀ c ∈ l.takeWhile p, p c = true := by
  intro l
  induction l with
  | nil => intro c hc; simp at hc
  | cons x xs ih =>
    intro c hc
    rw [List.takeWhile_cons] at hc
    split at hc
    · rcases List.mem_cons.mp hc with rfl | h
      · assumption
      · exact ih c h
    · simp at hc

theorem span_fst_all {α} (p : α → Bool) (l : List α) : ∀ c ∈ (l.span p).1, p c = true := by
  intro c hc
  rw [span_eq] at hc
  exact takeWhile_all p l c hc

theorem span_length {α} (p : α → Bool) (l : List α) : (l.span p).1.length + (l.span p).2.length = l.length := by
  rw [span_eq]
  have := List.takeWhile_append_dropWhile (p := p) (l := l)
  have h2 := congrArg List.length this
  simp only [List.length_append] at h2
  exact h2

theorem span_snd_le {α} (p : α → Bool) (l : List α) : (l.span p).2.length ≤ l.length := by
  have := span_length p l; omega

theorem span_fst_cons_of_pos {α} (p : α → Bool) (x : α) (xs : List α) (h : p x = true) :
    (List.span p (x :: xs)).1 ≠ [] := by
  rw [span_eq]
  simp [List.takeWhile_cons, h]

theorem span_fst_of_neg {α} (p : α → Bool) (x : α) (xs : List α) (h : p x = false) :
    List.span p (x :: xs) = ([], x :: xs) := by
  rw [span_eq]
  simp [List.takeWhile_cons, List.dropWhile_cons, h]

theorem isDigit_dot : isDigit '.' = false := by decide

/-- **"Unparsed number" is unreachable**: after the quick check one of the five regular expressions matches -/
theorem unparsedNumber_false (l : List Char) : unparsedNumber l = false := by
  unfold unparsedNumber
  cases l with
  | nil => simp [isNumStart]
  | cons c rest =>
    by_cases hd : isDigit c = true
    · -- a leading digit: decimalInteger `^[0-9]+[jJ]?` matches
      have : (List.span isDigit (c :: rest)).1 ≠ [] := span_fst_cons_of_pos _ _ _ hd
      have h2 : (List.span isDigit (c :: rest)).1.isEmpty = false := by
        cases h : (List.span isDigit (c :: rest)).1 with
        | nil => exact absurd h this
        | cons _ _ => rfl
      simp [h2]
    · have hd' : isDigit c = false := by simpa using hd
      by_cases hdot : c = '.'
      · subst hdot
        cases rest with
        | nil => simp [isNumStart, hd']
        | cons d r1 =>
          by_cases hdd : isDigit d = true
          · -- `.` digit: pointFloat `[0-9]*\.[0-9]+` matches
            have hs : List.span isDigit ('.' :: d :: r1) = ([], '.' :: d :: r1) := span_fst_of_neg _ _ _ isDigit_dot
            have hne : (List.span isDigit (d :: r1)).1 ≠ [] := span_fst_cons_of_pos _ _ _ hdd
            have hf : (matchFloat ('.' :: d :: r1)).isNone = false := by
              unfold matchFloat
              simp only [hs, List.isEmpty_nil, if_true]
              unfold matchPointFloat
              have hfp : (!(List.span isDigit (d :: r1)).fst.isEmpty) = true := by
                cases h : (List.span isDigit (d :: r1)).fst with
                | nil => exact absurd h hne
                | cons _ _ => rfl
              simp only [hfp, if_true]
              cases matchExp (List.span isDigit (d :: r1)).snd <;> rfl
            simp [hf]
          · have : isDigit d = false := by simpa using hdd
            simp [isNumStart, hd', this]
      · have : (c == '.') = false := by simpa using hdot
        simp [isNumStart, hd', this]

theorem startsWith_quote (l : List Char) (h : isQuote (l.head?.getD '\x00') = true) :
    (startsWith l ['"'] || startsWith l ['\'']) = true := by
  cases l with
  | nil => simp [isQuote] at h
  | cons c cs =>
    simp only [List.head?_cons, Option.getD_some, isQuote, Bool.or_eq_true, beq_iff_eq] at h
    rcases h with h | h <;> subst h <;> simp [startsWith, List.isPrefixOf]

/-- **"Bad string start" is unreachable**: `found:` is only reached with a quote at the head of the (cut) line -/
theorem badStringStart_false (l : List Char) : badStringStart l = false := by
  unfold badStringStart
  cases hc : stringCut l with
  | none => rfl
  | some cut =>
    simp only
    have key : isQuote ((l.drop cut).head?.getD '\x00') = true := by
      unfold stringCut at hc
      simp only at hc
      split_ifs at hc with h1 h2 h3 h4 h5 h6 h7 <;> simp only [Option.some.injEq] at hc <;> subst hc
      · simpa using h2
      · simp only [Bool.and_eq_true] at h3; simpa using h3.2
      · simp only [Bool.and_eq_true] at h4; simpa using h4.2
      · simp only [Bool.and_eq_true] at h5; simpa using h5.2
      · simp only [Bool.and_eq_true] at h6; simpa using h6.2
      · simp only [Bool.and_eq_true] at h7; simpa using h7.2
    have := startsWith_quote _ key
    simp only [Bool.or_eq_true] at this
    rcases this with h | h <;> simp [h]

/-- **`buf.Truncate(buf.Len()-1)` never sees an empty buffer**: `escape` is only set after the backslash was written -/
theorem scanLineX_eq_aux (raw multi : Bool) (endq : List Char) :
    ∀ (l : List Char) (escape : Bool) (buf : List Char), (escape = true → buf ≠ []) →
      scanLineX raw multi endq l escape buf = some (scanLine raw multi endq l escape buf) := by
  intro l
  induction l with
  | nil => intro escape buf _; simp [scanLineX, scanLine]
  | cons c cs ih =>
    intro escape buf h
    unfold scanLineX scanLine
    by_cases he : escape = true
    · simp only [he, if_true]
      split_ifs with h1 h2 h3
      · rfl
      · exact absurd (List.isEmpty_iff.mp h3) (h he)
      · rfl
      · exact ih false (c :: buf) (by intro e; simp at e)
    · have he' : escape = false := by simpa using he
      simp only [he', Bool.false_eq_true, if_false]
      split_ifs with h1 h2
      · rfl
      · rfl
      · exact ih (c == '\\') (c :: buf) (by intro _; simp)

/-- `indent < top` and the search loop finds `indent` after popping nothing: impossible -/
theorem popTo_zero_head {indent : Nat} {st st' : List Nat} (h : popTo indent st = some (st', 0)) :
    st.head?.getD 0 = indent := by
  cases st with
  | nil => simp [popTo] at h
  | cons x xs =>
    unfold popTo at h
    split_ifs at h with hx
    · simpa using hx
    · cases hp : popTo indent xs with
      | none => simp [hp] at h
      | some r => obtain ⟨a, b⟩ := r; simp [hp] at h

theorem stateOfNum_stateNum (s : LState) : stateOfNum (stateNum s) = some s := by cases s <;> rfl

/-! ## 2. termination measure -/

def A (s : LexSt) : Nat := if s.exec && !s.eof then 1 else 0
def E (s : LexSt) : Nat := if s.eof then 0 else 1
def base (s : LexSt) : Nat := 8 * s.rest.length + 8 * A s + 8 * E s
def kw : LState → Nat
  | .isEof => 0 | .readString => 1 | .checkEof => 2 | .parseTokens => 3 | .checkIndent => 5 | .checkEmpty => 6 | .readIndent => 7
def lineW (s : LexSt) : Nat :=
  match s.state with
  | .readIndent | .checkEmpty | .checkIndent | .parseTokens => s.line.length
  | _ => 0
/-- the termination measure of `Lex`: 8 per unread character (+8 for the newline refill may add in exec mode, +8 until EOF
is seen), the characters of the current line while it is being consumed, a weight per state, the queued tokens and the
indent stack -/
def mu (s : LexSt) : Nat := base s + lineW s + kw s.state + s.queue.length + s.stack.length

structure J (s : LexSt) : Prop where
  eofRest : s.eof = true → s.rest = []
  rsEof : s.state = .readString → s.eof = false
  ind : ∀ c ∈ s.curIndent, c = ' ' ∨ c = '\t'

theorem splitLine_length : ∀ l : List Char, (splitLine l).1.length + (splitLine l).2.length = l.length := by
  intro l
  induction l with
  | nil => simp [splitLine]
  | cons c cs ih =>
    unfold splitLine
    split_ifs
    · simp only [List.length_cons, List.length_nil]; omega
    · simp only [List.length_cons]; omega

theorem splitLine_last : ∀ l : List Char, (splitLine l).1.getLast? ≠ some '\n' → (splitLine l).2 = [] := by
  intro l
  induction l with
  | nil => simp [splitLine]
  | cons c cs ih =>
    unfold splitLine
    split_ifs with h
    · intro hh; simp at hh
    · intro hh
      simp only at hh ⊢
      apply ih
      intro e
      apply hh
      cases hs : (splitLine cs).1 with
      | nil => rw [hs] at e; simp at e
      | cons a as => rw [hs] at e; simp only [List.getLast?_cons_cons]; exact e

theorem fixCRLF_length_le (l : List Char) : (fixCRLF l).length ≤ l.length := by
  unfold fixCRLF
  split
  · rename_i r h
    have := congrArg List.length h
    simp only [List.length_reverse, List.length_cons] at this
    simp only [List.length_append, List.length_reverse, List.length_cons, List.length_nil]
    omega
  · exact Nat.le_refl _

theorem fixCRLF_nil (l : List Char) (h : fixCRLF l = []) : l = [] := by
  unfold fixCRLF at h
  split at h
  · simp at h
  · exact h

theorem refill_exec (s : LexSt) : (refill s).exec = s.exec := by simp [refill]
theorem refill_curIndent (s : LexSt) : (refill s).curIndent = s.curIndent := by simp [refill]

/-- what one `refill` does to the weights (called only before EOF was seen) -/
theorem refill_wt (s : LexSt) (he : s.eof = false) :
    (refill s).rest.length + (refill s).line.length + A (refill s) ≤ s.rest.length + A s ∧
    ((refill s).line = [] → (refill s).eof = true) ∧
    ((refill s).eof = true → (refill s).rest = []) := by
  have hl := splitLine_length s.rest
  have hf := fixCRLF_length_le (splitLine s.rest).1
  refine ⟨?_, ?_, ?_⟩
  · simp only [refill, A, he, Bool.false_or, Bool.not_false, Bool.and_true]
    cases hx : ((splitLine s.rest).fst.getLast? != some '\n') <;> cases hexec : s.exec <;>
      simp only [Bool.false_and, Bool.true_and, Bool.not_true, Bool.not_false, Bool.and_false, Bool.and_true, if_false, if_true,
        Bool.false_eq_true] <;>
      first
        | omega
        | (split_ifs <;> first | omega | (simp only [List.length_append, List.length_cons, List.length_nil]; omega))
  · intro h
    simp only [refill, he, Bool.false_or] at h ⊢
    have h1 : fixCRLF (splitLine s.rest).1 = [] := by
      split_ifs at h with hc
      · simp at h
      · exact h
    have h2 := fixCRLF_nil _ h1
    simp [h2]
  · intro h
    simp only [refill, he, Bool.false_or] at h ⊢
    apply splitLine_last
    simpa using h

def wt (s : LexSt) : Nat := base s + s.line.length

theorem refill_base_le (s : LexSt) (he : s.eof = false) : wt (refill s) ≤ base s := by
  obtain ⟨h1, h2, _⟩ := refill_wt s he
  have hE : E s = 1 := by simp [E, he]
  simp only [wt, base, hE]
  by_cases hl : (refill s).line = []
  · have := h2 hl
    simp only [hl, List.length_nil, E, this, if_true] at h1 ⊢
    omega
  · have : (refill s).line.length ≥ 1 := by
      cases h : (refill s).line with
      | nil => exact absurd h hl
      | cons _ _ => simp
    have hE' : E (refill s) ≤ 1 := by unfold E; split_ifs <;> omega
    omega

structure Pres (s s' : LexSt) : Prop where
  stack : s'.stack = s.stack
  queue : s'.queue = s.queue
  state : s'.state = s.state
  cur : s'.curIndent = s.curIndent

theorem scanLine_found_le (raw multi : Bool) (endq : List Char) :
    ∀ (l : List Char) (escape : Bool) (buf buf' rl : List Char),
      scanLine raw multi endq l escape buf = .found buf' rl → rl.length ≤ l.length := by
  intro l
  induction l with
  | nil => intro escape buf buf' rl h; simp [scanLine] at h
  | cons c cs ih =>
    intro escape buf buf' rl h
    unfold scanLine at h
    split_ifs at h
    · have := ih _ _ _ _ h; simp only [List.length_cons]; omega
    · simp only [ScanRes.found.injEq] at h
      obtain ⟨_, rfl⟩ := h
      simp only [List.length_drop]; omega
    · have := ih _ _ _ _ h; simp only [List.length_cons]; omega

theorem readStringBody_wt (raw bytes multi : Bool) (endq : List Char) :
    ∀ (f : Nat) (s : LexSt) (buf : List Char) (v : StrVal) (s' : LexSt), (s.eof = true → s.rest = []) →
      readStringBody raw bytes multi endq f s buf = .ok v s' →
      wt s' ≤ wt s ∧ (s'.eof = true → s'.rest = []) ∧ Pres s s' := by
  intro f
  induction f with
  | zero => intro s buf v s' _ h; simp [readStringBody] at h
  | succ f ih =>
    intro s buf v s' hj h
    unfold readStringBody at h
    by_cases he : s.eof = true
    · simp only [he, if_true] at h
      split at h
      · rename_i buf' rl hs
        have hle := scanLine_found_le _ _ _ _ _ _ _ _ hs
        split at h
        · simp at h
        · simp only [StrRes.ok.injEq] at h
          obtain ⟨_, rfl⟩ := h
          refine ⟨?_, ?_, ⟨rfl, rfl, rfl, rfl⟩⟩
          · simp only [wt, base, A, E, he]; omega
          · intro _; exact hj he
      · simp at h
      · split_ifs at h
    · have he' : s.eof = false := by simpa using he
      simp only [he, if_false] at h
      have next : ∀ b, readStringBody raw bytes multi endq f (refill s) b = .ok v s' →
          wt s' ≤ wt s ∧ (s'.eof = true → s'.rest = []) ∧ Pres s s' := by
        intro b hb
        obtain ⟨a1, a2, a3⟩ := ih (refill s) b v s' (refill_wt s he').2.2 hb
        refine ⟨?_, a2, ⟨?_, ?_, ?_, ?_⟩⟩
        · have := refill_base_le s he'
          simp only [wt] at this a1 ⊢; omega
        · rw [a3.stack, refill_stack]
        · rw [a3.queue, refill_queue]
        · rw [a3.state, refill_state]
        · rw [a3.cur, refill_curIndent]
      split at h
      · rename_i buf' rl hs
        have hle := scanLine_found_le _ _ _ _ _ _ _ _ hs
        split at h
        · simp at h
        · simp only [StrRes.ok.injEq] at h
          obtain ⟨_, rfl⟩ := h
          refine ⟨?_, ?_, ⟨rfl, rfl, rfl, rfl⟩⟩
          · simp only [wt, base, A, E, he']; omega
          · intro e; simp at e
      · exact next _ h
      · split_ifs at h
        exact next _ h

theorem readStringFound_wt (s : LexSt) (raw bytes : Bool) (cut : Nat) (v : StrVal) (s' : LexSt)
    (hne : s.line ≠ []) (hj : s.eof = true → s.rest = []) (h : readStringFound s raw bytes cut = .ok v s') :
    wt s' < wt s ∧ (s'.eof = true → s'.rest = []) ∧ Pres s s' := by
  have hl : s.line.length ≥ 1 := by
    cases hh : s.line with
    | nil => exact absurd hh hne
    | cons _ _ => simp
  unfold readStringFound at h
  simp only at h
  split_ifs at h <;>
  · obtain ⟨a1, a2, a3⟩ := readStringBody_wt _ _ _ _ _ _ _ v s' (by exact hj) h
    refine ⟨?_, a2, ⟨a3.stack, a3.queue, a3.state, a3.cur⟩⟩
    simp only [wt, base, A, E, List.length_drop] at a1 ⊢
    omega

theorem readStringTok_wt (s : LexSt) (v : StrVal) (s' : LexSt)
    (hj : s.eof = true → s.rest = []) (h : readStringTok s = .ok v s') :
    wt s' < wt s ∧ (s'.eof = true → s'.rest = []) ∧ Pres s s' := by
  unfold readStringTok at h
  simp only at h
  split_ifs at h with h0
  all_goals first
    | exact readStringFound_wt _ _ _ _ _ _ (by intro e; simp [e] at h0) hj h

/-! ### consumption lemmas: every token reader removes at least one character -/

theorem optJ_le (l : List Char) : (optJ l).2.length ≤ l.length := by
  unfold optJ
  split <;> simp only [List.length_cons] <;> omega

theorem matchExp_lt (l : List Char) (ex : Int) (r : List Char) (h : matchExp l = some (ex, r)) : r.length < l.length := by
  unfold matchExp at h
  split at h
  · rename_i e r0
    split at h
    · split at h
      rename_i neg r1 heq
      split at h
      rename_i ds r2 hsp
      split at h
      · simp at h
      · simp only [Option.some.injEq, Prod.mk.injEq] at h
        obtain ⟨_, rfl⟩ := h
        have h1 : r1.length ≤ r0.length := by
          split at heq <;> (simp only [Prod.mk.injEq] at heq; obtain ⟨_, rfl⟩ := heq; first | (simp only [List.length_cons]; omega) | exact Nat.le_refl _)
        have h2 : r2.length ≤ r1.length := by have := span_snd_le isDigit r1; rw [hsp] at this; exact this
        simp only [List.length_cons]; omega
    · simp at h
  · simp at h

theorem matchPointFloat_lt (ip r fp r2 : List Char) (h : matchPointFloat ip r = some (fp, r2)) : r2.length < r.length := by
  unfold matchPointFloat at h
  split at h
  · rename_i r1
    split at h
    rename_i fp' r2' hsp
    have := span_snd_le isDigit r1; rw [hsp] at this; simp only at this
    split at h
    · simp only [Option.some.injEq, Prod.mk.injEq] at h; obtain ⟨_, rfl⟩ := h; simp only [List.length_cons]; omega
    · split at h
      · simp only [Option.some.injEq, Prod.mk.injEq] at h; obtain ⟨_, rfl⟩ := h; simp only [List.length_cons]; omega
      · simp at h
  · simp at h

theorem matchPrefixed_lt (l marks : List Char) (okd : Char → Bool) (b : Nat) (v : NumVal) (r : List Char)
    (h : matchPrefixed l marks okd b = some (v, r)) : r.length < l.length := by
  unfold matchPrefixed at h
  split at h
  · rename_i m r0
    split at h
    · split at h
      rename_i ds rest hsp
      have := span_snd_le okd r0; rw [hsp] at this; simp only at this
      split at h
      · simp at h
      · simp only [Option.some.injEq, Prod.mk.injEq] at h
        obtain ⟨_, rfl⟩ := h
        simp only [List.length_cons]; omega
    · simp at h
  · simp at h

theorem matchFloat_lt (l : List Char) (v : NumVal) (r : List Char) (h : matchFloat l = some (v, r)) : r.length < l.length := by
  unfold matchFloat at h
  split at h
  rename_i ip r0 hsp0
  have hsp := span_length isDigit l
  rw [hsp0] at hsp
  simp only at hsp h
  split at h
  · rename_i ex rest he
    split at he
    · simp at he
    · rename_i hip
      have h1 := matchExp_lt _ _ _ he
      simp only [Option.some.injEq, Prod.mk.injEq] at h
      obtain ⟨_, rfl⟩ := h
      have := optJ_le rest
      have hip' : ip.length ≥ 1 := by
        cases ip with
        | nil => simp at hip
        | cons _ _ => simp
      omega
  · split at h
    · rename_i fp r2 hp
      have h1 := matchPointFloat_lt _ _ _ _ hp
      split at h
      · rename_i ex rest he
        have h2 := matchExp_lt _ _ _ he
        simp only [Option.some.injEq, Prod.mk.injEq] at h
        obtain ⟨_, rfl⟩ := h
        have := optJ_le rest
        omega
      · simp only [Option.some.injEq, Prod.mk.injEq] at h
        obtain ⟨_, rfl⟩ := h
        have := optJ_le r2
        omega
    · simp at h

/-- the part of readNumber after `isNumber:` (proof-local restatement; `readNumber_eq` ties it to the model) -/
def numChain (line : List Char) : NumRes :=
  match matchPrefixed line ['o', 'O'] isOct 8 with
  | some (v, r) => .ok v r
  | none =>
  match matchPrefixed line ['x', 'X'] (fun c => (hexVal c).isSome) 16 with
  | some (v, r) => .ok v r
  | none =>
  match matchPrefixed line ['b', 'B'] (fun c => c == '0' || c == '1') 2 with
  | some (v, r) => .ok v r
  | none =>
  match matchFloat line with
  | some (v, r) => .ok v r
  | none =>
    let (ds, r) := line.span isDigit
    let (j, r') := optJ r
    if j then
      let (m, e) := normDec ds [] 0
      .ok (.imag m e) r'
    else
      if ds.head? == some '0' && ds.any (fun c => c != '0') then .bad
      else .ok (.int (digitsVal 10 ds)) r

theorem readNumber_eq (l : List Char) : readNumber l = if !isNumStart l then .notNumber else numChain l := by
  unfold readNumber numChain isNumStart
  cases l with
  | nil => rfl
  | cons c rest => cases rest <;> rfl

theorem readNumber_lt (l : List Char) (v : NumVal) (r : List Char) (h : readNumber l = .ok v r) : r.length < l.length := by
  have hu := unparsedNumber_false l
  rw [readNumber_eq] at h
  split at h
  · simp at h
  · rename_i hnum
    have hn : isNumStart l = true := by simpa using hnum
    unfold numChain at h
    split at h
    · rename_i v1 r1 hm
      simp only [NumRes.ok.injEq] at h; obtain ⟨_, rfl⟩ := h
      exact matchPrefixed_lt _ _ _ _ _ _ hm
    · rename_i hm1
      split at h
      · rename_i v1 r1 hm
        simp only [NumRes.ok.injEq] at h; obtain ⟨_, rfl⟩ := h
        exact matchPrefixed_lt _ _ _ _ _ _ hm
      · rename_i hm2
        split at h
        · rename_i v1 r1 hm
          simp only [NumRes.ok.injEq] at h; obtain ⟨_, rfl⟩ := h
          exact matchPrefixed_lt _ _ _ _ _ _ hm
        · rename_i hm3
          split at h
          · rename_i v1 r1 hm
            simp only [NumRes.ok.injEq] at h; obtain ⟨_, rfl⟩ := h
            exact matchFloat_lt _ _ _ hm
          · rename_i hm4
            -- decimalInteger: the digits are not empty (otherwise "Unparsed number")
            have hne : (l.span isDigit).1.isEmpty = false := by
              unfold unparsedNumber at hu
              simp only [hn, hm1, hm2, hm3, hm4, Option.isNone_none, Bool.true_and, Bool.and_true] at hu
              exact hu
            have hsp := span_length isDigit l
            have hpos : (l.span isDigit).1.length ≥ 1 := by
              cases hh : (l.span isDigit).1 with
              | nil => rw [hh] at hne; simp at hne
              | cons _ _ => simp
            have hj := optJ_le (l.span isDigit).2
            simp only at h
            split at h
            · simp only [NumRes.ok.injEq] at h; obtain ⟨_, rfl⟩ := h; omega
            · split at h
              · simp at h
              · simp only [NumRes.ok.injEq] at h; obtain ⟨_, rfl⟩ := h; omega

theorem readIdent_lt (l : List Char) (t : Tok) (r : List Char) (h : readIdentifierOrKeyword l = some (t, r)) : r.length < l.length := by
  unfold readIdentifierOrKeyword at h
  simp only at h
  have key : (readIdentifier l).1.isEmpty = false → (readIdentifier l).2.length < l.length := by
    unfold readIdentifier
    split
    · simp
    · rename_i c cs
      split_ifs
      · intro _
        have := span_snd_le isIdentifierChar cs
        simp only [List.length_cons]; omega
      · simp
  split_ifs at h with he
  have he' : (readIdentifier l).1.isEmpty = false := by simpa using he
  have := key he'
  split at h <;> (simp only [Option.some.injEq, Prod.mk.injEq] at h; obtain ⟨_, rfl⟩ := h; exact this)

/-- a small loop-shaped stream (SETUP_LOOP, LOAD, GET_ITER, L:, FOR_ITER, STORE, 2 × (LOAD, STORE), JUMP_ABSOLUTE, L:, POP_BLOCK, L:, LOAD, RETURN) -/
def forStreamSmall : List Instr :=
  [⟨.jrel 13, 0, 0⟩, ⟨.oparg, 0, 0⟩, ⟨.op, 0, 0⟩, ⟨.label, 0, 0⟩, ⟨.jrel 11, 0, 0⟩, ⟨.oparg, 0, 0⟩,
   ⟨.oparg, 0, 1⟩, ⟨.oparg, 0, 0⟩, ⟨.oparg, 0, 1⟩, ⟨.oparg, 0, 0⟩, ⟨.jabs 3, 0, 0⟩, ⟨.label, 0, 0⟩, ⟨.op, 0, 0⟩, ⟨.label, 0, 0⟩,
   ⟨.oparg, 0, 2⟩, ⟨.op, 0, 0⟩]

/-! ## 3. no internal branch along a run -/

/-- in every state with a non-empty indent stack and a pure space/tab indent, none of the internal-error branches is taken -/
theorem internalAt_none (s : LexSt) (hne : s.stack ≠ []) : internalAt s = none := by
  unfold internalAt
  split
  · rfl
  · split
    · -- checkIndent
      split_ifs with h1 h2
      · rfl
      · exact absurd (List.isEmpty_iff.mp h2) hne
      · simp only
        split_ifs with h3
        · split
          · rename_i st hp
            have := popTo_zero_head hp
            omega
          · rfl
        · rfl
    · -- parseTokens
      simp only
      split
      · rfl
      · rename_i c cs hl
        simp only [unparsedNumber_false, badStringStart_false, Bool.false_eq_true, if_false]
        split_ifs <;> rfl
    · rfl

theorem countIndentPanics_false (s : LexSt) (h : ∀ c ∈ s.curIndent, c = ' ' ∨ c = '\t') : countIndentPanics s = false := by
  unfold countIndentPanics
  have : (s.curIndent.any fun c => c != ' ' && c != '\t') = false := by
    rw [List.any_eq_false]
    intro c hc
    rcases h c hc with rfl | rfl <;> simp
  simp [this]

end GPy.C11
