/-
C11 property theorems (kernel-checked; no bound on input lengths, stream sizes below the stated hypotheses, or fuel):
  * `panic_table_expected`     the regenerated panic / SyntaxError-helper / recover site table = the hand-written expectations
  * `recover_map_spec`         the outcome of compile() is acceptable iff the first stage that does not return normally
                               panics with a SyntaxError-family *py.Exception (located, unless the wrapper adds the location)
  * `lexer_total_no_internal`  for ALL character lists and all three modes the (instrumented) lexer returns tokens or SyntaxError:
                               never `internal`, never out of fuel (termination of Lex within 8·len+64 steps); `lex_string_total`
  * `lexer_no_internal`, `lexer_step_no_internal`, `scan_truncate_safe`, `lexer_state_in_range`, `count_indent_safe`
                               the internal-error branches of parser/lexer.go are unreachable
  * `assemble_converges`       below 64 KiB Assemble reaches its fixpoint at pass 0 or 1 without panicking
  * `assemble_first_far_jump_witness`, `far_rel_jump_panics`   C11-K01: what happens above 64 KiB
-/
import GPy.C11.Proofs
import GPy.C11.Term
namespace GPy.C11
open GPy.C06 Spec

/-! ### panic-site table -/

/-- the regenerated table of every `panic(`, SyntaxError helper call and `recover()` of parser/, ast/, symtable/, compile/
equals the hand-written expectations (`Spec.expected`): a new, removed or changed site breaks this proof -/
theorem panic_table_expected : Generated.sites = expectedSites := by decide

/-- every recover wrapper of the pipeline is one of the three modelled in Model.lean §2 (parser.Parse, symtable.NewSymTable,
compiler.compileAst; `Lex` is the lexer-only entry point) -/
theorem recover_sites_modelled :
    (expected.filter fun e => e.2.2.2.2 == Expect.recoverSite).map (fun e => (e.2.1, e.2.2.1)) =
      [("compiler.compileAst", "recover:MakeException"), ("Lex", "recover:MakeSyntaxError"),
       ("Parse", "recover:MakeSyntaxError"), ("NewSymTable", "recover:MakeException")] := by decide

/-! ### recover-to-exception map -/

/-- **recover_map_spec** – for EVERY way the three stages can end (normal return, error flag, panic with any payload):
compile() yields an acceptable outcome (code object, or SyntaxError-family exception with filename/lineno/offset) exactly
when the first stage that does not return normally panics with a `*py.Exception` of the SyntaxError family – which must
already carry its location in symtable/compile (their wrappers use MakeException), while parser.Parse adds it
(MakeSyntaxError).  Any other payload (Go error, string, runtime.Error, non-exception type) becomes SystemError/TypeError. -/
theorem recover_map_spec (p : StageEnd ParseRet) (lexPos : Loc) (s c : StageEnd Unit) :
    acceptable (compilePipeline p lexPos s c) = pipelineOK p s c := by
  cases p with
  | panic r =>
    cases r with
    | exception e => simp [compilePipeline, parserParse, makeSyntaxError, makeException, acceptable, pipelineOK, payloadOK]
    | excType cl b => cases b <;> simp [compilePipeline, parserParse, makeSyntaxError, makeException, acceptable, pipelineOK, payloadOK, Cls.isSyntaxFamily]
    | goError => simp [compilePipeline, parserParse, makeSyntaxError, makeException, acceptable, pipelineOK, payloadOK, Cls.isSyntaxFamily]
    | str => simp [compilePipeline, parserParse, makeSyntaxError, makeException, acceptable, pipelineOK, payloadOK, Cls.isSyntaxFamily]
    | otherValue => simp [compilePipeline, parserParse, makeSyntaxError, makeException, acceptable, pipelineOK, payloadOK, Cls.isSyntaxFamily]
  | ret pr =>
    cases he : pr.errorFlag with
    | true => simp [compilePipeline, parserParse, makeSyntaxError, makeException, acceptable, pipelineOK, he, Cls.isSyntaxFamily]
    | false =>
      have stage : ∀ (x : StageEnd Unit) (k : Outcome),
          acceptable (match (match x with | .panic r => Except.error (makeException r) | .ret _ => Except.ok ()) with
            | .error e => Outcome.exc e | .ok _ => k) = (match x with | .panic r => payloadOK false r | .ret _ => acceptable k) := by
        intro x k
        cases x with
        | ret _ => rfl
        | panic r =>
          cases r with
          | exception e => simp [makeException, acceptable, payloadOK]
          | excType cl b => cases b <;> simp [makeException, acceptable, payloadOK, Cls.isSyntaxFamily]
          | goError => simp [makeException, acceptable, payloadOK, Cls.isSyntaxFamily]
          | str => simp [makeException, acceptable, payloadOK, Cls.isSyntaxFamily]
          | otherValue => simp [makeException, acceptable, payloadOK, Cls.isSyntaxFamily]
      simp only [compilePipeline, parserParse, he, newSymTable, compileAst, pipelineOK, Bool.false_eq_true, if_false]
      cases s with
      | panic r => exact stage (.panic r) .code
      | ret u =>
        cases c with
        | panic r => exact stage (.panic r) .code
        | ret u => rfl

/-- a string or Go-error payload (every `panic("...")`, `panic(fmt.Sprintf(...))`, runtime error) is never acceptable:
it surfaces as SystemError – so the property holds iff no reachable panic of the pipeline carries one -/
theorem internal_payload_is_system_error (r : Payload) (h : r = .str ∨ r = .goError ∨ r = .otherValue) (lexPos : Loc) :
    (makeException r).cls = .systemError ∧ (makeSyntaxError r lexPos).cls = .systemError := by
  rcases h with rfl | rfl | rfl <;> exact ⟨rfl, rfl⟩

example : acceptable (compilePipeline (.ret { errorFlag := false }) ⟨"f", 1, 0⟩ (.ret ()) (.panic .str)) = false := by decide
example : acceptable (compilePipeline (.ret { errorFlag := false }) ⟨"f", 1, 0⟩
    (.panic (.exception { cls := .syntaxError, loc := some ⟨"f", 3, 4⟩ })) (.ret ())) = true := by decide
example : acceptable (compilePipeline (.panic (.exception { cls := .indentationError })) ⟨"f", 2, 0⟩ (.ret ()) (.ret ())) = true := by decide

/-! ### the lexer never takes an internal-error branch -/

/-- in EVERY state whose indent stack is non-empty none of `token queue empty`, index out of range on the indent stack,
`Unparsed number`, `Bad string start` is reached by the next step of `Lex` -/
theorem lexer_step_no_internal (s : LexSt) (hne : s.stack ≠ []) : internalAt s = none :=
  internalAt_none s hne

theorem runX_no_internal : ∀ (f : Nat) (s : LexSt) (out : List Tok), C06.Inv s out → ∀ i, runX f s out ≠ .internal i := by
  intro f
  induction f with
  | zero => intro s out _ i; simp [runX]
  | succ f ih =>
    intro s out hi i
    have hg := step_good s out hi
    unfold runX stepX
    split_ifs with hc
    · simp
    · rw [internalAt_none s hi.ne]
      simp only
      cases hr : (step s).2 with
      | cont => simp only [C06.Good, hr] at hg; exact ih _ _ hg i
      | emit t => simp only [C06.Good, hr] at hg; exact ih _ _ hg i
      | stop => simp only; split_ifs <;> simp

/-- **lexer_no_internal** – for EVERY character list (over the modelled alphabet), every mode and every amount of fuel:
the lexer never produces the outcome `internal` – `dequeue` is never called on an empty queue, the indent stack is
never indexed when empty, `Unparsed number` and `Bad string start` are unreachable.  (A Go panic with a string payload
would be turned into SystemError by `Lex`/`Parse`'s recover wrapper.) -/
theorem lexer_no_internal (input : List Char) (mode : Mode) (fuel : Nat) (i : Internal) :
    runX fuel (initLex input mode) [] ≠ .internal i :=
  runX_no_internal fuel _ _ (initLex_inv input mode) i

/-- **lexer_total_no_internal** – for ALL character lists (over the modelled alphabet) and all three modes the lexer
(`parser.LexString`, i.e. `Lex` called until it returns eof) TERMINATES – within `8·|input| + 64` iterations of the
state machine, each of which strictly decreases the measure `mu` – and returns either a token list or a SyntaxError.
In particular none of the internal-error branches of lexer.go (`token queue empty`, indent-stack index, `Unparsed number`,
`Bad string start`; with `scan_truncate_safe`, `lexer_state_in_range`, `count_indent_safe` also `Truncate`, `Bad state`
and countIndent's panic) is reachable. -/
theorem lexer_total_no_internal (input : List Char) (mode : Mode) :
    (∃ toks, lexX input mode = .ok toks) ∨ lexX input mode = .syntaxError :=
  runX_total _ _ _ (initLex_inv input mode) (initLex_J input mode) (initLex_mu input mode)

/-- every step of `Lex` that does not return eof strictly decreases the termination measure, in every reachable state
(invariant `J`: eof ⇒ reader exhausted; state readString ⇒ eof not yet seen; indent = spaces/tabs) -/
theorem lexer_step_decreases (s : LexSt) (h : J s) :
    match (step s).2 with
    | .stop => True
    | _ => mu (step s).1 < mu s ∧ J (step s).1 :=
  step_dec s h

/-- `buf.Truncate(buf.Len()-1)` in readString never sees an empty buffer: for every line, prefix flags and buffer the
instrumented scan agrees with the plain one from the only way it is entered (`escape = false` at the start of a line) -/
theorem scan_truncate_safe (raw multi : Bool) (endq line buf : List Char) :
    scanLineX raw multi endq line false buf = some (scanLine raw multi endq line false buf) :=
  scanLineX_eq_aux raw multi endq line false buf (by intro e; simp at e)

/-- `default: panic("Bad state")`: the state reached by every step has one of the seven case labels; and the four
`x.state++` of Lex land on the next label -/
theorem lexer_state_in_range (s : LexSt) : stateOfNum (stateNum (step s).1.state) = some (step s).1.state :=
  stateOfNum_stateNum _

theorem lexer_state_increments :
    stateNum .readIndent = stateNum .readString + 1 ∧ stateNum .checkEmpty = stateNum .readIndent + 1 ∧
    stateNum .checkIndent = stateNum .checkEmpty + 1 ∧ stateNum .parseTokens = stateNum .checkIndent + 1 := by decide

/-- `countIndent`'s IndentationError panic needs a character other than space/tab in the indent, which `readIndent`
(strings.TrimLeft(" \t")) never stores -/
theorem count_indent_safe (s : LexSt) (h : ∀ c ∈ s.curIndent, c = ' ' ∨ c = '\t') : countIndentPanics s = false :=
  countIndentPanics_false s h

theorem unparsed_number_unreachable (line : List Char) : unparsedNumber line = false := unparsedNumber_false line
theorem bad_string_start_unreachable (line : List Char) : badStringStart line = false := badStringStart_false line

/-- non-vacuity: the instrumented lexer on a text with nested blocks, a malformed number and an unterminated string -/
example : lexX "if x:\n  y\n".toList .exec = .ok [.start .exec, .k .if_, .name "x", .p .colon, .newline, .indent, .name "y", .newline, .dedent, .endmarker] := by decide
example : lexX "0777".toList .eval = .syntaxError := by decide
example : lexX "'abc".toList .single = .syntaxError := by decide

/-! ### the assembler -/

/-- **assemble_converges** – for ALL instruction streams as the compiler hands them to Assemble (positions 0, jump
operands 0), whose relative jumps go forward to labels of the stream and whose size is below 64 KiB: Assemble does not
panic (`Failed to assemble after 10 passes`, `JUMP_FOWARDS size changed`, `can't jump backwards` are unreachable), the
pass that reports "unchanged" is pass 0 or pass 1, kinds and total size are unchanged and the result is assembled
(positions = running sums of sizes, every jump operand resolved to its label). -/
theorem assemble_converges (is : List Instr) (hf : Fresh is) (hfw : ForwardOK is) (hsz : totalSize is < 65536) :
    ∃ is' p, assemble is = .ok (is', p) ∧ p ≤ 1 ∧ is'.length = is.length ∧
      (∀ i : Nat, (is'[i]?.map (·.kind)) = (is[i]?.map (·.kind))) ∧
      totalSize is' = totalSize is ∧ Assembled is' :=
  assemble_converges_main is hf hfw hsz

/-- **converges_partial** – the statement "Assemble always converges" is proved only OUTSIDE the recorded finding C11-K01:
the excluded hypothesis is `totalSize is ≥ 65536` (a code object of 64 KiB or more, where a jump operand may need
EXTENDED_ARG).  Above that size nothing is proved; `far_rel_jump_panics` shows that every relative jump spanning more than
0xFFFF bytes makes `Resolve` panic (SystemError), `far_rel_jump_witness` is the concrete point, and the run confirms it on
the real compiler (`big for 11000`).  Absolute jumps to targets beyond 0xFFFF grow by 3 bytes per pass and were
observed to converge (`big whileafter 12000`), but the 10-pass bound is not proved sufficient there. -/
theorem converges_partial (is : List Instr) (hf : Fresh is) (hfw : ForwardOK is) (hk : ¬ totalSize is ≥ 65536) :
    ∃ is' p, assemble is = .ok (is', p) ∧ p ≤ 1 ∧ Assembled is' := by
  obtain ⟨is', p, h1, h2, _, _, _, h6⟩ := assemble_converges_main is hf hfw (by omega)
  exact ⟨is', p, h1, h2, h6⟩

/-- non-vacuity: a loop-shaped stream (SETUP_LOOP … FOR_ITER … JUMP_ABSOLUTE) satisfies the hypotheses -/
example : Fresh (forStreamSmall) ∧ totalSize forStreamSmall < 65536 := by decide

/-- **C11-K01 (local form)**: a relative jump whose operand still fits 16 bits and whose destination lies more than
0xFFFF bytes beyond its end makes `Resolve` panic with "JUMP_FOWARDS size changed" – for every stream and position -/
theorem far_rel_jump_panics (is : List Instr) (x : Instr) (d : Nat) (h : kfFarRelJump is x d = true) :
    resolve is x = .error .sizeChanged := by
  unfold kfFarRelJump at h
  simp only [Bool.and_eq_true, beq_iff_eq, decide_eq_true_eq] at h
  obtain ⟨⟨hk, ha⟩, hd⟩ := h
  have hs : x.size = 3 := by simp [Instr.size, hk, argSize, ha]
  unfold resolve
  simp only [hk, hs]
  have h1 : ¬ destPos is d < x.pos + 3 := by omega
  simp only [h1, if_false]
  have h2 : ({ kind := Kind.jrel d, pos := x.pos, arg := destPos is d - (x.pos + 3) } : Instr).size = 6 := by
    simp only [Instr.size, argSize]
    have : ¬ destPos is d - (x.pos + 3) ≤ 0xFFFF := by omega
    simp [this]
  simp [h2]

/-- C11-K01 witness: SETUP_LOOP at 0 with its label at 70000 -/
theorem far_rel_jump_witness :
    resolve [⟨.jrel 1, 0, 0⟩, ⟨.label, 70000, 0⟩] ⟨.jrel 1, 0, 0⟩ = .error .sizeChanged := by rfl

theorem destPos_fresh (is : List Instr) (hf : Fresh is) (d : Nat) : destPos is d = 0 := by
  unfold destPos
  cases h : is[d]? with
  | none => rfl
  | some y =>
    have hm : y ∈ is := List.mem_of_getElem? h
    have := fresh_pos (hf y hm)
    simp [this]

/-- **C11-K01 (whole-assembler form)**: for EVERY fresh stream that starts with a relative jump (e.g. the SETUP_LOOP of a
loop statement) whose label lies, in the first layout, 0x10000 bytes or more beyond the jump's end: `Assemble` panics with
"JUMP_FOWARDS size changed" in pass 1 (⇒ SystemError) – whatever the rest of the stream is -/
theorem assemble_first_far_jump (d : Nat) (rest : List Instr) (hf : Fresh (⟨.jrel d, 0, 0⟩ :: rest))
    (hfar : destPos (layout 0 (⟨.jrel d, 0, 0⟩ :: rest)) d ≥ 3 + 0x10000) :
    assemble (⟨.jrel d, 0, 0⟩ :: rest) = .error .sizeChanged := by
  have hm : moved 0 (⟨.jrel d, 0, 0⟩ :: rest) = true := by
    cases h : moved 0 (⟨.jrel d, 0, 0⟩ :: rest) with
    | true => rfl
    | false =>
      rw [layout_of_not_moved _ _ h, destPos_fresh _ hf] at hfar
      omega
  unfold assemble assembleLoop
  rw [pass_zero]
  simp only [hm, Bool.not_true, Bool.false_eq_true, if_false]
  unfold assembleLoop pass
  have hl : layout 0 (⟨.jrel d, 0, 0⟩ :: rest) = ⟨.jrel d, 0, 0⟩ :: layout 3 rest := by
    simp [layout, Instr.size, argSize]
  rw [hl] at hfar ⊢
  simp only [List.length_cons]
  unfold passLoop
  simp only [List.getElem?_cons_zero, List.set_cons_zero, bne_self_eq_false, Nat.lt_add_one, decide_true, if_true]
  have := far_rel_jump_panics (⟨.jrel d, 0, 0⟩ :: layout 3 rest) ⟨.jrel d, 0, 0⟩ d (by
    simp only [kfFarRelJump, Bool.and_eq_true, beq_iff_eq, decide_eq_true_eq]
    exact ⟨⟨trivial, by omega⟩, by simpa using hfar⟩)
  simp [this]


end GPy.C11
