/-
C11 specification (core Lean only), written from the property text:

  "compilation terminates and returns either a code object or a SyntaxError-family exception carrying
   file name, line and offset.  It never panics, hangs, or reports an internal SystemError-class failure."

* `acceptable`      the set of allowed outcomes of compile()
* `payloadOK`       what a stage may panic with so that the outcome stays acceptable (recover_map_spec)
* `Expect`/`expected`  hand-written expectation for every panic / error-helper / recover site of the pipeline
                    (`Props.panic_table_expected` proves the regenerated site table equal to it by `decide`)
* `kfFarRelJump`    the known-finding predicate of C11-K01 (relative jump spanning more than 0xFFFF bytes)
-/
import GPy.C11.Model
namespace GPy.C11.Spec
open GPy.C11

/-- the outcomes the property allows -/
def acceptable : Outcome → Bool
  | .code => true
  | .exc e => e.cls.isSyntaxFamily && e.loc.isSome

/-- canonical observable V of one compile -/
def outcomeV : Outcome → String
  | .code => "code"
  | .exc e => if acceptable (.exc e) then "E:SyntaxError" else "BAD"

/-- a panic payload that keeps the outcome acceptable; `locAdded` = the recovering wrapper adds the location
itself (parser.Parse: MakeSyntaxError) – the other wrappers (MakeException) rely on the payload carrying it -/
def payloadOK (locAdded : Bool) : Payload → Bool
  | .exception e => e.cls.isSyntaxFamily && (locAdded || e.loc.isSome)
  | .excType c true => c.isSyntaxFamily && locAdded
  | _ => false

def stageOK {α : Type} (locAdded : Bool) : StageEnd α → Bool
  | .ret _ => true
  | .panic r => payloadOK locAdded r

/-- the first stage that does not return normally decides -/
def pipelineOK (p : StageEnd ParseRet) (s c : StageEnd Unit) : Bool :=
  match p with
  | .panic r => payloadOK true r
  | .ret pr =>
    if pr.errorFlag then true else
    match s with
    | .panic r => payloadOK false r
    | .ret _ => stageOK false c

/-- what is expected of one site -/
inductive Expect
  | syntaxPayload        -- panics with / constructs a located SyntaxError-family *py.Exception: allowed outcome
  | errorChannel         -- sets the lexer's error flag (x.SyntaxError…): Parse returns a located SyntaxError
  | recoverSite          -- a `defer recover` wrapper modelled in Model.lean §2
  | unreachable (lemma : String)   -- internal payload, proved unreachable in the model by the named theorem
  | internalExplored     -- internal payload (string / Go error ⇒ SystemError): must be shown unreachable by exploration
  | outsidePipeline      -- not on the path of compile.Compile (ast.Dump, LegacyCompile)
  deriving DecidableEq, Repr

/-- (file, function, kind, count, expectation): one row per row of `Generated.sites` -/
def expected : List (String × String × String × Nat × Expect) := [
  ("ast/dump.go", "dumpItem", "panic:err", 1, .outsidePipeline),
  ("ast/walk.go", "Walk", "panic:str", 1, .internalExplored),
  ("compile/compile.go", "compiler.Expr", "call:panicSyntaxErrorf", 4, .syntaxPayload),
  ("compile/compile.go", "compiler.Expr", "panic:str", 11, .internalExplored),
  ("compile/compile.go", "compiler.Jump", "panic:str", 1, .internalExplored),
  ("compile/compile.go", "compiler.NameOp", "panic:str", 11, .internalExplored),
  ("compile/compile.go", "compiler.Op", "panic:str", 1, .internalExplored),
  ("compile/compile.go", "compiler.OpArg", "panic:str", 1, .internalExplored),
  ("compile/compile.go", "compiler.Stmt", "call:panicSyntaxErrorf", 6, .syntaxPayload),
  ("compile/compile.go", "compiler.Stmt", "panic:str", 5, .internalExplored),
  ("compile/compile.go", "compiler.callHelper", "call:panicSyntaxErrorf", 3, .syntaxPayload),
  ("compile/compile.go", "compiler.compileAst", "panic:str", 5, .internalExplored),
  ("compile/compile.go", "compiler.compileAst", "recover:MakeException", 1, .recoverSite),
  ("compile/compile.go", "compiler.compileFunc", "call:panicSyntaxErrorf", 1, .syntaxPayload),
  ("compile/compile.go", "compiler.compileFunc", "panic:str", 1, .internalExplored),
  ("compile/compile.go", "compiler.comprehensionGenerator", "panic:str", 1, .internalExplored),
  ("compile/compile.go", "compiler.getRefType", "panic:str", 1, .internalExplored),
  ("compile/compile.go", "compiler.importFrom", "panic:str", 1, .internalExplored),
  ("compile/compile.go", "compiler.makeClosure", "panic:str", 1, .internalExplored),
  ("compile/compile.go", "compiler.nestedSlice", "panic:str", 2, .internalExplored),
  -- newCompilerScope re-panics the nested scope's error: a *py.Exception made by the nested compileAst (passes through)
  ("compile/compile.go", "compiler.newCompilerScope", "panic:err", 1, .internalExplored),
  ("compile/compile.go", "compiler.newCompilerScope", "panic:str", 2, .internalExplored),
  ("compile/compile.go", "compiler.panicSyntaxErrorf", "mkexc:SyntaxError", 1, .syntaxPayload),
  ("compile/compile.go", "compiler.panicSyntaxErrorf", "panic:synexc", 1, .syntaxPayload),
  ("compile/compile.go", "compiler.setQualname", "panic:str", 2, .internalExplored),
  ("compile/compile.go", "compiler.slice", "panic:str", 1, .internalExplored),
  ("compile/compile.go", "compiler.subscript", "panic:str", 1, .internalExplored),
  ("compile/compile.go", "compiler.tryExcept", "call:panicSyntaxErrorf", 1, .syntaxPayload),
  ("compile/compile.go", "compiler.tupleOrList", "call:panicSyntaxErrorf", 2, .syntaxPayload),
  -- "Failed to assemble after 10 passes": unreachable below 64 KiB; above it see C11-K01
  ("compile/instructions.go", "Instructions.Assemble", "panic:str", 1, .unreachable "assemble_converges"),
  ("compile/instructions.go", "Instructions.stackDepthWalk", "panic:str", 1, .internalExplored),
  -- "can't jump backwards" and "size changed"
  ("compile/instructions.go", "JumpRel.Resolve", "panic:str", 2, .unreachable "assemble_converges"),
  ("compile/instructions.go", "opcodeStackEffect", "panic:str", 1, .internalExplored),
  ("compile/legacy.go", "LegacyCompile", "panic:err", 2, .outsidePipeline),
  ("parser/lexer.go", "Lex", "recover:MakeSyntaxError", 1, .recoverSite),
  ("parser/lexer.go", "Parse", "recover:MakeSyntaxError", 1, .recoverSite),
  ("parser/lexer.go", "countIndent", "panic:exc:IndentationError", 1, .syntaxPayload),
  ("parser/lexer.go", "yyLex.ErrorReturn", "mkexc:SyntaxError", 1, .syntaxPayload),
  ("parser/lexer.go", "yyLex.Lex", "call:SyntaxError", 2, .errorChannel),
  -- "Bad state"
  ("parser/lexer.go", "yyLex.Lex", "panic:str", 1, .unreachable "lexer_state_in_range"),
  ("parser/lexer.go", "yyLex.SyntaxErrorf", "call:SyntaxError", 1, .errorChannel),
  -- "token queue empty"
  ("parser/lexer.go", "yyLex.dequeue", "panic:str", 1, .unreachable "lexer_total_no_internal"),
  ("parser/lexer.go", "yyLex.readNumber", "call:SyntaxError", 1, .errorChannel),
  -- panic(err) after py.IntFromString / py.FloatFromString on digits the regular expression validated (external calls)
  ("parser/lexer.go", "yyLex.readNumber", "panic:err", 6, .internalExplored),
  -- "Unparsed number"
  ("parser/lexer.go", "yyLex.readNumber", "panic:str", 1, .unreachable "lexer_total_no_internal"),
  ("parser/lexer.go", "yyLex.readString", "call:SyntaxErrorf", 6, .errorChannel),
  -- "Bad string start"
  ("parser/lexer.go", "yyLex.readString", "panic:str", 1, .unreachable "lexer_total_no_internal"),
  ("parser/lexer.go", "yyLex.refill", "call:SyntaxErrorf", 1, .errorChannel),
  ("parser/y.go", "applyTrailers", "panic:str", 1, .internalExplored),
  ("parser/y.go", "setCtx", "call:SyntaxErrorf", 2, .errorChannel),
  ("parser/y.go", "yyParserImpl.Parse", "call:SyntaxError", 25, .errorChannel),
  ("parser/y.go", "yyParserImpl.Parse", "panic:str", 2, .internalExplored),
  ("symtable/symtable.go", "NewSymTable", "recover:MakeException", 1, .recoverSite),
  ("symtable/symtable.go", "SymTable.AddDef", "call:panicSyntaxErrorf", 1, .syntaxPayload),
  ("symtable/symtable.go", "SymTable.AnalyzeName", "call:panicSyntaxErrorLinenof", 5, .syntaxPayload),
  ("symtable/symtable.go", "SymTable.Parse", "call:panicSyntaxErrorf", 5, .syntaxPayload),
  ("symtable/symtable.go", "SymTable.panicSyntaxErrorLinenof", "mkexc:SyntaxError", 1, .syntaxPayload),
  ("symtable/symtable.go", "SymTable.panicSyntaxErrorLinenof", "panic:synexc", 1, .syntaxPayload),
  ("symtable/symtable.go", "SymTable.panicSyntaxErrorf", "mkexc:SyntaxError", 1, .syntaxPayload),
  ("symtable/symtable.go", "SymTable.panicSyntaxErrorf", "panic:synexc", 1, .syntaxPayload)
]

/-- the expectation table without the expectation column (what the extractor regenerates) -/
def expectedSites : List (String × String × String × Nat) :=
  expected.map fun e => (e.1, e.2.1, e.2.2.1, e.2.2.2.1)

/-- number of sites whose harmlessness rests on exploration only -/
def openSites : Nat := (expected.filter fun e => e.2.2.2.2 == Expect.internalExplored).foldl (fun a e => a + e.2.2.2.1) 0

/-- C11-K01: a fresh relative jump (operand 0, 3 bytes) whose destination lies more than 0xFFFF bytes beyond its end -/
def kfFarRelJump (is : List Instr) (x : Instr) (d : Nat) : Bool :=
  x.kind == .jrel d && x.arg ≤ 0xFFFF && destPos is d ≥ x.pos + 3 + 0x10000

end GPy.C11.Spec
