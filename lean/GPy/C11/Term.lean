/-
C11: every step of the Lex state machine that does not stop decreases the measure `mu` (termination of `Lex`).
-/
import GPy.C11.Proofs
namespace GPy.C11
open GPy.C06

/-! ### every step that does not stop decreases the measure -/

/-- the line `refill` produces, as a function of the three fields it reads -/
def rLine (rest : List Char) (eof exec : Bool) : List Char :=
  let l := (splitLine rest).1
  let eof' := eof || l.getLast? != some '\n'
  let l := fixCRLF l
  if eof' && exec && !l.isEmpty && l.getLast? != some '\n' then l ++ ['\n'] else l

theorem refill_line_eq (T : LexSt) : (refill T).line = rLine T.rest T.eof T.exec := by simp [refill, rLine]
theorem refill_rest_eq (T : LexSt) : (refill T).rest = (splitLine T.rest).2 := by simp [refill]
theorem refill_eof_eq (T : LexSt) : (refill T).eof = (T.eof || (splitLine T.rest).1.getLast? != some '\n') := by simp [refill]

def Dec (s : LexSt) (r : LexSt × StepRes) : Prop :=
  match r.2 with
  | .stop => True
  | _ => mu r.1 < mu s ∧ J r.1

theorem dropWhile_le {α} (p : α → Bool) (l : List α) : (l.dropWhile p).length ≤ l.length := by
  induction l with
  | nil => simp
  | cons x xs ih => rw [List.dropWhile_cons]; split <;> simp only [List.length_cons] <;> omega

theorem queueDedents_len (s : LexSt) :
    (queueDedents s).queue.length + (queueDedents s).stack.length ≤ s.queue.length + s.stack.length := by
  simp only [queueDedents, dedents, List.length_append, List.length_replicate, List.length_drop]
  omega

theorem step_dec (s : LexSt) (h : J s) : Dec s (step s) := by
  unfold step
  cases hq : s.queue with
  | cons t q =>
    simp only [Dec]
    refine ⟨?_, ⟨h.eofRest, h.rsEof, h.ind⟩⟩
    simp only [mu, base, A, E, lineW, hq, List.length_cons]; omega
  | nil =>
    simp only
    cases hs : s.state with
    | readString =>
      have he := h.rsEof hs
      obtain ⟨r1, r2, r3⟩ := refill_wt s he
      simp only [A, refill_exec, he] at r1
      simp only
      split_ifs with h1 h2
      · -- interactive end of input
        simp only [Dec]
        simp only [Bool.and_eq_true] at h1
        have hl : (refill s).line.length = 0 := by simpa using h1.1
        have he' : (refill s).eof = true := h1.2
        refine ⟨?_, ⟨?_, ?_, ?_⟩⟩
        · simp only [mu, base, A, E, lineW, kw, hs, he, he', hl, refill_exec, refill_queue, refill_stack, queueDedents, dedents, hq,
            List.length_append, List.length_replicate, List.length_drop, List.length_cons, List.length_nil] at r1 ⊢
          cases hy : s.exec <;> simp [hy] at r1 ⊢ <;> omega
        · intro _; simpa [queueDedents] using r3 he'
        · intro e; simp [queueDedents] at e
        · simpa [queueDedents, refill_curIndent] using h.ind
      · simp only [Dec]
        simp only [Bool.and_eq_true] at h1
        have hl : (refill s).line.length = 0 := by simpa using h1.1
        have he' : (refill s).eof = true := h1.2
        refine ⟨?_, ⟨?_, ?_, ?_⟩⟩
        · simp only [mu, base, A, E, lineW, kw, hs, he, he', hl, refill_exec, refill_queue, refill_stack] at r1 ⊢
          cases hy : s.exec <;> simp [hy] at r1 ⊢ <;> omega
        · intro _; exact r3 he'
        · intro e; simp at e
        · simpa [refill_curIndent] using h.ind
      · simp only [Dec]
        have hl : (refill s).line.length ≥ 1 := by
          cases hh : (refill s).line with
          | nil =>
            have := r2 hh
            simp [hh, this] at h1
          | cons _ _ => simp
        refine ⟨?_, ⟨?_, ?_, ?_⟩⟩
        · simp only [mu, base, A, E, lineW, kw, hs, he, refill_exec, refill_queue, refill_stack] at r1 ⊢
          cases hy : s.exec <;> cases hx : (refill s).eof <;> simp [hy, hx] at r1 ⊢ <;> omega
        · intro e; exact r3 e
        · intro e; simp at e
        · simpa [refill_curIndent] using h.ind
    | readIndent =>
      simp only [Dec]
      have hle := span_snd_le (fun c => c == ' ' || c == '\t') s.line
      refine ⟨?_, ⟨h.eofRest, by intro e; simp at e, ?_⟩⟩
      · simp only [mu, base, A, E, lineW, kw, hs, hq, List.length_nil]; omega
      · intro c hc
        have := span_fst_all (fun c => c == ' ' || c == '\t') s.line c hc
        simpa using this
    | checkEmpty =>
      simp only
      split_ifs <;> simp only [Dec] <;> refine ⟨?_, ⟨h.eofRest, by intro e; simp at e, h.ind⟩⟩ <;>
        (simp only [mu, base, A, E, lineW, kw, hs, hq, List.length_nil]; omega)
    | checkIndent =>
      simp only
      split_ifs with h1 h2 h3
      · simp only [Dec]; refine ⟨?_, ⟨h.eofRest, by intro e; simp at e, h.ind⟩⟩
        simp only [mu, base, A, E, lineW, kw, hs, hq, List.length_nil]; omega
      · simp only [Dec]; refine ⟨?_, ⟨h.eofRest, by intro e; simp at e, h.ind⟩⟩
        simp only [mu, base, A, E, lineW, kw, hs, hq, List.length_nil]; omega
      · simp only [Dec]; refine ⟨?_, ⟨h.eofRest, by intro e; simp at e, h.ind⟩⟩
        simp only [mu, base, A, E, lineW, kw, hs, hq, List.length_nil, List.length_cons]; omega
      · split
        · rename_i st n hp
          obtain ⟨_, b, _⟩ := popTo_spec _ _ _ _ hp
          simp only [Dec]; refine ⟨?_, ⟨h.eofRest, by intro e; simp at e, h.ind⟩⟩
          simp only [mu, base, A, E, lineW, kw, hs, hq, List.length_nil, dedents, List.length_replicate, hq, List.length_nil]; omega
        · simp [Dec]
    | parseTokens =>
      simp only
      have hdw := dropWhile_le (fun c => c == ' ' || c == '\t') s.line
      split
      · simp only [Dec]; refine ⟨?_, ⟨h.eofRest, by intro e; simp at e, h.ind⟩⟩
        simp only [mu, base, A, E, lineW, kw, hs, hq, List.length_nil]; omega
      · rename_i c cs hl
        have hlen := congrArg List.length hl
        simp only [List.length_cons] at hlen
        split_ifs with g1 g2 g3 g4
        · simp only [Dec]; refine ⟨?_, ⟨h.eofRest, by intro e; simp at e, h.ind⟩⟩
          simp only [mu, base, A, E, lineW, kw, hs, hq, List.length_nil]; omega
        · simp only [Dec]; refine ⟨?_, ⟨h.eofRest, by intro e; simp at e, h.ind⟩⟩
          simp only [mu, base, A, E, lineW, kw, hs, hq, List.length_nil]; omega
        · simp only [Dec]; refine ⟨?_, ⟨h.eofRest, by intro e; simp at e, h.ind⟩⟩
          simp only [mu, base, A, E, lineW, kw, hs, hq, List.length_nil]; omega
        · -- backslash continuation: refill
          have he : s.eof = false := by simpa using g4
          have hb := refill_base_le s he
          have r3 := (refill_wt s he).2.2
          simp only [Dec]
          refine ⟨?_, ⟨?_, by intro e; simp at e, by simpa [refill_curIndent] using h.ind⟩⟩
          · simp only [wt, base, A, E, refill_line_eq, refill_rest_eq, refill_eof_eq, refill_exec, he] at hb
            simp only [mu, base, A, E, lineW, kw, hs, hq, List.length_nil, refill_queue, refill_stack, refill_line_eq, refill_rest_eq,
              refill_eof_eq, refill_exec, he] at hb ⊢
            cases hx : ((splitLine s.rest).1.getLast? != some '\n') <;> cases hy : s.exec <;> simp [hx, hy] at hb ⊢ <;> omega
          · simp only [refill_rest_eq, refill_eof_eq, he] at r3 ⊢
            exact r3
        · split
          · simp [Dec]
          · rename_i v r hr
            have := readNumber_lt _ _ _ hr
            try simp only [List.length_cons] at this
            simp only [Dec]; refine ⟨?_, ⟨h.eofRest, by intro e; simp at e, h.ind⟩⟩
            simp only [mu, base, A, E, lineW, kw, hs, hq, List.length_nil]; omega
          · split
            · simp [Dec]
            · rename_i v s' hr
              obtain ⟨a1, a2, a3⟩ := readStringTok_wt _ v s' (by exact h.eofRest) hr
              simp only [Dec]
              have hst : s'.state = LState.parseTokens := by have := a3.state; simpa [hs] using this
              have hq' : s'.queue = [] := by have := a3.queue; simpa [hq] using this
              have hst' : s'.stack = s.stack := by have := a3.stack; simpa using this
              have hcur : s'.curIndent = s.curIndent := by have := a3.cur; simpa using this
              refine ⟨?_, ⟨a2, by intro e; rw [hst] at e; simp at e, by rw [hcur]; exact h.ind⟩⟩
              simp only [wt, base, A, E] at a1
              simp only [mu, base, A, E, lineW, kw, hs, hq, List.length_nil, hst, hq', hst'] at a1 ⊢
              omega
            · split
              · rename_i t r hi
                have := readIdent_lt _ _ _ hi
                try simp only [List.length_cons] at this
                simp only [Dec]; refine ⟨?_, ⟨h.eofRest, by intro e; simp at e, h.ind⟩⟩
                simp only [mu, base, A, E, lineW, kw, hs, hq, List.length_nil]; omega
              · split
                · rename_i op r ho
                  obtain ⟨i, i1, _, i3, _, rfl, _⟩ := readOperator_spec _ _ _ ho
                  simp only [Dec]
                  refine ⟨?_, ⟨?_, ?_, ?_⟩⟩
                  · try simp only [List.length_cons] at i3
                    split <;> (simp only [mu, base, A, E, lineW, kw, hs, hq, List.length_nil, List.length_drop, List.length_cons]; omega)
                  · split <;> exact h.eofRest
                  · split <;> (intro e; simp at e)
                  · split <;> exact h.ind
                · simp [Dec]
    | checkEof =>
      simp only
      have hql := queueDedents_len s
      split_ifs with he hi
      · simp only [Dec]
        refine ⟨?_, ⟨by simpa [queueDedents] using h.eofRest, by intro e; simp at e, by simpa [queueDedents] using h.ind⟩⟩
        simp only [mu, base, lineW, kw, hs, queueDedents, dedents, A, E, hq, List.length_append, List.length_replicate, List.length_drop,
          List.length_cons, List.length_nil, List.nil_append] at hql ⊢
        omega
      · simp only [Dec]
        refine ⟨?_, ⟨by simpa [queueDedents] using h.eofRest, by intro e; simp at e, by simpa [queueDedents] using h.ind⟩⟩
        simp only [mu, base, lineW, kw, hs, queueDedents, dedents, A, E, hq, List.length_append, List.length_replicate, List.length_drop,
          List.length_cons, List.length_nil, List.nil_append] at hql ⊢
        omega
      · simp only [Dec]
        refine ⟨?_, ⟨h.eofRest, by intro _; simpa using he, h.ind⟩⟩
        simp only [mu, base, A, E, lineW, kw, hs, hq, List.length_nil]; omega
    | isEof => simp [Dec]

/-! ### the whole run -/

theorem runX_total : ∀ (f : Nat) (s : LexSt) (out : List Tok), C06.Inv s out → J s → mu s < f →
    (∃ ts, runX f s out = .ok ts) ∨ runX f s out = .syntaxError := by
  intro f
  induction f with
  | zero => intro s out _ _ h; omega
  | succ f ih =>
    intro s out hi hj hm
    have hg := step_good s out hi
    have hd := step_dec s hj
    unfold runX stepX
    rw [countIndentPanics_false s hj.ind, internalAt_none s hi.ne]
    simp only [Bool.false_eq_true, if_false]
    cases hr : (step s).2 with
    | cont =>
      simp only [C06.Good, hr] at hg
      simp only [Dec, hr] at hd
      exact ih _ _ hg hd.2 (by omega)
    | emit t =>
      simp only [C06.Good, hr] at hg
      simp only [Dec, hr] at hd
      exact ih _ _ hg hd.2 (by omega)
    | stop =>
      simp only
      split_ifs
      · right; rfl
      · left; exact ⟨_, rfl⟩

theorem initLex_J (input : List Char) (mode : Mode) : J (initLex input mode) :=
  ⟨by intro e; simp [initLex] at e, by intro _; rfl, by intro c hc; simp [initLex] at hc⟩

theorem initLex_mu (input : List Char) (mode : Mode) : mu (initLex input mode) < lexFuel input := by
  simp only [mu, base, A, E, lineW, kw, initLex, lexFuel, List.length_cons, List.length_nil]
  cases mode <;> simp

end GPy.C11
