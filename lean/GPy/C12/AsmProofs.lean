/-
C12 proofs about the assembler model (`GPy.C12.Assemble`): a resolving pass that reports
"no change" leaves a stream whose positions are the running sums of sizes, whose labels hold
their store position and whose jumps are resolved against the final label store.
-/
import GPy.C12.Assemble
namespace GPy.C12
open Generated

theorem setL_same (lpos : Nat → Nat) (id addr : Nat) (h : lpos id = addr) :
    setL lpos id addr = lpos := by
  funext j
  simp only [setL]
  split
  · subst_vars; rfl
  · rfl

/-- one item: new position is `addr` -/
theorem passItem_pos (r : Bool) (it : Item) (addr : Nat) (lpos : Nat → Nat)
    (it' : Item) (pc : Bool) (lpos' : Nat → Nat)
    (h : passItem r it addr lpos = .ok (it', pc, lpos')) : it'.2 = addr := by
  obtain ⟨i, p⟩ := it
  cases i <;> simp only [passItem] at h
  case op o => cases h; rfl
  case oparg o a => cases h; rfl
  case label id => cases h; rfl
  case jabs o a d => cases h; rfl
  case jrel o a d =>
    split at h
    · split at h
      · cases h
      · split at h
        · cases h
        · cases h; rfl
    · cases h; rfl

/-- (b) positions of the output of ANY successful pass are the running sums -/
theorem passGo_offsets (r : Bool) (is : List Item) (addr : Nat) (ch : Bool) (lpos : Nat → Nat)
    (out : PassOut) (h : passGo r is addr ch lpos = .ok out) : Offsets out.items addr := by
  induction is generalizing addr ch lpos out with
  | nil =>
    simp only [passGo] at h
    cases h
    simp [Offsets]
  | cons it rest ih =>
    simp only [passGo] at h
    split at h
    · cases h
    · rename_i it' pc lpos' hit
      split at h
      · cases h
      · rename_i out' hrest
        cases h
        have hp := passItem_pos r it addr lpos it' pc lpos' hit
        obtain ⟨i', p'⟩ := it'
        simp only [Offsets]
        exact ⟨hp, ih _ _ _ _ hrest⟩

/-- one item of a resolving pass whose position did not change -/
theorem passItem_unchanged (it : Item) (addr : Nat) (lpos : Nat → Nat)
    (it' : Item) (lpos' : Nat → Nat)
    (h : passItem true it addr lpos = .ok (it', false, lpos')) :
    lpos' = lpos ∧
    (∀ id p, it' = (AInstr.label id, p) → lpos id = p) ∧
    (∀ o a d p, it' = (AInstr.jabs o a d, p) → a = lpos d) ∧
    (∀ o a d p, it' = (AInstr.jrel o a d, p) → wrap32 (p + argSize a) + a = lpos d) := by
  obtain ⟨i, p⟩ := it
  cases i <;> simp only [passItem] at h
  case op o =>
    injection h with h; injection h with h1 h2; injection h2 with h2 h3
    subst h1 h3
    refine ⟨rfl, ?_, ?_, ?_⟩ <;> intros <;> rename_i he <;> cases he
  case oparg o a =>
    injection h with h; injection h with h1 h2; injection h2 with h2 h3
    subst h1 h3
    refine ⟨rfl, ?_, ?_, ?_⟩ <;> intros <;> rename_i he <;> cases he
  case label id =>
    injection h with h; injection h with h1 h2; injection h2 with h2 h3
    have hid : lpos id = addr := by simpa using h2
    subst h1 h3
    refine ⟨setL_same lpos id addr hid, ?_, ?_, ?_⟩
    · intro id' p' he; cases he; exact hid
    · intro o a d p' he; cases he
    · intro o a d p' he; cases he
  case jabs o a d =>
    injection h with h; injection h with h1 h2; injection h2 with h2 h3
    subst h1 h3
    refine ⟨rfl, ?_, ?_, ?_⟩
    · intro id' p' he; cases he
    · intro o' a' d' p' he; cases he; simp
    · intro o' a' d' p' he; cases he
  case jrel o a d =>
    simp only [if_true] at h
    split at h
    · cases h
    · rename_i hlt
      split at h
      · cases h
      · rename_i hsz
        injection h with h; injection h with h1 h2; injection h2 with h2 h3
        subst h1 h3
        refine ⟨rfl, ?_, ?_, ?_⟩
        · intro id' p' he; cases he
        · intro o' a' d' p' he; cases he
        · intro o' a' d' p' he
          cases he
          have hsz' : argSize (lpos d - wrap32 (addr + argSize a)) = argSize a := by
            simpa using hsz
          rw [hsz']
          omega

/-- generalised fixpoint lemma: arbitrary start address and incoming `changed` flag -/
theorem passGo_fixpoint_aux (is : List Item) (addr : Nat) (ch : Bool) (lpos : Nat → Nat)
    (out : PassOut) (h : passGo true is addr ch lpos = .ok out) (hc : out.changed = false) :
    ch = false ∧ out.lpos = lpos ∧ LabelsAt out.items lpos ∧ JumpsResolved out.items lpos := by
  induction is generalizing addr ch lpos out with
  | nil =>
    simp only [passGo] at h
    cases h
    refine ⟨hc, rfl, ?_, ?_, ?_⟩
    · intro id p hm; cases hm
    · intro o a d p hm; cases hm
    · intro o a d p hm; cases hm
  | cons it rest ih =>
    simp only [passGo] at h
    split at h
    · cases h
    · rename_i it' pc lpos' hit
      split at h
      · cases h
      · rename_i out' hrest
        cases h
        simp only at hc ⊢
        obtain ⟨hch, hl, hlab, hjabs, hjrel⟩ := ih _ _ _ _ hrest hc
        have hch' : ch = false ∧ pc = false := by
          simpa [Bool.or_eq_false_iff] using hch
        obtain ⟨hch1, hpc⟩ := hch'
        subst hpc
        obtain ⟨hl', h1, h2, h3⟩ := passItem_unchanged it addr lpos it' lpos' hit
        subst hl'
        refine ⟨hch1, hl, ?_, ?_, ?_⟩
        · intro id p hm
          rcases List.mem_cons.mp hm with he | hm'
          · exact h1 id p he.symm
          · exact hlab id p hm'
        · intro o a d p hm
          rcases List.mem_cons.mp hm with he | hm'
          · exact h2 o a d p he.symm
          · exact hjabs o a d p hm'
        · intro o a d p hm
          rcases List.mem_cons.mp hm with he | hm'
          · exact h3 o a d p he.symm
          · exact hjrel o a d p hm'

/-- 1. a resolving pass reporting "no change" yields a fully laid out, resolved stream -/
theorem passGo_fixpoint (is : List Item) (lpos : Nat → Nat) (out : PassOut)
    (h : passGo true is 0 false lpos = .ok out) (hc : out.changed = false) :
    Offsets out.items 0 ∧ LabelsAt out.items out.lpos ∧ JumpsResolved out.items out.lpos := by
  obtain ⟨_, hl, hlab, hj⟩ := passGo_fixpoint_aux is 0 false lpos out h hc
  rw [hl]
  exact ⟨passGo_offsets true is 0 false lpos out h, hlab, hj⟩

/-- 2. the same for `pass n`, `n > 0` -/
theorem pass_fixpoint (n : Nat) (hn : n > 0) (is : List Item) (lpos : Nat → Nat) (out : PassOut)
    (h : pass n is lpos = .ok out) (hc : out.changed = false) :
    Offsets out.items 0 ∧ LabelsAt out.items out.lpos ∧ JumpsResolved out.items out.lpos := by
  unfold pass at h
  have hd : decide (n > 0) = true := by simpa using hn
  rw [hd] at h
  exact passGo_fixpoint is lpos out h hc

/-- 3. when the assemble loop stops at a pass index `k > 0`, the result is laid out and resolved -/
theorem assembleLoop_sound (fuel i : Nat) (is : List Item) (lpos : Nat → Nat) (k : Nat)
    (out : PassOut) (h : assembleLoop fuel i is lpos = .ok (k, out)) (hk : k > 0) :
    Offsets out.items 0 ∧ LabelsAt out.items out.lpos ∧ JumpsResolved out.items out.lpos := by
  induction fuel generalizing i is lpos with
  | zero => simp only [assembleLoop] at h; cases h
  | succ fuel ih =>
    simp only [assembleLoop] at h
    split at h
    · cases h
    · rename_i out' hp
      split at h
      · exact ih _ _ _ h
      · rename_i hch
        injection h with h; injection h with h1 h2
        subst h1 h2
        exact pass_fixpoint i hk is lpos out' hp (by simpa using hch)

/-- the loop never stops at index `k` smaller than its start index -/
theorem assembleLoop_index_ge (fuel i : Nat) (is : List Item) (lpos : Nat → Nat) (k : Nat)
    (out : PassOut) (h : assembleLoop fuel i is lpos = .ok (k, out)) :
    i ≤ k ∧ out.changed = false := by
  induction fuel generalizing i is lpos with
  | zero => simp only [assembleLoop] at h; cases h
  | succ fuel ih =>
    simp only [assembleLoop] at h
    split at h
    · cases h
    · rename_i out' hp
      split at h
      · have := ih _ _ _ h
        exact ⟨by omega, this.2⟩
      · rename_i hch
        injection h with h; injection h with h1 h2
        subst h1 h2
        exact ⟨Nat.le_refl _, by simpa using hch⟩

/-- 4a. an absolute jump whose label is in the stream targets that label's position -/
theorem jabs_target_is_label_offset (items : List Item) (lpos : Nat → Nat)
    (hl : LabelsAt items lpos) (hj : JumpsResolved items lpos) (o : Op) (a d p : Nat)
    (hm : (AInstr.jabs o a d, p) ∈ items) (hd : ∃ q, (AInstr.label d, q) ∈ items) :
    (AInstr.label d, a) ∈ items := by
  obtain ⟨q, hq⟩ := hd
  have h1 : a = lpos d := hj.1 o a d p hm
  have h2 : lpos d = q := hl d q hq
  rw [h1, h2]
  exact hq

/-- 4b. a relative jump whose label is in the stream targets that label's position -/
theorem jrel_target_is_label_offset (items : List Item) (lpos : Nat → Nat)
    (hl : LabelsAt items lpos) (hj : JumpsResolved items lpos) (o : Op) (a d p : Nat)
    (hm : (AInstr.jrel o a d, p) ∈ items) (hd : ∃ q, (AInstr.label d, q) ∈ items) :
    (AInstr.label d, wrap32 (p + argSize a) + a) ∈ items := by
  obtain ⟨q, hq⟩ := hd
  have h1 : wrap32 (p + argSize a) + a = lpos d := hj.2 o a d p hm
  have h2 : lpos d = q := hl d q hq
  rw [h1, h2]
  exact hq

/-! ### 5. no wrap-around below 2^32 -/

def sizeSum : List Item → Nat
  | [] => 0
  | it :: rest => it.1.size + sizeSum rest

theorem sizeSum_append (xs ys : List Item) : sizeSum (xs ++ ys) = sizeSum xs + sizeSum ys := by
  induction xs with
  | nil => simp [sizeSum]
  | cons x xs ih => simp only [List.cons_append, sizeSum, ih]; omega

theorem offsets_no_wrap_aux (pre : List Item) (it : Item) (post : List Item) (addr : Nat)
    (ho : Offsets (pre ++ it :: post) addr)
    (hs : addr + sizeSum (pre ++ it :: post) < 4294967296) :
    it.2 = addr + sizeSum pre := by
  induction pre generalizing addr with
  | nil =>
    obtain ⟨i, p⟩ := it
    simp only [List.nil_append, Offsets] at ho
    simp [sizeSum, ho.1]
  | cons x pre ih =>
    obtain ⟨xi, xp⟩ := x
    simp only [List.cons_append, Offsets] at ho
    simp only [List.cons_append, sizeSum] at hs
    have hw : wrap32 (addr + xi.size) = addr + xi.size := by
      unfold wrap32
      exact Nat.mod_eq_of_lt (by omega)
    have := ih (wrap32 (addr + xi.size)) ho.2 (by rw [hw]; omega)
    rw [this, hw]
    simp only [sizeSum]
    omega

/-- if the total size stays below 2^32, positions are the true (unwrapped) prefix sums -/
theorem offsets_no_wrap (items : List Item) (ho : Offsets items 0)
    (hs : sizeSum items < 4294967296) :
    ∀ pre it post, items = pre ++ it :: post → it.2 = sizeSum pre := by
  intro pre it post he
  subst he
  have := offsets_no_wrap_aux pre it post 0 ho (by omega)
  omega


/-- `len(instr.Output()) = instr.Size()` -/
theorem output_length (i : AInstr) : i.output.length = i.size := by
  cases i <;> simp only [AInstr.output, AInstr.size, argSize] <;> (try rfl) <;>
    (split <;> split <;> simp <;> omega)

theorem sizeSum_eq_output_length (xs : List Item) : sizeSum xs = (xs.flatMap (fun x => x.1.output)).length := by
  induction xs with
  | nil => rfl
  | cons x xs ih => simp [sizeSum, List.flatMap_cons, output_length, ih]

/-! ### non-vacuity -/

/-- a tiny stream: forward absolute jump over one instruction -/
def demo : List AInstr :=
  [.jabs .JUMP_ABSOLUTE 0 1, .op .POP_TOP, .label 1, .op .RETURN_VALUE]

example : assemble demo = .ok [113, 4, 0, 1, 83] := by rfl

/-- decidable projection of the loop result (drops the label store, a function) -/
def loopView (is : List AInstr) : Except String (Nat × List Item × Bool) :=
  match assembleLoop 10 0 (fresh is) (fun _ => 0) with
  | .error e => .error e
  | .ok (k, o) => .ok (k, o.items, o.changed)

theorem loopView_demo : loopView demo = .ok (1,
    [(.jabs .JUMP_ABSOLUTE 4 1, 0), (.op .POP_TOP, 3), (.label 1, 4), (.op .RETURN_VALUE, 4)],
    false) := by rfl

theorem loopView_of_ok (is : List AInstr) (k : Nat) (out : PassOut)
    (h : assembleLoop 10 0 (fresh is) (fun _ => 0) = .ok (k, out)) :
    loopView is = .ok (k, out.items, out.changed) := by
  simp only [loopView, h]

/-- the hypotheses of `assembleLoop_sound` are satisfiable with `k > 0` -/
example : ∃ k out, assembleLoop 10 0 (fresh demo) (fun _ => 0) = .ok (k, out) ∧ k > 0 := by
  cases h : assembleLoop 10 0 (fresh demo) (fun _ => 0) with
  | error e =>
    have hv : loopView demo = .error e := by simp only [loopView, h]
    rw [loopView_demo] at hv
    cases hv
  | ok r =>
    obtain ⟨k, out⟩ := r
    have hv := loopView_of_ok demo k out h
    refine ⟨k, out, rfl, ?_⟩
    rw [loopView_demo] at hv
    injection hv with hv; injection hv with hk _
    omega

/-- ... and so the conclusion of `assembleLoop_sound` holds for the demo stream -/
example : ∀ k out, assembleLoop 10 0 (fresh demo) (fun _ => 0) = .ok (k, out) →
    Offsets out.items 0 ∧ LabelsAt out.items out.lpos ∧ JumpsResolved out.items out.lpos := by
  intro k out h
  have hv := loopView_of_ok demo k out h
  rw [loopView_demo] at hv
  injection hv with hv; injection hv with hk _
  exact assembleLoop_sound 10 0 _ _ k out h (by omega)

/-- a relative jump and a backward absolute jump -/
def demo2 : List AInstr :=
  [.label 0, .jrel .JUMP_FORWARD 0 1, .op .POP_TOP, .label 1, .jabs .JUMP_ABSOLUTE 0 0]

example : assemble demo2 = .ok [110, 1, 0, 1, 113, 0, 0] := by rfl

example : loopView demo2 = .ok (1,
    [(.label 0, 0), (.jrel .JUMP_FORWARD 1 1, 0), (.op .POP_TOP, 3), (.label 1, 4),
     (.jabs .JUMP_ABSOLUTE 0 0, 4)], false) := by rfl

/-- the spec predicates are satisfiable on a stream containing every kind of item -/
example : Offsets [(.label 0, 0), (.jrel .JUMP_FORWARD 1 1, 0), (.op .POP_TOP, 3), (.label 1, 4),
     (.jabs .JUMP_ABSOLUTE 0 0, 4)] 0 := by
  simp [Offsets, AInstr.size, argSize, wrap32]

/-- a relative jump to a label behind it (or to a label never placed) is the Go panic -/
example : assemble [.label 1, .op .POP_TOP, .jrel .JUMP_FORWARD 0 1]
    = .error "JUMP_FORWARD can't jump backwards" := by rfl

/-- `offsets_no_wrap` is not vacuous -/
example : sizeSum [(.jabs .JUMP_ABSOLUTE 4 1, 0), (.op .POP_TOP, 3), (.label 1, 4),
    (.op .RETURN_VALUE, 4)] = 5 := by rfl

end GPy.C12
