/-
C12 model of the assembler (core Lean only): `compile/instructions.go`
`Instructions.Pass`, `Instructions.Assemble`, `Op/OpArg/Label/JumpAbs/JumpRel`
(`Size`, `Output`, `SetPos`, `Resolve`) and `stackDepthWalk` / `StackDepth`.

The Go stream is a slice of pointers to mutable instruction objects; each object
carries its own `pos.p` (uint32).  A `*Label` object is shared between the stream
(where `c.Label(l)` puts it) and the jumps whose `Dest` it is, so label positions
live in a store `lpos : label id → position` (a label that was never added to the
stream keeps position 0 – the FIXME at the top of instructions.go).  Every other
object occurs once in the stream and carries its position beside it.
uint32 arithmetic is modelled with explicit `wrap32`.
-/
import GPy.C12.Generated
namespace GPy.C12
open Generated

def wrap32 (n : Nat) : Nat := n % 4294967296

/-- the five instruction types of compile/instructions.go -/
inductive AInstr
  | op (o : Op)                              -- *Op
  | oparg (o : Op) (arg : Nat)               -- *OpArg
  | label (id : Nat)                         -- *Label
  | jabs (o : Op) (arg : Nat) (dest : Nat)   -- *JumpAbs  (Dest = label id)
  | jrel (o : Op) (arg : Nat) (dest : Nat)   -- *JumpRel
deriving Repr, DecidableEq, Inhabited

/-- OpArg.Size: 3 bytes, 6 with an EXTENDED_ARG prefix -/
def argSize (arg : Nat) : Nat := if arg ≤ 0xFFFF then 3 else 6

/-- Instruction.Size() -/
def AInstr.size : AInstr → Nat
  | .op _ => 1
  | .label _ => 0
  | .oparg _ a => argSize a
  | .jabs _ a _ => argSize a
  | .jrel _ a _ => argSize a

/-- an instruction object together with its `pos.p` -/
abbrev Item := AInstr × Nat

/-- result of one `Pass` -/
structure PassOut where
  items : List Item          -- the stream after the pass (new positions, resolved operands)
  changed : Bool
  lpos : Nat → Nat           -- label positions after the pass
  addr : Nat                 -- `addr` after the loop (total size, mod 2^32)

def setL (lpos : Nat → Nat) (id p : Nat) : Nat → Nat := fun j => if j = id then p else lpos j

/-- the body of `for i, instr := range is` in `Instructions.Pass(pass)`, `resolve = (pass > 0)`:
`SetPos`, `Resolve` (may panic), `addr += instr.Size()`.  Returns the updated object,
whether its position changed, and the label store. -/
def passItem (resolve : Bool) (it : Item) (addr : Nat) (lpos : Nat → Nat) : Except String (Item × Bool × (Nat → Nat)) :=
  match it with
  | (.op o, p) => .ok ((.op o, addr), p != addr, lpos)
  | (.oparg o a, p) => .ok ((.oparg o a, addr), p != addr, lpos)
  | (.label id, _) => .ok ((.label id, addr), lpos id != addr, setL lpos id addr)
  | (.jabs o a d, p) =>
    -- JumpAbs.Resolve: o.OpArg.Arg = o.Dest.Pos()
    let a' := if resolve then lpos d else a
    .ok ((.jabs o a' d, addr), p != addr, lpos)
  | (.jrel o a d, p) =>
    if resolve then
      let currentSize := argSize a
      let currentPos := wrap32 (addr + currentSize)
      if lpos d < currentPos then .error "JUMP_FORWARD can't jump backwards"
      else
        let a' := lpos d - currentPos
        if argSize a' ≠ currentSize then .error "FIXME compile: JUMP_FOWARDS size changed"
        else .ok ((.jrel o a' d, addr), p != addr, lpos)
    else .ok ((.jrel o a d, addr), p != addr, lpos)

/-- `Instructions.Pass`: left-to-right over the stream -/
def passGo (resolve : Bool) : List Item → Nat → Bool → (Nat → Nat) → Except String PassOut
  | [], addr, ch, lpos => .ok ⟨[], ch, lpos, addr⟩
  | it :: rest, addr, ch, lpos =>
    match passItem resolve it addr lpos with
    | .error e => .error e
    | .ok (it', posChanged, lpos') =>
      match passGo resolve rest (wrap32 (addr + it'.1.size)) (ch || posChanged) lpos' with
      | .error e => .error e
      | .ok out => .ok { out with items := it' :: out.items }

def pass (passNo : Nat) (is : List Item) (lpos : Nat → Nat) : Except String PassOut :=
  passGo (decide (passNo > 0)) is 0 false lpos

/-- `Instructions.Assemble`'s loop: `for i := 0; i < 10; i++ { if !is.Pass(i) goto done }; panic` -/
def assembleLoop : Nat → Nat → List Item → (Nat → Nat) → Except String (Nat × PassOut)
  | 0, _, _, _ => .error "Failed to assemble after 10 passes"
  | fuel + 1, i, is, lpos =>
    match pass i is lpos with
    | .error e => .error e
    | .ok out => if out.changed then assembleLoop fuel (i + 1) out.items out.lpos else .ok (i, out)

/-- Output() of one instruction -/
def AInstr.output : AInstr → List Nat
  | .op o => [Op.toNat o]
  | .label _ => []
  | .oparg o a | .jabs o a _ | .jrel o a _ =>
    let base := [Op.toNat o, a % 256, (a / 256) % 256]
    if a > 0xFFFF then [Op.toNat .EXTENDED_ARG, (a / 65536) % 256, (a / 16777216) % 256] ++ base else base

/-- a freshly built stream: every `pos` is zero -/
def fresh (is : List AInstr) : List Item := is.map (fun i => (i, 0))

/-- `Instructions.Assemble` on a fresh stream: the byte string, or the panic message -/
def assemble (is : List AInstr) : Except String (List Nat) :=
  match assembleLoop 10 0 (fresh is) (fun _ => 0) with
  | .error e => .error e
  | .ok (_, out) => .ok (out.items.flatMap (fun it => it.1.output))

/-! ### what a finished assembly must satisfy (the specification side) -/

/-- positions are the running sum (mod 2^32, as the Go code computes it) of the sizes -/
def Offsets : List Item → Nat → Prop
  | [], _ => True
  | (i, p) :: rest, addr => p = addr ∧ Offsets rest (wrap32 (addr + i.size))

/-- every label object in the stream holds the position the store has for it -/
def LabelsAt (items : List Item) (lpos : Nat → Nat) : Prop :=
  ∀ id p, (AInstr.label id, p) ∈ items → lpos id = p

/-- every jump operand is resolved against the label store: absolute jumps hold the label's
position, relative jumps the distance from the end of the jump instruction -/
def JumpsResolved (items : List Item) (lpos : Nat → Nat) : Prop :=
  (∀ o a d p, (AInstr.jabs o a d, p) ∈ items → a = lpos d) ∧
  (∀ o a d p, (AInstr.jrel o a d, p) ∈ items → wrap32 (p + argSize a) + a = lpos d)

/-! ### `stackDepthWalk` / `StackDepth` -/

/-- Instruction.StackEffect(): `opcodeStackEffect(op, arg)`; a label has effect 0;
`none` = the panicking default of the table -/
def AInstr.effect : AInstr → Option Int
  | .op o => opcodeStackEffect o 0
  | .label _ => some 0
  | .oparg o a | .jabs o a _ | .jrel o a _ => opcodeStackEffect o a

def AInstr.jump? : AInstr → Option (Op × Nat)
  | .jabs o _ d | .jrel o _ d => some (o, d)
  | _ => none

/-- mutable maps of the walk: `seen` (blocks on the recursion stack) and `startDepth` -/
structure WalkSt where
  seen : List Nat
  startDepth : List (Nat × Int)
  maxdepth : Int
deriving Repr

def WalkSt.start? (w : WalkSt) (n : Nat) : Option Int := (w.startDepth.find? (·.1 == n)).map (·.2)
def WalkSt.setStart (w : WalkSt) (n : Nat) (d : Int) : WalkSt :=
  { w with startDepth := (n, d) :: w.startDepth.filter (·.1 != n) }

/-- index of the label object `id` in the stream (`dest.Number()`), `none` if it was never added
(Go: Number() is then 0 – the FIXME; the model reports it instead) -/
def labelIndex (is : Array AInstr) (id : Nat) : Option Nat :=
  (List.range is.size).find? (fun k => is[k]! == .label id)

mutual
/-- `stackDepthWalk(baseIs[start:], …, depth, maxdepth)`.  Fuel-bounded (the Go recursion is
bounded by `seen`/`startDepth`); `none` = a Go panic ("Stack depth negative", "Unknown opcode in
StackEffect"), a jump to a label that is not in the stream, or fuel exhausted. -/
def stackDepthWalk (is : Array AInstr) : Nat → Nat → Int → WalkSt → Option WalkSt
  | 0, _, _, _ => none
  | fuel + 1, start, depth, w =>
    if start ≥ is.size then some w                       -- len(is) == 0
    else if w.seen.contains start then some w            -- "We are processing this block already"
    else if (match w.start? start with | some d => decide (d ≥ depth) | none => false) then some w
    else
      match walkLoop is fuel start depth { (w.setStart start depth) with seen := start :: w.seen } with
      | none => none
      | some w' => some { w' with seen := w'.seen.erase start }   -- out: seen[start] = false

/-- the `for _, instr := range is` loop of the walk, at stream index `k` -/
def walkLoop (is : Array AInstr) : Nat → Nat → Int → WalkSt → Option WalkSt
  | 0, _, _, _ => none
  | fuel + 1, k, depth, w =>
    match is[k]? with
    | none => some w
    | some instr =>
      match instr.effect with
      | none => none                                     -- panic("Unknown opcode in StackEffect")
      | some e =>
        let depth := depth + e
        let w := { w with maxdepth := max w.maxdepth depth }
        if depth < 0 then none else                      -- panic("Stack depth negative")
        match instr.jump? with
        | none => walkLoop is fuel (k + 1) depth w
        | some (opcode, dest) =>
          let targetDepth : Int :=
            if opcode = .FOR_ITER then depth - 2
            else if opcode = .SETUP_FINALLY ∨ opcode = .SETUP_EXCEPT then depth + 3
            else depth
          let w := if opcode = .SETUP_FINALLY ∨ opcode = .SETUP_EXCEPT then { w with maxdepth := max w.maxdepth targetDepth } else w
          let depth := if opcode = .JUMP_IF_TRUE_OR_POP ∨ opcode = .JUMP_IF_FALSE_OR_POP then depth - 1 else depth
          match labelIndex is dest with
          | none => none
          | some n =>
            match stackDepthWalk is fuel n targetDepth w with
            | none => none
            | some w =>
              if opcode = .JUMP_ABSOLUTE ∨ opcode = .JUMP_FORWARD then some w   -- remaining code is dead
              else walkLoop is fuel (k + 1) depth w
end

/-- `Instructions.StackDepth()` -/
def stackDepth (is : List AInstr) : Option Int :=
  let a := is.toArray
  (stackDepthWalk a (4 * (a.size + 2) * (a.size + 2) + 64) 0 0 ⟨[], [], 0⟩).map (·.maxdepth)

end GPy.C12
