/-
C12 / compile_wellformed: length of the code `compS` emits (same proof as GPy.C02.compS_length in
C02/Sim.lean, repeated here so that the C12 files do not depend on C02's simulation proof).
-/
import GPy.C12.Compile
namespace GPy.C12
open GPy.C02

theorem classesExpr_length (m : Matcher) :
    (classesExpr m).length = (if m.classes.length = 1 then 1 else m.classes.length + 1) := by
  unfold classesExpr
  match hm : m.classes with
  | [] => simp
  | [c] => simp
  | c :: d :: r => simp

theorem compHandler_length (m : Matcher) (pc cur : Nat) (body : C02.Code) (bl endL : Nat) :
    (compHandler m pc cur body bl endL).length = handlerLen m body.length := by
  unfold compHandler handlerLen
  by_cases hn : m.named
  · simp [hn, classesExpr_length]; omega
  · simp [hn, classesExpr_length]; omega

theorem compS_length : ∀ (s : Stmt) (ctx : Ctx) (pc cur : Nat), (compS ctx pc cur s).length = len s := by
  intro s
  induction s with
  | skip => intros; rfl
  | pass => intros; rfl
  | ev => intros; rfl
  | ret => intros; rfl
  | yieldS => intros; rfl
  | raise => intros; rfl
  | reraise => intros; rfl
  | raiseX ln fm => intro ctx pc cur; cases fm <;> rfl
  | brk => intros; rfl
  | cont ln =>
    intro ctx pc cur
    unfold compS
    cases contInstr ctx <;> rfl
  | seq a b iha ihb => intro ctx pc cur; simp [compS, len, iha, ihb]
  | ifS ln i b o ihb iho => intro ctx pc cur; simp [compS, len, callProbe, ihb, iho]; omega
  | whileS ln i b o ihb iho => intro ctx pc cur; simp [compS, len, callProbe, ihb, iho]; omega
  | forS ln i b o ihb iho => intro ctx pc cur; simp [compS, len, callProbe, ihb, iho]; omega
  | tryF ln b f ihb ihf => intro ctx pc cur; simp [compS, len, ihb, ihf]; omega
  | tryE ln b m1 h1 m2 h2 o ihb ih1 ih2 iho =>
    intro ctx pc cur
    cases m2 with
    | none => simp [compS, len, compHandler_length, ihb, ih1, iho]; omega
    | some m => simp [compS, len, compHandler_length, ihb, ih1, ih2, iho]; omega
  | withS ln i b ihb => intro ctx pc cur; simp [compS, len, callProbe, ihb]; omega

end GPy.C12
