/-
C12 / compile_wellformed (core Lean only): the bridge from the C02 compile model to the C12 machine.

`GPy.C02.compS` / `compileFn` (lean/GPy/C02/Model.lean, tied to the real compiler by C02's own
check, which compares the disassembled instruction list of `compile.Compile` with it) emit an
INDEX-level instruction list (`GPy.C02.Code`, jump operands are instruction indices).
`lower` turns such a list into the BYTE-level `GPy.C12.Code` that the C12 abstract machine
(`step`, `execI`, `unwind`) runs - the mapping `Instructions.Assemble` performs for operands
≤ 0xFFFF (`assemble_fixpoint_sound` is the theorem about that function):

* an instruction with an operand is 3 bytes `op lo hi`, one without is 1 byte;
* `off k` = byte offset of instruction `k` = running sum of the sizes;
* absolute jumps (JUMP_ABSOLUTE, POP_JUMP_IF_FALSE, CONTINUE_LOOP) get the operand `off t`,
  relative ones (JUMP_FORWARD, SETUP_*, FOR_ITER) `off t - off (k+1)` (and `lower` fails when the
  target is behind the instruction: `JumpRel.Resolve` panics "can't jump backwards");
* `lower` fails when an operand exceeds 0xFFFF (EXTENDED_ARG territory is the assembler's business);
* names / constants / local variables index FIXED canonical tables (`globIdx`, `constIdx`, `varIdx`) -
  the real compiler numbers them by first use; the C12 machine only reads `operandOk`, i.e. "index
  inside its table", so the numbering is immaterial to it.
-/
import GPy.C02.Model
import GPy.C12.Spec
namespace GPy.C12
open Generated

/-- the operand of a lowered instruction -/
inductive Opnd
  | none                -- no operand: 1 byte
  | imm (n : Nat)       -- immediate / table index
  | abs (t : Nat)       -- absolute jump to instruction index `t`
  | rel (t : Nat)       -- relative jump to instruction index `t`
deriving DecidableEq, Repr

def clsIdx : C02.Cls → Nat
  | .BaseException => 0 | .Exception => 1 | .LookupError => 2 | .KeyError => 3 | .IndexError => 4
  | .ArithmeticError => 5 | .ZeroDivisionError => 6 | .OverflowError => 7 | .ValueError => 8
  | .KeyboardInterrupt => 9 | .RuntimeError => 10 | .TypeError => 11

/-- index into the canonical name table `ev it cm f <12 exception classes>` -/
def globIdx : C02.Glob → Nat
  | .fn .ev => 0 | .fn .it => 1 | .fn .cm => 2 | .fn .user => 3
  | .cls c => 4 + clsIdx c

def nNames : Nat := 16

/-- canonical constant table `[None, <an int>]` -/
def constIdx : C02.Const → Nat
  | .none => 0
  | .int _ => 1

/-- canonical local-variable table `[x, <any other name>]` -/
def varIdx (v : String) : Nat := if v = "x" then 0 else 1

def nVars : Nat := 2

/-- opcode and operand of an index-level instruction -/
def opOf : C02.Instr → Op × Opnd
  | .loadGlobal g => (.LOAD_GLOBAL, .imm (globIdx g))
  | .loadConst k => (.LOAD_CONST, .imm (constIdx k))
  | .callFunction n => (.CALL_FUNCTION, .imm n)
  | .popTop => (.POP_TOP, .none)
  | .dupTop => (.DUP_TOP, .none)
  | .popJumpIfFalse t => (.POP_JUMP_IF_FALSE, .abs t)
  | .jumpForward t => (.JUMP_FORWARD, .rel t)
  | .jumpAbsolute t => (.JUMP_ABSOLUTE, .abs t)
  | .setupLoop t => (.SETUP_LOOP, .rel t)
  | .setupExcept t => (.SETUP_EXCEPT, .rel t)
  | .setupFinally t => (.SETUP_FINALLY, .rel t)
  | .setupWith t => (.SETUP_WITH, .rel t)
  | .popBlock => (.POP_BLOCK, .none)
  | .popExcept => (.POP_EXCEPT, .none)
  | .endFinally => (.END_FINALLY, .none)
  | .withCleanup => (.WITH_CLEANUP, .none)
  | .breakLoop => (.BREAK_LOOP, .none)
  | .continueLoop t => (.CONTINUE_LOOP, .abs t)
  | .yieldValue => (.YIELD_VALUE, .none)   -- C02 round ext2: generator frames (outside the fragment of compile_wellformed_partial)
  | .getIter => (.GET_ITER, .none)
  | .forIter t => (.FOR_ITER, .rel t)
  | .storeFast v => (.STORE_FAST, .imm (varIdx v))
  | .deleteFast v => (.DELETE_FAST, .imm (varIdx v))
  | .compareExcMatch => (.COMPARE_OP, .imm 10)
  | .buildTuple n => (.BUILD_TUPLE, .imm n)
  | .raiseVarargs n => (.RAISE_VARARGS, .imm n)
  | .returnValue => (.RETURN_VALUE, .none)

/-- `Instruction.Size()` for operands ≤ 0xFFFF -/
def isz (i : C02.Instr) : Nat :=
  match (opOf i).2 with
  | .none => 1
  | _ => 3

/-- byte offset of instruction `k` of the list (`Instructions.Pass`: running sum of sizes);
for `k ≥ length` the total size -/
def offL : List (C02.Instr × Nat) → Nat → Nat
  | [], _ => 0
  | _ :: _, 0 => 0
  | i :: is, k + 1 => isz i.1 + offL is k

/-- the numeric operand of instruction `k`, given the offset function; `none` = the assembler panics
("can't jump backwards") -/
def argOf (off : Nat → Nat) (k : Nat) : Opnd → Option (Option Nat)
  | .none => some none
  | .imm n => some (some n)
  | .abs t => some (some (off t))
  | .rel t => if off (k + 1) ≤ off t then some (some (off t - off (k + 1))) else none

/-- `Instruction.Output()` without EXTENDED_ARG: fails above 0xFFFF -/
def encode (op : Op) : Option Nat → Option (List Nat)
  | none => some [Op.toNat op]
  | some a => if a ≤ 0xFFFF then some [Op.toNat op, a % 256, a / 256] else none

def lowerGo (off : Nat → Nat) : Nat → List (C02.Instr × Nat) → Option (List Nat)
  | _, [] => some []
  | k, i :: is =>
    match argOf off k (opOf i.1).2 with
    | none => none
    | some a =>
      match encode (opOf i.1).1 a with
      | none => none
      | some bs =>
        match lowerGo off (k + 1) is with
        | none => none
        | some rest => some (bs ++ rest)

/-- the byte-level code object of an index-level instruction list, with the declared `stacksize` -/
def lower (code : C02.Code) (stacksize : Nat) : Option Code :=
  match lowerGo (offL code) 0 code with
  | none => none
  | some bs => some
    { code := bs.toArray, consts := #[.none, .other], nnames := nNames, nvarnames := nVars, ncells := 0,
      stacksize := stacksize, lnotab := #[], firstlineno := 1, nlines := 0, flags := 67, name := "f" }

/-! ### a structural stack bound -/

/-- value-stack entries a statement needs above its entry depth (structural; the temporaries of the
probe calls, one iterator per enclosing `for`, 6 entries per handler entry / 2 per pending
return/continue in a `finally`, what `with` keeps) -/
def handlerNeed (m : C02.Matcher) (n : Nat) : Nat := 6 + max (2 + m.classes.length) (3 + 6 + max 2 n)

def need : C02.Stmt → Nat
  | .skip | .pass _ | .brk _ | .cont _ | .reraise _ => 0
  | .ev _ _ | .ret _ _ | .yieldS _ _ => 2
  | .raise _ _ => 1
  | .raiseX _ (.inst _ _) => 2
  | .raiseX _ (.from _ _) => 2
  | .raiseX _ (.nonExc _) => 1
  | .seq a b => max (need a) (need b)
  | .ifS _ _ b o => max 2 (max (need b) (need o))
  | .whileS _ _ b o => max 2 (max (need b) (need o))
  | .forS _ _ b o => max 2 (max (1 + need b) (need o))
  | .tryF _ b f => max (need b) (6 + need f)
  | .tryE _ b m1 h1 m2 h2 o =>
    max (need b) (max (handlerNeed m1 (need h1))
      (max (match m2 with | some m => handlerNeed m (need h2) | none => 0) (need o)))
  | .withS _ _ b => max 2 (1 + max (1 + need b) 8)

/-- the `Stacksize` declared for a function body (1 for the epilogue's `LOAD_CONST None`) -/
def stackNeed (body : C02.Stmt) : Nat := max 1 (need body)

/-- lowering of a compiled function body -/
def lowerFn (defLine : Nat) (body : C02.Stmt) : Option Code :=
  match C02.compileFn defLine body with
  | .error _ => none
  | .ok code => lower code (stackNeed body)

/-! ### the fragment `compile_wellformed_partial` covers -/

/-- statements built from simple statements, `if`, `while`, `for` (no try / with) -/
def loopOnly : C02.Stmt → Bool
  | .skip | .pass _ | .ev _ _ | .ret _ _ | .raise _ _ | .reraise _ | .raiseX _ _ | .brk _ | .cont _ => true
  | .seq a b => loopOnly a && loopOnly b
  | .ifS _ _ b o => loopOnly b && loopOnly o
  | .whileS _ _ b o => loopOnly b && loopOnly o
  | .forS _ _ b o => loopOnly b && loopOnly o
  | .tryF _ _ _ => false
  | .tryE _ _ _ _ _ _ _ => false
  | .withS _ _ _ => false
  | .yieldS _ _ => false

/-- the jump targets (instruction indices) an index-level instruction mentions -/
def tgtsOf (i : C02.Instr) : List Nat :=
  match (opOf i).2 with
  | .abs t => [t]
  | .rel t => [t]
  | _ => []

end GPy.C12
