/-
C12 / compile_wellformed: the structural invariant of compiled statements and its closure under
the C12 machine's `step` (loop-only fragment: simple statements, `if`, `while`, `for`).

`InS s pc S B k stk blk` : "(instruction index k, value stack stk, block stack blk) is a state the
machine can be in inside the code of statement `s` compiled at index `pc`, entered with value stack
`S` and block stack `B`" - defined by recursion over the statement.
`Env G ctx S B` : the environment assumption - what unwinding a return / exception / break /
continue out of the statement through the enclosing block stack `B` leads to (a state of the global
invariant `G`, or the end of the frame).
`closed` : every outcome of `step` from an `InS` state is `.next` into `G`, `.ret` or `.raise`.
-/
import GPy.C12.StepLemmas
import GPy.C12.CompLen
import GPy.C12.LowerProofs
import GPy.C12.TargetProofs
set_option linter.unusedSimpArgs false
set_option linter.unusedVariables false
namespace GPy.C12
open Generated

/-! ### code segments -/

/-- the list `l` occurs in `code` at index `pc` -/
def Seg (code : C02.Code) (pc : Nat) (l : C02.Code) : Prop :=
  ∀ j x, l[j]? = some x → code[pc + j]? = some x

theorem Seg.left {code : C02.Code} {pc : Nat} {a b : C02.Code} (h : Seg code pc (a ++ b)) : Seg code pc a := by
  intro j x hx
  apply h j x
  have hj : j < a.length := (List.getElem?_eq_some_iff.mp hx).1
  rw [List.getElem?_append_left hj]; exact hx

theorem Seg.right {code : C02.Code} {pc pc' : Nat} {a b : C02.Code} (h : Seg code pc (a ++ b))
    (e : pc + a.length = pc') : Seg code pc' b := by
  intro j x hx
  subst e
  have := h (a.length + j) x (by rw [List.getElem?_append_right (by omega)]; simpa using hx)
  rw [← this]; congr 1; omega

theorem Seg.get {code : C02.Code} {pc k : Nat} {l : C02.Code} {x : C02.Instr × Nat} (h : Seg code pc l) (j : Nat)
    (hj : l[j]? = some x) (e : pc + j = k) : code[k]? = some x := e ▸ h j x hj

/-! ### the structural invariant -/

abbrev St := Nat → List Kind → List Block → Prop

def At (k0 : Nat) (s0 : List Kind) (b0 : List Block) : St := fun k s b => k = k0 ∧ s = s0 ∧ b = b0

theorem At.mk' {k k0 : Nat} {S : List Kind} {B : List Block} (h : k = k0) : At k0 S B k S B := ⟨h, rfl, rfl⟩

/-- inside `LOAD_GLOBAL f; LOAD_CONST i; CALL_FUNCTION 1` -/
def InProbe (pc : Nat) (S : List Kind) (B : List Block) : St := fun k s b =>
  At pc S B k s b ∨ At (pc + 1) (.obj :: S) B k s b ∨ At (pc + 2) (.obj :: .obj :: S) B k s b

def loopBlk (off : Nat → Nat) (t : Nat) (S : List Kind) : Block := ⟨.loop, off t, S.length⟩

def InS (off : Nat → Nat) : C02.Stmt → Nat → List Kind → List Block → St
  | .skip, _, _, _ => fun _ _ _ => False
  | .pass _, _, _, _ => fun _ _ _ => False
  | .yieldS _ _, _, _, _ => fun _ _ _ => False   -- generator statement of C02 round ext2: outside the fragment (loopOnly = false)
  | .ev _ _, pc, S, B => fun k s b => InProbe pc S B k s b ∨ At (pc + 3) (.obj :: S) B k s b
  | .ret _ _, pc, S, B => fun k s b => InProbe pc S B k s b ∨ At (pc + 3) (.obj :: S) B k s b
  | .raise _ _, pc, S, B => fun k s b => At pc S B k s b ∨ At (pc + 1) (.obj :: S) B k s b
  | .reraise _, pc, S, B => At pc S B
  | .raiseX _ (.inst _ _), pc, S, B => fun k s b =>
      At pc S B k s b ∨ At (pc + 1) (.obj :: S) B k s b ∨ At (pc + 2) (.obj :: .obj :: S) B k s b ∨
      At (pc + 3) (.obj :: S) B k s b
  | .raiseX _ (.from _ _), pc, S, B => fun k s b =>
      At pc S B k s b ∨ At (pc + 1) (.obj :: S) B k s b ∨ At (pc + 2) (.obj :: .obj :: S) B k s b
  | .raiseX _ (.nonExc _), pc, S, B => fun k s b => At pc S B k s b ∨ At (pc + 1) (.obj :: S) B k s b
  | .brk _, pc, S, B => At pc S B
  | .cont _, pc, S, B => At pc S B
  | .seq a b, pc, S, B => fun k s bl => InS off a pc S B k s bl ∨ InS off b (pc + C02.len a) S B k s bl
  | .ifS _ _ b o, pc, S, B => fun k s bl =>
      InProbe pc S B k s bl ∨ At (pc + 3) (.obj :: S) B k s bl ∨ InS off b (pc + 4) S B k s bl ∨
      At (pc + 4 + C02.len b) S B k s bl ∨ InS off o (pc + 4 + C02.len b + 1) S B k s bl
  | .whileS _ _ b o, pc, S, B => fun k s bl =>
      At pc S B k s bl ∨
      InProbe (pc + 1) S (loopBlk off (pc + 5 + C02.len b + 1 + 1 + C02.len o) S :: B) k s bl ∨
      At (pc + 4) (.obj :: S) (loopBlk off (pc + 5 + C02.len b + 1 + 1 + C02.len o) S :: B) k s bl ∨
      InS off b (pc + 5) S (loopBlk off (pc + 5 + C02.len b + 1 + 1 + C02.len o) S :: B) k s bl ∨
      At (pc + 5 + C02.len b) S (loopBlk off (pc + 5 + C02.len b + 1 + 1 + C02.len o) S :: B) k s bl ∨
      At (pc + 5 + C02.len b + 1) S (loopBlk off (pc + 5 + C02.len b + 1 + 1 + C02.len o) S :: B) k s bl ∨
      InS off o (pc + 5 + C02.len b + 1 + 1) S B k s bl
  | .forS _ _ b o, pc, S, B => fun k s bl =>
      At pc S B k s bl ∨
      InProbe (pc + 1) S (loopBlk off (pc + 7 + C02.len b + 1 + 1 + C02.len o) S :: B) k s bl ∨
      At (pc + 4) (.obj :: S) (loopBlk off (pc + 7 + C02.len b + 1 + 1 + C02.len o) S :: B) k s bl ∨
      At (pc + 5) (.obj :: S) (loopBlk off (pc + 7 + C02.len b + 1 + 1 + C02.len o) S :: B) k s bl ∨
      At (pc + 6) (.obj :: .obj :: S) (loopBlk off (pc + 7 + C02.len b + 1 + 1 + C02.len o) S :: B) k s bl ∨
      InS off b (pc + 7) (.obj :: S) (loopBlk off (pc + 7 + C02.len b + 1 + 1 + C02.len o) S :: B) k s bl ∨
      At (pc + 7 + C02.len b) (.obj :: S) (loopBlk off (pc + 7 + C02.len b + 1 + 1 + C02.len o) S :: B) k s bl ∨
      At (pc + 7 + C02.len b + 1) S (loopBlk off (pc + 7 + C02.len b + 1 + 1 + C02.len o) S :: B) k s bl ∨
      InS off o (pc + 7 + C02.len b + 1 + 1) S B k s bl
  | .tryF _ _ _, _, _, _ => fun _ _ _ => False
  | .tryE _ _ _ _ _ _ _, _, _, _ => fun _ _ _ => False
  | .withS _ _ _, _, _, _ => fun _ _ _ => False

syntax "pick" : tactic
macro_rules
  | `(tactic| pick) => `(tactic| first
      | exact At.mk' (by omega)
      | (apply Or.inl; pick)
      | (apply Or.inr; pick))

/-- a non-empty statement's code is entered in the state (pc, S, B) -/
theorem InS_entry (off : Nat → Nat) : ∀ (s : C02.Stmt), loopOnly s = true → ∀ (pc : Nat) (S : List Kind) (B : List Block),
    C02.len s = 0 ∨ InS off s pc S B pc S B := by
  intro s
  induction s with
  | skip => intros; left; rfl
  | pass => intros; left; rfl
  | ev => intros; right; simp only [InS]; pick
  | ret => intros; right; simp only [InS]; pick
  | yieldS => intro hl; simp [loopOnly] at hl
  | raise => intros; right; simp only [InS]; pick
  | reraise => intros; right; simp only [InS]; pick
  | raiseX ln f => intros; right; cases f <;> (simp only [InS]; pick)
  | brk => intros; right; simp only [InS]; pick
  | cont => intros; right; simp only [InS]; pick
  | seq a b iha ihb =>
    intro hl pc S B
    simp only [loopOnly, Bool.and_eq_true] at hl
    rcases iha hl.1 pc S B with ha | ha
    · rcases ihb hl.2 pc S B with hb | hb
      · left; simp [C02.len, ha, hb]
      · right; simp only [InS]; right; rw [ha]; exact hb
    · right; simp only [InS]; left; exact ha
  | ifS => intros; right; simp only [InS]; pick
  | whileS => intros; right; simp only [InS]; pick
  | forS => intros; right; simp only [InS]; pick
  | tryF => intro hl; simp [loopOnly] at hl
  | tryE => intro hl; simp [loopOnly] at hl
  | withS => intro hl; simp [loopOnly] at hl

theorem entryG {off : Nat → Nat} {G : St} {s : C02.Stmt} (hl : loopOnly s = true) {pc : Nat} {S : List Kind} {B : List Block}
    (hin : ∀ k st bl, InS off s pc S B k st bl → G k st bl) (hexit : G (pc + C02.len s) S B) : G pc S B := by
  rcases InS_entry off s hl pc S B with h | h
  · rw [h] at hexit; exact hexit
  · exact hin _ _ _ h

/-- the indices of a statement's states lie inside its code -/
theorem InS_range (off : Nat → Nat) : ∀ (s : C02.Stmt), loopOnly s = true → ∀ (pc : Nat) (S : List Kind) (B : List Block)
    (k : Nat) (st : List Kind) (bl : List Block), InS off s pc S B k st bl → pc ≤ k ∧ k < pc + C02.len s := by
  intro s
  induction s with
  | skip => intro _ pc S B k st bl h; simp [InS] at h
  | pass => intro _ pc S B k st bl h; simp [InS] at h
  | ev => intro _ pc S B k st bl h; simp only [InS, InProbe, At] at h; simp only [C02.len]; omega
  | ret => intro _ pc S B k st bl h; simp only [InS, InProbe, At] at h; simp only [C02.len]; omega
  | yieldS => intro hl; simp [loopOnly] at hl
  | raise => intro _ pc S B k st bl h; simp only [InS, InProbe, At] at h; simp only [C02.len]; omega
  | reraise => intro _ pc S B k st bl h; simp only [InS, InProbe, At] at h; simp only [C02.len]; omega
  | raiseX ln f =>
    intro _ pc S B k st bl h
    cases f <;> (simp only [InS, InProbe, At] at h; simp only [C02.len, C02.RaiseForm.len]; omega)
  | brk => intro _ pc S B k st bl h; simp only [InS, InProbe, At] at h; simp only [C02.len]; omega
  | cont => intro _ pc S B k st bl h; simp only [InS, InProbe, At] at h; simp only [C02.len]; omega
  | seq a b iha ihb =>
    intro hl pc S B k st bl h
    simp only [loopOnly, Bool.and_eq_true] at hl
    simp only [InS] at h
    simp only [C02.len]
    rcases h with h | h
    · have := iha hl.1 _ _ _ _ _ _ h; omega
    · have := ihb hl.2 _ _ _ _ _ _ h; omega
  | ifS ln i b o ihb iho =>
    intro hl pc S B k st bl h
    simp only [loopOnly, Bool.and_eq_true] at hl
    simp only [InS] at h
    simp only [C02.len]
    rcases h with h | h | h | h | h
    · simp only [InProbe, At] at h; omega
    · simp only [At] at h; omega
    · have := ihb hl.1 _ _ _ _ _ _ h; omega
    · simp only [At] at h; omega
    · have := iho hl.2 _ _ _ _ _ _ h; omega
  | whileS ln i b o ihb iho =>
    intro hl pc S B k st bl h
    simp only [loopOnly, Bool.and_eq_true] at hl
    simp only [InS] at h
    simp only [C02.len]
    rcases h with h | h | h | h | h | h | h
    · simp only [At] at h; omega
    · simp only [InProbe, At] at h; omega
    · simp only [At] at h; omega
    · have := ihb hl.1 _ _ _ _ _ _ h; omega
    · simp only [At] at h; omega
    · simp only [At] at h; omega
    · have := iho hl.2 _ _ _ _ _ _ h; omega
  | forS ln i b o ihb iho =>
    intro hl pc S B k st bl h
    simp only [loopOnly, Bool.and_eq_true] at hl
    simp only [InS] at h
    simp only [C02.len]
    rcases h with h | h | h | h | h | h | h | h | h
    · simp only [At] at h; omega
    · simp only [InProbe, At] at h; omega
    · simp only [At] at h; omega
    · simp only [At] at h; omega
    · simp only [At] at h; omega
    · have := ihb hl.1 _ _ _ _ _ _ h; omega
    · simp only [At] at h; omega
    · simp only [At] at h; omega
    · have := iho hl.2 _ _ _ _ _ _ h; omega
  | tryF => intro hl; simp [loopOnly] at hl
  | tryE => intro hl; simp [loopOnly] at hl
  | withS => intro hl; simp [loopOnly] at hl

/-- the depth of a statement's states stays within `need` above its entry depth -/
theorem InS_depth (off : Nat → Nat) : ∀ (s : C02.Stmt), loopOnly s = true → ∀ (pc : Nat) (S : List Kind) (B : List Block)
    (k : Nat) (st : List Kind) (bl : List Block), InS off s pc S B k st bl → st.length ≤ S.length + need s := by
  intro s
  induction s with
  | skip => intro _ pc S B k st bl h; simp [InS] at h
  | pass => intro _ pc S B k st bl h; simp [InS] at h
  | yieldS => intro hl; simp [loopOnly] at hl
  | ev =>
    intro _ pc S B k st bl h; simp only [InS, InProbe, At] at h; simp only [need]
    rcases h with (h | h | h) | h <;> (rw [h.2.1]; (try simp only [List.length_cons]); omega)
  | ret =>
    intro _ pc S B k st bl h; simp only [InS, InProbe, At] at h; simp only [need]
    rcases h with (h | h | h) | h <;> (rw [h.2.1]; (try simp only [List.length_cons]); omega)
  | raise =>
    intro _ pc S B k st bl h; simp only [InS, InProbe, At] at h; simp only [need]
    rcases h with h | h <;> (rw [h.2.1]; (try simp only [List.length_cons]); omega)
  | reraise =>
    intro _ pc S B k st bl h; simp only [InS, InProbe, At] at h; simp only [need]
    rw [h.2.1]; omega
  | raiseX ln f =>
    intro _ pc S B k st bl h
    cases f with
    | inst =>
      simp only [InS, InProbe, At] at h; simp only [need]
      rcases h with h | h | h | h <;> (rw [h.2.1]; (try simp only [List.length_cons]); omega)
    | «from» =>
      simp only [InS, InProbe, At] at h; simp only [need]
      rcases h with h | h | h <;> (rw [h.2.1]; (try simp only [List.length_cons]); omega)
    | nonExc =>
      simp only [InS, InProbe, At] at h; simp only [need]
      rcases h with h | h <;> (rw [h.2.1]; (try simp only [List.length_cons]); omega)
  | brk => intro _ pc S B k st bl h; simp only [InS, At] at h; rw [h.2.1]; omega
  | cont => intro _ pc S B k st bl h; simp only [InS, At] at h; rw [h.2.1]; omega
  | seq a b iha ihb =>
    intro hl pc S B k st bl h
    simp only [loopOnly, Bool.and_eq_true] at hl
    simp only [InS] at h
    simp only [need]
    rcases h with h | h
    · have := iha hl.1 _ _ _ _ _ _ h; omega
    · have := ihb hl.2 _ _ _ _ _ _ h; omega
  | ifS ln i b o ihb iho =>
    intro hl pc S B k st bl h
    simp only [loopOnly, Bool.and_eq_true] at hl
    simp only [InS] at h
    simp only [need]
    rcases h with (h | h | h) | h | h | h | h
    · rw [h.2.1]; omega
    · rw [h.2.1]; (try simp only [List.length_cons]); omega
    · rw [h.2.1]; (try simp only [List.length_cons]); omega
    · rw [h.2.1]; (try simp only [List.length_cons]); omega
    · have := ihb hl.1 _ _ _ _ _ _ h; omega
    · rw [h.2.1]; omega
    · have := iho hl.2 _ _ _ _ _ _ h; omega
  | whileS ln i b o ihb iho =>
    intro hl pc S B k st bl h
    simp only [loopOnly, Bool.and_eq_true] at hl
    simp only [InS] at h
    simp only [need]
    rcases h with h | (h | h | h) | h | h | h | h | h
    · rw [h.2.1]; omega
    · rw [h.2.1]; omega
    · rw [h.2.1]; (try simp only [List.length_cons]); omega
    · rw [h.2.1]; (try simp only [List.length_cons]); omega
    · rw [h.2.1]; (try simp only [List.length_cons]); omega
    · have := ihb hl.1 _ _ _ _ _ _ h; omega
    · rw [h.2.1]; omega
    · rw [h.2.1]; omega
    · have := iho hl.2 _ _ _ _ _ _ h; omega
  | forS ln i b o ihb iho =>
    intro hl pc S B k st bl h
    simp only [loopOnly, Bool.and_eq_true] at hl
    simp only [InS] at h
    simp only [need]
    rcases h with h | (h | h | h) | h | h | h | h | h | h | h
    · rw [h.2.1]; omega
    · rw [h.2.1]; omega
    · rw [h.2.1]; (try simp only [List.length_cons]); omega
    · rw [h.2.1]; (try simp only [List.length_cons]); omega
    · rw [h.2.1]; (try simp only [List.length_cons]); omega
    · rw [h.2.1]; (try simp only [List.length_cons]); omega
    · rw [h.2.1]; (try simp only [List.length_cons]); omega
    · have := ihb hl.1 _ _ _ _ _ _ h; simp only [List.length_cons] at this; omega
    · rw [h.2.1]; (try simp only [List.length_cons]); omega
    · rw [h.2.1]; omega
    · have := iho hl.2 _ _ _ _ _ _ h; omega
  | tryF => intro hl; simp [loopOnly] at hl
  | tryE => intro hl; simp [loopOnly] at hl
  | withS => intro hl; simp [loopOnly] at hl

/-- `EndsWithReturn` of a non-empty statement does not depend on what precedes it -/
theorem endsRet_pos : ∀ (s : C02.Stmt), 0 < C02.len s → ∀ x, C02.endsRet x s = C02.endsRet false s := by
  intro s
  induction s with
  | skip => intro h; simp [C02.len] at h
  | pass => intro h; simp [C02.len] at h
  | seq a b iha ihb =>
    intro h x
    simp only [C02.endsRet]
    by_cases hb : C02.len b = 0
    · rw [len_zero_endsRet b _ hb, len_zero_endsRet b _ hb]
      simp only [C02.len, hb, Nat.add_zero] at h
      exact iha h x
    · rw [ihb (by omega) (C02.endsRet x a), ihb (by omega) (C02.endsRet false a)]
  | _ => intros; rfl

/-! ### outcomes and the environment -/

/-- an outcome that keeps the run inside the invariant: a next state in `G`, a return, or an
escaping exception -/
def OKo (code : C02.Code) (G : St) (o : Outcome) : Prop :=
  o = .ret ∨ o = .raise ∨ ∃ k stk blk, o = .next ⟨offL code k, stk, blk⟩ ∧ G k stk blk

theorem okNext {code : C02.Code} {G : St} {k : Nat} {stk : List Kind} {blk : List Block} (h : G k stk blk) :
    OKo code G (.next ⟨offL code k, stk, blk⟩) := .inr (.inr ⟨k, stk, blk, rfl, h⟩)

structure Env (code : C02.Code) (G : St) (ctx : C02.Ctx) (S : List Kind) (B : List Block) : Prop where
  ret : ∀ t, OKo code G (unwind .ret B (t ++ S))
  exc : ∀ t, OKo code G (unwind .exception B (t ++ S))
  brk : C02.hasLoop ctx = true → OKo code G (unwind .brk B S)
  cont : ∀ i, C02.contInstr ctx = some i →
    (∀ t, i = .jumpAbsolute t → G t S B) ∧
    (∀ t, i = .continueLoop t → OKo code G (unwind (.cont (offL code t)) B S))

theorem exc0 {code : C02.Code} {G : St} {S : List Kind} {B : List Block}
    (h : ∀ t, OKo code G (unwind .exception B (t ++ S))) : OKo code G (unwind .exception B S) := h []

theorem exc_loop {code : C02.Code} {G : St} {S : List Kind} {B : List Block} (e : Nat)
    (h : ∀ t, OKo code G (unwind .exception B (t ++ S))) (u : List Kind) :
    ∀ t, OKo code G (unwind .exception (loopBlk (offL code) e S :: B) (t ++ (u ++ S))) := by
  intro t
  rw [loopBlk, unwind_loop_exc, ← List.append_assoc, unwindBlock_suffix]
  exact h []

theorem ret_loop {code : C02.Code} {G : St} {S : List Kind} {B : List Block} (e : Nat)
    (h : ∀ t, OKo code G (unwind .ret B (t ++ S))) (u : List Kind) :
    ∀ t, OKo code G (unwind .ret (loopBlk (offL code) e S :: B) (t ++ (u ++ S))) := by
  intro t
  rw [loopBlk, unwind_loop_ret, ← List.append_assoc, unwindBlock_suffix]
  exact h []

/-- the environment of a loop body -/
theorem Env.loop {code : C02.Code} {G : St} {ctx : C02.Ctx} {S : List Kind} {B : List Block}
    (henv : Env code G ctx S B) (u : List Kind) (e start : Nat)
    (hbrk : G e S B) (hcont : G start (u ++ S) (loopBlk (offL code) e S :: B)) :
    Env code G (.loop start :: ctx) (u ++ S) (loopBlk (offL code) e S :: B) where
  ret := ret_loop e henv.ret u
  exc := exc_loop e henv.exc u
  brk := by
    intro _
    have := unwindBlock_suffix u S
    rw [loopBlk, unwind_loop_brk, this]
    exact okNext hbrk
  cont := by
    intro i hi
    simp only [C02.contInstr, Option.some.injEq] at hi
    subst hi
    refine ⟨?_, ?_⟩
    · intro t ht; cases ht; exact hcont
    · intro t ht; cases ht

theorem contInstr_cases {ctx : C02.Ctx} {i : C02.Instr} (h : C02.contInstr ctx = some i) :
    (∃ t, i = .jumpAbsolute t) ∨ (∃ t, i = .continueLoop t) := by
  cases ctx with
  | nil => simp [C02.contInstr] at h
  | cons l rest =>
    cases l with
    | loop s => simp [C02.contInstr] at h; exact .inl ⟨s, h.symm⟩
    | finallyEnd => simp [C02.contInstr] at h
    | except =>
      simp only [C02.contInstr, Option.map_eq_some_iff] at h
      obtain ⟨a, _, ha⟩ := h; exact .inr ⟨a, ha.symm⟩
    | finallyTry =>
      simp only [C02.contInstr, Option.map_eq_some_iff] at h
      obtain ⟨a, _, ha⟩ := h; exact .inr ⟨a, ha.symm⟩

theorem orElse_none2 {α} {a : Option α} {b : Option α} (h : (a.orElse fun _ => b) = none) : a = none ∧ b = none := by
  cases a <;> simp_all [Option.orElse]

/-! ### closure -/

section
variable {code : C02.Code} {c : Code}

theorem probe_closed (L : Lay code c) (G : St) {f : C02.Fn} {i ln pc : Nat} {S : List Kind} {B : List Block}
    (hseg : Seg code pc (C02.callProbe f i ln))
    (hin : ∀ k st bl, InProbe pc S B k st bl → G k st bl)
    (hexit : G (pc + 3) (.obj :: S) B)
    (hexc : ∀ t, OKo code G (unwind .exception B (t ++ S))) :
    ∀ k st bl, InProbe pc S B k st bl → ∀ o ∈ step c ⟨offL code k, st, bl⟩, OKo code G o := by
  intro k st bl h o ho
  have h0 := hseg.get 0 (x := (.loadGlobal (.fn f), ln)) (by simp [C02.callProbe]) (Nat.add_zero pc)
  have h1 := hseg.get 1 (x := (.loadConst (.int i), ln)) (by simp [C02.callProbe]) rfl
  have h2 := hseg.get 2 (x := (.callFunction 1, ln)) (by simp [C02.callProbe]) rfl
  rcases h with ⟨rfl, rfl, rfl⟩ | ⟨rfl, rfl, rfl⟩ | ⟨rfl, rfl, rfl⟩
  · rw [step_loadGlobal L h0] at ho
    simp only [List.mem_cons, List.not_mem_nil, or_false] at ho
    rcases ho with rfl | rfl
    · exact okNext (hin _ _ _ (by pick))
    · exact exc0 hexc
  · rw [step_loadConstInt L h1] at ho
    simp only [List.mem_cons, List.not_mem_nil, or_false] at ho
    subst ho
    exact okNext (hin _ _ _ (by pick))
  · rw [step_call1 L h2] at ho
    simp only [List.mem_cons, List.not_mem_nil, or_false] at ho
    rcases ho with rfl | rfl
    · exact okNext hexit
    · exact exc0 hexc

/-- `simp`-free way to split `o ∈ [a, b, …]` -/
syntax "outs" ident : tactic
macro_rules
  | `(tactic| outs $h:ident) => `(tactic| simp only [List.mem_cons, List.not_mem_nil, or_false] at $h:ident)

/-- **closure.**  Every outcome of one machine step from a state inside the code of a loop-only
statement stays in the invariant `G`, returns, or raises. -/
theorem closed (L : Lay code c) (G : St) : ∀ (s : C02.Stmt), loopOnly s = true →
    ∀ (ctx : C02.Ctx) (pc cur : Nat) (S : List Kind) (B : List Block),
    Seg code pc (C02.compS ctx pc cur s) → C02.compErr ctx pc s = none →
    (∀ k st bl, InS (offL code) s pc S B k st bl → G k st bl) →
    (C02.endsRet false s = false → G (pc + C02.len s) S B) → Env code G ctx S B →
    ∀ k st bl, InS (offL code) s pc S B k st bl → ∀ o ∈ step c ⟨offL code k, st, bl⟩, OKo code G o := by
  intro s
  induction s with
  | skip => intro _ ctx pc cur S B _ _ _ _ _ k st bl h; simp [InS] at h
  | pass => intro _ ctx pc cur S B _ _ _ _ _ k st bl h; simp [InS] at h
  | yieldS => intro hl; simp [loopOnly] at hl
  | ev ln i =>
    intro _ ctx pc cur S B hseg herr hin hexit henv k st bl h o ho
    simp only [C02.compS] at hseg
    simp only [InS] at h hin
    rcases h with h | ⟨rfl, rfl, rfl⟩
    · exact probe_closed L G hseg.left (fun k st bl h => hin k st bl (.inl h)) (hin _ _ _ (by pick)) henv.exc k st bl h o ho
    · have h3 := (hseg.right (pc' := pc + 3) (by simp [C02.callProbe])).get 0 (x := (.popTop, ln)) (by simp) (Nat.add_zero _)
      rw [step_popTop L h3] at ho
      outs ho; subst ho
      exact okNext (hexit rfl)
  | ret ln i =>
    intro _ ctx pc cur S B hseg herr hin hexit henv k st bl h o ho
    simp only [C02.compS] at hseg
    simp only [InS] at h hin
    rcases h with h | ⟨rfl, rfl, rfl⟩
    · exact probe_closed L G hseg.left (fun k st bl h => hin k st bl (.inl h)) (hin _ _ _ (by pick)) henv.exc k st bl h o ho
    · have h3 := (hseg.right (pc' := pc + 3) (by simp [C02.callProbe])).get 0 (x := (.returnValue, ln)) (by simp) (Nat.add_zero _)
      rw [step_returnValue L h3] at ho
      outs ho; subst ho
      exact henv.ret []
  | raise ln cl =>
    intro _ ctx pc cur S B hseg herr hin hexit henv k st bl h o ho
    simp only [C02.compS] at hseg
    simp only [InS] at h hin
    have h0 := hseg.get 0 (x := (.loadGlobal (.cls cl), ln)) (by simp) (Nat.add_zero pc)
    have h1 := hseg.get 1 (x := (.raiseVarargs 1, ln)) (by simp) rfl
    rcases h with ⟨rfl, rfl, rfl⟩ | ⟨rfl, rfl, rfl⟩
    · rw [step_loadGlobal L h0] at ho
      outs ho
      rcases ho with rfl | rfl
      · exact okNext (hin _ _ _ (by pick))
      · exact exc0 henv.exc
    · rw [step_raise1 L h1] at ho
      outs ho; subst ho
      exact exc0 henv.exc
  | reraise ln =>
    intro _ ctx pc cur S B hseg herr hin hexit henv k st bl h o ho
    simp only [C02.compS] at hseg
    simp only [InS] at h hin
    have h0 := hseg.get 0 (x := (.raiseVarargs 0, ln)) (by simp) (Nat.add_zero pc)
    rcases h with ⟨rfl, rfl, rfl⟩
    rw [step_raise0 L h0] at ho
    outs ho; subst ho
    exact exc0 henv.exc
  | raiseX ln f =>
    intro _ ctx pc cur S B hseg herr hin hexit henv k st bl h o ho
    cases f with
    | inst cl n =>
      simp only [C02.compS] at hseg
      simp only [InS] at h hin
      have h0 := hseg.get 0 (x := (.loadGlobal (.cls cl), ln)) (by simp) (Nat.add_zero pc)
      have h1 := hseg.get 1 (x := (.loadConst (.int n), ln)) (by simp) rfl
      have h2 := hseg.get 2 (x := (.callFunction 1, ln)) (by simp) rfl
      have h3 := hseg.get 3 (x := (.raiseVarargs 1, ln)) (by simp) rfl
      rcases h with ⟨rfl, rfl, rfl⟩ | ⟨rfl, rfl, rfl⟩ | ⟨rfl, rfl, rfl⟩ | ⟨rfl, rfl, rfl⟩
      · rw [step_loadGlobal L h0] at ho
        outs ho
        rcases ho with rfl | rfl
        · exact okNext (hin _ _ _ (by pick))
        · exact exc0 henv.exc
      · rw [step_loadConstInt L h1] at ho
        outs ho; subst ho
        exact okNext (hin _ _ _ (by pick))
      · rw [step_call1 L h2] at ho
        outs ho
        rcases ho with rfl | rfl
        · exact okNext (hin _ _ _ (by pick))
        · exact exc0 henv.exc
      · rw [step_raise1 L h3] at ho
        outs ho; subst ho
        exact exc0 henv.exc
    | «from» cl d =>
      simp only [C02.compS] at hseg
      simp only [InS] at h hin
      have h0 := hseg.get 0 (x := (.loadGlobal (.cls cl), ln)) (by simp) (Nat.add_zero pc)
      have h1 := hseg.get 1 (x := (.loadGlobal (.cls d), ln)) (by simp) rfl
      have h2 := hseg.get 2 (x := (.raiseVarargs 2, ln)) (by simp) rfl
      rcases h with ⟨rfl, rfl, rfl⟩ | ⟨rfl, rfl, rfl⟩ | ⟨rfl, rfl, rfl⟩
      · rw [step_loadGlobal L h0] at ho
        outs ho
        rcases ho with rfl | rfl
        · exact okNext (hin _ _ _ (by pick))
        · exact exc0 henv.exc
      · rw [step_loadGlobal L h1] at ho
        outs ho
        rcases ho with rfl | rfl
        · exact okNext (hin _ _ _ (by pick))
        · exact henv.exc [.obj]
      · rw [step_raise2 L h2] at ho
        outs ho; subst ho
        exact exc0 henv.exc
    | nonExc n =>
      simp only [C02.compS] at hseg
      simp only [InS] at h hin
      have h0 := hseg.get 0 (x := (.loadConst (.int n), ln)) (by simp) (Nat.add_zero pc)
      have h1 := hseg.get 1 (x := (.raiseVarargs 1, ln)) (by simp) rfl
      rcases h with ⟨rfl, rfl, rfl⟩ | ⟨rfl, rfl, rfl⟩
      · rw [step_loadConstInt L h0] at ho
        outs ho; subst ho
        exact okNext (hin _ _ _ (by pick))
      · rw [step_raise1 L h1] at ho
        outs ho; subst ho
        exact exc0 henv.exc
  | brk ln =>
    intro _ ctx pc cur S B hseg herr hin hexit henv k st bl h o ho
    simp only [C02.compS] at hseg
    simp only [InS] at h hin
    have h0 := hseg.get 0 (x := (.breakLoop, ln)) (by simp) (Nat.add_zero pc)
    rcases h with ⟨rfl, rfl, rfl⟩
    rw [step_breakLoop L h0] at ho
    outs ho; subst ho
    apply henv.brk
    simp only [C02.compErr] at herr
    cases hh : C02.hasLoop ctx with
    | true => rfl
    | false => simp [hh] at herr
  | cont ln =>
    intro _ ctx pc cur S B hseg herr hin hexit henv k st bl h o ho
    simp only [InS] at h hin
    rcases h with ⟨rfl, rfl, rfl⟩
    simp only [C02.compErr] at herr
    cases hci : C02.contInstr ctx with
    | none => simp [hci] at herr
    | some i =>
      simp only [C02.compS, hci] at hseg
      have h0 := hseg.get 0 (x := (i, ln)) (by simp) (Nat.add_zero k)
      have hc := henv.cont i hci
      rcases contInstr_cases hci with ⟨t, rfl⟩ | ⟨t, rfl⟩
      · rw [step_jumpAbsolute L h0] at ho
        outs ho; subst ho
        exact okNext (hc.1 t rfl)
      · rw [step_continueLoop L h0] at ho
        outs ho; subst ho
        exact hc.2 t rfl
  | seq a b iha ihb =>
    intro hl ctx pc cur S B hseg herr hin hexit henv k st bl h o ho
    simp only [loopOnly, Bool.and_eq_true] at hl
    simp only [C02.compS] at hseg
    simp only [C02.compErr] at herr
    have herr2 := orElse_none2 herr
    simp only [InS] at h hin
    have hinb : ∀ k st bl, InS (offL code) b (pc + C02.len a) S B k st bl → G k st bl :=
      fun k st bl h => hin k st bl (.inr h)
    rcases h with h | h
    · refine iha hl.1 ctx pc cur S B hseg.left herr2.1 (fun k st bl h => hin k st bl (.inl h)) ?_ henv k st bl h o ho
      intro hea
      rcases InS_entry (offL code) b hl.2 (pc + C02.len a) S B with hb | hb
      · have h1 : C02.endsRet false (.seq a b) = false := by
          simp only [C02.endsRet]; rw [len_zero_endsRet b _ hb]; exact hea
        have h2 := hexit h1
        simp only [C02.len, hb, Nat.add_zero] at h2; exact h2
      · exact hinb _ _ _ hb
    · refine ihb hl.2 ctx (pc + C02.len a) _ S B (hseg.right (by rw [compS_length])) herr2.2 hinb ?_ henv k st bl h o ho
      intro heb
      have hr := InS_range (offL code) b hl.2 _ S B k st bl h
      have h1 : C02.endsRet false (.seq a b) = false := by
        simp only [C02.endsRet]; rw [endsRet_pos b (by omega) _]; exact heb
      have h2 := hexit h1
      simp only [C02.len] at h2; rw [Nat.add_assoc]; exact h2
  | ifS ln i b o' ihb iho =>
    intro hl ctx pc cur S B hseg herr hin hexit henv k st bl h o ho
    simp only [loopOnly, Bool.and_eq_true] at hl
    simp only [C02.compS] at hseg
    simp only [C02.compErr] at herr
    have herr2 := orElse_none2 herr
    simp only [InS] at h hin
    have hexit := hexit rfl
    simp only [C02.len] at hexit
    have hexit' : G (pc + 4 + C02.len b + 1 + C02.len o') S B := by
      have : pc + (5 + C02.len b + C02.len o') = pc + 4 + C02.len b + 1 + C02.len o' := by omega
      rw [← this]; exact hexit
    have hino : ∀ k st bl, InS (offL code) o' (pc + 4 + C02.len b + 1) S B k st bl → G k st bl :=
      fun k st bl h => hin k st bl (by simp only [h, or_true])
    have hinb : ∀ k st bl, InS (offL code) b (pc + 4) S B k st bl → G k st bl :=
      fun k st bl h => hin k st bl (by simp only [h, or_true, true_or])
    have hpj := (hseg.left.left.left.right (pc' := pc + 3) (by simp [C02.callProbe])).get 0
      (x := (.popJumpIfFalse (pc + 4 + C02.len b + 1), ln)) (by simp) (Nat.add_zero _)
    have hsb : Seg code (pc + 4) (C02.compS ctx (pc + 4) ln b) :=
      hseg.left.left.right (by simp [C02.callProbe])
    have hjf := (hseg.left.right (pc' := pc + 4 + C02.len b) (by simp [C02.callProbe, compS_length]; omega)).get 0
      (x := (.jumpForward (pc + 4 + C02.len b + 1 + C02.len o'), C02.endLine ln b)) (by simp) (Nat.add_zero _)
    have hso : Seg code (pc + 4 + C02.len b + 1) (C02.compS ctx (pc + 4 + C02.len b + 1) (C02.endLine ln b) o') :=
      hseg.right (by simp [C02.callProbe, compS_length]; omega)
    rcases h with h | ⟨rfl, rfl, rfl⟩ | h | ⟨rfl, rfl, rfl⟩ | h
    · exact probe_closed L G hseg.left.left.left.left (fun k st bl h => hin k st bl (.inl h))
        (hin _ _ _ (by pick)) henv.exc k st bl h o ho
    · rw [step_popJumpIfFalse L hpj] at ho
      outs ho
      rcases ho with rfl | rfl | rfl
      · exact okNext (entryG hl.1 hinb (hin _ _ _ (by pick)))
      · exact okNext (entryG hl.2 hino hexit')
      · exact exc0 henv.exc
    · exact ihb hl.1 ctx (pc + 4) ln S B hsb herr2.1 hinb (fun _ => hin _ _ _ (by pick)) henv k st bl h o ho
    · rw [step_jumpForward L hjf] at ho
      outs ho; subst ho
      exact okNext hexit'
    · exact iho hl.2 ctx _ _ S B hso herr2.2 hino (fun _ => hexit') henv k st bl h o ho
  | whileS ln i b o' ihb iho =>
    intro hl ctx pc cur S B hseg herr hin hexit henv k st bl h o ho
    simp only [loopOnly, Bool.and_eq_true] at hl
    simp only [C02.compS] at hseg
    simp only [C02.compErr] at herr
    have herr2 := orElse_none2 herr
    simp only [InS] at h hin
    have hexit := hexit rfl
    simp only [C02.len] at hexit
    have hexit' : G (pc + 5 + C02.len b + 1 + 1 + C02.len o') S B := by
      have : pc + (7 + C02.len b + C02.len o') = pc + 5 + C02.len b + 1 + 1 + C02.len o' := by omega
      rw [← this]; exact hexit
    have hino : ∀ k st bl, InS (offL code) o' (pc + 5 + C02.len b + 1 + 1) S B k st bl → G k st bl :=
      fun k st bl h => hin k st bl (by simp only [h, or_true])
    have hinb : ∀ k st bl, InS (offL code) b (pc + 5) S
        (loopBlk (offL code) (pc + 5 + C02.len b + 1 + 1 + C02.len o') S :: B) k st bl → G k st bl :=
      fun k st bl h => hin k st bl (by simp only [h, or_true, true_or])
    have hsl := hseg.left.left.left.left.left.get 0
      (x := (.setupLoop (pc + 5 + C02.len b + 1 + 1 + C02.len o'), ln)) (by simp) (Nat.add_zero _)
    have hsp : Seg code (pc + 1) (C02.callProbe .ev i ln) := hseg.left.left.left.left.right (by simp)
    have hpj := (hseg.left.left.left.right (pc' := pc + 4) (by simp [C02.callProbe])).get 0
      (x := (.popJumpIfFalse (pc + 5 + C02.len b + 1), ln)) (by simp) (Nat.add_zero _)
    have hsb : Seg code (pc + 5) (C02.compS (.loop (pc + 1) :: ctx) (pc + 5) ln b) :=
      hseg.left.left.right (by simp [C02.callProbe])
    have htl : Seg code (pc + 5 + C02.len b) [(C02.Instr.jumpAbsolute (pc + 1), C02.endLine ln b), (C02.Instr.popBlock, C02.endLine ln b)] :=
      hseg.left.right (by simp [C02.callProbe, compS_length]; omega)
    have hja := htl.get 0 (x := (.jumpAbsolute (pc + 1), C02.endLine ln b)) (by simp) (Nat.add_zero _)
    have hpb := htl.get 1 (x := (.popBlock, C02.endLine ln b)) (by simp) rfl
    have hso : Seg code (pc + 5 + C02.len b + 1 + 1) (C02.compS ctx (pc + 5 + C02.len b + 1 + 1) (C02.endLine ln b) o') :=
      hseg.right (by simp [C02.callProbe, compS_length]; omega)
    have hexcL := exc_loop (pc + 5 + C02.len b + 1 + 1 + C02.len o') henv.exc []
    rcases h with ⟨rfl, rfl, rfl⟩ | h | ⟨rfl, rfl, rfl⟩ | h | ⟨rfl, rfl, rfl⟩ | ⟨rfl, rfl, rfl⟩ | h
    · rw [step_setupLoop L hsl] at ho
      outs ho; subst ho
      exact okNext (hin _ _ _ (by pick))
    · exact probe_closed L G hsp (fun k st bl h => hin k st bl (.inr (.inl h)))
        (hin _ _ _ (by pick)) hexcL k st bl h o ho
    · rw [step_popJumpIfFalse L hpj] at ho
      outs ho
      rcases ho with rfl | rfl | rfl
      · exact okNext (entryG hl.1 hinb (hin _ _ _ (by pick)))
      · exact okNext (hin _ _ _ (by pick))
      · exact exc0 hexcL
    · exact ihb hl.1 (.loop (pc + 1) :: ctx) (pc + 5) ln S _ hsb herr2.1 hinb (fun _ => hin _ _ _ (by pick))
        (henv.loop [] _ (pc + 1) hexit' (hin _ _ _ (by pick))) k st bl h o ho
    · rw [step_jumpAbsolute L hja] at ho
      outs ho; subst ho
      exact okNext (hin _ _ _ (by pick))
    · rw [step_popBlock L hpb] at ho
      outs ho; subst ho
      exact okNext (entryG hl.2 hino hexit')
    · exact iho hl.2 ctx _ _ S B hso herr2.2 hino (fun _ => hexit') henv k st bl h o ho
  | forS ln i b o' ihb iho =>
    intro hl ctx pc cur S B hseg herr hin hexit henv k st bl h o ho
    simp only [loopOnly, Bool.and_eq_true] at hl
    simp only [C02.compS] at hseg
    simp only [C02.compErr] at herr
    have herr2 := orElse_none2 herr
    simp only [InS] at h hin
    have hexit := hexit rfl
    simp only [C02.len] at hexit
    have hexit' : G (pc + 7 + C02.len b + 1 + 1 + C02.len o') S B := by
      have : pc + (9 + C02.len b + C02.len o') = pc + 7 + C02.len b + 1 + 1 + C02.len o' := by omega
      rw [← this]; exact hexit
    have hino : ∀ k st bl, InS (offL code) o' (pc + 7 + C02.len b + 1 + 1) S B k st bl → G k st bl :=
      fun k st bl h => hin k st bl (by simp only [h, or_true])
    have hinb : ∀ k st bl, InS (offL code) b (pc + 7) (.obj :: S)
        (loopBlk (offL code) (pc + 7 + C02.len b + 1 + 1 + C02.len o') S :: B) k st bl → G k st bl :=
      fun k st bl h => hin k st bl (by simp only [h, or_true, true_or])
    have hsl := hseg.left.left.left.left.left.get 0
      (x := (.setupLoop (pc + 7 + C02.len b + 1 + 1 + C02.len o'), ln)) (by simp) (Nat.add_zero _)
    have hsp : Seg code (pc + 1) (C02.callProbe .it i ln) := hseg.left.left.left.left.right (by simp)
    have hmid : Seg code (pc + 4) [(C02.Instr.getIter, ln), (C02.Instr.forIter (pc + 7 + C02.len b + 1), ln), (C02.Instr.storeFast "x", ln)] :=
      hseg.left.left.left.right (by simp [C02.callProbe])
    have hgi := hmid.get 0 (x := (.getIter, ln)) (by simp) (Nat.add_zero _)
    have hfi := hmid.get 1 (x := (.forIter (pc + 7 + C02.len b + 1), ln)) (by simp) rfl
    have hsf := hmid.get 2 (x := (.storeFast "x", ln)) (by simp) rfl
    have hsb : Seg code (pc + 7) (C02.compS (.loop (pc + 5) :: ctx) (pc + 7) ln b) :=
      hseg.left.left.right (by simp [C02.callProbe])
    have htl : Seg code (pc + 7 + C02.len b) [(C02.Instr.jumpAbsolute (pc + 5), C02.endLine ln b), (C02.Instr.popBlock, C02.endLine ln b)] :=
      hseg.left.right (by simp [C02.callProbe, compS_length]; omega)
    have hja := htl.get 0 (x := (.jumpAbsolute (pc + 5), C02.endLine ln b)) (by simp) (Nat.add_zero _)
    have hpb := htl.get 1 (x := (.popBlock, C02.endLine ln b)) (by simp) rfl
    have hso : Seg code (pc + 7 + C02.len b + 1 + 1) (C02.compS ctx (pc + 7 + C02.len b + 1 + 1) (C02.endLine ln b) o') :=
      hseg.right (by simp [C02.callProbe, compS_length]; omega)
    have hexcL := exc_loop (pc + 7 + C02.len b + 1 + 1 + C02.len o') henv.exc []
    rcases h with ⟨rfl, rfl, rfl⟩ | h | ⟨rfl, rfl, rfl⟩ | ⟨rfl, rfl, rfl⟩ | ⟨rfl, rfl, rfl⟩ | h | ⟨rfl, rfl, rfl⟩ | ⟨rfl, rfl, rfl⟩ | h
    · rw [step_setupLoop L hsl] at ho
      outs ho; subst ho
      exact okNext (hin _ _ _ (by pick))
    · exact probe_closed L G hsp (fun k st bl h => hin k st bl (.inr (.inl h)))
        (hin _ _ _ (by pick)) hexcL k st bl h o ho
    · rw [step_getIter L hgi] at ho
      outs ho
      rcases ho with rfl | rfl
      · exact okNext (hin _ _ _ (by pick))
      · exact hexcL [.obj]
    · rw [step_forIter L hfi] at ho
      outs ho
      rcases ho with rfl | rfl | rfl
      · exact okNext (hin _ _ _ (by pick))
      · exact okNext (hin _ _ _ (by pick))
      · exact hexcL [.obj]
    · rw [step_storeFast L hsf] at ho
      outs ho; subst ho
      exact okNext (entryG hl.1 hinb (hin _ _ _ (by pick)))
    · exact ihb hl.1 (.loop (pc + 5) :: ctx) (pc + 7) ln (.obj :: S) _ hsb herr2.1 hinb (fun _ => hin _ _ _ (by pick))
        (henv.loop [.obj] _ (pc + 5) hexit' (hin _ _ _ (by pick))) k st bl h o ho
    · rw [step_jumpAbsolute L hja] at ho
      outs ho; subst ho
      exact okNext (hin _ _ _ (by pick))
    · rw [step_popBlock L hpb] at ho
      outs ho; subst ho
      exact okNext (entryG hl.2 hino hexit')
    · exact iho hl.2 ctx _ _ S B hso herr2.2 hino (fun _ => hexit') henv k st bl h o ho
  | tryF => intro hl; simp [loopOnly] at hl
  | tryE => intro hl; simp [loopOnly] at hl
  | withS => intro hl; simp [loopOnly] at hl

end

/-! ### the whole function body -/

theorem lay_of_lower {code : C02.Code} {ss : Nat} {c : Code} (h : lower code ss = some c) : Lay code c where
  dec := fun hk => lower_decode h hk
  succ := fun hk => offL_succ hk
  consts := (lower_fields h).1
  nnames := (lower_fields h).2.1
  nvars := (lower_fields h).2.2.1

theorem Seg.self (code : C02.Code) : Seg code 0 code := fun j x h => by simpa using h

/-- the invariant of a compiled function body: inside the body's code, or in the epilogue
`LOAD_CONST None; RETURN_VALUE` (present unless the body ends with a `return`) -/
def GFn (off : Nat → Nat) (body : C02.Stmt) : St := fun k st bl =>
  InS off body 0 [] [] k st bl ∨
  (C02.endsRet false body = false ∧
    (At (C02.len body) [] [] k st bl ∨ At (C02.len body + 1) [.none] [] k st bl))

theorem operandOk_lower {code : C02.Code} {c : Code} (L : Lay code c) {k : Nat} {i : C02.Instr} {a : Option Nat}
    (ha : argOf (offL code) k (opOf i).2 = some a) : operandOk c (opOf i).1 (a.getD 0) = true := by
  cases i <;> simp only [opOf, operandOk] <;> simp only [opOf, argOf, Option.some.injEq] at ha <;>
    (try subst ha) <;>
    simp [L.nnames, L.nvars, L.consts, globIdx_lt, varIdx_lt]
  case loadConst kk => cases kk <;> simp [constIdx]

theorem jumpTargets_lower {code : C02.Code} {c : Code} (L : Lay code c) {k : Nat} {i : C02.Instr} {ln : Nat} {a : Option Nat}
    (hk : code[k]? = some (i, ln))
    (ha : argOf (offL code) k (opOf i).2 = some a) :
    ∀ t ∈ jumpTargets (offL code k) ⟨(opOf i).1, a.getD 0, isz i⟩, ∃ t0 ∈ tgtsOf i, t = offL code t0 := by
  have hs := L.succ hk
  cases i <;> simp only [opOf, argOf] at ha <;> (try split at ha) <;>
    simp only [Option.some.injEq, reduceCtorEq] at ha <;> (try subst ha) <;>
    simp [jumpTargets, tgtsOf, opOf, isz] at hs ⊢ <;> omega

theorem compile_safe_loopOnly {defLine : Nat} {body : C02.Stmt} {code : C02.Code} {c : Code}
    (hl : loopOnly body = true) (hc : C02.compileFn defLine body = .ok code)
    (hlow : lower code (stackNeed body) = some c) :
    (∀ s, Reach c s → SafeAt c s) ∧ (∀ pc, IsStart c pc → InstrOk c pc) := by
  have L := lay_of_lower hlow
  have htg := compileFn_targets hc
  unfold C02.compileFn at hc
  cases herr : C02.compErr [] 0 body with
  | some e => simp [herr] at hc
  | none =>
  simp only [herr, Except.ok.injEq] at hc
  -- layout of the code
  have hseg : Seg code 0 (C02.compS [] 0 defLine body) := by
    cases he : C02.endsRet false body with
    | true => simp only [he, if_true] at hc; rw [← hc]; exact Seg.self _
    | false => simp only [he] at hc; rw [← hc]; exact (Seg.self _).left
  have hlen : C02.endsRet false body = false → code.length = C02.len body + 2 := by
    intro he; simp only [he] at hc; rw [← hc]; simp [compS_length]
  have hlen' : C02.len body ≤ code.length := by
    cases he : C02.endsRet false body with
    | true => simp only [he, if_true] at hc; rw [← hc, compS_length]; exact Nat.le_refl _
    | false => rw [hlen he]; omega
  have hepi : C02.endsRet false body = false →
      code[C02.len body]? = some (.loadConst .none, C02.endLine defLine body) ∧
      code[C02.len body + 1]? = some (.returnValue, C02.endLine defLine body) := by
    intro he; simp only [he, Bool.false_eq_true, ↓reduceIte] at hc; rw [← hc]
    have h1 : (C02.compS [] 0 defLine body).length = C02.len body := compS_length _ _ _ _
    constructor
    · rw [List.getElem?_append_right (by omega)]; simp [h1]
    · rw [List.getElem?_append_right (by omega)]; simp [h1]
  let G := GFn (offL code) body
  have envTop : Env code G [] [] [] :=
    { ret := fun t => .inl (by simp [unwind])
      exc := fun t => .inr (.inl (by simp [unwind]))
      brk := by simp [C02.hasLoop]
      cont := by simp [C02.contInstr] }
  have closedG : ∀ k st bl, G k st bl → ∀ o ∈ step c ⟨offL code k, st, bl⟩, OKo code G o := by
    intro k st bl hg o ho
    rcases hg with h | ⟨he, ⟨rfl, rfl, rfl⟩ | ⟨rfl, rfl, rfl⟩⟩
    · exact closed L G body hl [] 0 defLine [] [] hseg herr (fun _ _ _ h => .inl h)
        (fun he => .inr ⟨he, .inl (At.mk' (by omega))⟩) envTop k st bl h o ho
    · rw [step_loadConstNone L (hepi he).1] at ho
      outs ho; subst ho
      exact okNext (.inr ⟨he, .inr (At.mk' rfl)⟩)
    · rw [step_returnValue L (hepi he).2] at ho
      outs ho; subst ho
      exact .inl (by simp [unwind])
  have rangeG : ∀ k st bl, G k st bl → k < code.length := by
    intro k st bl hg
    rcases hg with h | ⟨he, ⟨rfl, rfl, rfl⟩ | ⟨rfl, rfl, rfl⟩⟩
    · have := InS_range (offL code) body hl 0 [] [] k st bl h; omega
    · rw [hlen he]; omega
    · rw [hlen he]; omega
  have depthG : ∀ k st bl, G k st bl → st.length ≤ stackNeed body := by
    intro k st bl hg
    unfold stackNeed
    rcases hg with h | ⟨he, ⟨rfl, rfl, rfl⟩ | ⟨rfl, rfl, rfl⟩⟩
    · have := InS_depth (offL code) body hl 0 [] [] k st bl h
      simp only [List.length_nil] at this; omega
    · simp
    · simp; omega
  have startOK : ∀ k, k < code.length → IsStart c (offL code k) := fun k hk =>
    ⟨_, lower_starts hlow, List.mem_map.2 ⟨k, List.mem_range.2 hk, rfl⟩⟩
  have inv : ∀ s, Reach c s → ∃ k, s.pc = offL code k ∧ G k s.stk s.blk := by
    intro s hr
    induction hr with
    | init =>
      refine ⟨0, (offL_zero code).symm, ?_⟩
      rcases InS_entry (offL code) body hl 0 [] [] with hb | hb
      · exact .inr ⟨by rw [len_zero_endsRet body _ hb], .inl (At.mk' (by omega))⟩
      · exact .inl hb
    | @next s s' _ hs ih =>
      obtain ⟨k, hk, hg⟩ := ih
      obtain ⟨pc, stk, blk⟩ := s
      simp only at hk hg; subst hk
      rcases closedG k stk blk hg _ hs with h | h | ⟨k', stk', blk', h, hg'⟩
      · cases h
      · cases h
      · cases h; exact ⟨k', rfl, hg'⟩
    | @resume s s' _ hs ih =>
      obtain ⟨k, hk, hg⟩ := ih
      obtain ⟨pc, stk, blk⟩ := s
      simp only at hk hg; subst hk
      rcases closedG k stk blk hg _ hs with h | h | ⟨k', stk', blk', h, hg'⟩
      · cases h
      · cases h
      · cases h
  refine ⟨?_, ?_⟩
  · intro s hr
    obtain ⟨k, hk, hg⟩ := inv s hr
    obtain ⟨pc, stk, blk⟩ := s
    simp only at hk hg; subst hk
    refine ⟨startOK k (rangeG k stk blk hg), ?_, ?_⟩
    · rw [(lower_fields hlow).2.2.2.2.1]; exact depthG k stk blk hg
    · intro m hm
      rcases closedG k stk blk hg _ hm with h | h | ⟨k', stk', blk', h, hg'⟩ <;> cases h
  · intro pc hs
    obtain ⟨l, hl', hm⟩ := hs
    rw [lower_starts hlow, Option.some.injEq] at hl'
    subst hl'
    obtain ⟨k, hk, rfl⟩ := List.mem_map.1 hm
    have hk' : k < code.length := List.mem_range.1 hk
    have hget : code[k]? = some (code[k].1, code[k].2) := by simp [List.getElem?_eq_getElem hk']
    obtain ⟨a, ha, hd⟩ := L.dec hget
    refine ⟨_, hd, operandOk_lower L ha, ?_⟩
    intro t ht
    obtain ⟨t0, ht0, rfl⟩ := jumpTargets_lower L hget ha t ht
    exact startOK t0 (htg code[k] (List.getElem_mem hk') t0 ht0)

/-- the (empty) line table `lower` declares is well-formed (the real table is goal g4's) -/
theorem lower_lnotabOk {code : C02.Code} {ss : Nat} {c : Code} (h : lower code ss = some c) : LnotabOk c := by
  unfold lower at h
  split at h
  · cases h
  · cases h
    refine ⟨by simp, ?_, .inl rfl⟩
    simp [lnotabSums]

end GPy.C12
