/-
C12 second pass (core Lean only): `gpymodel C12verify` reads, per program, the code
objects dumped by `gpyh C12` (one `O` line each) and the distinct VM states the
hook H2 observed (`T` lines), runs the PROVED verifier on every object and checks
every observation against the certificate.  One reply line per program (`E`).
[C12-ext2 g3] `S` lines: two CONSECUTIVE observations of one frame, checked against the abstract machine's
step relation (`stepConforms`; its exact meaning is proved in ConformProofs.lean); `I` lines: the first
observation of a frame (must be pc 0, empty stack, no block).
-/
import GPy.C12.Verify
import GPy.C12.Depth  -- [C12-ext2 g1]
namespace GPy.C12

def hexVal (c : Char) : Nat :=
  if '0' ≤ c ∧ c ≤ '9' then c.toNat - '0'.toNat
  else if 'a' ≤ c ∧ c ≤ 'f' then c.toNat - 'a'.toNat + 10
  else if 'A' ≤ c ∧ c ≤ 'F' then c.toNat - 'A'.toNat + 10 else 0

def parseHex (s : String) : Array Nat := Id.run do
  if s == "-" then return #[]
  let cs := s.toList.toArray
  let mut out : Array Nat := Array.mkEmpty (cs.size / 2)
  let mut i := 0
  while i + 1 < cs.size do
    out := out.push (hexVal cs[i]! * 16 + hexVal cs[i+1]!)
    i := i + 2
  return out

def parseConsts (s : String) : Array ConstK :=
  if s == "-" then #[] else
  s.toList.toArray.map (fun ch => if ch == 'N' then ConstK.none else if ch == 'C' then ConstK.code else ConstK.other)

/-- `O idx hex consts nnames nvarnames ncells stacksize lnotab firstlineno nlines flags name` -/
def parseCode (f : List String) : Option (Nat × Code) :=
  match f with
  | [_, idx, hex, ks, nn, nv, nc, ss, ln, fl, nl, flags, name] =>
    some (idx.toNat!, { code := parseHex hex, consts := parseConsts ks, nnames := nn.toNat!, nvarnames := nv.toNat!,
                        ncells := nc.toNat!, stacksize := ss.toNat!, lnotab := parseHex ln, firstlineno := fl.toNat!,
                        nlines := nl.toNat!, flags := flags.toNat!, name := name })
  | _ => none

/-- an observed stack entry: N (None) / E (exception class) / O (other) / I<v> (py.Int v) -/
def kindMatches (k : Kind) (obs : String) : Bool :=
  match k with
  | .obj => true
  | .none => obs == "N"
  | .exc => obs == "E"
  | .why w => obs == s!"I{w.code}"
  | .tgt t => obs == s!"I{t}"

def obsBlockStr (blk : List Block) : String :=
  if blk.isEmpty then "-" else ",".intercalate (blk.reverse.map Block.str)

/-- does some predicted state at `pc` explain the observation? -/
def conforms (cert : Cert) (pc depth : Nat) (kinds : List String) (blocks : String) : Bool :=
  (cert.at pc).any fun a =>
    a.1.length == depth && obsBlockStr a.2 == blocks &&
    (kinds.isEmpty || ((a.1.reverse.zip kinds).all fun (k, o) => kindMatches k o))

-- [C12-ext2 g3] begin
/-- does the abstract state `a` explain an observed (depth, kinds bottom-first, block stack string)? -/
def matchAS (a : AS) (depth : Nat) (kinds : List String) (blocks : String) : Bool :=
  a.1.length == depth && obsBlockStr a.2 == blocks &&
  (kinds.isEmpty || ((a.1.reverse.zip kinds).all fun (k, o) => kindMatches k o))

/-- an observation as the harness prints it -/
structure Obs where
  pc : Nat
  depth : Nat
  kinds : List String
  blocks : String

def Obs.parse (pc depth kinds blocks : String) : Obs :=
  ⟨pc.toNat!, depth.toNat!, if kinds == "-" then [] else kinds.splitOn ",", blocks⟩

/-- does the outcome continue the frame in a state that explains `o2`?  (`yield s'`: the frame is suspended and
`s'` is the state in which it is observed again, after `Generator.Send` pushed the sent value) -/
def outcomeMatches (o2 : Obs) : Outcome → Bool
  | .next s' => s'.pc == o2.pc && matchAS (s'.stk, s'.blk) o2.depth o2.kinds o2.blocks
  | .yield s' => s'.pc == o2.pc && matchAS (s'.stk, s'.blk) o2.depth o2.kinds o2.blocks
  | _ => false

/-- two consecutive observations of one frame are an instance of the abstract machine's step relation:
some predicted state at `o1.pc` explains `o1` and one of its `step` outcomes explains `o2` -/
def stepConforms (c : Code) (cert : Cert) (o1 o2 : Obs) : Bool :=
  (cert.at o1.pc).any fun a =>
    matchAS a o1.depth o1.kinds o1.blocks && (step c ⟨o1.pc, a.1, a.2⟩).any (outcomeMatches o2)

def outcomeStr : Outcome → String
  | .next s => s!"next pc={s.pc} {stkStr s.stk}{blkStr s.blk}"
  | .yield s => s!"resume pc={s.pc} {stkStr s.stk}{blkStr s.blk}"
  | .ret => "return"
  | .raise => "raise"
  | .bad m => s!"bad({m})"
-- [C12-ext2 g3] end

structure ProgAcc where
  -- [C12-ext2 g3] begin
  codes : Array Code := #[]
  trans : Nat := 0                     -- distinct transitions checked against `step`
  starts : Nat := 0                    -- distinct first observations of a frame
  -- [C12-ext2 g3] end
  certs : Array (Option Cert) := #[]
  names : Array String := #[]
  verdict : Option String := none      -- first failure
  objs : Nat := 0
  states : Nat := 0
  maxdepth : Nat := 0
  obs : Nat := 0
  tight : Nat := 0                     -- objects whose predicted max depth equals Stacksize
  -- [C12-ext2 g1] begin: gpython's StackDepth() (model) on the disassembled stream of every emitted object
  dwalked : Nat := 0                   -- objects the walk was evaluated on (at most `depthWalkLimit` instructions)
  deq : Nat := 0                       -- … whose model StackDepth() equals the real Stacksize
  dclosed : Nat := 0                   -- … whose walk result is closed under its own edge rules (hypothesis 1)
  dexcl : Nat := 0                     -- … whose certificate predicts an excluded state shape (hypothesis 2 fails)
  dthm : Nat := 0                      -- … to which stackdepth_upper_bound_partial applies (closed, not excluded)
  dbelow : Nat := 0                    -- … whose model StackDepth() is BELOW the certificate's max depth (must stay 0)
  dhigh : Nat := 0                     -- … whose model StackDepth() is ABOVE the real Stacksize (labels merged by `disasm` can only prune more)
  -- [C12-ext2 g1] end
  -- [C12-ext2 g4] begin
  lines : Nat := 0                     -- traceback entries whose line was recomputed with `addr2line`
  -- [C12-ext2 g4] end

-- [C12-ext2 g1] begin
def depthWalkLimit : Nat := 250

def ProgAcc.depthStats (p : ProgAcc) (c : Code) (cert : Cert) : ProgAcc :=
  if cert.starts.length > depthWalkLimit then p else
  match walkOf c with
  | none => { p with dwalked := p.dwalked + 1 }
  | some w =>
    let closed := depthClosedB c (walkD c w) w.maxdepth
    let excl := walkExcludedB c cert
    { p with dwalked := p.dwalked + 1,
             deq := p.deq + (if w.maxdepth == (c.stacksize : Int) then 1 else 0),
             dclosed := p.dclosed + (if closed then 1 else 0),
             dexcl := p.dexcl + (if excl then 1 else 0),
             dthm := p.dthm + (if closed && !excl then 1 else 0),
             dbelow := p.dbelow + (if w.maxdepth < (cert.maxDepth : Int) then 1 else 0),
             dhigh := p.dhigh + (if w.maxdepth > (c.stacksize : Int) then 1 else 0) }
-- [C12-ext2 g1] end

def ProgAcc.fail (p : ProgAcc) (m : String) : ProgAcc :=
  match p.verdict with | none => { p with verdict := some m } | some _ => p

def handleLine (p : ProgAcc) (line : String) : ProgAcc :=
  let f := line.splitOn " "
  match f.head? with
  | some "O" =>
    match parseCode f with
    | none => p.fail s!"PROTOCOL bad O line"
    | some (idx, c) =>
      let p := { p with objs := p.objs + 1, names := p.names.push c.name, codes := p.codes.push c }
      match verify c with
      | .ok cert =>
        let p := p.depthStats c cert   -- [C12-ext2 g1]
        { p with certs := p.certs.push (some cert), states := p.states + cert.numStates,
                 maxdepth := max p.maxdepth cert.maxDepth,
                 tight := p.tight + (if cert.maxDepth == c.stacksize then 1 else 0) }
      | .error e => { p with certs := p.certs.push none }.fail s!"REJECT obj={idx}:{c.name} {e}"
  | some "T" =>
    match f with
    | [_, idx, pc, depth, kinds, blocks] =>
      let p := { p with obs := p.obs + 1 }
      match p.certs[idx.toNat!]? with
      | some (some cert) =>
        let ks := if kinds == "-" then [] else kinds.splitOn ","
        if conforms cert pc.toNat! depth.toNat! ks blocks then p
        else
          let pred := "|".intercalate ((cert.at pc.toNat!).map fun a => s!"{stkStr a.1}{blkStr a.2}")
          p.fail s!"MISMATCH obj={idx}:{p.names[idx.toNat!]!} pc={pc} observed depth={depth} kinds={kinds} blocks={blocks} predicted={pred}"
      | _ => p
    | _ => p.fail "PROTOCOL bad T line"
  -- [C12-ext2 g3] begin
  | some "I" =>
    -- first observation of a frame: RunFrame starts at Lasti 0 with an empty value stack and no block
    match f with
    | [_, idx, pc, depth, kinds, blocks] =>
      let p := { p with starts := p.starts + 1 }
      if pc == "0" && depth == "0" && blocks == "-" then p
      else p.fail s!"START-MISMATCH obj={idx}:{p.names[idx.toNat!]!} first observation of a frame at pc={pc} depth={depth} kinds={kinds} blocks={blocks} (expected pc=0, empty stack, no block)"
    | _ => p.fail "PROTOCOL bad I line"
  | some "S" =>
    match f with
    | [_, idx, pc1, d1, k1, b1, pc2, d2, k2, b2] =>
      let p := { p with trans := p.trans + 1 }
      match p.certs[idx.toNat!]?, p.codes[idx.toNat!]? with
      | some (some cert), some c =>
        let o1 := Obs.parse pc1 d1 k1 b1
        let o2 := Obs.parse pc2 d2 k2 b2
        if stepConforms c cert o1 o2 then p
        else
          let cands := (cert.at o1.pc).filter fun a => matchAS a o1.depth o1.kinds o1.blocks
          let succ := "|".intercalate (cands.map fun a =>
            s!"{stkStr a.1}{blkStr a.2} => " ++ "; ".intercalate ((step c ⟨o1.pc, a.1, a.2⟩).map outcomeStr))
          let ins := match decodeAt c.code o1.pc with | some i => s!"{repr i.op} {i.arg}" | none => "?"
          p.fail s!"STEP-MISMATCH obj={idx}:{p.names[idx.toNat!]!} pc1={pc1} ({ins}) depth={d1} kinds={k1} blocks={b1} → pc2={pc2} observed depth={d2} kinds={k2} blocks={b2} possible successors {succ}"
      | _, _ => p
    | _ => p.fail "PROTOCOL bad S line"
  -- [C12-ext2 g3] end
  -- [C12-ext2 g4] begin
  -- `L idx lasti lineno`: a traceback entry of the real run; py/traceback.go's Lineno must be `addr2line c (lasti - 1)`
  | some "L" =>
    match f with
    | [_, idx, lasti, lineno] =>
      match p.codes[idx.toNat!]? with
      | some c =>
        let want := addr2line c (lasti.toNat! - 1)
        if want == lineno.toNat! then { p with lines := p.lines + 1 }
        else p.fail s!"LINEMISMATCH obj={idx}:{c.name} lasti={lasti} traceback line={lineno} addr2line={want}"
      | none => p.fail "PROTOCOL L line for an unknown object"
    | _ => p.fail "PROTOCOL bad L line"
  -- [C12-ext2 g4] end
  | _ => p.fail s!"PROTOCOL unknown line"

partial def verifyLoop (stdin : IO.FS.Stream) (stdout : IO.FS.Stream) (p : ProgAcc) : IO Unit := do
  let line ← stdin.getLine
  if line.isEmpty then return
  let line := String.ofList (line.toList.reverse.dropWhile (fun ch => ch == '\n' || ch == '\r' || ch == ' ')).reverse
  if line == "E" then
    match p.verdict with
    | some m => stdout.putStrLn m
    | none => stdout.putStrLn (s!"ok objs={p.objs} states={p.states} maxdepth={p.maxdepth} obs={p.obs} tight={p.tight} trans={p.trans} starts={p.starts}" ++
        s!" dw={p.dwalked} deq={p.deq} dclosed={p.dclosed} dexcl={p.dexcl} dthm={p.dthm} dbelow={p.dbelow} dhigh={p.dhigh}" ++   -- [C12-ext2 g1]
        (if p.lines == 0 then "" else s!" lines={p.lines}"))  -- [C12-ext2 g4] ` lines=` suffix
    stdout.flush
    verifyLoop stdin stdout {}
  else
    verifyLoop stdin stdout (handleLine p line)

def verifyMain : IO Unit := do
  verifyLoop (← IO.getStdin) (← IO.getStdout) {}

end GPy.C12
