/-
C12 second pass (core Lean only): `gpymodel C12verify` reads, per program, the code
objects dumped by `gpyh C12` (one `O` line each) and the distinct VM states the
hook H2 observed (`T` lines), runs the PROVED verifier on every object and checks
every observation against the certificate.  One reply line per program (`E`).
-/
import GPy.C12.Verify
namespace GPy.C12

def hexVal (c : Char) : Nat :=
  if '0' ≤ c ∧ c ≤ '9' then c.toNat - '0'.toNat
  else if 'a' ≤ c ∧ c ≤ 'f' then c.toNat - 'a'.toNat + 10
  else if 'A' ≤ c ∧ c ≤ 'F' then c.toNat - 'A'.toNat + 10 else 0

def parseHex (s : String) : Array Nat := Id.run do
  if s == "-" then return #[]
  let cs := s.toList.toArray
  let mut out : Array Nat := Array.mkEmpty (cs.size / 2)
  let mut i := 0
  while i + 1 < cs.size do
    out := out.push (hexVal cs[i]! * 16 + hexVal cs[i+1]!)
    i := i + 2
  return out

def parseConsts (s : String) : Array ConstK :=
  if s == "-" then #[] else
  s.toList.toArray.map (fun ch => if ch == 'N' then ConstK.none else if ch == 'C' then ConstK.code else ConstK.other)

/-- `O idx hex consts nnames nvarnames ncells stacksize lnotab firstlineno nlines flags name` -/
def parseCode (f : List String) : Option (Nat × Code) :=
  match f with
  | [_, idx, hex, ks, nn, nv, nc, ss, ln, fl, nl, flags, name] =>
    some (idx.toNat!, { code := parseHex hex, consts := parseConsts ks, nnames := nn.toNat!, nvarnames := nv.toNat!,
                        ncells := nc.toNat!, stacksize := ss.toNat!, lnotab := parseHex ln, firstlineno := fl.toNat!,
                        nlines := nl.toNat!, flags := flags.toNat!, name := name })
  | _ => none

/-- an observed stack entry: N (None) / E (exception class) / O (other) / I<v> (py.Int v) -/
def kindMatches (k : Kind) (obs : String) : Bool :=
  match k with
  | .obj => true
  | .none => obs == "N"
  | .exc => obs == "E"
  | .why w => obs == s!"I{w.code}"
  | .tgt t => obs == s!"I{t}"

def obsBlockStr (blk : List Block) : String :=
  if blk.isEmpty then "-" else ",".intercalate (blk.reverse.map Block.str)

/-- does some predicted state at `pc` explain the observation? -/
def conforms (cert : Cert) (pc depth : Nat) (kinds : List String) (blocks : String) : Bool :=
  (cert.at pc).any fun a =>
    a.1.length == depth && obsBlockStr a.2 == blocks &&
    (kinds.isEmpty || ((a.1.reverse.zip kinds).all fun (k, o) => kindMatches k o))

structure ProgAcc where
  certs : Array (Option Cert) := #[]
  names : Array String := #[]
  verdict : Option String := none      -- first failure
  objs : Nat := 0
  states : Nat := 0
  maxdepth : Nat := 0
  obs : Nat := 0
  tight : Nat := 0                     -- objects whose predicted max depth equals Stacksize

def ProgAcc.fail (p : ProgAcc) (m : String) : ProgAcc :=
  match p.verdict with | none => { p with verdict := some m } | some _ => p

def handleLine (p : ProgAcc) (line : String) : ProgAcc :=
  let f := line.splitOn " "
  match f.head? with
  | some "O" =>
    match parseCode f with
    | none => p.fail s!"PROTOCOL bad O line"
    | some (idx, c) =>
      let p := { p with objs := p.objs + 1, names := p.names.push c.name }
      match verify c with
      | .ok cert =>
        { p with certs := p.certs.push (some cert), states := p.states + cert.numStates,
                 maxdepth := max p.maxdepth cert.maxDepth,
                 tight := p.tight + (if cert.maxDepth == c.stacksize then 1 else 0) }
      | .error e => { p with certs := p.certs.push none }.fail s!"REJECT obj={idx}:{c.name} {e}"
  | some "T" =>
    match f with
    | [_, idx, pc, depth, kinds, blocks] =>
      let p := { p with obs := p.obs + 1 }
      match p.certs[idx.toNat!]? with
      | some (some cert) =>
        let ks := if kinds == "-" then [] else kinds.splitOn ","
        if conforms cert pc.toNat! depth.toNat! ks blocks then p
        else
          let pred := "|".intercalate ((cert.at pc.toNat!).map fun a => s!"{stkStr a.1}{blkStr a.2}")
          p.fail s!"MISMATCH obj={idx}:{p.names[idx.toNat!]!} pc={pc} observed depth={depth} kinds={kinds} blocks={blocks} predicted={pred}"
      | _ => p
    | _ => p.fail "PROTOCOL bad T line"
  | _ => p.fail s!"PROTOCOL unknown line"

partial def verifyLoop (stdin : IO.FS.Stream) (stdout : IO.FS.Stream) (p : ProgAcc) : IO Unit := do
  let line ← stdin.getLine
  if line.isEmpty then return
  let line := String.ofList (line.toList.reverse.dropWhile (fun ch => ch == '\n' || ch == '\r' || ch == ' ')).reverse
  if line == "E" then
    match p.verdict with
    | some m => stdout.putStrLn m
    | none => stdout.putStrLn s!"ok objs={p.objs} states={p.states} maxdepth={p.maxdepth} obs={p.obs} tight={p.tight}"
    stdout.flush
    verifyLoop stdin stdout {}
  else
    verifyLoop stdin stdout (handleLine p line)

def verifyMain : IO Unit := do
  verifyLoop (← IO.getStdin) (← IO.getStdout) {}

end GPy.C12
