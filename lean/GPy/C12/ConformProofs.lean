/-
C12: what an accepted `S` line (two consecutive H2 observations of one frame) means.

`stepConforms` (Conform.lean, linked into `gpymodel-C12 C12verify`) is the executable matcher; here it is
characterised exactly: it answers `true` iff the observed pair is an INSTANCE OF THE STEP RELATION of the abstract
machine between two abstract states that explain the two observations, the first of them predicted by the
certificate.  (Soundness and completeness of the matcher w.r.t. `step`; the parser of the line is not covered.)
-/
import GPy.C12.Conform
import GPy.C12.Proofs
namespace GPy.C12

/-- the abstract state `s` explains the observation `o`: same pc, same depth, same block stack (types, handlers,
levels), and every abstract kind allows the observed kind of the entry at its position -/
def Explains (s : State) (o : Obs) : Prop :=
  s.pc = o.pc ∧ matchAS (s.stk, s.blk) o.depth o.kinds o.blocks = true

/-- the frame continues from `s` in `s'`: by an ordinary step or by being suspended and resumed -/
def Continues (c : Code) (s s' : State) : Prop :=
  Outcome.next s' ∈ step c s ∨ Outcome.yield s' ∈ step c s

theorem outcomeMatches_iff (o2 : Obs) (o : Outcome) :
    outcomeMatches o2 o = true ↔ ∃ s', (o = .next s' ∨ o = .yield s') ∧ Explains s' o2 := by
  cases o with
  | next s => simp [outcomeMatches, Explains]
  | yield s => simp [outcomeMatches, Explains]
  | ret => simp [outcomeMatches]
  | raise => simp [outcomeMatches]
  | bad m => simp [outcomeMatches]

/-- exact meaning of the transition check -/
theorem stepConforms_iff (c : Code) (cert : Cert) (o1 o2 : Obs) :
    stepConforms c cert o1 o2 = true ↔
      ∃ a ∈ cert.at o1.pc, Explains ⟨o1.pc, a.1, a.2⟩ o1 ∧
        ∃ s', Continues c ⟨o1.pc, a.1, a.2⟩ s' ∧ Explains s' o2 := by
  unfold stepConforms
  simp only [List.any_eq_true, Bool.and_eq_true]
  constructor
  · rintro ⟨a, ha, hm, o, ho, hom⟩
    obtain ⟨s', hs', he⟩ := (outcomeMatches_iff o2 o).1 hom
    refine ⟨a, ha, ⟨rfl, hm⟩, s', ?_, he⟩
    rcases hs' with rfl | rfl
    · exact .inl ho
    · exact .inr ho
  · rintro ⟨a, ha, ⟨_, hm⟩, s', hc, he⟩
    refine ⟨a, ha, hm, ?_⟩
    rcases hc with h | h
    · exact ⟨_, h, (outcomeMatches_iff o2 _).2 ⟨s', .inl rfl, he⟩⟩
    · exact ⟨_, h, (outcomeMatches_iff o2 _).2 ⟨s', .inr rfl, he⟩⟩

/-- in a checked certificate the successor of a predicted state is predicted again -/
theorem continues_in_cert {c : Code} {cert : Cert} (f : CheckFacts c cert) (s s' : State)
    (h : (s.stk, s.blk) ∈ cert.at s.pc) (hc : Continues c s s') : (s'.stk, s'.blk) ∈ cert.at s'.pc := by
  have hs := f.closed s.pc _ h
  unfold stateOk at hs
  simp only [Bool.and_eq_true, decide_eq_true_eq, List.all_eq_true] at hs
  rcases hc with hc | hc
  · have := hs.2 _ hc
    simpa [outcomeOk] using this
  · have := hs.2 _ hc
    simpa [outcomeOk] using this

/-- (test helpers) run the verifier, then the transition check -/
def stepAcceptedAt (c : Code) (o1 o2 : Obs) : Bool :=
  match verify c with | .ok cert => stepConforms c cert o1 o2 | .error _ => false
def stepRefusedAt (c : Code) (o1 o2 : Obs) : Bool :=
  match verify c with | .ok cert => !stepConforms c cert o1 o2 | .error _ => false

theorem stepAcceptedAt_spec {c : Code} {o1 o2 : Obs} (h : stepAcceptedAt c o1 o2 = true) :
    ∃ cert, verify c = .ok cert ∧ stepConforms c cert o1 o2 = true := by
  unfold stepAcceptedAt at h
  split at h
  · exact ⟨_, by assumption, h⟩
  · cases h

end GPy.C12
