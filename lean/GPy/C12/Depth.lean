/-
C12 (core Lean only): gpython's own `StackDepth()` applied to an EMITTED code object.

`disasm` rebuilds, from the byte string, the instruction stream `compile/instructions.go` had in its
hands when it computed `Stacksize` (one label per instruction start, the jumps as `JumpAbs` /
`JumpRel` with the label of their target – exactly the case split of `compiler.Jump`); `walkOf` runs
the model of `stackDepthWalk` (Assemble.lean) on it; `walkD` turns the walk's `startDepth` map into a
depth per byte offset by replaying the walk's linear pass; `depthClosedB` checks that this depth
assignment is closed under the walk's own edge rules (it is not when the `seen` pruning cut an edge
that would have raised a target's depth); `walkExcludedB` looks for the two state shapes the table
does not cover.  Props.stackdepth_upper_bound_partial: closed ∧ not excluded ⟹ `StackDepth()` bounds
the depth of every reachable state.  The co-process (Conform.lean) evaluates all of this for every
emitted code object, and compares `StackDepth()` of the model with the object's real `Stacksize`.
-/
import GPy.C12.Verify
import GPy.C12.Assemble
namespace GPy.C12
open Generated

/-- `compiler.Jump`: which opcodes are emitted as JumpAbs / JumpRel -/
def disasmI (pc : Nat) (i : Instr) : AInstr :=
  match i.op with
  | .JUMP_IF_FALSE_OR_POP | .JUMP_IF_TRUE_OR_POP | .JUMP_ABSOLUTE | .POP_JUMP_IF_FALSE | .POP_JUMP_IF_TRUE
  | .CONTINUE_LOOP => .jabs i.op i.arg i.arg
  | .JUMP_FORWARD | .SETUP_WITH | .FOR_ITER | .SETUP_LOOP | .SETUP_EXCEPT | .SETUP_FINALLY =>
    .jrel i.op i.arg (pc + i.size + i.arg)
  | op => if i.size = 1 then .op op else .oparg op i.arg

/-- the stream: per instruction start `pc` the label `pc` followed by the instruction -/
def disasm (c : Code) : List AInstr :=
  match instrStarts c.code with
  | none => []
  | some l => l.flatMap fun pc =>
    match decodeAt c.code pc with
    | some i => [.label pc, disasmI pc i]
    | none => []

def walkFuel (n : Nat) : Nat := 4 * (n + 2) * (n + 2) + 64

/-- `Instructions.StackDepth()` on the disassembled stream, keeping the whole final state -/
def walkOf (c : Code) : Option WalkSt :=
  let a := (disasm c).toArray
  stackDepthWalk a (walkFuel a.size) 0 0 ⟨[], [], 0⟩

/-- the fall-through / jump-target adjustments of `stackDepthWalk` (same formulas as
Proofs.walkFall / walkTarget, repeated here so that the driver does not link the proofs) -/
def wFall (op : Op) (e : Int) : Int :=
  if op = .JUMP_IF_TRUE_OR_POP ∨ op = .JUMP_IF_FALSE_OR_POP then e - 1 else e
def wTarget (op : Op) (e : Int) : Int :=
  if op = .FOR_ITER then e - 2 else if op = .SETUP_FINALLY ∨ op = .SETUP_EXCEPT then e + 3 else e

def optMax : Option Int → Option Int → Option Int
  | some a, some b => some (max a b)
  | some a, none => some a
  | none, b => b

/-- replay of the walk's linear pass: depth on entry of every instruction (and of the end position),
`S pc` = the depth the walk recorded for a jump into `pc` -/
def propagate (c : Code) (S : Nat → Option Int) : List Nat → Option Int → List (Nat × Int)
  | [], cur => match cur with | some d => [(c.code.size, d)] | none => []
  | pc :: rest, cur =>
    match optMax cur (S pc), decodeAt c.code pc with
    | some d, some i =>
      (pc, d) :: propagate c S rest
        (if i.op = .JUMP_ABSOLUTE ∨ i.op = .JUMP_FORWARD then none
         else (opcodeStackEffect i.op i.arg).map fun e => d + wFall i.op e)
    | _, _ => propagate c S rest none

/-- the walk's depth per byte offset (array of size `len(code) + 1`) -/
def walkD (c : Code) (w : WalkSt) : Array (Option Int) :=
  let a := (disasm c).toArray
  let S : Nat → Option Int := fun pc => match labelIndex a pc with | some n => w.start? n | none => none
  let starts := (instrStarts c.code).getD []
  (propagate c S starts none).foldl (fun arr (p : Nat × Int) => arr.set! p.1 (some p.2)) (Array.replicate (c.code.size + 1) none)

/-- is the depth assignment closed under the edges the walk follows, and bounded by `m`? -/
def depthClosedB (c : Code) (D : Array (Option Int)) (m : Int) : Bool :=
  (match D.getD 0 none with | some d => decide (0 ≤ d) | none => false) &&
  (List.range D.size).all fun pc =>
    match D.getD pc none with
    | none => true
    | some d => decide (d ≤ m) &&
      match decodeAt c.code pc with
      | none => true
      | some i => decide (i.arg < 2147483648) &&
        match opcodeStackEffect i.op i.arg with
        | none => false
        | some e =>
          (decide (i.op = .JUMP_ABSOLUTE) || decide (i.op = .JUMP_FORWARD) ||
            (match D.getD (pc + i.size) none with | some d' => decide (d + wFall i.op e ≤ d') | none => false)) &&
          (jumpTargets pc i).all fun t =>
            match D.getD t none with | some dt => decide (d + wTarget i.op e ≤ dt) | none => false

/-- does the certificate predict one of the two state shapes the walk's table does not cover? -/
def walkExcludedB (c : Code) (cert : Cert) : Bool :=
  (List.range cert.states.size).any fun pc => (cert.at pc).any fun a =>
    decide (Kind.why .cont ∈ a.1) ||
    (match decodeAt c.code pc with
     | some i => decide (i.op = .WITH_CLEANUP) && decide (a.1.head? = some .exc)
     | none => false)

end GPy.C12
