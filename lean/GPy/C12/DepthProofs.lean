/-
C12: `stackdepth_upper_bound` – the global induction.  A depth assignment `D : pc → Option Int`
that is closed under the edge rules of gpython's `stackDepthWalk` (fall-through edge with the
table effect, `− 1` for JUMP_IF_*_OR_POP; jump edge with `− 2` for FOR_ITER and `+ 3` for
SETUP_EXCEPT / SETUP_FINALLY; nothing after JUMP_ABSOLUTE / JUMP_FORWARD) dominates the depth of
every state the abstract machine reaches – by induction over `Reach`, with `execI_edge_le`
(= `effect_table_agrees`) for the instruction edges and a block-stack invariant for the unwinding
edges (`unwind_inv`, the global form of `unwind_entry_depth`).
-/
import GPy.C12.Proofs
import GPy.C12.Depth
namespace GPy.C12
open Generated

/-- what the walk has paid for a block when it followed the SETUP instruction's jump edge: a loop
block's handler is entered with at most `level` entries (break), an except / finally / with block's
handler with at most `level + 6` (exception; return and continue 2, break 1) -/
def BI (D : Nat → Option Int) (b : Block) : Prop :=
  match b.ty with
  | .loop => ∃ d, D b.handler = some d ∧ (b.level : Int) ≤ d
  | .except => ∃ d, D b.handler = some d ∧ (b.level : Int) + 6 ≤ d
  | .finally => ∃ d, D b.handler = some d ∧ (b.level : Int) + 6 ≤ d
  | .handler => True

/-- the invariant: the depth is at most the walk's depth at this pc, and every block on the block
stack has been paid for -/
def DInv (D : Nat → Option Int) (s : State) : Prop :=
  (∃ d, D s.pc = some d ∧ (s.stk.length : Int) ≤ d) ∧ ∀ b ∈ s.blk, BI D b

/-- `D` is closed under the edges `stackDepthWalk` follows, and bounded by `m` -/
structure DepthClosed (c : Code) (D : Nat → Option Int) (m : Int) : Prop where
  init : ∃ d, D 0 = some d ∧ 0 ≤ d
  edge : ∀ pc d i, D pc = some d → decodeAt c.code pc = some i →
    i.arg < 2147483648 ∧ ∃ e, opcodeStackEffect i.op i.arg = some e ∧
      (i.op ≠ .JUMP_ABSOLUTE → i.op ≠ .JUMP_FORWARD → ∃ d', D (pc + i.size) = some d' ∧ d + walkFall i.op e ≤ d') ∧
      (∀ t ∈ jumpTargets pc i, ∃ dt, D t = some dt ∧ d + walkTarget i.op e ≤ dt)
  bound : ∀ pc d, D pc = some d → d ≤ m

/-- the two state shapes the walk's table does not cover (the exclusions of
`stackdepth_upper_bound_partial`): a `continue` that is pending through a `finally` (WHY_CONTINUE on
the value stack: the target it will jump to is not an operand of the instruction that re-raises it),
and WITH_CLEANUP entered with an exception (`effect_table_agrees`'s slack term) -/
def WalkExcluded (c : Code) (s : State) : Prop :=
  Kind.why .cont ∈ s.stk ∨ ∃ i, decodeAt c.code s.pc = some i ∧ i.op = .WITH_CLEANUP ∧ s.stk.head? = some .exc

/-- per result of one instruction: blocks and unwinding reasons -/
def ResInv (pc : Nat) (i : Instr) (stk : List Kind) (blk : List Block) (e : Int) : Res → Prop
  | .norm _ _ blk' => blk' = blk ∨ (∃ b, blk = b :: blk') ∨
      (∃ ty lvl, blk' = ⟨ty, pc + i.size + i.arg, lvl⟩ :: blk ∧ (pc + i.size + i.arg) ∈ jumpTargets pc i ∧ ty ≠ .handler ∧
       (ty = .loop → (lvl : Int) ≤ stk.length + walkTarget i.op e) ∧
       (ty ≠ .loop → (lvl : Int) + 6 ≤ stk.length + walkTarget i.op e))
  | .unw w stk' blk' => (blk' = blk ∨ ∃ b, blk = b :: blk') ∧
      ∀ t, w = .cont t → (Kind.why .cont ∈ stk ∨ (t ∈ jumpTargets pc i ∧ 0 ≤ walkTarget i.op e ∧ stk'.length ≤ stk.length))
  | .yld pc' stk' blk' => blk' = blk ∧
      ((pc' = pc + i.size ∧ (stk'.length : Int) + 1 ≤ stk.length + walkFall i.op e) ∨ (pc' = pc ∧ stk'.length + 1 ≤ stk.length))
  | .bad _ => True

theorem special_resinv (pc : Nat) (i : Instr) (stk : List Kind) (blk : List Block) (e : Int)
    (h2 : opcodeStackEffect i.op i.arg = some e)
    (hx : ¬ (i.op = .WITH_CLEANUP ∧ stk.head? = some .exc)) :
    ∀ r ∈ execSpecial pc i stk blk, ResInv pc i stk blk e r := by
  obtain ⟨op, arg, size⟩ := i
  cases op <;> simp only [opcodeStackEffect] at h2 <;> (try cases h2) <;>
    simp only [execSpecial, under] <;>
    (repeat' split) <;>
    simp [ResInv, walkFall, walkTarget, jumpTargets, truncate, objs] at * <;>
    (first
      | omega
      | (refine Or.inr ⟨_, _, ⟨rfl, rfl⟩, by decide, ?_, ?_⟩ <;> intro h <;>
          (first | omega | (cases h; done) | exact absurd rfl h)))

theorem simple_resinv (_c : Code) (pc : Nat) (i : Instr) (stk : List Kind) (blk : List Block) (e : Int) (eff : Eff) :
    ∀ r ∈ (Res.norm (pc + i.size) (eff.push ++ stk.drop eff.pop) blk :: eff.raises.map (fun r => Res.unw .exception (stk.drop r) blk)),
      ResInv pc i stk blk e r := by
  intro r hr
  simp only [List.mem_cons, List.mem_map] at hr
  rcases hr with rfl | ⟨x, _, rfl⟩
  · simp [ResInv]
  · simp [ResInv]

theorem execI_resinv (c : Code) (pc : Nat) (i : Instr) (stk : List Kind) (blk : List Block) (e : Int)
    (h2 : opcodeStackEffect i.op i.arg = some e)
    (hx : ¬ (i.op = .WITH_CLEANUP ∧ stk.head? = some .exc)) :
    ∀ r ∈ execI c pc i stk blk, ResInv pc i stk blk e r := by
  unfold execI
  split
  · simp [ResInv]
  · split
    · rename_i eff _
      split
      · simp [under, ResInv]
      · exact simple_resinv c pc i stk blk e eff
    · exact special_resinv pc i stk blk e h2 hx

/-- JUMP_ABSOLUTE / JUMP_FORWARD only ever continue at their jump target, with the stack they had -/
theorem jump_norm_target (c : Code) (pc : Nat) (i : Instr) (stk : List Kind) (blk : List Block)
    (hop : i.op = .JUMP_ABSOLUTE ∨ i.op = .JUMP_FORWARD) :
    ∀ r ∈ execI c pc i stk blk, ∀ pc' stk' blk', r = .norm pc' stk' blk' → pc' ∈ jumpTargets pc i ∧ stk' = stk := by
  obtain ⟨op, arg, size⟩ := i
  intro r hr pc' stk' blk' hn
  subst hn
  rcases hop with h | h <;> simp only at h <;> subst h <;>
    simp [execI, operandOk, simpleEff, execSpecial, jumpTargets] at hr ⊢ <;> (try omega) <;> simp_all

theorem unwind_ne_yield (w : UW) (blk : List Block) (stk : List Kind) (s' : State) :
    unwind w blk stk ≠ .yield s' := by
  induction blk generalizing stk with
  | nil => cases w <;> simp [unwind]
  | cons b bs ih =>
    unfold unwind
    repeat' split
    all_goals first
      | (intro h; cases h; done)
      | exact ih _

/-- the global form of `unwind_entry_depth`: if every block on the block stack has been paid for by
the walk (`BI`), and a pending `continue` targets an offset the walk entered at least this deep, then
wherever unwinding lands the invariant holds again -/
theorem unwind_inv (D : Nat → Option Int) (w : UW) (blk : List Block) (stk : List Kind) (s' : State)
    (h : unwind w blk stk = .next s') (hbi : ∀ b ∈ blk, BI D b)
    (hc : ∀ t, w = .cont t → ∃ dt, D t = some dt ∧ (stk.length : Int) ≤ dt) : DInv D s' := by
  induction blk generalizing stk with
  | nil => cases w <;> simp [unwind] at h
  | cons b bs ih =>
    have hb := hbi b List.mem_cons_self
    have hbs : ∀ b' ∈ bs, BI D b' := fun b' hb' => hbi b' (List.mem_cons_of_mem _ hb')
    obtain ⟨ty, hd, lvl⟩ := b
    cases ty <;> cases w <;> simp only [unwind, BI] at h hb <;> (repeat' split at h) <;> (try dsimp only at h)
    all_goals first
      | (cases h; done)
      | (refine ih _ h hbs ?_
         intro t ht
         first
          | (cases ht; done)
          | (obtain ⟨dt, h1, h2⟩ := hc t ht
             refine ⟨dt, h1, ?_⟩
             (try simp [truncate])
             omega))
      | (injection h with h; subst h
         refine ⟨?_, ?_⟩
         · first
            | (obtain ⟨d, h1, h2⟩ := hb; exact ⟨d, h1, by simp [excSix, truncate]; omega⟩)
            | (obtain ⟨d, h1, h2⟩ := hc _ rfl; exact ⟨d, h1, by simpa using h2⟩)
         · intro b' hb'
           first
            | exact hbs b' hb'
            | exact hbi b' hb'
            | (simp only [List.mem_cons] at hb'
               rcases hb' with rfl | hb'
               · simp [BI]
               · exact hbs b' hb'))

/-- one step of the abstract machine preserves the invariant -/
theorem step_dinv (c : Code) (D : Nat → Option Int) (m : Int) (hcl : DepthClosed c D m)
    (s : State) (hinv : DInv D s) (hex : ¬ WalkExcluded c s) (o : Outcome) (ho : o ∈ step c s) :
    ∀ s', (o = .next s' ∨ o = .yield s') → DInv D s' := by
  intro s' hs'
  unfold step at ho
  split at ho
  · simp only [List.mem_singleton] at ho
    subst ho
    rcases hs' with h | h <;> cases h
  · rename_i i hdec
    simp only [List.mem_map] at ho
    obtain ⟨r, hr, rfl⟩ := ho
    obtain ⟨⟨d, hD, hle⟩, hblk⟩ := hinv
    obtain ⟨harg, e, hrow, hfall, htgt⟩ := hcl.edge s.pc d i hD hdec
    have hx : ¬ (i.op = .WITH_CLEANUP ∧ s.stk.head? = some .exc) := fun hh => hex (.inr ⟨i, hdec, hh.1, hh.2⟩)
    have hnc : Kind.why .cont ∉ s.stk := fun hh => hex (.inl hh)
    have hedge := execI_edge_le c s.pc i s.stk s.blk e harg hrow r hr
    have hres := execI_resinv c s.pc i s.stk s.blk e hrow hx r hr
    have hslack : withCleanupSlack i.op s.stk = 0 := by
      unfold withCleanupSlack
      rw [if_neg hx]
    cases r with
    | bad msg => rcases hs' with h | h <;> cases h
    | yld pc' stk' blk' =>
      rcases hs' with h | h
      · cases h
      · simp only [finish] at h
        injection h with h
        subst h
        simp only [ResInv] at hres
        simp only [EdgeLe] at hedge
        obtain ⟨hb, hpc⟩ := hres
        subst hb
        refine ⟨?_, hblk⟩
        rcases hpc with ⟨hp, hl⟩ | ⟨hp, hl⟩
        · subst hp
          have hnj : i.op ≠ .JUMP_ABSOLUTE ∧ i.op ≠ .JUMP_FORWARD := by
            constructor <;> intro hop <;>
              have := jump_norm_target c s.pc i s.stk s.blk (by simp [hop]) <;>
              (obtain ⟨op, arg, size⟩ := i; simp only at hop; subst hop
               simp [execI, operandOk, simpleEff, execSpecial] at hr)
          obtain ⟨d', hD', hle'⟩ := hfall hnj.1 hnj.2
          exact ⟨d', hD', by simp only [List.length_cons]; omega⟩
        · subst hp
          exact ⟨d, hD, by simp only [List.length_cons]; omega⟩
    | norm pc' stk' blk' =>
      rcases hs' with h | h
      · simp only [finish] at h
        injection h with h
        subst h
        simp only [ResInv] at hres
        simp only [EdgeLe, hslack] at hedge
        refine ⟨?_, ?_⟩
        · by_cases hop : i.op = .JUMP_ABSOLUTE ∨ i.op = .JUMP_FORWARD
          · obtain ⟨ht, hst⟩ := jump_norm_target c s.pc i s.stk s.blk hop _ hr pc' stk' blk' rfl
            obtain ⟨dt, hDt, hlt⟩ := htgt pc' ht
            subst hst
            have : walkTarget i.op e = e := by
              unfold walkTarget
              rcases hop with hop | hop <;> simp [hop]
            have he : e = 0 := by
              rcases hop with hop | hop <;> rw [hop] at hrow <;> simp [opcodeStackEffect] at hrow <;> omega
            exact ⟨dt, hDt, by simp only; omega⟩
          · rcases hedge with ⟨hp, hl⟩ | ⟨hp, hl⟩
            · obtain ⟨d', hD', hle'⟩ := hfall (fun hh => hop (.inl hh)) (fun hh => hop (.inr hh))
              subst hp
              exact ⟨d', hD', by simp only; omega⟩
            · obtain ⟨dt, hDt, hlt⟩ := htgt pc' hp
              exact ⟨dt, hDt, by simp only; omega⟩
        · intro b' hb'
          simp only at hb'
          rcases hres with hsame | ⟨b0, hpop⟩ | ⟨ty, lvl, hnew, hin, hnh, hloop, hexc⟩
          · subst hsame; exact hblk b' hb'
          · rw [hpop] at hblk; exact hblk b' (List.mem_cons_of_mem _ hb')
          · subst hnew
            simp only [List.mem_cons] at hb'
            rcases hb' with rfl | hb'
            · obtain ⟨dt, hDt, hlt⟩ := htgt _ hin
              cases ty
              · exact ⟨dt, hDt, by have := hloop rfl; simp only; omega⟩
              · exact ⟨dt, hDt, by have := hexc (by decide); simp only; omega⟩
              · exact ⟨dt, hDt, by have := hexc (by decide); simp only; omega⟩
              · exact absurd rfl hnh
            · exact hblk b' hb'
      · cases h
    | unw w stk' blk' =>
      simp only [finish] at hs'
      rcases hs' with h | h
      · simp only [ResInv] at hres
        obtain ⟨hb, hcont⟩ := hres
        refine unwind_inv D w blk' stk' s' h ?_ ?_
        · intro b' hb'
          rcases hb with hsame | ⟨b0, hpop⟩
          · subst hsame; exact hblk b' hb'
          · rw [hpop] at hblk; exact hblk b' (List.mem_cons_of_mem _ hb')
        · intro t ht
          rcases hcont t ht with hh | ⟨hin, h0, hl⟩
          · exact absurd hh hnc
          · obtain ⟨dt, hDt, hlt⟩ := htgt t hin
            exact ⟨dt, hDt, by omega⟩
      · exact absurd h (unwind_ne_yield w blk' stk' s')

/-- every reachable state satisfies the invariant, provided no reachable state is one of the two
excluded shapes -/
theorem reach_dinv (c : Code) (D : Nat → Option Int) (m : Int) (hcl : DepthClosed c D m)
    (hex : ∀ s, Reach c s → ¬ WalkExcluded c s) : ∀ s, Reach c s → DInv D s := by
  intro s hr
  induction hr with
  | init =>
    obtain ⟨d, h1, h2⟩ := hcl.init
    exact ⟨⟨d, h1, by simpa using h2⟩, by intro b hb; cases hb⟩
  | @next s s' hrs hstep ih => exact step_dinv c D m hcl s ih (hex s hrs) _ hstep s' (.inl rfl)
  | @resume s s' hrs hstep ih => exact step_dinv c D m hcl s ih (hex s hrs) _ hstep s' (.inr rfl)

/-! ### the executable checks of Depth.lean imply the hypotheses -/

theorem wFall_eq (op : Op) (e : Int) : wFall op e = walkFall op e := rfl
theorem wTarget_eq (op : Op) (e : Int) : wTarget op e = walkTarget op e := rfl

theorem getD_some_lt {α} (D : Array (Option α)) (pc : Nat) (d : α) (h : D.getD pc none = some d) : pc < D.size := by
  rcases Nat.lt_or_ge pc D.size with h1 | h1
  · exact h1
  · have : ¬ pc < D.size := Nat.not_lt.mpr h1
    simp [Array.getD, this] at h

theorem depthClosed_of_B (c : Code) (D : Array (Option Int)) (m : Int) (h : depthClosedB c D m = true) :
    DepthClosed c (fun pc => D.getD pc none) m := by
  unfold depthClosedB at h
  simp only [Bool.and_eq_true, List.all_eq_true, List.mem_range] at h
  obtain ⟨h0, hall⟩ := h
  refine ⟨?_, ?_, ?_⟩
  · cases hd : D.getD 0 none with
    | none => simp [hd] at h0
    | some d => exact ⟨d, rfl, by simpa [hd] using h0⟩
  · intro pc d i hD hdec
    have hD : D.getD pc none = some d := hD
    have := hall pc (getD_some_lt D pc d hD)
    simp only [hD, hdec, Bool.and_eq_true, decide_eq_true_eq] at this
    obtain ⟨_, harg, hrest⟩ := this
    refine ⟨harg, ?_⟩
    cases he : opcodeStackEffect i.op i.arg with
    | none => simp [he] at hrest
    | some e =>
      simp only [he, Bool.and_eq_true, Bool.or_eq_true, decide_eq_true_eq, List.all_eq_true] at hrest
      obtain ⟨hf, ht⟩ := hrest
      refine ⟨e, rfl, ?_, ?_⟩
      · intro h1 h2
        rcases hf with (hf | hf) | hf
        · exact absurd hf h1
        · exact absurd hf h2
        · cases hn : D.getD (pc + i.size) none with
          | none => simp [hn] at hf
          | some d' => exact ⟨d', rfl, by simp only [hn, wFall_eq] at hf; exact of_decide_eq_true hf⟩
      · intro t htm
        have := ht t htm
        cases hn : D.getD t none with
        | none => simp [hn] at this
        | some dt => exact ⟨dt, rfl, by simp only [hn, wTarget_eq] at this; exact of_decide_eq_true this⟩
  · intro pc d hD
    have hD : D.getD pc none = some d := hD
    have := hall pc (getD_some_lt D pc d hD)
    simp only [hD, Bool.and_eq_true, decide_eq_true_eq] at this
    exact this.1

theorem not_excluded_of_B (c : Code) (cert : Cert) (h : walkExcludedB c cert = false) :
    ∀ pc a, a ∈ cert.at pc → ¬ WalkExcluded c ⟨pc, a.1, a.2⟩ := by
  intro pc a ha hex
  by_cases hlt : pc < cert.states.size
  · have hne : walkExcludedB c cert = true := by
      unfold walkExcludedB
      simp only [List.any_eq_true, List.mem_range, Bool.or_eq_true, decide_eq_true_eq]
      refine ⟨pc, hlt, a, ha, ?_⟩
      rcases hex with hc | ⟨i, hdec, hop, hhd⟩
      · exact .inl hc
      · right
        simp only at hdec hhd
        simp [hdec, hop, hhd]
    rw [h] at hne
    cases hne
  · rw [Cert.at_nil_of_ge cert pc (Nat.le_of_not_lt hlt)] at ha
    cases ha

end GPy.C12
