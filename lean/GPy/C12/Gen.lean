/-
C12 case generator (core Lean only).  Programs originate as Python source text
rendered here; `gpyh C12` compiles them with the real compiler, dumps every code
object and the VM states observed under hook H2, and the proved verifier
(`gpymodel C12verify`, Conform.lean) judges them.  Expected verdict of every case: `ok`.

Families
* `nest`  – EXHAUSTIVE: every 2-deep (quick) / 3-deep (thorough; quick: seeded sample)
            nesting of the block constructs {try/finally body|final, try/except
            body|handler|as-handler|else, try/except/finally, with, with-as, for, while,
            for-else} × every exit statement {pass, break, continue, return, raise, yield,
            faulting expression, bare raise}, inside a loop inside a function, driven
            with inputs that take the normal and the exceptional path;
* `feat`  – hand-written programs for the operand-dependent opcodes (EXTENDED_ARG via
            annotations, MAKE_CLOSURE, UNPACK_EX, CALL_FUNCTION_VAR_KW, class cells, …);
* `rand`  – seeded random programs over a statement/expression grammar;
* `F`     – every .py file under the repository.
-/
import GPy.Common.Basic
import GPy.C12.Conform
import GPy.C12.Placement
import GPy.C12.Assemble
import GPy.C12.GenSteps  -- [C12-ext2 g3]
import GPy.C12.GenTb  -- [C12-ext2 g4]
namespace GPy.C12

abbrev G := StateM Rng

def rnd (n : Nat) : G Nat := modifyGet fun r => let (r', x) := r.nat n; (x, r')
def pick {α} [Inhabited α] (xs : Array α) : G α := do let i ← rnd xs.size; pure xs[i]!
def chance (num den : Nat) : G Bool := do let x ← rnd den; pure (x < num)

def ind (d : Nat) (s : String) : String := String.ofList (List.replicate (4 * d) ' ') ++ s

def escape (s : String) : String :=
  s.foldl (fun acc ch => if ch == '\n' then acc ++ "\\n" else if ch == '\t' then acc ++ "\\t"
                         else if ch == '\\' then acc ++ "\\\\" else acc.push ch) ""

def mkCase (family : String) (lines : List String) (tags : List String := []) : Case :=
  { input := s!"G {family.replace ":" " "} " ++ escape ("\n".intercalate lines), modelV := "ok", specV := "ok", tags := tags }

/-! ### family `nest` -/

def prelude : List String := [
  "class M:",
  "    def __init__(self, s):",
  "        self.s = s",
  "    def __enter__(self):",
  "        return self",
  "    def __exit__(self, t, v, tb):",
  "        return self.s"]

inductive Con | tfBody | tfFinal | teBody | teHandler | teaHandler | teElse | tef | tefFinal | w | wa | forL | whileL | forElse
deriving Repr, DecidableEq, Inhabited

def Con.all : List Con := [.tfBody, .tfFinal, .teBody, .teHandler, .teaHandler, .teElse, .tef, .tefFinal, .w, .wa, .forL, .whileL, .forElse]

def Con.name : Con → String
  | .tfBody => "tfB" | .tfFinal => "tfF" | .teBody => "teB" | .teHandler => "teH" | .teaHandler => "teaH"
  | .teElse => "teE" | .tef => "tef" | .tefFinal => "tefF" | .w => "w" | .wa => "wa" | .forL => "for" | .whileL => "while" | .forElse => "forE"

/-- is the inner block under a `finally:` clause (where `continue` is a SyntaxError)? -/
def Con.underFinally : Con → Bool
  | .tfFinal | .tefFinal => true
  | _ => false

def Con.isLoop : Con → Bool
  | .forL | .whileL => true
  | _ => false

/-- wrap `inner` (already indented one level deeper than `d`) -/
def Con.wrap (c : Con) (d : Nat) (inner : List String) : List String :=
  let i := ind d
  let i1 := ind (d + 1)
  match c with
  | .tfBody => [i "try:"] ++ inner ++ [i "finally:", i1 "a += 1"]
  | .tfFinal => [i "try:", i1 "a = 1 // a", i "finally:"] ++ inner
  | .teBody => [i "try:"] ++ inner ++ [i "except ZeroDivisionError:", i1 "a += 2"]
  | .teHandler => [i "try:", i1 "a = 1 // a", i "except ZeroDivisionError:"] ++ inner
  | .teaHandler => [i "try:", i1 "a = 1 // a", i "except (ZeroDivisionError, KeyError) as e:"] ++ inner
  | .teElse => [i "try:", i1 "a += 0", i "except ValueError:", i1 "pass", i "else:"] ++ inner
  | .tef => [i "try:"] ++ inner ++ [i "except ValueError as e:", i1 "a += 1", i "finally:", i1 "a += 2"]
  | .tefFinal => [i "try:", i1 "a = 2 // a", i "except ZeroDivisionError:", i1 "a += 1", i "else:", i1 "a += 3", i "finally:"] ++ inner
  | .w => [i "with M(a == 0):"] ++ inner
  | .wa => [i "with M(a == 1) as m, M(False):"] ++ inner
  | .forL => [i s!"for j{d} in range(2):"] ++ inner ++ [i1 "a += 1"]
  | .whileL => [i s!"k{d} = 0", i s!"while k{d} < 2:", i1 s!"k{d} += 1"] ++ inner
  | .forElse => [i s!"for j{d} in range(1):", i1 "pass", i "else:"] ++ inner

inductive Exit | pass | brk | cont | ret | raise | yld | fault | reraise | yieldFrom
deriving Repr, DecidableEq, Inhabited

def Exit.all : List Exit := [.pass, .brk, .cont, .ret, .raise, .yld, .fault, .reraise, .yieldFrom]
def Exit.name : Exit → String
  | .pass => "pass" | .brk => "break" | .cont => "continue" | .ret => "return" | .raise => "raise"
  | .yld => "yield" | .fault => "fault" | .reraise => "reraise" | .yieldFrom => "yieldfrom"

def Exit.lines (e : Exit) (d : Nat) : List String :=
  match e with
  | .pass => [ind d "pass"]
  | .brk => [ind d "if a > 0:", ind (d+1) "break", ind d "a += 1"]
  | .cont => [ind d "if a > 0:", ind (d+1) "continue", ind d "a += 1"]
  | .ret => [ind d "if a > 0:", ind (d+1) "return a", ind d "a += 1"]
  | .raise => [ind d "if a > 0:", ind (d+1) "raise ValueError(a)", ind d "a += 1"]
  | .yld => [ind d "b = yield a", ind d "a += 1"]
  | .fault => [ind d "a = [1, 2][a]"]
  | .reraise => [ind d "if a > 1:", ind (d+1) "raise", ind d "a += 1"]
  | .yieldFrom => [ind d "a += len([(yield from (a, 1))])"]

/-- one `nest` program: `cons` outermost first -/
def nestProgram (cons : List Con) (e : Exit) : Option Case :=
  -- `continue` under a finally clause is a SyntaxError (also in CPython 3.4)
  if e == .cont ∧ cons.any Con.underFinally then none else
  let depth0 := 2
  let rec build : List Con → Nat → List String
    | [], d => e.lines d
    | c :: cs, d => c.wrap d (build cs (d + 1))
  let body := build cons depth0
  let lines := prelude ++ ["def f(a):", ind 1 "for i in range(2):"] ++ body ++ [ind 2 "a += 1", ind 1 "return a",
    "for a in (0, 1, 2, -1):", ind 1 "try:", ind 2 "r = f(a)", ind 2 "for x in r:", ind 3 "pass",
    ind 1 "except Exception:", ind 2 "pass"]
  some (mkCase ("nest:" ++ "/".intercalate (cons.map Con.name) ++ "/" ++ e.name) lines ["nt"])


/-! ### family `pos` – every statement kind in every syntactic position

A program is a *path* of slots (outermost first, `Placement.lean`) inside a frame, with one
leaf statement in the innermost slot; all other slots hold a neutral filler and every wrapper
is built so that the slot is really entered for some driver input.  The expected verdict comes
from the SPEC `placementError`: `ok`, or `nocompile:E:SyntaxError` for the placements Python
rejects.  For one path all accepted leaves are packed into one program (one function per leaf,
named after the leaf); every rejected placement is its own case. -/

def Slot.con? : Slot → Option Con
  | .whileBody => some .whileL | .forBody => some .forL | .forElse => some .forElse
  | .tfBody => some .tfBody | .tfFinal => some .tfFinal
  | .teBody => some .teBody | .teTyped => some .teHandler | .teNamed => some .teaHandler | .teElse => some .teElse
  | .tefBody => some .tef | .tefFinal => some .tefFinal | .withBody => some .w | .withAs => some .wa
  | _ => none

/-- wrap `inner` (indented one level deeper than `d`); `gen`: the nested `def` is a generator function -/
def Slot.wrap (s : Slot) (d : Nat) (inner : List String) (gen : Bool) : List String :=
  let i := ind d
  let i1 := ind (d + 1)
  match s.con? with
  | some c => c.wrap d inner
  | none =>
  match s with
  | .ifBody => [i "if a >= 0:"] ++ inner ++ [i "else:", i1 "a += 1"]
  | .ifElse => [i "if a > 1:", i1 "a += 1", i "else:"] ++ inner
  | .elifBody => [i "if a > 1:", i1 "pass", i "elif a >= 0:"] ++ inner ++ [i "else:", i1 "a -= 1"]
  | .whileElse => [i s!"k{d} = 0", i s!"while k{d} < 1:", i1 s!"k{d} += 1", i "else:"] ++ inner
  | .teBare => [i "try:", i1 "a = 1 // a", i "except:"] ++ inner
  | .tefNamed => [i "try:", i1 "a = 2 // a", i "except ZeroDivisionError as e:"] ++ inner ++ [i "else:", i1 "a += 3", i "finally:", i1 "a += 1"]
  | .tefElse => [i "try:", i1 "a += 0", i "except ValueError as e:", i1 "a += 1", i "else:"] ++ inner ++ [i "finally:", i1 "a += 2"]
  | .defBody =>
    [i s!"def n{d}(a):"] ++ inner ++ [i1 "return a"] ++
      (if gen then [i s!"for x{d} in n{d}(a):", i1 "a += 1"] else [i s!"a = n{d}(a)"])
  | .classBody => [i s!"b{d} = a", i s!"class K{d}:", i1 s!"a = b{d}"] ++ inner ++ [i s!"a = K{d}.a"]
  | _ => inner

def Leaf.lines (l : Leaf) (d : Nat) : List String :=
  let i := ind d
  let i1 := ind (d + 1)
  match l with
  | .misc => [i s!"x{d}, *y{d} = a, 1, 2", i s!"a += x{d}", i s!"l{d} = [a, 2]", i s!"l{d}[0] += 1", i s!"del l{d}[0]", i s!"del l{d}",
              i "assert a is not None, 'm'", i "import math", i s!"from math import pi as p{d}", i s!"global gv{d}", i s!"gv{d} = a",
              i "len([a])", i "pass", i s!"def q{d}(z=a):", i1 "return z", i s!"class Q{d}:", i1 "v = 1", i s!"a = q{d}() + Q{d}.v"]
  | .pass => [i "pass"]
  | .brk => [i "if a > 0:", i1 "break", i "a += 1"]
  | .cont => [i "if a > 0:", i1 "continue", i "a += 1"]
  | .ret => [i "if a > 0:", i1 "return a", i "a += 1"]
  | .retNone => [i "if a > 0:", i1 "return", i "a += 1"]
  | .raise => [i "if a > 0:", i1 "raise ValueError(a)", i "a += 1"]
  | .raiseFrom => [i "if a > 0:", i1 "raise KeyError(a) from None", i "a += 1"]
  | .reraise => [i "if a > 1:", i1 "raise", i "a += 1"]
  | .yld => [i "b = yield a", i "a += 1"]
  | .yieldFrom => [i "a += len([(yield from (a, 1))])"]
  | .fault => [i "a = [1, 2][a]"]
  | .ubrk => [i "a += 1", i "break", i "a += 1"]
  | .ucont => [i "a += 1", i "continue", i "a += 1"]
  | .uret => [i "a += 1", i "return a", i "a += 1"]
  | .uraise => [i "a += 1", i "raise ValueError(a)", i "a += 1"]

/-- the statement list of one (path, leaf) at indentation `d` -/
def posBody (path : List Slot) (l : Leaf) (d : Nat) : List String :=
  -- a nested def is a generator iff the leaf yields and the def is the innermost scope
  let rec build : List Slot → Nat → List String
    | [], d => l.lines d
    | s :: ss, d => s.wrap d (build ss (d + 1)) (l.yields && s == .defBody && !(ss.any Slot.isScope))
  build path d

def pathName (fr : Frame) (path : List Slot) : String := fr.name ++ "/" ++ "/".intercalate (path.map Slot.name)

def specVerdict (fr : Frame) (path : List Slot) (l : Leaf) : String :=
  match placementError fr path l with
  | none => "ok"
  | some _ => "nocompile:E:SyntaxError"

/-- one function holding (path, leaf) in a function frame -/
def posFunc (fr : Frame) (path : List Slot) (l : Leaf) (fname : String) : List String :=
  match fr with
  | .funcLoop => [s!"def {fname}(a):", ind 1 "for i in range(2):"] ++ posBody path l 2 ++ [ind 2 "a += 1", ind 1 "return a"]
  | _ => [s!"def {fname}(a):"] ++ posBody path l 1 ++ [ind 1 "return a"]

def driver (plain gens : List String) : List String :=
  (if plain.isEmpty then [] else
    ["for fn in (" ++ ", ".intercalate plain ++ ",):", ind 1 "for a in (0, 1, 2, -1):", ind 2 "try:", ind 3 "fn(a)",
     ind 2 "except Exception:", ind 3 "pass"]) ++
  (if gens.isEmpty then [] else
    ["for fn in (" ++ ", ".intercalate gens ++ ",):", ind 1 "for a in (0, 1, 2, -1):", ind 2 "try:", ind 3 "for x in fn(a):", ind 4 "pass",
     ind 2 "except Exception:", ind 3 "pass",
     ind 1 "try:", ind 2 "it = fn(1)", ind 2 "next(it)", ind 2 "it.send(3)", ind 2 "it.send(None)", ind 2 "next(it)",
     ind 1 "except Exception:", ind 2 "pass"])

/-- all cases of one (frame, path): the packed program of the accepted leaves + one case per rejected leaf -/
def posCases (fr : Frame) (path : List Slot) (leaves : List Leaf) : List Case :=
  let okLeaves := leaves.filter (fun l => (placementError fr path l).isNone)
  let badLeaves := leaves.filter (fun l => (placementError fr path l).isSome)
  let pn := pathName fr path
  let prelude := if path.any (fun s => s == .withBody || s == .withAs) then prelude else []
  let bad := badLeaves.map fun l =>
    let lines := match fr with
      | .module => prelude ++ ["a = 1"] ++ posBody path l 0
      | _ => prelude ++ posFunc fr path l "f" ++ driver ["f"] []
    { mkCase s!"pos:{pn}/{l.name}" lines ["nt", "synerr"] with modelV := specVerdict fr path l, specV := specVerdict fr path l }
  match fr with
  | .module =>
    -- no packing at module level: one program per leaf
    bad ++ okLeaves.map fun l => mkCase s!"pos:{pn}/{l.name}" (prelude ++ ["a = 1"] ++ posBody path l 0) ["nt"]
  | _ =>
    if okLeaves.isEmpty then bad else
    let fns := okLeaves.map fun l => (l, s!"f_{l.name}")
    -- the frame function itself is a generator iff the leaf yields and no nested scope holds it
    let isGen := fun (l : Leaf) => l.yields && !(path.any Slot.isScope)
    let body := fns.flatMap fun (l, n) => posFunc fr path l n
    let plain := (fns.filter fun (l, _) => !isGen l).map (·.2)
    let gens := (fns.filter fun (l, _) => isGen l).map (·.2)
    bad ++ [mkCase s!"pos:{pn}/*" (prelude ++ body ++ driver plain gens) ["nt"]]

/-- all paths of length `n` -/
def pathsOf : Nat → List (List Slot)
  | 0 => [[]]
  | n + 1 => (pathsOf n).flatMap fun p => Slot.all.map fun s => s :: p

/-- the leaves whose compilation depends on the context (used where the full set is too costly) -/
def Leaf.jumps : List Leaf := [.brk, .cont, .ret, .yld, .ubrk, .ucont]


/-! ### family `asm` – the assembler model (Assemble.lean) against compile/instructions.go

Input `A <tokens>`: `o<op>` Op, `a<op>:<arg>` OpArg, `l<id>` Label, `J<op>:<id>` JumpAbs, `j<op>:<id>`
JumpRel, `p<n>` n × `LOAD_CONST 0` (padding that pushes later offsets over 0xFFFF, so that operands need
EXTENDED_ARG and the assembler needs several passes).  The harness builds the same `Instructions`
value, runs the real `Assemble()` and `StackDepth()` and checks the SPEC on the emitted bytes itself
(every jump lands on the byte offset of its label; V = `ok`, also when the assembler panics: then
nothing is emitted); R = length/hash of the byte string and the stack depth, compared with the model. -/

inductive ATok | one (i : AInstr) | pad (n : Nat)

def ATok.str : ATok → String
  | .one (.op o) => s!"o{Generated.Op.toNat o}"
  | .one (.oparg o a) => s!"a{Generated.Op.toNat o}:{a}"
  | .one (.label id) => s!"l{id}"
  | .one (.jabs o _ d) => s!"J{Generated.Op.toNat o}:{d}"
  | .one (.jrel o _ d) => s!"j{Generated.Op.toNat o}:{d}"
  | .pad n => s!"p{n}"

def ATok.expand : ATok → List AInstr
  | .one i => [i]
  | .pad n => List.replicate n (.oparg .LOAD_CONST 0)

def hexByte (b : Nat) : String :=
  let d := "0123456789abcdef".toList.toArray
  String.ofList [d[(b / 16) % 16]!, d[b % 16]!]

def bytesSummary (bs : List Nat) : String :=
  let h := bs.foldl (fun acc b => (acc * 131 + b + 1) % 2147483647) 7
  let head := String.join ((bs.take 48).map hexByte)
  s!"len={bs.length} h={h} head={head}"

def asmModelR (toks : List ATok) : String :=
  let is := toks.flatMap ATok.expand
  let code := match assemble is with
    | .ok bs => bytesSummary bs
    | .error e => "panic:" ++ e
  let depth := match stackDepth is with
    | some d => toString d
    | none => "panic"
  s!"{code} depth={depth}"

def asmCase (toks : List ATok) : Case :=
  { input := "A " ++ " ".intercalate (toks.map ATok.str), modelV := "ok", modelR := asmModelR toks, specV := "ok", tags := ["nt", "asm"] }

def asmRand : G (List ATok) := do
  let n := 4 + (← rnd 22)
  let nl := 1 + (← rnd 4)
  -- label k stands before slot lp[k]
  let mut lps : List Nat := []
  for _ in [0:nl] do lps := (← rnd (n + 1)) :: lps
  let big ← chance 1 3
  let mut out : List ATok := [.one (.oparg .LOAD_CONST 0)]
  for slot in [0:n+1] do
    for (lp, id) in lps.zip (List.range nl) do
      if lp == slot then out := out ++ [.one (.label (id + 1))]
    if slot == n then break
    let later := (lps.zip (List.range nl)).filter (fun (lp, _) => lp > slot) |>.map (·.2 + 1)
    let k ← rnd 20
    let tok : ATok ←
      if k < 6 then pure (.one (.oparg .LOAD_CONST (← rnd 3)))
      else if k < 8 then pure (.one (.op .POP_TOP))
      else if k < 9 then pure (.one (.op .BINARY_ADD))
      else if k < 10 then pure (.one (.op .DUP_TOP))
      else if k < 11 then pure (.one (.oparg .BUILD_TUPLE (← rnd 3)))
      else if k < 15 then
        let o ← pick #[Op.JUMP_ABSOLUTE, .POP_JUMP_IF_FALSE, .POP_JUMP_IF_TRUE, .JUMP_IF_TRUE_OR_POP, .JUMP_IF_FALSE_OR_POP, .CONTINUE_LOOP]
        pure (.one (.jabs o 0 (1 + (← rnd nl))))
      else if k < 18 then
        if later.isEmpty then pure (.one (.op .ROT_TWO)) else
        let o ← pick #[Op.JUMP_FORWARD, .SETUP_LOOP, .SETUP_EXCEPT, .SETUP_FINALLY, .FOR_ITER, .SETUP_WITH]
        pure (.one (.jrel o 0 (← pick later.toArray)))
      else if big then
        -- around the 0xFFFF boundary: 21845 * 3 = 65535
        let m ← pick #[21800, 21840, 21843, 21844, 21845, 21846, 21850, 22000, 43690]
        pure (.pad (m + (← rnd 3)))
      else pure (.one (.op .POP_BLOCK))
    out := out ++ [tok]
  return out ++ [.one (.oparg .LOAD_CONST 0), .one (.op .RETURN_VALUE)]

/-- hand-written streams: multi-pass absolute jumps over the 64 KiB boundary, the oscillation FIXME,
backwards relative jump, nested SETUPs -/
def asmFixed : List (List ATok) := [
  [.one (.jabs .JUMP_ABSOLUTE 0 1), .one (.op .POP_TOP), .one (.label 1), .one (.op .RETURN_VALUE)],
  [.one (.oparg .LOAD_CONST 0), .one (.jabs .POP_JUMP_IF_FALSE 0 1), .pad 21850, .one (.label 1), .one (.oparg .LOAD_CONST 0), .one (.op .RETURN_VALUE)],
  [.one (.oparg .LOAD_CONST 0), .one (.jabs .POP_JUMP_IF_FALSE 0 1), .one (.jabs .JUMP_ABSOLUTE 0 2), .pad 21842, .one (.label 1), .pad 3, .one (.label 2), .one (.oparg .LOAD_CONST 0), .one (.op .RETURN_VALUE)],
  [.one (.jrel .SETUP_LOOP 0 1), .pad 21846, .one (.op .POP_BLOCK), .one (.label 1), .one (.oparg .LOAD_CONST 0), .one (.op .RETURN_VALUE)],
  [.one (.jrel .JUMP_FORWARD 0 1), .pad 21844, .one (.jabs .JUMP_ABSOLUTE 0 1), .one (.label 1), .one (.oparg .LOAD_CONST 0), .one (.op .RETURN_VALUE)],
  [.one (.label 1), .one (.op .NOP), .one (.jrel .JUMP_FORWARD 0 1), .one (.oparg .LOAD_CONST 0), .one (.op .RETURN_VALUE)],
  [.one (.jrel .SETUP_FINALLY 0 1), .one (.jrel .SETUP_EXCEPT 0 2), .one (.oparg .LOAD_CONST 0), .one (.op .POP_TOP), .one (.op .POP_BLOCK),
   .one (.label 2), .one (.op .POP_BLOCK), .one (.oparg .LOAD_CONST 0), .one (.label 1), .one (.op .END_FINALLY), .one (.oparg .LOAD_CONST 0), .one (.op .RETURN_VALUE)]
]

/-! ### family `feat` -/

def featPrograms : List (String × List String) := [
  ("annotations-extended-arg", ["def f(a: int, b: str = 'x', *c: list, d: int = 3, **e: dict) -> int:", "    return a", "f(1)", "f(1, 'y', 2, 3, d=4, z=5)"]),
  ("closure-defaults", ["def outer(x, y=2, *, z=3):", "    def inner(q=x, *, r=y):", "        return x + y + z + q + r", "    return inner", "outer(1)()", "outer(1, z=5)(7, r=8)"]),
  ("decorators", ["def dec(fn):", "    def w(*a, **k):", "        return fn(*a, **k)", "    return w", "@dec", "@dec", "def f(a, b=1):", "    return a + b", "f(1)", "f(1, b=2)"]),
  ("class-cells", ["def mk(x):", "    class A:", "        y = x", "        def m(self):", "            return x + self.y", "        def s(self):", "            return super().__init__()", "    return A", "mk(3)().m()", "mk(3)().s()"]),
  ("classderef-locals", ["def mk(x):", "    class A:", "        locals()['x'] = 5", "        y = x", "    return A.y", "mk(1)"]),
  ("unpack-ex", ["a, *b, c = range(5)", "*d, = [1]", "(e, f), *g = [(1, 2), 3]", "try:", "    h, *i, j = [1]", "except ValueError:", "    pass", "for p, *q in [(1, 2, 3), (4,)]:", "    pass"]),
  ("calls", ["def f(*a, **k):", "    return len(a) + len(k)", "t = (1, 2)", "d = {'x': 1}", "f(1, *t)", "f(1, **d)", "f(1, 2, y=3, *t, **d)", "f(*t, **d)", "f(a=1, b=2, c=3)"]),
  ("comprehensions", ["xs = [i * j for i in range(3) for j in range(3) if i != j if j]", "ys = {i for i in xs}", "zs = {i: [k for k in range(i)] for i in ys}", "g = (a + b for a in xs for b in ys)", "s = sum(g)", "def f(n):", "    return [[(i, j, n) for i in range(n)] for j in range(n)]", "f(2)"]),
  ("slices", ["l = list(range(10))", "l[1:3]", "l[::2]", "l[1:8:2] = [0, 0, 0, 0]", "del l[0:2]", "l[0] += 1", "l[1:2] += [5]", "class A: pass", "a = A()", "a.x = 1", "a.x += 1", "del a.x"]),
  ("boolops-compare", ["a, b, c = 1, 2, 3", "x = a < b < c", "y = a < b > c != a", "z = a and b or c", "w = not (a or b) and c", "v = a if b else c", "u = (a if b else c) if (a and b) else (b or c)"]),
  ("global-nonlocal-del", ["g = 1", "def f():", "    global g", "    g += 1", "    del g", "def h():", "    v = 1", "    def i():", "        nonlocal v", "        v += 1", "        del v", "    i()", "f()", "h()"]),
  ("imports", ["import math", "import math as m", "from math import pi, sqrt as s", "from math import *", "def f():", "    import sys", "    from math import floor", "    return floor(1.5)", "f()", "try:", "    import nosuchmodule", "except Exception:", "    pass", "try:", "    from math import nosuchname", "except ImportError:", "    pass"]),
  ("assert-raise-from", ["def f(a):", "    assert a, 'msg'", "    assert a > 0", "    try:", "        raise ValueError(a) from None", "    except ValueError as e:", "        raise KeyError(a) from e", "for a in (0, 1):", "    try:", "        f(a)", "    except Exception:", "        pass"]),
  ("lambda", ["f = lambda a, b=2, *c, d=4, **e: (a, b, c, d, e)", "f(1)", "f(1, 2, 3, d=5, z=6)", "(lambda: (yield))()"]),
  ("generators", ["def g(n):", "    r = 0", "    while n:", "        try:", "            s = yield n", "            r += s or 0", "        finally:", "            n -= 1", "    return r", "def h():", "    x = yield from g(3)", "    yield x", "list(h())", "it = h()", "next(it)", "it.send(5)", "list(it)"]),
  ("generator-finished-not-resumed", ["def g(a):", "    try:", "        yield 1", "        if a:", "            return 5", "        raise ValueError", "    finally:", "        yield 2", "    yield 3", "for a in (0, 1):", "    it = g(a)", "    for k in range(5):", "        try:", "            next(it)", "        except StopIteration:", "            pass", "        except ValueError:", "            pass"]),
  ("with-multi", prelude ++ ["def f(a):", "    with M(True) as m1, M(False) as m2:", "        with M(a == 1):", "            if a == 2:", "                return 1", "            1 // a", "    return 0", "for a in (0, 1, 2):", "    f(a)"]),
  ("with-bad-manager", ["try:", "    with 5:", "        pass", "except Exception:", "    pass", "class N:", "    def __exit__(self, *a):", "        return False", "try:", "    with N():", "        pass", "except Exception:", "    pass"]),
  ("nested-loops-else", ["def f(n):", "    for i in range(n):", "        for j in range(n):", "            if j == 1:", "                continue", "            if i == 2:", "                break", "        else:", "            continue", "        break", "    else:", "        return -1", "    return i", "f(0)", "f(1)", "f(3)"]),
  ("while-else", ["def f(n):", "    while n > 0:", "        n -= 1", "        if n == 5:", "            break", "    else:", "        return 1", "    return 2", "f(3)", "f(9)"]),
  ("dict-set-display", ["a = 1", "d = {a: 2, 'k': [a, {a}], (a, 2): {a: {a: a}}}", "s = {a, 2, (3, a)}", "t = (a,)", "e = ()", "l = [a, [a]] if False else [a]"]),
  ("try-in-finally-return", ["def f(a):", "    try:", "        try:", "            return 1 // a", "        finally:", "            try:", "                a = [][a]", "            except IndexError:", "                a = 7", "            finally:", "                a += 1", "    except ZeroDivisionError:", "        return a", "    finally:", "        a = 0", "f(0)", "f(1)"]),
  ("break-in-finally", ["def f(a):", "    for i in range(3):", "        try:", "            a = 1 // a", "        finally:", "            break", "    for i in range(3):", "        try:", "            return i", "        finally:", "            break", "    return a", "f(0)", "f(1)"]),
  ("docstrings-consts", ["'''module doc'''", "def f():", "    '''doc'''", "    return (1, 2.5, 'x', b'y', None, True, ..., 1j, (1, (2, 3)))", "class C:", "    '''cdoc'''", "    x = -1", "f()"]),
  ("deep-expression", ["a = 1", "x = ((((((((a + 1) * 2) - 3) // 4) % 5) << 1) >> 1) & 7) | 8 ^ 9", "y = [a, [a, [a, [a, [a, [a, [a, [a]]]]]]]]", "z = (a, (a, (a, (a, (a, (a, (a,)))))))", "f = len([len([len([len([a])])])])"]),
  ("many-args-call", ["def f(*a, **k):", "    return len(a)", "f(1, 2, 3, 4, 5, 6, 7, 8, 9, 10, 11, 12, 13, 14, 15, 16, 17, 18, 19, 20, a=1, b=2, c=3, d=4, e=5, f=6, g=7, h=8)"]),
  ("class-kwargs-bases", ["class A: pass", "class B(A, object): pass", "bases = (A,)", "class C(*bases): pass", "def dec(c):", "    return c", "@dec", "class D(B):", "    def m(self):", "        return __class__", "D().m()"]),
  ("gen-try-finally-resume", ["def g(n):", "    k = 0", "    try:", "        while k < n:", "            try:", "                s = yield k", "                if s == 'x':", "                    raise ValueError(s)", "                if s == 'r':", "                    return 7", "            finally:", "                k += 1", "                yield -k", "    except ValueError:", "        yield 99", "    finally:", "        yield 100", "    yield 101", "for sends in ((None, None, None, None, None, None, None, None, None), (None, 'x', None, None, None), (None, 'r', None, None, None), (None, None, 'x'), ()):", "    it = g(2)", "    try:", "        for v in sends:", "            it.send(v)", "    except StopIteration:", "        pass", "    except Exception:", "        pass", "it = g(3)", "next(it)", "next(it)", "del it"]),
  ("gen-yield-from-deleg", prelude ++ ["def leaf(n):", "    t = 0", "    for i in range(n):", "        try:", "            s = yield i", "        finally:", "            t += 1", "        if s:", "            t += s", "        if s == 50:", "            raise KeyError(s)", "    return t", "def mid(n):", "    try:", "        r = yield from leaf(n)", "        r += yield from leaf(1)", "    except KeyError:", "        r = -1", "        yield from [7, 8]", "    finally:", "        yield 'fin'", "    return r", "def top(n):", "    with M(False):", "        for j in range(2):", "            x = yield from mid(n)", "            yield (j, x)", "            if x == -1:", "                continue", "    yield from ()", "    yield from range(2)", "    return 5", "for sends in ((None,) * 20, (None, 5, 5, 5, 5, 5, 5), (None, None, 50, None, None, None, None, None, None, None), (None, 50)):", "    it = top(2)", "    try:", "        for v in sends:", "            it.send(v)", "    except StopIteration:", "        pass", "    except Exception:", "        pass", "def bad():", "    yield from 5", "try:", "    list(bad())", "except TypeError:", "    pass"]),
  ("with-exits", prelude ++ ["def f(a):", "    r = 0", "    for i in range(3):", "        with M(a == 9) as m:", "            if a == 0:", "                continue", "            if a == 1:", "                break", "            if a == 2:", "                return i", "            with M(a == 3), M(False) as q:", "                if a == 3:", "                    raise ValueError(a)", "                if a == 4:", "                    break", "                if a == 5:", "                    continue", "                if a == 6:", "                    return r", "            r += 1", "        r += 10", "    else:", "        with M(True):", "            return -1", "    k = 0", "    while k < 2:", "        k += 1", "        try:", "            with M(False):", "                if a == 7:", "                    continue", "                if a == 8:", "                    break", "                r += 1 // (a - 10)", "        finally:", "            with M(True):", "                r += [1][a - 11]", "    return r", "def g(a):", "    for i in range(2):", "        with M(a == 1) as m:", "            v = yield i", "            if v:", "                return v", "            with M(False):", "                yield -i", "                if a == 2:", "                    break", "                if a == 3:", "                    continue", "            yield 5 // a", "for a in range(13):", "    try:", "        f(a)", "    except Exception:", "        pass", "for a in range(4):", "    try:", "        list(g(a))", "    except Exception:", "        pass", "    try:", "        it = g(a)", "        next(it)", "        it.send(4)", "    except StopIteration:", "        pass", "    except Exception:", "        pass"]),
  ("nested-functions", ["def outer(a, b=2):", "    c = a + b", "    def mid(d, *e, f=c, **h):", "        nonlocal c", "        c += d", "        def inner(i=d):", "            nonlocal c", "            c += i", "            return lambda j: (a, b, c, d, f, i, j)", "        def gen(k):", "            nonlocal c", "            for x in range(k):", "                c += x", "                yield c", "            return inner", "        return inner, gen", "    fi, fg = mid(1, 2, 3, z=4)", "    r = fi()(5)", "    for v in fg(3):", "        r = r + (v,)", "    def rec(n):", "        if n <= 0:", "            return 0", "        try:", "            return n + rec(n - 1)", "        finally:", "            c", "    return r, rec(4), [fi(q)(q) for q in range(2)], {str(q): (lambda: q + c)() for q in range(2)}", "outer(1)", "outer(1, b=5)", "def deco(n):", "    def wrap(fn):", "        def call(*a, **k):", "            try:", "                return fn(*a, **k) + n", "            except TypeError:", "                return n", "        return call", "    return wrap", "@deco(1)", "@deco(2)", "def target(x, y=1):", "    return x + y", "target(1)", "target('s')"]),
  ("class-bodies", prelude ++ ["def mk(base, n):", "    class A(base):", "        x = n", "        ys = []", "        for i in range(n):", "            try:", "                ys.append(i // (i - 1))", "            except ZeroDivisionError:", "                ys.append(-1)", "                continue", "            finally:", "                x += 1", "        else:", "            z = 0", "        with M(True):", "            w = 1 // (n - n)", "        class B:", "            v = n", "            def m(self):", "                return n + self.v", "            class C:", "                def k(self):", "                    return n", "        def meth(self, q=x):", "            def helper():", "                return __class__, self, q, n", "            return helper()", "        def gen(self):", "            yield from self.ys", "            return __class__", "        if n > 1:", "            def extra(self):", "                return self.x", "        while x > 100:", "            break", "        else:", "            t = [j for j in range(2)]", "    return A", "for n in (0, 1, 3):", "    K = mk(object, n)", "    k = K()", "    k.meth()", "    list(k.gen())", "    K.B().m()", "    K.B.C().k()", "def failing():", "    class F:", "        a = 1", "        b = [][a]", "    return F", "try:", "    failing()", "except IndexError:", "    pass", "def dec(c):", "    c.tag = 1", "    return c", "@dec", "class D(mk(object, 1)):", "    def __repr__(self):", "        return 'D'", "    def __len__(self):", "        return 2", "    def __getitem__(self, i):", "        if i > 1:", "            raise IndexError(i)", "        return i", "repr(D())", "len(D())", "list(D())"])
]

/-! ### family `rand` -/

structure Ctx where
  d : Nat               -- indentation depth
  inLoop : Bool
  contOk : Bool
  isGen : Bool
  inHandler : Bool
  nfun : Nat            -- functions f0..f(nfun-1) may be called
  inFunc : Bool := true

def vars : Array String := #["a", "b", "c"]

partial def genExpr (ctx : Ctx) (fuel : Nat) : G String := do
  if fuel == 0 then
    let k ← rnd 6
    if k < 3 then pick vars else pure (toString (← rnd 4))
  else
    let f := fuel - 1
    let k ← rnd 30
    match k with
    | 0 | 1 | 2 => pick vars
    | 3 => pure (toString (← rnd 5))
    | 4 | 5 =>
      let op ← pick #["+", "-", "|", "&", "^"]
      pure s!"({← genExpr ctx f} {op} {← genExpr ctx f})"
    | 6 => pure s!"({← genExpr ctx f} * 3)"
    | 7 => pure s!"(7 // {← genExpr ctx f})"
    | 8 => pure s!"({← genExpr ctx f} % 5)"
    | 9 =>
      let op ← pick #["<", "<=", "==", "!=", ">", ">=", "is", "is not"]
      pure s!"({← genExpr ctx f} {op} {← genExpr ctx f})"
    | 10 => pure s!"({← genExpr ctx f} < {← genExpr ctx f} <= {← genExpr ctx f})"
    | 11 => pure s!"({← genExpr ctx f} and {← genExpr ctx f})"
    | 12 => pure s!"({← genExpr ctx f} or {← genExpr ctx f} or {← genExpr ctx f})"
    | 13 => pure s!"(not {← genExpr ctx f})"
    | 14 => pure s!"(-{← genExpr ctx f})"
    | 15 => pure s!"({← genExpr ctx f} if {← genExpr ctx f} else {← genExpr ctx f})"
    | 16 => pure s!"[{← genExpr ctx f}, {← genExpr ctx f}][{← genExpr ctx f} % 3]"
    | 17 => pure s!"len([{← genExpr ctx f}, ({← genExpr ctx f},)])"
    | 18 => pure ("{1: " ++ (← genExpr ctx f) ++ "}[" ++ (← genExpr ctx f) ++ "]")
    | 19 => pure s!"(lambda q, r=2: q + r)({← genExpr ctx f})"
    | 20 => pure s!"sum([q + {← genExpr ctx f} for q in range({← genExpr ctx f} % 3) if q != {← genExpr ctx f}])"
    | 21 => pure s!"max({← genExpr ctx f}, {← genExpr ctx f})"
    | 22 => pure s!"len(\{q: q for q in ({← genExpr ctx f}, {← genExpr ctx f})})"
    | 23 =>
      if ctx.nfun == 0 then pick vars else
      pure s!"f{← rnd ctx.nfun}({← genExpr ctx f}, b={← genExpr ctx f})"
    | 24 => pure s!"(lambda *p, **k: len(p) + len(k))({← genExpr ctx f}, *({← genExpr ctx f},), z={← genExpr ctx f})"
    | 25 => pure s!"[1, 2, 3, 4][{← genExpr ctx f} % 2:{← genExpr ctx f}:1][0]"
    | 26 => if ctx.isGen then pure s!"((yield {← genExpr ctx f}) or 0)" else pure s!"abs({← genExpr ctx f})"
    | 27 => pure s!"(~{← genExpr ctx f} & 15)"
    | 28 => pure s!"sum(q for q in ({← genExpr ctx f}, {← genExpr ctx f}))"
    | _ => pure s!"int(str({← genExpr ctx f}))"

mutual
partial def genBlock (ctx : Ctx) (fuel : Nat) : G (List String) := do
  let n ← rnd 3
  let mut out : List String := []
  for _ in [0:n+1] do
    out := out ++ (← genStmt ctx fuel)
  return out

partial def genStmt (ctx : Ctx) (fuel : Nat) : G (List String) := do
  let i := ind ctx.d
  let i1 := ind (ctx.d + 1)
  let inner : Ctx := { ctx with d := ctx.d + 1 }
  let v ← pick vars
  if fuel == 0 then
    return [i s!"{v} = {← genExpr ctx 1}"]
  let f := fuel - 1
  let k ← rnd 34
  match k with
  | 0 | 1 | 2 => return [i s!"{v} = {← genExpr ctx 2}"]
  | 3 =>
    let op ← pick #["+=", "-=", "|=", "&=", "^=", "//=", "%="]
    return [i s!"{v} {op} {← genExpr ctx 2}"]
  | 4 => return [i s!"{v}, *r{ctx.d} = {← genExpr ctx 1}, {← genExpr ctx 1}, {← genExpr ctx 1}"]
  | 5 | 6 =>
    let els ← chance 1 2
    let b1 ← genBlock inner f
    let b2 ← genBlock inner f
    let b3 ← genBlock inner f
    let elif ← chance 1 3
    let c1 ← genExpr ctx 2
    let c2 ← genExpr ctx 1
    return [i s!"if {c1}:"] ++ b1 ++ (if elif then [i s!"elif {c2}:"] ++ b3 else [])
      ++ (if els then [i "else:"] ++ b2 else [])
  | 7 | 8 =>
    let body ← genBlock { inner with inLoop := true, contOk := true } f
    let els ← chance 1 3
    let eb ← genBlock inner f
    let tgt ← pick #[s!"j{ctx.d}", s!"j{ctx.d}, {v}", s!"(j{ctx.d}, *m{ctx.d})"]
    let n3 ← rnd 3
    let e1 ← genExpr ctx 1
    let it := if tgt == s!"j{ctx.d}" then s!"range({n3} + 1)" else s!"[(1, {e1}), (2, 0)]"
    return [i s!"for {tgt} in {it}:"] ++ body ++ (if els then [i "else:"] ++ eb else [])
  | 9 =>
    let body ← genBlock { inner with inLoop := true, contOk := true } f
    let els ← chance 1 3
    let eb ← genBlock inner f
    let n3 ← rnd 3
    let e1 ← genExpr ctx 1
    return [i s!"k{ctx.d} = 0", i s!"while k{ctx.d} < {n3} and {e1} < 99:", i1 s!"k{ctx.d} += 1"] ++ body
      ++ (if els then [i "else:"] ++ eb else [])
  | 10 | 11 | 12 =>
    -- try / except / else / finally
    let body ← genBlock inner f
    let nh ← rnd 3
    let fin ← chance 1 2
    let nh := if nh == 0 && !fin then 1 else nh
    let mut hs : List String := []
    for hk in [0:nh] do
      let exc ← pick #["ZeroDivisionError", "(IndexError, KeyError)", "ValueError", "Exception", "TypeError"]
      let named ← chance 1 2
      let last := hk + 1 == nh
      let bare ← chance 1 4
      let hb ← genBlock { inner with inHandler := true } f
      let head := if last && bare then "except:" else if named then s!"except {exc} as e:" else s!"except {exc}:"
      hs := hs ++ [i head] ++ hb
    let els ← chance 1 3
    let eb ← genBlock inner f
    let fb ← genBlock { inner with contOk := false } f
    return [i "try:"] ++ body ++ hs ++ (if els && nh > 0 then [i "else:"] ++ eb else []) ++ (if fin then [i "finally:"] ++ fb else [])
  | 13 | 14 =>
    let body ← genBlock inner f
    let head ← pick #[s!"with M({← genExpr ctx 1} == 1):", s!"with M(False) as w{ctx.d}:", s!"with M({v} == 0) as w{ctx.d}, M(False):"]
    return [i head] ++ body
  | 15 => if ctx.inLoop then return [i s!"if {← genExpr ctx 1}:", i1 "break"] else return [i "pass"]
  | 16 => if ctx.contOk then return [i s!"if {← genExpr ctx 1}:", i1 "continue"] else return [i s!"{v} += 1"]
  | 17 => if ctx.inFunc then return [i s!"if {← genExpr ctx 2}:", i1 s!"return {← genExpr ctx 1}"] else return [i s!"{v} ^= 1"]
  | 18 =>
    let exc ← pick #["ValueError", "KeyError(1)", "IndexError", "TypeError('x')"]
    return [i s!"if {← genExpr ctx 2}:", i1 s!"raise {exc}"]
  | 19 => if ctx.inHandler then return [i s!"if {← genExpr ctx 1}:", i1 "raise"] else return [i s!"{v} = -{v}"]
  | 20 | 21 => if ctx.isGen then return [i s!"{v} = (yield {← genExpr ctx 1}) or {v}"] else return [i s!"{v} = abs({← genExpr ctx 2})"]
  | 22 => if ctx.isGen then return [i s!"{v} = len([(yield from [{← genExpr ctx 1}, 2])])"] else return [i s!"assert {← genExpr ctx 2}, {v}"]
  | 23 =>
    -- nested function capturing variables
    let body ← genBlock { d := ctx.d + 1, inLoop := false, contOk := false, isGen := false, inHandler := false, nfun := ctx.nfun, inFunc := true } f
    return [i s!"def n{ctx.d}(a, b={← genExpr ctx 1}, *, c={v}):"] ++ body ++ [i1 s!"return a + {v}", i s!"{v} = n{ctx.d}({← genExpr ctx 1})"]
  | 24 =>
    return [i s!"class K{ctx.d}:", i1 s!"x = {v}", i1 "def m(self, q):", ind (ctx.d + 2) s!"return q + self.x + {v}", i s!"{v} = K{ctx.d}().m({← genExpr ctx 1})"]
  | 25 => return [i s!"d{ctx.d} = \{'k': {← genExpr ctx 1}}", i s!"d{ctx.d}['k'] += {← genExpr ctx 1}", i s!"del d{ctx.d}['k']"]
  | 26 => return [i s!"{v} = [q * {← genExpr ctx 1} for q in range(3) if q for r in range(q)][{← genExpr ctx 1} % 2]"]
  | 27 => return [i s!"{v}, b = b, {v}"]
  | 28 => return [i s!"print({← genExpr ctx 2}, end='')"]
  | 29 => return [i s!"{v} = len(list(g0({← genExpr ctx 1})))"]
  | 30 => return [i s!"assert {← genExpr ctx 2}"]
  | 31 => return [i s!"lst{ctx.d} = [{v}, 2, 3]", i s!"lst{ctx.d}[{← genExpr ctx 1} % 3] = {← genExpr ctx 1}", i s!"{v} = lst{ctx.d}[-1]"]
  | _ => return [i s!"{v} = {← genExpr ctx 3}"]
end

def randProgram (idx : Nat) : G Case := do
  let nf ← rnd 3
  let mut lines := prelude ++ ["def g0(a, b=1, c=2):", "    for q in range(a % 3):", "        yield q", "    return b"]
  let fuel := 2 + (← rnd 3)
  for fi in [0:nf+1] do
    let isGen ← chance 1 3
    let body ← genBlock { d := 1, inLoop := false, contOk := false, isGen := isGen, inHandler := false, nfun := fi } fuel
    lines := lines ++ [s!"def f{fi}(a, b=1, c=2):"] ++ body ++ (if isGen then [ind 1 "yield a"] else []) ++ [ind 1 "return a"]
  let top ← genBlock { d := 0, inLoop := false, contOk := false, isGen := false, inHandler := false, nfun := nf + 1, inFunc := false } 2
  lines := lines ++ ["a, b, c = 1, 2, 3"]
  lines := lines ++ ["for a in (0, 1, 2, -1):", ind 1 "for fn in (" ++ ", ".intercalate ((List.range (nf+1)).map (s!"f{·}")) ++ ",):",
    ind 2 "try:", ind 3 "r = fn(a, a + 1)", ind 3 "for x in r:", ind 4 "pass", ind 2 "except Exception:", ind 3 "pass"]
  lines := lines ++ ["try:", ind 1 "pass"] ++ top.map (fun l => "    " ++ l) ++ ["except Exception:", ind 1 "pass"]
  return mkCase s!"rand:{idx}" lines ["nt"]

/-- list the .py files under the repository (sorted, relative) -/
partial def pyFiles (root : System.FilePath) : IO (List String) := do
  let all ← root.walkDir (fun p => pure (p.fileName != some ".git"))
  let rel := all.toList.filterMap fun p =>
    if p.extension == some "py" then
      let s := p.toString
      let r := root.toString
      some (if s.startsWith (r ++ "/") then String.ofList (s.toList.drop (r.length + 1)) else s)
    else none
  return rel.toArray.qsort (· < ·) |>.toList

def genMain (tier : String) (seed : Nat) : IO Unit := do
  let thorough := tier == "thorough"
  let mut out : Array String := #[]
  -- feat
  for (n, ls) in featPrograms do
    out := out.push (mkCase ("feat:" ++ n) ls ["nt"]).line
  -- [C12-ext2 g3] begin
  for (n, ls) in featProgramsSteps do
    out := out.push (mkCase ("feat:" ++ n) ls ["nt"]).line
  -- [C12-ext2 g3] end
  -- a code object larger than 64 KiB: absolute jump operands above 0xFFFF (EXTENDED_ARG on a jump)
  let big := (List.replicate 7000 "    a = a + 1")
  out := out.push (mkCase "feat:big-if-extended-jump" (["a = 0", "if a == 0:"] ++ big ++ ["else:", "    a = 5", "b = a"]) ["nt"]).line
  -- [C12-ext2 g4] begin
  -- tb: traceback lines of faults inside multi-line expressions / decorators / defaults / with items / assert / comprehensions
  for c in Tb.tbCases tier seed do out := out.push c.line
  -- [C12-ext2 g4] end
  -- asm: the assembler / StackDepth model against the real ones
  for t in asmFixed do out := out.push (asmCase t).line
  let mut ra : Rng := ⟨(seed + 77).toUInt64⟩
  for _ in [0:(if thorough then 4000 else 300)] do
    let (t, r') := asmRand.run ra
    ra := r'
    out := out.push (asmCase t).line
  -- nest: depth 1 and 2 exhaustively
  for e in Exit.all do
    for c1 in Con.all do
      if let some c := nestProgram [c1] e then out := out.push c.line
      for c2 in Con.all do
        if let some c := nestProgram [c1, c2] e then out := out.push c.line
  -- pos: every leaf in every slot, paths of depth 0..2 exhaustively in both function frames;
  -- module frame: depth 0..1 (thorough: ..2); depth 3: exhaustive in thorough, seeded sample in quick
  for fr in [Frame.func, Frame.funcLoop] do
    for n in [0, 1, 2] do
      for path in pathsOf n do
        -- quick: the depth-2 paths under the frame's loop (= depth 3) carry the context-dependent leaves only
        let leaves := if n == 2 && fr == .funcLoop && !thorough then Leaf.jumps else Leaf.all
        for c in posCases fr path leaves do out := out.push c.line
  for n in (if thorough then [0, 1, 2] else [0, 1]) do
    for path in pathsOf n do
      for c in posCases .module path (Leaf.misc :: Leaf.jumps) do out := out.push c.line
  if thorough then
    for path in pathsOf 3 do
      for c in posCases .func path Leaf.all do out := out.push c.line
  -- nest depth 3: all (thorough) / seeded sample (quick)
  let mut r : Rng := ⟨seed.toUInt64⟩
  let npos := if thorough then 4000 else 150
  for _ in [0:npos] do
    let ((fr, path), r') := (do
      let extra ← rnd 2
      let n := (if thorough then 4 else 3) + extra
      let mut path : List Slot := []
      for _ in [0:n] do path := (← pick Slot.all.toArray) :: path
      let fr ← pick #[Frame.func, Frame.funcLoop, Frame.module]
      pure (fr, path) : G (Frame × List Slot)).run r
    r := r'
    for c in posCases fr path (if fr == .module then Leaf.misc :: Leaf.jumps else Leaf.all) do out := out.push c.line
  if thorough then
    for e in Exit.all do
      for c1 in Con.all do
        for c2 in Con.all do
          for c3 in Con.all do
            if let some c := nestProgram [c1, c2, c3] e then out := out.push c.line
  let nsample := if thorough then 6000 else 250
  for _ in [0:nsample] do
    -- depth 3 (quick) / depth 4 (thorough) samples
    let (cs, r') := (do
      let n := if thorough then 4 else 3
      let mut cs : List Con := []
      for _ in [0:n] do cs := (← pick Con.all.toArray) :: cs
      let e ← pick Exit.all.toArray
      pure (cs, e) : G (List Con × Exit)).run r
    r := r'
    if let some c := nestProgram cs.1 cs.2 then out := out.push c.line
  -- rand
  let nrand := if thorough then 20000 else 500
  for idx in [0:nrand] do
    let (c, r') := (randProgram idx).run r
    r := r'
    out := out.push c.line
  -- repository files, spread over the stream (they are the long-running cases)
  let repo := (← IO.getEnv "VERIF_REPO").getD "/repo"
  let files ← try pyFiles repo catch _ => pure []
  let stride := if files.isEmpty then 0 else max 1 (out.size / files.length)
  let mut fs := files
  let mut k := 0
  for l in out do
    IO.println l
    k := k + 1
    if stride != 0 && k % stride == 0 then
      match fs with
      | f :: rest =>
        IO.println ({ input := s!"F file {f}", modelV := "ok", specV := "ok", tags := [] : Case }).line
        fs := rest
      | [] => pure ()
  for f in fs do
    IO.println ({ input := s!"F file {f}", modelV := "ok", specV := "ok", tags := [] : Case }).line

end GPy.C12
