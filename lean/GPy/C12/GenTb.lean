/-
C12 family `tb` generator (core Lean only) [C12-ext2 g4]: programs in which exactly one designated
sub-expression faults inside a statement spread over several lines (see TbSpec.lean).  For every shape the
line layout is enumerated: each token slot sits on the same line as the previous token or on the next one
(all 2^n layouts for n ≤ 4 slots, a seeded sample beyond).  Input line: `T tb <shape>:<layout>:<frames> <escaped source>`;
V = traceback entries `<module>:l [h:l] g:l [callee:l …] E:<class>`; R = `a2l=ok lines=<entries>` (the co-process
recomputed every entry's line with the Lean `addr2line` on the dumped code object at Lasti-1).
-/
import GPy.Common.Basic
import GPy.C12.TbSpec
namespace GPy.C12.Tb

abbrev LM := StateM (Nat × List Nat)

def slot : LM Nat := modifyGet fun (cur, ds) =>
  match ds with
  | d :: r => (cur + d, (cur + d, r))
  | [] => (cur, (cur, []))

/-- a token that must start a new line (decorator / def line) -/
def slotNL : LM Nat := modifyGet fun (cur, ds) => (cur + 1, (cur + 1, ds))
/-- a token on the current line (no layout choice) -/
def slotHere : LM Nat := modifyGet fun (cur, ds) => (cur, (cur, ds))
def nmAt (l : LM Nat) (s : String) : LM Ex := do let l ← l; pure (.nm l s)

def nm (s : String) : LM Ex := do let l ← slot; pure (.nm l s)
def vv : LM Ex := nm "v"
def fnn : LM Ex := nm "fn"
def und : LM Ex := nm "undefined"
def boomE : LM Ex := do let l ← slot; pure (.boom l)

structure Shape where
  name : String
  slots : Nat
  build : LM St

def L : Nat := stmtLine

/-- `x = ( <e> )` -/
def asg (name : String) (n : Nat) (e : LM Ex) : Shape := ⟨name, n, do let x ← e; pure (.asg L x)⟩

def call3With (f a b c : LM Ex) (bad : Bool) : LM Ex := do
  let f ← f; let a ← a; let b ← b; let c ← c; pure (.call3 f a b c bad)
def call2With (f a b : LM Ex) (bad : Bool) : LM Ex := do
  let f ← f; let a ← a; let b ← b; pure (.call2 f a b bad)
def call1With (f a : LM Ex) (bad : Bool) : LM Ex := do
  let f ← f; let a ← a; pure (.call1 f a bad)
def binWith (l r : LM Ex) (bad : Bool) : LM Ex := do let l ← l; let r ← r; pure (.bin l r bad)
def subWith (v i : LM Ex) (bad : Bool) : LM Ex := do let v ← v; let i ← i; pure (.sub v i bad)
def attrWith (v : LM Ex) (name : String) (bad : Bool) : LM Ex := do let v ← v; let l ← slot; pure (.attr v l name bad)
def listWith (a b : LM Ex) : LM Ex := do let l ← slot; let a ← a; let b ← b; pure (.list2 l a b)
def dictWith (k1 v1 k2 v2 : LM Ex) (bad : Nat) : LM Ex := do
  let l ← slot; let k1 ← k1; let v1 ← v1; let k2 ← k2; let v2 ← v2; pure (.dict2 l k1 v1 k2 v2 bad)
def ifWith (b t e : LM Ex) : LM Ex := do let b ← b; let t ← t; let e ← e; pure (.ifexp b t e)
def kwWith (f a : LM Ex) (kw : String) (b : LM Ex) (bad : Bool) : LM Ex := do
  let f ← f; let a ← a; let b ← b; pure (.kwcall f a kw b bad)

def shapes : List Shape := [
  -- call with arguments on following lines
  asg "call-callee" 4 (call3With und vv vv vv false),
  asg "call-arg1" 4 (call3With fnn und vv vv false),
  asg "call-arg1-boom" 4 (call3With fnn boomE vv vv false),
  asg "call-arg2" 4 (call3With fnn vv und vv false),
  asg "call-arg3" 4 (call3With fnn vv vv und false),
  asg "call-arg3-boom" 4 (call3With fnn vv vv boomE false),
  asg "call-itself" 4 (call3With vv vv vv vv true),
  asg "call-kw-value" 3 (kwWith fnn vv "key" und false),
  asg "call-kw-itself" 3 (kwWith vv vv "key" vv true),
  -- nested call
  asg "nest-inner-arg" 5 (call2With fnn (call2With fnn vv und false) vv false),
  asg "nest-inner-call" 5 (call2With fnn (call2With vv vv vv true) vv false),
  asg "nest-outer-call" 5 (call2With vv (call2With fnn vv vv false) vv true),
  asg "nest-after-inner" 5 (call2With fnn (call2With fnn vv vv false) und false),
  asg "nest-callee-call" 3 (call1With (call1With fnn vv false) und false),
  asg "nest-callee-bad" 3 (call1With (call1With fnn vv false) vv true),   -- fn(v) returns the list v: calling it faults
  -- binary operations over several lines
  asg "bin-op1" 3 (binWith (binWith vv vv true) vv false),
  asg "bin-op2" 3 (binWith (binWith vv vv false) vv true),
  asg "bin-right-nested" 3 (binWith vv (binWith vv vv true) false),
  asg "bin-leaf" 3 (binWith (binWith vv vv false) und false),
  asg "bin-boom" 3 (binWith (binWith vv boomE false) vv false),
  -- subscript
  asg "sub-itself" 2 (subWith vv vv true),
  asg "sub-index" 2 (subWith vv und false),
  asg "sub-chain" 3 (subWith (subWith vv (nm "i0") false) vv true),
  -- attribute on a later line
  asg "attr-missing" 2 (attrWith (nm "ns") "missing" true),
  asg "attr-chain" 3 (attrWith (attrWith (nm "ns") "v" false) "missing" true),
  asg "attr-call" 3 (call1With (attrWith (nm "ns") "fn" false) und false),
  asg "attr-call-bad" 3 (call1With (attrWith (nm "ns") "v" false) vv true),
  -- displays
  asg "list-elt1" 3 (listWith und vv),
  asg "list-elt2" 3 (listWith vv und),
  asg "list-elt2-boom" 3 (listWith vv boomE),
  asg "list-in-call" 4 (call1With fnn (listWith vv und) false),
  -- (gpython's dict accepts only str keys - KeyError otherwise, a limitation outside C12 - so keys are string literals and only leaves fault)
  asg "dict-value1" 5 (dictWith (nm "'a'") und (nm "'b'") vv 0),
  asg "dict-key1-leaf" 5 (dictWith und vv (nm "'b'") vv 0),
  asg "dict-key2-leaf" 5 (dictWith (nm "'a'") vv und vv 0),
  asg "dict-value2" 5 (dictWith (nm "'a'") vv (nm "'b'") und 0),
  asg "dict-value2-boom" 5 (dictWith (nm "'a'") vv (nm "'b'") boomE 0),
  asg "dict-in-call" 6 (call1With vv (dictWith (nm "'a'") vv (nm "'b'") vv 0) true),
  -- conditional expression
  asg "if-test" 3 (ifWith vv und vv),
  asg "if-body" 3 (ifWith und (nm "i1") vv),
  asg "if-orelse" 3 (ifWith vv (nm "i0") und),
  asg "if-body-boom" 3 (ifWith boomE (nm "i1") vv),
  asg "if-in-call" 4 (call1With fnn (ifWith und (nm "i1") vv) false),
  asg "if-then-call" 4 (call2With vv (ifWith vv (nm "i1") vv) vv true),
  -- return ( … )
  ⟨"ret-call", 3, do let e ← call2With fnn vv und false; pure (.ret L e)⟩,
  ⟨"ret-bin", 2, do let e ← binWith vv vv true; pure (.ret L e)⟩,
  ⟨"ret-boom", 3, do let e ← call2With fnn boomE vv false; pure (.ret L e)⟩,
  -- assert with the message on a later line
  ⟨"assert-fails", 2, do let t ← nm "i0"; let m ← vv; pure (.asrt L t m true)⟩,
  ⟨"assert-fails-if", 4, do let t ← ifWith (nm "i0") (nm "i1") vv; let m ← call1With fnn vv false; pure (.asrt L t m true)⟩,
  ⟨"assert-msg", 2, do let t ← nm "i0"; let m ← und; pure (.asrt L t m false)⟩,
  ⟨"assert-msg-boom", 2, do let t ← nm "i0"; let m ← boomE; pure (.asrt L t m false)⟩,
  ⟨"assert-test", 3, do let t ← binWith vv vv true; let m ← vv; pure (.asrt L t m false)⟩,
  -- with items on several lines
  ⟨"with-item1", 2, do let a ← und; let b ← nm "cm"; pure (.withS L a b 0)⟩,
  ⟨"with-item2", 2, do let a ← nm "cm"; let b ← und; pure (.withS L a b 0)⟩,
  ⟨"with-setup1", 2, do let a ← vv; let b ← nm "cm"; pure (.withS L a b 1)⟩,
  ⟨"with-setup2", 2, do let a ← nm "cm"; let b ← vv; pure (.withS L a b 2)⟩,
  ⟨"with-enter2", 2, do let a ← nm "cm"; let b ← nm "be"; pure (.withS L a b 3)⟩,
  ⟨"with-item2-call", 4, do let a ← nm "cm"; let b ← call2With fnn vv und false; pure (.withS L a b 0)⟩,
  -- default values on several lines
  ⟨"dflt-1", 2, do let a ← und; let b ← vv; pure (.dflt2 L a b)⟩,
  ⟨"dflt-2", 2, do let a ← vv; let b ← und; pure (.dflt2 L a b)⟩,
  ⟨"dflt-2-boom", 2, do let a ← vv; let b ← boomE; pure (.dflt2 L a b)⟩,
  ⟨"dflt-2-call", 4, do let a ← vv; let b ← call2With vv vv vv true; pure (.dflt2 L a b)⟩
]

/-- decorated def / class: decorators on consecutive lines starting at L, each possibly spread over two lines -/
def decoShapes : List Shape := Id.run do
  let mut out : List Shape := []
  for isClass in [false, true] do
    let k := if isClass then "class" else "def"
    for n in [1, 2, 3] do
      for j in [0:n] do
        -- decorator j is an undefined name (faults while EVALUATED)
        out := out ++ [⟨s!"deco-{k}-{n}-eval{j}", 0, pure (.deco ((List.range n).map fun i => .nm (L + i) (if i == j then "undefined" else "deco")) (L + n) none isClass none)⟩]
        -- decorator j is not callable (faults while APPLIED, TypeError in g)
        out := out ++ [⟨s!"deco-{k}-{n}-apply{j}", 0, pure (.deco ((List.range n).map fun i => .nm (L + i) (if i == j then "v" else "deco")) (L + n) none isClass (some (j, ⟨[], "TypeError"⟩)))⟩]
        -- decorator j raises inside (faults while APPLIED, entry for bdeco)
        out := out ++ [⟨s!"deco-{k}-{n}-raise{j}", 0, pure (.deco ((List.range n).map fun i => .nm (L + i) (if i == j then "bdeco" else "deco")) (L + n) none isClass (some (j, ⟨[("bdeco", bdecoLine)], "ZeroDivisionError"⟩)))⟩]
    -- decorators with arguments, the argument on its own line: @mk(\n arg)
    for n in [1, 2] do
      for j in [0:n] do
        let mkD (bad : Bool) : LM (List Ex) := do
          let mut ds : List Ex := []
          for i in [0:n] do
            let f ← nmAt (if i == 0 then slotHere else slotNL) "mk"
            let a ← (if i == j && bad then und else vv)
            ds := ds ++ [Ex.call1 f a false]
          pure ds
        out := out ++ [⟨s!"deco-{k}-args{n}-arg{j}", n, do
          let ds ← mkD true; let dl ← slotNL; pure (.deco ds dl none isClass none)⟩]
        -- mk(v) returns `deco`; a decorator `fn(v)` returns the list v: applying it faults
        out := out ++ [⟨s!"deco-{k}-args{n}-apply{j}", n, do
          let mut ds : List Ex := []
          for i in [0:n] do
            let f ← nmAt (if i == 0 then slotHere else slotNL) (if i == j then "fn" else "mk")
            let a ← vv
            ds := ds ++ [Ex.call1 f a false]
          let dl ← slotNL
          pure (.deco ds dl none isClass (some (j, ⟨[], "TypeError"⟩)))⟩]
  -- decorators + a default value on a later line of the def
  out := out ++ [⟨"deco-def-dflt-eval", 1, do
    let d ← nmAt slotHere "deco"; let dl ← slotNL; let x ← und; pure (.deco [d] dl (some x) false none)⟩]
  out := out ++ [⟨"deco-def-dflt-apply", 1, do
    let d ← nmAt slotHere "v"; let dl ← slotNL; let x ← vv; pure (.deco [d] dl (some x) false (some (0, ⟨[], "TypeError"⟩)))⟩]
  out := out ++ [⟨"deco-def-dflt-call", 3, do
    let d0 ← nmAt slotHere "deco"; let dl ← slotNL; let x ← call2With vv vv vv true; pure (.deco [d0] dl (some x) false none)⟩]
  out := out ++ [⟨"deco-def-dflt-raise", 1, do
    let d0 ← nmAt slotHere "bdeco"; let d1 ← nmAt slotNL "deco"; let dl ← slotNL; let x ← vv; pure (.deco [d0, d1] dl (some x) false (some (0, ⟨[("bdeco", bdecoLine)], "ZeroDivisionError"⟩)))⟩]
  return out

/-- comprehension spread over lines: x = ( [ elt for q in iter if cond ] ) -/
def compShapes : List Shape := [
  ⟨"comp-elt", 5, do let lb ← slot; let e ← und; let lf ← slot; let it ← vv; let c ← nm "i1"; pure (.comp L lb e lf it c false)⟩,
  ⟨"comp-elt-boom", 5, do let lb ← slot; let e ← boomE; let lf ← slot; let it ← vv; let c ← nm "i1"; pure (.comp L lb e lf it c false)⟩,
  ⟨"comp-cond", 5, do let lb ← slot; let e ← vv; let lf ← slot; let it ← vv; let c ← und; pure (.comp L lb e lf it c false)⟩,
  ⟨"comp-iter", 5, do let lb ← slot; let e ← vv; let lf ← slot; let it ← und; let c ← nm "i1"; pure (.comp L lb e lf it c false)⟩,
  ⟨"comp-iter-bad", 5, do let lb ← slot; let e ← vv; let lf ← slot; let it ← nm "i0"; let c ← nm "i1"; pure (.comp L lb e lf it c true)⟩,
  ⟨"comp-elt-call", 7, do let lb ← slot; let e ← call2With vv vv vv true; let lf ← slot; let it ← vv; let c ← nm "i1"; pure (.comp L lb e lf it c false)⟩
]

def allShapes : List Shape := shapes ++ decoShapes ++ compShapes

def bitsOf (n k : Nat) : List Nat := (List.range n).map fun i => (k >>> i) % 2

def layouts (n : Nat) (seed : Nat) (thorough : Bool) : List (List Nat) :=
  if n ≤ (if thorough then 7 else 4) then (List.range (2 ^ n)).map (bitsOf n)
  else
    -- all-same-line, all-next-line, and a seeded sample
    let cnt := 14
    let ks := (List.range cnt).map fun i => ((seed + 1) * 2654435761 + i * 40503 + i * i * 977) % (2 ^ n)
    ([0, 2 ^ n - 1] ++ ks).eraseDups.map (bitsOf n)

def escapeTb (s : String) : String :=
  s.foldl (fun acc ch => if ch == '\n' then acc ++ "\\n" else if ch == '\t' then acc ++ "\\t"
                         else if ch == '\\' then acc ++ "\\\\" else acc.push ch) ""

def tbCases (tier : String) (seed : Nat) : Array Case := Id.run do
  let thorough := tier == "thorough"
  let mut out : Array Case := #[]
  for sh in allShapes do
    let mut idx := 0
    for lay in layouts sh.slots seed thorough do
      idx := idx + 1
      let (st, _) := sh.build.run (L, lay)
      if !layoutOk st.l0 st.toks || st.l0 != L || (st.toks.head?.map (·.1)) != some L then continue
      let two := idx % 2 == 0
      let spec := st.spec
      if spec.isNone then continue
      let (sv, n) := verdict st two spec
      let (mv, _) := verdict st two st.model
      let (lines, _, _) := program st two
      let layS := String.join (lay.map toString)
      out := out.push { input := s!"T tb {sh.name}:{if layS.isEmpty then "-" else layS}:{if two then 2 else 1} " ++ escapeTb ("\n".intercalate lines),
                        modelV := mv, modelR := s!"a2l=ok lines={n}", specV := sv,
                        tags := ["nt"] ++ (if st.ok then ["vok"] else []) }
  return out

end GPy.C12.Tb
