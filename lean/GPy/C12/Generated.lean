/- REGENERATED on every run by extract/opcodes from vm/opcodes.go and
   compile/instructions.go of the gpython working tree.  Never edit. -/
import GPy.C12.Ops
namespace GPy.C12.Generated
open GPy.C12

/-- vm/opcodes.go: HAVE_ARGUMENT (`op.HAS_ARG() = op >= HAVE_ARGUMENT`) -/
def haveArgument : Nat := 90

/-- vm/opcodes.go: the opcode constants in source order -/
def opTable : List (Op × Nat) := [
  (.POP_TOP, 1),
  (.ROT_TWO, 2),
  (.ROT_THREE, 3),
  (.DUP_TOP, 4),
  (.DUP_TOP_TWO, 5),
  (.NOP, 9),
  (.UNARY_POSITIVE, 10),
  (.UNARY_NEGATIVE, 11),
  (.UNARY_NOT, 12),
  (.UNARY_INVERT, 15),
  (.BINARY_POWER, 19),
  (.BINARY_MULTIPLY, 20),
  (.BINARY_MODULO, 22),
  (.BINARY_ADD, 23),
  (.BINARY_SUBTRACT, 24),
  (.BINARY_SUBSCR, 25),
  (.BINARY_FLOOR_DIVIDE, 26),
  (.BINARY_TRUE_DIVIDE, 27),
  (.INPLACE_FLOOR_DIVIDE, 28),
  (.INPLACE_TRUE_DIVIDE, 29),
  (.STORE_MAP, 54),
  (.INPLACE_ADD, 55),
  (.INPLACE_SUBTRACT, 56),
  (.INPLACE_MULTIPLY, 57),
  (.INPLACE_MODULO, 59),
  (.STORE_SUBSCR, 60),
  (.DELETE_SUBSCR, 61),
  (.BINARY_LSHIFT, 62),
  (.BINARY_RSHIFT, 63),
  (.BINARY_AND, 64),
  (.BINARY_XOR, 65),
  (.BINARY_OR, 66),
  (.INPLACE_POWER, 67),
  (.GET_ITER, 68),
  (.PRINT_EXPR, 70),
  (.LOAD_BUILD_CLASS, 71),
  (.YIELD_FROM, 72),
  (.INPLACE_LSHIFT, 75),
  (.INPLACE_RSHIFT, 76),
  (.INPLACE_AND, 77),
  (.INPLACE_XOR, 78),
  (.INPLACE_OR, 79),
  (.BREAK_LOOP, 80),
  (.WITH_CLEANUP, 81),
  (.RETURN_VALUE, 83),
  (.IMPORT_STAR, 84),
  (.YIELD_VALUE, 86),
  (.POP_BLOCK, 87),
  (.END_FINALLY, 88),
  (.POP_EXCEPT, 89),
  (.STORE_NAME, 90),
  (.DELETE_NAME, 91),
  (.UNPACK_SEQUENCE, 92),
  (.FOR_ITER, 93),
  (.UNPACK_EX, 94),
  (.STORE_ATTR, 95),
  (.DELETE_ATTR, 96),
  (.STORE_GLOBAL, 97),
  (.DELETE_GLOBAL, 98),
  (.LOAD_CONST, 100),
  (.LOAD_NAME, 101),
  (.BUILD_TUPLE, 102),
  (.BUILD_LIST, 103),
  (.BUILD_SET, 104),
  (.BUILD_MAP, 105),
  (.LOAD_ATTR, 106),
  (.COMPARE_OP, 107),
  (.IMPORT_NAME, 108),
  (.IMPORT_FROM, 109),
  (.JUMP_FORWARD, 110),
  (.JUMP_IF_FALSE_OR_POP, 111),
  (.JUMP_IF_TRUE_OR_POP, 112),
  (.JUMP_ABSOLUTE, 113),
  (.POP_JUMP_IF_FALSE, 114),
  (.POP_JUMP_IF_TRUE, 115),
  (.LOAD_GLOBAL, 116),
  (.CONTINUE_LOOP, 119),
  (.SETUP_LOOP, 120),
  (.SETUP_EXCEPT, 121),
  (.SETUP_FINALLY, 122),
  (.LOAD_FAST, 124),
  (.STORE_FAST, 125),
  (.DELETE_FAST, 126),
  (.RAISE_VARARGS, 130),
  (.CALL_FUNCTION, 131),
  (.MAKE_FUNCTION, 132),
  (.BUILD_SLICE, 133),
  (.MAKE_CLOSURE, 134),
  (.LOAD_CLOSURE, 135),
  (.LOAD_DEREF, 136),
  (.STORE_DEREF, 137),
  (.DELETE_DEREF, 138),
  (.CALL_FUNCTION_VAR, 140),
  (.CALL_FUNCTION_KW, 141),
  (.CALL_FUNCTION_VAR_KW, 142),
  (.SETUP_WITH, 143),
  (.EXTENDED_ARG, 144),
  (.LIST_APPEND, 145),
  (.SET_ADD, 146),
  (.MAP_ADD, 147),
  (.LOAD_CLASSDEREF, 148)
]

/-- byte → opcode -/
def opOfNat : Nat → Option Op
  | 1 => some .POP_TOP
  | 2 => some .ROT_TWO
  | 3 => some .ROT_THREE
  | 4 => some .DUP_TOP
  | 5 => some .DUP_TOP_TWO
  | 9 => some .NOP
  | 10 => some .UNARY_POSITIVE
  | 11 => some .UNARY_NEGATIVE
  | 12 => some .UNARY_NOT
  | 15 => some .UNARY_INVERT
  | 19 => some .BINARY_POWER
  | 20 => some .BINARY_MULTIPLY
  | 22 => some .BINARY_MODULO
  | 23 => some .BINARY_ADD
  | 24 => some .BINARY_SUBTRACT
  | 25 => some .BINARY_SUBSCR
  | 26 => some .BINARY_FLOOR_DIVIDE
  | 27 => some .BINARY_TRUE_DIVIDE
  | 28 => some .INPLACE_FLOOR_DIVIDE
  | 29 => some .INPLACE_TRUE_DIVIDE
  | 54 => some .STORE_MAP
  | 55 => some .INPLACE_ADD
  | 56 => some .INPLACE_SUBTRACT
  | 57 => some .INPLACE_MULTIPLY
  | 59 => some .INPLACE_MODULO
  | 60 => some .STORE_SUBSCR
  | 61 => some .DELETE_SUBSCR
  | 62 => some .BINARY_LSHIFT
  | 63 => some .BINARY_RSHIFT
  | 64 => some .BINARY_AND
  | 65 => some .BINARY_XOR
  | 66 => some .BINARY_OR
  | 67 => some .INPLACE_POWER
  | 68 => some .GET_ITER
  | 70 => some .PRINT_EXPR
  | 71 => some .LOAD_BUILD_CLASS
  | 72 => some .YIELD_FROM
  | 75 => some .INPLACE_LSHIFT
  | 76 => some .INPLACE_RSHIFT
  | 77 => some .INPLACE_AND
  | 78 => some .INPLACE_XOR
  | 79 => some .INPLACE_OR
  | 80 => some .BREAK_LOOP
  | 81 => some .WITH_CLEANUP
  | 83 => some .RETURN_VALUE
  | 84 => some .IMPORT_STAR
  | 86 => some .YIELD_VALUE
  | 87 => some .POP_BLOCK
  | 88 => some .END_FINALLY
  | 89 => some .POP_EXCEPT
  | 90 => some .STORE_NAME
  | 91 => some .DELETE_NAME
  | 92 => some .UNPACK_SEQUENCE
  | 93 => some .FOR_ITER
  | 94 => some .UNPACK_EX
  | 95 => some .STORE_ATTR
  | 96 => some .DELETE_ATTR
  | 97 => some .STORE_GLOBAL
  | 98 => some .DELETE_GLOBAL
  | 100 => some .LOAD_CONST
  | 101 => some .LOAD_NAME
  | 102 => some .BUILD_TUPLE
  | 103 => some .BUILD_LIST
  | 104 => some .BUILD_SET
  | 105 => some .BUILD_MAP
  | 106 => some .LOAD_ATTR
  | 107 => some .COMPARE_OP
  | 108 => some .IMPORT_NAME
  | 109 => some .IMPORT_FROM
  | 110 => some .JUMP_FORWARD
  | 111 => some .JUMP_IF_FALSE_OR_POP
  | 112 => some .JUMP_IF_TRUE_OR_POP
  | 113 => some .JUMP_ABSOLUTE
  | 114 => some .POP_JUMP_IF_FALSE
  | 115 => some .POP_JUMP_IF_TRUE
  | 116 => some .LOAD_GLOBAL
  | 119 => some .CONTINUE_LOOP
  | 120 => some .SETUP_LOOP
  | 121 => some .SETUP_EXCEPT
  | 122 => some .SETUP_FINALLY
  | 124 => some .LOAD_FAST
  | 125 => some .STORE_FAST
  | 126 => some .DELETE_FAST
  | 130 => some .RAISE_VARARGS
  | 131 => some .CALL_FUNCTION
  | 132 => some .MAKE_FUNCTION
  | 133 => some .BUILD_SLICE
  | 134 => some .MAKE_CLOSURE
  | 135 => some .LOAD_CLOSURE
  | 136 => some .LOAD_DEREF
  | 137 => some .STORE_DEREF
  | 138 => some .DELETE_DEREF
  | 140 => some .CALL_FUNCTION_VAR
  | 141 => some .CALL_FUNCTION_KW
  | 142 => some .CALL_FUNCTION_VAR_KW
  | 143 => some .SETUP_WITH
  | 144 => some .EXTENDED_ARG
  | 145 => some .LIST_APPEND
  | 146 => some .SET_ADD
  | 147 => some .MAP_ADD
  | 148 => some .LOAD_CLASSDEREF
  | _ => none

/-- opcode → byte -/
def Op.toNat : Op → Nat
  | .POP_TOP => 1
  | .ROT_TWO => 2
  | .ROT_THREE => 3
  | .DUP_TOP => 4
  | .DUP_TOP_TWO => 5
  | .NOP => 9
  | .UNARY_POSITIVE => 10
  | .UNARY_NEGATIVE => 11
  | .UNARY_NOT => 12
  | .UNARY_INVERT => 15
  | .BINARY_POWER => 19
  | .BINARY_MULTIPLY => 20
  | .BINARY_MODULO => 22
  | .BINARY_ADD => 23
  | .BINARY_SUBTRACT => 24
  | .BINARY_SUBSCR => 25
  | .BINARY_FLOOR_DIVIDE => 26
  | .BINARY_TRUE_DIVIDE => 27
  | .INPLACE_FLOOR_DIVIDE => 28
  | .INPLACE_TRUE_DIVIDE => 29
  | .STORE_MAP => 54
  | .INPLACE_ADD => 55
  | .INPLACE_SUBTRACT => 56
  | .INPLACE_MULTIPLY => 57
  | .INPLACE_MODULO => 59
  | .STORE_SUBSCR => 60
  | .DELETE_SUBSCR => 61
  | .BINARY_LSHIFT => 62
  | .BINARY_RSHIFT => 63
  | .BINARY_AND => 64
  | .BINARY_XOR => 65
  | .BINARY_OR => 66
  | .INPLACE_POWER => 67
  | .GET_ITER => 68
  | .PRINT_EXPR => 70
  | .LOAD_BUILD_CLASS => 71
  | .YIELD_FROM => 72
  | .INPLACE_LSHIFT => 75
  | .INPLACE_RSHIFT => 76
  | .INPLACE_AND => 77
  | .INPLACE_XOR => 78
  | .INPLACE_OR => 79
  | .BREAK_LOOP => 80
  | .WITH_CLEANUP => 81
  | .RETURN_VALUE => 83
  | .IMPORT_STAR => 84
  | .YIELD_VALUE => 86
  | .POP_BLOCK => 87
  | .END_FINALLY => 88
  | .POP_EXCEPT => 89
  | .STORE_NAME => 90
  | .DELETE_NAME => 91
  | .UNPACK_SEQUENCE => 92
  | .FOR_ITER => 93
  | .UNPACK_EX => 94
  | .STORE_ATTR => 95
  | .DELETE_ATTR => 96
  | .STORE_GLOBAL => 97
  | .DELETE_GLOBAL => 98
  | .LOAD_CONST => 100
  | .LOAD_NAME => 101
  | .BUILD_TUPLE => 102
  | .BUILD_LIST => 103
  | .BUILD_SET => 104
  | .BUILD_MAP => 105
  | .LOAD_ATTR => 106
  | .COMPARE_OP => 107
  | .IMPORT_NAME => 108
  | .IMPORT_FROM => 109
  | .JUMP_FORWARD => 110
  | .JUMP_IF_FALSE_OR_POP => 111
  | .JUMP_IF_TRUE_OR_POP => 112
  | .JUMP_ABSOLUTE => 113
  | .POP_JUMP_IF_FALSE => 114
  | .POP_JUMP_IF_TRUE => 115
  | .LOAD_GLOBAL => 116
  | .CONTINUE_LOOP => 119
  | .SETUP_LOOP => 120
  | .SETUP_EXCEPT => 121
  | .SETUP_FINALLY => 122
  | .LOAD_FAST => 124
  | .STORE_FAST => 125
  | .DELETE_FAST => 126
  | .RAISE_VARARGS => 130
  | .CALL_FUNCTION => 131
  | .MAKE_FUNCTION => 132
  | .BUILD_SLICE => 133
  | .MAKE_CLOSURE => 134
  | .LOAD_CLOSURE => 135
  | .LOAD_DEREF => 136
  | .STORE_DEREF => 137
  | .DELETE_DEREF => 138
  | .CALL_FUNCTION_VAR => 140
  | .CALL_FUNCTION_KW => 141
  | .CALL_FUNCTION_VAR_KW => 142
  | .SETUP_WITH => 143
  | .EXTENDED_ARG => 144
  | .LIST_APPEND => 145
  | .SET_ADD => 146
  | .MAP_ADD => 147
  | .LOAD_CLASSDEREF => 148

/-- compile/instructions.go: nArgs -/
def nArgs (oparg : Nat) : Int := (((((oparg &&& 255) : Nat) : Int)) + ((2 : Int) * ((((((oparg >>> 8)) &&& 255) : Nat) : Int))))

/-- compile/instructions.go: opcodeStackEffect; `none` = the `panic("Unknown opcode in StackEffect")` default -/
def opcodeStackEffect (op : Op) (oparg : Nat) : Option Int :=
  match op with
  | .POP_TOP => some (- (1 : Int))
  | .ROT_TWO => some (0 : Int)
  | .ROT_THREE => some (0 : Int)
  | .DUP_TOP => some (1 : Int)
  | .DUP_TOP_TWO => some (2 : Int)
  | .UNARY_POSITIVE => some (0 : Int)
  | .UNARY_NEGATIVE => some (0 : Int)
  | .UNARY_NOT => some (0 : Int)
  | .UNARY_INVERT => some (0 : Int)
  | .SET_ADD => some (- (1 : Int))
  | .LIST_APPEND => some (- (1 : Int))
  | .MAP_ADD => some (- (2 : Int))
  | .BINARY_POWER => some (- (1 : Int))
  | .BINARY_MULTIPLY => some (- (1 : Int))
  | .BINARY_MODULO => some (- (1 : Int))
  | .BINARY_ADD => some (- (1 : Int))
  | .BINARY_SUBTRACT => some (- (1 : Int))
  | .BINARY_SUBSCR => some (- (1 : Int))
  | .BINARY_FLOOR_DIVIDE => some (- (1 : Int))
  | .BINARY_TRUE_DIVIDE => some (- (1 : Int))
  | .INPLACE_FLOOR_DIVIDE => some (- (1 : Int))
  | .INPLACE_TRUE_DIVIDE => some (- (1 : Int))
  | .INPLACE_ADD => some (- (1 : Int))
  | .INPLACE_SUBTRACT => some (- (1 : Int))
  | .INPLACE_MULTIPLY => some (- (1 : Int))
  | .INPLACE_MODULO => some (- (1 : Int))
  | .STORE_SUBSCR => some (- (3 : Int))
  | .STORE_MAP => some (- (2 : Int))
  | .DELETE_SUBSCR => some (- (2 : Int))
  | .BINARY_LSHIFT => some (- (1 : Int))
  | .BINARY_RSHIFT => some (- (1 : Int))
  | .BINARY_AND => some (- (1 : Int))
  | .BINARY_XOR => some (- (1 : Int))
  | .BINARY_OR => some (- (1 : Int))
  | .INPLACE_POWER => some (- (1 : Int))
  | .GET_ITER => some (0 : Int)
  | .PRINT_EXPR => some (- (1 : Int))
  | .LOAD_BUILD_CLASS => some (1 : Int)
  | .INPLACE_LSHIFT => some (- (1 : Int))
  | .INPLACE_RSHIFT => some (- (1 : Int))
  | .INPLACE_AND => some (- (1 : Int))
  | .INPLACE_XOR => some (- (1 : Int))
  | .INPLACE_OR => some (- (1 : Int))
  | .BREAK_LOOP => some (0 : Int)
  | .SETUP_WITH => some (7 : Int)
  | .WITH_CLEANUP => some (- (1 : Int))
  | .RETURN_VALUE => some (- (1 : Int))
  | .IMPORT_STAR => some (- (1 : Int))
  | .YIELD_VALUE => some (0 : Int)
  | .YIELD_FROM => some (- (1 : Int))
  | .POP_BLOCK => some (0 : Int)
  | .POP_EXCEPT => some (0 : Int)
  | .END_FINALLY => some (- (1 : Int))
  | .STORE_NAME => some (- (1 : Int))
  | .DELETE_NAME => some (0 : Int)
  | .UNPACK_SEQUENCE => some (((oparg : Nat) : Int) - (1 : Int))
  | .UNPACK_EX => some (((((oparg &&& 255) : Nat) : Int)) + ((((oparg >>> 8) : Nat) : Int)))
  | .FOR_ITER => some (1 : Int)
  | .STORE_ATTR => some (- (2 : Int))
  | .DELETE_ATTR => some (- (1 : Int))
  | .STORE_GLOBAL => some (- (1 : Int))
  | .DELETE_GLOBAL => some (0 : Int)
  | .LOAD_CONST => some (1 : Int)
  | .LOAD_NAME => some (1 : Int)
  | .BUILD_TUPLE => some ((1 : Int) - ((oparg : Nat) : Int))
  | .BUILD_LIST => some ((1 : Int) - ((oparg : Nat) : Int))
  | .BUILD_SET => some ((1 : Int) - ((oparg : Nat) : Int))
  | .BUILD_MAP => some (1 : Int)
  | .LOAD_ATTR => some (0 : Int)
  | .COMPARE_OP => some (- (1 : Int))
  | .IMPORT_NAME => some (- (1 : Int))
  | .IMPORT_FROM => some (1 : Int)
  | .JUMP_FORWARD => some (0 : Int)
  | .JUMP_ABSOLUTE => some (0 : Int)
  | .JUMP_IF_TRUE_OR_POP => some (0 : Int)
  | .JUMP_IF_FALSE_OR_POP => some (0 : Int)
  | .POP_JUMP_IF_FALSE => some (- (1 : Int))
  | .POP_JUMP_IF_TRUE => some (- (1 : Int))
  | .LOAD_GLOBAL => some (1 : Int)
  | .CONTINUE_LOOP => some (0 : Int)
  | .SETUP_LOOP => some (0 : Int)
  | .SETUP_EXCEPT => some (6 : Int)
  | .SETUP_FINALLY => some (6 : Int)
  | .LOAD_FAST => some (1 : Int)
  | .STORE_FAST => some (- (1 : Int))
  | .DELETE_FAST => some (0 : Int)
  | .RAISE_VARARGS => some (- ((oparg : Nat) : Int))
  | .CALL_FUNCTION => some (- (nArgs oparg))
  | .CALL_FUNCTION_VAR => some ((- (nArgs oparg)) - (1 : Int))
  | .CALL_FUNCTION_KW => some ((- (nArgs oparg)) - (1 : Int))
  | .CALL_FUNCTION_VAR_KW => some ((- (nArgs oparg)) - (2 : Int))
  | .MAKE_FUNCTION => some (((- (1 : Int)) - (nArgs oparg)) - ((((((oparg >>> 16)) &&& 65535) : Nat) : Int)))
  | .MAKE_CLOSURE => some (((- (2 : Int)) - (nArgs oparg)) - ((((((oparg >>> 16)) &&& 65535) : Nat) : Int)))
  | .BUILD_SLICE => some (if oparg = 3 then (- (2 : Int)) else (- (1 : Int)))
  | .LOAD_CLOSURE => some (1 : Int)
  | .LOAD_DEREF => some (1 : Int)
  | .LOAD_CLASSDEREF => some (1 : Int)
  | .STORE_DEREF => some (- (1 : Int))
  | .DELETE_DEREF => some (0 : Int)
  | _ => none

/-- opcodes with a row in opcodeStackEffect -/
def effectRows : List Op := [.POP_TOP, .ROT_TWO, .ROT_THREE, .DUP_TOP, .DUP_TOP_TWO, .UNARY_POSITIVE, .UNARY_NEGATIVE, .UNARY_NOT, .UNARY_INVERT, .BINARY_POWER, .BINARY_MULTIPLY, .BINARY_MODULO, .BINARY_ADD, .BINARY_SUBTRACT, .BINARY_SUBSCR, .BINARY_FLOOR_DIVIDE, .BINARY_TRUE_DIVIDE, .INPLACE_FLOOR_DIVIDE, .INPLACE_TRUE_DIVIDE, .STORE_MAP, .INPLACE_ADD, .INPLACE_SUBTRACT, .INPLACE_MULTIPLY, .INPLACE_MODULO, .STORE_SUBSCR, .DELETE_SUBSCR, .BINARY_LSHIFT, .BINARY_RSHIFT, .BINARY_AND, .BINARY_XOR, .BINARY_OR, .INPLACE_POWER, .GET_ITER, .PRINT_EXPR, .LOAD_BUILD_CLASS, .YIELD_FROM, .INPLACE_LSHIFT, .INPLACE_RSHIFT, .INPLACE_AND, .INPLACE_XOR, .INPLACE_OR, .BREAK_LOOP, .WITH_CLEANUP, .RETURN_VALUE, .IMPORT_STAR, .YIELD_VALUE, .POP_BLOCK, .END_FINALLY, .POP_EXCEPT, .STORE_NAME, .DELETE_NAME, .UNPACK_SEQUENCE, .FOR_ITER, .UNPACK_EX, .STORE_ATTR, .DELETE_ATTR, .STORE_GLOBAL, .DELETE_GLOBAL, .LOAD_CONST, .LOAD_NAME, .BUILD_TUPLE, .BUILD_LIST, .BUILD_SET, .BUILD_MAP, .LOAD_ATTR, .COMPARE_OP, .IMPORT_NAME, .IMPORT_FROM, .JUMP_FORWARD, .JUMP_IF_FALSE_OR_POP, .JUMP_IF_TRUE_OR_POP, .JUMP_ABSOLUTE, .POP_JUMP_IF_FALSE, .POP_JUMP_IF_TRUE, .LOAD_GLOBAL, .CONTINUE_LOOP, .SETUP_LOOP, .SETUP_EXCEPT, .SETUP_FINALLY, .LOAD_FAST, .STORE_FAST, .DELETE_FAST, .RAISE_VARARGS, .CALL_FUNCTION, .MAKE_FUNCTION, .BUILD_SLICE, .MAKE_CLOSURE, .LOAD_CLOSURE, .LOAD_DEREF, .STORE_DEREF, .DELETE_DEREF, .CALL_FUNCTION_VAR, .CALL_FUNCTION_KW, .CALL_FUNCTION_VAR_KW, .SETUP_WITH, .LIST_APPEND, .SET_ADD, .MAP_ADD, .LOAD_CLASSDEREF]

end GPy.C12.Generated
