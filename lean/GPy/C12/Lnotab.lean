/-
C12 line tables, part 2 (core Lean only) [C12-ext2 g4].

`compile/instructions.go: Instructions.Lnotab()` is modelled in `GPy.C02.Model` (`LInstr`, `lnotab`,
`addr2line`, `posOf`, `tracebackAddr`) and reused here, NOT copied.  This file adds

* `runMax`   – the running maximum of the line numbers of the sized instructions `0..k` of a stream,
               starting from 1 (= `old_lineno := 1` of `Lnotab()`; `Firstlineno` is always 1 in gpython);
               this is what `Addr2Line ∘ Lnotab` returns for ARBITRARY streams (line numbers may go
               down: multi-line expressions, decorators) – theorem `lnotab_running_max`;
* `flat`     – the byte string of a table of pairs, as `py.Code.Lnotab` / C12's `Code.lnotab` holds it;
* `lastRec`  – (old_offset, old_lineno) when the loop of `Lnotab()` ends.
-/
import GPy.C02.Model
import GPy.C12.Model
namespace GPy.C12
open GPy.C02 (LInstr)

/-- running maximum of the lines of the sized instructions with index ≤ `k`, starting at `cur` -/
def runMax : List LInstr → Nat → Nat → Nat
  | [], cur, _ => cur
  | i :: _, cur, 0 => if i.size = 0 then cur else max cur i.line
  | i :: is, cur, k+1 => runMax is (if i.size = 0 then cur else max cur i.line) k

/-- the table as the flat byte string of `py.Code.Lnotab` -/
def flat : List (Nat × Nat) → List Nat
  | [] => []
  | (a, l) :: rest => a :: l :: flat rest

/-- `(old_offset, old_lineno)` at the end of the loop of `Lnotab()` started with `(off, oo, ol)` -/
def lastRec : List LInstr → Nat → Nat → Nat → Nat × Nat
  | [], _, oo, ol => (oo, ol)
  | i :: is, off, oo, ol =>
    if i.size = 0 then lastRec is off oo ol
    else if i.line ≤ ol then lastRec is (off + i.size) oo ol
    else lastRec is (off + i.size) off i.line

/-- total size of a stream (= `len(code)` after `Assemble`) -/
def totalSize : List LInstr → Nat
  | [] => 0
  | i :: is => i.size + totalSize is

/-- the C12 code object that carries the line table `Lnotab()` computes for the stream `is`
(only the fields `addr2line` and `LnotabOk` read are relevant; `Firstlineno` = 1 as in compile.go) -/
def withLnotab (c : Code) (is : List LInstr) : Code :=
  { c with lnotab := (flat (GPy.C02.lnotab is)).toArray, firstlineno := 1 }

end GPy.C12
