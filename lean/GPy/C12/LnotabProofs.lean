/-
C12 line tables, part 2: helper lemmas [C12-ext2 g4].  Reuses C02's decoding lemma
`lnotabGo_decode` (Addr2Line ∘ Lnotab = `lineAtByte`, valid for arbitrary streams).
-/
import GPy.C02.Proofs
import GPy.C12.Proofs
import GPy.C12.Lnotab
namespace GPy.C12
open GPy.C02 (LInstr lnotabGo lnotab posOf tracebackAddr lineAtByte chunk splitAddr splitLine LinesSorted)

theorem posOf_zero (is : List LInstr) : posOf is 0 = 0 := by cases is <;> rfl

/-- `lineAtByte` at any byte of instruction `k` is the running maximum up to `k` -/
theorem lineAtByte_runMax (is : List LInstr) : ∀ (off cur k p : Nat) (i : LInstr), is[k]? = some i → 0 < i.size →
    off + posOf is k ≤ p → p < off + posOf is (k + 1) → lineAtByte is off cur p = runMax is cur k := by
  induction is with
  | nil => intro off cur k p i hi; simp at hi
  | cons j is ih =>
    intro off cur k p i hi hsz h1 h2
    cases k with
    | zero =>
      simp only [List.getElem?_cons_zero, Option.some.injEq] at hi
      subst hi
      simp only [posOf, posOf_zero, Nat.add_zero] at h1 h2
      have hz : ¬ j.size = 0 := by omega
      unfold lineAtByte runMax
      simp only [hz, if_false, h1, if_true]
      exact GPy.C02.lineAtByte_lt is _ _ _ (by omega)
    | succ k =>
      simp only [List.getElem?_cons_succ] at hi
      simp only [posOf] at h1 h2
      unfold lineAtByte runMax
      by_cases hz : j.size = 0
      · simp only [hz, if_true]
        exact ih off cur k p i hi hsz (by omega) (by omega)
      · have : off ≤ p := by omega
        simp only [hz, if_false, this, if_true]
        exact ih (off + j.size) (max cur j.line) k p i hi hsz (by omega) (by omega)

theorem posOf_succ_of_get (is : List LInstr) : ∀ (k : Nat) (i : LInstr), is[k]? = some i →
    posOf is (k + 1) = posOf is k + i.size := by
  induction is with
  | nil => intro k i hi; simp at hi
  | cons j is ih =>
    intro k i hi
    cases k with
    | zero =>
      simp only [List.getElem?_cons_zero, Option.some.injEq] at hi
      subst hi
      simp only [posOf, posOf_zero]; omega
    | succ k =>
      simp only [List.getElem?_cons_succ] at hi
      simp only [posOf]
      rw [ih k i hi]; omega

/-- for a stream whose lines never decrease (from `lo ≥ cur`) the running maximum is the instruction's own line -/
theorem runMax_sorted (is : List LInstr) : ∀ (cur lo k : Nat) (i : LInstr), LinesSorted lo is → cur ≤ lo →
    is[k]? = some i → 0 < i.size → runMax is cur k = i.line := by
  induction is with
  | nil => intro cur lo k i _ _ hi; simp at hi
  | cons j is ih =>
    intro cur lo k i hs hc hi hsz
    obtain ⟨hj, hrest⟩ := hs
    cases k with
    | zero =>
      simp only [List.getElem?_cons_zero, Option.some.injEq] at hi
      subst hi
      have hz : ¬ j.size = 0 := by omega
      simp only [runMax, hz, if_false]
      exact Nat.max_eq_right (by omega)
    | succ k =>
      simp only [List.getElem?_cons_succ] at hi
      unfold runMax
      by_cases hz : j.size = 0
      · simp only [hz, if_true]
        exact ih cur j.line k i hrest (by omega) hi hsz
      · simp only [hz, if_false]
        exact ih (max cur j.line) j.line k i hrest (by rw [Nat.max_eq_right (by omega)]; exact Nat.le_refl _) hi hsz

theorem le_runMax (is : List LInstr) : ∀ (cur k : Nat), cur ≤ runMax is cur k := by
  induction is with
  | nil => intro cur k; simp [runMax]
  | cons j is ih =>
    intro cur k
    cases k with
    | zero => simp only [runMax]; split <;> omega
    | succ k =>
      simp only [runMax]
      split
      · exact ih cur k
      · have := ih (max cur j.line) k; omega

/-- every sized instruction's own line is below the running maximum at it -/
theorem line_le_runMax (is : List LInstr) : ∀ (cur k : Nat) (i : LInstr), is[k]? = some i → 0 < i.size →
    i.line ≤ runMax is cur k := by
  induction is with
  | nil => intro cur k i hi; simp at hi
  | cons j is ih =>
    intro cur k i hi hsz
    cases k with
    | zero =>
      simp only [List.getElem?_cons_zero, Option.some.injEq] at hi
      subst hi
      have hz : ¬ j.size = 0 := by omega
      simp only [runMax, hz, if_false]; omega
    | succ k =>
      simp only [List.getElem?_cons_succ] at hi
      simp only [runMax]
      exact ih _ k i hi hsz

/-! ### the two transliterations of `Addr2Line` agree on the flattened table -/

theorem addr2lineGo_flat (first q : Nat) (tab : List (Nat × Nat)) : ∀ (addr line : Nat),
    addr2lineGo first q (flat tab) addr line = GPy.C02.addr2lineGo tab line addr q := by
  induction tab with
  | nil => intro addr line; simp [flat, addr2lineGo, GPy.C02.addr2lineGo]
  | cons e rest ih =>
    intro addr line
    obtain ⟨a, l⟩ := e
    simp only [flat, addr2lineGo, GPy.C02.addr2lineGo]
    by_cases h : addr + a > q
    · simp only [h, if_true]
    · simp only [h, if_false]; exact ih _ _

/-! ### sums of the table -/

def sumA : List (Nat × Nat) → Nat
  | [] => 0
  | e :: r => e.1 + sumA r
def sumL : List (Nat × Nat) → Nat
  | [] => 0
  | e :: r => e.2 + sumL r

theorem sumA_append (x y : List (Nat × Nat)) : sumA (x ++ y) = sumA x + sumA y := by
  induction x with
  | nil => simp [sumA]
  | cons e r ih => simp only [List.cons_append, sumA, ih]; omega
theorem sumL_append (x y : List (Nat × Nat)) : sumL (x ++ y) = sumL x + sumL y := by
  induction x with
  | nil => simp [sumL]
  | cons e r ih => simp only [List.cons_append, sumL, ih]; omega

theorem lnotabSums_flat (tab : List (Nat × Nat)) : lnotabSums (flat tab) = (sumA tab, sumL tab) := by
  induction tab with
  | nil => rfl
  | cons e r ih => obtain ⟨a, l⟩ := e; simp only [flat, lnotabSums, ih, sumA, sumL]

theorem flat_length (tab : List (Nat × Nat)) : (flat tab).length = 2 * tab.length := by
  induction tab with
  | nil => rfl
  | cons e r ih => obtain ⟨a, l⟩ := e; simp only [flat, List.length_cons, ih]; omega

theorem splitAddr_sums : ∀ (f d : Nat), d ≤ f →
    sumA (splitAddr f d).1 + (splitAddr f d).2 = d ∧ sumL (splitAddr f d).1 = 0 ∧ (splitAddr f d).2 ≤ 255 := by
  intro f
  induction f with
  | zero => intro d h; have : d = 0 := by omega
            subst this; simp [splitAddr, sumA, sumL]
  | succ f ih =>
    intro d h
    unfold splitAddr
    by_cases hd : d > 255
    · simp only [hd, if_true, sumA, sumL]
      obtain ⟨h1, h2, h3⟩ := ih (d - 255) (by omega)
      refine ⟨by omega, by omega, h3⟩
    · simp only [hd, if_false, sumA, sumL]
      exact ⟨by omega, trivial, by omega⟩

theorem splitLine_sums : ∀ (f db dl : Nat), dl ≤ f → db ≤ 255 → 0 < dl →
    sumA (splitLine f db dl) = db ∧ sumL (splitLine f db dl) = dl := by
  intro f
  induction f with
  | zero => intro db dl h _ h0; omega
  | succ f ih =>
    intro db dl h hdb h0
    unfold splitLine
    have hm : db % 256 = db := Nat.mod_eq_of_lt (by omega)
    by_cases hd : dl > 255
    · simp only [hd, if_true, sumA, sumL, hm]
      obtain ⟨h1, h2⟩ := ih 0 (dl - 255) (by omega) (by omega) (by omega)
      omega
    · have hm2 : dl % 256 = dl := Nat.mod_eq_of_lt (by omega)
      simp only [hd, if_false, sumA, sumL, hm, hm2]; omega

theorem chunk_sums (db dl : Nat) (h0 : 0 < dl) : sumA (chunk db dl) = db ∧ sumL (chunk db dl) = dl := by
  unfold chunk
  obtain ⟨a1, a2, a3⟩ := splitAddr_sums db db (Nat.le_refl _)
  obtain ⟨b1, b2⟩ := splitLine_sums dl (splitAddr db db).2 dl (Nat.le_refl _) a3 h0
  simp only [sumA_append, sumL_append]
  omega

/-- column sums of the table: (last recorded offset − old_offset, last recorded line − old_lineno) -/
theorem lnotabGo_sums (is : List LInstr) : ∀ (off oo ol : Nat), oo ≤ off →
    oo + sumA (lnotabGo is off oo ol) = (lastRec is off oo ol).1 ∧
    ol + sumL (lnotabGo is off oo ol) = (lastRec is off oo ol).2 ∧
    (lastRec is off oo ol).1 ≤ off + totalSize is ∧
    ((lastRec is off oo ol).1 = oo ∨ (lastRec is off oo ol).1 < off + totalSize is) := by
  induction is with
  | nil => intro off oo ol h; simp [lnotabGo, lastRec, sumA, sumL, totalSize]; omega
  | cons i is ih =>
    intro off oo ol h
    unfold lnotabGo lastRec
    simp only [totalSize]
    by_cases hs : i.size = 0
    · simp only [hs, if_true]
      obtain ⟨h1, h2, h3, h4⟩ := ih off oo ol h
      exact ⟨h1, h2, by omega, by omega⟩
    · simp only [hs, if_false]
      by_cases hl : i.line ≤ ol
      · simp only [hl, if_true]
        obtain ⟨h1, h2, h3, h4⟩ := ih (off + i.size) oo ol (by omega)
        exact ⟨h1, h2, by omega, by omega⟩
      · simp only [hl, if_false]
        obtain ⟨h1, h2, h3, h4⟩ := ih (off + i.size) off i.line (by omega)
        obtain ⟨c1, c2⟩ := chunk_sums (off - oo) (i.line - ol) (by omega)
        simp only [sumA_append, sumL_append, c1, c2]
        exact ⟨by omega, by omega, by omega, by omega⟩

/-- the last recorded line is the running maximum over the whole stream -/
theorem lastRec_runMax (is : List LInstr) : ∀ (off oo ol : Nat),
    (lastRec is off oo ol).2 = runMax is ol (is.length - 1) := by
  induction is with
  | nil => intro off oo ol; rfl
  | cons i is ih =>
    intro off oo ol
    unfold lastRec
    cases is with
    | nil =>
      simp only [List.length_cons, List.length_nil, Nat.zero_add, Nat.sub_self, runMax, lastRec]
      by_cases hs : i.size = 0
      · simp only [hs, if_true]
      · simp only [hs, if_false]
        by_cases hl : i.line ≤ ol
        · simp only [hl, if_true]; exact (Nat.max_eq_left hl).symm
        · simp only [hl, if_false]; exact (Nat.max_eq_right (by omega)).symm
    | cons j js =>
      have e : (i :: j :: js).length - 1 = (j :: js).length - 1 + 1 := by simp
      rw [e]
      simp only [runMax]
      by_cases hs : i.size = 0
      · simp only [hs, if_true]; exact ih off oo ol
      · simp only [hs, if_false]
        by_cases hl : i.line ≤ ol
        · simp only [hl, if_true, Nat.max_eq_left hl]; exact ih _ oo ol
        · simp only [hl, if_false, Nat.max_eq_right (Nat.le_of_lt (Nat.lt_of_not_le hl))]; exact ih _ off i.line

end GPy.C12
