/-
C12 / compile_wellformed: structural facts about `lower` (core Lean only).

`offL` is strictly monotone, the byte string `lower` produces decodes at `offL code k` to the
opcode / operand / size of instruction `k`, the linear sweep finds exactly those offsets, and the
tables of the lowered code object are the canonical ones.
-/
import GPy.C12.Compile
namespace GPy.C12
open Generated

/-! ### per-opcode table facts (the 26 opcodes `opOf` uses) -/

theorem opOf_roundtrip (i : C02.Instr) : opOfNat (Op.toNat (opOf i).1) = some (opOf i).1 := by
  cases i <;> rfl

theorem opOf_ne_ext (i : C02.Instr) : (opOf i).1 ≠ .EXTENDED_ARG := by
  cases i <;> simp [opOf]

theorem opOf_haveArg (i : C02.Instr) : haveArgument ≤ Op.toNat (opOf i).1 ↔ (opOf i).2 ≠ .none := by
  cases i <;> simp [opOf, haveArgument, Op.toNat]

/-! ### offsets -/

theorem isz_pos (i : C02.Instr) : 1 ≤ isz i := by
  unfold isz; split <;> omega

theorem offL_zero (code : C02.Code) : offL code 0 = 0 := by
  cases code <;> rfl

theorem offL_succ_aux : ∀ (code : List (C02.Instr × Nat)) (k : Nat) (p : C02.Instr × Nat),
    code[k]? = some p → offL code (k + 1) = offL code k + isz p.1
  | [], k, p, h => by simp at h
  | x :: xs, 0, p, h => by
    simp at h; subst h
    show isz x.1 + offL xs 0 = 0 + isz x.1
    rw [offL_zero]; omega
  | x :: xs, k + 1, p, h => by
    have h' : xs[k]? = some p := by simpa using h
    have := offL_succ_aux xs k p h'
    show isz x.1 + offL xs (k + 1) = (isz x.1 + offL xs k) + isz p.1
    omega

/-- offsets advance by the instruction size -/
theorem offL_succ {code : C02.Code} {k : Nat} {i : C02.Instr} {ln : Nat} (hk : code[k]? = some (i, ln)) :
    offL code (k + 1) = offL code k + isz i :=
  offL_succ_aux code k (i, ln) hk

theorem offL_lt_succ {code : C02.Code} {k : Nat} (hk : k < code.length) :
    offL code k < offL code (k + 1) := by
  have h : code[k]? = some (code[k].1, code[k].2) := by simp [List.getElem?_eq_getElem hk]
  have := offL_succ h
  have := isz_pos code[k].1
  omega

/-- strictly monotone up to the length -/
theorem offL_lt {code : C02.Code} {j k : Nat} (hjk : j < k) (hk : k ≤ code.length) :
    offL code j < offL code k := by
  induction k with
  | zero => omega
  | succ k ih =>
    have h1 : offL code k < offL code (k + 1) := offL_lt_succ (by omega)
    by_cases hj : j = k
    · subst hj; exact h1
    · have := ih (by omega) (by omega); omega

/-! ### the bytes `lowerGo` emits -/

theorem encode_length {off : Nat → Nat} {k : Nat} {i : C02.Instr} {a : Option Nat} {enc : List Nat}
    (ha : argOf off k (opOf i).2 = some a) (he : encode (opOf i).1 a = some enc) :
    enc.length = isz i := by
  unfold isz
  cases ho : (opOf i).2 with
  | none =>
    rw [ho] at ha; simp [argOf] at ha; subst ha
    simp [encode] at he; subst he; rfl
  | imm n =>
    rw [ho] at ha; simp [argOf] at ha; subst ha
    simp only [encode] at he; split at he
    · simp at he; subst he; rfl
    · simp at he
  | abs t =>
    rw [ho] at ha; simp [argOf] at ha; subst ha
    simp only [encode] at he; split at he
    · simp at he; subst he; rfl
    · simp at he
  | rel t =>
    rw [ho] at ha; simp only [argOf] at ha; split at ha
    · simp at ha; subst ha
      simp only [encode] at he; split at he
      · simp at he; subst he; rfl
      · simp at he
    · simp at ha

theorem lowerGo_length {off : Nat → Nat} : ∀ (is : List (C02.Instr × Nat)) (k : Nat) (bs : List Nat),
    lowerGo off k is = some bs → bs.length = offL is is.length
  | [], k, bs, h => by simp [lowerGo] at h; subst h; rfl
  | x :: xs, k, bs, h => by
    simp only [lowerGo] at h
    split at h
    · simp at h
    · rename_i a ha
      split at h
      · simp at h
      · rename_i enc he
        split at h
        · simp at h
        · rename_i rest hr
          simp at h; subst h
          have := lowerGo_length xs (k + 1) rest hr
          have := encode_length ha he
          show (enc ++ rest).length = isz x.1 + offL xs xs.length
          simp [List.length_append]; omega

theorem lowerGo_drop {off : Nat → Nat} : ∀ (is : List (C02.Instr × Nat)) (k : Nat) (bs : List Nat),
    lowerGo off k is = some bs → ∀ (j : Nat) (i : C02.Instr) (ln : Nat), is[j]? = some (i, ln) →
      ∃ a enc tl, argOf off (k + j) (opOf i).2 = some a ∧ encode (opOf i).1 a = some enc ∧
        enc.length = isz i ∧ bs.drop (offL is j) = enc ++ tl
  | [], k, bs, h, j, i, ln, hj => by simp at hj
  | x :: xs, k, bs, h, j, i, ln, hj => by
    simp only [lowerGo] at h
    split at h
    · simp at h
    · rename_i a ha
      split at h
      · simp at h
      · rename_i enc he
        split at h
        · simp at h
        · rename_i rest hr
          simp at h; subst h
          cases j with
          | zero =>
            simp at hj; subst hj
            exact ⟨a, enc, rest, ha, he, encode_length ha he, by simp [offL]⟩
          | succ j =>
            have hj' : xs[j]? = some (i, ln) := by simpa using hj
            obtain ⟨a', enc', tl, ha', he', hl', hd'⟩ := lowerGo_drop xs (k + 1) rest hr j i ln hj'
            refine ⟨a', enc', tl, ?_, he', hl', ?_⟩
            · have : k + (j + 1) = k + 1 + j := by omega
              rw [this]; exact ha'
            · have hl := encode_length ha he
              show List.drop (isz x.1 + offL xs j) (enc ++ rest) = enc' ++ tl
              rw [List.drop_append, List.drop_eq_nil_of_le (by omega)]
              have : isz x.1 + offL xs j - enc.length = offL xs j := by omega
              rw [this, hd']; rfl

/-! ### decoding -/

theorem decodeAt_plain {code : Array Nat} {pc : Nat} {op : Op}
    (h0 : code[pc]? = some (Op.toNat op)) (hop : opOfNat (Op.toNat op) = some op)
    (hne : op ≠ .EXTENDED_ARG) :
    decodeAt code pc =
      if haveArgument ≤ Op.toNat op then
        match code[pc+1]?, code[pc+2]? with
        | some a0, some a1 => some ⟨op, a0 + a1 * 256, 3⟩
        | _, _ => none
      else some ⟨op, 0, 1⟩ := by
  unfold decodeAt
  rw [h0]
  simp only
  rw [hop]
  split
  · rename_i h; simp at h
  · rename_i h; simp at h; exact absurd h hne
  · rename_i op' _ h; simp at h; subst h; rfl

theorem lower_drop_getElem? {bs enc tl : List Nat} {p : Nat} (h : bs.drop p = enc ++ tl) (j : Nat)
    (hj : j < enc.length) : bs[p + j]? = enc[j]? := by
  rw [← List.getElem?_drop, h, List.getElem?_append_left hj]

/-- what the machine decodes at the offset of instruction k -/
theorem lower_decode {code : C02.Code} {ss : Nat} {c : Code} (h : lower code ss = some c)
    {k : Nat} {i : C02.Instr} {ln : Nat} (hk : code[k]? = some (i, ln)) :
    ∃ a, argOf (offL code) k (opOf i).2 = some a ∧
      decodeAt c.code (offL code k) = some ⟨(opOf i).1, a.getD 0, isz i⟩ := by
  unfold lower at h
  split at h
  · simp at h
  · rename_i bs hbs
    simp at h; subst h
    obtain ⟨a, enc, tl, ha, he, hl, hd⟩ := lowerGo_drop code 0 bs hbs k i ln hk
    rw [Nat.zero_add] at ha
    refine ⟨a, ha, ?_⟩
    simp only
    have hg := lower_drop_getElem? hd
    cases a with
    | none =>
      simp only [encode] at he; simp at he; subst he
      have hnone : (opOf i).2 = .none := by
        cases ho : (opOf i).2 with
        | none => rfl
        | imm n => rw [ho] at ha; simp [argOf] at ha
        | abs t => rw [ho] at ha; simp [argOf] at ha
        | rel t => rw [ho] at ha; simp only [argOf] at ha; split at ha <;> simp at ha
      have h0 : bs.toArray[offL code k]? = some (Op.toNat (opOf i).1) := by
        have := hg 0 (by simp); simpa using this
      rw [decodeAt_plain h0 (opOf_roundtrip i) (opOf_ne_ext i)]
      have hna : ¬ haveArgument ≤ Op.toNat (opOf i).1 := by
        rw [opOf_haveArg]; simp [hnone]
      rw [if_neg hna]
      simp [isz, hnone]
    | some n =>
      simp only [encode] at he
      split at he
      · rename_i hn
        simp at he; subst he
        have hsome : (opOf i).2 ≠ .none := by
          intro ho; rw [ho] at ha; simp [argOf] at ha
        have h0 : bs.toArray[offL code k]? = some (Op.toNat (opOf i).1) := by
          have := hg 0 (by simp); simpa using this
        have h1 : bs.toArray[offL code k + 1]? = some (n % 256) := by
          have := hg 1 (by simp); simpa using this
        have h2 : bs.toArray[offL code k + 2]? = some (n / 256) := by
          have := hg 2 (by simp); simpa using this
        rw [decodeAt_plain h0 (opOf_roundtrip i) (opOf_ne_ext i)]
        rw [if_pos ((opOf_haveArg i).2 hsome), h1, h2]
        have hsz : isz i = 3 := by
          unfold isz; split
          · rename_i ho; exact absurd ho hsome
          · rfl
        simp only [hsz, Option.getD_some]
        have : n % 256 + n / 256 * 256 = n := by omega
        rw [this]
      · simp at he

/-! ### the linear sweep -/

theorem lower_size {code : C02.Code} {ss : Nat} {c : Code} (h : lower code ss = some c) :
    c.code.size = offL code code.length := by
  unfold lower at h
  split at h
  · simp at h
  · rename_i bs hbs
    simp at h; subst h
    simpa using lowerGo_length code 0 bs hbs

theorem lower_sweep {code : C02.Code} {ss : Nat} {c : Code} (h : lower code ss = some c) :
    ∀ (d j fuel : Nat), j + d = code.length → c.code.size - offL code j ≤ fuel →
      sweep c.code fuel (offL code j) = some ((List.range' j d).map (offL code)) := by
  have hsize := lower_size h
  intro d
  induction d with
  | zero =>
    intro j fuel hj _
    have hj' : j = code.length := by omega
    subst hj'
    cases fuel <;> simp [sweep, hsize]
  | succ d ih =>
    intro j fuel hj hf
    have hjl : j < code.length := by omega
    have hlt : offL code j < offL code code.length := by
      by_cases hj1 : j + 1 = code.length
      · have := offL_lt_succ hjl; rw [hj1] at this; exact this
      · have := offL_lt (code := code) (j := j) (k := code.length) hjl (Nat.le_refl _); exact this
    have hk : code[j]? = some (code[j].1, code[j].2) := by simp [List.getElem?_eq_getElem hjl]
    obtain ⟨a, _, hdec⟩ := lower_decode h hk
    have hs := offL_succ hk
    have hp := isz_pos code[j].1
    cases fuel with
    | zero => omega
    | succ f =>
      have hne : offL code j ≠ c.code.size := by omega
      simp only [sweep, if_neg hne, hdec]
      rw [← hs, ih (j + 1) f (by omega) (by omega)]
      simp [List.range'_succ]

/-- the linear sweep finds exactly the offsets of the instructions -/
theorem lower_starts {code : C02.Code} {ss : Nat} {c : Code} (h : lower code ss = some c) :
    instrStarts c.code = some ((List.range code.length).map (offL code)) := by
  unfold instrStarts
  have := lower_sweep h code.length 0 c.code.size (by omega) (by omega)
  rw [offL_zero] at this
  rw [this, List.range_eq_range']

/-- the tables -/
theorem lower_fields {code : C02.Code} {ss : Nat} {c : Code} (h : lower code ss = some c) :
    c.consts = #[.none, .other] ∧ c.nnames = nNames ∧ c.nvarnames = nVars ∧ c.ncells = 0 ∧
    c.stacksize = ss ∧ c.lnotab = #[] := by
  unfold lower at h
  split at h
  · simp at h
  · simp at h; subst h; simp

end GPy.C12
