/-
C12 model (core Lean only).

(1) decoder of `py.Code.Code` as `vm/eval.go: RunFrame` reads it (opcode byte,
    two little-endian operand bytes when `op >= HAVE_ARGUMENT`, EXTENDED_ARG
    prefix; numbering REGENERATED in Generated.lean);
(2) an abstract machine of the VM: for every opcode the pops / pushes / block
    pushes / block pops / jumps that `vm/eval.go: do_<OPCODE>` performs, every
    instruction that can return an error may raise (at the stack depth the Go
    code has at its `return err`), and the unwinding loop of `RunFrame`
    (`unwind`) for break / continue / return / exception, including
    END_FINALLY's and WITH_CLEANUP's shapes.

Values are abstracted to *kinds* – exactly enough to decide which shape
END_FINALLY / WITH_CLEANUP take.  A Go panic the code would hit for a stack or
block reason (slice out of range, "vm: no result or exception", "Couldn't find
traceback on stack", …) is the distinct result `bad`.  Panics caused by the
*type* of a popped object (`v.(*py.List)`, `code.(*py.Code)`) are outside C12.

EXTENDED_ARG is fused with the instruction it prefixes (a 6-byte instruction):
`do_EXTENDED_ARG` only records `ext`, cannot raise and cannot be a suspension
point, so the two-step execution of the VM is observationally the fused step as
long as no jump lands on the prefixed instruction – which the verifier rejects.
-/
import GPy.C12.Generated
namespace GPy.C12
open Generated

/-- vm/vm.go: vmStatus values that can be pushed on the value stack as py.Int -/
inductive Why | exception | ret | brk | cont | silenced
deriving DecidableEq, Repr

def Why.code : Why → Nat
  | .exception => 1 | .ret => 2 | .brk => 3 | .cont => 4 | .silenced => 6

/-- abstract value kinds -/
inductive Kind
  | obj                 -- any object (also a Go nil slot)
  | none                -- certainly py.None (LOAD_CONST of a None constant)
  | why (w : Why)       -- py.Int(vm.why) pushed by the unwinder / WITH_CLEANUP
  | tgt (pc : Nat)      -- py.Int(target) : the retval of CONTINUE_LOOP
  | exc                 -- the exception type pushed on top of the (tb, val, exc) triple
deriving DecidableEq, Repr

/-- py/frame.go: TryBlockType -/
inductive BT | loop | except | finally | handler
deriving DecidableEq, Repr

/-- py/frame.go: TryBlock (Handler of an EXCEPT_HANDLER block is -1 in Go, 0 here) -/
structure Block where
  ty : BT
  handler : Nat
  level : Nat
deriving DecidableEq, Repr

structure State where
  pc : Nat
  stk : List Kind      -- head = top of stack
  blk : List Block     -- head = frame.Block
deriving DecidableEq, Repr

inductive ConstK | none | code | other
deriving DecidableEq, Repr, Inhabited

/-- the fields of py.Code that C12 is about -/
structure Code where
  code : Array Nat          -- Code (bytes)
  consts : Array ConstK     -- Consts (only: is it None / a nested code object / anything else)
  nnames : Nat              -- len(Names)
  nvarnames : Nat           -- len(Varnames)
  ncells : Nat              -- len(Cellvars)+len(Freevars)
  stacksize : Nat           -- Stacksize
  lnotab : Array Nat        -- Lnotab (bytes)
  firstlineno : Nat
  nlines : Nat              -- number of lines of the source text (0 = unknown)
  flags : Nat
  name : String := ""
deriving Repr, Inhabited

structure Instr where
  op : Op
  arg : Nat
  size : Nat
deriving Repr, DecidableEq

/-- vm/eval.go RunFrame: fetch + operand decoding at `pc` (EXTENDED_ARG fused). -/
def decodeAt (code : Array Nat) (pc : Nat) : Option Instr :=
  match code[pc]? with
  | none => none
  | some b =>
    match opOfNat b with
    | none => none
    | some .EXTENDED_ARG =>
      match code[pc+1]?, code[pc+2]?, code[pc+3]?, code[pc+4]?, code[pc+5]? with
      | some e0, some e1, some b2, some a0, some a1 =>
        match opOfNat b2 with
        | some op2 =>
          -- `arg += vm.ext << 16` is int32 arithmetic: ext >= 0x8000 would go negative
          if haveArgument ≤ b2 ∧ op2 ≠ .EXTENDED_ARG ∧ e1 < 128 then
            some ⟨op2, a0 + a1 * 256 + (e0 + e1 * 256) * 65536, 6⟩
          else none
        | none => none
      | _, _, _, _, _ => none
    | some op =>
      if haveArgument ≤ b then
        match code[pc+1]?, code[pc+2]? with
        | some a0, some a1 => some ⟨op, a0 + a1 * 256, 3⟩
        | _, _ => none
      else some ⟨op, 0, 1⟩

/-- reasons for unwinding (vm.why ≠ whyNot, whyYield) -/
inductive UW | exception | ret | brk | cont (t : Nat)
deriving DecidableEq, Repr

/-- result of one `do_<OPCODE>` call -/
inductive Res
  | norm (pc : Nat) (stk : List Kind) (blk : List Block)   -- vm.why == whyNot
  | unw (w : UW) (stk : List Kind) (blk : List Block)      -- needs the unwinding loop
  | yld (pc : Nat) (stk : List Kind) (blk : List Block)    -- whyYield: frame suspended, resumes at pc
  | bad (msg : String)                                     -- Go panic for a stack/block reason
deriving Repr, DecidableEq

inductive Outcome
  | next (s : State)
  | yield (s : State)       -- suspended; `s` is the state after Generator.Send pushed the sent value
  | ret                     -- RunFrame returns vm.retval
  | raise                   -- RunFrame returns the exception
  | bad (msg : String)
deriving Repr, DecidableEq

/-- keep the bottom `n` entries: `frame.Stack = frame.Stack[:n]` -/
def truncate (stk : List Kind) (n : Nat) : List Kind := stk.drop (stk.length - n)

/-- the six values pushed when an exception enters a handler (top first):
exc, val, tb of the new exception over type, value, traceback of the previous one -/
def excSix : List Kind := [.exc, .obj, .obj, .obj, .obj, .obj]

/-- vm/eval.go RunFrame: `for vm.why != whyNot && frame.Block != nil { … }` and what follows it -/
def unwind (w : UW) : List Block → List Kind → Outcome
  | [], _ =>
    match w with
    | .ret => .ret
    | .exception => .raise
    | _ => .bad "break/continue reached the end of the block stack (vm: no result or exception)"
  | b :: bs, stk =>
    match w, b.ty with
    | .cont t, .loop => .next ⟨t, stk, b :: bs⟩
    | w, .handler =>
      if stk.length < b.level + 3 then .bad "vm: Couldn't find traceback on stack"
      else unwind w bs (truncate stk b.level)
    | w, ty =>
      let stk' := if stk.length > b.level then truncate stk b.level else stk
      match w, ty with
      | .brk, .loop => .next ⟨b.handler, stk', bs⟩
      | .exception, .except => .next ⟨b.handler, excSix ++ stk', ⟨.handler, 0, stk'.length⟩ :: bs⟩
      | .exception, .finally => .next ⟨b.handler, excSix ++ stk', ⟨.handler, 0, stk'.length⟩ :: bs⟩
      | .ret, .finally => .next ⟨b.handler, .why .ret :: .obj :: stk', bs⟩
      | .cont t, .finally => .next ⟨b.handler, .why .cont :: .tgt t :: stk', bs⟩
      | .brk, .finally => .next ⟨b.handler, .why .brk :: stk', bs⟩
      | w, _ => unwind w bs stk'

/-- stack behaviour of the opcodes whose `do_` function is "need ≥ n entries, pop p,
[maybe return an error after having popped r], push these kinds" -/
structure Eff where
  need : Nat
  pop : Nat
  push : List Kind
  raises : List Nat
deriving Repr

def callArgs (arg : Nat) : Nat := (arg &&& 0xFF) + 2 * ((arg >>> 8) &&& 0xFF)
def makeFnPops (arg : Nat) : Nat := 2 + ((arg >>> 16) &&& 0x7fff) + 2 * ((arg >>> 8) &&& 0xff) + (arg &&& 0xff)

def constKind (c : Code) (i : Nat) : Kind :=
  match c.consts[i]? with
  | some .none => .none
  | _ => .obj

def simpleEff (c : Code) (op : Op) (arg : Nat) : Option Eff :=
  match op with
  | .NOP => some ⟨0, 0, [], []⟩
  | .POP_TOP => some ⟨1, 1, [], []⟩
  | .UNARY_POSITIVE | .UNARY_NEGATIVE | .UNARY_NOT | .UNARY_INVERT | .GET_ITER => some ⟨1, 1, [.obj], [0]⟩
  | .BINARY_POWER | .BINARY_MULTIPLY | .BINARY_MODULO | .BINARY_ADD | .BINARY_SUBTRACT | .BINARY_SUBSCR
  | .BINARY_FLOOR_DIVIDE | .BINARY_TRUE_DIVIDE | .INPLACE_FLOOR_DIVIDE | .INPLACE_TRUE_DIVIDE
  | .INPLACE_ADD | .INPLACE_SUBTRACT | .INPLACE_MULTIPLY | .INPLACE_MODULO
  | .BINARY_LSHIFT | .BINARY_RSHIFT | .BINARY_AND | .BINARY_XOR | .BINARY_OR | .INPLACE_POWER
  | .INPLACE_LSHIFT | .INPLACE_RSHIFT | .INPLACE_AND | .INPLACE_XOR | .INPLACE_OR => some ⟨2, 2, [.obj], [1]⟩
  | .COMPARE_OP => if arg ≤ 10 then some ⟨2, 2, [.obj], [1]⟩ else none   -- panic "Unknown COMPARE_OP"
  | .STORE_SUBSCR => some ⟨3, 3, [], [3]⟩
  | .DELETE_SUBSCR => some ⟨2, 2, [], [2]⟩
  | .STORE_MAP => some ⟨3, 2, [], [2]⟩
  | .PRINT_EXPR => some ⟨1, 1, [], [1]⟩
  | .LOAD_BUILD_CLASS => some ⟨0, 0, [.obj], []⟩
  | .IMPORT_STAR => some ⟨1, 1, [], [1]⟩
  | .STORE_NAME | .STORE_GLOBAL | .STORE_FAST | .STORE_DEREF => some ⟨1, 1, [], []⟩
  | .DELETE_NAME | .DELETE_GLOBAL | .DELETE_FAST | .DELETE_DEREF => some ⟨0, 0, [], [0]⟩
  | .STORE_ATTR => some ⟨2, 2, [], [2]⟩
  | .DELETE_ATTR => some ⟨1, 1, [], [1]⟩
  | .LOAD_CONST => some ⟨0, 0, [constKind c arg], []⟩
  | .LOAD_NAME | .LOAD_GLOBAL | .LOAD_FAST | .LOAD_DEREF | .LOAD_CLASSDEREF => some ⟨0, 0, [.obj], [0]⟩
  | .LOAD_CLOSURE => some ⟨0, 0, [.obj], []⟩
  | .BUILD_TUPLE | .BUILD_LIST | .BUILD_SET => some ⟨arg, arg, [.obj], []⟩
  | .BUILD_MAP => some ⟨0, 0, [.obj], []⟩
  | .LOAD_ATTR => some ⟨1, 1, [.obj], [0]⟩
  | .IMPORT_NAME => some ⟨2, 2, [.obj], [0, 1]⟩
  | .IMPORT_FROM => some ⟨1, 0, [.obj], [0]⟩
  | .SET_ADD | .LIST_APPEND => if 1 ≤ arg then some ⟨arg + 1, 1, [], []⟩ else none   -- PEEK(0) is out of range
  | .MAP_ADD => if 1 ≤ arg then some ⟨arg + 2, 2, [], [2]⟩ else none
  | .CALL_FUNCTION => some ⟨callArgs arg + 1, callArgs arg + 1, [.obj], [callArgs arg + 1]⟩
  | .CALL_FUNCTION_VAR | .CALL_FUNCTION_KW => some ⟨callArgs arg + 2, callArgs arg + 2, [.obj], [callArgs arg + 2]⟩
  | .CALL_FUNCTION_VAR_KW => some ⟨callArgs arg + 3, callArgs arg + 3, [.obj], [callArgs arg + 3]⟩
  | .MAKE_FUNCTION => some ⟨makeFnPops arg, makeFnPops arg, [.obj], []⟩
  | .MAKE_CLOSURE => some ⟨makeFnPops arg + 1, makeFnPops arg + 1, [.obj], []⟩
  | .BUILD_SLICE =>
    if arg = 2 then some ⟨2, 2, [.obj], []⟩ else if arg = 3 then some ⟨3, 3, [.obj], []⟩ else none  -- panic
  | _ => none

/-- operands that index a table of the code object must be in range
(`Code.Consts[i]`, `Code.Names[i]`, `LocalVars[i]`, `CellAndFreeVars[i]` would panic) -/
def operandOk (c : Code) (op : Op) (arg : Nat) : Bool :=
  match op with
  | .LOAD_CONST => arg < c.consts.size
  | .STORE_NAME | .DELETE_NAME | .LOAD_NAME | .STORE_ATTR | .DELETE_ATTR | .LOAD_ATTR
  | .STORE_GLOBAL | .DELETE_GLOBAL | .LOAD_GLOBAL | .IMPORT_NAME | .IMPORT_FROM => arg < c.nnames
  | .LOAD_FAST | .STORE_FAST | .DELETE_FAST => arg < c.nvarnames
  | .LOAD_CLOSURE | .LOAD_DEREF | .STORE_DEREF | .DELETE_DEREF | .LOAD_CLASSDEREF => arg < c.ncells
  | _ => true

def objs (n : Nat) : List Kind := List.replicate n .obj

def under : List Res := [Res.bad "value stack underflow"]

/-- the opcodes whose stack behaviour depends on the shape of the stack / block stack -/
def execSpecial (pc : Nat) (i : Instr) (stk : List Kind) (blk : List Block) : List Res :=
  let nx := pc + i.size
  let arg := i.arg
    match i.op with
    | .ROT_TWO =>
      match stk with
      | a :: b :: r => [.norm nx (b :: a :: r) blk]
      | _ => under
    | .ROT_THREE =>
      match stk with
      | a :: b :: c3 :: r => [.norm nx (b :: c3 :: a :: r) blk]
      | _ => under
    | .DUP_TOP =>
      match stk with
      | a :: r => [.norm nx (a :: a :: r) blk]
      | _ => under
    | .DUP_TOP_TWO =>
      match stk with
      | a :: b :: r => [.norm nx (a :: b :: a :: b :: r) blk]
      | _ => under
    | .UNPACK_SEQUENCE =>
      match stk with
      | _ :: r => [.norm nx (objs arg ++ r) blk, .unw .exception (objs arg ++ r) blk]
      | _ => under
    | .UNPACK_EX =>
      let tot := 1 + (arg &&& 0xFF) + (arg >>> 8)
      match stk with
      | _ :: r => [.norm nx (objs tot ++ r) blk, .unw .exception (objs tot ++ r) blk]
      | _ => under
    | .RAISE_VARARGS =>
      if arg = 0 then [.unw .exception stk blk]
      else if arg = 1 then (if stk.length < 1 then under else [.unw .exception (stk.drop 1) blk])
      else if arg = 2 then (if stk.length < 2 then under else [.unw .exception (stk.drop 2) blk])
      else [.bad "vm: Bad RAISE_VARARGS argc"]
    | .RETURN_VALUE =>
      match stk with
      | _ :: r => [.unw .ret r blk]
      | _ => under
    | .YIELD_VALUE =>
      match stk with
      | _ :: r => [.yld nx r blk]
      | _ => under
    | .YIELD_FROM =>
      match stk with
      | _ :: x :: r => [.norm nx (x :: r) blk, .yld pc (x :: r) blk, .unw .exception (x :: r) blk]
      | _ => under
    | .BREAK_LOOP => [.unw .brk stk blk]
    | .CONTINUE_LOOP => [.unw (.cont arg) stk blk]
    | .JUMP_FORWARD => [.norm (nx + arg) stk blk]
    | .JUMP_ABSOLUTE => [.norm arg stk blk]
    | .POP_JUMP_IF_FALSE | .POP_JUMP_IF_TRUE =>
      match stk with
      | _ :: r => [.norm nx r blk, .norm arg r blk, .unw .exception r blk]
      | _ => under
    | .JUMP_IF_FALSE_OR_POP | .JUMP_IF_TRUE_OR_POP =>
      match stk with
      | _ :: r => [.norm nx r blk, .norm arg stk blk, .unw .exception stk blk]
      | _ => under
    | .FOR_ITER =>
      match stk with
      -- [C12-ext2 g3] `py.Next(vm.TOP())` may fail with an error other than StopIteration: `return err` with the iterator still on the stack
      | _ :: r => [.norm nx (.obj :: stk) blk, .norm (nx + arg) r blk, .unw .exception stk blk]
      | _ => under
    | .SETUP_LOOP => [.norm nx stk (⟨.loop, nx + arg, stk.length⟩ :: blk)]
    | .SETUP_EXCEPT => [.norm nx stk (⟨.except, nx + arg, stk.length⟩ :: blk)]
    | .SETUP_FINALLY => [.norm nx stk (⟨.finally, nx + arg, stk.length⟩ :: blk)]
    | .SETUP_WITH =>
      match stk with
      | _ :: r =>
        [.norm nx (.obj :: .obj :: r) (⟨.finally, nx + arg, r.length + 1⟩ :: blk),
         .unw .exception stk blk, .unw .exception (.obj :: r) blk]
      | _ => under
    | .POP_BLOCK =>
      match blk with
      | _ :: bs => [.norm nx stk bs]
      | [] => [.bad "POP_BLOCK with an empty block stack"]
    | .POP_EXCEPT =>
      match blk with
      | b :: bs =>
        if b.ty = .handler then
          (if stk.length < b.level + 3 then [.bad "vm: Couldn't find traceback on stack"]
           else [.norm nx (truncate stk b.level) bs])
        else [.unw .exception stk bs]     -- SystemError "popped block is not an except handler"
      | [] => [.bad "POP_EXCEPT with an empty block stack"]
    | .END_FINALLY =>
      match stk with
      | [] => under
      | .none :: r => [.norm nx r blk]
      | .why .ret :: _ :: r => [.unw .ret r blk]
      | .why .cont :: .tgt t :: r => [.unw (.cont t) r blk]
      | .why .brk :: r => [.unw .brk r blk]
      | .why .silenced :: r =>
        match blk with
        | b :: bs =>
          if b.ty = .handler then
            (if r.length < b.level + 3 then [.bad "vm: Couldn't find traceback on stack"]
             else [.norm nx (truncate r b.level) bs])
          else [.bad "vm: Expecting EXCEPT_HANDLER in END_FINALLY"]
        | [] => [.bad "END_FINALLY(silenced) with an empty block stack"]
      | .exc :: _ :: _ :: r => [.unw .exception r blk]
      | _ => [.bad "END_FINALLY on an untracked / malformed stack shape"]
    | .WITH_CLEANUP =>
      match stk with
      | .none :: _ :: r => [.norm nx (.none :: r) blk, .unw .exception (.none :: r) blk]
      | .why .ret :: v :: _ :: r => [.norm nx (.why .ret :: v :: r) blk, .unw .exception (.why .ret :: v :: r) blk]
      | .why .cont :: v :: _ :: r => [.norm nx (.why .cont :: v :: r) blk, .unw .exception (.why .cont :: v :: r) blk]
      | .why .brk :: _ :: r => [.norm nx (.why .brk :: r) blk, .unw .exception (.why .brk :: r) blk]
      | .exc :: val :: tb :: tp2 :: exc2 :: tb2 :: _ :: r =>
        match blk with
        | b :: bs =>
          if b.ty = .handler ∧ 1 ≤ b.level then
            let stk' := Kind.exc :: val :: tb :: .obj :: tp2 :: exc2 :: tb2 :: r
            let blk' := { b with level := b.level - 1 } :: bs
            [.norm nx stk' blk', .norm nx (.why .silenced :: stk') blk', .unw .exception stk' blk']
          else [.bad "vm: WITH_CLEANUP expecting TryBlockExceptHandler"]
        | [] => [.bad "WITH_CLEANUP(exception) with an empty block stack"]
      | _ => [.bad "WITH_CLEANUP on an untracked / malformed stack shape"]
    | _ => [.bad "opcode not executable (illegal / unfused EXTENDED_ARG / panicking operand)"]


/-- one `jumpTable[opcode](&vm, arg)` call; `pc` = offset of the instruction, `pc + i.size` = Lasti after decoding -/
def execI (c : Code) (pc : Nat) (i : Instr) (stk : List Kind) (blk : List Block) : List Res :=
  if !operandOk c i.op i.arg then [.bad "operand indexes outside its table"] else
  match simpleEff c i.op i.arg with
  | some e =>
    if stk.length < e.need then under
    else .norm (pc + i.size) (e.push ++ stk.drop e.pop) blk :: e.raises.map (fun r => .unw .exception (stk.drop r) blk)
  | none => execSpecial pc i stk blk

/-- what RunFrame does after `jumpTable[opcode]` returned -/
def finish : Res → Outcome
  | .norm pc stk blk => .next ⟨pc, stk, blk⟩
  | .unw w stk blk => unwind w blk stk
  | .yld pc stk blk => .yield ⟨pc, .obj :: stk, blk⟩
  | .bad m => .bad m

/-- one iteration of RunFrame's main loop from state `s`: all possible outcomes -/
def step (c : Code) (s : State) : List Outcome :=
  match decodeAt c.code s.pc with
  | none => [.bad "no decodable instruction at pc (fell off the end / illegal opcode / truncated operand)"]
  | some i => (execI c s.pc i s.stk s.blk).map finish

/-- py/code.go: Addr2Line -/
def addr2lineGo (firstlineno : Nat) (addrq : Nat) : List Nat → Nat → Nat → Nat
  | a :: l :: rest, addr, line =>
    let addr := addr + a
    if addr > addrq then line else addr2lineGo firstlineno addrq rest addr (line + l)
  | _, _, line => line

def addr2line (c : Code) (addrq : Nat) : Nat := addr2lineGo c.firstlineno addrq c.lnotab.toList 0 c.firstlineno

end GPy.C12
