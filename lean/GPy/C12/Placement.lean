/-
C12 (core Lean only): the syntactic positions a statement can stand in, and the
SPECIFICATION of which placements of `break` / `continue` / `return` / `yield`
Python 3.4 rejects with SyntaxError (language reference 7.6, 7.7, 7.9, 7.10 and
CPython 3.4 `compile.c: compiler_continue / compiler_visit_stmt`):

* `return` and `yield` / `yield from` are only allowed inside a function body – the
  innermost enclosing scope must be a `def` (not the module, not a class body);
* `break` must be inside the BODY of a `for` / `while` loop of the same scope.  The
  `else` clause of a loop is not part of the loop: there `break` / `continue`
  belong to the next enclosing loop (or are an error);
* `continue` as `break`, and additionally it is rejected when a `finally:` clause
  lies between it and the body of its loop ("'continue' not supported inside
  'finally' clause" – lifted only in Python 3.8).

Written from the language rules, independently of gpython's `loopstack`.
-/
namespace GPy.C12

/-- a slot of a compound statement in which a statement list stands -/
inductive Slot
  | ifBody | ifElse | elifBody
  | whileBody | whileElse | forBody | forElse
  | tfBody | tfFinal                                   -- try / finally
  | teBody | teBare | teTyped | teNamed | teElse       -- try / except [as] / else
  | tefBody | tefNamed | tefElse | tefFinal            -- try / except as / else / finally
  | withBody | withAs                                  -- with M(): / with M() as m, M():
  | defBody | classBody                                -- nested scopes
deriving Repr, DecidableEq, Inhabited

def Slot.all : List Slot := [.ifBody, .ifElse, .elifBody, .whileBody, .whileElse, .forBody, .forElse, .tfBody, .tfFinal,
  .teBody, .teBare, .teTyped, .teNamed, .teElse, .tefBody, .tefNamed, .tefElse, .tefFinal, .withBody, .withAs, .defBody, .classBody]

def Slot.name : Slot → String
  | .ifBody => "if" | .ifElse => "ifE" | .elifBody => "elif"
  | .whileBody => "while" | .whileElse => "whileE" | .forBody => "for" | .forElse => "forE"
  | .tfBody => "tfB" | .tfFinal => "tfF"
  | .teBody => "teB" | .teBare => "teX" | .teTyped => "teH" | .teNamed => "teaH" | .teElse => "teE"
  | .tefBody => "tefB" | .tefNamed => "tefH" | .tefElse => "tefE" | .tefFinal => "tefF"
  | .withBody => "w" | .withAs => "wa" | .defBody => "def" | .classBody => "class"

def Slot.isLoopBody : Slot → Bool
  | .whileBody | .forBody => true
  | _ => false

def Slot.isFinallyClause : Slot → Bool
  | .tfFinal | .tefFinal => true
  | _ => false

def Slot.isScope : Slot → Bool
  | .defBody | .classBody => true
  | _ => false

/-- the statement placed in the innermost slot -/
inductive Leaf
  | misc        -- every simple statement kind that does not transfer control
  | pass | brk | cont | ret | retNone | raise | raiseFrom | reraise | yld | yieldFrom | fault
  | ubrk | ucont | uret | uraise       -- unguarded: the rest of the block is dead code
deriving Repr, DecidableEq, Inhabited

def Leaf.all : List Leaf := [.misc, .pass, .brk, .cont, .ret, .retNone, .raise, .raiseFrom, .reraise, .yld, .yieldFrom, .fault,
  .ubrk, .ucont, .uret, .uraise]

def Leaf.name : Leaf → String
  | .misc => "misc" | .pass => "pass" | .brk => "break" | .cont => "continue" | .ret => "return" | .retNone => "returnnone"
  | .raise => "raise" | .raiseFrom => "raisefrom" | .reraise => "reraise" | .yld => "yield" | .yieldFrom => "yieldfrom"
  | .fault => "fault" | .ubrk => "ubreak" | .ucont => "ucontinue" | .uret => "ureturn" | .uraise => "uraise"

inductive LeafKind | brk | cont | ret | yld | other
deriving DecidableEq, Repr

def Leaf.kind : Leaf → LeafKind
  | .brk | .ubrk => .brk
  | .cont | .ucont => .cont
  | .ret | .retNone | .uret => .ret
  | .yld | .yieldFrom => .yld
  | _ => .other

/-- where the outermost statement list stands -/
inductive Frame
  | func          -- directly in a function body
  | funcLoop      -- in the body of a `for` loop in a function body
  | module        -- at module level
deriving Repr, DecidableEq, Inhabited

def Frame.name : Frame → String
  | .func => "fn" | .funcLoop => "fnloop" | .module => "mod"

inductive Scope | func | cls | module
deriving DecidableEq, Repr

/-- the innermost enclosing scope of the leaf (`path` outermost first) -/
def scopeOf (fr : Frame) (path : List Slot) : Scope :=
  match path.reverse.find? Slot.isScope with
  | some .defBody => .func
  | some _ => .cls
  | none => if fr = .module then .module else .func

/-- the slots between the leaf and its scope boundary, innermost first (the frame's own loop included) -/
def innerSlots (fr : Frame) (path : List Slot) : List Slot :=
  let inner := path.reverse.takeWhile (fun s => !s.isScope)
  if path.any Slot.isScope then inner
  else if fr = .funcLoop then inner ++ [.forBody] else inner

/-- **Spec**: the SyntaxError Python 3.4 raises for this placement, if any -/
def placementError (fr : Frame) (path : List Slot) (l : Leaf) : Option String :=
  let slots := innerSlots fr path
  match l.kind with
  | .other => none
  | .ret => if scopeOf fr path = .func then none else some "'return' outside function"
  | .yld => if scopeOf fr path = .func then none else some "'yield' outside function"
  | .brk => if slots.any Slot.isLoopBody then none else some "'break' outside loop"
  | .cont =>
    -- the slots up to (not including) the nearest loop body
    let before := slots.takeWhile (fun s => !s.isLoopBody)
    if !slots.any Slot.isLoopBody then some "'continue' not properly in loop"
    else if before.any Slot.isFinallyClause then some "'continue' not supported inside 'finally' clause"
    else none

/-- does the leaf turn the function that directly contains it into a generator? -/
def Leaf.yields (l : Leaf) : Bool := l.kind = .yld

end GPy.C12
