/-
C12 helper lemmas: the certificate check implies the invariant.
-/
import GPy.C12.Verify
namespace GPy.C12

theorem verify_ok_check {c : Code} {cert : Cert} (h : verify c = .ok cert) : checkCert c cert = true := by
  unfold verify at h
  split at h
  · cases h
  · split at h
    · cases h
    · split at h
      · cases h
      · split at h
        · cases h
        · simp only at h
          split at h
          · cases h
          · split at h
            · rename_i hc
              injection h with h
              subst h
              exact hc
            · split at h <;> cases h

structure CheckFacts (c : Code) (cert : Cert) : Prop where
  starts : instrStarts c.code = some cert.starts
  instrs : ∀ pc ∈ cert.starts, instrOkB c cert.starts pc = true
  lnotab : lnotabOkB c = true
  init : (([], []) : AS) ∈ cert.at 0
  closed : ∀ pc, ∀ a ∈ cert.at pc, stateOk c cert pc a = true

theorem Cert.at_nil_of_ge (cert : Cert) (pc : Nat) (h : cert.states.size ≤ pc) : cert.at pc = [] := by
  unfold Cert.at
  simp [Array.getD, Nat.not_lt.mpr h]

theorem checkFacts {c : Code} {cert : Cert} (h : checkCert c cert = true) : CheckFacts c cert := by
  unfold checkCert at h
  simp only [Bool.and_eq_true, decide_eq_true_eq, List.all_eq_true, List.mem_range] at h
  obtain ⟨⟨⟨⟨h1, h2⟩, h3⟩, h4⟩, h5⟩ := h
  refine ⟨h1, h2, h3, h4, ?_⟩
  intro pc a ha
  by_cases hlt : pc < cert.states.size
  · exact h5 pc hlt a ha
  · rw [Cert.at_nil_of_ge cert pc (Nat.le_of_not_lt hlt)] at ha
    cases ha

theorem reach_in_cert {c : Code} {cert : Cert} (f : CheckFacts c cert) :
    ∀ s, Reach c s → (s.stk, s.blk) ∈ cert.at s.pc := by
  intro s hr
  induction hr with
  | init => exact f.init
  | @next s s' _ hstep ih =>
    have hs := f.closed s.pc _ ih
    unfold stateOk at hs
    simp only [Bool.and_eq_true, decide_eq_true_eq, List.all_eq_true] at hs
    have := hs.2 _ hstep
    simpa [outcomeOk] using this
  | @resume s s' _ hstep ih =>
    have hs := f.closed s.pc _ ih
    unfold stateOk at hs
    simp only [Bool.and_eq_true, decide_eq_true_eq, List.all_eq_true] at hs
    have := hs.2 _ hstep
    simpa [outcomeOk] using this

theorem safe_of_in_cert {c : Code} {cert : Cert} (f : CheckFacts c cert) (s : State)
    (h : (s.stk, s.blk) ∈ cert.at s.pc) : SafeAt c s := by
  have hs := f.closed s.pc _ h
  unfold stateOk at hs
  simp only [Bool.and_eq_true, decide_eq_true_eq, List.all_eq_true] at hs
  refine ⟨⟨cert.starts, f.starts, hs.1.1⟩, hs.1.2, ?_⟩
  intro m hm
  have := hs.2 _ hm
  simp [outcomeOk] at this

theorem instrOk_of_check {c : Code} {cert : Cert} (f : CheckFacts c cert) :
    ∀ pc, IsStart c pc → InstrOk c pc := by
  intro pc ⟨l, hl, hpc⟩
  have : l = cert.starts := by
    have := f.starts; rw [hl] at this; injection this
  subst this
  have h := f.instrs pc hpc
  unfold instrOkB at h
  split at h
  · cases h
  · rename_i i hi
    simp only [Bool.and_eq_true, List.all_eq_true, decide_eq_true_eq] at h
    exact ⟨i, hi, h.1, fun t ht => ⟨_, hl, h.2 t ht⟩⟩

theorem lnotabOk_of_check {c : Code} (h : lnotabOkB c = true) : LnotabOk c := by
  unfold lnotabOkB at h
  simp only [Bool.and_eq_true, Bool.or_eq_true, decide_eq_true_eq] at h
  exact ⟨h.1.1, h.1.2, h.2⟩

/-! ### gpython's stack-effect table against the abstract machine -/
section EffectTable
open Generated


theorem and_mask_eq (x : Nat) (h : x < 32768) : x &&& 65535 = x &&& 32767 := by
  have h1 : x &&& 65535 = x % 65536 := Nat.and_two_pow_sub_one_eq_mod x 16
  have h2 : x &&& 32767 = x % 32768 := Nat.and_two_pow_sub_one_eq_mod x 15
  rw [h1, h2]; omega

theorem simple_eff_le (c : Code) (op : Op) (arg : Nat) (eff : Eff) (e : Int) (harg : arg < 2147483648)
    (h1 : simpleEff c op arg = some eff) (h2 : opcodeStackEffect op arg = some e) :
    eff.pop ≤ eff.need ∧ (eff.push.length : Int) - eff.pop ≤ e := by
  have hm : (arg >>> 16) &&& 65535 = (arg >>> 16) &&& 32767 := by
    apply and_mask_eq
    rw [Nat.shiftRight_eq_div_pow]; omega
  cases op <;> simp only [simpleEff, opcodeStackEffect] at h1 h2 <;>
    first
    | (cases h1; done)
    | (cases h2; done)
    | (injection h1 with h1; injection h2 with h2; subst h1; subst h2; simp; done)
    | (injection h1 with h1; injection h2 with h2; subst h1; subst h2
       simp only [callArgs, nArgs, makeFnPops, hm, List.length_cons, List.length_nil]
       omega)
    | skip
  all_goals
    repeat' split at h1
  all_goals
    first
    | (cases h1; done)
    | (injection h1 with h1; injection h2 with h2; subst h1; subst h2
       simp only [List.length_cons, List.length_nil]
       first | omega | (split <;> omega))


/-- every non-exceptional result leaves at most `d + e` entries -/
def NormLe (d : Nat) (e : Int) : Res → Prop
  | .norm _ stk' _ => (stk'.length : Int) ≤ d + e
  | _ => True

theorem special_eff_le (pc : Nat) (i : Instr) (stk : List Kind) (blk : List Block) (e : Int)
    (h2 : opcodeStackEffect i.op i.arg = some e)
    (hx : ¬ (i.op = .WITH_CLEANUP ∧ stk.head? = some .exc)) :
    ∀ r ∈ execSpecial pc i stk blk, NormLe stk.length e r := by
  obtain ⟨op, arg, size⟩ := i
  cases op <;> simp only [opcodeStackEffect] at h2 <;> (try cases h2) <;>
    simp only [execSpecial, under] <;>
    (repeat' split) <;>
    simp [NormLe, truncate, objs] at * <;> omega

theorem execI_eff_le (c : Code) (pc : Nat) (i : Instr) (stk : List Kind) (blk : List Block) (e : Int)
    (harg : i.arg < 2147483648)
    (h2 : opcodeStackEffect i.op i.arg = some e)
    (hx : ¬ (i.op = .WITH_CLEANUP ∧ stk.head? = some .exc)) :
    ∀ r ∈ execI c pc i stk blk, NormLe stk.length e r := by
  unfold execI
  split
  · simp [NormLe]
  · split
    · rename_i eff heff
      have ⟨hpn, hle⟩ := simple_eff_le c i.op i.arg eff e harg heff h2
      split
      · simp [under, NormLe]
      · rename_i hlen
        intro r hr
        simp only [List.mem_cons, List.mem_map] at hr
        rcases hr with rfl | ⟨x, _, rfl⟩
        · simp only [NormLe, List.length_append, List.length_drop]
          omega
        · simp [NormLe]
    · exact special_eff_le pc i stk blk e h2 hx

theorem unwind_exception_depth (blk : List Block) (stk : List Kind) (s' : State)
    (h : unwind .exception blk stk = .next s') :
    ∃ b ∈ blk, (b.ty = .except ∨ b.ty = .finally) ∧ s'.pc = b.handler ∧ s'.stk.length ≤ b.level + 6 ∧
      s'.stk.length ≤ stk.length + 6 := by
  induction blk generalizing stk with
  | nil => simp [unwind] at h
  | cons b bs ih =>
    unfold unwind at h
    repeat' split at h
    all_goals first
      | (cases h; done)
      | (rename_i heq _; cases heq; done)
      | (rename_i heq _ _; cases heq; done)
      | (injection h with h; subst h
         refine ⟨b, List.mem_cons_self, by simp_all, rfl, ?_, ?_⟩ <;> simp [excSix, truncate] <;> omega)
      | (try simp only at h
         obtain ⟨b', hb', h1, h2, h3, h4⟩ := ih _ h
         refine ⟨b', List.mem_cons_of_mem _ hb', h1, h2, h3, ?_⟩
         (try simp [truncate] at h4); omega)

end EffectTable

/-! ### the table with the edge adjustments of `stackDepthWalk`; unwinding depth -/
section Edges
open Generated

/-- the depth `stackDepthWalk` continues with after the instruction, relative to the depth before it -/
def walkFall (op : Op) (e : Int) : Int :=
  if op = .JUMP_IF_TRUE_OR_POP ∨ op = .JUMP_IF_FALSE_OR_POP then e - 1 else e

/-- the depth `stackDepthWalk` enters the jump target with, relative to the depth before the instruction -/
def walkTarget (op : Op) (e : Int) : Int :=
  if op = .FOR_ITER then e - 2 else if op = .SETUP_FINALLY ∨ op = .SETUP_EXCEPT then e + 3 else e

/-- what the table misses: WITH_CLEANUP entered with an exception on the stack -/
def withCleanupSlack (op : Op) (stk : List Kind) : Int :=
  if op = .WITH_CLEANUP ∧ stk.head? = some .exc then 2 else 0

/-- every non-exceptional result is covered by the fall-through edge or by the jump edge of the walk -/
def EdgeLe (pc : Nat) (i : Instr) (d : Nat) (e : Int) (slack : Int) : Res → Prop
  | .norm pc' stk' _ =>
    (pc' = pc + i.size ∧ (stk'.length : Int) ≤ d + walkFall i.op e + slack) ∨
    (pc' ∈ jumpTargets pc i ∧ (stk'.length : Int) ≤ d + walkTarget i.op e)
  | .yld _ stk' _ => stk'.length + 1 ≤ d      -- the frame is resumed with one more entry: never deeper than before
  | _ => True

theorem special_edge_le (pc : Nat) (i : Instr) (stk : List Kind) (blk : List Block) (e : Int)
    (h2 : opcodeStackEffect i.op i.arg = some e) :
    ∀ r ∈ execSpecial pc i stk blk, EdgeLe pc i stk.length e (withCleanupSlack i.op stk) r := by
  obtain ⟨op, arg, size⟩ := i
  cases op <;> simp only [opcodeStackEffect] at h2 <;> (try cases h2) <;>
    simp only [execSpecial, under] <;>
    (repeat' split) <;>
    simp [EdgeLe, walkFall, walkTarget, withCleanupSlack, jumpTargets, truncate, objs] at * <;> omega


theorem execI_edge_le (c : Code) (pc : Nat) (i : Instr) (stk : List Kind) (blk : List Block) (e : Int)
    (harg : i.arg < 2147483648)
    (h2 : opcodeStackEffect i.op i.arg = some e) :
    ∀ r ∈ execI c pc i stk blk, EdgeLe pc i stk.length e (withCleanupSlack i.op stk) r := by
  unfold execI
  split
  · simp [EdgeLe]
  · split
    · rename_i eff heff
      have ⟨hpn, hle⟩ := simple_eff_le c i.op i.arg eff e harg heff h2
      have hf : walkFall i.op e = e := by
        unfold walkFall
        split
        · rename_i hor
          rcases hor with hh | hh <;> rw [hh] at heff <;> simp [simpleEff] at heff
        · rfl
      have hs : withCleanupSlack i.op stk = 0 := by
        unfold withCleanupSlack
        split
        · rename_i hh
          rw [hh.1] at heff; simp [simpleEff] at heff
        · rfl
      split
      · simp [under, EdgeLe]
      · rename_i hlen
        intro r hr
        simp only [List.mem_cons, List.mem_map] at hr
        rcases hr with rfl | ⟨x, _, rfl⟩
        · simp only [EdgeLe, List.length_append, List.length_drop, hf, hs]
          left
          refine ⟨?_, ?_⟩ <;> first | trivial | rfl | omega
        · simp [EdgeLe]
    · exact special_edge_le pc i stk blk e h2

/-- depth bound of every block-stack unwinding that lands in the frame again: at most 6 entries above
the level of the block that catches it (exception: 6, return / continue into a finally: 2, break
into a finally: 1, break to the loop end: 0), except `continue` reaching its loop, which keeps the
stack it arrives with (never more than it had, +0). -/
theorem unwind_depth (w : UW) (blk : List Block) (stk : List Kind) (s' : State)
    (h : unwind w blk stk = .next s') :
    s'.stk.length ≤ stk.length + 6 ∧
    ∃ b ∈ blk, s'.stk.length ≤ b.level + 6 ∨ (b.ty = .loop ∧ w = .cont s'.pc ∧ s'.stk.length ≤ stk.length) := by
  induction blk generalizing stk with
  | nil => cases w <;> simp [unwind] at h
  | cons b bs ih =>
    unfold unwind at h
    repeat' split at h
    all_goals first
      | (cases h; done)
      | (injection h with h; subst h
         refine ⟨?_, b, List.mem_cons_self, ?_⟩ <;> simp_all [excSix, truncate] <;> omega)
      | (try simp only at h
         obtain ⟨h4, b', hb', h3⟩ := ih _ h
         refine ⟨?_, b', List.mem_cons_of_mem _ hb', ?_⟩
         · (try simp [truncate] at h4); omega
         · rcases h3 with h3 | ⟨h31, h32, h33⟩
           · exact .inl h3
           · refine .inr ⟨h31, h32, ?_⟩
             (try simp [truncate] at h33); omega)

end Edges

/-! ### line table -/


theorem le_addr2lineGo (f q : Nat) (l : List Nat) (addr line : Nat) : line ≤ addr2lineGo f q l addr line := by
  fun_induction addr2lineGo f q l addr line with
  | case1 a l rest addr line addr' h => omega
  | case2 a l rest addr line addr' h ih => omega
  | case3 => omega

theorem addr2lineGo_mono (f a b : Nat) (hab : a ≤ b) (l : List Nat) (addr line : Nat) :
    addr2lineGo f a l addr line ≤ addr2lineGo f b l addr line := by
  fun_induction addr2lineGo f a l addr line with
  | case1 x y rest addr line addr' h =>
    unfold addr2lineGo
    simp only
    split
    · omega
    · have := le_addr2lineGo f b rest (addr + x) (line + y); omega
  | case2 x y rest addr line addr' h ih =>
    rw [addr2lineGo]
    have : ¬ (addr + x > b) := by omega
    simp only [this, if_false]
    exact ih
  | case3 l addr line h =>
    unfold addr2lineGo
    split
    · exact absurd rfl (fun hh => h _ _ _ hh)
    · omega

theorem addr2lineGo_le_total (f q : Nat) (l : List Nat) (addr line : Nat) :
    addr2lineGo f q l addr line ≤ line + (lnotabSums l).2 := by
  fun_induction addr2lineGo f q l addr line with
  | case1 a l rest addr line addr' h => omega
  | case2 a l rest addr line addr' h ih => simp only [lnotabSums]; omega
  | case3 => omega

end GPy.C12
