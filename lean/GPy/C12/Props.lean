/-
C12 property theorems.
-/
import GPy.C12.Proofs
namespace GPy.C12

/-- **verify_sound.**  If the verifier accepts a code object then, for EVERY execution of
the abstract machine from pc 0 with an empty stack (all branch outcomes, all raise points,
all resumptions of a suspended generator frame, any number of steps – induction over
`Reach`): the state is one the certificate predicts for its pc, the pc is an instruction
boundary inside the code, the depth never exceeds `Stacksize`, and the step taken from it
never is `bad` (no underflow, no operand outside its table, no unbalanced block operation,
no break/continue without a loop, no falling off the end) – so a run can only continue,
suspend at a yield, return, or end with an escaping exception.  Moreover every instruction
of the code (reachable or not) has in-range operands and jump targets on instruction
boundaries, and the line table is well-formed. -/
theorem verify_sound (c : Code) (cert : Cert) (h : verify c = .ok cert) :
    WellFormed c ∧ ∀ s, Reach c s → (s.stk, s.blk) ∈ cert.at s.pc := by
  have f := checkFacts (verify_ok_check h)
  refine ⟨⟨instrOk_of_check f, lnotabOk_of_check f.lnotab, ?_⟩, reach_in_cert f⟩
  intro s hr
  exact safe_of_in_cert f s (reach_in_cert f s hr)

/-- every state of an accepted certificate is itself safe (so `cert.maxDepth ≤ Stacksize`) -/
theorem cert_states_safe (c : Code) (cert : Cert) (h : verify c = .ok cert) :
    ∀ pc stk blk, (stk, blk) ∈ cert.at pc → SafeAt c ⟨pc, stk, blk⟩ := by
  intro pc stk blk hm
  exact safe_of_in_cert (checkFacts (verify_ok_check h)) ⟨pc, stk, blk⟩ hm

/-- a run of an accepted code object that has stopped, stopped by returning or by an
escaping exception (or is suspended at a yield): spelled out from `nobad`. -/
theorem accepted_run_ends_properly (c : Code) (cert : Cert) (h : verify c = .ok cert)
    (s : State) (hr : Reach c s) (o : Outcome) (ho : o ∈ step c s) :
    (∃ s', o = .next s') ∨ (∃ s', o = .yield s') ∨ o = .ret ∨ o = .raise := by
  have hs := (verify_sound c cert h).1.safe s hr
  cases o with
  | next s' => exact .inl ⟨s', rfl⟩
  | yield s' => exact .inr (.inl ⟨s', rfl⟩)
  | ret => exact .inr (.inr (.inl rfl))
  | raise => exact .inr (.inr (.inr rfl))
  | bad m => exact absurd ho (hs.nobad m)

/-! non-vacuity: the bytecode gpython emits for
`for i in x:` / `try: f(i)` / `finally: g()` (module level) is accepted, and a code object
that pops an empty stack is rejected. -/
def exAccepted : Code :=
  { code := #[120, 39, 0, 101, 0, 0, 68, 93, 31, 0, 90, 1, 0, 122, 14, 0, 101, 2, 0, 101, 1, 0, 131, 1, 0, 1, 87, 100, 0, 0,
              101, 3, 0, 131, 0, 0, 1, 88, 113, 7, 0, 87, 100, 0, 0, 83],
    consts := #[.none], nnames := 4, nvarnames := 0, ncells := 0, stacksize := 9, lnotab := #[], firstlineno := 1, nlines := 0, flags := 64 }

def opcodeStackEffectRowsNonEmpty : Bool := Generated.effectRows.all (fun op => (Generated.opcodeStackEffect op 2).isSome) && Generated.effectRows.length ≥ 90

def okB : Except String Cert → Bool | .ok _ => true | .error _ => false

example : okB (verify exAccepted) = true := by decide
example : okB (verify { exAccepted with code := #[1, 100, 0, 0, 83] }) = false := by decide
example : okB (verify { exAccepted with stacksize := 7 }) = false := by decide

/-! ### gpython's own stack-effect table (REGENERATED from compile/instructions.go) -/
open Generated in
/-- **effect_table_agrees (partial: one row excluded).**  For every opcode that has a row in
gpython's `opcodeStackEffect`, every operand below 2^31 (all the decoder produces) and every
stack / block stack: each non-exceptional result of executing the instruction in the abstract
machine (fall-through *and* taken jumps: FOR_ITER exhaustion, JUMP_IF_*_OR_POP, POP_JUMP_*)
leaves at most `depth + opcodeStackEffect op arg` entries – the table never under-estimates.
Excluded: WITH_CLEANUP entered with an exception on the stack (`with_cleanup_effect_witness`). -/
theorem effect_table_agrees_partial (c : Code) (pc : Nat) (i : Instr) (stk : List Kind) (blk : List Block) (e : Int)
    (harg : i.arg < 2147483648)
    (hrow : opcodeStackEffect i.op i.arg = some e)
    (hx : ¬ (i.op = .WITH_CLEANUP ∧ stk.head? = some .exc)) :
    ∀ r ∈ execI c pc i stk blk, ∀ pc' stk' blk', r = .norm pc' stk' blk' → (stk'.length : Int) ≤ stk.length + e := by
  intro r hr pc' stk' blk' hn
  have := execI_eff_le c pc i stk blk e harg hrow hx r hr
  subst hn
  exact this

open Generated in
/-- the excluded row really is an under-estimate: WITH_CLEANUP's table entry is −1 ("XXX
Sometimes more"), but with the exception sextuple on the stack it removes nothing and may
push WHY_SILENCED (+1).  gpython compensates by charging SETUP_WITH 7 instead of 6. -/
theorem with_cleanup_effect_witness :
    opcodeStackEffect .WITH_CLEANUP 0 = some (-1) ∧
    Res.norm 1 [.why .silenced, .exc, .obj, .obj, .obj, .obj, .obj, .obj] [⟨.handler, 0, 0⟩]
      ∈ execI exAccepted 0 ⟨.WITH_CLEANUP, 0, 1⟩ [.exc, .obj, .obj, .obj, .obj, .obj, .obj] [⟨.handler, 0, 1⟩] := by
  decide

/-- **handler_entry_depth.**  Whenever an exception unwinds into a handler (except / finally /
with), the handler is entered at the block's handler address with at most `level + 6` entries
(the traceback/value/type triple of the new exception over that of the previous one) – the
`+6` (`+3` more on the jump edge) gpython's table charges SETUP_EXCEPT / SETUP_FINALLY, and
within the 7 it charges SETUP_WITH. -/
theorem handler_entry_depth (blk : List Block) (stk : List Kind) (s' : State)
    (h : unwind .exception blk stk = .next s') :
    ∃ b ∈ blk, (b.ty = .except ∨ b.ty = .finally) ∧ s'.pc = b.handler ∧ s'.stk.length ≤ b.level + 6 :=
  let ⟨b, hb, h1, h2, h3, _⟩ := unwind_exception_depth blk stk s' h
  ⟨b, hb, h1, h2, h3⟩

example : opcodeStackEffectRowsNonEmpty = true := by decide

/-! ### line table (py/code.go: Addr2Line) -/

/-- **addr2line_monotone.**  For every line table, `Addr2Line` is monotone in the address. -/
theorem addr2line_monotone (c : Code) (a b : Nat) (h : a ≤ b) : addr2line c a ≤ addr2line c b :=
  addr2lineGo_mono c.firstlineno a b h _ _ _

/-- **addr2line_within_source.**  For an accepted code object every address maps to a line
between `Firstlineno` and the last line of the source text. -/
theorem addr2line_within_source (c : Code) (cert : Cert) (h : verify c = .ok cert) (hn : c.nlines ≠ 0) (a : Nat) :
    c.firstlineno ≤ addr2line c a ∧ addr2line c a ≤ c.nlines := by
  have hl := (verify_sound c cert h).1.lnotab
  refine ⟨le_addr2lineGo _ _ _ _ _, ?_⟩
  have := addr2lineGo_le_total c.firstlineno a c.lnotab.toList 0 c.firstlineno
  unfold addr2line
  rcases hl.2.2 with h0 | h1
  · exact absurd h0 hn
  · omega

end GPy.C12
