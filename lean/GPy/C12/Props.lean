/-
C12 property theorems.
-/
import GPy.C12.Proofs
import GPy.C12.AsmProofs
import GPy.C12.Placement
namespace GPy.C12

/-- **verify_sound.**  If the verifier accepts a code object then, for EVERY execution of
the abstract machine from pc 0 with an empty stack (all branch outcomes, all raise points,
all resumptions of a suspended generator frame, any number of steps – induction over
`Reach`): the state is one the certificate predicts for its pc, the pc is an instruction
boundary inside the code, the depth never exceeds `Stacksize`, and the step taken from it
never is `bad` (no underflow, no operand outside its table, no unbalanced block operation,
no break/continue without a loop, no falling off the end) – so a run can only continue,
suspend at a yield, return, or end with an escaping exception.  Moreover every instruction
of the code (reachable or not) has in-range operands and jump targets on instruction
boundaries, and the line table is well-formed. -/
theorem verify_sound (c : Code) (cert : Cert) (h : verify c = .ok cert) :
    WellFormed c ∧ ∀ s, Reach c s → (s.stk, s.blk) ∈ cert.at s.pc := by
  have f := checkFacts (verify_ok_check h)
  refine ⟨⟨instrOk_of_check f, lnotabOk_of_check f.lnotab, ?_⟩, reach_in_cert f⟩
  intro s hr
  exact safe_of_in_cert f s (reach_in_cert f s hr)

/-- every state of an accepted certificate is itself safe (so `cert.maxDepth ≤ Stacksize`) -/
theorem cert_states_safe (c : Code) (cert : Cert) (h : verify c = .ok cert) :
    ∀ pc stk blk, (stk, blk) ∈ cert.at pc → SafeAt c ⟨pc, stk, blk⟩ := by
  intro pc stk blk hm
  exact safe_of_in_cert (checkFacts (verify_ok_check h)) ⟨pc, stk, blk⟩ hm

/-- a run of an accepted code object that has stopped, stopped by returning or by an
escaping exception (or is suspended at a yield): spelled out from `nobad`. -/
theorem accepted_run_ends_properly (c : Code) (cert : Cert) (h : verify c = .ok cert)
    (s : State) (hr : Reach c s) (o : Outcome) (ho : o ∈ step c s) :
    (∃ s', o = .next s') ∨ (∃ s', o = .yield s') ∨ o = .ret ∨ o = .raise := by
  have hs := (verify_sound c cert h).1.safe s hr
  cases o with
  | next s' => exact .inl ⟨s', rfl⟩
  | yield s' => exact .inr (.inl ⟨s', rfl⟩)
  | ret => exact .inr (.inr (.inl rfl))
  | raise => exact .inr (.inr (.inr rfl))
  | bad m => exact absurd ho (hs.nobad m)

/-! non-vacuity: the bytecode gpython emits for
`for i in x:` / `try: f(i)` / `finally: g()` (module level) is accepted, and a code object
that pops an empty stack is rejected. -/
def exAccepted : Code :=
  { code := #[120, 39, 0, 101, 0, 0, 68, 93, 31, 0, 90, 1, 0, 122, 14, 0, 101, 2, 0, 101, 1, 0, 131, 1, 0, 1, 87, 100, 0, 0,
              101, 3, 0, 131, 0, 0, 1, 88, 113, 7, 0, 87, 100, 0, 0, 83],
    consts := #[.none], nnames := 4, nvarnames := 0, ncells := 0, stacksize := 9, lnotab := #[], firstlineno := 1, nlines := 0, flags := 64 }

def opcodeStackEffectRowsNonEmpty : Bool := Generated.effectRows.all (fun op => (Generated.opcodeStackEffect op 2).isSome) && Generated.effectRows.length ≥ 90

def okB : Except String Cert → Bool | .ok _ => true | .error _ => false

example : okB (verify exAccepted) = true := by decide
example : okB (verify { exAccepted with code := #[1, 100, 0, 0, 83] }) = false := by decide
example : okB (verify { exAccepted with stacksize := 7 }) = false := by decide


/-! ### the assembler (compile/instructions.go: Pass / Assemble), model in Assemble.lean -/

/-- **assemble_fixpoint_sound.**  For EVERY instruction stream, every label store and every pass
number `n > 0` (a resolving pass): if `Instructions.Pass(n)` finishes without a panic and reports
"no change", then in the stream it leaves behind (1) the position of every instruction is the
running sum (uint32) of the sizes of the instructions before it, (2) every label object holds the
position the store has for it, and (3) every jump operand is its label's FINAL position: absolute
jumps hold it, relative jumps hold its distance from the end of the jump instruction – although
`Resolve` read the position of a label further down the stream before `SetPos` reached it. -/
theorem assemble_fixpoint_sound (n : Nat) (hn : n > 0) (is : List Item) (lpos : Nat → Nat) (out : PassOut)
    (h : pass n is lpos = .ok out) (hc : out.changed = false) :
    Offsets out.items 0 ∧ LabelsAt out.items out.lpos ∧ JumpsResolved out.items out.lpos :=
  pass_fixpoint n hn is lpos out h hc

/-- **assemble_sound (partial: exit at pass 0 excluded).**  For every fresh stream, if
`Instructions.Assemble` returns (no panic, fewer than 10 passes) and its loop stopped at a pass
index `k > 0`, the final stream is laid out and resolved as in `assemble_fixpoint_sound`, every
jump whose label was added to the stream targets the byte offset of that label, and – when the code
is shorter than 2^32 bytes – the byte offset of every instruction is the exact sum of the sizes
(= number of emitted bytes, `output_length`) of the instructions before it: jump targets are
instruction boundaries of the emitted byte string.
Excluded: `k = 0` – pass 0 (which does not resolve) already reports no change; this needs every
instruction to sit at offset 0 (`assemble_pass0_witness`), never the case for compiler output,
which ends in RETURN_VALUE after at least one other instruction. -/
theorem assemble_sound_partial (is : List AInstr) (k : Nat) (out : PassOut)
    (h : assembleLoop 10 0 (fresh is) (fun _ => 0) = .ok (k, out)) (hk : k > 0) :
    (Offsets out.items 0 ∧ LabelsAt out.items out.lpos ∧ JumpsResolved out.items out.lpos) ∧
    (∀ o a d p, (AInstr.jabs o a d, p) ∈ out.items → (∃ q, (AInstr.label d, q) ∈ out.items) →
        (AInstr.label d, a) ∈ out.items) ∧
    (∀ o a d p, (AInstr.jrel o a d, p) ∈ out.items → (∃ q, (AInstr.label d, q) ∈ out.items) →
        (AInstr.label d, wrap32 (p + argSize a) + a) ∈ out.items) ∧
    (sizeSum out.items < 4294967296 → ∀ pre it post, out.items = pre ++ it :: post →
        it.2 = sizeSum pre ∧ it.2 = (pre.flatMap (fun x => x.1.output)).length) := by
  have hs := assembleLoop_sound 10 0 (fresh is) (fun _ => 0) k out h hk
  refine ⟨hs, ?_, ?_, ?_⟩
  · intro o a d p hm hd
    exact jabs_target_is_label_offset out.items out.lpos hs.2.1 hs.2.2 o a d p hm hd
  · intro o a d p hm hd
    exact jrel_target_is_label_offset out.items out.lpos hs.2.1 hs.2.2 o a d p hm hd
  · intro hlt pre it post heq
    have := offsets_no_wrap out.items hs.1 hlt pre it post heq
    exact ⟨this, by rw [this, sizeSum_eq_output_length]⟩

/-- the excluded case is real: a stream whose only sized instruction is a trailing relative jump
is "assembled" by pass 0 alone, unresolved – the emitted JUMP_FORWARD 0 targets offset 3, not its
label at offset 0 (and a resolving pass would have panicked "can't jump backwards"). -/
theorem assemble_pass0_witness :
    assemble [.label 1, .jrel .JUMP_FORWARD 0 1] = .ok [110, 0, 0] := by rfl

example : ∃ k out, assembleLoop 10 0 (fresh demo) (fun _ => 0) = .ok (k, out) ∧ k > 0 := by
  refine ⟨1, ?_⟩
  simp [assembleLoop, pass, passGo, passItem, fresh, demo, setL, wrap32, AInstr.size, argSize]

/-! ### gpython's own stack-effect table (REGENERATED from compile/instructions.go) -/
open Generated in
/-- **effect_table_agrees (partial: one row excluded).**  For every opcode that has a row in
gpython's `opcodeStackEffect`, every operand below 2^31 (all the decoder produces) and every
stack / block stack: each non-exceptional result of executing the instruction in the abstract
machine (fall-through *and* taken jumps: FOR_ITER exhaustion, JUMP_IF_*_OR_POP, POP_JUMP_*)
leaves at most `depth + opcodeStackEffect op arg` entries – the table never under-estimates.
Excluded: WITH_CLEANUP entered with an exception on the stack (`with_cleanup_effect_witness`). -/
theorem effect_table_agrees_partial (c : Code) (pc : Nat) (i : Instr) (stk : List Kind) (blk : List Block) (e : Int)
    (harg : i.arg < 2147483648)
    (hrow : opcodeStackEffect i.op i.arg = some e)
    (hx : ¬ (i.op = .WITH_CLEANUP ∧ stk.head? = some .exc)) :
    ∀ r ∈ execI c pc i stk blk, ∀ pc' stk' blk', r = .norm pc' stk' blk' → (stk'.length : Int) ≤ stk.length + e := by
  intro r hr pc' stk' blk' hn
  have := execI_eff_le c pc i stk blk e harg hrow hx r hr
  subst hn
  exact this

open Generated in
/-- the excluded row really is an under-estimate: WITH_CLEANUP's table entry is −1 ("XXX
Sometimes more"), but with the exception sextuple on the stack it removes nothing and may
push WHY_SILENCED (+1).  gpython compensates by charging SETUP_WITH 7 instead of 6. -/
theorem with_cleanup_effect_witness :
    opcodeStackEffect .WITH_CLEANUP 0 = some (-1) ∧
    Res.norm 1 [.why .silenced, .exc, .obj, .obj, .obj, .obj, .obj, .obj] [⟨.handler, 0, 0⟩]
      ∈ execI exAccepted 0 ⟨.WITH_CLEANUP, 0, 1⟩ [.exc, .obj, .obj, .obj, .obj, .obj, .obj] [⟨.handler, 0, 1⟩] := by
  decide

/-- **handler_entry_depth.**  Whenever an exception unwinds into a handler (except / finally /
with), the handler is entered at the block's handler address with at most `level + 6` entries
(the traceback/value/type triple of the new exception over that of the previous one) – the
`+6` (`+3` more on the jump edge) gpython's table charges SETUP_EXCEPT / SETUP_FINALLY, and
within the 7 it charges SETUP_WITH. -/
theorem handler_entry_depth (blk : List Block) (stk : List Kind) (s' : State)
    (h : unwind .exception blk stk = .next s') :
    ∃ b ∈ blk, (b.ty = .except ∨ b.ty = .finally) ∧ s'.pc = b.handler ∧ s'.stk.length ≤ b.level + 6 :=
  let ⟨b, hb, h1, h2, h3, _⟩ := unwind_exception_depth blk stk s' h
  ⟨b, hb, h1, h2, h3⟩

example : opcodeStackEffectRowsNonEmpty = true := by decide

open Generated in
/-- **effect_table_agrees** (all rows, with the edge adjustments of `stackDepthWalk`).  For every
opcode with a row in the regenerated `opcodeStackEffect`, every operand below 2^31 and every
stack / block stack, each non-exceptional result of the abstract machine is covered by one of the
two edges `stackDepthWalk` follows: it falls through with at most `depth + effect` entries (`− 1` for
JUMP_IF_*_OR_POP, as the walk adjusts), or it lands on a jump target of the instruction with at most
`depth + effect` entries (`− 2` for FOR_ITER, `+ 3` for SETUP_EXCEPT / SETUP_FINALLY, as the walk
adjusts); a suspended frame is resumed no deeper than it was.  The ONE deviation of the table is
explicit as `withCleanupSlack`: WITH_CLEANUP entered with an exception may leave 2 more than its
row says (see `with_cleanup_effect_witness`); `with_cleanup_within_setup_with_charge` shows that the
7 charged to SETUP_WITH covers exactly this. -/
theorem effect_table_agrees (c : Code) (pc : Nat) (i : Instr) (stk : List Kind) (blk : List Block) (e : Int)
    (harg : i.arg < 2147483648) (hrow : opcodeStackEffect i.op i.arg = some e) :
    ∀ r ∈ execI c pc i stk blk,
      (∀ pc' stk' blk', r = .norm pc' stk' blk' →
        (pc' = pc + i.size ∧ (stk'.length : Int) ≤ stk.length + walkFall i.op e + withCleanupSlack i.op stk) ∨
        (pc' ∈ jumpTargets pc i ∧ (stk'.length : Int) ≤ stk.length + walkTarget i.op e)) ∧
      (∀ pc' stk' blk', r = .yld pc' stk' blk' → stk'.length + 1 ≤ stk.length) := by
  intro r hr
  have := execI_edge_le c pc i stk blk e harg hrow r hr
  constructor
  · intro pc' stk' blk' hn; subst hn; exact this
  · intro pc' stk' blk' hn; subst hn; exact this

/-- **unwind_entry_depth** (first step of `stackdepth_upper_bound`).  For every unwinding reason
(exception, return, break, continue), every block stack and value stack: if unwinding lands in the
frame again, the new depth is at most 6 above the level of the block that caught it – the 6 (+3 on
the handler edge) `stackDepthWalk` charges at that block's SETUP_EXCEPT / SETUP_FINALLY, within the 7
of SETUP_WITH, and 0 would do for SETUP_LOOP's break edge – or it is a `continue` that reached its
loop block with the stack it had.  It never exceeds the depth before by more than 6. -/
theorem unwind_entry_depth (w : UW) (blk : List Block) (stk : List Kind) (s' : State)
    (h : unwind w blk stk = .next s') :
    s'.stk.length ≤ stk.length + 6 ∧
    ∃ b ∈ blk, s'.stk.length ≤ b.level + 6 ∨ (b.ty = .loop ∧ w = .cont s'.pc ∧ s'.stk.length ≤ stk.length) :=
  unwind_depth w blk stk s' h

/-- the row `effect_table_agrees` singles out is paid for by SETUP_WITH: when an exception unwinds
into a `with` handler and WITH_CLEANUP runs there, the depth stays within `level + 7`, where `level`
is the depth at the SETUP_WITH (its block level) and 7 its table entry. -/
theorem with_cleanup_within_setup_with_charge (c : Code) (blk : List Block) (stk : List Kind) (s' : State)
    (h : unwind .exception blk stk = .next s') :
    ∃ b ∈ blk, ∀ r ∈ execI c s'.pc ⟨.WITH_CLEANUP, 0, 1⟩ s'.stk s'.blk, ∀ pc' stk' blk', r = .norm pc' stk' blk' →
      (stk'.length : Int) ≤ b.level + 7 := by
  obtain ⟨b, hb, _, _, hlen⟩ := handler_entry_depth blk stk s' h
  refine ⟨b, hb, ?_⟩
  intro r hr pc' stk' blk' hn
  have hrow : Generated.opcodeStackEffect (Instr.op ⟨.WITH_CLEANUP, 0, 1⟩) (Instr.arg ⟨.WITH_CLEANUP, 0, 1⟩) = some (-1) := rfl
  have := (effect_table_agrees c s'.pc ⟨.WITH_CLEANUP, 0, 1⟩ s'.stk s'.blk (-1) (by decide) hrow r hr).1 pc' stk' blk' hn
  simp only [walkFall, walkTarget, withCleanupSlack, jumpTargets] at this
  rcases this with ⟨_, h1⟩ | ⟨h2, _⟩
  · split at h1 <;> simp at h1 <;> omega
  · simp at h2


/-! ### line table (py/code.go: Addr2Line) -/

/-- **addr2line_monotone.**  For every line table, `Addr2Line` is monotone in the address. -/
theorem addr2line_monotone (c : Code) (a b : Nat) (h : a ≤ b) : addr2line c a ≤ addr2line c b :=
  addr2lineGo_mono c.firstlineno a b h _ _ _

/-- **addr2line_within_source.**  For an accepted code object every address maps to a line
between `Firstlineno` and the last line of the source text. -/
theorem addr2line_within_source (c : Code) (cert : Cert) (h : verify c = .ok cert) (hn : c.nlines ≠ 0) (a : Nat) :
    c.firstlineno ≤ addr2line c a ∧ addr2line c a ≤ c.nlines := by
  have hl := (verify_sound c cert h).1.lnotab
  refine ⟨le_addr2lineGo _ _ _ _ _, ?_⟩
  have := addr2lineGo_le_total c.firstlineno a c.lnotab.toList 0 c.firstlineno
  unfold addr2line
  rcases hl.2.2 with h0 | h1
  · exact absurd h0 hn
  · omega

/-! ### the placement spec (Placement.lean) at the points the seeded change C12-a lives on (tests, by `decide`) -/
example : placementError .func [.whileElse] .cont = some "'continue' not properly in loop" := by decide
example : placementError .func [.whileElse] .brk = some "'break' outside loop" := by decide
example : placementError .func [.forBody, .whileElse] .cont = none := by decide
example : placementError .funcLoop [.tfFinal] .cont = some "'continue' not supported inside 'finally' clause" := by decide
example : placementError .funcLoop [.tfFinal, .whileBody] .cont = none := by decide
example : placementError .funcLoop [.defBody] .brk = some "'break' outside loop" := by decide
example : placementError .func [.classBody] .ret = some "'return' outside function" := by decide
example : placementError .module [.defBody, .withBody] .yld = none := by decide

end GPy.C12
