/-
C12 property theorems.
-/
import GPy.C12.Proofs
import GPy.C12.AsmProofs
import GPy.C12.Placement
import GPy.C12.DepthProofs
import GPy.C12.ConformProofs  -- [C12-ext2 g3]
import GPy.C12.LnotabProofs  -- [C12-ext2 g4]
import GPy.C12.TbProofs  -- [C12-ext2 g4]
-- [C12-ext2 g2] begin
import GPy.C12.CompileProofs
-- [C12-ext2 g2] end
namespace GPy.C12

/-- **verify_sound.**  If the verifier accepts a code object then, for EVERY execution of
the abstract machine from pc 0 with an empty stack (all branch outcomes, all raise points,
all resumptions of a suspended generator frame, any number of steps – induction over
`Reach`): the state is one the certificate predicts for its pc, the pc is an instruction
boundary inside the code, the depth never exceeds `Stacksize`, and the step taken from it
never is `bad` (no underflow, no operand outside its table, no unbalanced block operation,
no break/continue without a loop, no falling off the end) – so a run can only continue,
suspend at a yield, return, or end with an escaping exception.  Moreover every instruction
of the code (reachable or not) has in-range operands and jump targets on instruction
boundaries, and the line table is well-formed. -/
theorem verify_sound (c : Code) (cert : Cert) (h : verify c = .ok cert) :
    WellFormed c ∧ ∀ s, Reach c s → (s.stk, s.blk) ∈ cert.at s.pc := by
  have f := checkFacts (verify_ok_check h)
  refine ⟨⟨instrOk_of_check f, lnotabOk_of_check f.lnotab, ?_⟩, reach_in_cert f⟩
  intro s hr
  exact safe_of_in_cert f s (reach_in_cert f s hr)

/-- every state of an accepted certificate is itself safe (so `cert.maxDepth ≤ Stacksize`) -/
theorem cert_states_safe (c : Code) (cert : Cert) (h : verify c = .ok cert) :
    ∀ pc stk blk, (stk, blk) ∈ cert.at pc → SafeAt c ⟨pc, stk, blk⟩ := by
  intro pc stk blk hm
  exact safe_of_in_cert (checkFacts (verify_ok_check h)) ⟨pc, stk, blk⟩ hm

/-- a run of an accepted code object that has stopped, stopped by returning or by an
escaping exception (or is suspended at a yield): spelled out from `nobad`. -/
theorem accepted_run_ends_properly (c : Code) (cert : Cert) (h : verify c = .ok cert)
    (s : State) (hr : Reach c s) (o : Outcome) (ho : o ∈ step c s) :
    (∃ s', o = .next s') ∨ (∃ s', o = .yield s') ∨ o = .ret ∨ o = .raise := by
  have hs := (verify_sound c cert h).1.safe s hr
  cases o with
  | next s' => exact .inl ⟨s', rfl⟩
  | yield s' => exact .inr (.inl ⟨s', rfl⟩)
  | ret => exact .inr (.inr (.inl rfl))
  | raise => exact .inr (.inr (.inr rfl))
  | bad m => exact absurd ho (hs.nobad m)

/-! non-vacuity: the bytecode gpython emits for
`for i in x:` / `try: f(i)` / `finally: g()` (module level) is accepted, and a code object
that pops an empty stack is rejected. -/
def exAccepted : Code :=
  { code := #[120, 39, 0, 101, 0, 0, 68, 93, 31, 0, 90, 1, 0, 122, 14, 0, 101, 2, 0, 101, 1, 0, 131, 1, 0, 1, 87, 100, 0, 0,
              101, 3, 0, 131, 0, 0, 1, 88, 113, 7, 0, 87, 100, 0, 0, 83],
    consts := #[.none], nnames := 4, nvarnames := 0, ncells := 0, stacksize := 9, lnotab := #[], firstlineno := 1, nlines := 0, flags := 64 }

def opcodeStackEffectRowsNonEmpty : Bool := Generated.effectRows.all (fun op => (Generated.opcodeStackEffect op 2).isSome) && Generated.effectRows.length ≥ 90

def okB : Except String Cert → Bool | .ok _ => true | .error _ => false

example : okB (verify exAccepted) = true := by decide
example : okB (verify { exAccepted with code := #[1, 100, 0, 0, 83] }) = false := by decide
example : okB (verify { exAccepted with stacksize := 7 }) = false := by decide


/-! ### the assembler (compile/instructions.go: Pass / Assemble), model in Assemble.lean -/

/-- **assemble_fixpoint_sound.**  For EVERY instruction stream, every label store and every pass
number `n > 0` (a resolving pass): if `Instructions.Pass(n)` finishes without a panic and reports
"no change", then in the stream it leaves behind (1) the position of every instruction is the
running sum (uint32) of the sizes of the instructions before it, (2) every label object holds the
position the store has for it, and (3) every jump operand is its label's FINAL position: absolute
jumps hold it, relative jumps hold its distance from the end of the jump instruction – although
`Resolve` read the position of a label further down the stream before `SetPos` reached it. -/
theorem assemble_fixpoint_sound (n : Nat) (hn : n > 0) (is : List Item) (lpos : Nat → Nat) (out : PassOut)
    (h : pass n is lpos = .ok out) (hc : out.changed = false) :
    Offsets out.items 0 ∧ LabelsAt out.items out.lpos ∧ JumpsResolved out.items out.lpos :=
  pass_fixpoint n hn is lpos out h hc

/-- **assemble_sound (partial: exit at pass 0 excluded).**  For every fresh stream, if
`Instructions.Assemble` returns (no panic, fewer than 10 passes) and its loop stopped at a pass
index `k > 0`, the final stream is laid out and resolved as in `assemble_fixpoint_sound`, every
jump whose label was added to the stream targets the byte offset of that label, and – when the code
is shorter than 2^32 bytes – the byte offset of every instruction is the exact sum of the sizes
(= number of emitted bytes, `output_length`) of the instructions before it: jump targets are
instruction boundaries of the emitted byte string.
Excluded: `k = 0` – pass 0 (which does not resolve) already reports no change; this needs every
instruction to sit at offset 0 (`assemble_pass0_witness`), never the case for compiler output,
which ends in RETURN_VALUE after at least one other instruction. -/
theorem assemble_sound_partial (is : List AInstr) (k : Nat) (out : PassOut)
    (h : assembleLoop 10 0 (fresh is) (fun _ => 0) = .ok (k, out)) (hk : k > 0) :
    (Offsets out.items 0 ∧ LabelsAt out.items out.lpos ∧ JumpsResolved out.items out.lpos) ∧
    (∀ o a d p, (AInstr.jabs o a d, p) ∈ out.items → (∃ q, (AInstr.label d, q) ∈ out.items) →
        (AInstr.label d, a) ∈ out.items) ∧
    (∀ o a d p, (AInstr.jrel o a d, p) ∈ out.items → (∃ q, (AInstr.label d, q) ∈ out.items) →
        (AInstr.label d, wrap32 (p + argSize a) + a) ∈ out.items) ∧
    (sizeSum out.items < 4294967296 → ∀ pre it post, out.items = pre ++ it :: post →
        it.2 = sizeSum pre ∧ it.2 = (pre.flatMap (fun x => x.1.output)).length) := by
  have hs := assembleLoop_sound 10 0 (fresh is) (fun _ => 0) k out h hk
  refine ⟨hs, ?_, ?_, ?_⟩
  · intro o a d p hm hd
    exact jabs_target_is_label_offset out.items out.lpos hs.2.1 hs.2.2 o a d p hm hd
  · intro o a d p hm hd
    exact jrel_target_is_label_offset out.items out.lpos hs.2.1 hs.2.2 o a d p hm hd
  · intro hlt pre it post heq
    have := offsets_no_wrap out.items hs.1 hlt pre it post heq
    exact ⟨this, by rw [this, sizeSum_eq_output_length]⟩

/-- the excluded case is real: a stream whose only sized instruction is a trailing relative jump
is "assembled" by pass 0 alone, unresolved – the emitted JUMP_FORWARD 0 targets offset 3, not its
label at offset 0 (and a resolving pass would have panicked "can't jump backwards"). -/
theorem assemble_pass0_witness :
    assemble [.label 1, .jrel .JUMP_FORWARD 0 1] = .ok [110, 0, 0] := by rfl

example : ∃ k out, assembleLoop 10 0 (fresh demo) (fun _ => 0) = .ok (k, out) ∧ k > 0 := by
  refine ⟨1, ?_⟩
  simp [assembleLoop, pass, passGo, passItem, fresh, demo, setL, wrap32, AInstr.size, argSize]

/-! ### gpython's own stack-effect table (REGENERATED from compile/instructions.go) -/
open Generated in
/-- **effect_table_agrees (partial: one row excluded).**  For every opcode that has a row in
gpython's `opcodeStackEffect`, every operand below 2^31 (all the decoder produces) and every
stack / block stack: each non-exceptional result of executing the instruction in the abstract
machine (fall-through *and* taken jumps: FOR_ITER exhaustion, JUMP_IF_*_OR_POP, POP_JUMP_*)
leaves at most `depth + opcodeStackEffect op arg` entries – the table never under-estimates.
Excluded: WITH_CLEANUP entered with an exception on the stack (`with_cleanup_effect_witness`). -/
theorem effect_table_agrees_partial (c : Code) (pc : Nat) (i : Instr) (stk : List Kind) (blk : List Block) (e : Int)
    (harg : i.arg < 2147483648)
    (hrow : opcodeStackEffect i.op i.arg = some e)
    (hx : ¬ (i.op = .WITH_CLEANUP ∧ stk.head? = some .exc)) :
    ∀ r ∈ execI c pc i stk blk, ∀ pc' stk' blk', r = .norm pc' stk' blk' → (stk'.length : Int) ≤ stk.length + e := by
  intro r hr pc' stk' blk' hn
  have := execI_eff_le c pc i stk blk e harg hrow hx r hr
  subst hn
  exact this

open Generated in
/-- the excluded row really is an under-estimate: WITH_CLEANUP's table entry is −1 ("XXX
Sometimes more"), but with the exception sextuple on the stack it removes nothing and may
push WHY_SILENCED (+1).  gpython compensates by charging SETUP_WITH 7 instead of 6. -/
theorem with_cleanup_effect_witness :
    opcodeStackEffect .WITH_CLEANUP 0 = some (-1) ∧
    Res.norm 1 [.why .silenced, .exc, .obj, .obj, .obj, .obj, .obj, .obj] [⟨.handler, 0, 0⟩]
      ∈ execI exAccepted 0 ⟨.WITH_CLEANUP, 0, 1⟩ [.exc, .obj, .obj, .obj, .obj, .obj, .obj] [⟨.handler, 0, 1⟩] := by
  decide

/-- **handler_entry_depth.**  Whenever an exception unwinds into a handler (except / finally /
with), the handler is entered at the block's handler address with at most `level + 6` entries
(the traceback/value/type triple of the new exception over that of the previous one) – the
`+6` (`+3` more on the jump edge) gpython's table charges SETUP_EXCEPT / SETUP_FINALLY, and
within the 7 it charges SETUP_WITH. -/
theorem handler_entry_depth (blk : List Block) (stk : List Kind) (s' : State)
    (h : unwind .exception blk stk = .next s') :
    ∃ b ∈ blk, (b.ty = .except ∨ b.ty = .finally) ∧ s'.pc = b.handler ∧ s'.stk.length ≤ b.level + 6 :=
  let ⟨b, hb, h1, h2, h3, _⟩ := unwind_exception_depth blk stk s' h
  ⟨b, hb, h1, h2, h3⟩

example : opcodeStackEffectRowsNonEmpty = true := by decide

open Generated in
/-- **effect_table_agrees** (all rows, with the edge adjustments of `stackDepthWalk`).  For every
opcode with a row in the regenerated `opcodeStackEffect`, every operand below 2^31 and every
stack / block stack, each non-exceptional result of the abstract machine is covered by one of the
two edges `stackDepthWalk` follows: it falls through with at most `depth + effect` entries (`− 1` for
JUMP_IF_*_OR_POP, as the walk adjusts), or it lands on a jump target of the instruction with at most
`depth + effect` entries (`− 2` for FOR_ITER, `+ 3` for SETUP_EXCEPT / SETUP_FINALLY, as the walk
adjusts); a suspended frame is resumed no deeper than it was.  The ONE deviation of the table is
explicit as `withCleanupSlack`: WITH_CLEANUP entered with an exception may leave 2 more than its
row says (see `with_cleanup_effect_witness`); `with_cleanup_within_setup_with_charge` shows that the
7 charged to SETUP_WITH covers exactly this. -/
theorem effect_table_agrees (c : Code) (pc : Nat) (i : Instr) (stk : List Kind) (blk : List Block) (e : Int)
    (harg : i.arg < 2147483648) (hrow : opcodeStackEffect i.op i.arg = some e) :
    ∀ r ∈ execI c pc i stk blk,
      (∀ pc' stk' blk', r = .norm pc' stk' blk' →
        (pc' = pc + i.size ∧ (stk'.length : Int) ≤ stk.length + walkFall i.op e + withCleanupSlack i.op stk) ∨
        (pc' ∈ jumpTargets pc i ∧ (stk'.length : Int) ≤ stk.length + walkTarget i.op e)) ∧
      (∀ pc' stk' blk', r = .yld pc' stk' blk' → stk'.length + 1 ≤ stk.length) := by
  intro r hr
  have := execI_edge_le c pc i stk blk e harg hrow r hr
  constructor
  · intro pc' stk' blk' hn; subst hn; exact this
  · intro pc' stk' blk' hn; subst hn; exact this

/-- **unwind_entry_depth** (first step of `stackdepth_upper_bound`).  For every unwinding reason
(exception, return, break, continue), every block stack and value stack: if unwinding lands in the
frame again, the new depth is at most 6 above the level of the block that caught it – the 6 (+3 on
the handler edge) `stackDepthWalk` charges at that block's SETUP_EXCEPT / SETUP_FINALLY, within the 7
of SETUP_WITH, and 0 would do for SETUP_LOOP's break edge – or it is a `continue` that reached its
loop block with the stack it had.  It never exceeds the depth before by more than 6. -/
theorem unwind_entry_depth (w : UW) (blk : List Block) (stk : List Kind) (s' : State)
    (h : unwind w blk stk = .next s') :
    s'.stk.length ≤ stk.length + 6 ∧
    ∃ b ∈ blk, s'.stk.length ≤ b.level + 6 ∨ (b.ty = .loop ∧ w = .cont s'.pc ∧ s'.stk.length ≤ stk.length) :=
  unwind_depth w blk stk s' h

/-- the row `effect_table_agrees` singles out is paid for by SETUP_WITH: when an exception unwinds
into a `with` handler and WITH_CLEANUP runs there, the depth stays within `level + 7`, where `level`
is the depth at the SETUP_WITH (its block level) and 7 its table entry. -/
theorem with_cleanup_within_setup_with_charge (c : Code) (blk : List Block) (stk : List Kind) (s' : State)
    (h : unwind .exception blk stk = .next s') :
    ∃ b ∈ blk, ∀ r ∈ execI c s'.pc ⟨.WITH_CLEANUP, 0, 1⟩ s'.stk s'.blk, ∀ pc' stk' blk', r = .norm pc' stk' blk' →
      (stk'.length : Int) ≤ b.level + 7 := by
  obtain ⟨b, hb, _, _, hlen⟩ := handler_entry_depth blk stk s' h
  refine ⟨b, hb, ?_⟩
  intro r hr pc' stk' blk' hn
  have hrow : Generated.opcodeStackEffect (Instr.op ⟨.WITH_CLEANUP, 0, 1⟩) (Instr.arg ⟨.WITH_CLEANUP, 0, 1⟩) = some (-1) := rfl
  have := (effect_table_agrees c s'.pc ⟨.WITH_CLEANUP, 0, 1⟩ s'.stk s'.blk (-1) (by decide) hrow r hr).1 pc' stk' blk' hn
  simp only [walkFall, walkTarget, withCleanupSlack, jumpTargets] at this
  rcases this with ⟨_, h1⟩ | ⟨h2, _⟩
  · split at h1 <;> simp at h1 <;> omega
  · simp at h2


/-! ### line table (py/code.go: Addr2Line) -/

/-- **addr2line_monotone.**  For every line table, `Addr2Line` is monotone in the address. -/
theorem addr2line_monotone (c : Code) (a b : Nat) (h : a ≤ b) : addr2line c a ≤ addr2line c b :=
  addr2lineGo_mono c.firstlineno a b h _ _ _

/-- **addr2line_within_source.**  For an accepted code object every address maps to a line
between `Firstlineno` and the last line of the source text. -/
theorem addr2line_within_source (c : Code) (cert : Cert) (h : verify c = .ok cert) (hn : c.nlines ≠ 0) (a : Nat) :
    c.firstlineno ≤ addr2line c a ∧ addr2line c a ≤ c.nlines := by
  have hl := (verify_sound c cert h).1.lnotab
  refine ⟨le_addr2lineGo _ _ _ _ _, ?_⟩
  have := addr2lineGo_le_total c.firstlineno a c.lnotab.toList 0 c.firstlineno
  unfold addr2line
  rcases hl.2.2 with h0 | h1
  · exact absurd h0 hn
  · omega

/-! ### the placement spec (Placement.lean) at the points the seeded change C12-a lives on (tests, by `decide`) -/
example : placementError .func [.whileElse] .cont = some "'continue' not properly in loop" := by decide
example : placementError .func [.whileElse] .brk = some "'break' outside loop" := by decide
example : placementError .func [.forBody, .whileElse] .cont = none := by decide
example : placementError .funcLoop [.tfFinal] .cont = some "'continue' not supported inside 'finally' clause" := by decide
example : placementError .funcLoop [.tfFinal, .whileBody] .cont = none := by decide
example : placementError .funcLoop [.defBody] .brk = some "'break' outside loop" := by decide
example : placementError .func [.classBody] .ret = some "'return' outside function" := by decide
example : placementError .module [.defBody, .withBody] .yld = none := by decide

-- [C12-ext2 g1] begin
/-! ### gpython's `StackDepth()` against the abstract machine (Depth.lean, DepthProofs.lean) -/

/-- **depth_closed_dominates** (the global induction behind `stackdepth_upper_bound`).  For EVERY code
object, every depth assignment `D` (byte offset ↦ depth) that is closed under the edge rules of
gpython's `stackDepthWalk` – entry at offset 0 with depth ≥ 0; fall-through edge with the regenerated
table effect (− 1 for JUMP_IF_*_OR_POP); jump edge with − 2 for FOR_ITER and + 3 for SETUP_EXCEPT /
SETUP_FINALLY; no fall-through after JUMP_ABSOLUTE / JUMP_FORWARD – and bounded by `m`: every state the
abstract machine reaches by ANY execution (induction over `Reach`; instruction edges by
`effect_table_agrees`, unwinding edges by the block invariant `BI`: a loop block's level ≤ the walk's
depth at its handler, a try / with block's level + 6 ≤ it) has depth ≤ `D pc` ≤ `m` – provided no
reachable state has one of the two shapes the table does not describe (`WalkExcluded`: WHY_CONTINUE
pending on the stack, WITH_CLEANUP on an exception). -/
theorem depth_closed_dominates (c : Code) (D : Nat → Option Int) (m : Int) (hcl : DepthClosed c D m)
    (hex : ∀ s, Reach c s → ¬ WalkExcluded c s) :
    ∀ s, Reach c s → ∃ d, D s.pc = some d ∧ (s.stk.length : Int) ≤ d ∧ d ≤ m := by
  intro s hr
  obtain ⟨⟨d, h1, h2⟩, _⟩ := reach_dinv c D m hcl hex s hr
  exact ⟨d, h1, h2, hcl.bound s.pc d h1⟩

/-- **stackdepth_upper_bound (partial).**  For every code object `c` on which both succeed – the
verifier accepts (`verify c = ok cert`) and the model of gpython's `Instructions.StackDepth()` returns
`m` on the instruction stream of `c` (`disasm c`: one label per instruction, jumps as JumpAbs / JumpRel
exactly as `compiler.Jump` builds them) – `m` bounds the stack depth of EVERY state reachable by any
execution of the abstract machine (hence of every state of the certificate that is reachable), PROVIDED
  (1) the depth assignment the walk leaves behind (`walkD`: its `startDepth` map replayed along the
      linear pass) is closed under the walk's own edge rules (`depthClosedB`, decidable; evaluated for
      every emitted code object by the co-process).  It is not when the `seen` pruning ("we are processing
      this block already") cut a back edge that arrives deeper than the block was entered – for compiler
      output: a try / with statement inside a loop, where the table's + 6 for SETUP_EXCEPT / SETUP_FINALLY is
      never given back and the loop's back edge arrives 6 deeper; and
  (2) the certificate predicts no state with WHY_CONTINUE pending on the value stack (`continue` that
      leaves a `finally` / `with`: END_FINALLY re-raises it towards a target that is not an operand of
      any instruction the walk sees there) and no WITH_CLEANUP entered with an exception
      (`effect_table_agrees`'s slack term) – `walkExcludedB`, decidable.
Exclusion (2, WITH_CLEANUP) is necessary: `stackdepth_with_cleanup_witness`.  For (1) and (2, continue) no
violating stream is known; they are the limits of this proof (the walk's result is then sound only
because real cycles have no net effect, which is a global property of the stream). -/
theorem stackdepth_upper_bound_partial (c : Code) (cert : Cert) (hv : verify c = .ok cert) (w : WalkSt)
    (hw : walkOf c = some w)
    (hcl : depthClosedB c (walkD c w) w.maxdepth = true) (hex : walkExcludedB c cert = false) :
    stackDepth (disasm c) = some w.maxdepth ∧
    ∀ s, Reach c s → (s.stk.length : Int) ≤ w.maxdepth := by
  constructor
  · unfold walkOf walkFuel at hw
    unfold stackDepth
    simp only at hw ⊢
    rw [hw]
    rfl
  · intro s hr
    have hin := (verify_sound c cert hv).2
    have hexr : ∀ s, Reach c s → ¬ WalkExcluded c s :=
      fun s hr => not_excluded_of_B c cert hex s.pc (s.stk, s.blk) (hin s hr)
    obtain ⟨d, _, h2, h3⟩ := depth_closed_dominates c _ _ (depthClosed_of_B c _ _ hcl) hexr s hr
    omega

/-- the stream `LOAD_CONST; SETUP_WITH h; RAISE_VARARGS 0; h: WITH_CLEANUP; LOAD_CONST; RAISE_VARARGS 0`
(assembled by the model of `Assemble`) -/
def wcCode : Code :=
  { code := #[100, 0, 0, 143, 3, 0, 130, 0, 0, 81, 100, 0, 0, 130, 0, 0], consts := #[.other], nnames := 0, nvarnames := 0,
    ncells := 0, stacksize := 9, lnotab := #[], firstlineno := 1, nlines := 0, flags := 0 }

set_option maxRecDepth 8000 in
/-- **stackdepth_with_cleanup_witness.**  The unrestricted `stackdepth_upper_bound` is FALSE for
arbitrary instruction streams: on this stream `StackDepth()` returns 8 (SETUP_WITH's 7 above the
context manager), the verifier accepts it with `Stacksize` 9 – and the abstract machine reaches depth 9:
the exception unwinds into the handler with level + 6 = 7 entries, WITH_CLEANUP (table: − 1) leaves
them and pushes WHY_SILENCED when `__exit__` returns true (8), and the LOAD_CONST that follows makes 9.
(The walk's depth assignment is closed here; it is hypothesis (2) that fails.)  The compiler never emits
this – it always puts END_FINALLY after WITH_CLEANUP, which pops down to the handler's level – so no
emitted `Stacksize` is too small because of it (each emitted object's max depth ≤ Stacksize is checked by
the verifier); it is the table row "XXX Sometimes more" that makes the general statement fail. -/
theorem stackdepth_with_cleanup_witness :
    assemble [.oparg .LOAD_CONST 0, .jrel .SETUP_WITH 0 1, .oparg .RAISE_VARARGS 0, .label 1, .op .WITH_CLEANUP,
              .oparg .LOAD_CONST 0, .oparg .RAISE_VARARGS 0] = .ok wcCode.code.toList ∧
    stackDepth [.oparg .LOAD_CONST 0, .jrel .SETUP_WITH 0 1, .oparg .RAISE_VARARGS 0, .label 1, .op .WITH_CLEANUP,
              .oparg .LOAD_CONST 0, .oparg .RAISE_VARARGS 0] = some 8 ∧
    stackDepth (disasm wcCode) = some 8 ∧
    okB (verify wcCode) = true ∧
    Reach wcCode ⟨13, [.obj, .why .silenced, .exc, .obj, .obj, .obj, .obj, .obj, .obj], [⟨.handler, 0, 0⟩]⟩ := by
  refine ⟨by rfl, by decide, by decide, by decide, ?_⟩
  have r0 : Reach wcCode ⟨0, [], []⟩ := .init
  have r1 : Reach wcCode ⟨3, [.obj], []⟩ := .next r0 (by decide)
  have r2 : Reach wcCode ⟨6, [.obj, .obj], [⟨.finally, 9, 1⟩]⟩ := .next r1 (by decide)
  have r3 : Reach wcCode ⟨9, [.exc, .obj, .obj, .obj, .obj, .obj, .obj], [⟨.handler, 0, 1⟩]⟩ := .next r2 (by decide)
  have r4 : Reach wcCode ⟨10, [.why .silenced, .exc, .obj, .obj, .obj, .obj, .obj, .obj], [⟨.handler, 0, 0⟩]⟩ :=
    .next r3 (by decide)
  exact .next r4 (by decide)

/-- non-vacuity of `stackdepth_upper_bound_partial`: all its hypotheses hold for gpython's bytecode of
`if a: b` + implicit return (`decide`; the kernel evaluates the verifier, the walk, the closure check and the
exclusion check).  For loops and the other shapes the hypotheses are EVALUATED by the co-process for every
emitted code object of every run (`depth_closed` / `depth_excluded` in the evidence). -/
def exIf : Code :=
  { code := #[100, 0, 0, 114, 10, 0, 100, 0, 0, 1, 100, 0, 0, 83],
    consts := #[.none], nnames := 0, nvarnames := 0, ncells := 0, stacksize := 1, lnotab := #[], firstlineno := 1, nlines := 0, flags := 64 }

def hypothesesHold (c : Code) (m : Int) : Bool :=
  match verify c, walkOf c with
  | .ok cert, some w => decide (w.maxdepth = m) && depthClosedB c (walkD c w) w.maxdepth && !walkExcludedB c cert
  | _, _ => false

example : hypothesesHold exIf 1 = true := by decide
/-- … and hypothesis (2) fails on the witness stream (its walk is closed) -/
example : hypothesesHold wcCode 8 = false := by decide
-- [C12-ext2 g1] end
-- [C12-ext2 g3] begin
/-! ### dynamic conformance: what an accepted `S` line (two consecutive H2 observations of one frame) establishes -/

/-- **observed_transition_is_step.**  For every code object the verifier accepts and every pair of observations
`o1`, `o2` (pc, depth, kinds, block stack as the harness prints them) that the co-process's transition check
`stepConforms` accepts: there are abstract states `s`, `s'` such that `s` is predicted by the certificate and explains
`o1`, `s'` is an outcome of ONE `step` of the abstract machine from `s` (`next`, or `yield` = suspended and resumed with the
sent value pushed), `s'` explains `o2`, `s'` is again predicted by the certificate, and both are safe states (`SafeAt`:
instruction boundary, depth ≤ Stacksize, no `bad` step).  I.e. the observed pair is an instance of the step relation the
soundness theorem `verify_sound` is about - and conversely (`stepConforms_iff`) every such instance is accepted. -/
theorem observed_transition_is_step (c : Code) (cert : Cert) (h : verify c = .ok cert) (o1 o2 : Obs)
    (hs : stepConforms c cert o1 o2 = true) :
    ∃ s s', (s.stk, s.blk) ∈ cert.at s.pc ∧ Explains s o1 ∧ Continues c s s' ∧ Explains s' o2 ∧
      (s'.stk, s'.blk) ∈ cert.at s'.pc ∧ SafeAt c s ∧ SafeAt c s' := by
  have f := checkFacts (verify_ok_check h)
  obtain ⟨a, ha, he1, s', hc, he2⟩ := (stepConforms_iff c cert o1 o2).1 hs
  have hin' := continues_in_cert f ⟨o1.pc, a.1, a.2⟩ s' ha hc
  exact ⟨⟨o1.pc, a.1, a.2⟩, s', ha, he1, hc, he2, hin', safe_of_in_cert f _ ha, safe_of_in_cert f s' hin'⟩

/-- the hypotheses of `observed_transition_is_step` are satisfiable at a non-trivial point: in `exAccepted` (the bytecode of
`for i in x:` / `try: f(i)` / `finally: g()`) the FOR_ITER at pc 7 observed with the iterator on the stack inside the loop
block, followed by pc 10 with the item pushed (here an int) -/
example : ∃ cert, verify exAccepted = .ok cert ∧
    stepConforms exAccepted cert ⟨7, 1, ["O"], "L:42:0"⟩ ⟨10, 2, ["O", "I5"], "L:42:0"⟩ = true :=
  stepAcceptedAt_spec (by decide)
/-! tests (by `decide`): the other two edges of FOR_ITER (exhausted: jump with the iterator dropped; the SETUP_FINALLY at 13
and the exception edge of the CALL_FUNCTION at 22 into the finally handler at 30 with the six-entry exception shape), and
pairs that are NOT steps are refused (exhausted iterator still on the stack; item not pushed; handler entered with a wrong
block stack) -/
example : stepAcceptedAt exAccepted ⟨7, 1, ["O"], "L:42:0"⟩ ⟨41, 0, [], "L:42:0"⟩ = true := by decide
example : stepAcceptedAt exAccepted ⟨22, 3, ["O", "O", "O"], "L:42:0,F:30:1"⟩ ⟨30, 7, ["O", "N", "N", "N", "O", "O", "E"], "L:42:0,H:0:1"⟩ = true := by decide
example : stepRefusedAt exAccepted ⟨7, 1, ["O"], "L:42:0"⟩ ⟨41, 1, ["O"], "L:42:0"⟩ = true := by decide
example : stepRefusedAt exAccepted ⟨7, 1, ["O"], "L:42:0"⟩ ⟨10, 1, ["O"], "L:42:0"⟩ = true := by decide
example : stepRefusedAt exAccepted ⟨22, 3, ["O", "O", "O"], "L:42:0,F:30:1"⟩ ⟨30, 7, ["O", "N", "N", "N", "O", "O", "E"], "L:42:0,F:30:1"⟩ = true := by decide
-- [C12-ext2 g3] end
-- [C12-ext2 g4] begin
/-! ### `Instructions.Lnotab()` for ARBITRARY streams (line numbers may go down: multi-line expressions, decorators) -/

open GPy.C02 (LInstr LinesSorted posOf tracebackAddr) in
/-- **lnotab_running_max.**  For EVERY instruction stream (any line numbers, also decreasing ones; labels of size 0
anywhere; gaps > 255 in either column): decoding the table `Lnotab()` emits at any byte address inside instruction `k`
gives the running MAXIMUM of the lines of the sized instructions `0..k`, starting from 1 (`old_lineno := 1`).
Generalises C02's `addr2line_lnotab` (which needs `LinesSorted`). -/
theorem lnotab_running_max (is : List LInstr) (k p : Nat) (i : LInstr) (hi : is[k]? = some i) (hsz : 0 < i.size)
    (h1 : posOf is k ≤ p) (h2 : p < posOf is (k + 1)) :
    GPy.C02.addr2line (GPy.C02.lnotab is) 1 p = runMax is 1 k := by
  unfold GPy.C02.addr2line GPy.C02.lnotab
  rw [GPy.C02.lnotabGo_decode _ 0 0 1 p (Nat.le_refl _) (Nat.zero_le _)]
  exact lineAtByte_runMax is 0 1 k p i hi hsz (by omega) (by omega)

example : ([⟨3, 5⟩, ⟨3, 2⟩, ⟨0, 9⟩, ⟨1, 4⟩, ⟨3, 7⟩] : List GPy.C02.LInstr)[3]? = some ⟨1, 4⟩ := by decide
example : GPy.C02.addr2line (GPy.C02.lnotab [⟨3, 5⟩, ⟨3, 2⟩, ⟨0, 9⟩, ⟨1, 4⟩, ⟨3, 7⟩]) 1 6 = 5 ∧
    runMax [⟨3, 5⟩, ⟨3, 2⟩, ⟨0, 9⟩, ⟨1, 4⟩, ⟨3, 7⟩] 1 3 = 5 := by decide

open GPy.C02 (LInstr LinesSorted posOf) in
/-- **lnotab_monotone_own_line.**  Corollary: when the lines of the stream never decrease the decoded line is the
instruction's OWN line (C02's `addr2line_lnotab`, re-derived from the running-max theorem). -/
theorem lnotab_monotone_own_line (is : List LInstr) (k p : Nat) (i : LInstr) (hs : LinesSorted 1 is)
    (hi : is[k]? = some i) (hsz : 0 < i.size) (h1 : posOf is k ≤ p) (h2 : p < posOf is (k + 1)) :
    GPy.C02.addr2line (GPy.C02.lnotab is) 1 p = i.line := by
  rw [lnotab_running_max is k p i hi hsz h1 h2]
  exact runMax_sorted is 1 1 k i hs (Nat.le_refl _) hi hsz

example : GPy.C02.LinesSorted 1 [⟨3, 2⟩, ⟨0, 2⟩, ⟨1, 300⟩] := by simp [GPy.C02.LinesSorted]

/-- **addr2line_models_agree.**  The two transliterations of `py/code.go: Addr2Line` (C12's over the flat byte string of
`Code.Lnotab`, C02's over the list of pairs) agree on every table, address and first line. -/
theorem addr2line_models_agree (c : Code) (tab : List (Nat × Nat)) (h : c.lnotab.toList = flat tab) (q : Nat) :
    addr2line c q = GPy.C02.addr2line tab c.firstlineno q := by
  unfold addr2line GPy.C02.addr2line
  rw [h]
  exact addr2lineGo_flat _ _ _ _ _

example : (withLnotab { code := #[], consts := #[], nnames := 0, nvarnames := 0, ncells := 0, stacksize := 0, lnotab := #[], firstlineno := 1, nlines := 0, flags := 0 } [⟨3, 5⟩, ⟨3, 2⟩]).lnotab.toList = flat (GPy.C02.lnotab [⟨3, 5⟩, ⟨3, 2⟩]) := by decide

open GPy.C02 (LInstr) in
/-- **lnotab_wellformed.**  For EVERY stream the table `Lnotab()` emits satisfies C12's static conditions, exactly:
an even number of bytes, the address increments sum to at most the total code size, and the line increments sum to
(running maximum over the whole stream) − 1; hence `LnotabOk` for the code object carrying it whenever the code holds the
stream's bytes and the maximal line lies within the source. -/
theorem lnotab_wellformed (c : Code) (is : List LInstr) (hsz : totalSize is ≤ c.code.size)
    (hn : c.nlines = 0 ∨ runMax is 1 (is.length - 1) ≤ c.nlines) :
    (lnotabSums (flat (GPy.C02.lnotab is))).1 ≤ totalSize is ∧
    1 + (lnotabSums (flat (GPy.C02.lnotab is))).2 = runMax is 1 (is.length - 1) ∧
    LnotabOk (withLnotab c is) := by
  obtain ⟨h1, h2, h3, _⟩ := lnotabGo_sums is 0 0 1 (Nat.le_refl _)
  have hr := lastRec_runMax is 0 0 1
  have hA : (lnotabSums (flat (GPy.C02.lnotab is))).1 ≤ totalSize is := by
    rw [lnotabSums_flat]; unfold GPy.C02.lnotab; simp only; omega
  have hL : 1 + (lnotabSums (flat (GPy.C02.lnotab is))).2 = runMax is 1 (is.length - 1) := by
    rw [lnotabSums_flat]; unfold GPy.C02.lnotab; simp only; omega
  refine ⟨hA, hL, ?_, ?_, ?_⟩
  · simp only [withLnotab, List.size_toArray, flat_length]; omega
  · simp only [withLnotab, List.toList_toArray]; omega
  · simp only [withLnotab, List.toList_toArray]
    rcases hn with h0 | h0
    · exact Or.inl h0
    · exact Or.inr (by omega)

open GPy.C02 (LInstr posOf tracebackAddr) in
/-- **traceback_line_running_max.**  What a traceback entry names: for EVERY stream, the C12 `addr2line` of the code object
carrying `Lnotab()` of the stream, at the address `AddTraceback` passes (`Lasti - 1`, `Lasti` already advanced past the raising
instruction `k`), is the running maximum of the lines up to `k` – never below the instruction's own line, equal to it when no
earlier instruction has a larger line. -/
theorem traceback_line_running_max (c : Code) (is : List LInstr) (k : Nat) (i : LInstr) (hi : is[k]? = some i) (hsz : 0 < i.size) :
    addr2line (withLnotab c is) (tracebackAddr is k) = runMax is 1 k ∧ i.line ≤ runMax is 1 k := by
  refine ⟨?_, line_le_runMax is 1 k i hi hsz⟩
  rw [addr2line_models_agree (withLnotab c is) (GPy.C02.lnotab is) (by simp [withLnotab])]
  have hp := posOf_succ_of_get is k i hi
  exact lnotab_running_max is k _ i hi hsz (by unfold tracebackAddr; omega) (by unfold tracebackAddr; omega)

/-- non-vacuity: `f(a,\n b)` faulting in the call (line 2), then an instruction of line 1 (decreasing) – still line 2 -/
example : addr2line (withLnotab { code := #[], consts := #[], nnames := 0, nvarnames := 0, ncells := 0, stacksize := 0, lnotab := #[], firstlineno := 1, nlines := 0, flags := 0 } [⟨3, 1⟩, ⟨3, 2⟩, ⟨3, 1⟩, ⟨1, 1⟩]) (GPy.C02.tracebackAddr [⟨3, 1⟩, ⟨3, 2⟩, ⟨3, 1⟩, ⟨1, 1⟩] 2) = 2 := by decide
/-! ### family `tb`: gpython's line assignment names the line Python 3.4 names -/

open Tb in
/-- **tb_model_eq_spec.**  For EVERY compile-event list (visit line / emit instruction) in which each run of consecutive
visits has non-decreasing lines (a node's line is the line of its first token, so a parent is never below its first
child) and every instruction has a positive size: the line gpython reports for the first faulting instruction – raw
`c.Lineno` per instruction (ASSIGNED on each visit, may decrease), `Lnotab()`, `Addr2Line(Lasti-1)` – equals the line
Python 3.4 reports (`u_lineno` only increases: max of the visited lines). -/
theorem tb_model_eq_spec (evs : List Ev) (hok : evsOk evs = true) : modelGo evs 1 = specGo evs 1 :=
  modelGo_eq_specGo evs 1 (Nat.le_refl _) hok (Or.inl (Nat.le_refl _))

open Tb in
/-- **tb_stmt_model_eq_spec.**  For every statement shape of family `tb` passing the decidable side condition `St.ok`
(the generator evaluates it on every case: tag `vok`), model verdict = spec verdict, including the comprehension's own
code object (whose lines start at the comprehension's line). -/
theorem tb_stmt_model_eq_spec (s : Tb.St) (hok : s.ok = true) : s.model = s.spec := by
  cases s with
  | comp l0 lb elt lf iter cond badIter =>
    simp only [St.ok, Bool.and_eq_true, decide_eq_true_eq] at hok
    obtain ⟨⟨hin, hlb⟩, hout⟩ := hok
    have hinner : modelGo (compInner lf elt cond) lb = specGo (compInner lf elt cond) lb :=
      modelGo_eq_specGo _ lb hlb hin (Or.inr (by intro a r h; simp [compInner] at h))
    simp only [St.model, St.spec, hinner]
    exact tb_model_eq_spec _ hout
  | asg l0 e => exact tb_model_eq_spec _ hok
  | ret l0 e => exact tb_model_eq_spec _ hok
  | asrt l0 t m f => exact tb_model_eq_spec _ hok
  | withS l0 a b bad => exact tb_model_eq_spec _ hok
  | deco ds dl d c b => exact tb_model_eq_spec _ hok
  | dflt2 l0 a b => exact tb_model_eq_spec _ hok

/-- non-vacuity: `x = (\n fn( v,\n v,\n boom()))` – and a point where the side condition matters: a visit of line 5
directly followed by a visit of line 2 loses line 5 in gpython's raw stream (no such node order arises from the shapes) -/
example : (Tb.St.asg 29 (.call3 (.nm 30 "fn") (.nm 30 "v") (.nm 31 "v") (.boom 32) false)).ok = true := by decide
example : Tb.modelGo [.visit 5, .visit 2, .emit 3 (Tb.here "X")] 1 = some (2, ⟨[], "X"⟩) ∧
    Tb.specGo [.visit 5, .visit 2, .emit 3 (Tb.here "X")] 1 = some (5, ⟨[], "X"⟩) := by decide
-- [C12-ext2 g4] end
-- [C12-ext2 g2] begin
/-! ### compile_wellformed: "for all programs the compiler accepts" (statement fragment of C02) -/

/-- **compile_wellformed_partial.**  For EVERY function body of the loop-only statement fragment
(`loopOnly`: `pass`, `ev(i)`, `return ev(i)`, `raise C`, bare `raise`, `raise C(k)`, `raise C from D`,
`raise k`, `break`, `continue`, sequencing, `if`/`else`, `while`/`else`, `for`/`else`, nested to any
depth) that the compile model `GPy.C02.compileFn` (the transliteration of `compile/compile.go` that
C02's check ties to the real compiler instruction by instruction) accepts, the byte-level code object
`lower` assembles from the emitted instruction list - with the declared stack size `stackNeed body`
(structural: 2 for the temporaries of a probe call, +1 per enclosing `for`, at least 1) - is
`WellFormed`: every state reachable by ANY execution of the C12 abstract machine (all branch outcomes,
every raise point, any number of loop iterations) is on an instruction boundary inside the code, has
depth ≤ the declared stack size and no `bad` successor (no underflow, no operand outside its table,
POP_BLOCK / BREAK_LOOP always find their loop block, no falling off the end: every path ends in
RETURN_VALUE or an escaping exception); every instruction, reachable or not, has in-range operands
and jump targets on instruction boundaries; the (empty) line table is well-formed.
Proof: a structural invariant `InS` defined by recursion over the statement (which value stack and
block stack the machine has at each instruction index, relative to the statement's entry stack and
enclosing blocks), an environment assumption `Env` for what unwinding return / exception / break /
continue through the enclosing blocks does, closure under `step` by induction over the statement
(`closed`), the decode / linear-sweep lemmas of `lower` (LowerProofs.lean) and the jump-target bound
of `compS` (TargetProofs.lean, proved for the WHOLE C02 fragment incl. try/with).
**Excluded** (hence `_partial`): bodies containing `try/finally`, `try/except`, `with` (constructors
`tryF`, `tryE`, `withS`); operands above 0xFFFF (`lower` fails: EXTENDED_ARG is the assembler's part,
`assemble_fixpoint_sound`); the line table (`lnotab := #[]`); expressions other than the probe calls.
No `_witness`: the excluded constructors are not known to fail, they are not proved yet. -/
theorem compile_wellformed_partial (defLine : Nat) (body : C02.Stmt) (code : C02.Code) (c : Code)
    (hf : loopOnly body = true) (hc : C02.compileFn defLine body = .ok code)
    (hl : lower code (stackNeed body) = some c) : WellFormed c :=
  have h := compile_safe_loopOnly hf hc hl
  ⟨h.2, lower_lnotabOk hl, h.1⟩

/-- a run of such a compiled function can only continue, return, or end with an escaping exception -/
theorem compile_run_ends_properly (defLine : Nat) (body : C02.Stmt) (code : C02.Code) (c : Code)
    (hf : loopOnly body = true) (hc : C02.compileFn defLine body = .ok code)
    (hl : lower code (stackNeed body) = some c) (s : State) (hr : Reach c s) (o : Outcome) (ho : o ∈ step c s) :
    (∃ s', o = .next s') ∨ (∃ s', o = .yield s') ∨ o = .ret ∨ o = .raise := by
  have hs := (compile_wellformed_partial defLine body code c hf hc hl).safe s hr
  cases o with
  | next s' => exact .inl ⟨s', rfl⟩
  | yield s' => exact .inr (.inl ⟨s', rfl⟩)
  | ret => exact .inr (.inr (.inl rfl))
  | raise => exact .inr (.inr (.inr rfl))
  | bad m => exact absurd ho (hs.nobad m)

/-- the jump-target part holds for the whole C02 statement fragment (try/except/finally/with included):
every jump target in the code of an accepted function body is an instruction index inside the code -/
theorem compile_targets_inside (defLine : Nat) (body : C02.Stmt) (code : C02.Code)
    (hc : C02.compileFn defLine body = .ok code) : ∀ p ∈ code, ∀ t ∈ tgtsOf p.1, t < code.length :=
  compileFn_targets hc

/-! non-vacuity: a nested body (for / while / if / break / continue / raise / return) satisfies the
hypotheses; the verifier (independent route) accepts the lowered code of a smaller one (test, `decide`). -/
def exLoopBody : C02.Stmt :=
  .seq (.forS 1 0 (.whileS 2 1 (.ifS 3 2 (.brk 4) (.seq (.ev 5 3) (.cont 5))) (.raise 6 .ValueError)) (.ev 7 4))
       (.seq (.ifS 8 5 (.ret 9 6) .skip) (.pass 10))
example : loopOnly exLoopBody = true := by decide
example : ∃ code c, C02.compileFn 1 exLoopBody = .ok code ∧ lower code (stackNeed exLoopBody) = some c :=
  ⟨_, _, rfl, rfl⟩
example : ∃ c, lowerFn 1 exLoopBody = some c ∧ WellFormed c :=
  ⟨_, rfl, compile_wellformed_partial 1 exLoopBody _ _ (by decide) rfl rfl⟩
set_option maxRecDepth 100000 in
example : (lowerFn 1 (.forS 1 0 (.ifS 2 1 (.brk 3) (.cont 4)) (.ret 5 2))).map (fun c => okB (verify c)) = some true := by
  decide
/-- a body outside the fragment the compile model rejects: `continue` outside a loop -/
example : ∃ e, C02.compileFn 1 (.cont 1) = .error e := ⟨_, rfl⟩
-- [C12-ext2 g2] end

end GPy.C12
