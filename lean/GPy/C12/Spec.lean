/-
C12 specification (core Lean only): what "well-formed and stack-safe on every
path" means for a code object, stated over *all* executions of the abstract
machine (every branch outcome, every raise point, every resumption of a
suspended generator frame, any number of steps).  Independent of the verifier.
-/
import GPy.C12.Model
namespace GPy.C12

/-- every state some execution from pc 0 with an empty stack can be in -/
inductive Reach (c : Code) : State → Prop
  | init : Reach c ⟨0, [], []⟩
  | next {s s' : State} : Reach c s → Outcome.next s' ∈ step c s → Reach c s'
  | resume {s s' : State} : Reach c s → Outcome.yield s' ∈ step c s → Reach c s'

/-- linear sweep over the byte string from `pc`: the offsets of the instructions, if the
whole string decodes exactly to its end -/
def sweep (code : Array Nat) : Nat → Nat → Option (List Nat)
  | 0, pc => if pc = code.size then some [] else none
  | fuel + 1, pc =>
    if pc = code.size then some [] else
    match decodeAt code pc with
    | none => none
    | some i => (sweep code fuel (pc + i.size)).map (pc :: ·)

def instrStarts (code : Array Nat) : Option (List Nat) := sweep code code.size 0

/-- `pc` is an instruction boundary of `c` -/
def IsStart (c : Code) (pc : Nat) : Prop := ∃ l, instrStarts c.code = some l ∧ pc ∈ l

/-- the jump targets an instruction can transfer control to (besides falling through) -/
def jumpTargets (pc : Nat) (i : Instr) : List Nat :=
  match i.op with
  | .JUMP_FORWARD | .FOR_ITER | .SETUP_LOOP | .SETUP_EXCEPT | .SETUP_FINALLY | .SETUP_WITH => [pc + i.size + i.arg]
  | .JUMP_ABSOLUTE | .POP_JUMP_IF_FALSE | .POP_JUMP_IF_TRUE | .JUMP_IF_FALSE_OR_POP | .JUMP_IF_TRUE_OR_POP
  | .CONTINUE_LOOP => [i.arg]
  | _ => []

/-- static well-formedness of the instruction at an instruction boundary -/
def InstrOk (c : Code) (pc : Nat) : Prop :=
  ∃ i, decodeAt c.code pc = some i ∧ operandOk c i.op i.arg = true ∧ ∀ t ∈ jumpTargets pc i, IsStart c t

/-- line table: pairs, addresses stay inside the code, lines stay inside the source -/
def lnotabSums : List Nat → Nat × Nat
  | a :: l :: rest => let (x, y) := lnotabSums rest; (a + x, l + y)
  | _ => (0, 0)

def LnotabOk (c : Code) : Prop :=
  c.lnotab.size % 2 = 0 ∧ (lnotabSums c.lnotab.toList).1 ≤ c.code.size ∧
  (c.nlines = 0 ∨ c.firstlineno + (lnotabSums c.lnotab.toList).2 ≤ c.nlines)

/-- what must hold in every reachable state -/
structure SafeAt (c : Code) (s : State) : Prop where
  start : IsStart c s.pc                       -- on an instruction boundary inside the code
  depth : s.stk.length ≤ c.stacksize           -- never above the declared stack size
  nobad : ∀ m, Outcome.bad m ∉ step c s        -- no underflow, no operand out of its table, no unbalanced
                                               -- block operation, no falling off the end: the step can only
                                               -- continue, suspend (yield), return, or raise

/-- C12 for one code object -/
structure WellFormed (c : Code) : Prop where
  static : ∀ pc, IsStart c pc → InstrOk c pc
  lnotab : LnotabOk c
  safe : ∀ s, Reach c s → SafeAt c s

end GPy.C12
