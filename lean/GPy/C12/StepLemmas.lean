/-
C12 / compile_wellformed: what one step of the C12 machine does at the byte offset of an
index-level instruction of a lowered code object (`Lay` = the layout facts LowerProofs.lean
establishes for `lower`).
-/
import GPy.C12.Compile
set_option linter.unusedSimpArgs false
namespace GPy.C12
open Generated

/-- the layout facts about a lowered code object that the step lemmas need -/
structure Lay (code : C02.Code) (c : Code) : Prop where
  dec : ∀ {k i ln}, code[k]? = some (i, ln) →
    ∃ a, argOf (offL code) k (opOf i).2 = some a ∧
      decodeAt c.code (offL code k) = some ⟨(opOf i).1, a.getD 0, isz i⟩
  succ : ∀ {k i ln}, code[k]? = some (i, ln) → offL code (k + 1) = offL code k + isz i
  consts : c.consts = #[.none, .other]
  nnames : c.nnames = nNames
  nvars : c.nvarnames = nVars

variable {code : C02.Code} {c : Code}

theorem step_eq (L : Lay code c) {k : Nat} {i : C02.Instr} {ln : Nat} (hk : code[k]? = some (i, ln))
    (stk : List Kind) (blk : List Block) :
    ∃ a, argOf (offL code) k (opOf i).2 = some a ∧
      step c ⟨offL code k, stk, blk⟩ =
        (execI c (offL code k) ⟨(opOf i).1, a.getD 0, isz i⟩ stk blk).map finish := by
  obtain ⟨a, ha, hd⟩ := L.dec hk
  exact ⟨a, ha, by simp [step, hd]⟩

theorem globIdx_lt (g : C02.Glob) : globIdx g < nNames := by
  cases g with
  | fn f => cases f <;> decide
  | cls c => cases c <;> decide

theorem varIdx_lt (v : String) : varIdx v < nVars := by
  unfold varIdx nVars; split <;> omega

theorem step_loadGlobal (L : Lay code c) {k ln} {g : C02.Glob} (hk : code[k]? = some (.loadGlobal g, ln))
    (stk : List Kind) (blk : List Block) :
    step c ⟨offL code k, stk, blk⟩ =
      [.next ⟨offL code (k + 1), .obj :: stk, blk⟩, unwind .exception blk stk] := by
  obtain ⟨a, ha, hs⟩ := step_eq L hk stk blk
  simp [opOf, argOf] at ha; subst ha
  rw [hs, L.succ hk]
  simp [execI, operandOk, simpleEff, opOf, isz, finish, L.nnames, globIdx_lt]

theorem step_loadConstInt (L : Lay code c) {k ln} {n : Int} (hk : code[k]? = some (.loadConst (.int n), ln))
    (stk : List Kind) (blk : List Block) :
    step c ⟨offL code k, stk, blk⟩ = [.next ⟨offL code (k + 1), .obj :: stk, blk⟩] := by
  obtain ⟨a, ha, hs⟩ := step_eq L hk stk blk
  simp [opOf, argOf] at ha; subst ha
  rw [hs, L.succ hk]
  simp [execI, operandOk, simpleEff, opOf, isz, finish, L.consts, constIdx, constKind]

theorem step_loadConstNone (L : Lay code c) {k ln} (hk : code[k]? = some (.loadConst .none, ln))
    (stk : List Kind) (blk : List Block) :
    step c ⟨offL code k, stk, blk⟩ = [.next ⟨offL code (k + 1), .none :: stk, blk⟩] := by
  obtain ⟨a, ha, hs⟩ := step_eq L hk stk blk
  simp [opOf, argOf] at ha; subst ha
  rw [hs, L.succ hk]
  simp [execI, operandOk, simpleEff, opOf, isz, finish, L.consts, constIdx, constKind]

theorem step_call1 (L : Lay code c) {k ln} (hk : code[k]? = some (.callFunction 1, ln))
    (x y : Kind) (stk : List Kind) (blk : List Block) :
    step c ⟨offL code k, x :: y :: stk, blk⟩ =
      [.next ⟨offL code (k + 1), .obj :: stk, blk⟩, unwind .exception blk stk] := by
  obtain ⟨a, ha, hs⟩ := step_eq L hk (x :: y :: stk) blk
  simp [opOf, argOf] at ha; subst ha
  rw [hs, L.succ hk]
  have : callArgs 1 = 1 := by decide
  have h2 : ¬ (stk.length + 1 + 1 < 2) := by omega
  simp [execI, operandOk, simpleEff, opOf, isz, finish, this, h2]

theorem step_popTop (L : Lay code c) {k ln} (hk : code[k]? = some (.popTop, ln))
    (x : Kind) (stk : List Kind) (blk : List Block) :
    step c ⟨offL code k, x :: stk, blk⟩ = [.next ⟨offL code (k + 1), stk, blk⟩] := by
  obtain ⟨a, ha, hs⟩ := step_eq L hk (x :: stk) blk
  simp [opOf, argOf] at ha; subst ha
  rw [hs, L.succ hk]
  simp [execI, operandOk, simpleEff, opOf, isz, finish]

theorem step_storeFast (L : Lay code c) {k ln v} (hk : code[k]? = some (.storeFast v, ln))
    (x : Kind) (stk : List Kind) (blk : List Block) :
    step c ⟨offL code k, x :: stk, blk⟩ = [.next ⟨offL code (k + 1), stk, blk⟩] := by
  obtain ⟨a, ha, hs⟩ := step_eq L hk (x :: stk) blk
  simp [opOf, argOf] at ha; subst ha
  rw [hs, L.succ hk]
  simp [execI, operandOk, simpleEff, opOf, isz, finish, L.nvars, varIdx_lt]

theorem step_getIter (L : Lay code c) {k ln} (hk : code[k]? = some (.getIter, ln))
    (x : Kind) (stk : List Kind) (blk : List Block) :
    step c ⟨offL code k, x :: stk, blk⟩ =
      [.next ⟨offL code (k + 1), .obj :: stk, blk⟩, unwind .exception blk (x :: stk)] := by
  obtain ⟨a, ha, hs⟩ := step_eq L hk (x :: stk) blk
  simp [opOf, argOf] at ha; subst ha
  rw [hs, L.succ hk]
  simp [execI, operandOk, simpleEff, opOf, isz, finish]

theorem step_popJumpIfFalse (L : Lay code c) {k ln t} (hk : code[k]? = some (.popJumpIfFalse t, ln))
    (x : Kind) (stk : List Kind) (blk : List Block) :
    step c ⟨offL code k, x :: stk, blk⟩ =
      [.next ⟨offL code (k + 1), stk, blk⟩, .next ⟨offL code t, stk, blk⟩, unwind .exception blk stk] := by
  obtain ⟨a, ha, hs⟩ := step_eq L hk (x :: stk) blk
  simp [opOf, argOf] at ha; subst ha
  rw [hs, L.succ hk]
  simp [execI, operandOk, simpleEff, execSpecial, opOf, isz, finish]

theorem step_jumpAbsolute (L : Lay code c) {k ln t} (hk : code[k]? = some (.jumpAbsolute t, ln))
    (stk : List Kind) (blk : List Block) :
    step c ⟨offL code k, stk, blk⟩ = [.next ⟨offL code t, stk, blk⟩] := by
  obtain ⟨a, ha, hs⟩ := step_eq L hk stk blk
  simp [opOf, argOf] at ha; subst ha
  rw [hs]
  simp [execI, operandOk, simpleEff, execSpecial, opOf, finish]

theorem step_continueLoop (L : Lay code c) {k ln t} (hk : code[k]? = some (.continueLoop t, ln))
    (stk : List Kind) (blk : List Block) :
    step c ⟨offL code k, stk, blk⟩ = [unwind (.cont (offL code t)) blk stk] := by
  obtain ⟨a, ha, hs⟩ := step_eq L hk stk blk
  simp [opOf, argOf] at ha; subst ha
  rw [hs]
  simp [execI, operandOk, simpleEff, execSpecial, opOf, finish]

theorem step_jumpForward (L : Lay code c) {k ln t} (hk : code[k]? = some (.jumpForward t, ln))
    (stk : List Kind) (blk : List Block) :
    step c ⟨offL code k, stk, blk⟩ = [.next ⟨offL code t, stk, blk⟩] := by
  obtain ⟨a, ha, hs⟩ := step_eq L hk stk blk
  simp only [opOf, argOf] at ha
  split at ha
  · rename_i hle
    simp at ha; subst ha
    have h1 := L.succ hk
    have h3 : isz (.jumpForward t) = 3 := rfl
    have : offL code k + 3 + (offL code t - offL code (k + 1)) = offL code t := by omega
    rw [hs]
    simp [execI, operandOk, simpleEff, execSpecial, opOf, isz, finish, this]
  · simp at ha

theorem step_setupLoop (L : Lay code c) {k ln t} (hk : code[k]? = some (.setupLoop t, ln))
    (stk : List Kind) (blk : List Block) :
    step c ⟨offL code k, stk, blk⟩ =
      [.next ⟨offL code (k + 1), stk, ⟨.loop, offL code t, stk.length⟩ :: blk⟩] := by
  obtain ⟨a, ha, hs⟩ := step_eq L hk stk blk
  simp only [opOf, argOf] at ha
  split at ha
  · rename_i hle
    simp at ha; subst ha
    have h1 := L.succ hk
    have h3 : isz (.setupLoop t) = 3 := rfl
    have : offL code k + 3 + (offL code t - offL code (k + 1)) = offL code t := by omega
    have h4 : offL code k + 3 = offL code (k + 1) := by omega
    rw [hs]
    simp [execI, operandOk, simpleEff, execSpecial, opOf, isz, finish, h4]
    omega
  · simp at ha

theorem step_forIter (L : Lay code c) {k ln t} (hk : code[k]? = some (.forIter t, ln))
    (x : Kind) (stk : List Kind) (blk : List Block) :
    step c ⟨offL code k, x :: stk, blk⟩ =
      [.next ⟨offL code (k + 1), .obj :: x :: stk, blk⟩, .next ⟨offL code t, stk, blk⟩,
       unwind .exception blk (x :: stk)] := by
  obtain ⟨a, ha, hs⟩ := step_eq L hk (x :: stk) blk
  simp only [opOf, argOf] at ha
  split at ha
  · rename_i hle
    simp at ha; subst ha
    have h1 := L.succ hk
    have h3 : isz (.forIter t) = 3 := rfl
    have : offL code k + 3 + (offL code t - offL code (k + 1)) = offL code t := by omega
    have h4 : offL code k + 3 = offL code (k + 1) := by omega
    rw [hs]
    simp [execI, operandOk, simpleEff, execSpecial, opOf, isz, finish, h4]
    omega
  · simp at ha

theorem step_popBlock (L : Lay code c) {k ln} (hk : code[k]? = some (.popBlock, ln))
    (stk : List Kind) (b : Block) (blk : List Block) :
    step c ⟨offL code k, stk, b :: blk⟩ = [.next ⟨offL code (k + 1), stk, blk⟩] := by
  obtain ⟨a, ha, hs⟩ := step_eq L hk stk (b :: blk)
  simp [opOf, argOf] at ha; subst ha
  rw [hs, L.succ hk]
  simp [execI, operandOk, simpleEff, execSpecial, opOf, isz, finish]

theorem step_breakLoop (L : Lay code c) {k ln} (hk : code[k]? = some (.breakLoop, ln))
    (stk : List Kind) (blk : List Block) :
    step c ⟨offL code k, stk, blk⟩ = [unwind .brk blk stk] := by
  obtain ⟨a, ha, hs⟩ := step_eq L hk stk blk
  simp [opOf, argOf] at ha; subst ha
  rw [hs]
  simp [execI, operandOk, simpleEff, execSpecial, opOf, finish]

theorem step_returnValue (L : Lay code c) {k ln} (hk : code[k]? = some (.returnValue, ln))
    (x : Kind) (stk : List Kind) (blk : List Block) :
    step c ⟨offL code k, x :: stk, blk⟩ = [unwind .ret blk stk] := by
  obtain ⟨a, ha, hs⟩ := step_eq L hk (x :: stk) blk
  simp [opOf, argOf] at ha; subst ha
  rw [hs]
  simp [execI, operandOk, simpleEff, execSpecial, opOf, finish]

theorem step_raise0 (L : Lay code c) {k ln} (hk : code[k]? = some (.raiseVarargs 0, ln))
    (stk : List Kind) (blk : List Block) :
    step c ⟨offL code k, stk, blk⟩ = [unwind .exception blk stk] := by
  obtain ⟨a, ha, hs⟩ := step_eq L hk stk blk
  simp [opOf, argOf] at ha; subst ha
  rw [hs]
  simp [execI, operandOk, simpleEff, execSpecial, opOf, finish]

theorem step_raise1 (L : Lay code c) {k ln} (hk : code[k]? = some (.raiseVarargs 1, ln))
    (x : Kind) (stk : List Kind) (blk : List Block) :
    step c ⟨offL code k, x :: stk, blk⟩ = [unwind .exception blk stk] := by
  obtain ⟨a, ha, hs⟩ := step_eq L hk (x :: stk) blk
  simp [opOf, argOf] at ha; subst ha
  rw [hs]
  simp [execI, operandOk, simpleEff, execSpecial, opOf, finish]

theorem step_raise2 (L : Lay code c) {k ln} (hk : code[k]? = some (.raiseVarargs 2, ln))
    (x y : Kind) (stk : List Kind) (blk : List Block) :
    step c ⟨offL code k, x :: y :: stk, blk⟩ = [unwind .exception blk stk] := by
  obtain ⟨a, ha, hs⟩ := step_eq L hk (x :: y :: stk) blk
  simp [opOf, argOf] at ha; subst ha
  rw [hs]
  have h2 : ¬ (stk.length + 1 + 1 < 2) := by omega
  simp [execI, operandOk, simpleEff, execSpecial, opOf, finish, h2]

/-! ### unwinding through loop blocks -/

theorem unwindBlock_suffix (u S : List Kind) :
    (if (u ++ S).length > S.length then truncate (u ++ S) S.length else u ++ S) = S := by
  split
  · simp [truncate]
  · rename_i h
    simp only [List.length_append] at h
    have : u = [] := List.eq_nil_of_length_eq_zero (by omega)
    simp [this]

theorem unwind_loop_ret (h l : Nat) (bs : List Block) (stk : List Kind) :
    unwind .ret (⟨.loop, h, l⟩ :: bs) stk =
      unwind .ret bs (if stk.length > l then truncate stk l else stk) := by
  simp [unwind]

theorem unwind_loop_exc (h l : Nat) (bs : List Block) (stk : List Kind) :
    unwind .exception (⟨.loop, h, l⟩ :: bs) stk =
      unwind .exception bs (if stk.length > l then truncate stk l else stk) := by
  simp [unwind]

theorem unwind_loop_brk (h l : Nat) (bs : List Block) (stk : List Kind) :
    unwind .brk (⟨.loop, h, l⟩ :: bs) stk =
      .next ⟨h, if stk.length > l then truncate stk l else stk, bs⟩ := by
  simp [unwind]

theorem unwind_loop_cont (t h l : Nat) (bs : List Block) (stk : List Kind) :
    unwind (.cont t) (⟨.loop, h, l⟩ :: bs) stk = .next ⟨t, stk, ⟨.loop, h, l⟩ :: bs⟩ := by
  simp [unwind]

end GPy.C12
