import GPy.C12.CompLen
namespace GPy.C12
open GPy.C02

/-! ### lengths (copied from C02/Sim.lean) -/


/-! ### target bounds -/

/-- the loop starts recorded in the compile-time loop stack -/
def ctxStarts : Ctx → List Nat
  | [] => []
  | .loop s :: r => s :: ctxStarts r
  | _ :: r => ctxStarts r

/-- every target of the code is `≤ B` -/
def TB (c : C02.Code) (B : Nat) : Prop := ∀ p ∈ c, ∀ t ∈ tgtsOf p.1, t ≤ B

/-- every target of the code is `< B` -/
def TS (c : C02.Code) (B : Nat) : Prop := ∀ p ∈ c, ∀ t ∈ tgtsOf p.1, t < B

theorem TB_nil (B : Nat) : TB [] B := by intro p hp; cases hp

theorem TB_cons (p : C02.Instr × Nat) (c : C02.Code) (B : Nat) :
    TB (p :: c) B ↔ (∀ t ∈ tgtsOf p.1, t ≤ B) ∧ TB c B := by
  simp [TB]

theorem TB_append (a b : C02.Code) (B : Nat) : TB (a ++ b) B ↔ TB a B ∧ TB b B := by
  simp only [TB, List.mem_append]
  constructor
  · intro h; exact ⟨fun p hp => h p (Or.inl hp), fun p hp => h p (Or.inr hp)⟩
  · rintro ⟨h1, h2⟩ p (hp | hp)
    · exact h1 p hp
    · exact h2 p hp

theorem TB_mono {c : C02.Code} {B B' : Nat} (h : TB c B) (hle : B ≤ B') : TB c B' :=
  fun p hp t ht => Nat.le_trans (h p hp t ht) hle

theorem TS_nil (B : Nat) : TS [] B := by intro p hp; cases hp

theorem TS_cons (p : C02.Instr × Nat) (c : C02.Code) (B : Nat) :
    TS (p :: c) B ↔ (∀ t ∈ tgtsOf p.1, t < B) ∧ TS c B := by
  simp [TS]

theorem TS_append (a b : C02.Code) (B : Nat) : TS (a ++ b) B ↔ TS a B ∧ TS b B := by
  simp only [TS, List.mem_append]
  constructor
  · intro h; exact ⟨fun p hp => h p (Or.inl hp), fun p hp => h p (Or.inr hp)⟩
  · rintro ⟨h1, h2⟩ p (hp | hp)
    · exact h1 p hp
    · exact h2 p hp

theorem TB_to_TS {c : C02.Code} {B B' : Nat} (h : TB c B) (hlt : B < B') : TS c B' :=
  fun p hp t ht => Nat.lt_of_le_of_lt (h p hp t ht) hlt

theorem TS_to_TB {c : C02.Code} {B B' : Nat} (h : TS c B) (hle : B ≤ B') : TB c B' :=
  fun p hp t ht => Nat.le_trans (Nat.le_of_lt (h p hp t ht)) hle

theorem orElse_none {α : Type} (a b : Option α) :
    (a.orElse fun _ => b) = none ↔ a = none ∧ b = none := by
  cases a <;> simp [Option.orElse]

theorem findLoop_mem : ∀ (ctx : Ctx) (s : Nat), findLoop ctx = some s → s ∈ ctxStarts ctx := by
  intro ctx
  induction ctx with
  | nil => intro s h; simp [findLoop] at h
  | cons l r ih =>
    intro s h
    cases l with
    | loop st => simp [findLoop] at h; simp [ctxStarts, h]
    | except => simp [findLoop] at h; simpa [ctxStarts] using ih s h
    | finallyTry => simp [findLoop] at h; simpa [ctxStarts] using ih s h
    | finallyEnd => simp [findLoop] at h

theorem contInstr_tgts (ctx : Ctx) (i : C02.Instr) (h : contInstr ctx = some i) :
    ∀ t ∈ tgtsOf i, t ∈ ctxStarts ctx := by
  cases ctx with
  | nil => simp [contInstr] at h
  | cons l r =>
    cases l with
    | loop st =>
      simp [contInstr] at h; subst h
      intro t ht; simp [tgtsOf, opOf] at ht; simp [ctxStarts, ht]
    | except =>
      simp [contInstr] at h
      obtain ⟨s, hs, rfl⟩ := h
      intro t ht; simp [tgtsOf, opOf] at ht; subst ht
      simpa [ctxStarts] using findLoop_mem r _ hs
    | finallyTry =>
      simp [contInstr] at h
      obtain ⟨s, hs, rfl⟩ := h
      intro t ht; simp [tgtsOf, opOf] at ht; subst ht
      simpa [ctxStarts] using findLoop_mem r _ hs
    | finallyEnd => simp [contInstr] at h

theorem starts_mono {ctx : Ctx} {pc pc' : Nat} (h : ∀ st ∈ ctxStarts ctx, st < pc) (hle : pc ≤ pc') :
    ∀ st ∈ ctxStarts ctx, st < pc' := fun st hst => Nat.lt_of_lt_of_le (h st hst) hle

theorem starts_loop {ctx : Ctx} {pc s pc' : Nat} (h : ∀ st ∈ ctxStarts ctx, st < pc) (hs : s < pc')
    (hle : pc ≤ pc') : ∀ st ∈ ctxStarts (.loop s :: ctx), st < pc' := by
  intro st hst
  simp only [ctxStarts, List.mem_cons] at hst
  rcases hst with rfl | hst
  · exact hs
  · exact Nat.lt_of_lt_of_le (h st hst) hle

theorem handlerBodyOff_le (m : Matcher) (n : Nat) : handlerBodyOff m + n ≤ handlerLen m n := by
  simp only [handlerBodyOff, handlerLen]
  by_cases h : m.named <;> simp [h] <;> omega

theorem classesExpr_TB (m : Matcher) (B : Nat) : TB (classesExpr m) B := by
  intro p hp t ht
  unfold classesExpr at hp
  split at hp
  · simp at hp; subst hp; simp [tgtsOf, opOf] at ht
  · simp only [List.mem_append, List.mem_map, List.mem_singleton] at hp
    rcases hp with ⟨c, _, rfl⟩ | rfl <;> simp [tgtsOf, opOf] at ht

theorem compHandler_TB (m : Matcher) (pc cur : Nat) (body : C02.Code) (bl endL B : Nat)
    (hb : TB body B) (hn : pc + handlerLen m body.length ≤ B) (he : endL ≤ B) :
    TB (compHandler m pc cur body bl endL) B := by
  have hc := classesExpr_TB m B
  unfold compHandler
  by_cases hnm : m.named
  · have : pc + handlerBodyOff m + body.length + 3 ≤ B := by
      simp only [handlerLen, handlerBodyOff, hnm, if_true] at hn ⊢; omega
    simp [hnm, TB_append, TB_cons, TB_nil, tgtsOf, opOf, hc, hb]
    omega
  · simp [hnm, TB_append, TB_cons, TB_nil, tgtsOf, opOf, hc, hb]
    omega

theorem compS_TB : ∀ (s : Stmt) (ctx : Ctx) (pc cur : Nat),
    (∀ st ∈ ctxStarts ctx, st < pc) → compErr ctx pc s = none →
    TB (compS ctx pc cur s) (pc + len s) := by
  intro s
  induction s with
  | skip => intro ctx pc cur _ _; simp [compS, TB_nil]
  | pass => intro ctx pc cur _ _; simp [compS, TB_nil]
  | ev => intro ctx pc cur _ _; simp [compS, callProbe, TB_cons, TB_nil, tgtsOf, opOf]
  | ret => intro ctx pc cur _ _; simp [compS, callProbe, TB_cons, TB_nil, tgtsOf, opOf]
  | yieldS => intro ctx pc cur _ _; simp [compS, callProbe, TB_cons, TB_nil, tgtsOf, opOf]
  | raise => intro ctx pc cur _ _; simp [compS, TB_cons, TB_nil, tgtsOf, opOf]
  | reraise => intro ctx pc cur _ _; simp [compS, TB_cons, TB_nil, tgtsOf, opOf]
  | raiseX ln fm =>
    intro ctx pc cur _ _
    cases fm <;> simp [compS, TB_cons, TB_nil, tgtsOf, opOf]
  | brk => intro ctx pc cur _ _; simp [compS, TB_cons, TB_nil, tgtsOf, opOf]
  | cont ln =>
    intro ctx pc cur hctx herr
    unfold compErr at herr
    unfold compS
    cases hci : contInstr ctx with
    | none => simp [hci] at herr
    | some i =>
      simp only [TB_cons]
      refine ⟨?_, TB_nil _⟩
      intro t ht
      have := hctx t (contInstr_tgts ctx i hci t ht)
      omega
  | seq a b iha ihb =>
    intro ctx pc cur hctx herr
    simp only [compErr, orElse_none] at herr
    have ha := iha ctx pc cur hctx herr.1
    have hb := ihb ctx (pc + len a) (endLine cur a) (starts_mono hctx (by omega)) herr.2
    simp only [compS, TB_append, len]
    exact ⟨TB_mono ha (by omega), TB_mono hb (by omega)⟩
  | ifS ln i b o ihb iho =>
    intro ctx pc cur hctx herr
    simp only [compErr, orElse_none] at herr
    have hb := ihb ctx (pc + 4) ln (starts_mono hctx (by omega)) herr.1
    have ho := iho ctx (pc + 4 + len b + 1) (endLine ln b) (starts_mono hctx (by omega)) herr.2
    have hb' : TB (compS ctx (pc + 4) ln b) (pc + len (.ifS ln i b o)) :=
      TB_mono hb (by simp only [len]; omega)
    have ho' : TB (compS ctx (pc + 4 + len b + 1) (endLine ln b) o) (pc + len (.ifS ln i b o)) :=
      TB_mono ho (by simp only [len]; omega)
    simp only [compS, callProbe, TB_append, TB_cons, tgtsOf, opOf]
    simp [hb', ho', TB_nil]
    simp only [len]; omega
  | whileS ln i b o ihb iho =>
    intro ctx pc cur hctx herr
    simp only [compErr, orElse_none] at herr
    have hb := ihb (.loop (pc + 1) :: ctx) (pc + 5) ln
      (starts_loop hctx (by omega) (by omega)) herr.1
    have ho := iho ctx (pc + 5 + len b + 1 + 1) (endLine ln b) (starts_mono hctx (by omega)) herr.2
    have hb' : TB (compS (.loop (pc + 1) :: ctx) (pc + 5) ln b) (pc + len (.whileS ln i b o)) :=
      TB_mono hb (by simp only [len]; omega)
    have ho' : TB (compS ctx (pc + 5 + len b + 1 + 1) (endLine ln b) o) (pc + len (.whileS ln i b o)) :=
      TB_mono ho (by simp only [len]; omega)
    simp only [compS, callProbe, TB_append, TB_cons, tgtsOf, opOf]
    simp [hb', ho', TB_nil]
    simp only [len]; omega
  | forS ln i b o ihb iho =>
    intro ctx pc cur hctx herr
    simp only [compErr, orElse_none] at herr
    have hb := ihb (.loop (pc + 5) :: ctx) (pc + 7) ln
      (starts_loop hctx (by omega) (by omega)) herr.1
    have ho := iho ctx (pc + 7 + len b + 1 + 1) (endLine ln b) (starts_mono hctx (by omega)) herr.2
    have hb' : TB (compS (.loop (pc + 5) :: ctx) (pc + 7) ln b) (pc + len (.forS ln i b o)) :=
      TB_mono hb (by simp only [len]; omega)
    have ho' : TB (compS ctx (pc + 7 + len b + 1 + 1) (endLine ln b) o) (pc + len (.forS ln i b o)) :=
      TB_mono ho (by simp only [len]; omega)
    simp only [compS, callProbe, TB_append, TB_cons, tgtsOf, opOf]
    simp [hb', ho', TB_nil]
    simp only [len]; omega
  | tryF ln b f ihb ihf =>
    intro ctx pc cur hctx herr
    simp only [compErr, orElse_none] at herr
    have hb := ihb (.finallyTry :: ctx) (pc + 1) ln
      (by simpa [ctxStarts] using starts_mono hctx (by omega)) herr.1
    have hf := ihf (.finallyEnd :: ctx) (pc + 1 + len b + 2) (endLine ln b)
      (by simpa [ctxStarts] using starts_mono hctx (by omega)) herr.2
    have hb' : TB (compS (.finallyTry :: ctx) (pc + 1) ln b) (pc + len (.tryF ln b f)) :=
      TB_mono hb (by simp only [len]; omega)
    have hf' : TB (compS (.finallyEnd :: ctx) (pc + 1 + len b + 2) (endLine ln b) f)
        (pc + len (.tryF ln b f)) :=
      TB_mono hf (by simp only [len]; omega)
    simp only [compS, TB_append, TB_cons, tgtsOf, opOf]
    simp [hb', hf', TB_nil]
    simp only [len]; omega
  | tryE ln b m1 h1 m2 h2 o ihb ih1 ih2 iho =>
    intro ctx pc cur hctx herr
    have hex : ∀ pc', pc ≤ pc' → ∀ st ∈ ctxStarts (Loop.except :: ctx), st < pc' := by
      intro pc' hle
      simpa [ctxStarts] using starts_mono hctx hle
    cases m2 with
    | none =>
      simp only [compErr, orElse_none] at herr
      obtain ⟨eb, e1, -, eo⟩ := herr
      have hb := ihb _ (pc + 1) ln (hex _ (by omega)) eb
      have hh1 := ih1 _ (pc + 1 + len b + 2 + handlerBodyOff m1) m1.ln (hex _ (by omega)) e1
      have ho := iho _ (pc + 1 + len b + 2 + handlerLen m1 (len h1) + 0 + 1) (endLine m1.ln h1)
        (hex _ (by omega)) eo
      have hoff : handlerBodyOff m1 + len h1 ≤ handlerLen m1 (len h1) := by
        exact handlerBodyOff_le _ _
      have hH := compHandler_TB m1 (pc + 1 + len b + 2) (endLine ln b)
        (compS (Loop.except :: ctx) (pc + 1 + len b + 2 + handlerBodyOff m1) m1.ln h1)
        (endLine m1.ln h1) (pc + 1 + len b + 2 + handlerLen m1 (len h1) + 0 + 1 + len o)
        (pc + len (.tryE ln b m1 h1 none h2 o))
        (TB_mono hh1 (by simp only [len]; omega))
        (by simp only [compS_length, len]; omega) (by simp only [len]; omega)
      have hb' := TB_mono hb (show pc + 1 + len b ≤ pc + len (.tryE ln b m1 h1 none h2 o) by
        simp only [len]; omega)
      have ho' := TB_mono ho (show _ ≤ pc + len (.tryE ln b m1 h1 none h2 o) by
        simp only [len]; omega)
      simp only [compS, TB_append, TB_cons, tgtsOf, opOf]
      simp [hb', ho', hH, TB_nil]
      simp only [len]; omega
    | some m =>
      simp only [compErr, orElse_none] at herr
      obtain ⟨eb, e1, e2, eo⟩ := herr
      have hb := ihb _ (pc + 1) ln (hex _ (by omega)) eb
      have hh1 := ih1 _ (pc + 1 + len b + 2 + handlerBodyOff m1) m1.ln (hex _ (by omega)) e1
      have hh2 := ih2 _ (pc + 1 + len b + 2 + handlerLen m1 (len h1) + handlerBodyOff m) m.ln
        (hex _ (by omega)) e2
      have ho := iho _ (pc + 1 + len b + 2 + handlerLen m1 (len h1) + handlerLen m (len h2) + 1)
        (endLine m.ln h2) (hex _ (by omega)) eo
      have hoff1 : handlerBodyOff m1 + len h1 ≤ handlerLen m1 (len h1) := by
        exact handlerBodyOff_le _ _
      have hoff2 : handlerBodyOff m + len h2 ≤ handlerLen m (len h2) := by
        exact handlerBodyOff_le _ _
      have hH1 := compHandler_TB m1 (pc + 1 + len b + 2) (endLine ln b)
        (compS (Loop.except :: ctx) (pc + 1 + len b + 2 + handlerBodyOff m1) m1.ln h1)
        (endLine m1.ln h1)
        (pc + 1 + len b + 2 + handlerLen m1 (len h1) + handlerLen m (len h2) + 1 + len o)
        (pc + len (.tryE ln b m1 h1 (some m) h2 o))
        (TB_mono hh1 (by simp only [len]; omega))
        (by simp only [compS_length, len]; omega) (by simp only [len]; omega)
      have hH2 := compHandler_TB m (pc + 1 + len b + 2 + handlerLen m1 (len h1)) (endLine m1.ln h1)
        (compS (Loop.except :: ctx)
          (pc + 1 + len b + 2 + handlerLen m1 (len h1) + handlerBodyOff m) m.ln h2)
        (endLine m.ln h2)
        (pc + 1 + len b + 2 + handlerLen m1 (len h1) + handlerLen m (len h2) + 1 + len o)
        (pc + len (.tryE ln b m1 h1 (some m) h2 o))
        (TB_mono hh2 (by simp only [len]; omega))
        (by simp only [compS_length, len]; omega) (by simp only [len]; omega)
      have hb' := TB_mono hb (show pc + 1 + len b ≤ pc + len (.tryE ln b m1 h1 (some m) h2 o) by
        simp only [len]; omega)
      have ho' := TB_mono ho (show _ ≤ pc + len (.tryE ln b m1 h1 (some m) h2 o) by
        simp only [len]; omega)
      simp only [compS, TB_append, TB_cons, tgtsOf, opOf]
      simp [hb', ho', hH1, hH2, TB_nil]
      simp only [len]; omega
  | withS ln i b ihb =>
    intro ctx pc cur hctx herr
    simp only [compErr] at herr
    have hb := ihb (.finallyTry :: ctx) (pc + 5) ln
      (by simpa [ctxStarts] using starts_mono hctx (by omega)) herr
    have hb' : TB (compS (.finallyTry :: ctx) (pc + 5) ln b) (pc + len (.withS ln i b)) :=
      TB_mono hb (by simp only [len]; omega)
    simp only [compS, callProbe, TB_append, TB_cons, tgtsOf, opOf]
    simp [hb', TB_nil]
    simp only [len]; omega

/-- all targets inside a statement's code are ≤ the index just behind it -/
theorem compS_targets : ∀ (s : Stmt) (ctx : Ctx) (pc cur : Nat),
    (∀ st ∈ ctxStarts ctx, st < pc) → compErr ctx pc s = none →
    ∀ p ∈ compS ctx pc cur s, ∀ t ∈ tgtsOf p.1, t ≤ pc + len s :=
  fun s ctx pc cur h1 h2 => compS_TB s ctx pc cur h1 h2

theorem compS_targets_loopOnly : ∀ (s : Stmt) (ctx : Ctx) (pc cur : Nat), loopOnly s = true →
    (∀ st ∈ ctxStarts ctx, st < pc) → compErr ctx pc s = none →
    ∀ p ∈ compS ctx pc cur s, ∀ t ∈ tgtsOf p.1, t ≤ pc + len s :=
  fun s ctx pc cur _ h1 h2 => compS_TB s ctx pc cur h1 h2

/-! ### strict bound for a function body -/

theorem len_zero_endsRet : ∀ s p, len s = 0 → endsRet p s = p := by
  intro s
  induction s with
  | skip => intro p _; rfl
  | pass => intro p _; rfl
  | seq a b iha ihb =>
    intro p h
    simp only [len] at h
    simp only [endsRet]
    rw [iha p (by omega), ihb p (by omega)]
  | raiseX ln f => intro p h; cases f <;> simp [len, RaiseForm.len] at h
  | _ => intro p h; simp only [len] at h; omega

theorem compS_nil_of_len_zero (s : Stmt) (ctx : Ctx) (pc cur : Nat) (h : len s = 0) :
    compS ctx pc cur s = [] :=
  List.eq_nil_of_length_eq_zero (by rw [compS_length]; exact h)

theorem endsRet_TS : ∀ (s : Stmt) (prev : Bool) (ctx : Ctx) (pc cur : Nat),
    (∀ st ∈ ctxStarts ctx, st < pc) → compErr ctx pc s = none → endsRet prev s = true →
    (prev = true ∧ len s = 0) ∨ TS (compS ctx pc cur s) (pc + len s) := by
  intro s
  induction s with
  | skip => intro prev ctx pc cur _ _ h; exact Or.inl ⟨by simpa [endsRet] using h, rfl⟩
  | pass => intro prev ctx pc cur _ _ h; exact Or.inl ⟨by simpa [endsRet] using h, rfl⟩
  | ret =>
    intro prev ctx pc cur _ _ _
    right
    simp [compS, callProbe, TS_cons, TS_nil, tgtsOf, opOf]
  | seq a b iha ihb =>
    intro prev ctx pc cur hctx herr h
    simp only [compErr, orElse_none] at herr
    simp only [endsRet] at h
    by_cases hb0 : len b = 0
    · rw [len_zero_endsRet b _ hb0] at h
      rcases iha prev ctx pc cur hctx herr.1 h with ⟨hp, ha0⟩ | hTS
      · left; exact ⟨hp, by simp only [len]; omega⟩
      · right
        simp only [compS, compS_nil_of_len_zero b _ _ _ hb0, List.append_nil, len, hb0, Nat.add_zero]
        exact hTS
    · right
      have hctx' : ∀ st ∈ ctxStarts ctx, st < pc + len a := starts_mono hctx (by omega)
      have hB := ihb (endsRet prev a) ctx (pc + len a) (endLine cur a) hctx' herr.2 h
      rcases hB with ⟨_, hb0'⟩ | hTS
      · exact absurd hb0' hb0
      · have hA := compS_TB a ctx pc cur hctx herr.1
        simp only [compS, TS_append, len]
        exact ⟨TB_to_TS hA (by omega), by rw [← Nat.add_assoc]; exact hTS⟩
  | _ => intro prev ctx pc cur _ _ h; simp [endsRet] at h

theorem endsRet_targets : ∀ (s : Stmt) (prev : Bool) (ctx : Ctx) (pc cur : Nat),
    (∀ st ∈ ctxStarts ctx, st < pc) → compErr ctx pc s = none → endsRet prev s = true →
    (prev = true ∧ len s = 0) ∨ (∀ p ∈ compS ctx pc cur s, ∀ t ∈ tgtsOf p.1, t < pc + len s) :=
  endsRet_TS

/-- MAIN: for a compiled function every target is < the length of the code -/
theorem compileFn_targets {defLine : Nat} {body : Stmt} {code : C02.Code}
    (h : compileFn defLine body = .ok code) :
    ∀ p ∈ code, ∀ t ∈ tgtsOf p.1, t < code.length := by
  unfold compileFn at h
  split at h
  · cases h
  · rename_i herr
    have hctx : ∀ st ∈ ctxStarts ([] : Ctx), st < 0 := by intro st hst; simp [ctxStarts] at hst
    simp only [Except.ok.injEq] at h
    by_cases hr : endsRet false body = true
    · rw [if_pos hr] at h
      subst h
      rcases endsRet_TS body false [] 0 defLine hctx herr hr with ⟨hf, _⟩ | hTS
      · cases hf
      · rw [compS_length]
        have h0 : 0 + len body = len body := Nat.zero_add _
        rw [h0] at hTS
        exact hTS
    · rw [if_neg hr] at h
      subst h
      have hTB := compS_TB body [] 0 defLine hctx herr
      have : TS (compS [] 0 defLine body ++
          [(C02.Instr.loadConst .none, endLine defLine body), (.returnValue, endLine defLine body)])
          (len body + 2) := by
        rw [TS_append]
        refine ⟨TB_to_TS hTB (by omega), ?_⟩
        simp [TS_cons, TS_nil, tgtsOf, opOf]
      have hl : (compS [] 0 defLine body ++
          [(C02.Instr.loadConst .none, endLine defLine body), (.returnValue, endLine defLine body)]).length
          = len body + 2 := by simp [compS_length]
      rw [hl]
      exact this

theorem compileFn_targets_loopOnly {defLine : Nat} {body : Stmt} {code : C02.Code}
    (_hl : loopOnly body = true) (h : compileFn defLine body = .ok code) :
    ∀ p ∈ code, ∀ t ∈ tgtsOf p.1, t < code.length :=
  compileFn_targets h

end GPy.C12
