/-
C12 family `tb`: the gpython line assignment (raw `c.Lineno`, then `Lnotab()` / `Addr2Line(Lasti-1)`) names the same
line as the Python 3.4 rule (max of the visited lines) [C12-ext2 g4].
-/
import GPy.C12.LnotabProofs
import GPy.C12.TbSpec
namespace GPy.C12
open GPy.C02 (LInstr posOf tracebackAddr)
open Tb

theorem faultIdx_shift (evs : List Ev) : ∀ k, faultIdx evs (k + 1) = (faultIdx evs k).map (fun jf => (jf.1 + 1, jf.2)) := by
  induction evs with
  | nil => intro k; rfl
  | cons e r ih =>
    intro k
    cases e with
    | visit a => simp only [faultIdx]; exact ih k
    | emit sz f =>
      cases f with
      | none => simp only [faultIdx]; exact ih (k + 1)
      | some f => simp [faultIdx]

/-- a raw line `cm` not yet recorded may only be followed by a visit of a line ≥ cm -/
def headOk (cm rm : Nat) (evs : List Ev) : Prop := cm ≤ rm ∨ ∀ a r, evs = .visit a :: r → cm ≤ a

theorem spec_eq_runMax (evs : List Ev) : ∀ (cm rm : Nat), visitsOk evs = true → sizesPos evs = true → headOk cm rm evs →
    match faultIdx evs 0 with
    | none => specGo evs (max rm cm) = none
    | some (j, f) => specGo evs (max rm cm) = some (runMax (rawGo evs cm) rm j, f) ∧
        ∃ i, (rawGo evs cm)[j]? = some i ∧ 0 < i.size := by
  induction evs with
  | nil => intro cm rm _ _ _; simp [faultIdx, specGo]
  | cons e r ih =>
    intro cm rm hv hs hh
    cases e with
    | visit a =>
      have hv' : visitsOk r = true := by
        cases r with
        | nil => rfl
        | cons e2 r2 =>
          cases e2 with
          | visit b => simp only [visitsOk, Bool.and_eq_true] at hv; exact hv.2
          | emit s2 f2 => simpa [visitsOk] using hv
      have hs' : sizesPos r = true := by simpa [sizesPos] using hs
      have hh' : headOk a rm r := by
        right
        intro b r2 hr
        subst hr
        simp only [visitsOk, Bool.and_eq_true, decide_eq_true_eq] at hv
        exact hv.1
      have hmax : max (max rm cm) a = max rm a := by
        rcases hh with h | h
        · omega
        · have := h a r rfl; omega
      have := ih a rm hv' hs' hh'
      simp only [faultIdx, specGo, rawGo, hmax]
      exact this
    | emit sz f =>
      have hv' : visitsOk r = true := by simpa [visitsOk] using hv
      simp only [sizesPos, Bool.and_eq_true, decide_eq_true_eq] at hs
      cases f with
      | some f =>
        simp only [faultIdx, specGo, rawGo, runMax]
        have : ¬ sz = 0 := by omega
        simp only [this, if_false]
        exact ⟨trivial, ⟨⟨sz, cm⟩, by simp, hs.1⟩⟩
      | none =>
        have hh' : headOk cm (max rm cm) r := Or.inl (by omega)
        have := ih cm (max rm cm) hv' hs.2 hh'
        simp only [faultIdx, specGo, rawGo]
        rw [faultIdx_shift r 0]
        have e1 : max (max rm cm) cm = max rm cm := by omega
        rw [e1] at this
        cases hfi : faultIdx r 0 with
        | none => rw [hfi] at this; simpa using this
        | some jf =>
          obtain ⟨j, f⟩ := jf
          rw [hfi] at this
          simp only [Option.map_some]
          have hz : ¬ sz = 0 := by omega
          simp only [runMax, hz, if_false, List.getElem?_cons_succ]
          exact this

theorem modelGo_eq_specGo (evs : List Ev) (start : Nat) (h1 : 1 ≤ start) (hok : evsOk evs = true)
    (hh : headOk start 1 evs) : modelGo evs start = specGo evs start := by
  simp only [evsOk, Bool.and_eq_true] at hok
  have h := spec_eq_runMax evs start 1 hok.1 hok.2 hh
  have hm : max 1 start = start := by omega
  rw [hm] at h
  unfold modelGo
  cases hfi : faultIdx evs 0 with
  | none => rw [hfi] at h; simp [h]
  | some jf =>
    obtain ⟨j, f⟩ := jf
    rw [hfi] at h
    obtain ⟨h1, i, hi, hsz⟩ := h
    simp only [rawStream]
    rw [h1]
    have hp := posOf_succ_of_get (rawGo evs start) j i hi
    have := lineAtByte_runMax (rawGo evs start) 0 1 j (tracebackAddr (rawGo evs start) j) i hi hsz
      (by unfold tracebackAddr; omega) (by unfold tracebackAddr; omega)
    unfold GPy.C02.addr2line GPy.C02.lnotab
    rw [GPy.C02.lnotabGo_decode _ 0 0 1 _ (Nat.le_refl _) (Nat.zero_le _), this]

end GPy.C12
