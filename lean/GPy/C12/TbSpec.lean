/-
C12 family `tb` (core Lean only) [C12-ext2 g4]: which line does a traceback entry name when the
fault happens inside a multi-line expression / a decorator / default values / with items / assert /
a comprehension spread over several lines?

SPEC (Python 3.4, from CPython 3.4's compile.c, written independently of gpython):
* `compiler_visit_stmt` sets `u_lineno := s->lineno`; `compiler_visit_expr` does
  `if (e->lineno > u_lineno) u_lineno := e->lineno` – inside one statement the line only INCREASES;
* every instruction carries the `u_lineno` in force when it is emitted; a traceback entry names the
  line of the instruction that raised (frame's `f_lasti`);
* a node's `lineno` is the line of its first token (Call: of the callee; BinOp: of the left operand;
  Subscript/Attribute: of the value; IfExp: of the body; displays: of the bracket); a decorated
  def/class has the line of its FIRST decorator (ast.c `ast_for_decorated`, until 3.8);
* visit orders (compile.c): Call = func, args, keywords (LOAD_CONST name, value); Dict = BUILD_MAP then per
  pair value, key, STORE_MAP; IfExp = test, body, orelse; assert = test, jump, LOAD_GLOBAL, msg, CALL, RAISE;
  function def = decorators, defaults, MAKE_FUNCTION, one CALL_FUNCTION per decorator (all on the line reached);
  class = decorators, LOAD_BUILD_CLASS … CALL_FUNCTION, the decorator calls; with = per item: context
  expression, SETUP_WITH, target; comprehension = MAKE_FUNCTION, outermost iterable, GET_ITER, CALL_FUNCTION, and a
  code object of its own whose `u_lineno` starts at the comprehension's line and which visits target, conditions, element.

The compile is written as a list of events (`visit line` / `emit size fault?`) in emission order;
`specLine` folds them with max.  MODEL (gpython bug-for-bug): compile.go `c.SetLineno(expr)` ASSIGNS the
line (it may go down), every instruction records the raw `c.Lineno`, `Lnotab()` then skips entries whose line is
not above the last recorded one; the traceback line is `Addr2Line(Lasti-1)` – `modelLine` runs C02's `lnotab`
/ `addr2line` / `tracebackAddr` on the raw stream.
-/
import GPy.C12.Lnotab
namespace GPy.C12.Tb
open GPy.C02 (LInstr)

/-- a fault: the exception class and the traceback entries of the frames BELOW the faulting instruction's frame -/
structure Flt where
  extra : List (String × Nat)
  cls : String
deriving Repr, DecidableEq, Inhabited

inductive Ev
  | visit (ln : Nat)
  | emit (sz : Nat) (f : Option Flt)
deriving Repr, DecidableEq, Inhabited

/-- lines of the fixed prelude the generated programs start with (see `prelude`) -/
def boomLine : Nat := 2
def bdecoLine : Nat := 8
def enterLine : Nat := 21

def here (cls : String) : Option Flt := some ⟨[], cls⟩
def iff (b : Bool) (f : Option Flt) : Option Flt := if b then f else none

/-- expression shapes; every leaf token carries its (absolute) line; `bad` = this node's own operation faults -/
inductive Ex
  | nm (ln : Nat) (s : String)                       -- a name; `undefined` raises NameError
  | boom (ln : Nat)                                  -- `boom()` : the call raises ZeroDivisionError inside `boom`
  | call0 (f : Ex) (bad : Bool)
  | call1 (f a : Ex) (bad : Bool)
  | call2 (f a b : Ex) (bad : Bool)
  | call3 (f a b c : Ex) (bad : Bool)
  | kwcall (f a : Ex) (kw : String) (b : Ex) (bad : Bool)   -- f(a, kw=b)
  | bin (l r : Ex) (bad : Bool)                      -- (l + r) ; bad: (l - r) on lists, TypeError
  | sub (v i : Ex) (bad : Bool)                      -- v[i]
  | attr (v : Ex) (ln : Nat) (name : String) (bad : Bool)  -- v .name with `.name` on line ln
  | list2 (ln : Nat) (a b : Ex)                      -- [a, b] with `[` on line ln
  | dict2 (ln : Nat) (k1 v1 k2 v2 : Ex) (bad : Nat)  -- {k1: v1, k2: v2}; bad = 1/2: that key is unhashable
  | ifexp (body test orelse : Ex)                    -- (body if test else orelse)
deriving Repr, Inhabited

def Ex.line : Ex → Nat
  | .nm ln _ | .boom ln | .list2 ln .. | .dict2 ln .. => ln
  | .call0 f _ | .call1 f .. | .call2 f .. | .call3 f .. | .kwcall f .. => f.line
  | .bin l .. => l.line
  | .sub v .. | .attr v .. => v.line
  | .ifexp b .. => b.line

/-- CPython 3.4 compile order -/
def Ex.evs : Ex → List Ev
  | .nm ln s => [.visit ln, .emit 3 (iff (s == "undefined") (here "NameError"))]
  | .boom ln => [.visit ln, .visit ln, .emit 3 none, .emit 3 (some ⟨[("boom", boomLine)], "ZeroDivisionError"⟩)]
  | .call0 f bad => .visit f.line :: f.evs ++ [.emit 3 (iff bad (here "TypeError"))]
  | .call1 f a bad => .visit f.line :: f.evs ++ a.evs ++ [.emit 3 (iff bad (here "TypeError"))]
  | .call2 f a b bad => .visit f.line :: f.evs ++ a.evs ++ b.evs ++ [.emit 3 (iff bad (here "TypeError"))]
  | .call3 f a b c bad => .visit f.line :: f.evs ++ a.evs ++ b.evs ++ c.evs ++ [.emit 3 (iff bad (here "TypeError"))]
  | .kwcall f a _ b bad => .visit f.line :: f.evs ++ a.evs ++ [.emit 3 none] ++ b.evs ++ [.emit 3 (iff bad (here "TypeError"))]
  | .bin l r bad => .visit l.line :: l.evs ++ r.evs ++ [.emit 1 (iff bad (here "TypeError"))]
  | .sub v i bad => .visit v.line :: v.evs ++ i.evs ++ [.emit 1 (iff bad (here "TypeError"))]
  | .attr v _ _ bad => .visit v.line :: v.evs ++ [.emit 3 (iff bad (here "AttributeError"))]
  | .list2 ln a b => .visit ln :: a.evs ++ b.evs ++ [.emit 3 none]
  | .dict2 ln k1 v1 k2 v2 bad => .visit ln :: .emit 3 none :: v1.evs ++ k1.evs ++ [.emit 1 (iff (bad == 1) (here "TypeError"))]
      ++ v2.evs ++ k2.evs ++ [.emit 1 (iff (bad == 2) (here "TypeError"))]
  | .ifexp body test orelse => .visit body.line :: test.evs ++ [.emit 3 none] ++ body.evs ++ [.emit 3 none] ++ orelse.evs

/-- source tokens (line, text) in source order -/
abbrev Tok := Nat × String

def appendLast (ts : List Tok) (s : String) : List Tok :=
  match ts.reverse with
  | [] => []
  | (ln, t) :: r => (((ln, t ++ s) :: r).reverse)

def prependFirst (s : String) (ts : List Tok) : List Tok :=
  match ts with
  | [] => []
  | (ln, t) :: r => (ln, s ++ t) :: r

def Ex.toks : Ex → List Tok
  | .nm ln s => [(ln, s)]
  | .boom ln => [(ln, "boom()")]
  | .call0 f _ => appendLast f.toks "()"
  | .call1 f a _ => appendLast f.toks "(" ++ appendLast a.toks ")"
  | .call2 f a b _ => appendLast f.toks "(" ++ appendLast a.toks "," ++ appendLast b.toks ")"
  | .call3 f a b c _ => appendLast f.toks "(" ++ appendLast a.toks "," ++ appendLast b.toks "," ++ appendLast c.toks ")"
  | .kwcall f a kw b _ => appendLast f.toks "(" ++ appendLast a.toks "," ++ prependFirst (kw ++ "=") (appendLast b.toks ")")
  | .bin l r bad => prependFirst "(" (appendLast l.toks (if bad then " -" else " +")) ++ appendLast r.toks ")"
  | .sub v i _ => appendLast v.toks "[" ++ appendLast i.toks "]"
  | .attr v ln name _ => v.toks ++ [(ln, "." ++ name)]
  | .list2 ln a b => (ln, "[") :: appendLast a.toks "," ++ appendLast b.toks "]"
  | .dict2 ln k1 v1 k2 v2 _ => (ln, "{") :: appendLast k1.toks ":" ++ appendLast v1.toks "," ++ appendLast k2.toks ":" ++ appendLast v2.toks "}"
  | .ifexp body test orelse => prependFirst "(" body.toks ++ prependFirst "if " test.toks ++ prependFirst "else " (appendLast orelse.toks ")")

/-- statement shapes; `l0` = line of the statement's first token -/
inductive St
  | asg (l0 : Nat) (e : Ex)                          -- x = ( e )
  | ret (l0 : Nat) (e : Ex)                          -- return ( e )
  | asrt (l0 : Nat) (t m : Ex) (fails : Bool)        -- assert ( t ), ( m )   ; fails: the test is false, AssertionError
  | withS (l0 : Nat) (a b : Ex) (bad : Nat)          -- with ( a ) as p, ( b ) as q: pass ; bad = 1/2: that item has no __enter__/__exit__; 3: __enter__ of item 2 raises
  | deco (ds : List Ex) (defLn : Nat) (dflt : Option Ex) (isClass : Bool) (badApply : Option (Nat × Flt))
      -- @d0 … def f(a=( dflt )): pass   /   class K: pass ; badApply = (index of the decorator whose application faults, fault)
  | dflt2 (l0 : Nat) (d1 d2 : Ex)                    -- def f(a=( d1 ), b=( d2 )): pass
  | comp (l0 lb : Nat) (elt : Ex) (lf : Nat) (iter cond : Ex) (badIter : Bool)
      -- x = ( [ elt for q in iter if cond ] ) with `[` on line lb and `for q in` on line lf
deriving Repr, Inhabited

def St.l0 : St → Nat
  | .asg l0 _ | .ret l0 _ | .asrt l0 .. | .withS l0 .. | .dflt2 l0 .. | .comp l0 .. => l0
  | .deco ds defLn .. => match ds with | d :: _ => d.line | [] => defLn

/-- the faulting event of a list (first emit carrying a fault) folded CPython-3.4 style: line of an instruction = max of the lines visited so far -/
def specGo : List Ev → Nat → Option (Nat × Flt)
  | [], _ => none
  | .visit ln :: r, cur => specGo r (max cur ln)
  | .emit _ (some f) :: _, cur => some (cur, f)
  | .emit _ none :: r, cur => specGo r cur

/-- events of the comprehension's own code object (u_lineno starts at the comprehension's line `lb`) -/
def compInner (lf : Nat) (elt cond : Ex) : List Ev :=
  [.emit 3 none, .emit 3 none, .emit 3 none, .visit lf, .emit 3 none] ++ cond.evs ++ [.emit 3 none] ++ elt.evs ++ [.emit 3 none, .emit 3 none]

def St.evs : St → List Ev
  | .asg l0 e => .visit l0 :: e.evs ++ [.emit 3 none]
  | .ret l0 e => .visit l0 :: e.evs ++ [.emit 1 none]
  | .asrt l0 t m fails => .visit l0 :: t.evs ++ [.emit 3 none, .emit 3 none] ++ m.evs ++ [.emit 3 none, .emit 3 (iff fails (here "AssertionError"))]
  | .withS l0 a b bad => .visit l0 :: a.evs ++ [.emit 3 (iff (bad == 1) (here "AttributeError")), .emit 3 none] ++ b.evs ++
      [.emit 3 (if bad == 2 then here "AttributeError" else if bad == 3 then some ⟨[("__enter__", enterLine)], "ZeroDivisionError"⟩ else none), .emit 3 none]
  | .deco ds defLn dflt isClass badApply =>
      let l0 := match ds with | d :: _ => d.line | [] => defLn
      let n := ds.length
      .visit l0 :: (ds.map Ex.evs).flatten ++ (match dflt with | some d => d.evs | none => []) ++
      (if isClass then [.emit 1 none, .emit 3 none, .emit 3 none, .emit 3 none, .emit 3 none, .emit 3 none]
       else [.emit 3 none, .emit 3 none, .emit 3 none]) ++
      -- decorators are applied innermost (last) first
      ((List.range n).reverse.map fun j => Ev.emit 3 (match badApply with | some (k, f) => if k == j then some f else none | none => none)) ++ [.emit 3 none]
  | .dflt2 l0 d1 d2 => .visit l0 :: d1.evs ++ d2.evs ++ [.emit 3 none, .emit 3 none, .emit 3 none, .emit 3 none]
  | .comp l0 lb elt lf iter cond badIter =>
      let inner := specGo (compInner lf elt cond) lb
      .visit l0 :: .visit lb :: [.emit 3 none, .emit 3 none, .emit 3 none] ++ iter.evs ++ [.emit 1 (iff badIter (here "TypeError")),
        .emit 3 (match inner with | some (ln, f) => some ⟨("<listcomp>", ln) :: f.extra, f.cls⟩ | none => none), .emit 3 none]

/-- SPEC: (line of the entry of the frame executing the statement, fault) -/
def St.spec (s : St) : Option (Nat × Flt) := specGo s.evs 1

/-! ### MODEL: gpython's compiler assigns the line of the node last visited; `Lnotab()` + `Addr2Line(Lasti-1)` -/

/-- raw instruction stream: `c.Lineno = node.GetLineno()` on every visit, each instruction records `c.Lineno` -/
def rawGo : List Ev → Nat → List LInstr
  | [], _ => []
  | .visit ln :: r, _ => rawGo r ln
  | .emit sz _ :: r, cur => ⟨sz, cur⟩ :: rawGo r cur

def rawStream (evs : List Ev) (start : Nat) : List LInstr := rawGo evs start

/-- index (among the emits) and fault of the first faulting emit -/
def faultIdx : List Ev → Nat → Option (Nat × Flt)
  | [], _ => none
  | .visit _ :: r, k => faultIdx r k
  | .emit _ (some f) :: _, k => some (k, f)
  | .emit _ none :: r, k => faultIdx r (k + 1)

def modelGo (evs : List Ev) (start : Nat) : Option (Nat × Flt) :=
  match faultIdx evs 0 with
  | none => none
  | some (k, f) =>
    let is := rawStream evs start
    some (GPy.C02.addr2line (GPy.C02.lnotab is) 1 (GPy.C02.tracebackAddr is k), f)

/-- the model's version of `St.evs` differs only for the comprehension: the inner code object is run through the model as well.
gpython's compiler for the comprehension's code object starts with the enclosing compiler's state: `start` (the
raw line of its first instructions) is the line in force, `lb`. -/
def St.model (s : St) : Option (Nat × Flt) :=
  match s with
  | .comp l0 lb elt lf iter cond badIter =>
      let inner := modelGo (compInner lf elt cond) lb
      modelGo (.visit l0 :: .visit lb :: [.emit 3 none, .emit 3 none, .emit 3 none] ++ iter.evs ++ [.emit 1 (iff badIter (here "TypeError")),
        .emit 3 (match inner with | some (ln, f) => some ⟨("<listcomp>", ln) :: f.extra, f.cls⟩ | none => none), .emit 3 none]) 1
  | s => modelGo s.evs 1

/-- the condition under which the raw stream loses no visited line: in every run of consecutive visits the lines do not decrease -/
def visitsOk : List Ev → Bool
  | .visit a :: .visit b :: r => decide (a ≤ b) && visitsOk (.visit b :: r)
  | _ :: r => visitsOk r
  | [] => true

/-- every emitted instruction has a positive size -/
def sizesPos : List Ev → Bool
  | [] => true
  | .visit _ :: r => sizesPos r
  | .emit sz _ :: r => decide (0 < sz) && sizesPos r

def evsOk (evs : List Ev) : Bool := visitsOk evs && sizesPos evs

/-- the decidable side condition of `tb_stmt_model_eq_spec`, evaluated by the generator on every case (tag `vok`) -/
def St.ok : St → Bool
  | .comp l0 lb elt lf iter cond badIter =>
      evsOk (compInner lf elt cond) && decide (1 ≤ lb) && evsOk (St.comp l0 lb elt lf iter cond badIter).evs
  | s => evsOk s.evs

/-! ### rendering -/

def renderToks (l0 : Nat) (ts : List Tok) : List String :=
  let last := ts.foldl (fun m t => max m t.1) l0
  (List.range (last + 1 - l0)).map fun d =>
    " ".intercalate ((ts.filter fun t => t.1 == l0 + d).map (·.2))

/-- token lines never decrease and start at `l0` or later, and every line l0..last carries a token -/
def layoutOk (l0 : Nat) (ts : List Tok) : Bool :=
  let rec go : List Tok → Nat → Bool
    | [], _ => true
    | (ln, _) :: r, cur => decide (cur ≤ ln) && decide (ln ≤ cur + 1) && go r ln
  go ts l0

def St.toks : St → List Tok
  | .asg l0 e => (l0, "x = (") :: appendLast e.toks ")"
  | .ret l0 e => (l0, "return (") :: appendLast e.toks ")"
  | .asrt l0 t m _ => (l0, "assert (") :: appendLast t.toks "), (" ++ appendLast m.toks ")"
  | .withS l0 a b _ => (l0, "with (") :: appendLast a.toks ") as p, (" ++ appendLast b.toks ") as q: pass"
  | .deco ds defLn dflt isClass _ =>
      (ds.map fun d => prependFirst "@" d.toks).flatten ++
      (if isClass then [(defLn, "class K: pass")] else
       match dflt with
       | none => [(defLn, "def f(): pass")]
       | some d => (defLn, "def f(a=(") :: appendLast d.toks ")): pass")
  | .dflt2 l0 d1 d2 => (l0, "def f(a=(") :: appendLast d1.toks "), b=(" ++ appendLast d2.toks ")): pass"
  | .comp l0 lb elt lf iter cond _ => (l0, "x = (") :: (lb, "[") :: elt.toks ++ [(lf, "for q in")] ++ prependFirst "" iter.toks ++ prependFirst "if " (appendLast cond.toks "])")

def prelude : List String := [
  "def boom():",                 -- 1
  "    return 1/0",              -- 2
  "def fn(*a, **k):",            -- 3
  "    return v",                -- 4
  "def deco(f):",                -- 5
  "    return f",                -- 6
  "def bdeco(f):",               -- 7
  "    return 1/0",              -- 8
  "def mk(*a):",                 -- 9
  "    return deco",             -- 10
  "class NS:",                   -- 11
  "    pass",                    -- 12
  "v = []",                      -- 13
  "v.append(v)",                 -- 14
  "i0 = 0",                      -- 15
  "i1 = 1",                      -- 16
  "ns = NS()",                   -- 17
  "ns.v = v",                    -- 18
  "ns.fn = fn",                  -- 19
  "class BadEnter:",             -- 20
  "    def __enter__(self): return 1/0",   -- 21
  "    def __exit__(self, *a): return False",  -- 22
  "class CM:",                   -- 23
  "    def __enter__(self): return v",     -- 24
  "    def __exit__(self, *a): return False",  -- 25
  "cm = CM()",                   -- 26
  "be = BadEnter()"]             -- 27

/-- line of `def g():`; the statement starts on the next line -/
def gLine : Nat := 28
def stmtLine : Nat := 29

/-- the whole program: prelude, `def g():` + statement (+ `return 0`), optionally `def h(): return g()`, the driving call -/
def program (s : St) (twoFrames : Bool) : List String × Nat × Nat :=
  let body := (renderToks s.l0 s.toks).map ("    " ++ ·)
  let afterG := stmtLine + body.length      -- line of `    return 0`
  let lines := prelude ++ ["def g():"] ++ body ++ ["    return 0"]
  if twoFrames then
    (lines ++ ["def h():", "    return g()", "h()"], afterG + 2, afterG + 3)
  else (lines ++ ["g()"], 0, afterG + 1)

def fmtEntries (es : List (String × Nat)) (cls : String) : String :=
  " ".intercalate (es.map fun e => s!"{e.1}:{e.2}") ++ " E:" ++ cls

def verdict (s : St) (twoFrames : Bool) (r : Option (Nat × Flt)) : String × Nat :=
  let (_, hl, ml) := program s twoFrames
  match r with
  | none => ("noexception", 0)
  | some (ln, f) =>
    let es := [("<module>", ml)] ++ (if twoFrames then [("h", hl)] else []) ++ [("g", ln)] ++ f.extra
    (fmtEntries es f.cls, es.length)

end GPy.C12.Tb
