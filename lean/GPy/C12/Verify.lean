/-
C12 verifier (core Lean only): `verify : Code → Except String Cert`.

A worklist data-flow computes, per instruction offset, a finite set of abstract
states (stack kinds + block stack); the result is then *checked* to be an
inductive invariant of the abstract machine (`checkCert`), so that soundness
(Props.verify_sound) does not depend on how the set was found.
-/
import GPy.C12.Spec
namespace GPy.C12

abbrev AS := List Kind × List Block

structure Cert where
  states : Array (List AS)
  starts : List Nat
deriving Repr

def Cert.at (cert : Cert) (pc : Nat) : List AS := cert.states.getD pc []

def Cert.maxDepth (cert : Cert) : Nat :=
  cert.states.foldl (fun m l => l.foldl (fun m a => max m a.1.length) m) 0

def Cert.numStates (cert : Cert) : Nat := cert.states.foldl (fun m l => m + l.length) 0

def Why.str : Why → String
  | .exception => "exception" | .ret => "return" | .brk => "break" | .cont => "continue" | .silenced => "silenced"
def Kind.str : Kind → String
  | .obj => "o" | .none => "N" | .why w => s!"why({w.str})" | .tgt t => s!"tgt({t})" | .exc => "E"
def BT.str : BT → String
  | .loop => "L" | .except => "X" | .finally => "F" | .handler => "H"
def Block.str (b : Block) : String := s!"{b.ty.str}:{b.handler}:{b.level}"
def stkStr (stk : List Kind) : String := "[" ++ " ".intercalate (stk.reverse.map Kind.str) ++ "]"
def blkStr (blk : List Block) : String := "[" ++ " ".intercalate (blk.reverse.map Block.str) ++ "]"

/-- bound on the number of abstract states per offset (the verifier rejects beyond it) -/
def maxStatesPerPc : Nat := 64

def outcomeOk (cert : Cert) : Outcome → Bool
  | .next s => decide ((s.stk, s.blk) ∈ cert.at s.pc)
  | .yield s => decide ((s.stk, s.blk) ∈ cert.at s.pc)
  | .ret => true
  | .raise => true
  | .bad _ => false

def stateOk (c : Code) (cert : Cert) (pc : Nat) (a : AS) : Bool :=
  decide (pc ∈ cert.starts) && decide (a.1.length ≤ c.stacksize) && (step c ⟨pc, a.1, a.2⟩).all (outcomeOk cert)

def instrOkB (c : Code) (starts : List Nat) (pc : Nat) : Bool :=
  match decodeAt c.code pc with
  | none => false
  | some i => operandOk c i.op i.arg && (jumpTargets pc i).all (fun t => decide (t ∈ starts))

def lnotabOkB (c : Code) : Bool :=
  decide (c.lnotab.size % 2 = 0) && decide ((lnotabSums c.lnotab.toList).1 ≤ c.code.size) &&
  (decide (c.nlines = 0) || decide (c.firstlineno + (lnotabSums c.lnotab.toList).2 ≤ c.nlines))

/-- the certificate is an inductive invariant containing the initial state -/
def checkCert (c : Code) (cert : Cert) : Bool :=
  decide (instrStarts c.code = some cert.starts) &&
  cert.starts.all (instrOkB c cert.starts) &&
  lnotabOkB c &&
  decide ((([], []) : AS) ∈ cert.at 0) &&
  (List.range cert.states.size).all (fun pc => (cert.at pc).all (stateOk c cert pc))

/-- worklist exploration (untrusted: its result is checked by `checkCert`) -/
def explore (c : Code) : Nat → List State → Array (List AS) → Except String (Array (List AS))
  | _, [], acc => .ok acc
  | 0, _ :: _, _ => .error "exploration fuel exhausted"
  | fuel + 1, s :: work, acc => do
    let mut acc := acc
    let mut work := work
    for o in step c s do
      match o with
      | .bad m =>
        let ins := match decodeAt c.code s.pc with | some i => s!"{repr i.op} {i.arg}" | none => "?"
        throw s!"pc={s.pc} {ins} stack={stkStr s.stk} blocks={blkStr s.blk}: {m}"
      | .ret => pure ()
      | .raise => pure ()
      | .next s' | .yield s' =>
        if s'.pc ≥ acc.size then
          throw s!"pc={s.pc}: control transfers to {s'.pc}, outside the code (size {acc.size})"
        let cur := acc.getD s'.pc []
        if !(cur.contains (s'.stk, s'.blk)) then
          if cur.length ≥ maxStatesPerPc then
            throw s!"pc={s'.pc}: more than {maxStatesPerPc} abstract states"
          acc := acc.set! s'.pc ((s'.stk, s'.blk) :: cur)
          work := s' :: work
    explore c fuel work acc

def verify (c : Code) : Except String Cert :=
  match instrStarts c.code with
  | none => .error "byte string does not decode linearly into known instructions up to its end"
  | some starts =>
    match starts.find? (fun pc => !instrOkB c starts pc) with
    | some pc =>
      let ins := match decodeAt c.code pc with | some i => s!"{repr i.op} {i.arg}" | none => "?"
      .error s!"pc={pc} {ins}: operand outside its table or jump target not an instruction boundary inside the code"
    | none =>
    if !lnotabOkB c then .error "line table malformed (odd length / runs past the code / runs past the source)" else
    if c.code.size = 0 then .error "empty code" else
    let init : Array (List AS) := (Array.replicate c.code.size []).set! 0 [([], [])]
    match explore c (c.code.size * maxStatesPerPc + 1) [⟨0, [], []⟩] init with
    | .error e => .error e
    | .ok st =>
      let cert : Cert := ⟨st, starts⟩
      if checkCert c cert then .ok cert
      else
        -- find the first offending state for the message
        let bad := (List.range st.size).findSome? (fun pc =>
          ((cert.at pc).find? (fun a => !stateOk c cert pc a)).map (fun a => (pc, a)))
        match bad with
        | some (pc, a) => .error s!"pc={pc} stack={stkStr a.1} blocks={blkStr a.2}: depth {a.1.length} exceeds Stacksize {c.stacksize} or state not closed"
        | none => .error "certificate check failed"

end GPy.C12
