/-
C13 case generator.  Exhaustive part (the property's "Explored" clause): every sequence type ×
every small length × every (start, stop, step) over {None, -k..k, ±(2^63-1), ±2^63, ±2^64} ×
every operation; plus seeded random cases on longer sequences with bounds near ±2^63.
One `Case` per line: input, model V/R, spec V, tags.
-/
import GPy.C13.Heap
namespace GPy.C13

def Err.py : Err → String
  | .index => "E:IndexError" | .value => "E:ValueError" | .type => "E:TypeError"
  | .overflow => "E:OverflowError" | .memory => "E:MemoryError" | .stopIter => "E:StopIteration"
  | .panic => "PANIC"

def joinInts (xs : List Int) : String := ",".intercalate (xs.map toString)

def encComp : Idx → String
  | .none => "n" | .int v => toString v | .big v => toString v
  | .bool b => if b then "t1" else "t0" | .bad => "x"

def encKey : Key → String
  | .idx (.int v) => s!"i:{v}"
  | .idx (.big v) => s!"i:{v}"
  | .idx c => encComp c
  | .slice s => s!"s:{encComp s.start}:{encComp s.stop}:{encComp s.step}"

def SeqLit.enc : SeqLit → String
  | .list xs => "L:" ++ joinInts xs
  | .tuple xs => "T:" ++ joinInts xs
  | .str xs => "S:" ++ joinInts xs
  | .bytes xs => "B:" ++ joinInts xs
  | .range a b c => s!"R:{encComp a},{encComp b},{encComp c}"

def SeqLit.kind : SeqLit → Kind
  | .list _ => .list | .tuple _ => .tuple | .str _ => .str | .bytes _ => .bytes | .range .. => .range

/-- rendering of a model object (same text as harness/c13.go `c13Show`) -/
def Obj.show : Obj → String × String
  | .list xs => ("L:" ++ joinInts xs, "")
  | .tuple xs => ("T:" ++ joinInts xs, "")
  | .str xs => ("S:" ++ joinInts xs, "")
  | .bytes xs => ("B:" ++ joinInts xs, "")
  | .range r =>
    let (xs, cut) := rangeDrain r 0 drainCap
    (s!"R:{joinInts (xs ++ (if cut then [8230] else []))}#{r.length}", s!"{r.start},{r.stop},{r.step}")
  | .int v => (s!"I:{v}", "")
  | .bool b => (if b then "True" else "False", "")
  | .none => ("None", "")
  | .iter xs cut => ("it:" ++ joinInts (xs ++ (if cut then [8230] else [])), "")

def SSeq.show (s : SSeq) : String :=
  match s.kind with
  | .list => "L:" ++ joinInts s.items
  | .tuple => "T:" ++ joinInts s.items
  | .str => "S:" ++ joinInts s.items
  | .bytes => "B:" ++ joinInts s.items
  | .range => s!"R:{joinInts s.items}#{s.items.length}"

def SVal.show : SVal → String
  | .seq s => s.show
  | .int v => s!"I:{v}"
  | .bool b => if b then "True" else "False"
  | .none => "None"
  | .items xs => "it:" ++ joinInts xs

/-- the value operand of an assignment -/
inductive ValLit where
  | seq (s : SeqLit)
  | elem (v : Int)
  | self
deriving Repr, Inhabited

inductive Cmd where
  | get (s : SeqLit) (k : Key)
  | set (s : SeqLit) (k : Key) (v : ValLit)
  | del (s : SeqLit) (k : Key)
  | add (a b : SeqLit)
  | iadd (a : SeqLit) (b : Option SeqLit)      -- `none` = `a += a`
  | iadd3 (x y z w : SeqLit)
  | mul (s : SeqLit) (n : Idx) (r : Bool)      -- r: the count is the left operand
  | len (s : SeqLit)
  | contains (s : SeqLit) (e : Int)
  | containsStr (s : SeqLit) (needle : List Int)
  | cmp (op : CmpOp) (a b : SeqLit)
  | iter (s : SeqLit)
deriving Repr, Inhabited

def Cmd.enc : Cmd → String
  | .get s k => s!"get {s.enc} {encKey k}"
  | .set s k v => s!"set {s.enc} {encKey k} " ++ (match v with | .seq l => l.enc | .elem x => s!"e:{x}" | .self => "self")
  | .del s k => s!"del {s.enc} {encKey k}"
  | .add a b => s!"add {a.enc} {b.enc}"
  | .iadd a b => s!"iadd {a.enc} " ++ (match b with | some b => b.enc | Option.none => "self")
  | .iadd3 x y z w => s!"iadd3 {x.enc} {y.enc} {z.enc} {w.enc}"
  | .mul s n r => (if r then "rmul " else "mul ") ++ s.enc ++ " " ++ encKey (.idx n)
  | .len s => s!"len {s.enc}"
  | .contains s e => s!"in {s.enc} e:{e}"
  | .containsStr s n => s!"in {s.enc} S:{joinInts n}"
  | .cmp op a b => s!"cmp {op.name} {a.enc} {b.enc}"
  | .iter s => s!"iter {s.enc}"

/-- outcome = result (or exception) and the operands afterwards -/
structure Outcome (ρ ω : Type) where
  res : Except Err ρ
  ops : List ω

def orFail {α ρ ω} (x : Except Err α) (k : α → Outcome ρ ω) : Outcome ρ ω :=
  match x with
  | .error e => ⟨.error e, []⟩
  | .ok a => k a

/-- the model's outcome of a command -/
def modelOf : Cmd → Outcome Obj Obj
  | .get s k => orFail s.model fun o => ⟨getItem o k, [o]⟩
  | .set s k v => orFail s.model fun o =>
    let (vo, extra) : Except Err Obj × Bool := match v with
      | .self => (.ok o, false) | .elem x => (.ok (.int x), false) | .seq l => (l.model, true)
    orFail vo fun vobj =>
      match setItem o k vobj with
      | .ok o' => ⟨.ok .none, o' :: (if extra then [vobj] else [])⟩
      | .error e => ⟨.error e, o :: (if extra then [vobj] else [])⟩
  | .del s k => orFail s.model fun o =>
    match delItem o k with
    | .ok o' => ⟨.ok .none, [o']⟩
    | .error e => ⟨.error e, [o]⟩
  | .add a b => orFail a.model fun x => orFail b.model fun y => ⟨add x y, [x, y]⟩
  | .iadd a b => orFail a.model fun x =>
    match b with
    | some b => orFail b.model fun y =>
      match x with
      | .list xs =>
        -- List.M__iadd__: a list operand extends in place; any other iterable is drained through py.Iterate
        -- (list += tuple/str/bytes/range extends, as in Python)
        (match y with
         | .list ys => ⟨.ok (.list (xs ++ ys)), [.list (xs ++ ys), y]⟩
         | _ => match iterate y with
                | .ok (ys, _) => ⟨.ok (.list (xs ++ ys)), [.list (xs ++ ys), y]⟩
                | .error e => ⟨.error e, [x, y]⟩)
      | _ => ⟨add x y, [x, y]⟩
    | Option.none =>
      match x, add x x with
      | .list _, .ok r => ⟨.ok r, [r]⟩
      | _, r => ⟨r, [x]⟩
  | .iadd3 x y z w => orFail x.model fun x => orFail y.model fun y => orFail z.model fun z => orFail w.model fun w =>
    match add x y with
    | .error e => ⟨.error e, [x, y, z, w]⟩
    | .ok r1 =>
      match add r1 z, add r1 w with
      | .ok r2, .ok r3 => ⟨.ok (.str []), [r2, r3]⟩   -- rendered specially
      | .error e, _ => ⟨.error e, [x, y, z, w]⟩
      | _, .error e => ⟨.error e, [x, y, z, w]⟩
  | .mul s n _ => orFail s.model fun o => ⟨mul o n, [o]⟩
  | .len s => orFail s.model fun o => ⟨len o, [o]⟩
  | .contains s e => orFail s.model fun o => ⟨contains o (.int e), [o]⟩
  | .containsStr s n => orFail s.model fun o => ⟨contains o (.str n), [o]⟩
  | .cmp op a b => orFail a.model fun x => orFail b.model fun y => ⟨cmp op x y, [x, y]⟩
  | .iter s => orFail s.model fun o => ⟨iter o, [o]⟩

def specAdd (x y : SSeq) : Except Err SVal :=
  if x.kind = y.kind ∧ x.kind ≠ .range then .ok (.seq ⟨x.kind, x.items ++ y.items⟩) else .error .type

/-- the specification's outcome of a command -/
def specOf : Cmd → Outcome SVal SSeq
  | .get s k => orFail s.spec fun o => ⟨specGetItem o k, [o]⟩
  | .set s k v => orFail s.spec fun o =>
    let (vo, extra) : Except Err (Option SSeq × Option Int) × Bool := match v with
      | .self => (.ok (some o, Option.none), false)
      | .elem x => (.ok (Option.none, some x), false)
      | .seq l => (l.spec.map (fun q => (some q, Option.none)), true)
    orFail vo fun (vs, ve) =>
      let exs := match vs with | some q => if extra then [q] else [] | Option.none => []
      if o.kind ≠ .list then ⟨.error .type, o :: exs⟩ else
      let r : Except Err (List Int) := match k with
        | .slice sl => specSetSlice o.items sl (vs.map (·.items))
        | .idx i => do
          let p ← specIndex o.items.length i
          match ve with
          | some x => pure (o.items.set p x)
          | Option.none => throw .type
      match r with
      | .ok xs => ⟨.ok .none, ⟨.list, xs⟩ :: exs⟩
      | .error e => ⟨.error e, o :: exs⟩
  | .del s k => orFail s.spec fun o =>
    if o.kind ≠ .list then ⟨.error .type, [o]⟩ else
    let r : Except Err (List Int) := match k with
      | .slice sl => specDelSlice o.items sl
      | .idx i => do
        let p ← specIndex o.items.length i
        pure (o.items.eraseIdx p)
    match r with
    | .ok xs => ⟨.ok .none, [⟨.list, xs⟩]⟩
    | .error e => ⟨.error e, [o]⟩
  | .add a b => orFail a.spec fun x => orFail b.spec fun y => ⟨specAdd x y, [x, y]⟩
  | .iadd a b => orFail a.spec fun x =>
    match b with
    | some b => orFail b.spec fun y =>
      if x.kind = .list then
        -- Python: list.__iadd__ accepts any iterable and extends in place
        let r : SSeq := ⟨.list, x.items ++ y.items⟩
        ⟨.ok (.seq r), [r, y]⟩
      else
      match specAdd x y with
      | .ok (.seq r) => ⟨.ok (.seq r), [x, y]⟩
      | r => ⟨r, [x, y]⟩
    | Option.none =>
      match specAdd x x with
      | .ok (.seq r) => ⟨.ok (.seq r), [if x.kind = .list then r else x]⟩
      | r => ⟨r, [x]⟩
  | .iadd3 x y z w => orFail x.spec fun x => orFail y.spec fun y => orFail z.spec fun z => orFail w.spec fun w =>
    if x.kind = y.kind ∧ x.kind = z.kind ∧ x.kind = w.kind ∧ x.kind ≠ .range then
      ⟨.ok (.seq ⟨.str, []⟩), [⟨x.kind, x.items ++ y.items ++ z.items⟩, ⟨x.kind, x.items ++ y.items ++ w.items⟩]⟩
    else ⟨.error .type, [x, y, z, w]⟩
  | .mul s n _ => orFail s.spec fun o => ⟨specMul o n, [o]⟩
  | .len s => orFail s.spec fun o => ⟨.ok (.int o.items.length), [o]⟩
  | .contains s e => orFail s.spec fun o => ⟨specContains o e, [o]⟩
  | .containsStr s n => orFail s.spec fun o => ⟨specContainsStr o n, [o]⟩
  | .cmp op a b => orFail a.spec fun x => orFail b.spec fun y => ⟨specCmp op x y, [x, y]⟩
  | .iter s => orFail s.spec fun o => ⟨.ok (.items o.items), [o]⟩

def isIadd3 : Cmd → Bool | .iadd3 .. => true | _ => false

def renderModel (c : Cmd) : String × String :=
  let o := modelOf c
  let ops := o.ops.map (fun x => x.show.1)
  match o.res with
  | .error .panic => ("PANIC", "")
  | .error e => ("|".intercalate (e.py :: ops), "")
  | .ok r =>
    if isIadd3 c then ("|".intercalate ops, "")
    else ("|".intercalate (r.show.1 :: ops), r.show.2)

def renderSpec (c : Cmd) : String :=
  let o := specOf c
  let ops := o.ops.map (·.show)
  match o.res with
  | .error e => "|".intercalate (e.py :: ops)
  | .ok r => if isIadd3 c then "|".intercalate ops else "|".intercalate (r.show :: ops)

/-! ### tags -/

def keyIdx? : Key → Option Idx | .idx i => some i | _ => Option.none

def rangeArgsWide (s : SeqLit) (_k : Option Key) : Bool :=
  match s with
  | .range a b c => kfRangeWide a b c
  | _ => false

def Cmd.kf (c : Cmd) : Option String :=
  let ranges : List (SeqLit × Option Key) := match c with
    | .get s k => [(s, some k)] | .set s k _ => [(s, some k)] | .del s k => [(s, some k)]
    | .add a b => [(a, Option.none), (b, Option.none)] | .iadd a _ => [(a, Option.none)]
    | .iadd3 .. => [] | .mul s _ _ => [(s, Option.none)] | .len s => [(s, Option.none)]
    | .contains s _ => [(s, Option.none)] | .containsStr s _ => [(s, Option.none)]
    | .cmp _ a b => [(a, Option.none), (b, Option.none)] | .iter s => [(s, Option.none)]
  if ranges.any (fun (s, k) => rangeArgsWide s k) then some "C13-K05" else
  match c with
  | .get s k =>
    match k with
    | .idx i => if kfBigIndex i then some "C13-K03" else Option.none
    | _ => Option.none
  | .set _ (.idx i) _ => if kfBigIndex i then some "C13-K03" else Option.none
  | .del _ (.idx i) => if kfBigIndex i then some "C13-K03" else Option.none
  | .mul s n _ =>
    match s.spec with
      | .ok q => if q.kind ≠ .range && kfMulOverflow q.items.length n then some "C13-K04" else Option.none
      | _ => Option.none
  | _ => Option.none

def compTag (n : Nat) : Idx → String
  | .none => "N" | .bad => "X" | .bool _ => "B"
  | .big _ => "H"
  | .int v => if v.natAbs > 4611686018427387904 then "H" else if v < -(n : Int) then "lo" else if v < 0 then "neg"
              else if v == 0 then "0" else if v < n then "in" else if v == n then "len" else "hi"

/-- non-trivial: anything but a plain in-range non-negative index / a `len` of a list -/
def Cmd.nontrivial (c : Cmd) (specV : String) : Bool :=
  specV.startsWith "E:" ||
  (match c with
   | .get _ (.idx (.int v)) => v < 0
   | .len _ => false
   | _ => true)

def mkCase (c : Cmd) : Case :=
  let (mV, mR) := renderModel c
  let sV := renderSpec c
  { input := c.enc, modelV := mV, modelR := mR, specV := sV,
    tags := (if c.nontrivial sV then ["nt"] else []) ++ (match c.kf with | some k => ["kf=" ++ k] | Option.none => []) }

def emit (c : Cmd) : IO Unit := IO.println (mkCase c).line

/-! ### enumeration -/

def mkIdx (v : Int) : Idx := if IntMin ≤ v ∧ v ≤ IntMax then .int v else .big v

def bigVals : List Int :=
  [9223372036854775807, -9223372036854775807, 9223372036854775808, -9223372036854775808,
   18446744073709551616, -18446744073709551616, -9223372036854775809]

def comps (k : Int) : List Idx :=
  [Idx.none] ++ ((List.range (2 * k.toNat + 1)).map (fun (i : Nat) => Idx.int (Int.ofNat i - k))) ++ bigVals.map mkIdx

def upto (n : Nat) (base : Int) : List Int := (List.range n).map (fun (i : Nat) => base + Int.ofNat i)

/-- a string of length n with 1-, 2-, 3- and 4-byte characters -/
def mixedStr (n : Nat) : List Int := ([97, 233, 8364, 128512, 98, 1234, 99, 65533, 100] : List Int).take n

def seqsOfLen (n : Nat) (thorough : Bool) : List SeqLit :=
  [.list (upto n 0), .tuple (upto n 0), .str (upto n 97), .str (mixedStr n),
   .range (.int 0) (.int n) (.int 1), .range (.int (2 * n + 3)) (.int 3) (.int (-2))]
  ++ (if thorough then [.range (.int (-4)) (.int (3 * n - 4)) (.int 3), .range (.int n) (.int 0) (.int (-1))] else [])

/-! ### short histories over the slice-header model: derive `b` from `a`, grow `b`, observe both -/

/-- a history: `a` = the literal `base` (built with `make`, cap = len) or `ctor(base)` (e.g. `tuple(range(..))`,
collected with `append`, so with spare capacity); `b` derived from `a`; up to two growing operations, each
applied to the object `b` (as through two names bound to it); then `a`, `b` and the results are observed -/
structure Hist where
  base : SeqLit
  built : Option Kind
  derive : Derive
  muts : List Mutate
deriving Repr, Inhabited

/-- the allocator's growth rule used by the EXECUTABLE model (any rule with `need ≤ grow cap need` gives the
same observations: the theorems of Props.lean quantify over it) -/
def growExe (cap need : Nat) : Nat := if need ≤ 2 * cap then 2 * cap else need

def encSl (sl : Slice) : String := s!"{encComp sl.start}/{encComp sl.stop}/{encComp sl.step}"

def encObjLit : Obj → String
  | .list xs => "L:" ++ joinInts xs | .tuple xs => "T:" ++ joinInts xs
  | .str xs => "S:" ++ joinInts xs | .bytes xs => "B:" ++ joinInts xs | _ => "?"

def encSrc : Src → String
  | .lit o => encObjLit o | .a => "a" | .b => "b"

def encKindC : Kind → String
  | .list => "cL" | .tuple => "cT" | .bytes => "cB" | .str => "cS" | .range => "cR"

def Derive.enc : Derive → String
  | .alias => "al"
  | .slice sl => "sl=" ++ encSl sl
  | .concat c left => (if left then "cl=" else "cr=") ++ encObjLit c
  | .rep n left => (if left then "ml=" else "mr=") ++ toString n
  | .ctor k => encKindC k

def Mutate.enc : Mutate → String
  | .iadd c => "ia=" ++ encSrc c
  | .imul n => "im=" ++ toString n
  | .append x => "ap=" ++ toString x
  | .extend c => "ex=" ++ encSrc c
  | .setSlice sl v => "ss=" ++ encSl sl ++ "=" ++ encSrc v
  | .delSlice sl => "ds=" ++ encSl sl
  | .setIndex i x => "si=" ++ encComp i ++ "=" ++ toString x
  | .delIndex i => "di=" ++ encComp i

def Hist.enc (hs : Hist) : String :=
  "hist " ++ hs.base.enc ++ " " ++ (match hs.built with | some k => encKindC k | Option.none => "-") ++ " " ++ hs.derive.enc
    ++ " " ++ " ".intercalate (hs.muts.map (·.enc))

def isPanic {α} : Except Err α → Bool | .error .panic => true | _ => false

def pairNames : List (String × Nat × Nat) := [("ab", 0, 1), ("ar1", 0, 2), ("ar2", 0, 3), ("br1", 1, 2), ("br2", 1, 3), ("r1r2", 2, 3)]

/-- the R column: which of the observed objects share cells, and how many live cells of one lie in the spare
capacity of the other -/
def sharingR (h : Heap) (objs : List (Option HObj)) : String :=
  let parts := pairNames.filterMap fun (nm, i, j) =>
    match objs.getD i Option.none, objs.getD j Option.none with
    | some x, some y =>
      match x, y with
      | .list p, .list q => if p = q then some (nm ++ ":=") else
        let (l, sx, sy) := sharing (h.list p) (h.list q)
        if (l, sx, sy) = (0, 0, 0) then Option.none else some s!"{nm}:{l}/{sx}/{sy}"
      | _, _ =>
        match x.hdr? h, y.hdr? h with
        | some hx, some hy =>
          -- tuples and lists hold interfaces, bytes hold bytes: different arrays by type
          let sameElem := (match x, y with | .bytes _, .bytes _ => true | .bytes _, _ => false | _, .bytes _ => false | _, _ => true)
          let (l, sx, sy) := if sameElem then sharing hx hy else (0, 0, 0)
          if (l, sx, sy) = (0, 0, 0) then Option.none else some s!"{nm}:{l}/{sx}/{sy}"
        | _, _ => Option.none
    | _, _ => Option.none
  ";".intercalate parts

/-- the model's outcome of a history: V = `A=…|B=…|R=…|R=…` rendered AFTER the last operation -/
def Hist.model (hs : Hist) : String × String :=
  match hs.base.model with
  | .error e => (e.py ++ "@a", "")
  | .ok o =>
    let (h, a0) := hLit Heap.empty o
    let ra := match hs.built with
      | Option.none => Except.ok (h, a0)
      | some k => hDerive growExe h a0 (.ctor k)
    match ra with
    | .error .panic => ("PANIC", "")
    | .error e => (e.py ++ "@a", "")
    | .ok (h, a) =>
      match hDerive growExe h a hs.derive with
      | .error .panic => ("PANIC", "")
      | .error e => (s!"{e.py}@b|A={(h.val a).show.1}", "")
      | .ok (h, b) =>
        let (h, rs) := hs.muts.foldl (fun (acc : Heap × List (Except Err HObj)) m =>
          match hMutate growExe acc.1 a b m with
          | .ok (h', r) => (h', acc.2 ++ [.ok r])
          | .error e => (acc.1, acc.2 ++ [.error e])) (h, [])
        if rs.any isPanic then ("PANIC", "") else
        let v := s!"A={(h.val a).show.1}|B={(h.val b).show.1}" ++
          String.join (rs.map fun r => match r with | .ok r => "|R=" ++ (h.val r).show.1 | .error e => "|R=" ++ e.py)
        let objs : List (Option HObj) := [some a, some b] ++ rs.map (fun r => match r with | .ok r => some r | .error _ => Option.none)
        (v, sharingR h objs)

/-- specification objects: immutable values, and lists with identity -/
inductive SObj where
  | imm (s : SSeq)
  | lref (i : Nat)
deriving Repr, Inhabited

def sVal (st : List (List Int)) : SObj → SSeq
  | .imm s => s
  | .lref i => ⟨.list, st.getD i []⟩

/-- a computed value becomes an object: a list result is a NEW list -/
def sFresh (st : List (List Int)) (s : SSeq) : List (List Int) × SObj :=
  if s.kind = .list then (st ++ [s.items], .lref st.length) else (st, .imm s)

def objSpec : Obj → SSeq
  | .list xs => ⟨.list, xs⟩ | .tuple xs => ⟨.tuple, xs⟩ | .str xs => ⟨.str, xs⟩ | .bytes xs => ⟨.bytes, xs⟩ | _ => ⟨.tuple, []⟩

def sSeqOf : Except Err SVal → Except Err SSeq
  | .ok (.seq s) => .ok s
  | .ok _ => .error .type
  | .error e => .error e

/-- `tuple(x)`, `list(x)`, `bytes(x)` -/
def sCtor (k : Kind) (src : SSeq) : Except Err SSeq :=
  match k with
  | .tuple => .ok ⟨.tuple, src.items⟩
  | .list => .ok ⟨.list, src.items⟩
  | .bytes =>
    if src.kind = .str then .error .type
    else if src.kind = .bytes then .ok src
    else if src.items.all (fun x => 0 ≤ x ∧ x < 256) then .ok ⟨.bytes, src.items⟩ else .error .value
  | _ => .error .type

def sDerive (st : List (List Int)) (a : SObj) : Derive → Except Err (List (List Int) × SObj)
  | .alias => .ok (st, a)
  | .slice sl => do let s ← sSeqOf (specGetItem (sVal st a) (.slice sl)); pure (sFresh st s)
  | .concat c left => do
    let s ← sSeqOf (if left then specAdd (objSpec c) (sVal st a) else specAdd (sVal st a) (objSpec c))
    pure (sFresh st s)
  | .rep n _ => do let s ← sSeqOf (specMul (sVal st a) (.int n)); pure (sFresh st s)
  | .ctor k => do
    let s ← sCtor k (sVal st a)
    -- tuple(t) and bytes(b) may return the same immutable object: no difference in value semantics
    pure (sFresh st s)

def sSrc (st : List (List Int)) (a b : SObj) : Src → SSeq
  | .lit o => objSpec o | .a => sVal st a | .b => sVal st b

def sMutate (st : List (List Int)) (a b : SObj) : Mutate → Except Err (List (List Int) × SObj)
  | .iadd c =>
    let cv := sSrc st a b c
    match b with
    | .lref i => if cv.kind = .range then .error .type else .ok (st.set i (st.getD i [] ++ cv.items), b)
    | .imm s => do let r ← sSeqOf (specAdd s cv); pure (st, .imm r)
  | .imul n =>
    match b with
    | .lref i => do let r ← sSeqOf (specMul ⟨.list, st.getD i []⟩ (.int n)); pure (st.set i r.items, b)
    | .imm s => do let r ← sSeqOf (specMul s (.int n)); pure (st, .imm r)
  | .append x =>
    match b with
    | .lref i => .ok (st.set i (st.getD i [] ++ [x]), b)
    | _ => .error .type
  | .extend c =>
    let cv := sSrc st a b c
    match b with
    | .lref i => .ok (st.set i (st.getD i [] ++ cv.items), b)
    | _ => .error .type
  | .setSlice sl v =>
    let vv := sSrc st a b v
    match b with
    | .lref i => do let xs ← specSetSlice (st.getD i []) sl (some vv.items); pure (st.set i xs, b)
    | _ => .error .type
  | .delSlice sl =>
    match b with
    | .lref i => do let xs ← specDelSlice (st.getD i []) sl; pure (st.set i xs, b)
    | _ => .error .type
  | .setIndex ix x =>
    match b with
    | .lref i => do let p ← specIndex (st.getD i []).length ix; pure (st.set i ((st.getD i []).set p x), b)
    | _ => .error .type
  | .delIndex ix =>
    match b with
    | .lref i => do let p ← specIndex (st.getD i []).length ix; pure (st.set i ((st.getD i []).eraseIdx p), b)
    | _ => .error .type

/-- Python value semantics of a history: immutable objects never change, list results are new objects,
in-place list operations are seen through every name of that list -/
def Hist.spec (hs : Hist) : String :=
  match hs.base.spec with
  | .error e => e.py ++ "@a"
  | .ok o =>
    let ra : Except Err (List (List Int) × SObj) := match hs.built with
      | Option.none => .ok (sFresh [] o)
      | some k => do let s ← sCtor k o; pure (sFresh [] s)
    match ra with
    | .error e => e.py ++ "@a"
    | .ok (st, a) =>
      match sDerive st a hs.derive with
      | .error e => s!"{e.py}@b|A={(sVal st a).show}"
      | .ok (st, b) =>
        let (st, rs) := hs.muts.foldl (fun (acc : List (List Int) × List (Except Err SObj)) m =>
          match sMutate acc.1 a b m with
          | .ok (st', r) => (st', acc.2 ++ [.ok r])
          | .error e => (acc.1, acc.2 ++ [.error e])) (st, [])
        s!"A={(sVal st a).show}|B={(sVal st b).show}" ++
          String.join (rs.map fun r => match r with | .ok r => "|R=" ++ (sVal st r).show | .error e => "|R=" ++ e.py)

def emitHist (hs : Hist) : IO Unit :=
  let (mV, mR) := hs.model
  IO.println ({ input := hs.enc, modelV := mV, modelR := mR, specV := hs.spec, tags := ["nt"] } : Case).line

def litOfKind (k : Kind) (xs : List Int) : Obj :=
  match k with | .list => .list xs | .tuple => .tuple xs | .bytes => .bytes xs | _ => .str xs

def isc (a b c : Idx) : Slice := ⟨a, b, c⟩

/-- the derivations tried for an `a` of kind `k` and length `n` -/
def derivesFor (k : Kind) (n : Nat) (th : Bool) : List Derive :=
  let N := Idx.none
  let i (v : Int) := Idx.int v
  let n' : Int := n
  let slices : List Slice :=
    [isc N N N, isc N N (i 1)] ++ (List.range (n + 1)).map (fun (j : Nat) => isc (i 0) (i j) N) ++
    (List.range (n + 1)).map (fun (j : Nat) => isc (i j) N N) ++
    [isc (i 1) (i (n' - 1)) N, isc (i 2) (i 1) N, isc (i (-2)) N N, isc N (i (-1)) N, isc (i 0) (i 100) N, isc (i 1) (i 2) (i 1),
     isc N N (i (-1)), isc N N (i 2), isc (i 1) N (i 2), isc N (i 1) (Idx.bool true), isc N N (i 0)] ++
    (if th then [isc (i (-3)) (i (-1)) N, isc (i 1) (i (-1)) (i 1), isc N (i 2) (i (-1)), isc (i 2) (i 3) N, isc (i 1) (i 3) N] else [])
  [Derive.alias] ++ slices.eraseDups.map Derive.slice ++
  [.concat (litOfKind k []) false, .concat (litOfKind k [7]) false, .concat (litOfKind k [7, 8]) true, .concat (litOfKind k []) true,
   .concat (.tuple [7]) false, .rep 0 false, .rep 1 false, .rep 2 false, .rep (-1) true, .rep 1 true, .rep 3 true,
   .ctor .tuple, .ctor .list] ++ (if k = .str then [] else [.ctor .bytes])

/-- growing operations on an immutable `b` -/
def immMuts (k : Kind) : List Mutate :=
  [.iadd (.lit (litOfKind k [9])), .iadd (.lit (litOfKind k [9, 8, 7, 6, 5, 4, 3])), .iadd (.lit (litOfKind k [])),
   .iadd .a, .iadd .b, .imul 2, .imul 1, .imul 0]

/-- growing / in-place operations on a list `b` -/
def listMuts (th : Bool) : List Mutate :=
  let N := Idx.none
  let i (v : Int) := Idx.int v
  [.iadd (.lit (.list [9])), .iadd .a, .iadd .b, .append 9, .extend (.lit (.list [8, 9])), .extend .b,
   .setSlice (isc (i 1) (i 2) N) (.lit (.list [7, 7, 7])), .setSlice (isc (i 1) N N) (.lit (.list [])), .setSlice (isc N N N) .a,
   .setSlice (isc (i 0) (i 1) N) .b, .setSlice (isc N N (i (-1))) .b, .setSlice (isc (i 1) (i 1) N) (.lit (.tuple [5, 6])),
   .setSlice (isc N (i 0) N) (.lit (.bytes [3])), .setSlice (isc N N (i 2)) (.lit (.list [4])),
   .delSlice (isc N (i 1) N), .delSlice (isc (i 1) N N), .delSlice (isc N N (i 2)), .delSlice (isc N N (i (-1))),
   .setIndex (i 0) 6, .setIndex (i (-1)) 6, .delIndex (i 0), .delIndex (i (-1))] ++
  (if th then [.setSlice (isc (i 2) (i 1) N) (.lit (.list [1, 2])), .delSlice (isc (i 1) (i (-1)) N), .delIndex (i 1), .extend .a,
               .setSlice (isc N N N) (.lit (.str [120, 121]))] else [])

def histBases (th : Bool) : List (SeqLit × Option Kind × Kind) := Id.run do
  let mut out : List (SeqLit × Option Kind × Kind) := []
  let lens : List Nat := if th then [0, 1, 2, 3, 4, 5, 7] else [0, 1, 3, 5]
  for n in lens do
    let r := SeqLit.range (.int 0) (.int n) (.int 1)
    out := out ++ [
      (.tuple (upto n 0), Option.none, Kind.tuple), (r, some .tuple, .tuple), (.bytes (upto n 0), some .tuple, .tuple), (.list (upto n 0), some .tuple, .tuple),
      (.list (upto n 0), Option.none, .list), (r, some .list, .list), (.tuple (upto n 0), some .list, .list),
      (.bytes (upto n 0), Option.none, .bytes), (.list (upto n 0), some .bytes, .bytes), (r, some .bytes, .bytes)]
  for n in [0, 2, 3] do
    out := out ++ [(.str (upto n 97), Option.none, Kind.str), (.str (mixedStr n), Option.none, .str)]
  return out

def genHist (th : Bool) (seed : Nat) : IO Unit := do
  for (base, built, k) in histBases th do
    let n := match base.spec with | .ok s => s.items.length | .error _ => 0
    for d in derivesFor k n th do
      -- the kind of b decides which growing operations exist
      let bk : Kind := match d with
        | .ctor k' => k'
        | _ => k
      -- `+=` / `extend` take the other object of the history only when it has the same kind
      -- (`list += tuple` is a TypeError in gpython, legal in Python: container semantics, C17)
      let sameKind : Mutate → Bool
        | .iadd .a => bk = k
        | .extend .a => bk = k
        | _ => true
      let ms : List Mutate := (if bk = .list then listMuts th else immMuts bk).filter sameKind
      let seconds : List Mutate := if th then ms else
        (if bk = .list then [.iadd (.lit (.list [5])), .append 6, .setSlice (isc (.int 1) .none .none) (.lit (.list [])), .delIndex (.int (-1)), .iadd .b]
         else [.iadd (.lit (litOfKind bk [5])), .iadd (.lit (litOfKind bk [5, 6, 7, 8])), .imul 2])
      emitHist ⟨base, built, d, []⟩
      for m1 in ms do
        emitHist ⟨base, built, d, [m1]⟩
        for m2 in seconds do
          emitHist ⟨base, built, d, [m1, m2]⟩
  -- seeded random histories on longer operands
  let nrand := if th then 60000 else 8000
  let mut r : Rng := ⟨(seed + 7919).toUInt64⟩
  for _ in [0:nrand] do
    let (r1, n) := r.nat 10
    let (r2, ks) := r1.nat 3
    let (r3, bs) := r2.nat 3
    let k : Kind := match ks with | 0 => .tuple | 1 => .list | _ => .bytes
    let rg := SeqLit.range (.int 0) (.int n) (.int 1)
    let (base, built) : SeqLit × Option Kind := match k, bs with
      | .tuple, 0 => (.tuple (upto n 0), Option.none) | .tuple, 1 => (rg, some .tuple) | .tuple, _ => (.bytes (upto n 0), some .tuple)
      | .list, 0 => (.list (upto n 0), Option.none) | .list, 1 => (rg, some .list) | .list, _ => (.tuple (upto n 0), some .list)
      | _, 0 => (.bytes (upto n 0), Option.none) | _, 1 => (.list (upto n 0), some .bytes) | _, _ => (rg, some .bytes)
    let pickC (r : Rng) : Rng × Idx :=
      let (r, sel) := r.nat 4
      if sel == 0 then (r, Idx.none) else let (r, v) := r.nat 25; (r, Idx.int ((v : Int) - 12))
    let pickStep (r : Rng) : Rng × Idx :=
      let (r, sel) := r.nat 6
      if sel ≤ 2 then (r, Idx.none) else if sel == 3 then (r, Idx.int 1) else let (r, v) := r.nat 7; (r, Idx.int ((v : Int) - 3))
    let pickSl (r : Rng) : Rng × Slice :=
      let (r, a) := pickC r
      let (r, b) := pickC r
      let (r, c) := pickStep r
      (r, ⟨a, b, c⟩)
    let (r4, sl) := pickSl r3
    let (r5, dsel) := r4.nat 8
    let (r6, cl) := r5.nat 4
    let d : Derive := match dsel with
      | 0 => .alias | 1 => .concat (litOfKind k (upto cl 50)) false | 2 => .concat (litOfKind k (upto cl 50)) true
      | 3 => .rep ((cl : Int) - 1) false | 4 => .ctor k | _ => .slice sl
    let pickMut (r : Rng) : Rng × Mutate :=
      let (r, sel) := r.nat (if k = .list then 10 else 3)
      let (r, sl) := pickSl r
      let (r, len) := r.nat 5
      let (r, src) := r.nat 4
      let (r, iv) := r.nat 9
      let s : Src := match src with | 0 => .a | 1 => .b | _ => .lit (litOfKind k (upto len 60))
      match sel with
      | 0 => (r, .iadd s) | 1 => (r, .iadd (.lit (litOfKind k (upto len 60))))
      | 2 => (r, if k = .list then .append 33 else .imul ((len : Int) - 1))
      | 3 => (r, .extend s) | 4 => (r, .setSlice sl s) | 5 => (r, .setSlice sl (.lit (.tuple (upto len 70))))
      | 6 => (r, .delSlice sl) | 7 => (r, .setIndex (.int ((iv : Int) - 4)) 44) | 8 => (r, .delIndex (.int ((iv : Int) - 4)))
      | _ => (r, .setSlice ⟨sl.start, sl.stop, .none⟩ s)
    let (r7, m1) := pickMut r6
    let (r8, m2) := pickMut r7
    r := r8
    emitHist ⟨base, built, d, [m1, m2]⟩

def genMain (tier : String) (seed : Nat) : IO Unit := do
  let th := tier == "thorough"
  let maxLen := if th then 6 else 4
  let k : Int := if th then 9 else 5
  let cs := comps k
  -- 1. every sequence type × length × (start, stop, step): get; list: del, set
  for n in List.range (maxLen + 1) do
    for a in cs do
      for b in cs do
        for c in cs do
          let key := Key.slice ⟨a, b, c⟩
          for s in seqsOfLen n th do emit (.get s key)
          emit (.del (.list (upto n 0)) key)
          -- assignment values: every length 0..maxLen+2 for contiguous slices; for extended slices the
          -- matching length and its neighbours
          let m := match specSliceIdx n ⟨a, b, c⟩ with | .ok l => l.length | .error _ => 0
          let contiguous := c == Idx.none || c == Idx.int 1
          let lens := if contiguous then (if th then List.range (maxLen + 3) else [0, 1, 2, n + 1]) else [m, m + 1, m - 1]
          for vl in lens.eraseDups do
            emit (.set (.list (upto n 0)) key (.seq (.list (upto vl 20))))
          if a == Idx.none || b == Idx.none then
            emit (.set (.list (upto n 0)) key .self)
            emit (.set (.list (upto n 0)) key (.elem 5))
            emit (.set (.list (upto n 0)) key (.seq (.tuple (upto m 30))))
  -- 2. index keys
  let idxs : List Idx := ((List.range 19).map (fun (i : Nat) => Idx.int (Int.ofNat i - 9))) ++ bigVals.map mkIdx ++ [.none, .bad, .bool true, .bool false]
  for n in List.range (maxLen + 1) do
    for i in idxs do
      for s in seqsOfLen n true ++ [.bytes (upto n 1)] do
        emit (.get s (.idx i))
        emit (.set s (.idx i) (.elem 55))
        emit (.del s (.idx i))
  -- 3. slices with odd components (bool, non-integers) and assignment from every kind of value
  let odd : List Idx := [.none, .bad, .bool true, .bool false, .int 0, .int 2, .int (-1)]
  for a in odd do
    for b in odd do
      for c in odd do
        let key := Key.slice ⟨a, b, c⟩
        for s in seqsOfLen 3 false ++ [.bytes [1, 2, 3]] do
          emit (.get s key)
        emit (.del (.list (upto 3 0)) key)
        emit (.del (.tuple (upto 3 0)) key)
        for v in [ValLit.seq (.list [7, 8]), .seq (.str [120, 233]), .seq (.bytes [9, 8]), .seq (.range (.int 5) (.int 7) (.int 1)),
                  .seq (.tuple []), .elem 4, .self] do
          emit (.set (.list (upto 3 0)) key v)
        emit (.set (.tuple (upto 3 0)) key (.seq (.list [7])))
        emit (.set (.str (upto 3 97)) key (.seq (.str [120])))
  -- 4. concatenation, repetition, len, membership, comparison, iteration
  let smalls : List SeqLit := Id.run do
    let mut out : List SeqLit := []
    for n in List.range 4 do
      out := out ++ [.list (upto n 0), .tuple (upto n 0), .str (upto n 97), .str (mixedStr n), .bytes (upto n 1),
                     .range (.int 0) (.int n) (.int 1), .range (.int n) (.int 0) (.int (-1)), .range (.int 1) (.int (1 + 2 * n)) (.int 2)]
    out := out ++ [.list [0, 2], .list [1], .tuple [0, 2], .str [97, 99], .bytes [1, 3], .list [2, 1, 0], .tuple [1, 0],
                   .range (.int 0) (.int 1) (.int 5), .range (.int 0) (.int 1) (.int 7), .range (.int 3) (.int 3) (.int 1),
                   .range (.int 0) (.int 3) (.int 1), .range (.int 0) (.int 5) (.int 2), .range (.int 0) (.int 6) (.int 2)]
    return out
  for a in smalls do
    emit (.len a); emit (.iter a); emit (.iadd a Option.none)
    for e in [0, 1, 2, 5, 97, -1] do emit (.contains a e)
    for nd in [[], [97], [97, 98], [98], [233, 8364], [99, 98]] do emit (.containsStr a nd)
    for n in [Idx.int 0, .int 1, .int 2, .int 3, .int (-1), .int (-9223372036854775808), .bool true, .bool false, .none, .bad,
              mkIdx 18446744073709551616, mkIdx (-18446744073709551616)] do
      emit (.mul a n false); emit (.mul a n true)
    for b in smalls do
      emit (.add a b); emit (.iadd a (some b))
      for op in [CmpOp.lt, .le, .eq, .ne, .gt, .ge] do emit (.cmp op a b)
  -- results of += on immutable values must not share storage
  for (x, y, z, w) in [((SeqLit.bytes [1]), (SeqLit.bytes [2]), (SeqLit.bytes [3]), (SeqLit.bytes [4])),
                        (.bytes [], .bytes [1, 2, 3], .bytes [4], .bytes [5, 6]),
                        (.tuple [1], .tuple [2], .tuple [3], .tuple [4]), (.str [97], .str [98], .str [99], .str [100]),
                        (.bytes [1, 2, 3, 4, 5, 6, 7], .bytes [8, 9], .bytes [10], .bytes [11])] do
    emit (.iadd3 x y z w)
  -- 5. repetition whose length leaves int64 (C13-K04): only counts whose wrapped product is small
  for (xs, b) in [(upto 2 0, (4611686018427387904 : Int)), (upto 4 0, 4611686018427387904), (upto 4 0, 4611686018427387905),
                  (upto 3 0, 6148914691236517206), (upto 2 0, 9223372036854775807), (upto 1 0, 9223372036854775807 - 9223372036854775807 + 3),
                  (upto 0 0, 9223372036854775807), (upto 3 0, 6148914691236517205), (upto 2 0, -4611686018427387904)] do
    emit (.mul (.list xs) (.int b) false); emit (.mul (.tuple xs) (.int b) true)
  -- 6. range(): constructor errors, ranges near the int64 limits (C13-K05), huge slice steps
  for (a, b, c) in [((0 : Int), (5 : Int), (0 : Int)), (5, 0, 0), (0, 0, 0)] do
    emit (.len (.range (.int a) (.int b) (.int c))); emit (.get (.range (.int a) (.int b) (.int c)) (.idx (.int 0)))
  emit (.len (.range .bad (.int 1) (.int 1))); emit (.len (.range (.int 1) .none (.int 1)))
  let w : Int := 9223372036854775807
  for (a, b, c) in [(w - 5, w, (1 : Int)), (w - 5, w, 2), (-w - 1, -w + 3, 1), (-w + 4, -w - 1, -1), (-w + 4, -w - 1, -2),
                    (0, w, 4611686018427387904), (-w - 1, w, w), (w, -w - 1, -w), (18446744073709551616, 18446744073709551619, 1),
                    (0, 5, 18446744073709551616), (w, -w - 1, -w - 1), (0, 3, -w - 1), (3, 0, -w - 1)] do
    let r := SeqLit.range (mkIdx a) (mkIdx b) (mkIdx c)
    emit (.len r); emit (.get r (.idx (.int 0))); emit (.get r (.idx (.int (-1)))); emit (.get r (.idx (.int 1)))
    emit (.iter r)
    emit (.get r (.slice ⟨.none, .none, .int (-1)⟩)); emit (.get r (.slice ⟨.int 1, .none, .none⟩))
    emit (.cmp .eq r r)
  -- 6b. short histories over the slice-header model (derive, grow, observe both)
  genHist th seed
  -- 7. seeded random cases: longer sequences, bounds anywhere (also next to ±2^63)
  let nrand := if th then 120000 else 12000
  let mut r : Rng := ⟨seed.toUInt64⟩
  for _ in [0:nrand] do
    let (r1, n) := r.nat 13
    let (r2, kindSel) := r1.nat 8
    let pickComp (r : Rng) : Rng × Idx :=
      let (r, sel) := r.nat 10
      if sel == 0 then (r, Idx.none)
      else if sel ≤ 6 then let (r, v) := r.nat 33; (r, Idx.int ((v : Int) - 16))
      else if sel == 7 then let (r, v) := r.nat 7; (r, mkIdx (9223372036854775808 - 3 + v))
      else if sel == 8 then let (r, v) := r.nat 7; (r, mkIdx (-9223372036854775808 - 3 + v))
      else let (r, v) := r.bits 70; let (r, sg) := r.nat 2; (r, mkIdx (if sg == 0 then (v : Int) else -(v : Int)))
    let (r3, a) := pickComp r2
    let (r4, b) := pickComp r3
    let (r5, c) := pickComp r4
    let (r6, vl) := r5.nat 14
    let (r7, ra) := r6.nat 41
    let (r8, rc) := r7.nat 9
    r := r8
    let key := Key.slice ⟨a, b, c⟩
    let rcv : Int := if rc == 4 then 5 else (rc : Int) - 4
    let s : SeqLit := match kindSel with
      | 0 => .list (upto n 0) | 1 => .tuple (upto n 0) | 2 => .str (upto n 97) | 3 => .str ((mixedStr 9 ++ mixedStr 9).take n)
      | 4 => .range (.int ((ra : Int) - 20)) (.int ((ra : Int) - 20 + rcv * n)) (.int rcv)
      | 5 => .range (.int ((ra : Int) - 20)) (.int ((ra : Int) - 20 + rcv * n - (if rcv > 0 then 1 else -1))) (.int rcv)
      | _ => .list (upto n 0)
    emit (.get s key)
    emit (.get s (.idx a))
    if kindSel ≥ 6 || kindSel ≤ 1 then
      emit (.del (.list (upto n 0)) key)
      let m := match specSliceIdx n ⟨a, b, c⟩ with | .ok l => l.length | .error _ => 0
      emit (.set (.list (upto n 0)) key (.seq (.list (upto (if vl % 3 == 0 then vl else m) 40))))
      emit (.del (.list (upto n 0)) (.idx a))
      emit (.set (.list (upto n 0)) (.idx b) (.elem 9))

end GPy.C13
