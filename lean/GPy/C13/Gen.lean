/-
C13 case generator.  Exhaustive part (the property's "Explored" clause): every sequence type ×
every small length × every (start, stop, step) over {None, -k..k, ±(2^63-1), ±2^63, ±2^64} ×
every operation; plus seeded random cases on longer sequences with bounds near ±2^63.
One `Case` per line: input, model V/R, spec V, tags.
-/
import GPy.C13.Spec
namespace GPy.C13

def Err.py : Err → String
  | .index => "E:IndexError" | .value => "E:ValueError" | .type => "E:TypeError"
  | .overflow => "E:OverflowError" | .memory => "E:MemoryError" | .stopIter => "E:StopIteration"
  | .panic => "PANIC"

def joinInts (xs : List Int) : String := ",".intercalate (xs.map toString)

def encComp : Idx → String
  | .none => "n" | .int v => toString v | .big v => toString v
  | .bool b => if b then "t1" else "t0" | .bad => "x"

def encKey : Key → String
  | .idx (.int v) => s!"i:{v}"
  | .idx (.big v) => s!"i:{v}"
  | .idx c => encComp c
  | .slice s => s!"s:{encComp s.start}:{encComp s.stop}:{encComp s.step}"

def SeqLit.enc : SeqLit → String
  | .list xs => "L:" ++ joinInts xs
  | .tuple xs => "T:" ++ joinInts xs
  | .str xs => "S:" ++ joinInts xs
  | .bytes xs => "B:" ++ joinInts xs
  | .range a b c => s!"R:{encComp a},{encComp b},{encComp c}"

def SeqLit.kind : SeqLit → Kind
  | .list _ => .list | .tuple _ => .tuple | .str _ => .str | .bytes _ => .bytes | .range .. => .range

/-- rendering of a model object (same text as harness/c13.go `c13Show`) -/
def Obj.show : Obj → String × String
  | .list xs => ("L:" ++ joinInts xs, "")
  | .tuple xs => ("T:" ++ joinInts xs, "")
  | .str xs => ("S:" ++ joinInts xs, "")
  | .bytes xs => ("B:" ++ joinInts xs, "")
  | .range r =>
    let (xs, cut) := rangeDrain r 0 drainCap
    (s!"R:{joinInts (xs ++ (if cut then [8230] else []))}#{r.length}", s!"{r.start},{r.stop},{r.step}")
  | .int v => (s!"I:{v}", "")
  | .bool b => (if b then "True" else "False", "")
  | .none => ("None", "")
  | .iter xs cut => ("it:" ++ joinInts (xs ++ (if cut then [8230] else [])), "")

def SSeq.show (s : SSeq) : String :=
  match s.kind with
  | .list => "L:" ++ joinInts s.items
  | .tuple => "T:" ++ joinInts s.items
  | .str => "S:" ++ joinInts s.items
  | .bytes => "B:" ++ joinInts s.items
  | .range => s!"R:{joinInts s.items}#{s.items.length}"

def SVal.show : SVal → String
  | .seq s => s.show
  | .int v => s!"I:{v}"
  | .bool b => if b then "True" else "False"
  | .none => "None"
  | .items xs => "it:" ++ joinInts xs

/-- the value operand of an assignment -/
inductive ValLit where
  | seq (s : SeqLit)
  | elem (v : Int)
  | self
deriving Repr, Inhabited

inductive Cmd where
  | get (s : SeqLit) (k : Key)
  | set (s : SeqLit) (k : Key) (v : ValLit)
  | del (s : SeqLit) (k : Key)
  | add (a b : SeqLit)
  | iadd (a : SeqLit) (b : Option SeqLit)      -- `none` = `a += a`
  | iadd3 (x y z w : SeqLit)
  | mul (s : SeqLit) (n : Idx) (r : Bool)      -- r: the count is the left operand
  | len (s : SeqLit)
  | contains (s : SeqLit) (e : Int)
  | containsStr (s : SeqLit) (needle : List Int)
  | cmp (op : CmpOp) (a b : SeqLit)
  | iter (s : SeqLit)
deriving Repr, Inhabited

def Cmd.enc : Cmd → String
  | .get s k => s!"get {s.enc} {encKey k}"
  | .set s k v => s!"set {s.enc} {encKey k} " ++ (match v with | .seq l => l.enc | .elem x => s!"e:{x}" | .self => "self")
  | .del s k => s!"del {s.enc} {encKey k}"
  | .add a b => s!"add {a.enc} {b.enc}"
  | .iadd a b => s!"iadd {a.enc} " ++ (match b with | some b => b.enc | Option.none => "self")
  | .iadd3 x y z w => s!"iadd3 {x.enc} {y.enc} {z.enc} {w.enc}"
  | .mul s n r => (if r then "rmul " else "mul ") ++ s.enc ++ " " ++ encKey (.idx n)
  | .len s => s!"len {s.enc}"
  | .contains s e => s!"in {s.enc} e:{e}"
  | .containsStr s n => s!"in {s.enc} S:{joinInts n}"
  | .cmp op a b => s!"cmp {op.name} {a.enc} {b.enc}"
  | .iter s => s!"iter {s.enc}"

/-- outcome = result (or exception) and the operands afterwards -/
structure Outcome (ρ ω : Type) where
  res : Except Err ρ
  ops : List ω

def orFail {α ρ ω} (x : Except Err α) (k : α → Outcome ρ ω) : Outcome ρ ω :=
  match x with
  | .error e => ⟨.error e, []⟩
  | .ok a => k a

/-- the model's outcome of a command -/
def modelOf : Cmd → Outcome Obj Obj
  | .get s k => orFail s.model fun o => ⟨getItem o k, [o]⟩
  | .set s k v => orFail s.model fun o =>
    let (vo, extra) : Except Err Obj × Bool := match v with
      | .self => (.ok o, false) | .elem x => (.ok (.int x), false) | .seq l => (l.model, true)
    orFail vo fun vobj =>
      match setItem o k vobj with
      | .ok o' => ⟨.ok .none, o' :: (if extra then [vobj] else [])⟩
      | .error e => ⟨.error e, o :: (if extra then [vobj] else [])⟩
  | .del s k => orFail s.model fun o =>
    match delItem o k with
    | .ok o' => ⟨.ok .none, [o']⟩
    | .error e => ⟨.error e, [o]⟩
  | .add a b => orFail a.model fun x => orFail b.model fun y => ⟨add x y, [x, y]⟩
  | .iadd a b => orFail a.model fun x =>
    match b with
    | some b => orFail b.model fun y =>
      match x, add x y with
      | .list _, .ok r => ⟨.ok r, [r, y]⟩        -- list += extends in place and returns the list
      | _, r => ⟨r, [x, y]⟩
    | Option.none =>
      match x, add x x with
      | .list _, .ok r => ⟨.ok r, [r]⟩
      | _, r => ⟨r, [x]⟩
  | .iadd3 x y z w => orFail x.model fun x => orFail y.model fun y => orFail z.model fun z => orFail w.model fun w =>
    match add x y with
    | .error e => ⟨.error e, [x, y, z, w]⟩
    | .ok r1 =>
      match add r1 z, add r1 w with
      | .ok r2, .ok r3 => ⟨.ok (.str []), [r2, r3]⟩   -- rendered specially
      | .error e, _ => ⟨.error e, [x, y, z, w]⟩
      | _, .error e => ⟨.error e, [x, y, z, w]⟩
  | .mul s n _ => orFail s.model fun o => ⟨mul o n, [o]⟩
  | .len s => orFail s.model fun o => ⟨len o, [o]⟩
  | .contains s e => orFail s.model fun o => ⟨contains o (.int e), [o]⟩
  | .containsStr s n => orFail s.model fun o => ⟨contains o (.str n), [o]⟩
  | .cmp op a b => orFail a.model fun x => orFail b.model fun y => ⟨cmp op x y, [x, y]⟩
  | .iter s => orFail s.model fun o => ⟨iter o, [o]⟩

def specAdd (x y : SSeq) : Except Err SVal :=
  if x.kind = y.kind ∧ x.kind ≠ .range then .ok (.seq ⟨x.kind, x.items ++ y.items⟩) else .error .type

/-- the specification's outcome of a command -/
def specOf : Cmd → Outcome SVal SSeq
  | .get s k => orFail s.spec fun o => ⟨specGetItem o k, [o]⟩
  | .set s k v => orFail s.spec fun o =>
    let (vo, extra) : Except Err (Option SSeq × Option Int) × Bool := match v with
      | .self => (.ok (some o, Option.none), false)
      | .elem x => (.ok (Option.none, some x), false)
      | .seq l => (l.spec.map (fun q => (some q, Option.none)), true)
    orFail vo fun (vs, ve) =>
      let exs := match vs with | some q => if extra then [q] else [] | Option.none => []
      if o.kind ≠ .list then ⟨.error .type, o :: exs⟩ else
      let r : Except Err (List Int) := match k with
        | .slice sl => specSetSlice o.items sl (vs.map (·.items))
        | .idx i => do
          let p ← specIndex o.items.length i
          match ve with
          | some x => pure (o.items.set p x)
          | Option.none => throw .type
      match r with
      | .ok xs => ⟨.ok .none, ⟨.list, xs⟩ :: exs⟩
      | .error e => ⟨.error e, o :: exs⟩
  | .del s k => orFail s.spec fun o =>
    if o.kind ≠ .list then ⟨.error .type, [o]⟩ else
    let r : Except Err (List Int) := match k with
      | .slice sl => specDelSlice o.items sl
      | .idx i => do
        let p ← specIndex o.items.length i
        pure (o.items.eraseIdx p)
    match r with
    | .ok xs => ⟨.ok .none, [⟨.list, xs⟩]⟩
    | .error e => ⟨.error e, [o]⟩
  | .add a b => orFail a.spec fun x => orFail b.spec fun y => ⟨specAdd x y, [x, y]⟩
  | .iadd a b => orFail a.spec fun x =>
    match b with
    | some b => orFail b.spec fun y =>
      match specAdd x y with
      | .ok (.seq r) => ⟨.ok (.seq r), [if x.kind = .list then r else x, y]⟩
      | r => ⟨r, [x, y]⟩
    | Option.none =>
      match specAdd x x with
      | .ok (.seq r) => ⟨.ok (.seq r), [if x.kind = .list then r else x]⟩
      | r => ⟨r, [x]⟩
  | .iadd3 x y z w => orFail x.spec fun x => orFail y.spec fun y => orFail z.spec fun z => orFail w.spec fun w =>
    if x.kind = y.kind ∧ x.kind = z.kind ∧ x.kind = w.kind ∧ x.kind ≠ .range then
      ⟨.ok (.seq ⟨.str, []⟩), [⟨x.kind, x.items ++ y.items ++ z.items⟩, ⟨x.kind, x.items ++ y.items ++ w.items⟩]⟩
    else ⟨.error .type, [x, y, z, w]⟩
  | .mul s n _ => orFail s.spec fun o => ⟨specMul o n, [o]⟩
  | .len s => orFail s.spec fun o => ⟨.ok (.int o.items.length), [o]⟩
  | .contains s e => orFail s.spec fun o => ⟨specContains o e, [o]⟩
  | .containsStr s n => orFail s.spec fun o => ⟨specContainsStr o n, [o]⟩
  | .cmp op a b => orFail a.spec fun x => orFail b.spec fun y => ⟨specCmp op x y, [x, y]⟩
  | .iter s => orFail s.spec fun o => ⟨.ok (.items o.items), [o]⟩

def isIadd3 : Cmd → Bool | .iadd3 .. => true | _ => false

def renderModel (c : Cmd) : String × String :=
  let o := modelOf c
  let ops := o.ops.map (fun x => x.show.1)
  match o.res with
  | .error .panic => ("PANIC", "")
  | .error e => ("|".intercalate (e.py :: ops), "")
  | .ok r =>
    if isIadd3 c then ("|".intercalate ops, "")
    else ("|".intercalate (r.show.1 :: ops), r.show.2)

def renderSpec (c : Cmd) : String :=
  let o := specOf c
  let ops := o.ops.map (·.show)
  match o.res with
  | .error e => "|".intercalate (e.py :: ops)
  | .ok r => if isIadd3 c then "|".intercalate ops else "|".intercalate (r.show :: ops)

/-! ### tags -/

def keyIdx? : Key → Option Idx | .idx i => some i | _ => Option.none

def rangeArgsWide (s : SeqLit) (_k : Option Key) : Bool :=
  match s with
  | .range a b c => kfRangeWide a b c
  | _ => false

def Cmd.kf (c : Cmd) : Option String :=
  let ranges : List (SeqLit × Option Key) := match c with
    | .get s k => [(s, some k)] | .set s k _ => [(s, some k)] | .del s k => [(s, some k)]
    | .add a b => [(a, Option.none), (b, Option.none)] | .iadd a _ => [(a, Option.none)]
    | .iadd3 .. => [] | .mul s _ _ => [(s, Option.none)] | .len s => [(s, Option.none)]
    | .contains s _ => [(s, Option.none)] | .containsStr s _ => [(s, Option.none)]
    | .cmp _ a b => [(a, Option.none), (b, Option.none)] | .iter s => [(s, Option.none)]
  if ranges.any (fun (s, k) => rangeArgsWide s k) then some "C13-K05" else
  match c with
  | .get s k =>
    if kfBytesOp s.kind "get" then some "C13-K01"
    else match k with
      | .idx i => if kfBigIndex i then some "C13-K03" else Option.none
      | _ => Option.none
  | .set _ (.idx i) _ => if kfBigIndex i then some "C13-K03" else Option.none
  | .del _ (.idx i) => if kfBigIndex i then some "C13-K03" else Option.none
  | .len s => if kfBytesOp s.kind "len" then some "C13-K01" else Option.none
  | .iter s => if kfBytesOp s.kind "iter" then some "C13-K01" else Option.none
  | .mul s n _ =>
    if kfBytesOp s.kind "mul" then some "C13-K01"
    else match s.spec with
      | .ok q => if q.kind ≠ .range && kfMulOverflow q.items.length n then some "C13-K04" else Option.none
      | _ => Option.none
  | .cmp op a b => if kfSeqOrder a.kind b.kind op then some "C13-K02" else Option.none
  | _ => Option.none

def compTag (n : Nat) : Idx → String
  | .none => "N" | .bad => "X" | .bool _ => "B"
  | .big _ => "H"
  | .int v => if v.natAbs > 4611686018427387904 then "H" else if v < -(n : Int) then "lo" else if v < 0 then "neg"
              else if v == 0 then "0" else if v < n then "in" else if v == n then "len" else "hi"

/-- non-trivial: anything but a plain in-range non-negative index / a `len` of a list -/
def Cmd.nontrivial (c : Cmd) (specV : String) : Bool :=
  specV.startsWith "E:" ||
  (match c with
   | .get _ (.idx (.int v)) => v < 0
   | .len _ => false
   | _ => true)

def mkCase (c : Cmd) : Case :=
  let (mV, mR) := renderModel c
  let sV := renderSpec c
  { input := c.enc, modelV := mV, modelR := mR, specV := sV,
    tags := (if c.nontrivial sV then ["nt"] else []) ++ (match c.kf with | some k => ["kf=" ++ k] | Option.none => []) }

def emit (c : Cmd) : IO Unit := IO.println (mkCase c).line

/-! ### enumeration -/

def mkIdx (v : Int) : Idx := if IntMin ≤ v ∧ v ≤ IntMax then .int v else .big v

def bigVals : List Int :=
  [9223372036854775807, -9223372036854775807, 9223372036854775808, -9223372036854775808,
   18446744073709551616, -18446744073709551616, -9223372036854775809]

def comps (k : Int) : List Idx :=
  [Idx.none] ++ ((List.range (2 * k.toNat + 1)).map (fun (i : Nat) => Idx.int (Int.ofNat i - k))) ++ bigVals.map mkIdx

def upto (n : Nat) (base : Int) : List Int := (List.range n).map (fun (i : Nat) => base + Int.ofNat i)

/-- a string of length n with 1-, 2-, 3- and 4-byte characters -/
def mixedStr (n : Nat) : List Int := ([97, 233, 8364, 128512, 98, 1234, 99, 65533, 100] : List Int).take n

def seqsOfLen (n : Nat) (thorough : Bool) : List SeqLit :=
  [.list (upto n 0), .tuple (upto n 0), .str (upto n 97), .str (mixedStr n),
   .range (.int 0) (.int n) (.int 1), .range (.int (2 * n + 3)) (.int 3) (.int (-2))]
  ++ (if thorough then [.range (.int (-4)) (.int (3 * n - 4)) (.int 3), .range (.int n) (.int 0) (.int (-1))] else [])

def genMain (tier : String) (seed : Nat) : IO Unit := do
  let th := tier == "thorough"
  let maxLen := if th then 6 else 4
  let k : Int := if th then 9 else 5
  let cs := comps k
  -- 1. every sequence type × length × (start, stop, step): get; list: del, set
  for n in List.range (maxLen + 1) do
    for a in cs do
      for b in cs do
        for c in cs do
          let key := Key.slice ⟨a, b, c⟩
          for s in seqsOfLen n th do emit (.get s key)
          emit (.del (.list (upto n 0)) key)
          -- assignment values: every length 0..maxLen+2 for contiguous slices; for extended slices the
          -- matching length and its neighbours
          let m := match specSliceIdx n ⟨a, b, c⟩ with | .ok l => l.length | .error _ => 0
          let contiguous := c == Idx.none || c == Idx.int 1
          let lens := if contiguous then (if th then List.range (maxLen + 3) else [0, 1, 2, n + 1]) else [m, m + 1, m - 1]
          for vl in lens.eraseDups do
            emit (.set (.list (upto n 0)) key (.seq (.list (upto vl 20))))
          if a == Idx.none || b == Idx.none then
            emit (.set (.list (upto n 0)) key .self)
            emit (.set (.list (upto n 0)) key (.elem 5))
            emit (.set (.list (upto n 0)) key (.seq (.tuple (upto m 30))))
  -- 2. index keys
  let idxs : List Idx := ((List.range 19).map (fun (i : Nat) => Idx.int (Int.ofNat i - 9))) ++ bigVals.map mkIdx ++ [.none, .bad, .bool true, .bool false]
  for n in List.range (maxLen + 1) do
    for i in idxs do
      for s in seqsOfLen n true ++ [.bytes (upto n 1)] do
        emit (.get s (.idx i))
        emit (.set s (.idx i) (.elem 55))
        emit (.del s (.idx i))
  -- 3. slices with odd components (bool, non-integers) and assignment from every kind of value
  let odd : List Idx := [.none, .bad, .bool true, .bool false, .int 0, .int 2, .int (-1)]
  for a in odd do
    for b in odd do
      for c in odd do
        let key := Key.slice ⟨a, b, c⟩
        for s in seqsOfLen 3 false ++ [.bytes [1, 2, 3]] do
          emit (.get s key)
        emit (.del (.list (upto 3 0)) key)
        emit (.del (.tuple (upto 3 0)) key)
        for v in [ValLit.seq (.list [7, 8]), .seq (.str [120, 233]), .seq (.bytes [9, 8]), .seq (.range (.int 5) (.int 7) (.int 1)),
                  .seq (.tuple []), .elem 4, .self] do
          emit (.set (.list (upto 3 0)) key v)
        emit (.set (.tuple (upto 3 0)) key (.seq (.list [7])))
        emit (.set (.str (upto 3 97)) key (.seq (.str [120])))
  -- 4. concatenation, repetition, len, membership, comparison, iteration
  let smalls : List SeqLit := Id.run do
    let mut out : List SeqLit := []
    for n in List.range 4 do
      out := out ++ [.list (upto n 0), .tuple (upto n 0), .str (upto n 97), .str (mixedStr n), .bytes (upto n 1),
                     .range (.int 0) (.int n) (.int 1), .range (.int n) (.int 0) (.int (-1)), .range (.int 1) (.int (1 + 2 * n)) (.int 2)]
    out := out ++ [.list [0, 2], .list [1], .tuple [0, 2], .str [97, 99], .bytes [1, 3], .list [2, 1, 0], .tuple [1, 0],
                   .range (.int 0) (.int 1) (.int 5), .range (.int 0) (.int 1) (.int 7), .range (.int 3) (.int 3) (.int 1),
                   .range (.int 0) (.int 3) (.int 1), .range (.int 0) (.int 5) (.int 2), .range (.int 0) (.int 6) (.int 2)]
    return out
  for a in smalls do
    emit (.len a); emit (.iter a); emit (.iadd a Option.none)
    for e in [0, 1, 2, 5, 97, -1] do emit (.contains a e)
    for nd in [[], [97], [97, 98], [98], [233, 8364], [99, 98]] do emit (.containsStr a nd)
    for n in [Idx.int 0, .int 1, .int 2, .int 3, .int (-1), .int (-9223372036854775808), .bool true, .bool false, .none, .bad,
              mkIdx 18446744073709551616, mkIdx (-18446744073709551616)] do
      emit (.mul a n false); emit (.mul a n true)
    for b in smalls do
      emit (.add a b); emit (.iadd a (some b))
      for op in [CmpOp.lt, .le, .eq, .ne, .gt, .ge] do emit (.cmp op a b)
  -- results of += on immutable values must not share storage
  for (x, y, z, w) in [((SeqLit.bytes [1]), (SeqLit.bytes [2]), (SeqLit.bytes [3]), (SeqLit.bytes [4])),
                        (.bytes [], .bytes [1, 2, 3], .bytes [4], .bytes [5, 6]),
                        (.tuple [1], .tuple [2], .tuple [3], .tuple [4]), (.str [97], .str [98], .str [99], .str [100]),
                        (.bytes [1, 2, 3, 4, 5, 6, 7], .bytes [8, 9], .bytes [10], .bytes [11])] do
    emit (.iadd3 x y z w)
  -- 5. repetition whose length leaves int64 (C13-K04): only counts whose wrapped product is small
  for (xs, b) in [(upto 2 0, (4611686018427387904 : Int)), (upto 4 0, 4611686018427387904), (upto 4 0, 4611686018427387905),
                  (upto 3 0, 6148914691236517206), (upto 2 0, 9223372036854775807), (upto 1 0, 9223372036854775807 - 9223372036854775807 + 3),
                  (upto 0 0, 9223372036854775807), (upto 3 0, 6148914691236517205), (upto 2 0, -4611686018427387904)] do
    emit (.mul (.list xs) (.int b) false); emit (.mul (.tuple xs) (.int b) true)
  -- 6. range(): constructor errors, ranges near the int64 limits (C13-K05), huge slice steps
  for (a, b, c) in [((0 : Int), (5 : Int), (0 : Int)), (5, 0, 0), (0, 0, 0)] do
    emit (.len (.range (.int a) (.int b) (.int c))); emit (.get (.range (.int a) (.int b) (.int c)) (.idx (.int 0)))
  emit (.len (.range .bad (.int 1) (.int 1))); emit (.len (.range (.int 1) .none (.int 1)))
  let w : Int := 9223372036854775807
  for (a, b, c) in [(w - 5, w, (1 : Int)), (w - 5, w, 2), (-w - 1, -w + 3, 1), (-w + 4, -w - 1, -1), (-w + 4, -w - 1, -2),
                    (0, w, 4611686018427387904), (-w - 1, w, w), (w, -w - 1, -w), (18446744073709551616, 18446744073709551619, 1),
                    (0, 5, 18446744073709551616), (w, -w - 1, -w - 1), (0, 3, -w - 1), (3, 0, -w - 1)] do
    let r := SeqLit.range (mkIdx a) (mkIdx b) (mkIdx c)
    emit (.len r); emit (.get r (.idx (.int 0))); emit (.get r (.idx (.int (-1)))); emit (.get r (.idx (.int 1)))
    emit (.iter r)
    emit (.get r (.slice ⟨.none, .none, .int (-1)⟩)); emit (.get r (.slice ⟨.int 1, .none, .none⟩))
    emit (.cmp .eq r r)
  -- 7. seeded random cases: longer sequences, bounds anywhere (also next to ±2^63)
  let nrand := if th then 120000 else 12000
  let mut r : Rng := ⟨seed.toUInt64⟩
  for _ in [0:nrand] do
    let (r1, n) := r.nat 13
    let (r2, kindSel) := r1.nat 8
    let pickComp (r : Rng) : Rng × Idx :=
      let (r, sel) := r.nat 10
      if sel == 0 then (r, Idx.none)
      else if sel ≤ 6 then let (r, v) := r.nat 33; (r, Idx.int ((v : Int) - 16))
      else if sel == 7 then let (r, v) := r.nat 7; (r, mkIdx (9223372036854775808 - 3 + v))
      else if sel == 8 then let (r, v) := r.nat 7; (r, mkIdx (-9223372036854775808 - 3 + v))
      else let (r, v) := r.bits 70; let (r, sg) := r.nat 2; (r, mkIdx (if sg == 0 then (v : Int) else -(v : Int)))
    let (r3, a) := pickComp r2
    let (r4, b) := pickComp r3
    let (r5, c) := pickComp r4
    let (r6, vl) := r5.nat 14
    let (r7, ra) := r6.nat 41
    let (r8, rc) := r7.nat 9
    r := r8
    let key := Key.slice ⟨a, b, c⟩
    let rcv : Int := if rc == 4 then 5 else (rc : Int) - 4
    let s : SeqLit := match kindSel with
      | 0 => .list (upto n 0) | 1 => .tuple (upto n 0) | 2 => .str (upto n 97) | 3 => .str ((mixedStr 9 ++ mixedStr 9).take n)
      | 4 => .range (.int ((ra : Int) - 20)) (.int ((ra : Int) - 20 + rcv * n)) (.int rcv)
      | 5 => .range (.int ((ra : Int) - 20)) (.int ((ra : Int) - 20 + rcv * n - (if rcv > 0 then 1 else -1))) (.int rcv)
      | _ => .list (upto n 0)
    emit (.get s key)
    emit (.get s (.idx a))
    if kindSel ≥ 6 || kindSel ≤ 1 then
      emit (.del (.list (upto n 0)) key)
      let m := match specSliceIdx n ⟨a, b, c⟩ with | .ok l => l.length | .error _ => 0
      emit (.set (.list (upto n 0)) key (.seq (.list (upto (if vl % 3 == 0 then vl else m) 40))))
      emit (.del (.list (upto n 0)) (.idx a))
      emit (.set (.list (upto n 0)) (.idx b) (.elem 9))

end GPy.C13
