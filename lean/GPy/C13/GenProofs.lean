/-
C13, regenerated tie: `GPy/C13/Generated/SliceCore.lean` is written by extract/goint (slice mode) from
py/slice.go of the working tree on every run.  `gen_getIndices` proves that the TRANSLATED
`(*Slice).GetIndices` computes exactly what the hand-written model `getIndices` computes, for every slice and
every length (no range hypothesis is needed: both sides wrap at the same places, the proof normalises the
nested `wrap64`s and compares the branch structure).  `sliceIndex` (the conversion of one bound, which type
switches on the operand) stays hand-modelled and is the same function on both sides.
-/
import GPy.C13.Generated.SliceCore
import GPy.C13.Proofs
namespace GPy.C13
open GPy

theorem wrap64_negmax : wrap64 (-9223372036854775807) = -IntMax := by unfold wrap64 IntMax; omega
theorem wrap64_idem (x : Int) : wrap64 (wrap64 x) = wrap64 x := by unfold wrap64; omega
theorem wrap64_wrap_add (x y : Int) : wrap64 (wrap64 x + y) = wrap64 (x + y) := by unfold wrap64; omega
theorem wrap64_wrap_sub (x y : Int) : wrap64 (wrap64 x - y) = wrap64 (x - y) := by unfold wrap64; omega
theorem wrap64_sub_wrap (x y : Int) : wrap64 (x - wrap64 y) = wrap64 (x - y) := by unfold wrap64; omega

set_option linter.unusedSimpArgs false in
theorem gen_getIndices (r : Slice) (length : Int) : Gen.Slice_GetIndices r length = getIndices r length := by
  obtain ⟨a, b, c⟩ := r
  unfold Gen.Slice_GetIndices getIndices getStep getBound clip sliceLen
  simp only [wrap64_negmax, decide_eq_true_eq, Bool.and_eq_true, Bool.or_eq_true, bind, Except.bind, pure, Except.pure, throw,
    throwThe, MonadExceptOf.throw]
  rcases hsa : sliceIndex a with ea | va <;> rcases hsb : sliceIndex b with eb | vb <;> rcases hsc : sliceIndex c with ec | vc <;>
    by_cases hc : c = Idx.none <;> by_cases ha : a = Idx.none <;> by_cases hb : b = Idx.none <;>
    simp [*, apply_ite Prod.fst, apply_ite Prod.snd, wrap64_idem, wrap64_wrap_add, wrap64_wrap_sub, wrap64_sub_wrap] <;>
    (try (by_cases hv : vc = 0 <;> simp [hv]))

end GPy.C13
