/-
C13 slice-header model ("which results share a backing array with an operand, and with how much
spare capacity").

Go slices are headers `(array, offset, len, cap)` into a heap of backing arrays; a `py.Tuple` and a
`py.Bytes` ARE such headers (values), a `*py.List` is a pointer to a struct holding the header
`Items`.  Every operation of py/tuple.go, py/bytes.go, py/list.go, py/sequence.go that makes, slices,
copies or grows a slice is transliterated at that level:

  make([]T, n) + copy/loop      ↦ `Heap.alloc` (a NEW array holding the computed cells)
  t[start:stop]                 ↦ `goSliceH`  (same array, offset moved, cap = parent's cap - start)
  append(s, xs...)              ↦ `goAppendH` (IN PLACE when `len + n ≤ cap`, else a new array whose
                                   capacity is chosen by the allocator: the parameter `grow`)
  l.Items[i] = v                ↦ `Heap.write`

The index arithmetic is that of Model.lean (`getIndices`, `getSliceLoop`, `setLoop`, `seqMul`, …),
applied to the cells read through the header.  Short histories (derive → mutate → observe) over this
model are what Gen.lean emits as `hist` cases.
-/
import GPy.C13.Spec
namespace GPy.C13

/-- a Go slice header; `cap` is counted from `off` like Go's `cap(s)` -/
structure Hdr where
  arr : Nat
  off : Nat
  len : Nat
  cap : Nat
deriving DecidableEq, Repr, Inhabited

/-- the part of the Go heap the sequence types use: backing arrays and `*List` objects -/
structure Heap where
  arrs : List (List Int)
  lists : List Hdr
deriving Repr, Inhabited

def Heap.empty : Heap := ⟨[], []⟩

def Heap.cells (h : Heap) (a : Nat) : List Int := h.arrs.getD a []

/-- the elements `s[0], …, s[len-1]` -/
def Heap.read (h : Heap) (s : Hdr) : List Int := ((h.cells s.arr).drop s.off).take s.len

/-- `make([]T, len(xs), len(xs)+extra)` filled with `xs`: a new array -/
def Heap.alloc (h : Heap) (xs : List Int) (extra : Nat) : Heap × Hdr :=
  ({ h with arrs := h.arrs ++ [xs ++ List.replicate extra 0] }, ⟨h.arrs.length, 0, xs.length, xs.length + extra⟩)

/-- overwrite the cells `pos, pos+1, …` of one array with `xs` -/
def writeCells (cs : List Int) (pos : Nat) (xs : List Int) : List Int :=
  cs.take pos ++ xs ++ cs.drop (pos + xs.length)

def Heap.write (h : Heap) (a pos : Nat) (xs : List Int) : Heap :=
  { h with arrs := h.arrs.set a (writeCells (h.cells a) pos xs) }

def Heap.list (h : Heap) (r : Nat) : Hdr := h.lists.getD r ⟨0, 0, 0, 0⟩

def Heap.setList (h : Heap) (r : Nat) (s : Hdr) : Heap := { h with lists := h.lists.set r s }

/-- `&List{Items: s}` -/
def Heap.newList (h : Heap) (s : Hdr) : Heap × Nat := ({ h with lists := h.lists ++ [s] }, h.lists.length)

/-- the empty slice `Tuple{}` / `nil` -/
def Hdr.nil : Hdr := ⟨0, 0, 0, 0⟩

/-- `s[lo:hi]` (Go checks `0 ≤ lo ≤ hi ≤ cap(s)`; the result keeps the rest of the capacity) -/
def goSliceH (s : Hdr) (lo hi : Int) : Except Err Hdr :=
  if 0 ≤ lo ∧ lo ≤ hi ∧ hi ≤ s.cap then pure ⟨s.arr, s.off + lo.toNat, (hi - lo).toNat, s.cap - lo.toNat⟩
  else throw .panic

/-- `append(s, xs...)`: in place when the capacity suffices, otherwise a new array of capacity
`grow cap needed` (the allocator's choice; only `needed ≤ grow cap needed` is ever assumed) -/
def goAppendH (grow : Nat → Nat → Nat) (h : Heap) (s : Hdr) (xs : List Int) : Heap × Hdr :=
  if s.len + xs.length ≤ s.cap then
    (h.write s.arr (s.off + s.len) xs, { s with len := s.len + xs.length })
  else
    h.alloc (h.read s ++ xs) (grow s.cap (s.len + xs.length) - (s.len + xs.length))

/-- `for _, x := range xs { s = append(s, x) }` -/
def appendEach (grow : Nat → Nat → Nat) (h : Heap) (s : Hdr) : List Int → Heap × Hdr
  | [] => (h, s)
  | x :: xs => let (h, s) := goAppendH grow h s [x]; appendEach grow h s xs

/-! ### py/tuple.go, py/bytes.go (a Tuple / Bytes is a header) -/

/-- `Tuple.M__getitem__` / `Bytes.M__getitem__` with a slice key -/
def hTupleGetSlice (h : Heap) (t : Hdr) (sl : Slice) : Except Err (Heap × Hdr) := do
  let (start, stop, step, slicelength) ← getIndices sl t.len
  if step == 1 then
    let stop := if stop < start then start else stop
    let s ← goSliceH t start stop          -- "Return a subslice since tuples are immutable"
    pure (h, s)
  else
    let out ← getSliceLoop (h.read t) start step slicelength
    pure (h.alloc out 0)

/-- `Tuple.M__add__` = `Tuple.M__iadd__`, `Bytes.M__add__` = `Bytes.M__iadd__`: make + copy + copy -/
def hTupleAdd (h : Heap) (a b : Hdr) : Heap × Hdr := h.alloc (h.read a ++ h.read b) 0

/-- `Tuple.M__mul__` = `M__rmul__` = `M__imul__` (and the Bytes ones): make + copy loop -/
def hTupleMul (h : Heap) (a : Hdr) (n : Int) : Except Err (Heap × Hdr) := do
  let out ← seqMul (h.read a) n
  pure (h.alloc out 0)

/-! ### py/list.go (a *List is a reference `r`) -/

/-- `List.M__getitem__` with a slice key: NewListSized + copy loop -/
def hListGetSlice (h : Heap) (r : Nat) (sl : Slice) : Except Err (Heap × Nat) := do
  let l := h.list r
  let (start, _, step, slicelength) ← getIndices sl l.len
  let out ← getSliceLoop (h.read l) start step slicelength
  let (h, s) := h.alloc out 0
  pure (h.newList s)

/-- `List.M__add__`: NewListSized + copy + copy -/
def hListAdd (h : Heap) (a b : Nat) : Heap × Nat :=
  let (h, s) := h.alloc (h.read (h.list a) ++ h.read (h.list b)) 0
  h.newList s

/-- `List.M__mul__` = `M__rmul__` = `M__imul__`: a new list -/
def hListMul (h : Heap) (a : Nat) (n : Int) : Except Err (Heap × Nat) := do
  let out ← seqMul (h.read (h.list a)) n
  let (h, s) := h.alloc out 0
  pure (h.newList s)

/-- `NewListFromItems(items)` / `List.Copy` -/
def hNewListFromItems (h : Heap) (items : List Int) : Heap × Nat :=
  let (h, s) := h.alloc items 0
  h.newList s

/-- `l.Items = append(l.Items, xs...)`: `Extend`, `M__iadd__`, the `extend` method -/
def hListExtend (grow : Nat → Nat → Nat) (h : Heap) (r : Nat) (xs : List Int) : Heap :=
  let (h, s) := goAppendH grow h (h.list r) xs
  h.setList r s

/-- `for … { l.Append(item) }`: `ExtendSequence`; one `append` per item -/
def hListAppendEach (grow : Nat → Nat → Nat) (h : Heap) (r : Nat) (xs : List Int) : Heap :=
  let (h, s) := appendEach grow h (h.list r) xs
  h.setList r s

/-- `List.M__setitem__` with a slice key (`newItems` = the cells of `SequenceTuple(value)`, read first) -/
def hListSetSlice (grow : Nat → Nat → Nat) (h : Heap) (r : Nat) (sl : Slice) (newItems : Except Err (List Int)) :
    Except Err Heap := do
  let l := h.list r
  let (start, stop, step, slicelength) ← getIndices sl l.len
  let newItems ← newItems
  if step == 1 then
    let stop := if stop < start then start else stop
    let tailS ← goSliceH l stop l.len              -- l.Items[stop:]
    let tail := h.read tailS                       -- copied
    let head ← goSliceH l 0 start                  -- l.Items[:start]
    let (h, s1) := goAppendH grow h head newItems
    let (h, s2) := goAppendH grow h s1 tail
    pure (h.setList r s2)
  else
    if (newItems.length : Int) ≠ slicelength then throw .value
    else do
      let cells ← setLoop (h.read l) start step newItems   -- l.Items[i] = newItems[j], in place
      pure (h.write l.arr l.off cells)

/-- `l.Items[i] = v` after IndexIntCheck -/
def hListSetIndex (h : Heap) (r : Nat) (i : Idx) (v : Int) : Except Err Heap := do
  let l := h.list r
  let i ← indexIntCheck i l.len
  let cells ← goSet (h.read l) i v
  pure (h.write l.arr l.off cells)

/-- `(*List).DelItem(i)`: `a.Items = append(a.Items[:i], a.Items[i+1:]...)` (memmove inside the array) -/
def hDelItemAt (grow : Nat → Nat → Nat) (h : Heap) (r : Nat) (i : Int) : Except Err Heap := do
  let l := h.list r
  let tailS ← goSliceH l (wrap64 (i + 1)) l.len
  let tail := h.read tailS
  let head ← goSliceH l 0 i
  let (h, s) := goAppendH grow h head tail
  pure (h.setList r s)

def hDelLoop (grow : Nat → Nat → Nat) (h : Heap) (r : Nat) (start step j : Int) : Nat → Except Err Heap
  | 0 => pure h
  | f + 1 => do
    let h ← hDelItemAt grow h r (wrap64 (wrap64 (start + wrap64 (j * step)) - j))
    hDelLoop grow h r start step (j + 1) f

/-- `List.M__delitem__` with a slice key -/
def hListDelSlice (grow : Nat → Nat → Nat) (h : Heap) (r : Nat) (sl : Slice) : Except Err Heap := do
  let l := h.list r
  let (start, stop, step, slicelength) ← getIndices sl l.len
  if step == 1 then
    let stop := if stop < start then start else stop
    let tailS ← goSliceH l stop l.len
    let tail := h.read tailS
    let head ← goSliceH l 0 start
    let (h, s) := goAppendH grow h head tail
    pure (h.setList r s)
  else
    let start' := if step < 0 then wrap64 (start + wrap64 ((wrap64 (slicelength - 1)) * step)) else start
    let step' := if step < 0 then wrap64 (-step) else step
    hDelLoop grow h r start' step' 0 slicelength.toNat

def hListDelIndex (grow : Nat → Nat → Nat) (h : Heap) (r : Nat) (i : Idx) : Except Err Heap := do
  let i ← indexIntCheck i (h.list r).len
  hDelItemAt grow h r i

/-! ### objects and the dispatching API over the heap -/

inductive HObj where
  | list (r : Nat)
  | tuple (s : Hdr)
  | bytes (s : Hdr)
  | str (xs : List Int)          -- a Go string: an immutable value, never written through
  | range (r : Range)
  | int (v : Int)
deriving DecidableEq, Repr, Inhabited

/-- the value an object denotes (the `Obj` of Model.lean) -/
def Heap.val (h : Heap) : HObj → Obj
  | .list r => .list (h.read (h.list r))
  | .tuple s => .tuple (h.read s)
  | .bytes s => .bytes (h.read s)
  | .str xs => .str xs
  | .range r => .range r
  | .int v => .int v

/-- a literal operand is built by the harness with `make` (cap = len) -/
def hLit (h : Heap) : Obj → Heap × HObj
  | .list xs => let (h, r) := hNewListFromItems h xs; (h, .list r)
  | .tuple xs => let (h, s) := h.alloc xs 0; (h, .tuple s)
  | .bytes xs => let (h, s) := h.alloc xs 0; (h, .bytes s)
  | .str xs => (h, .str xs)
  | .range r => (h, .range r)
  | .int v => (h, .int v)
  | _ => (h, .int 0)

/-- `SequenceTuple(v)`: a Tuple is returned AS IS, a List is copied, anything else is collected with `append` -/
def hSequenceTuple (grow : Nat → Nat → Nat) (h : Heap) (v : HObj) : Except Err (Heap × Hdr) :=
  match v with
  | .tuple s => pure (h, s)
  | .list r => pure (h.alloc (h.read (h.list r)) 0)
  | v => do
    let xs ← sequenceTuple (h.val v)
    pure (appendEach grow h Hdr.nil xs)

/-- `SequenceList(v)`: always a new list (copy of a Tuple / List, `ExtendSequence` otherwise) -/
def hSequenceList (grow : Nat → Nat → Nat) (h : Heap) (v : HObj) : Except Err (Heap × Nat) :=
  match v with
  | .tuple s => pure (hNewListFromItems h (h.read s))
  | .list r => pure (hNewListFromItems h (h.read (h.list r)))
  | v => do
    let (xs, _) ← iterate (h.val v)
    let (h, r) := h.newList Hdr.nil
    pure (hListAppendEach grow h r xs, r)

/-- `BytesFromObject(v)`: Bytes AS IS, str TypeError, otherwise `append` item by item (range-checked) -/
def hBytesFromObject (grow : Nat → Nat → Nat) (h : Heap) (v : HObj) : Except Err (Heap × Hdr) :=
  match v with
  | .bytes s => pure (h, s)
  | .str _ => throw .type
  | v => do
    let (xs, _) ← iterate (h.val v)
    -- the loop stops at the first item outside range(256)
    if xs.all (fun x => 0 ≤ x ∧ x < 256) then pure (appendEach grow h Hdr.nil xs) else throw .value

/-- the ways the second object of a history is derived from the first -/
inductive Derive where
  | alias                             -- b = a
  | slice (sl : Slice)                -- b = a[sl]
  | concat (c : Obj) (left : Bool)    -- b = a + c   /  b = c + a
  | rep (n : Int) (left : Bool)       -- b = a * n   /  b = n * a
  | ctor (k : Kind)                   -- b = tuple(a) / list(a) / bytes(a)
deriving Repr, Inhabited

/-- the value operand of a growing operation: a literal, or one of the two objects of the history -/
inductive Src where
  | lit (o : Obj)
  | a
  | b
deriving Repr, Inhabited

/-- the in-place or growing operations applied to `b` -/
inductive Mutate where
  | iadd (c : Src)                    -- r = (b += c)
  | imul (n : Int)                    -- r = (b *= n)
  | append (x : Int)                  -- b.append(x)
  | extend (c : Src)                  -- b.extend(c)
  | setSlice (sl : Slice) (v : Src)   -- b[sl] = v
  | delSlice (sl : Slice)             -- del b[sl]
  | setIndex (i : Idx) (x : Int)      -- b[i] = x
  | delIndex (i : Idx)                -- del b[i]
deriving Repr, Inhabited

def hDerive (grow : Nat → Nat → Nat) (h : Heap) (a : HObj) : Derive → Except Err (Heap × HObj)
  | .alias => pure (h, a)
  | .slice sl =>
    match a with
    | .list r => do let (h, r') ← hListGetSlice h r sl; pure (h, .list r')
    | .tuple s => do let (h, s') ← hTupleGetSlice h s sl; pure (h, .tuple s')
    | .bytes s => do let (h, s') ← hTupleGetSlice h s sl; pure (h, .bytes s')
    | .str xs => do let r ← strGetItem xs (.slice sl); pure (h, .str r)
    | _ => throw .type
  | .concat c left =>
    let (h, c) := hLit h c
    let (x, y) := if left then (c, a) else (a, c)
    match x, y with
    | .list p, .list q => let (h, r) := hListAdd h p q; pure (h, .list r)
    | .tuple p, .tuple q => let (h, s) := hTupleAdd h p q; pure (h, .tuple s)
    | .bytes p, .bytes q => let (h, s) := hTupleAdd h p q; pure (h, .bytes s)
    | .str p, .str q => pure (h, .str (p ++ q))
    | _, _ => throw .type
  | .rep n _ =>
    match a with
    | .list r => do let (h, r') ← hListMul h r n; pure (h, .list r')
    | .tuple s => do let (h, s') ← hTupleMul h s n; pure (h, .tuple s')
    | .bytes s => do let (h, s') ← hTupleMul h s n; pure (h, .bytes s')
    | .str xs => pure (h, .str (strMul xs n))
    | _ => throw .type
  | .ctor .tuple => do let (h, s) ← hSequenceTuple grow h a; pure (h, .tuple s)
  | .ctor .list => do let (h, r) ← hSequenceList grow h a; pure (h, .list r)
  | .ctor .bytes => do let (h, s) ← hBytesFromObject grow h a; pure (h, .bytes s)
  | .ctor _ => throw .type

def hSrc (h : Heap) (a b : HObj) : Src → Heap × HObj
  | .lit o => hLit h o
  | .a => (h, a)
  | .b => (h, b)

/-- one growing operation on `b`; result: the heap and the object the target name is bound to afterwards -/
def hMutate (grow : Nat → Nat → Nat) (h : Heap) (a b : HObj) : Mutate → Except Err (Heap × HObj)
  | .iadd c =>
    let (h, c) := hSrc h a b c
    match b, c with
    | .list p, .list q => pure (hListExtend grow h p (h.read (h.list q)), .list p)     -- in place, returns the list
    | .tuple p, .tuple q => let (h, s) := hTupleAdd h p q; pure (h, .tuple s)
    | .bytes p, .bytes q => let (h, s) := hTupleAdd h p q; pure (h, .bytes s)
    | .str p, .str q => pure (h, .str (p ++ q))
    | _, _ => throw .type
  | .imul n =>
    match b with
    | .list r => do let (h, r') ← hListMul h r n; pure (h, .list r')
    | .tuple s => do let (h, s') ← hTupleMul h s n; pure (h, .tuple s')
    | .bytes s => do let (h, s') ← hTupleMul h s n; pure (h, .bytes s')
    | .str xs => pure (h, .str (strMul xs n))
    | _ => throw .type
  | .append x =>
    match b with
    | .list r => pure (hListExtend grow h r [x], b)
    | _ => throw .type          -- AttributeError in Python; not generated
  | .extend c =>
    let (h, c) := hSrc h a b c
    match b, c with
    | .list p, .list q => pure (hListExtend grow h p (h.read (h.list q)), b)
    | _, _ => throw .type       -- not generated (extend from a non-list belongs to C17)
  | .setSlice sl v =>
    let (h, v) := hSrc h a b v
    match b with
    | .list r => do
      -- SequenceTuple(value) is evaluated after GetIndices; its cells are read before the list is touched
      let items : Except Err (Heap × List Int) :=
        match hSequenceTuple grow h v with
        | .ok (h', s) => .ok (h', h'.read s)
        | .error e => .error e
      match items with
      | .ok (h', xs) => do let h ← hListSetSlice grow h' r sl (.ok xs); pure (h, b)
      | .error e => do let h ← hListSetSlice grow h r sl (.error e); pure (h, b)
    | _ => throw .type
  | .delSlice sl =>
    match b with
    | .list r => do let h ← hListDelSlice grow h r sl; pure (h, b)
    | _ => throw .type
  | .setIndex i x =>
    match b with
    | .list r => do let h ← hListSetIndex h r i x; pure (h, b)
    | _ => throw .type
  | .delIndex i =>
    match b with
    | .list r => do let h ← hListDelIndex grow h r i; pure (h, b)
    | _ => throw .type

/-! ### sharing between two objects (the R column of a `hist` case) -/

def HObj.hdr? (h : Heap) : HObj → Option Hdr
  | .list r => some (h.list r)
  | .tuple s => some s
  | .bytes s => some s
  | _ => Option.none

/-- size of the intersection of `[a, a+n)` and `[b, b+m)` -/
def overlap (a n b m : Nat) : Nat := (min (a + n) (b + m)) - (max a b)

/-- (live cells shared, live cells of `y` inside the spare capacity of `x`, live cells of `x` inside the spare of `y`) -/
def sharing (x y : Hdr) : Nat × Nat × Nat :=
  if x.arr = y.arr ∧ x.cap > 0 ∧ y.cap > 0 then
    (overlap x.off x.len y.off y.len,
     overlap (x.off + x.len) (x.cap - x.len) y.off y.len,
     overlap (y.off + y.len) (y.cap - y.len) x.off x.len)
  else (0, 0, 0)

end GPy.C13
