/-
C13 slice-header model: frame lemmas.  Which arrays can an operation write to?

  * tuple / bytes operations (`ImmOp`): none that existed before (`NoWrite`) - whatever headers they are given;
  * list-producing operations (`ListMk`): none; the result is a new list object in a new array (`FreshList`);
  * in-place list operations (`ListOp`): the list's own array and new arrays only (`InPlace`).

No assumption on the allocator's growth rule `grow` is needed anywhere.  Property theorems: Props.lean.
-/
import GPy.C13.Heap
namespace GPy.C13

theorem cells_alloc_lt (h : Heap) (xs : List Int) (e a : Nat) (ha : a < h.arrs.length) :
    (h.alloc xs e).1.cells a = h.cells a := by
  simp only [Heap.alloc, Heap.cells, List.getD_eq_getElem?_getD]
  rw [List.getElem?_append_left ha]

theorem cells_alloc_new (h : Heap) (xs : List Int) (e : Nat) :
    (h.alloc xs e).1.cells h.arrs.length = xs ++ List.replicate e 0 := by
  simp [Heap.alloc, Heap.cells]

theorem cells_write_ne (h : Heap) (a b pos : Nat) (xs : List Int) (hab : a ≠ b) :
    (h.write b pos xs).cells a = h.cells a := by
  simp only [Heap.write, Heap.cells, List.getD_eq_getElem?_getD]
  rw [List.getElem?_set_ne (Ne.symm hab)]

theorem cells_write_eq (h : Heap) (b pos : Nat) (xs : List Int) (hb : b < h.arrs.length) :
    (h.write b pos xs).cells b = writeCells (h.cells b) pos xs := by
  simp only [Heap.write, Heap.cells, List.getD_eq_getElem?_getD]
  rw [List.getElem?_set_self hb]; rfl

theorem writeCells_nil (cs : List Int) (pos : Nat) : writeCells cs pos [] = cs := by
  simp [writeCells]

theorem cells_write_nil (h : Heap) (a b pos : Nat) : (h.write b pos []).cells a = h.cells a := by
  by_cases hab : a = b
  · subst hab
    by_cases hb : a < h.arrs.length
    · rw [cells_write_eq h a pos [] hb, writeCells_nil]
    · simp only [Heap.write, Heap.cells, List.getD_eq_getElem?_getD]
      rw [List.getElem?_eq_none (by simp; omega), List.getElem?_eq_none (by omega)]
  · exact cells_write_ne h a b pos [] hab

/-- `h'` extends `h`: every array of `h` is still there with the same cells, except possibly array `A`;
the list objects other than `R` are the same -/
structure Ext (A : Option Nat) (h h' : Heap) : Prop where
  len : h.arrs.length ≤ h'.arrs.length
  cells : ∀ a, a < h.arrs.length → some a ≠ A → h'.cells a = h.cells a

theorem Ext.refl (A : Option Nat) (h : Heap) : Ext A h h := ⟨Nat.le_refl _, fun _ _ _ => rfl⟩

/-- composition: the second step may write to the same array, or to one that did not exist in `h` -/
theorem Ext.trans {A B : Option Nat} {h h1 h2 : Heap} (e1 : Ext A h h1) (e2 : Ext B h1 h2)
    (hB : B = A ∨ B = Option.none ∨ ∃ b, B = some b ∧ h.arrs.length ≤ b) : Ext A h h2 := by
  refine ⟨Nat.le_trans e1.len e2.len, fun a ha hne => ?_⟩
  rw [e2.cells a (Nat.lt_of_lt_of_le ha e1.len) ?_, e1.cells a ha hne]
  rcases hB with rfl | rfl | ⟨b, rfl, hb⟩
  · exact hne
  · simp
  · intro hh; injection hh with hh; omega

theorem Ext.weaken {A : Option Nat} {h h' : Heap} (e : Ext Option.none h h') : Ext A h h' :=
  ⟨e.len, fun a ha _ => e.cells a ha (by simp)⟩

theorem ext_alloc (h : Heap) (xs : List Int) (e : Nat) : Ext Option.none h (h.alloc xs e).1 :=
  ⟨by simp [Heap.alloc], fun a ha _ => cells_alloc_lt h xs e a ha⟩

theorem alloc_lists (h : Heap) (xs : List Int) (e : Nat) : (h.alloc xs e).1.lists = h.lists := rfl
theorem alloc_arr (h : Heap) (xs : List Int) (e : Nat) : (h.alloc xs e).2.arr = h.arrs.length := rfl
theorem write_lists (h : Heap) (a pos : Nat) (xs : List Int) : (h.write a pos xs).lists = h.lists := rfl

theorem ext_write (h : Heap) (a pos : Nat) (xs : List Int) : Ext (some a) h (h.write a pos xs) :=
  ⟨by simp [Heap.write], fun b _ hne => cells_write_ne h b a pos xs (fun hh => hne (by rw [hh]))⟩

/-- `append` writes into the array of its first operand, or into a new array -/
theorem goAppendH_ext (grow : Nat → Nat → Nat) (h : Heap) (s : Hdr) (xs : List Int) :
    Ext (some s.arr) h (goAppendH grow h s xs).1 ∧ (goAppendH grow h s xs).1.lists = h.lists ∧
    (((goAppendH grow h s xs).2.arr = s.arr ∧ (goAppendH grow h s xs).2.cap = s.cap) ∨
      ((goAppendH grow h s xs).2.arr = h.arrs.length ∧ h.arrs.length < (goAppendH grow h s xs).1.arrs.length)) := by
  unfold goAppendH
  split
  · exact ⟨ext_write _ _ _ _, rfl, Or.inl ⟨rfl, rfl⟩⟩
  · exact ⟨(ext_alloc _ _ _).weaken, rfl, Or.inr ⟨rfl, by simp [Heap.alloc]⟩⟩

/-- with no spare capacity to use (`cap = 0`) or on an array `≥ n0`, `append` leaves the arrays below `n0` alone -/
theorem goAppendH_below (grow : Nat → Nat → Nat) (h : Heap) (s : Hdr) (xs : List Int) (n0 : Nat)
    (hn : n0 ≤ h.arrs.length) (hs : s.cap = 0 ∨ n0 ≤ s.arr) :
    (∀ a, a < n0 → (goAppendH grow h s xs).1.cells a = h.cells a) ∧ h.arrs.length ≤ (goAppendH grow h s xs).1.arrs.length ∧
    (goAppendH grow h s xs).1.lists = h.lists ∧
    ((goAppendH grow h s xs).2.cap = 0 ∨ n0 ≤ (goAppendH grow h s xs).2.arr) := by
  unfold goAppendH
  split
  · rename_i hc
    refine ⟨fun a ha => ?_, by simp [Heap.write], rfl, hs⟩
    rcases hs with h0 | h1
    · have : xs = [] := by
        have : xs.length = 0 := by omega
        exact List.eq_nil_of_length_eq_zero this
      subst this; exact cells_write_nil _ _ _ _
    · exact cells_write_ne _ _ _ _ _ (by omega)
  · exact ⟨fun a ha => cells_alloc_lt _ _ _ _ (by omega), by simp [Heap.alloc], rfl, Or.inr hn⟩

theorem appendEach_below (grow : Nat → Nat → Nat) (n0 : Nat) : ∀ (xs : List Int) (h : Heap) (s : Hdr),
    n0 ≤ h.arrs.length → (s.cap = 0 ∨ n0 ≤ s.arr) →
    (∀ a, a < n0 → (appendEach grow h s xs).1.cells a = h.cells a) ∧ h.arrs.length ≤ (appendEach grow h s xs).1.arrs.length ∧
    (appendEach grow h s xs).1.lists = h.lists ∧
    ((appendEach grow h s xs).2.cap = 0 ∨ n0 ≤ (appendEach grow h s xs).2.arr) := by
  intro xs
  induction xs with
  | nil => intro h s hn hs; exact ⟨fun _ _ => rfl, Nat.le_refl _, rfl, hs⟩
  | cons x xs ih =>
    intro h s hn hs
    obtain ⟨c1, l1, li1, s1⟩ := goAppendH_below grow h s [x] n0 hn hs
    obtain ⟨c2, l2, li2, s2⟩ := ih (goAppendH grow h s [x]).1 (goAppendH grow h s [x]).2 (by omega) s1
    simp only [appendEach]
    refine ⟨fun a ha => by rw [c2 a ha, c1 a ha], by omega, by rw [li2, li1], s2⟩

theorem fst_eq {α β : Type} {p : α × β} {a : α} {b : β} (h : p = (a, b)) : a = p.1 := by subst h; rfl
theorem snd_eq {α β : Type} {p : α × β} {a : α} {b : β} (h : p = (a, b)) : b = p.2 := by subst h; rfl

/-! ### reading through a header -/

theorem read_congr {h h' : Heap} {s : Hdr} (hc : h'.cells s.arr = h.cells s.arr) : h'.read s = h.read s := by
  simp only [Heap.read, hc]

theorem read_alloc (h : Heap) (xs : List Int) (e : Nat) : (h.alloc xs e).1.read (h.alloc xs e).2 = xs := by
  simp only [Heap.read, alloc_arr, cells_alloc_new]
  simp [Heap.alloc]

/-- no array of `h` was written, no list object changed -/
structure NoWrite (h h' : Heap) : Prop where
  len : h.arrs.length ≤ h'.arrs.length
  cells : ∀ a, a < h.arrs.length → h'.cells a = h.cells a
  lists : h'.lists = h.lists

theorem NoWrite.refl (h : Heap) : NoWrite h h := ⟨Nat.le_refl _, fun _ _ => rfl, rfl⟩

theorem NoWrite.trans {h h1 h2 : Heap} (a : NoWrite h h1) (b : NoWrite h1 h2) : NoWrite h h2 :=
  ⟨Nat.le_trans a.len b.len, fun x hx => by rw [b.cells x (Nat.lt_of_lt_of_le hx a.len), a.cells x hx], by rw [b.lists, a.lists]⟩

theorem noWrite_alloc (h : Heap) (xs : List Int) (e : Nat) : NoWrite h (h.alloc xs e).1 :=
  ⟨by simp [Heap.alloc], fun a ha => cells_alloc_lt h xs e a ha, rfl⟩

theorem noWrite_appendEach_nil (grow : Nat → Nat → Nat) (h : Heap) (xs : List Int) :
    NoWrite h (appendEach grow h Hdr.nil xs).1 := by
  obtain ⟨c, l, li, _⟩ := appendEach_below grow h.arrs.length xs h Hdr.nil (Nat.le_refl _) (Or.inl rfl)
  exact ⟨l, c, li⟩

/-- the operations of py/tuple.go and py/bytes.go (and the constructors of py/sequence.go that return a
Tuple / Bytes), on ARBITRARY headers: any offset, any length, any spare capacity, any sharing -/
inductive ImmOp where
  | getSlice (t : Hdr) (sl : Slice)      -- `t[sl]`
  | add (a b : Hdr)                      -- `a + b`, `a += b`
  | mul (a : Hdr) (n : Int)              -- `a * n`, `n * a`, `a *= n`
  | tupleOf (v : HObj)                   -- `tuple(v)` = `SequenceTuple(v)`
  | bytesOf (v : HObj)                   -- `bytes(v)` = `BytesFromObject(v)`

def runImm (grow : Nat → Nat → Nat) (h : Heap) : ImmOp → Except Err (Heap × Hdr)
  | .getSlice t sl => hTupleGetSlice h t sl
  | .add a b => pure (hTupleAdd h a b)
  | .mul a n => hTupleMul h a n
  | .tupleOf v => hSequenceTuple grow h v
  | .bytesOf v => hBytesFromObject grow h v

theorem hTupleGetSlice_noWrite {h h' : Heap} {t s : Hdr} {sl : Slice} (hok : hTupleGetSlice h t sl = .ok (h', s)) :
    NoWrite h h' := by
  unfold hTupleGetSlice at hok
  cases hgi : getIndices sl t.len with
  | error e => rw [hgi] at hok; cases hok
  | ok q =>
    obtain ⟨start, stop, step, len⟩ := q
    rw [hgi] at hok
    simp only [bind, Except.bind, pure, Except.pure] at hok
    split at hok
    · split at hok
      · cases hok
      · injection hok with hok; injection hok with h1 h2; subst h1; exact NoWrite.refl _
    · split at hok
      · cases hok
      · injection hok with hok; rw [fst_eq hok]; exact noWrite_alloc _ _ _

theorem hTupleMul_noWrite {h h' : Heap} {a s : Hdr} {n : Int} (hok : hTupleMul h a n = .ok (h', s)) : NoWrite h h' := by
  unfold hTupleMul at hok
  simp only [bind, Except.bind, pure, Except.pure] at hok
  split at hok
  · cases hok
  · injection hok with hok; rw [fst_eq hok]; exact noWrite_alloc _ _ _

theorem hSequenceTuple_noWrite (grow : Nat → Nat → Nat) {h h' : Heap} {v : HObj} {s : Hdr}
    (hok : hSequenceTuple grow h v = .ok (h', s)) : NoWrite h h' := by
  unfold hSequenceTuple at hok
  split at hok
  · injection hok with hok; injection hok with h1 h2; subst h1; exact NoWrite.refl _
  · injection hok with hok; rw [fst_eq hok]; exact noWrite_alloc _ _ _
  · simp only [bind, Except.bind, pure, Except.pure] at hok
    split at hok
    · cases hok
    · injection hok with hok; rw [fst_eq hok]; exact noWrite_appendEach_nil _ _ _

theorem hBytesFromObject_noWrite (grow : Nat → Nat → Nat) {h h' : Heap} {v : HObj} {s : Hdr}
    (hok : hBytesFromObject grow h v = .ok (h', s)) : NoWrite h h' := by
  unfold hBytesFromObject at hok
  split at hok
  · injection hok with hok; injection hok with h1 h2; subst h1; exact NoWrite.refl _
  · cases hok
  · simp only [bind, Except.bind, pure, Except.pure] at hok
    split at hok
    · cases hok
    · split at hok
      · injection hok with hok; rw [fst_eq hok]; exact noWrite_appendEach_nil _ _ _
      · cases hok

theorem runImm_noWrite (grow : Nat → Nat → Nat) {h h' : Heap} {op : ImmOp} {s : Hdr}
    (hok : runImm grow h op = .ok (h', s)) : NoWrite h h' := by
  cases op with
  | getSlice t sl => exact hTupleGetSlice_noWrite hok
  | add a b =>
    simp only [runImm, pure, Except.pure] at hok
    injection hok with hok; rw [fst_eq hok]; exact noWrite_alloc _ _ _
  | mul a n => exact hTupleMul_noWrite hok
  | tupleOf v => exact hSequenceTuple_noWrite grow hok
  | bytesOf v => exact hBytesFromObject_noWrite grow hok

/-- any finite history of tuple / bytes operations; each step may use any headers whatever (in particular
the results of earlier steps, with whatever spare capacity they carry) -/
inductive ImmReach (grow : Nat → Nat → Nat) : Heap → Heap → Prop where
  | refl (h : Heap) : ImmReach grow h h
  | step {h h1 h2 : Heap} (op : ImmOp) (s : Hdr) : ImmReach grow h h1 → runImm grow h1 op = .ok (h2, s) → ImmReach grow h h2

theorem ImmReach.noWrite {grow : Nat → Nat → Nat} {h h' : Heap} (r : ImmReach grow h h') : NoWrite h h' := by
  induction r with
  | refl => exact NoWrite.refl _
  | step op s _ hok ih => exact ih.trans (runImm_noWrite grow hok)


/-! ### lists: results are fresh, in-place operations stay inside the list's own array -/

theorem list_newList_self (h : Heap) (s : Hdr) : (h.newList s).1.list h.lists.length = s := by
  simp [Heap.newList, Heap.list]

theorem list_setList_self (h : Heap) (r : Nat) (s : Hdr) (hr : r < h.lists.length) : (h.setList r s).list r = s := by
  simp [Heap.setList, Heap.list, hr]

theorem list_setList_ne (h : Heap) (r r' : Nat) (s : Hdr) (hne : r' ≠ r) : (h.setList r s).list r' = h.list r' := by
  simp only [Heap.setList, Heap.list, List.getD_eq_getElem?_getD]
  rw [List.getElem?_set_ne (Ne.symm hne)]

/-- the result `r` of a list-producing operation is a NEW list object whose `Items` live in a NEW array
(or have no capacity at all): it shares no array cell with anything that existed before -/
structure FreshList (h h' : Heap) (r : Nat) : Prop where
  len : h.arrs.length ≤ h'.arrs.length
  cells : ∀ a, a < h.arrs.length → h'.cells a = h.cells a
  ref : r = h.lists.length
  lists : ∃ s, h'.lists = h.lists ++ [s] ∧ s.len ≤ s.cap ∧ (s.cap = 0 ∨ (h.arrs.length ≤ s.arr ∧ s.arr < h'.arrs.length))

theorem freshList_alloc (h : Heap) (xs : List Int) : FreshList h ((h.alloc xs 0).1.newList (h.alloc xs 0).2).1 h.lists.length :=
  ⟨by simp [Heap.alloc, Heap.newList], fun a ha => cells_alloc_lt h xs 0 a ha, rfl,
   ⟨_, rfl, by simp [Heap.alloc], Or.inr ⟨by simp [Heap.alloc], by simp [Heap.alloc, Heap.newList]⟩⟩⟩

/-- the list-producing operations of py/list.go and py/sequence.go -/
inductive ListMk where
  | getSlice (r : Nat) (sl : Slice)     -- `l[sl]`
  | add (a b : Nat)                     -- `a + b`
  | mul (a : Nat) (n : Int)             -- `a * n`, `n * a`, `a *= n` (gpython's `M__imul__` returns a new list)
  | fromItems (xs : List Int)           -- `NewListFromItems`, `List.Copy`
  | listOf (v : HObj)                   -- `list(v)` = `SequenceList(v)`

def runListMk (grow : Nat → Nat → Nat) (h : Heap) : ListMk → Except Err (Heap × Nat)
  | .getSlice r sl => hListGetSlice h r sl
  | .add a b => pure (hListAdd h a b)
  | .mul a n => hListMul h a n
  | .fromItems xs => pure (hNewListFromItems h xs)
  | .listOf v => hSequenceList grow h v

theorem appendEach_len_le_cap (grow : Nat → Nat → Nat) : ∀ (xs : List Int) (h : Heap) (s : Hdr), s.len ≤ s.cap →
    (appendEach grow h s xs).2.len ≤ (appendEach grow h s xs).2.cap := by
  intro xs
  induction xs with
  | nil => intro h s hs; exact hs
  | cons x xs ih =>
    intro h s hs
    simp only [appendEach]
    apply ih
    unfold goAppendH
    split
    · simpa using ‹_›
    · simp [Heap.alloc]

theorem appendEach_arr_lt (grow : Nat → Nat → Nat) : ∀ (xs : List Int) (h : Heap) (s : Hdr),
    (s.cap = 0 ∨ s.arr < h.arrs.length) →
    ((appendEach grow h s xs).2.cap = 0 ∨ (appendEach grow h s xs).2.arr < (appendEach grow h s xs).1.arrs.length) := by
  intro xs
  induction xs with
  | nil => intro h s hs; exact hs
  | cons x xs ih =>
    intro h s hs
    simp only [appendEach]
    apply ih
    unfold goAppendH
    split
    · rcases hs with h0 | h1
      · exact Or.inl h0
      · exact Or.inr (by simpa [Heap.write] using h1)
    · exact Or.inr (by simp [Heap.alloc])

theorem runListMk_fresh (grow : Nat → Nat → Nat) {h h' : Heap} {op : ListMk} {r : Nat}
    (hok : runListMk grow h op = .ok (h', r)) : FreshList h h' r := by
  cases op with
  | getSlice r0 sl =>
    simp only [runListMk, hListGetSlice] at hok
    cases hgi : getIndices sl (h.list r0).len with
    | error e => rw [hgi] at hok; cases hok
    | ok q =>
      obtain ⟨start, stop, step, len⟩ := q
      rw [hgi] at hok
      simp only [bind, Except.bind, pure, Except.pure] at hok
      split at hok
      · cases hok
      · injection hok with hok; rw [fst_eq hok, snd_eq hok]; exact freshList_alloc _ _
  | add a b =>
    simp only [runListMk, hListAdd, pure, Except.pure] at hok
    injection hok with hok; rw [fst_eq hok, snd_eq hok]; exact freshList_alloc _ _
  | mul a n =>
    simp only [runListMk, hListMul, bind, Except.bind, pure, Except.pure] at hok
    split at hok
    · cases hok
    · injection hok with hok; rw [fst_eq hok, snd_eq hok]; exact freshList_alloc _ _
  | fromItems xs =>
    simp only [runListMk, hNewListFromItems, pure, Except.pure] at hok
    injection hok with hok; rw [fst_eq hok, snd_eq hok]; exact freshList_alloc _ _
  | listOf v =>
    simp only [runListMk, hSequenceList] at hok
    split at hok
    · simp only [hNewListFromItems, pure, Except.pure] at hok
      injection hok with hok; rw [fst_eq hok, snd_eq hok]; exact freshList_alloc _ _
    · simp only [hNewListFromItems, pure, Except.pure] at hok
      injection hok with hok; rw [fst_eq hok, snd_eq hok]; exact freshList_alloc _ _
    · simp only [bind, Except.bind, pure, Except.pure] at hok
      split at hok
      · cases hok
      · rename_i xs _
        injection hok with hok
        rw [fst_eq hok, snd_eq hok]
        have e : (h.newList Hdr.nil).1.list (h.newList Hdr.nil).2 = Hdr.nil := list_newList_self h Hdr.nil
        simp only [hListAppendEach]
        rw [e]
        have hn : (h.newList Hdr.nil).1.arrs = h.arrs := rfl
        obtain ⟨c, l, li, sa⟩ := appendEach_below grow h.arrs.length xs.1 (h.newList Hdr.nil).1 Hdr.nil (by rw [hn]; exact Nat.le_refl _) (Or.inl rfl)
        have hlc := appendEach_len_le_cap grow xs.1 (h.newList Hdr.nil).1 Hdr.nil (Nat.le_refl _)
        have hlt := appendEach_arr_lt grow xs.1 (h.newList Hdr.nil).1 Hdr.nil (Or.inl rfl)
        refine ⟨by simpa [Heap.setList, hn] using l, fun a ha => ?_, rfl, ⟨_, ?_, hlc, ?_⟩⟩
        · have := c a ha
          simpa [Heap.setList, Heap.cells, hn] using this
        · simp only [Heap.setList]
          rw [li]
          show (h.lists ++ [Hdr.nil]).set h.lists.length _ = _
          simp
        · rcases sa with s0 | s1
          · exact Or.inl s0
          · rcases hlt with h0 | h1
            · exact Or.inl h0
            · exact Or.inr ⟨s1, by simpa [Heap.setList] using h1⟩


/-- a chain of `append`s that started on array `A` of heap `h` has, so far, written only to `A` or to arrays
that did not exist in `h`; its current header lives in `A` or in such a new array -/
structure Step (A C : Nat) (h h' : Heap) (s' : Hdr) : Prop where
  ext : Ext (some A) h h'
  lists : h'.lists = h.lists
  arr : (s'.arr = A ∧ s'.cap ≤ C) ∨ (h.arrs.length ≤ s'.arr ∧ s'.arr < h'.arrs.length)

theorem Step.init (h : Heap) (s : Hdr) : Step s.arr s.cap h h s := ⟨Ext.refl _ _, rfl, Or.inl ⟨rfl, Nat.le_refl _⟩⟩

theorem Step.mono {A C C' : Nat} {h h' : Heap} {s' : Hdr} (st : Step A C h h' s') (hc : C ≤ C') : Step A C' h h' s' :=
  ⟨st.ext, st.lists, st.arr.imp (fun x => ⟨x.1, Nat.le_trans x.2 hc⟩) id⟩

theorem goAppendH_lc (grow : Nat → Nat → Nat) (h : Heap) (s : Hdr) (xs : List Int) :
    (goAppendH grow h s xs).2.len ≤ (goAppendH grow h s xs).2.cap := by
  unfold goAppendH
  split
  · simpa using ‹_›
  · simp [Heap.alloc]

theorem Step.next (grow : Nat → Nat → Nat) {A C : Nat} {h h1 : Heap} {s1 : Hdr} (st : Step A C h h1 s1) (xs : List Int) :
    Step A C h (goAppendH grow h1 s1 xs).1 (goAppendH grow h1 s1 xs).2 := by
  obtain ⟨e, li, ar⟩ := goAppendH_ext grow h1 s1 xs
  refine ⟨st.ext.trans e ?_, by rw [li, st.lists], ?_⟩
  · rcases st.arr with h0 | h1'
    · exact Or.inl (by rw [h0.1])
    · exact Or.inr (Or.inr ⟨_, rfl, h1'.1⟩)
  · have hl := e.len
    have hl0 := st.ext.len
    rcases ar with a0 | a1
    · rw [a0.1, a0.2]
      rcases st.arr with h0 | h1'
      · exact Or.inl h0
      · exact Or.inr ⟨h1'.1, by omega⟩
    · rw [a1.1]
      exact Or.inr ⟨hl0, a1.2⟩

theorem Step.each (grow : Nat → Nat → Nat) {A C : Nat} {h : Heap} : ∀ (xs : List Int) {h1 : Heap} {s1 : Hdr}, Step A C h h1 s1 →
    Step A C h (appendEach grow h1 s1 xs).1 (appendEach grow h1 s1 xs).2 := by
  intro xs
  induction xs with
  | nil => intro h1 s1 st; exact st
  | cons x xs ih => intro h1 s1 st; simp only [appendEach]; exact ih (st.next grow [x])

/-- what an in-place operation on the list `r` may do: write to the list's own array or to new arrays,
move the list's header to a new array; every other array and every other list object is untouched -/
structure InPlace (h h' : Heap) (r : Nat) : Prop where
  len : h.arrs.length ≤ h'.arrs.length
  cells : ∀ a, a < h.arrs.length → a ≠ (h.list r).arr → h'.cells a = h.cells a
  others : ∀ r', r' ≠ r → h'.list r' = h.list r'
  nlists : h'.lists.length = h.lists.length
  arr : ((h'.list r).arr = (h.list r).arr ∧ (h'.list r).cap ≤ (h.list r).cap) ∨
        (h.arrs.length ≤ (h'.list r).arr ∧ (h'.list r).arr < h'.arrs.length)
  lc : (h.list r).len ≤ (h.list r).cap → (h'.list r).len ≤ (h'.list r).cap

theorem InPlace.refl (h : Heap) (r : Nat) : InPlace h h r :=
  ⟨Nat.le_refl _, fun _ _ _ => rfl, fun _ _ => rfl, rfl, Or.inl ⟨rfl, Nat.le_refl _⟩, id⟩

theorem InPlace.trans {h h1 h2 : Heap} {r : Nat} (a : InPlace h h1 r) (b : InPlace h1 h2 r) : InPlace h h2 r := by
  refine ⟨Nat.le_trans a.len b.len, fun x hx hne => ?_, fun r' hr' => by rw [b.others r' hr', a.others r' hr'],
    by rw [b.nlists, a.nlists], ?_, fun hl => b.lc (a.lc hl)⟩
  · rw [b.cells x (Nat.lt_of_lt_of_le hx a.len) ?_, a.cells x hx hne]
    rcases a.arr with h0 | h1'
    · rw [h0.1]; exact hne
    · omega
  · have := a.len
    have := b.len
    rcases b.arr with b0 | b1
    · rw [b0.1]
      rcases a.arr with a0 | a1
      · exact Or.inl ⟨a0.1, Nat.le_trans b0.2 a0.2⟩
      · exact Or.inr ⟨a1.1, by omega⟩
    · exact Or.inr ⟨by omega, b1.2⟩

theorem inPlace_of_step {h h1 : Heap} {r : Nat} {s : Hdr} (hr : r < h.lists.length) (st : Step (h.list r).arr (h.list r).cap h h1 s)
    (hlc : (h.list r).len ≤ (h.list r).cap → s.len ≤ s.cap) : InPlace h (h1.setList r s) r := by
  have hr1 : r < h1.lists.length := by rw [st.lists]; exact hr
  have hl : (h1.setList r s).list r = s := list_setList_self h1 r s hr1
  refine ⟨st.ext.len, fun a ha hne => ?_, fun r' hr' => ?_, ?_, ?_, fun hh => by rw [hl]; exact hlc hh⟩
  · have : (h1.setList r s).cells a = h1.cells a := rfl
    rw [this]; exact st.ext.cells a ha (fun hh => hne (by injection hh))
  · rw [list_setList_ne h1 r r' s hr']; simp only [Heap.list, st.lists]
  · simp [Heap.setList, st.lists]
  · rw [hl]; exact st.arr

theorem inPlace_write (h : Heap) (r : Nat) (cells : List Int) : InPlace h (h.write (h.list r).arr (h.list r).off cells) r :=
  ⟨by simp [Heap.write], fun a _ hne => cells_write_ne _ _ _ _ _ hne, fun _ _ => rfl, rfl, Or.inl ⟨rfl, Nat.le_refl _⟩, id⟩

theorem goSliceH_arr {s s' : Hdr} {lo hi : Int} (h : goSliceH s lo hi = .ok s') : s'.arr = s.arr ∧ s'.cap ≤ s.cap := by
  unfold goSliceH at h
  split at h
  · injection h with h; rw [← h]; exact ⟨rfl, Nat.sub_le _ _⟩
  · cases h

theorem Step.ofSlice {l head : Hdr} {lo hi : Int} (h : Heap) (hh : goSliceH l lo hi = .ok head) : Step l.arr l.cap h h head := by
  have ha := goSliceH_arr hh
  have st := (Step.init h head).mono ha.2
  rw [ha.1] at st; exact st

/-- the in-place operations of py/list.go on the list object `r`, with operands already evaluated to cells -/
inductive ListOp where
  | extend (xs : List Int)                              -- `l += other`, `l.extend(other)`, `l.append(x)`: one `append`
  | appendEach (xs : List Int)                          -- `ExtendSequence`: one `append` per item
  | setSlice (sl : Slice) (v : Except Err (List Int))   -- `l[sl] = v`
  | setIndex (i : Idx) (v : Int)                        -- `l[i] = v`
  | delSlice (sl : Slice)                               -- `del l[sl]`
  | delIndex (i : Idx)                                  -- `del l[i]`

def runListOp (grow : Nat → Nat → Nat) (h : Heap) (r : Nat) : ListOp → Except Err Heap
  | .extend xs => pure (hListExtend grow h r xs)
  | .appendEach xs => pure (hListAppendEach grow h r xs)
  | .setSlice sl v => hListSetSlice grow h r sl v
  | .setIndex i v => hListSetIndex h r i v
  | .delSlice sl => hListDelSlice grow h r sl
  | .delIndex i => hListDelIndex grow h r i

theorem hDelItemAt_inPlace (grow : Nat → Nat → Nat) {h h' : Heap} {r : Nat} {i : Int} (hr : r < h.lists.length)
    (hok : hDelItemAt grow h r i = .ok h') : InPlace h h' r := by
  unfold hDelItemAt at hok
  simp only [bind, Except.bind, pure, Except.pure] at hok
  split at hok
  · cases hok
  · split at hok
    · cases hok
    · rename_i _ tailS _ _ head hhead
      injection hok with hok
      rw [← hok]
      have st := Step.ofSlice h hhead
      exact inPlace_of_step hr (st.next grow _) (fun _ => goAppendH_lc _ _ _ _)

theorem hDelLoop_inPlace (grow : Nat → Nat → Nat) (r : Nat) (start step : Int) : ∀ (f : Nat) (h h' : Heap) (j : Int),
    r < h.lists.length → hDelLoop grow h r start step j f = .ok h' → InPlace h h' r := by
  intro f
  induction f with
  | zero => intro h h' j _ hok; simp only [hDelLoop, pure, Except.pure] at hok; injection hok with hok; rw [← hok]; exact InPlace.refl _ _
  | succ f ih =>
    intro h h' j hr hok
    simp only [hDelLoop, bind, Except.bind] at hok
    split at hok
    · cases hok
    · rename_i _ h1 hd
      have i1 := hDelItemAt_inPlace grow hr hd
      exact i1.trans (ih h1 h' (j + 1) (by rw [i1.nlists]; exact hr) hok)

theorem runListOp_inPlace (grow : Nat → Nat → Nat) {h h' : Heap} {r : Nat} {op : ListOp} (hr : r < h.lists.length)
    (hok : runListOp grow h r op = .ok h') : InPlace h h' r := by
  cases op with
  | extend xs =>
    simp only [runListOp, hListExtend, pure, Except.pure] at hok
    injection hok with hok; rw [← hok]
    exact inPlace_of_step hr ((Step.init h (h.list r)).next grow xs) (fun _ => goAppendH_lc _ _ _ _)
  | appendEach xs =>
    simp only [runListOp, hListAppendEach, pure, Except.pure] at hok
    injection hok with hok; rw [← hok]
    exact inPlace_of_step hr (Step.each grow xs (Step.init h (h.list r))) (fun hl => appendEach_len_le_cap grow xs h _ hl)
  | setSlice sl v =>
    simp only [runListOp, hListSetSlice] at hok
    cases hgi : getIndices sl (h.list r).len with
    | error e => rw [hgi] at hok; cases hok
    | ok q =>
      obtain ⟨start, stop, step, len⟩ := q
      rw [hgi] at hok
      cases v with
      | error e => cases hok
      | ok items =>
        simp only [bind, Except.bind, pure, Except.pure] at hok
        split at hok
        · split at hok
          · cases hok
          · split at hok
            · cases hok
            · rename_i _ _ _ _ _ head hhead
              injection hok with hok
              rw [← hok]
              have st := Step.ofSlice h hhead
              exact inPlace_of_step hr ((st.next grow _).next grow _) (fun _ => goAppendH_lc _ _ _ _)
        · split at hok
          · cases hok
          · split at hok
            · cases hok
            · injection hok with hok; rw [← hok]; exact inPlace_write h r _
  | setIndex i v =>
    simp only [runListOp, hListSetIndex, bind, Except.bind, pure, Except.pure] at hok
    split at hok
    · cases hok
    · split at hok
      · cases hok
      · injection hok with hok; rw [← hok]; exact inPlace_write h r _
  | delSlice sl =>
    simp only [runListOp, hListDelSlice] at hok
    cases hgi : getIndices sl (h.list r).len with
    | error e => rw [hgi] at hok; cases hok
    | ok q =>
      obtain ⟨start, stop, step, len⟩ := q
      rw [hgi] at hok
      simp only [bind, Except.bind, pure, Except.pure] at hok
      split at hok
      · split at hok
        · cases hok
        · split at hok
          · cases hok
          · rename_i _ _ _ _ _ head hhead
            injection hok with hok
            rw [← hok]
            have st := Step.ofSlice h hhead
            exact inPlace_of_step hr (st.next grow _) (fun _ => goAppendH_lc _ _ _ _)
      · exact hDelLoop_inPlace grow r _ _ _ h h' 0 hr hok
  | delIndex i =>
    simp only [runListOp, hListDelIndex, bind, Except.bind] at hok
    split at hok
    · cases hok
    · exact hDelItemAt_inPlace grow hr hok


/-! ### the separation invariant over any history -/

/-- the heap together with the tuple / bytes values (headers) that are live -/
structure World where
  h : Heap
  live : List Hdr

/-- every list object owns its array: no other list and no live tuple / bytes value has a header into it -/
structure WInv (w : World) : Prop where
  own : ∀ r, r < w.h.lists.length → (w.h.list r).len ≤ (w.h.list r).cap ∧ ((w.h.list r).cap = 0 ∨ (w.h.list r).arr < w.h.arrs.length)
  sep : ∀ r r', r < w.h.lists.length → r' < w.h.lists.length → r ≠ r' →
    (w.h.list r).cap = 0 ∨ (w.h.list r').cap = 0 ∨ (w.h.list r).arr ≠ (w.h.list r').arr
  imm : ∀ t, t ∈ w.live → t.cap = 0 ∨ (t.arr < w.h.arrs.length ∧ ∀ r, r < w.h.lists.length → (w.h.list r).cap = 0 ∨ (w.h.list r).arr ≠ t.arr)

/-- the tuple / bytes operands of an operation -/
def ImmOp.srcs : ImmOp → List Hdr
  | .getSlice t _ => [t]
  | .add a b => [a, b]
  | .mul a _ => [a]
  | .tupleOf (.tuple s) => [s]
  | .bytesOf (.bytes s) => [s]
  | _ => []

/-- where the result of a tuple / bytes operation lives: nowhere (no capacity), in the array of an operand, or in a new array -/
theorem runImm_result (grow : Nat → Nat → Nat) {h h' : Heap} {op : ImmOp} {s : Hdr} (hok : runImm grow h op = .ok (h', s)) :
    s.cap = 0 ∨ (∃ t, t ∈ op.srcs ∧ s.arr = t.arr ∧ t.cap ≠ 0) ∨ (h.arrs.length ≤ s.arr ∧ s.arr < h'.arrs.length) := by
  have fresh : ∀ xs : List Int, h.arrs.length ≤ (h.alloc xs 0).2.arr ∧ (h.alloc xs 0).2.arr < (h.alloc xs 0).1.arrs.length :=
    fun xs => ⟨Nat.le_refl _, by simp [Heap.alloc]⟩
  have each : ∀ xs : List Int, (appendEach grow h Hdr.nil xs).2.cap = 0 ∨
      (h.arrs.length ≤ (appendEach grow h Hdr.nil xs).2.arr ∧ (appendEach grow h Hdr.nil xs).2.arr < (appendEach grow h Hdr.nil xs).1.arrs.length) := by
    intro xs
    obtain ⟨_, _, _, sa⟩ := appendEach_below grow h.arrs.length xs h Hdr.nil (Nat.le_refl _) (Or.inl rfl)
    have hlt := appendEach_arr_lt grow xs h Hdr.nil (Or.inl rfl)
    rcases sa with s0 | s1
    · exact Or.inl s0
    · rcases hlt with h0 | h1
      · exact Or.inl h0
      · exact Or.inr ⟨s1, h1⟩
  cases op with
  | getSlice t sl =>
    simp only [runImm, hTupleGetSlice] at hok
    cases hgi : getIndices sl t.len with
    | error e => rw [hgi] at hok; cases hok
    | ok q =>
      obtain ⟨start, stop, step, len⟩ := q
      rw [hgi] at hok
      simp only [bind, Except.bind, pure, Except.pure] at hok
      split at hok
      · split at hok
        · cases hok
        · rename_i _ _ s0 hs0
          injection hok with hok; injection hok with h1 h2; subst h2
          have ha := goSliceH_arr hs0
          by_cases hc : s0.cap = 0
          · exact Or.inl hc
          · exact Or.inr (Or.inl ⟨t, by simp [ImmOp.srcs], ha.1, by omega⟩)
      · split at hok
        · cases hok
        · injection hok with hok; rw [fst_eq hok, snd_eq hok]; exact Or.inr (Or.inr (fresh _))
  | add a b =>
    simp only [runImm, hTupleAdd, pure, Except.pure] at hok
    injection hok with hok; rw [fst_eq hok, snd_eq hok]; exact Or.inr (Or.inr (fresh _))
  | mul a n =>
    simp only [runImm, hTupleMul, bind, Except.bind, pure, Except.pure] at hok
    split at hok
    · cases hok
    · injection hok with hok; rw [fst_eq hok, snd_eq hok]; exact Or.inr (Or.inr (fresh _))
  | tupleOf v =>
    simp only [runImm, hSequenceTuple] at hok
    split at hok
    · rename_i s0
      injection hok with hok; injection hok with h1 h2; subst h2
      by_cases hc : s0.cap = 0
      · exact Or.inl hc
      · exact Or.inr (Or.inl ⟨s0, by simp [ImmOp.srcs], rfl, hc⟩)
    · injection hok with hok; rw [fst_eq hok, snd_eq hok]; exact Or.inr (Or.inr (fresh _))
    · simp only [bind, Except.bind, pure, Except.pure] at hok
      split at hok
      · cases hok
      · injection hok with hok; rw [fst_eq hok, snd_eq hok]
        exact (each _).imp id Or.inr
  | bytesOf v =>
    simp only [runImm, hBytesFromObject] at hok
    split at hok
    · rename_i s0
      injection hok with hok; injection hok with h1 h2; subst h2
      by_cases hc : s0.cap = 0
      · exact Or.inl hc
      · exact Or.inr (Or.inl ⟨s0, by simp [ImmOp.srcs], rfl, hc⟩)
    · cases hok
    · simp only [bind, Except.bind, pure, Except.pure] at hok
      split at hok
      · cases hok
      · split at hok
        · injection hok with hok; rw [fst_eq hok, snd_eq hok]
          exact (each _).imp id Or.inr
        · cases hok

/-- one step of a history: a tuple / bytes operation on live values (its result becomes live), a list-producing
operation, or an in-place operation on an existing list -/
inductive WStep (grow : Nat → Nat → Nat) : World → World → Prop where
  | imm {w : World} (op : ImmOp) {h' : Heap} {s : Hdr} : (∀ t, t ∈ op.srcs → t ∈ w.live) → runImm grow w.h op = .ok (h', s) →
      WStep grow w ⟨h', s :: w.live⟩
  | mk {w : World} (op : ListMk) {h' : Heap} {r : Nat} : runListMk grow w.h op = .ok (h', r) → WStep grow w ⟨h', w.live⟩
  | inplace {w : World} (r : Nat) (op : ListOp) {h' : Heap} : r < w.h.lists.length → runListOp grow w.h r op = .ok h' →
      WStep grow w ⟨h', w.live⟩

theorem list_eq_of_lists {h h' : Heap} (e : h'.lists = h.lists) (r : Nat) : h'.list r = h.list r := by
  simp only [Heap.list, e]

theorem WStep.inv {grow : Nat → Nat → Nat} {w w' : World} (st : WStep grow w w') (iv : WInv w) : WInv w' := by
  cases st with
  | imm op hsrc hok =>
    rename_i h' s
    have nw := runImm_noWrite grow hok
    have hl := list_eq_of_lists nw.lists
    have hn : h'.lists.length = w.h.lists.length := by rw [nw.lists]
    refine ⟨fun r hr => ?_, fun r r' hr hr' hne => ?_, fun t ht => ?_⟩
    · rw [hl]; rw [hn] at hr
      obtain ⟨a, b⟩ := iv.own r hr
      exact ⟨a, b.imp id (fun x => Nat.lt_of_lt_of_le x nw.len)⟩
    · rw [hl, hl]; rw [hn] at hr hr'; exact iv.sep r r' hr hr' hne
    · have old : ∀ t, t ∈ w.live → t.cap = 0 ∨ (t.arr < h'.arrs.length ∧ ∀ r, r < h'.lists.length → (h'.list r).cap = 0 ∨ (h'.list r).arr ≠ t.arr) := by
        intro t ht
        rcases iv.imm t ht with h0 | h1
        · exact Or.inl h0
        · exact Or.inr ⟨Nat.lt_of_lt_of_le h1.1 nw.len, fun r hr => by rw [hl]; rw [hn] at hr; exact h1.2 r hr⟩
      rcases List.mem_cons.mp ht with rfl | ht
      · rcases runImm_result grow hok with c0 | ⟨t0, ht0, ha, hc⟩ | fr
        · exact Or.inl c0
        · rcases old t0 (hsrc t0 ht0) with h0 | h1
          · exact absurd h0 hc
          · exact Or.inr (by rw [ha]; exact h1)
        · refine Or.inr ⟨fr.2, fun r hr => ?_⟩
          rw [hl]; rw [hn] at hr
          rcases (iv.own r hr).2 with h0 | h1
          · exact Or.inl h0
          · exact Or.inr (by omega)
      · exact old t ht
  | mk op hok =>
    rename_i h' r0
    obtain ⟨flen, fcells, fref, s, hls, hlc, hs⟩ := runListMk_fresh grow hok
    have hn : h'.lists.length = w.h.lists.length + 1 := by rw [hls]; simp
    have hold : ∀ r, r < w.h.lists.length → h'.list r = w.h.list r := by
      intro r hr
      simp only [Heap.list, hls, List.getD_eq_getElem?_getD]
      rw [List.getElem?_append_left hr]
    have hnew : h'.list w.h.lists.length = s := by
      simp [Heap.list, hls]
    have newvs : ∀ a, a < w.h.arrs.length → s.cap = 0 ∨ s.arr ≠ a := by
      intro a ha
      rcases hs with h0 | h1
      · exact Or.inl h0
      · exact Or.inr (by omega)
    refine ⟨fun r hr => ?_, fun r r' hr hr' hne => ?_, fun t ht => ?_⟩
    · have hr : r < h'.lists.length := hr
      by_cases hr0 : r < w.h.lists.length
      · rw [hold r hr0]
        obtain ⟨a, b⟩ := iv.own r hr0
        exact ⟨a, b.imp id (fun x => Nat.lt_of_lt_of_le x flen)⟩
      · have : r = w.h.lists.length := by omega
        subst this; rw [hnew]
        exact ⟨hlc, hs.imp id (fun x => x.2)⟩
    · have hr : r < h'.lists.length := hr
      have hr' : r' < h'.lists.length := hr'
      by_cases hr0 : r < w.h.lists.length <;> by_cases hr0' : r' < w.h.lists.length
      · rw [hold r hr0, hold r' hr0']; exact iv.sep r r' hr0 hr0' hne
      · have : r' = w.h.lists.length := by omega
        subst this; rw [hold r hr0, hnew]
        rcases (iv.own r hr0).2 with h0 | h1
        · exact Or.inl h0
        · rcases newvs _ h1 with n0 | n1
          · exact Or.inr (Or.inl n0)
          · exact Or.inr (Or.inr (Ne.symm n1))
      · have : r = w.h.lists.length := by omega
        subst this; rw [hold r' hr0', hnew]
        rcases (iv.own r' hr0').2 with h0 | h1
        · exact Or.inr (Or.inl h0)
        · rcases newvs _ h1 with n0 | n1
          · exact Or.inl n0
          · exact Or.inr (Or.inr n1)
      · omega
    · rcases iv.imm t ht with h0 | h1
      · exact Or.inl h0
      · refine Or.inr ⟨Nat.lt_of_lt_of_le h1.1 flen, fun r hr => ?_⟩
        have hr : r < h'.lists.length := hr
        by_cases hr0 : r < w.h.lists.length
        · rw [hold r hr0]; exact h1.2 r hr0
        · have : r = w.h.lists.length := by omega
          subst this; rw [hnew]; exact newvs _ h1.1
  | inplace r0 op hr0 hok =>
    rename_i h'
    have ip := runListOp_inPlace grow hr0 hok
    have hn := ip.nlists
    -- the header of r0 afterwards: same array with no more capacity than before, or a new array
    have hnew : ∀ a, a < w.h.arrs.length → ((w.h.list r0).cap = 0 ∨ (w.h.list r0).arr ≠ a) → ((h'.list r0).cap = 0 ∨ (h'.list r0).arr ≠ a) := by
      intro a ha hdis
      rcases ip.arr with a0 | a1
      · rcases hdis with d0 | d1
        · exact Or.inl (by omega)
        · exact Or.inr (by rw [a0.1]; exact d1)
      · exact Or.inr (by omega)
    refine ⟨fun r hr => ?_, fun r r' hr hr' hne => ?_, fun t ht => ?_⟩
    · rw [hn] at hr
      by_cases e : r = r0
      · subst e
        obtain ⟨a, b⟩ := iv.own r hr
        refine ⟨ip.lc a, ?_⟩
        rcases ip.arr with a0 | a1
        · rcases b with b0 | b1
          · exact Or.inl (show (h'.list r).cap = 0 by omega)
          · exact Or.inr (by rw [a0.1]; exact Nat.lt_of_lt_of_le b1 ip.len)
        · exact Or.inr a1.2
      · rw [ip.others r e]
        obtain ⟨a, b⟩ := iv.own r hr
        exact ⟨a, b.imp id (fun x => Nat.lt_of_lt_of_le x ip.len)⟩
    · rw [hn] at hr hr'
      by_cases e : r = r0 <;> by_cases e' : r' = r0
      · exact absurd (e.trans e'.symm) hne
      · subst e; rw [ip.others r' e']
        rcases (iv.own r' hr').2 with h0 | h1
        · exact Or.inr (Or.inl h0)
        · have := iv.sep r r' hr hr' hne
          rcases this with s0 | s1 | s2
          · rcases hnew _ h1 (Or.inl s0) with n0 | n1
            · exact Or.inl n0
            · exact Or.inr (Or.inr n1)
          · exact Or.inr (Or.inl s1)
          · rcases hnew _ h1 (Or.inr s2) with n0 | n1
            · exact Or.inl n0
            · exact Or.inr (Or.inr n1)
      · subst e'; rw [ip.others r e]
        rcases (iv.own r hr).2 with h0 | h1
        · exact Or.inl h0
        · have := iv.sep r' r hr' hr (Ne.symm hne)
          rcases this with s0 | s1 | s2
          · rcases hnew _ h1 (Or.inl s0) with n0 | n1
            · exact Or.inr (Or.inl n0)
            · exact Or.inr (Or.inr (Ne.symm n1))
          · exact Or.inl s1
          · rcases hnew _ h1 (Or.inr s2) with n0 | n1
            · exact Or.inr (Or.inl n0)
            · exact Or.inr (Or.inr (Ne.symm n1))
      · rw [ip.others r e, ip.others r' e']; exact iv.sep r r' hr hr' hne
    · rcases iv.imm t ht with h0 | h1
      · exact Or.inl h0
      · refine Or.inr ⟨Nat.lt_of_lt_of_le h1.1 ip.len, fun r hr => ?_⟩
        rw [hn] at hr
        by_cases e : r = r0
        · subst e; exact hnew _ h1.1 (h1.2 r hr)
        · rw [ip.others r e]; exact h1.2 r hr

/-- any finite history -/
inductive WReach (grow : Nat → Nat → Nat) : World → World → Prop where
  | refl (w : World) : WReach grow w w
  | step {w w1 w2 : World} : WReach grow w w1 → WStep grow w1 w2 → WReach grow w w2

theorem WReach.inv {grow : Nat → Nat → Nat} {w w' : World} (r : WReach grow w w') (iv : WInv w) : WInv w' := by
  induction r with
  | refl => exact iv
  | step _ st ih => exact st.inv ih

theorem WInv.empty : WInv ⟨Heap.empty, []⟩ :=
  ⟨fun r hr => by simp [Heap.empty] at hr, fun r _ hr => by simp [Heap.empty] at hr, fun t ht => by simp at ht⟩

/-! ### values read through sub-slices -/

theorem read_length (h : Heap) (t : Hdr) (w1 : t.len ≤ t.cap) (w2 : t.off + t.cap ≤ (h.cells t.arr).length) :
    (h.read t).length = t.len := by
  simp only [Heap.read, List.length_take, List.length_drop]
  omega

theorem read_sub (h : Heap) (t : Hdr) (a b : Nat) (hab : a ≤ b) (hb : b ≤ t.len) :
    h.read ⟨t.arr, t.off + a, b - a, t.cap - a⟩ = ((h.read t).take b).drop a := by
  simp only [Heap.read]
  rw [List.take_take, List.drop_take, List.drop_drop]
  congr 1
  omega

end GPy.C13
