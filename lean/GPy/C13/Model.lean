/-
C13 model: hand transliteration of the sequence code of gpython, bug-for-bug
(after the `fix:` commits listed in KNOWN_FINDINGS.txt):

  py/internal.go  Index, IndexInt, IndexIntCheck, GetItem/SetItem/DelItem/Len dispatch
  py/slice.go     sliceIndex, Slice.GetIndices
  py/list.go      M__getitem__, M__setitem__, DelItem, M__delitem__, M__add__, M__iadd__, M__mul__, M__eq__, M__ne__
  py/tuple.go     M__getitem__, M__add__, M__mul__, M__eq__, M__ne__
  py/string.go    M__getitem__, slice (at code-point granularity), M__add__, M__mul__, comparisons, M__contains__
  py/range.go     RangeNew, M__getitem__, computeItem, computeRangeLength, computeNegativeIndex,
                  computeRangeSlice, RangeIterator.M__next__, M__eq__, M__ne__
  py/bytes.go     M__add__, M__iadd__, comparisons, M__len__, M__getitem__ (shape of Tuple.M__getitem__), M__iter__, M__mul__
  py/tuple.go     seqOrder + M__lt__ … M__ge__ of Tuple and List (lexicographic ordering)
  py/sequence.go  SequenceTuple, Iterate, SequenceContains;  py/iterator.go Iterator.M__next__
  py/arithmetic.go  Add, IAdd, Mul, Eq .. Ge dispatch for the five sequence types

Go `int`/`int64`/`py.Int` ↦ `Int` with an explicit `wrap64` at every arithmetic step that can
wrap in Go.  A Go run-time panic (index/slice out of range, negative `make`) is the distinct
outcome `Err.panic`.  Elements are small integers (strings: code points).
-/
import GPy.Common.Basic
namespace GPy.C13

inductive Err where
  | index | value | type | overflow | memory | stopIter | panic
deriving DecidableEq, Repr, Inhabited

/-- an index operand / slice component as the Go code meets it -/
inductive Idx where
  | none                -- py.None
  | int (v : Int)       -- py.Int (an int64)
  | big (v : Int)       -- *py.BigInt (normally a value outside int64)
  | bool (b : Bool)     -- py.Bool
  | bad                 -- an object without __index__ (a float)
deriving DecidableEq, Repr, Inhabited

structure Slice where
  start : Idx
  stop : Idx
  step : Idx
deriving DecidableEq, Repr, Inhabited

inductive Key where
  | idx (i : Idx)
  | slice (s : Slice)
deriving DecidableEq, Repr, Inhabited

/-! ### py/internal.go, py/slice.go : the word-size integer core -/

/-- `Index`: `M__index__` of Int, Bool, *BigInt (`BigInt.Int()` fails outside int64) -/
def index : Idx → Except Err Int
  | .int v => .ok v
  | .bool b => .ok (if b then 1 else 0)
  | .big v => if IntMin ≤ v ∧ v ≤ IntMax then .ok v else .error .overflow
  | .none => .error .type
  | .bad => .error .type

/-- `IndexInt`: Go `int` is 64 bit here, so `Int(int(i)) != i` never fires -/
def indexInt (a : Idx) : Except Err Int := index a

/-- `IndexIntCheck` -/
def indexIntCheck (a : Idx) (max : Int) : Except Err Int := do
  let i ← indexInt a
  let i := if i < 0 then wrap64 (i + max) else i
  if i < 0 ∨ i ≥ max then throw .index else pure i

/-- `sliceIndex`: a *BigInt outside int64 is clipped to the extreme int -/
def sliceIndex : Idx → Except Err Int
  | .big v => if IntMin ≤ v ∧ v ≤ IntMax then indexInt (.big v) else if v < 0 then .ok IntMin else .ok IntMax
  | a => indexInt a

/-- the clipping block of `GetIndices` (textually the same for `start` and `stop`) -/
def clip (v length step : Int) : Int :=
  let v := if v < 0 then wrap64 (v + length) else v
  let v := if v < 0 then (if step < 0 then -1 else 0) else v
  if v ≥ length then (if step < 0 then wrap64 (length - 1) else length) else v

/-- the `step` part of `GetIndices` -/
def getStep : Idx → Except Err Int
  | .none => pure 1
  | s => do
    let st ← sliceIndex s
    if st == 0 then throw .value
    pure (if st < -IntMax then -IntMax else st)

/-- the `start` / `stop` part of `GetIndices` -/
def getBound (b : Idx) (dflt length step : Int) : Except Err Int :=
  match b with
  | .none => pure dflt
  | b => do
    let v ← sliceIndex b
    pure (clip v length step)

/-- the length formula at the end of `GetIndices` (Go `/` truncates) -/
def sliceLen (start stop step : Int) : Int :=
  if (step < 0 ∧ stop ≥ start) ∨ (step > 0 ∧ start ≥ stop) then 0
  else if step < 0 then wrap64 (Int.tdiv (wrap64 (wrap64 (stop - start) + 1)) step + 1)
  else wrap64 (Int.tdiv (wrap64 (wrap64 (stop - start) - 1)) step + 1)

/-- `(*Slice).GetIndices(length)` = (start, stop, step, slicelength) -/
def getIndices (r : Slice) (length : Int) : Except Err (Int × Int × Int × Int) := do
  let step ← getStep r.step
  let defstart := if step < 0 then wrap64 (length - 1) else 0
  let defstop := if step < 0 then -1 else length
  let start ← getBound r.start defstart length step
  let stop ← getBound r.stop defstop length step
  pure (start, stop, step, sliceLen start stop step)

/-! ### Go slice primitives (out-of-range = run-time panic) -/

def goAt (xs : List Int) (i : Int) : Except Err Int :=
  if 0 ≤ i ∧ i < xs.length then pure (xs.getD i.toNat 0) else throw .panic

def goSet (xs : List Int) (i v : Int) : Except Err (List Int) :=
  if 0 ≤ i ∧ i < xs.length then pure (xs.set i.toNat v) else throw .panic

/-- `xs[lo:]` -/
def goFrom (xs : List Int) (lo : Int) : Except Err (List Int) :=
  if 0 ≤ lo ∧ lo ≤ xs.length then pure (xs.drop lo.toNat) else throw .panic

/-- `xs[:hi]` (the model is stricter than Go: spare capacity is never used) -/
def goTo (xs : List Int) (hi : Int) : Except Err (List Int) :=
  if 0 ≤ hi ∧ hi ≤ xs.length then pure (xs.take hi.toNat) else throw .panic

/-- `xs[lo:hi]` -/
def goSub (xs : List Int) (lo hi : Int) : Except Err (List Int) :=
  if 0 ≤ lo ∧ lo ≤ hi ∧ hi ≤ xs.length then pure ((xs.take hi.toNat).drop lo.toNat) else throw .panic

/-- `for i, j := start, 0; j < slicelength; i, j = i+step, j+1 { out[j] = xs[i] }` -/
def getLoop (xs : List Int) (i step : Int) : Nat → Except Err (List Int)
  | 0 => pure []
  | m + 1 => do
    let x ← goAt xs i
    let rest ← getLoop xs (wrap64 (i + step)) step m
    pure (x :: rest)

/-- `make([]T, n)` followed by the copy loop -/
def getSliceLoop (xs : List Int) (start step slicelength : Int) : Except Err (List Int) :=
  if slicelength < 0 then throw .panic else getLoop xs start step slicelength.toNat

/-! ### py/list.go -/

def listGetItem (l : List Int) : Key → Except Err (Sum Int (List Int))
  | .slice s => do
    let (start, _, step, slicelength) ← getIndices s l.length
    let out ← getSliceLoop l start step slicelength
    pure (.inr out)
  | .idx i => do
    let i ← indexIntCheck i l.length
    let x ← goAt l i
    pure (.inl x)

/-- `for i, j := start, 0; j < slicelength; i, j = i+step, j+1 { l.Items[i] = newItems[j] }`
(`len(newItems) == slicelength` was checked, so the loop runs once per new item) -/
def setLoop (l : List Int) (i step : Int) : List Int → Except Err (List Int)
  | [] => pure l
  | v :: vs => do
    let l ← goSet l i v
    setLoop l (wrap64 (i + step)) step vs

/-- `M__setitem__` with a slice key; `newItems` = `SequenceTuple(value)` (evaluated after GetIndices) -/
def listSetSlice (l : List Int) (s : Slice) (newItems : Except Err (List Int)) : Except Err (List Int) := do
  let (start, stop, step, slicelength) ← getIndices s l.length
  let newItems ← newItems
  if step == 1 then
    let stop := if stop < start then start else stop
    let tail ← goFrom l stop
    let head ← goTo l start
    pure (head ++ newItems ++ tail)
  else
    if (newItems.length : Int) ≠ slicelength then throw .value
    else setLoop l start step newItems

def listSetIndex (l : List Int) (i : Idx) (v : Int) : Except Err (List Int) := do
  let i ← indexIntCheck i l.length
  goSet l i v

/-- `(*List).DelItem(i)`: `append(a.Items[:i], a.Items[i+1:]...)` -/
def delItemAt (l : List Int) (i : Int) : Except Err (List Int) := do
  let t ← goFrom l (wrap64 (i + 1))
  let h ← goTo l i
  pure (h ++ t)

/-- `for j := 0; j < slicelength; j++ { a.DelItem(start + j*step - j) }` -/
def delLoop (l : List Int) (start step j : Int) : Nat → Except Err (List Int)
  | 0 => pure l
  | f + 1 => do
    let l ← delItemAt l (wrap64 (wrap64 (start + wrap64 (j * step)) - j))
    delLoop l start step (j + 1) f

def listDelSlice (l : List Int) (s : Slice) : Except Err (List Int) := do
  let (start, stop, step, slicelength) ← getIndices s l.length
  if step == 1 then
    let stop := if stop < start then start else stop
    let t ← goFrom l stop
    let h ← goTo l start
    pure (h ++ t)
  else
    let start' := if step < 0 then wrap64 (start + wrap64 ((wrap64 (slicelength - 1)) * step)) else start
    let step' := if step < 0 then wrap64 (-step) else step
    delLoop l start' step' 0 slicelength.toNat

def listDelIndex (l : List Int) (i : Idx) : Except Err (List Int) := do
  let i ← indexIntCheck i l.length
  delItemAt l i

/-- `for i := 0; i < n; i += m { copy(new[i:i+m], items) }` -/
def mulLoop (xs : List Int) (m n i : Int) : Nat → Except Err (List Int)
  | 0 => pure []
  | f + 1 =>
    if i < n then
      let hi := wrap64 (i + m)
      if i ≤ hi ∧ hi ≤ n then do
        let rest ← mulLoop xs m n hi f
        pure (xs ++ rest)
      else throw .panic
    else pure []

/-- `List.M__mul__` / `Tuple.M__mul__` after `convertToInt` -/
def seqMul (xs : List Int) (b : Int) : Except Err (List Int) :=
  let m : Int := xs.length
  let n := wrap64 (b * m)
  let n := if n < 0 then 0 else n
  mulLoop xs m n 0 n.toNat

/-- `String.M__mul__`: `for i := 0; i < int(b); i++ { out.WriteString(a) }` -/
def strMul (xs : List Int) (b : Int) : List Int :=
  let b := if b < 0 then 0 else b
  (List.replicate b.toNat xs).flatten

/-! ### py/tuple.go, py/string.go -/

def tupleGetItem (t : List Int) : Key → Except Err (Sum Int (List Int))
  | .slice s => do
    let (start, stop, step, slicelength) ← getIndices s t.length
    if step == 1 then
      let stop := if stop < start then start else stop
      let out ← goSub t start stop
      pure (.inr out)
    else
      let out ← getSliceLoop t start step slicelength
      pure (.inr out)
  | .idx i => do
    let i ← indexIntCheck i t.length
    let x ← goAt t i
    pure (.inl x)

/-- number of UTF-8 bytes of a code point -/
def utf8Len (c : Int) : Int := if c < 128 then 1 else if c < 2048 then 2 else if c < 65536 then 3 else 4

def byteLen (s : List Int) : Int := (s.map utf8Len).foldl (· + ·) 0

/-- `String.pos(n)` in character units: the n-th character, or the end when there is none -/
def strPos (s : List Int) (n : Int) : Int := if 0 ≤ n ∧ n < s.length then n else s.length

/-- `String.slice(start, stop, length)` at code-point granularity -/
def strSlice (s : List Int) (start stop length : Int) : Except Err (List Int) :=
  if start ≥ stop then pure []
  else if length = byteLen s then goSub s start stop     -- ascii only: s[start:stop]
  else if start ≤ 0 ∧ stop ≥ length then pure s
  else
    let startI := strPos s start
    let rest := s.drop startI.toNat
    let stopI := strPos rest (stop - start) + startI
    goSub s startI stopI

def strGetItem (s : List Int) : Key → Except Err (List Int)
  | .slice sl => do
    let length : Int := s.length
    let (start, stop, step, slicelength) ← getIndices sl length
    if step == 1 then strSlice s start stop length
    else getSliceLoop s start step slicelength
  | .idx i => do
    let i ← indexIntCheck i s.length
    let x ← goAt s i
    pure [x]

/-! ### py/range.go -/

structure Range where
  start : Int
  stop : Int
  step : Int
  length : Int
deriving DecidableEq, Repr, Inhabited

/-- `computeRangeLength` (callers guarantee step ≠ 0) -/
def computeRangeLength (start stop step : Int) : Int :=
  let lo := if step > 0 then start else stop
  let hi := if step > 0 then stop else start
  let step := if step > 0 then step else wrap64 (-step)
  if lo ≥ hi then 0 else wrap64 (Int.tdiv (wrap64 (wrap64 (hi - lo) - 1)) step + 1)

/-- `RangeNew` with three arguments -/
def rangeNew (a b c : Idx) : Except Err Range := do
  let start ← index a
  let stop ← index b
  let step ← index c
  if step == 0 then throw .value
  pure ⟨start, stop, step, computeRangeLength start stop step⟩

def computeItem (r : Range) (item : Int) : Int := wrap64 (r.start + wrap64 (item * r.step))

def computeNegativeIndex (index length : Int) : Int := if index < 0 then wrap64 (index + length) else index

def computeRangeSlice (r : Range) (s : Slice) : Except Err Range := do
  let (start, stop, step, sliceLength) ← getIndices s r.length
  pure ⟨computeItem r start, computeItem r stop, wrap64 (step * r.step), sliceLength⟩

def rangeGetItem (r : Range) : Key → Except Err (Sum Int Range)
  | .slice s => .inr <$> computeRangeSlice r s
  | .idx i => do
    let ix ← index i
    let ix := computeNegativeIndex ix r.length
    if ix < 0 ∨ ix ≥ r.length then throw .index
    else pure (.inl (computeItem r ix))

/-- `RangeIterator.M__next__` : (value, new Index); `Index` counts the items delivered -/
def rangeNext (r : Range) (ix : Int) : Except Err (Int × Int) :=
  if ix ≥ r.length then throw .stopIter
  else pure (computeItem r ix, wrap64 (ix + 1))

/-- iterate to exhaustion, at most `fuel` items; the flag says "cut off" -/
def rangeDrain (r : Range) (ix : Int) : Nat → List Int × Bool
  | 0 => ([], match rangeNext r ix with | .ok _ => true | .error _ => false)
  | f + 1 =>
    match rangeNext r ix with
    | .ok (v, ix') => let (xs, t) := rangeDrain r ix' f; (v :: xs, t)
    | .error _ => ([], false)

def rangeEq (a b : Range) : Bool :=
  if a.length ≠ b.length then false
  else if a.length == 0 then true
  else if a.start ≠ b.start then false
  else if a.length == 1 then true
  else if a.step ≠ b.step then false
  else true

/-! ### the objects and the dispatching API of py/internal.go, py/arithmetic.go, py/sequence.go -/

inductive Obj where
  | list (xs : List Int)
  | tuple (xs : List Int)
  | str (xs : List Int)
  | bytes (xs : List Int)
  | range (r : Range)
  | int (v : Int)
  | bool (b : Bool)
  | none
  | iter (xs : List Int) (cut : Bool)   -- the drained items of an iterator
deriving DecidableEq, Repr, Inhabited

/-- the cap of the harness when it drains an iterator -/
def drainCap : Nat := 40

/-- `py.GetItem` -/
def getItem (o : Obj) (k : Key) : Except Err Obj :=
  match o with
  | .list l => do
    match ← listGetItem l k with
    | .inl x => pure (.int x)
    | .inr xs => pure (.list xs)
  | .tuple t => do
    match ← tupleGetItem t k with
    | .inl x => pure (.int x)
    | .inr xs => pure (.tuple xs)
  | .str s => .str <$> strGetItem s k
  | .range r => do
    match ← rangeGetItem r k with
    | .inl x => pure (.int x)
    | .inr r' => pure (.range r')
  | .bytes t => do        -- Bytes.M__getitem__ is Tuple.M__getitem__ on bytes (sub-slice for step 1)
    match ← tupleGetItem t k with
    | .inl x => pure (.int x)
    | .inr xs => pure (.bytes xs)
  | _ => throw .type

/-- `Iterate` / `Iter`+`Next` over an object: its items, or TypeError -/
def iterate (o : Obj) : Except Err (List Int × Bool) :=
  match o with
  | .list xs => pure (xs, false)
  | .tuple xs => pure (xs, false)
  | .str xs => pure (xs, false)
  | .bytes xs => pure (xs, false)     -- Iterate's fast path; Iter(bytes) = NewIterator over M__getitem__
  | .range r => pure (rangeDrain r 0 drainCap)
  | _ => throw .type

/-- `SequenceTuple(value)`: Tuple and List directly, everything else through `Iterate`
(which has a fast path for Bytes) -/
def sequenceTuple (o : Obj) : Except Err (List Int) :=
  match o with
  | .bytes xs => pure xs
  | .int _ | .bool _ | .none | .iter _ _ => throw .type
  | o => do let (xs, _) ← iterate o; pure xs

/-- `py.SetItem`: (new state of the list) -/
def setItem (o : Obj) (k : Key) (v : Obj) : Except Err Obj :=
  match o with
  | .list l =>
    match k with
    | .slice s => .list <$> listSetSlice l s (sequenceTuple v)
    | .idx i =>
      match v with
      | .int x => .list <$> listSetIndex l i x
      | _ => throw .type   -- not generated: elements are ints
  | _ => throw .type

/-- `py.DelItem` -/
def delItem (o : Obj) (k : Key) : Except Err Obj :=
  match o with
  | .list l =>
    match k with
    | .slice s => .list <$> listDelSlice l s
    | .idx i => .list <$> listDelIndex l i
  | _ => throw .type

/-- `py.Add` (M__add__, then M__radd__ for operands of different type) -/
def add (a b : Obj) : Except Err Obj :=
  match a, b with
  | .list x, .list y => pure (.list (x ++ y))
  | .tuple x, .tuple y => pure (.tuple (x ++ y))
  | .str x, .str y => pure (.str (x ++ y))
  | .bytes x, .bytes y => pure (.bytes (x ++ y))
  | _, _ => throw .type

/-- `convertToInt` -/
def convertToInt : Idx → Option Int
  | .int v => some v
  | .bool b => some (if b then 1 else 0)
  | _ => Option.none

/-- `py.Mul(seq, n)` and `py.Mul(n, seq)` (M__mul__ / M__rmul__) -/
def mul (a : Obj) (n : Idx) : Except Err Obj :=
  match convertToInt n with
  | Option.none => throw .type
  | some b =>
    match a with
    | .list x => .list <$> seqMul x b
    | .tuple x => .tuple <$> seqMul x b
    | .str x => pure (.str (strMul x b))
    | .bytes x => .bytes <$> seqMul x b
    | _ => throw .type

/-- `py.Len` -/
def len (a : Obj) : Except Err Obj :=
  match a with
  | .list x | .tuple x | .str x | .bytes x => pure (.int x.length)
  | .range r => pure (.int r.length)
  | _ => throw .type

/-- `strings.Contains` on code points -/
def isInfix (needle hay : List Int) : Bool :=
  (List.range (hay.length + 1)).any (fun i => (hay.drop i).take needle.length == needle)

/-- `py.SequenceContains` -/
def contains (a : Obj) (e : Obj) : Except Err Obj :=
  match a with
  | .str x =>
    match e with
    | .str n => pure (.bool (isInfix n x))
    | _ => throw .type
  | .bytes xs =>
    match e with
    | .int v => pure (.bool (xs.contains v))
    | _ => pure (.bool false)
  | a => do
    let (xs, _) ← iterate a
    match e with
    | .int v => pure (.bool (xs.contains v))
    | _ => pure (.bool false)

inductive CmpOp where
  | lt | le | eq | ne | gt | ge
deriving DecidableEq, Repr, Inhabited

def CmpOp.name : CmpOp → String
  | .lt => "lt" | .le => "le" | .eq => "eq" | .ne => "ne" | .gt => "gt" | .ge => "ge"

/-- Go's `<` on strings / `bytes.Compare` (lexicographic on the items) -/
def lexLt : List Int → List Int → Bool
  | [], [] => false
  | [], _ :: _ => true
  | _ :: _, [] => false
  | x :: xs, y :: ys => if x < y then true else if y < x then false else lexLt xs ys

def cmpOrd (op : CmpOp) (x y : List Int) : Bool :=
  match op with
  | .lt => lexLt x y
  | .le => !lexLt y x
  | .eq => x == y
  | .ne => x != y
  | .gt => lexLt y x
  | .ge => !lexLt x y

/-- `py.Lt` … `py.Ge` on two item objects (here: ints) -/
def intCmp (op : CmpOp) (x y : Int) : Bool :=
  match op with
  | .lt => x < y | .le => x ≤ y | .eq => x == y | .ne => x != y | .gt => x > y | .ge => x ≥ y

/-- `seqOrder` (py/tuple.go): `for i := 0; i < len(a) && i < len(b); i++`: the first pair of items that
are not `Eq` decides by `cmp`, otherwise the lengths do -/
def seqOrder (op : CmpOp) : List Int → List Int → Bool
  | x :: xs, y :: ys => if x == y then seqOrder op xs ys else intCmp op x y
  | xs, ys => intCmp op xs.length ys.length

/-- `py.Lt` … `py.Ge`, `py.Eq`, `py.Ne` on two sequence objects -/
def cmp (op : CmpOp) (a b : Obj) : Except Err Obj :=
  match a, b with
  | .str x, .str y => pure (.bool (cmpOrd op x y))
  | .bytes x, .bytes y => pure (.bool (cmpOrd op x y))
  | .list x, .list y | .tuple x, .tuple y =>
    match op with
    | .eq => pure (.bool (x == y))     -- length test, then element-wise Eq
    | .ne => pure (.bool (x != y))
    | op => pure (.bool (seqOrder op x y))
  | .range x, .range y =>
    match op with
    | .eq => pure (.bool (rangeEq x y))
    | .ne => pure (.bool (!rangeEq x y))
    | _ => throw .type
  | _, _ =>
    match op with
    | .eq => pure (.bool false)        -- different types: both M__eq__ say NotImplemented
    | .ne => pure (.bool true)
    | _ => throw .type

/-- drain `py.Iter(o)` with `py.Next` -/
def iter (a : Obj) : Except Err Obj := do
  let (xs, cut) ← iterate a
  pure (.iter xs cut)

end GPy.C13
