/-
C13 helper lemmas: the progression/walk arithmetic, GetIndices versus the slice specification,
the copy/assign/delete loops of list.go, the range arithmetic.  Property theorems: Props.lean.
-/
import GPy.C13.Spec
namespace GPy.C13


/-- the arithmetic progression `a, a+k, …` with `m` terms -/
def prog (a k : Int) : Nat → List Int
  | 0 => []
  | m + 1 => a :: prog (a + k) k m

/-- number of terms of the progression from `a` with step `k > 0` before `b` -/
def countUp (a b k : Int) : Nat := if a < b then ((b - a - 1) / k + 1).toNat else 0

theorem countUp_step {a b k : Int} (hk : 0 < k) (h : a < b) : countUp a b k = countUp (a + k) b k + 1 := by
  unfold countUp
  rw [if_pos h]
  have hq : 0 ≤ (b - a - 1) / k := Int.ediv_nonneg (by omega) (by omega)
  split
  · rename_i h2
    have e : b - a - 1 = (b - (a + k) - 1) + 1 * k := by omega
    have : (b - a - 1) / k = (b - (a + k) - 1) / k + 1 := by
      rw [e, Int.add_mul_ediv_right _ _ (by omega)]
    have hq2 : 0 ≤ (b - (a + k) - 1) / k := Int.ediv_nonneg (by omega) (by omega)
    omega
  · rename_i h2
    have : (b - a - 1) / k = 0 := Int.ediv_eq_zero_of_lt (by omega) (by omega)
    omega

theorem walk_pos (b k : Int) (hk : 0 < k) : ∀ (fuel : Nat) (a : Int), (b - a).toNat ≤ fuel →
    walk a b k fuel = prog a k (countUp a b k) := by
  intro fuel
  induction fuel with
  | zero =>
    intro a h
    have : ¬ a < b := by omega
    simp [walk, countUp, this, prog]
  | succ f ih =>
    intro a h
    by_cases hab : a < b
    · rw [countUp_step hk hab]
      simp only [walk, prog]
      rw [if_pos (Or.inl ⟨hk, hab⟩), ih (a + k) (by omega)]
    · simp [walk, countUp, hab, prog]
      omega


theorem walk_neg (b k : Int) : ∀ (fuel : Nat) (a : Int),
    walk a b k fuel = (walk (-a) (-b) (-k) fuel).map (fun x => -x) := by
  intro fuel
  induction fuel with
  | zero => intro a; simp [walk]
  | succ f ih =>
    intro a
    simp only [walk]
    have hc : ((k > 0 ∧ a < b) ∨ (k < 0 ∧ a > b)) ↔ ((-k > 0 ∧ -a < -b) ∨ (-k < 0 ∧ -a > -b)) := by omega
    by_cases h : (k > 0 ∧ a < b) ∨ (k < 0 ∧ a > b)
    · rw [if_pos h, if_pos (hc.mp h), ih (a + k)]
      have : -(a + k) = -a + -k := by omega
      simp [this]
    · rw [if_neg h, if_neg (fun h' => h (hc.mpr h'))]; rfl

theorem prog_neg (k : Int) : ∀ (m : Nat) (a : Int), prog a k m = (prog (-a) (-k) m).map (fun x => -x) := by
  intro m
  induction m with
  | zero => intro a; rfl
  | succ m ih =>
    intro a
    simp only [prog, List.map_cons, Int.neg_neg]
    rw [ih (a + k)]
    have : -(a + k) = -a + -k := by omega
    rw [this]

/-- number of selected indices, either direction -/
def count (a b k : Int) : Nat := if k > 0 then countUp a b k else countUp (-a) (-b) (-k)

theorem walk_eq_prog (a b k : Int) (hk : k ≠ 0) (fuel : Nat) (hf : (b - a).natAbs ≤ fuel) :
    walk a b k fuel = prog a k (count a b k) := by
  unfold count
  by_cases h : k > 0
  · rw [if_pos h]; exact walk_pos b k h fuel a (by omega)
  · rw [if_neg h, walk_neg, prog_neg, walk_pos (-b) (-k) (by omega) fuel (-a) (by omega)]

theorem prog_mem (b k : Int) (hk : 0 < k) : ∀ (m : Nat) (a : Int), m = countUp a b k →
    ∀ x ∈ prog a k m, a ≤ x ∧ x < b := by
  intro m
  induction m with
  | zero => intro a _ x hx; simp [prog] at hx
  | succ m ih =>
    intro a hm x hx
    have hab : a < b := by
      by_cases h : a < b
      · exact h
      · simp [countUp, h] at hm
    rw [countUp_step hk hab] at hm
    simp only [prog, List.mem_cons] at hx
    rcases hx with rfl | hx
    · omega
    · have := ih (a + k) (by omega) x hx
      omega

/-- the length formula of GetIndices on in-range operands, positive step -/
theorem sliceLen_pos {a b k n : Int} (hk : 0 < k) (hk' : k ≤ IntMax) (ha : 0 ≤ a ∧ a ≤ n) (hb : 0 ≤ b ∧ b ≤ n) (hn : n ≤ IntMax) :
    sliceLen a b k = (countUp a b k : Nat) := by
  unfold sliceLen countUp IntMax at *
  have h1 : ¬ k < 0 := by omega
  by_cases hab : a < b
  · have hc : ¬ ((k < 0 ∧ b ≥ a) ∨ (k > 0 ∧ a ≥ b)) := by omega
    rw [if_neg hc, if_neg h1, if_pos hab]
    have e1 : wrap64 (wrap64 (b - a) - 1) = b - a - 1 := by unfold wrap64; omega
    rw [e1, Int.tdiv_eq_ediv_of_nonneg (by omega)]
    have hq : 0 ≤ (b - a - 1) / k := Int.ediv_nonneg (by omega) (by omega)
    have hq2 : (b - a - 1) / k ≤ b - a - 1 := Int.ediv_le_self _ (by omega)
    have : wrap64 ((b - a - 1) / k + 1) = (b - a - 1) / k + 1 := by unfold wrap64; omega
    rw [this]; omega
  · have hc : ((k < 0 ∧ b ≥ a) ∨ (k > 0 ∧ a ≥ b)) := by omega
    rw [if_pos hc, if_neg hab]; rfl

theorem sliceLen_neg {a b k n : Int} (hk : k < 0) (hk' : -IntMax ≤ k) (ha : -1 ≤ a ∧ a ≤ n - 1) (hb : -1 ≤ b ∧ b ≤ n - 1) (hn : n ≤ IntMax) :
    sliceLen a b k = (countUp (-a) (-b) (-k) : Nat) := by
  obtain ⟨p, rfl⟩ : ∃ p, k = -p := ⟨-k, by omega⟩
  simp only [Int.neg_neg]
  unfold sliceLen countUp IntMax at *
  by_cases hab : b < a
  · have hc : ¬ ((-p < 0 ∧ b ≥ a) ∨ (-p > 0 ∧ a ≥ b)) := by omega
    have hab' : -a < -b := by omega
    rw [if_neg hc, if_pos hk, if_pos hab']
    have e1 : wrap64 (wrap64 (b - a) + 1) = -(a - b - 1) := by unfold wrap64; omega
    rw [e1, Int.tdiv_neg, Int.neg_tdiv, Int.neg_neg, Int.tdiv_eq_ediv_of_nonneg (by omega)]
    have e4 : -b - -a - 1 = a - b - 1 := by omega
    rw [e4]
    have hq : 0 ≤ (a - b - 1) / p := Int.ediv_nonneg (by omega) (by omega)
    have hq2 : (a - b - 1) / p ≤ a - b - 1 := Int.ediv_le_self _ (by omega)
    have : wrap64 ((a - b - 1) / p + 1) = (a - b - 1) / p + 1 := by unfold wrap64; omega
    rw [this]; omega
  · have hc : ((-p < 0 ∧ b ≥ a) ∨ (-p > 0 ∧ a ≥ b)) := by omega
    have hab' : ¬ -a < -b := by omega
    rw [if_pos hc, if_neg hab']; rfl


theorem clip_pos {v d n k : Int} (hk : 0 < k) (hn : 0 ≤ n ∧ n ≤ IntMax) (hv : inRange v)
    (hd : v = d ∨ (d > IntMax ∧ v = IntMax) ∨ (d < IntMin ∧ v = IntMin)) (dflt : Int) :
    clip v n k = specBound n false (some d) dflt ∧ 0 ≤ clip v n k ∧ clip v n k ≤ n := by
  unfold clip specBound inRange IntMax IntMin wrap64 at *
  simp only [Bool.false_eq_true, if_false]
  omega
theorem clip_neg {v d n k : Int} (hk : k < 0) (hn : 0 ≤ n ∧ n ≤ IntMax) (hv : inRange v)
    (hd : v = d ∨ (d > IntMax ∧ v = IntMax) ∨ (d < IntMin ∧ v = IntMin)) (dflt : Int) :
    clip v n k = specBound n true (some d) dflt ∧ -1 ≤ clip v n k ∧ clip v n k ≤ n - 1 := by
  unfold clip specBound inRange IntMax IntMin wrap64 at *
  simp only [if_true]
  omega


def Idx.WF : Idx → Prop
  | .int v => inRange v
  | _ => True

def Slice.WF (s : Slice) : Prop := s.start.WF ∧ s.stop.WF ∧ s.step.WF

/-- clamp to the int64 range -/
def clampWord (d : Int) : Int := if d > IntMax then IntMax else if d < IntMin then IntMin else d
/-- the step after GetIndices' adjustments -/
def clampStep (d : Int) : Int := if d > IntMax then IntMax else if d < -IntMax then -IntMax else d

theorem clampWord_id {v : Int} (h : IntMin ≤ v ∧ v ≤ IntMax) : clampWord v = v := by
  unfold clampWord; unfold IntMin IntMax at *; repeat' split
  all_goals omega
theorem clampWord_hi {v : Int} (h : v > IntMax) : clampWord v = IntMax := by
  unfold clampWord; rw [if_pos h]
theorem clampWord_lo {v : Int} (h : v < IntMin) : clampWord v = IntMin := by
  unfold clampWord; unfold IntMin IntMax at *; repeat' split
  all_goals omega

theorem sliceIndex_ok (c : Idx) (wf : c.WF) (h1 : c ≠ .none) (h2 : c ≠ .bad) :
    ∃ d, c.denote = some d ∧ specComp c = .ok (some d) ∧ sliceIndex c = .ok (clampWord d) := by
  cases c with
  | none => exact absurd rfl h1
  | bad => exact absurd rfl h2
  | int v =>
    refine ⟨v, rfl, rfl, ?_⟩
    simp only [Idx.WF, inRange] at wf
    rw [clampWord_id wf]; rfl
  | bool b =>
    refine ⟨if b then 1 else 0, rfl, rfl, ?_⟩
    cases b
    · rw [clampWord_id (by simp [IntMin, IntMax])]; rfl
    · rw [clampWord_id (by simp [IntMin, IntMax])]; rfl
  | big v =>
    refine ⟨v, rfl, rfl, ?_⟩
    by_cases h : IntMin ≤ v ∧ v ≤ IntMax
    · rw [clampWord_id h]; simp only [sliceIndex, indexInt, index, h, and_self, if_true]
    · simp only [sliceIndex, if_neg h]
      by_cases h3 : v < 0
      · rw [if_pos h3, clampWord_lo (by unfold IntMin IntMax at *; omega)]
      · rw [if_neg h3, clampWord_hi (by unfold IntMin IntMax at *; omega)]

theorem clampStep_of_word (d : Int) : (if clampWord d < -IntMax then -IntMax else clampWord d) = clampStep d := by
  unfold clampWord clampStep IntMax IntMin
  repeat' split
  all_goals omega

theorem clampWord_eq_zero (d : Int) : clampWord d = 0 ↔ d = 0 := by
  unfold clampWord IntMax IntMin
  repeat' split
  all_goals omega

theorem getStep_spec (c : Idx) (wf : c.WF) :
    getStep c = (specComp c).bind (fun o => if o == some 0 then .error .value else .ok (clampStep (o.getD 1))) := by
  by_cases h1 : c = .none
  · subst h1
    have : clampStep 1 = 1 := by unfold clampStep IntMax; repeat' split <;> omega
    simp [getStep, specComp, Except.bind, this]; rfl
  by_cases h2 : c = .bad
  · subst h2; rfl
  obtain ⟨d, hd, hs, hi⟩ := sliceIndex_ok c wf h1 h2
  have : getStep c = (do
      let st ← sliceIndex c
      if st == 0 then throw .value
      pure (if st < -IntMax then -IntMax else st)) := by
    cases c <;> first | rfl | exact absurd rfl h1
  rw [this, hi, hs]
  by_cases h0 : d = 0
  · subst h0
    have : clampWord 0 = 0 := (clampWord_eq_zero 0).mpr rfl
    simp [this, Except.bind, bind, throw, throwThe, MonadExceptOf.throw]
  · have hz : clampWord d ≠ 0 := fun h => h0 ((clampWord_eq_zero d).mp h)
    have e1 : (clampWord d == 0) = false := by simp [hz]
    have e2 : (some d == some (0:Int)) = false := by simp [h0]
    simp only [Except.bind, bind, e1, e2, Option.getD, Bool.false_eq_true, if_false, pure, Except.pure]
    rw [clampStep_of_word]

theorem getBound_spec (c : Idx) (wf : c.WF) (dflt n k : Int) :
    getBound c dflt n k = (specComp c).map (fun o => match o with | Option.none => dflt | some d => clip (clampWord d) n k) := by
  by_cases h1 : c = .none
  · subst h1; rfl
  by_cases h2 : c = .bad
  · subst h2; rfl
  obtain ⟨d, hd, hs, hi⟩ := sliceIndex_ok c wf h1 h2
  have : getBound c dflt n k = (do let v ← sliceIndex c; pure (clip v n k)) := by
    cases c <;> first | rfl | exact absurd rfl h1
  rw [this, hi, hs]; rfl




theorem prog_one (a k k' : Int) : ∀ m, m ≤ 1 → prog a k m = prog a k' m
  | 0, _ => rfl
  | 1, _ => rfl
  | m + 2, h => by omega

theorem countUp_big {a b k : Int} (h : b - a ≤ k) (_hn : 0 < k) : countUp a b k = if a < b then 1 else 0 := by
  unfold countUp
  split
  · have : (b - a - 1) / k = 0 := Int.ediv_eq_zero_of_lt (by omega) (by omega)
    rw [this]; rfl
  · rfl

theorem clampStep_pos {d : Int} (h : d > 0) : 0 < clampStep d ∧ clampStep d ≤ IntMax ∧ (clampStep d = d ∨ (d > IntMax ∧ clampStep d = IntMax)) := by
  unfold clampStep IntMax; repeat' split
  all_goals omega
theorem clampStep_neg {d : Int} (h : d < 0) : clampStep d < 0 ∧ -IntMax ≤ clampStep d ∧ (clampStep d = d ∨ (d < -IntMax ∧ clampStep d = -IntMax)) := by
  unfold clampStep IntMax; repeat' split
  all_goals omega

/-- the model-side default / clipped bound -/
def mBound (o : Option Int) (dflt n k : Int) : Int :=
  match o with
  | Option.none => dflt
  | some d => clip (clampWord d) n k

theorem clampWord_rel (d : Int) : inRange (clampWord d) ∧
    (clampWord d = d ∨ (d > IntMax ∧ clampWord d = IntMax) ∨ (d < IntMin ∧ clampWord d = IntMin)) := by
  unfold clampWord inRange IntMax IntMin
  repeat' split
  all_goals omega

theorem mBound_pos {n k : Int} (hk : 0 < k) (hn : 0 ≤ n ∧ n ≤ IntMax) (o : Option Int) (dflt : Int) (hd : 0 ≤ dflt ∧ dflt ≤ n) :
    mBound o dflt n k = specBound n false o dflt ∧ 0 ≤ mBound o dflt n k ∧ mBound o dflt n k ≤ n := by
  cases o with
  | none => exact ⟨rfl, hd⟩
  | some d => exact clip_pos hk hn (clampWord_rel d).1 (clampWord_rel d).2 dflt

theorem mBound_neg {n k : Int} (hk : k < 0) (hn : 0 ≤ n ∧ n ≤ IntMax) (o : Option Int) (dflt : Int) (hd : -1 ≤ dflt ∧ dflt ≤ n - 1) :
    mBound o dflt n k = specBound n true o dflt ∧ -1 ≤ mBound o dflt n k ∧ mBound o dflt n k ≤ n - 1 := by
  cases o with
  | none => exact ⟨rfl, hd⟩
  | some d => exact clip_neg hk hn (clampWord_rel d).1 (clampWord_rel d).2 dflt

/-- what the integer part of GetIndices guarantees, relative to the resolved slice (s, e, d) -/
structure SliceOK (n : Nat) (s e : Option Int) (d : Int) (a b k m : Int) : Prop where
  step_eq : k = clampStep d
  step_ne : k ≠ 0
  step_rng : -IntMax ≤ k ∧ k ≤ IntMax
  len_nonneg : 0 ≤ m
  eq_prog : sliceIndices n s e d = prog a k m.toNat
  inb : ∀ x ∈ sliceIndices n s e d, 0 ≤ x ∧ x < n
  lo : k > 0 → 0 ≤ a ∧ a ≤ n ∧ 0 ≤ b ∧ b ≤ n ∧ (a < b → (m:Int) ≤ b - a) ∧ (b ≤ a → m = 0)
        ∧ a = specBound n false s 0 ∧ b = specBound n false e n ∧ m = (countUp a b k : Nat)
  hi : k < 0 → -1 ≤ a ∧ a ≤ n - 1 ∧ -1 ≤ b ∧ b ≤ n - 1

theorem countUp_le {a b k : Int} (hk : 0 < k) (h : a < b) : (countUp a b k : Int) ≤ b - a := by
  unfold countUp; rw [if_pos h]
  have hq : 0 ≤ (b - a - 1) / k := Int.ediv_nonneg (by omega) (by omega)
  have hq2 : (b - a - 1) / k ≤ b - a - 1 := Int.ediv_le_self _ (by omega)
  omega

theorem core (n : Nat) (hn : (n : Int) ≤ IntMax) (s e : Option Int) (d : Int) (hd : d ≠ 0) :
    SliceOK n s e d
      (mBound s (if clampStep d < 0 then wrap64 ((n : Int) - 1) else 0) n (clampStep d))
      (mBound e (if clampStep d < 0 then -1 else (n : Int)) n (clampStep d)) (clampStep d)
      (sliceLen (mBound s (if clampStep d < 0 then wrap64 ((n : Int) - 1) else 0) n (clampStep d))
        (mBound e (if clampStep d < 0 then -1 else (n : Int)) n (clampStep d)) (clampStep d)) := by
  have hn0 : (0 : Int) ≤ n := Int.natCast_nonneg n
  by_cases hpos : d > 0
  · obtain ⟨hk, hk1, hk2⟩ := clampStep_pos hpos
    generalize hkd : clampStep d = k at hk hk1 hk2 ⊢
    have hnk : ¬ k < 0 := by omega
    have hs := mBound_pos hk ⟨hn0, hn⟩ s 0 ⟨Int.le_refl 0, hn0⟩
    have he := mBound_pos hk ⟨hn0, hn⟩ e n ⟨hn0, Int.le_refl _⟩
    rw [if_neg hnk, if_neg hnk]
    generalize mBound s 0 n k = A at hs
    generalize mBound e n n k = B at he
    have hlen := sliceLen_pos hk hk1 ⟨hs.2.1, hs.2.2⟩ ⟨he.2.1, he.2.2⟩ hn
    have hidx : sliceIndices n s e d = prog A k (countUp A B k) := by
      unfold sliceIndices; rw [if_pos hpos, ← hs.1, ← he.1, walk_eq_prog A B d hd n (by omega)]
      unfold count; rw [if_pos hpos]
      rcases hk2 with h | ⟨h1, h2⟩
      · rw [h]
      · have c1 := countUp_big (a := A) (b := B) (k := d) (by unfold IntMax at *; omega) hpos
        have c2 := countUp_big (a := A) (b := B) (k := k) (by unfold IntMax at *; omega) hk
        rw [c1, c2]; exact prog_one _ _ _ _ (by split <;> omega)
    refine ⟨hkd.symm, by omega, ⟨by unfold IntMax at *; omega, hk1⟩, by rw [hlen]; omega, by rw [hidx, hlen]; rfl, ?_, ?_, by omega⟩
    · intro x hx; rw [hidx] at hx
      have := prog_mem B k hk _ A rfl x hx; omega
    · intro _
      refine ⟨hs.2.1, hs.2.2, he.2.1, he.2.2, ?_, ?_, hs.1, he.1, hlen⟩
      · intro h; rw [hlen]; exact countUp_le hk h
      · intro h; rw [hlen]; unfold countUp; rw [if_neg (by omega)]; rfl
  · have hneg : d < 0 := by omega
    obtain ⟨hk, hk1, hk2⟩ := clampStep_neg hneg
    generalize hkd : clampStep d = k at hk hk1 hk2 ⊢
    have hw : wrap64 ((n : Int) - 1) = (n : Int) - 1 := by unfold wrap64; unfold IntMax at hn; omega
    have hs := mBound_neg hk ⟨hn0, hn⟩ s ((n : Int) - 1) ⟨by omega, Int.le_refl _⟩
    have he := mBound_neg hk ⟨hn0, hn⟩ e (-1) ⟨Int.le_refl _, by omega⟩
    rw [if_pos hk, if_pos hk, hw]
    generalize mBound s ((n : Int) - 1) n k = A at hs
    generalize mBound e (-1) n k = B at he
    have hlen := sliceLen_neg hk hk1 ⟨hs.2.1, hs.2.2⟩ ⟨he.2.1, he.2.2⟩ hn
    have hidx : sliceIndices n s e d = prog A k (countUp (-A) (-B) (-k)) := by
      unfold sliceIndices; rw [if_neg hpos, ← hs.1, ← he.1, walk_eq_prog A B d hd n (by omega)]
      unfold count; rw [if_neg hpos]
      rcases hk2 with h | ⟨h1, h2⟩
      · rw [h]
      · have c1 := countUp_big (a := -A) (b := -B) (k := -d) (by unfold IntMax at *; omega) (by omega)
        have c2 := countUp_big (a := -A) (b := -B) (k := -k) (by unfold IntMax at *; omega) (by omega)
        rw [c1, c2]; exact prog_one _ _ _ _ (by split <;> omega)
    refine ⟨hkd.symm, by omega, ⟨hk1, by unfold IntMax at *; omega⟩, by rw [hlen]; omega, by rw [hidx, hlen]; rfl, ?_, by omega, ?_⟩
    · intro x hx; rw [hidx, prog_neg] at hx
      obtain ⟨y, hy, rfl⟩ := List.mem_map.mp hx
      have := prog_mem (-B) (-k) (by omega) _ (-A) rfl y hy; omega
    · intro _; exact ⟨hs.2.1, hs.2.2, he.2.1, he.2.2⟩




/-- agreement of one GetIndices call with the resolved slice of the specification -/
def SliceAgree (n : Nat) (m : Except Err (Int × Int × Int × Int)) (s : Except Err (Option Int × Option Int × Int)) : Prop :=
  match m, s with
  | .ok (a, b, k, len), .ok (s, e, d) => SliceOK n s e d a b k len
  | .error e1, .error e2 => e1 = e2
  | _, _ => False

theorem getIndices_agree (sl : Slice) (wf : sl.WF) (n : Nat) (hn : (n : Int) ≤ IntMax) :
    SliceAgree n (getIndices sl n) (specSliceArgs sl) := by
  obtain ⟨w1, w2, w3⟩ := wf
  unfold getIndices specSliceArgs
  rw [getStep_spec _ w3]
  cases h3 : specComp sl.step with
  | error e => simp [SliceAgree, Except.bind, bind]
  | ok o =>
    by_cases h0 : (o == some 0) = true
    · simp [SliceAgree, Except.bind, bind, h0, throw, throwThe, MonadExceptOf.throw]
    · have hd : o.getD 1 ≠ 0 := by
        cases o with
        | none => simp
        | some d => intro h; simp at h; subst h; simp at h0
      simp only [Except.bind, bind, h0, Bool.false_eq_true, if_false, pure, Except.pure]
      rw [getBound_spec _ w1, getBound_spec _ w2]
      cases h1 : specComp sl.start with
      | error e => simp [SliceAgree, Except.map]
      | ok s =>
        cases h2 : specComp sl.stop with
        | error e => simp [SliceAgree, Except.map]
        | ok e =>
          simp only [Except.map, SliceAgree]
          exact core n hn s e _ hd

theorem wrap64_id {x : Int} (h : IntMin ≤ x ∧ x ≤ IntMax) : wrap64 x = x := by
  unfold wrap64; unfold IntMin IntMax at h; omega

theorem getLoop_prog (l : List Int) (hl : (l.length : Int) ≤ IntMax) (k : Int) :
    ∀ (m : Nat) (a : Int), (∀ x ∈ prog a k m, 0 ≤ x ∧ x < l.length) →
      getLoop l a k m = .ok (pick l (prog a k m)) := by
  intro m
  induction m with
  | zero => intro a _; rfl
  | succ m ih =>
    intro a h
    have ha := h a (by simp [prog])
    simp only [getLoop, goAt, ha, and_self, if_true, prog, pick, List.map_cons, bind, Except.bind, pure, Except.pure]
    cases m with
    | zero => rfl
    | succ m' =>
      have hak := h (a + k) (by simp [prog])
      rw [wrap64_id (by unfold IntMin IntMax at *; omega)]
      rw [ih (a + k) (fun x hx => h x (by simp only [prog, List.mem_cons] at hx ⊢; right; exact hx))]
      rfl

theorem setLoop_prog (k : Int) : ∀ (vs : List Int) (l : List Int) (a : Int), (l.length : Int) ≤ IntMax →
    (∀ x ∈ prog a k vs.length, 0 ≤ x ∧ x < l.length) →
      setLoop l a k vs = .ok (assignAt l (prog a k vs.length) vs) := by
  intro vs
  induction vs with
  | nil => intro l a _ _; rfl
  | cons v vs ih =>
    intro l a hl h
    have ha := h a (by simp [prog])
    simp only [setLoop, goSet, ha, and_self, if_true, List.length_cons, prog, assignAt, bind, Except.bind, pure, Except.pure]
    cases vs with
    | nil => rfl
    | cons v' vs' =>
      have hak := h (a + k) (by simp [prog])
      rw [wrap64_id (by unfold IntMin IntMax at *; omega)]
      exact ih (l.set a.toNat v) (a + k) (by simpa using hl)
        (fun x hx => by
          have := h x (by simp only [List.length_cons, prog, List.mem_cons] at hx ⊢; right; exact hx)
          simpa using this)




theorem mem_prog_one : ∀ (m : Nat) (a x : Int), x ∈ prog a 1 m ↔ a ≤ x ∧ x < a + m := by
  intro m
  induction m with
  | zero => intro a x; simp [prog]
  | succ m ih =>
    intro a x
    simp only [prog, List.mem_cons, ih]
    omega

theorem removeFrom_ge (a : Int) (m : Nat) : ∀ (xs : List Int) (p : Int), a ≤ p →
    removeFrom xs p (prog a 1 m) = xs.drop (a + m - p).toNat := by
  intro xs
  induction xs with
  | nil => intro p _; simp [removeFrom]
  | cons x xs ih =>
    intro p hp
    simp only [removeFrom, List.contains_iff_mem, mem_prog_one]
    by_cases h : p < a + m
    · rw [if_pos ⟨hp, h⟩, ih (p + 1) (by omega)]
      have : (a + ↑m - p).toNat = (a + ↑m - (p + 1)).toNat + 1 := by omega
      rw [this, List.drop_succ_cons]
    · rw [if_neg (by omega), ih (p + 1) (by omega)]
      have e1 : (a + ↑m - (p + 1)).toNat = 0 := by omega
      have e2 : (a + ↑m - p).toNat = 0 := by omega
      rw [e1, e2]; rfl

theorem removeFrom_le (a : Int) (m : Nat) : ∀ (xs : List Int) (p : Int), p ≤ a →
    removeFrom xs p (prog a 1 m) = xs.take (a - p).toNat ++ xs.drop (a + m - p).toNat := by
  intro xs
  induction xs with
  | nil => intro p _; simp [removeFrom]
  | cons x xs ih =>
    intro p hp
    by_cases h : p < a
    · simp only [removeFrom, List.contains_iff_mem, mem_prog_one]
      rw [if_neg (by omega), ih (p + 1) (by omega)]
      have e1 : (a - p).toNat = (a - (p + 1)).toNat + 1 := by omega
      have e2 : (a + ↑m - p).toNat = (a + ↑m - (p + 1)).toNat + 1 := by omega
      rw [e1, e2, List.take_succ_cons, List.drop_succ_cons]; rfl
    · have : p = a := by omega
      subst this
      rw [removeFrom_ge p m (x :: xs) p (Int.le_refl _)]
      simp

theorem countUp_one (a b : Int) : (countUp a b 1 : Int) = if a < b then b - a else 0 := by
  unfold countUp
  split
  · rw [Int.ediv_one]; omega
  · rfl




theorem prog_length (a k : Int) : ∀ m, (prog a k m).length = m := by
  intro m; induction m generalizing a with
  | zero => rfl
  | succ m ih => simp [prog, ih]

theorem clampStep_eq_one (d : Int) : clampStep d = 1 ↔ d = 1 := by
  unfold clampStep IntMax; repeat' split
  all_goals omega



theorem index_spec (i : Idx) (wf : i.WF) (hk : kfBigIndex i = false) :
    index i = match i.denote with | some v => .ok v | Option.none => .error .type := by
  cases i with
  | none => rfl
  | bad => rfl
  | int v => rfl
  | bool b => rfl
  | big v =>
    simp only [kfBigIndex, Bool.not_eq_false', decide_eq_true_eq] at hk
    simp only [index, hk, and_self, if_true, Idx.denote]

theorem denote_inRange (i : Idx) (wf : i.WF) (hk : kfBigIndex i = false) (v : Int) (h : i.denote = some v) : IntMin ≤ v ∧ v ≤ IntMax := by
  cases i with
  | none => simp [Idx.denote] at h
  | bad => simp [Idx.denote] at h
  | int w => simp only [Idx.denote, Option.some.injEq] at h; subst h; exact wf
  | bool b => simp only [Idx.denote, Option.some.injEq] at h; subst h; cases b <;> simp [IntMin, IntMax]
  | big w =>
    simp only [Idx.denote, Option.some.injEq] at h; subst h
    simpa [kfBigIndex] using hk

theorem indexIntCheck_spec (i : Idx) (wf : i.WF) (n : Nat) (hn : (n : Int) ≤ IntMax) (hk : kfBigIndex i = false) :
    indexIntCheck i n = (specIndex n i).map (fun p => (p : Int)) := by
  unfold indexIntCheck indexInt specIndex
  rw [index_spec i wf hk]
  cases hd : i.denote with
  | none => rfl
  | some v =>
    have hv := denote_inRange i wf hk v hd
    simp only [bind, Except.bind, normIndex, Except.map]
    unfold IntMin IntMax at *
    by_cases h0 : v < 0
    · simp only [h0, if_true]
      have : wrap64 (v + n) = v + n := by unfold wrap64; omega
      rw [this]
      by_cases h1 : 0 ≤ v + n ∧ v + (n : Int) < n
      · rw [if_neg (show ¬ (v + ↑n < 0 ∨ v + ↑n ≥ ↑n) by omega), if_pos h1]; simp [pure, Except.pure]; omega
      · rw [if_pos (show (v + ↑n < 0 ∨ v + ↑n ≥ ↑n) by omega), if_neg h1]; rfl
    · simp only [h0, if_false]
      by_cases h1 : 0 ≤ v ∧ v < n
      · rw [if_neg (show ¬ (False ∨ v ≥ ↑n) by simp only [false_or]; omega), if_pos h1]; simp [pure, Except.pure]; omega
      · rw [if_pos (show (False ∨ v ≥ ↑n) by simp only [false_or]; omega), if_neg h1]; rfl




theorem prog_getElem? (k : Int) : ∀ (m : Nat) (a : Int) (j : Nat), j < m → (prog a k m)[j]? = some (a + j * k) := by
  intro m
  induction m with
  | zero => intro a j h; omega
  | succ m ih =>
    intro a j h
    cases j with
    | zero => simp [prog]
    | succ j =>
      simp only [prog, List.getElem?_cons_succ]
      rw [ih (a + k) j (by omega)]
      congr 1
      have : ((j + 1 : Nat) : Int) * k = j * k + k := by
        rw [Int.natCast_succ, Int.add_mul]; omega
      omega

/-- `computeRangeLength` without overflow = the number of items -/
theorem computeRangeLength_eq {a b c : Int} (_ha : inRange a) (_hb : inRange b) (hc : -IntMax ≤ c ∧ c ≤ IntMax) (_hc0 : c ≠ 0)
    (hd : -IntMax ≤ b - a ∧ b - a ≤ IntMax) : computeRangeLength a b c = (count a b c : Nat) := by
  unfold inRange IntMin IntMax at *
  unfold computeRangeLength count
  by_cases hp : c > 0
  · simp only [hp, if_true]
    unfold countUp
    by_cases hab : a < b
    · rw [if_neg (by omega), if_pos hab]
      have e1 : wrap64 (wrap64 (b - a) - 1) = b - a - 1 := by unfold wrap64; omega
      rw [e1, Int.tdiv_eq_ediv_of_nonneg (by omega)]
      have hq : 0 ≤ (b - a - 1) / c := Int.ediv_nonneg (by omega) (by omega)
      have hq2 : (b - a - 1) / c ≤ b - a - 1 := Int.ediv_le_self _ (by omega)
      have : wrap64 ((b - a - 1) / c + 1) = (b - a - 1) / c + 1 := by unfold wrap64; omega
      rw [this]; omega
    · rw [if_pos (by omega), if_neg hab]; rfl
  · simp only [hp, if_false]
    have hw : wrap64 (-c) = -c := by unfold wrap64; omega
    rw [hw]
    unfold countUp
    by_cases hab : b < a
    · rw [if_neg (by omega), if_pos (by omega)]
      have e1 : wrap64 (wrap64 (a - b) - 1) = a - b - 1 := by unfold wrap64; omega
      have e2 : -b - -a - 1 = a - b - 1 := by omega
      rw [e1, e2, Int.tdiv_eq_ediv_of_nonneg (by omega)]
      have hq : 0 ≤ (a - b - 1) / (-c) := Int.ediv_nonneg (by omega) (by omega)
      have hq2 : (a - b - 1) / (-c) ≤ a - b - 1 := Int.ediv_le_self _ (by omega)
      have : wrap64 ((a - b - 1) / (-c) + 1) = (a - b - 1) / (-c) + 1 := by unfold wrap64; omega
      rw [this]; omega
    · rw [if_pos (by omega), if_neg (by omega)]; rfl

theorem rangeElems_eq_prog (a b c : Int) (hc0 : c ≠ 0) : rangeElems a b c = prog a c (count a b c) :=
  walk_eq_prog a b c hc0 _ (Nat.le_refl _)

/-- items of a range lie between start and stop -/
theorem range_mem_bounds (a b c : Int) (hc0 : c ≠ 0) (x : Int) (hx : x ∈ prog a c (count a b c)) :
    (c > 0 → a ≤ x ∧ x < b) ∧ (c < 0 → b < x ∧ x ≤ a) := by
  unfold count at hx
  by_cases hp : c > 0
  · rw [if_pos hp] at hx
    have := prog_mem b c hp _ a rfl x hx
    exact ⟨fun _ => this, fun h => by omega⟩
  · rw [if_neg hp, prog_neg] at hx
    obtain ⟨y, hy, rfl⟩ := List.mem_map.mp hx
    have := prog_mem (-b) (-c) (by omega) _ (-a) rfl y hy
    exact ⟨fun h => by omega, fun _ => by omega⟩

theorem computeItem_eq (r : Range) (i : Int) (h : inRange (r.start + i * r.step)) :
    computeItem r i = r.start + i * r.step := by
  unfold computeItem
  generalize i * r.step = y at *
  unfold inRange IntMin IntMax at h
  unfold wrap64; omega




/-- a range whose arguments are int64 words and whose span fits a word -/
def RangeArgsOK (a b c : Int) : Prop :=
  inRange a ∧ inRange b ∧ (-IntMax ≤ c ∧ c ≤ IntMax) ∧ c ≠ 0 ∧ (-IntMax ≤ b - a ∧ b - a ≤ IntMax)

theorem rangeNew_ok {a b c : Int} (h : RangeArgsOK a b c) :
    rangeNew (.int a) (.int b) (.int c) = .ok ⟨a, b, c, ((rangeElems a b c).length : Nat)⟩ := by
  obtain ⟨ha, hb, hc, hc0, hd⟩ := h
  have e : (c == 0) = false := by simp [hc0]
  simp only [rangeNew, index, bind, Except.bind, e, Bool.false_eq_true, if_false, pure, Except.pure]
  rw [computeRangeLength_eq ha hb hc hc0 hd, rangeElems_eq_prog a b c hc0, prog_length]

theorem count_le_IntMax {a b c : Int} (h : RangeArgsOK a b c) : (count a b c : Int) ≤ IntMax := by
  obtain ⟨ha, hb, hc, hc0, hd⟩ := h
  unfold count
  by_cases hp : c > 0
  · rw [if_pos hp]
    by_cases hab : a < b
    · have := countUp_le hp hab; omega
    · unfold countUp; rw [if_neg hab]; unfold IntMax; omega
  · rw [if_neg hp]
    by_cases hab : -a < -b
    · have := countUp_le (a := -a) (b := -b) (k := -c) (by omega) hab; omega
    · unfold countUp; rw [if_neg hab]; unfold IntMax; omega

theorem range_item_inRange {a b c : Int} (h : RangeArgsOK a b c) (i : Nat) (hi : i < count a b c) :
    inRange (a + i * c) := by
  obtain ⟨ha, hb, hc, hc0, hd⟩ := h
  have hm : a + i * c ∈ prog a c (count a b c) := List.mem_of_getElem? (prog_getElem? c _ a i hi)
  have := range_mem_bounds a b c hc0 _ hm
  unfold inRange IntMin IntMax at *
  by_cases hp : c > 0
  · have := this.1 hp; omega
  · have := this.2 (by omega); omega

theorem map_computeItem (r : Range) : ∀ (m : Nat) (j : Nat),
    (∀ i : Nat, j ≤ i → i < j + m → inRange (r.start + i * r.step)) →
    (prog j 1 m).map (computeItem r) = prog (r.start + j * r.step) r.step m := by
  intro m
  induction m with
  | zero => intro j _; rfl
  | succ m ih =>
    intro j h
    simp only [prog, List.map_cons]
    have h0 : j < j + (m + 1) := by omega
    rw [computeItem_eq r j (h j (Nat.le_refl _) h0)]
    have e : ((j : Int) + 1) = ((j + 1 : Nat) : Int) := by rw [Int.natCast_succ]
    rw [e, ih (j + 1) (fun i h1 h2 => h i (by omega) (by omega))]
    congr 1
    rw [Int.natCast_succ, Int.add_mul, Int.one_mul, Int.add_assoc]

theorem rangeDrain_eq (r : Range) (L : Nat) (hL : r.length = L) (hLm : (L : Int) ≤ IntMax) :
    ∀ (fuel : Nat) (j : Nat), j ≤ L → L - j ≤ fuel →
      rangeDrain r j fuel = ((prog j 1 (L - j)).map (computeItem r), false) := by
  intro fuel
  induction fuel with
  | zero =>
    intro j hj hf
    have : L - j = 0 := by omega
    simp only [rangeDrain, rangeNext, hL, this, prog, List.map_nil]
    rw [if_pos (by omega)]; rfl
  | succ f ih =>
    intro j hj hf
    by_cases hlt : j < L
    · have e : L - j = (L - (j + 1)) + 1 := by omega
      simp only [rangeDrain, rangeNext, hL]
      rw [if_neg (by omega)]
      simp only [pure, Except.pure]
      have hw : wrap64 ((j : Int) + 1) = ((j + 1 : Nat) : Int) := by
        unfold wrap64; unfold IntMax at hLm; omega
      rw [hw, ih (j + 1) (by omega) (by omega), e]
      simp only [prog, List.map_cons]
      have e2 : ((j : Int) + 1) = ((j + 1 : Nat) : Int) := by rw [Int.natCast_succ]
      rw [e2]
    · have : L - j = 0 := by omega
      simp only [rangeDrain, rangeNext, hL, this, prog, List.map_nil]
      rw [if_pos (by omega)]; rfl




instance instDecEqExcept {ε α : Type} [DecidableEq ε] [DecidableEq α] : DecidableEq (Except ε α) := fun a b =>
  match a, b with
  | .ok x, .ok y => if h : x = y then isTrue (by rw [h]) else isFalse (fun e => by cases e; exact h rfl)
  | .error x, .error y => if h : x = y then isTrue (by rw [h]) else isFalse (fun e => by cases e; exact h rfl)
  | .ok _, .error _ => isFalse (fun e => by cases e)
  | .error _, .ok _ => isFalse (fun e => by cases e)

theorem bind_ok {α β : Type} (a : α) (f : α → Except Err β) : ((Except.ok a : Except Err α) >>= f) = f a := rfl
theorem bind_err {α β : Type} (e : Err) (f : α → Except Err β) : ((Except.error e : Except Err α) >>= f) = Except.error e := rfl

theorem rangeGetItem_idx (r : Range) (i : Idx) :
    rangeGetItem r (.idx i) = (indexIntCheck i r.length >>= fun ix => pure (.inl (computeItem r ix))) := by
  simp only [rangeGetItem]
  unfold indexIntCheck indexInt computeNegativeIndex
  cases index i with
  | error e => rfl
  | ok v =>
    simp only [bind_ok]
    by_cases hc : (if v < 0 then wrap64 (v + r.length) else v) < 0 ∨ (if v < 0 then wrap64 (v + r.length) else v) ≥ r.length
    · rw [if_pos hc, if_pos hc]; rfl
    · rw [if_neg hc, if_neg hc]; rfl



theorem normIndex_lt {n : Nat} {v : Int} {p : Nat} (h : normIndex n v = .ok p) : p < n := by
  unfold normIndex at h
  by_cases hc : 0 ≤ (if v < 0 then v + ↑n else v) ∧ (if v < 0 then v + ↑n else v) < ↑n
  · rw [if_pos hc] at h
    injection h with h
    omega
  · rw [if_neg hc] at h
    cases h
theorem specIndex_lt {n : Nat} {i : Idx} {p : Nat} (h : specIndex n i = .ok p) : p < n := by
  unfold specIndex at h
  cases hd : i.denote with
  | none => rw [hd] at h; cases h
  | some v => rw [hd] at h; exact normIndex_lt h

theorem delItemAt_ok (l : List Int) (p : Nat) (hp : p < l.length) (hl : (l.length : Int) ≤ IntMax) :
    delItemAt l p = .ok (l.eraseIdx p) := by
  have hw : wrap64 ((p : Int) + 1) = (p : Int) + 1 := by unfold wrap64; unfold IntMax at hl; omega
  have c1 : 0 ≤ (p : Int) + 1 ∧ (p : Int) + 1 ≤ l.length := by omega
  have c2 : 0 ≤ (p : Int) ∧ (p : Int) ≤ l.length := by omega
  unfold delItemAt goFrom goTo
  rw [hw, if_pos c1, if_pos c2]
  show Except.ok (l.take (p : Int).toNat ++ l.drop ((p : Int) + 1).toNat) = _
  have e1 : ((p : Int) + 1).toNat = p + 1 := by omega
  rw [e1, Int.toNat_natCast, List.eraseIdx_eq_take_drop_succ]


theorem indexIntCheck_ok {i : Idx} (wf : i.WF) {n : Nat} (hn : (n : Int) ≤ IntMax) (hk : kfBigIndex i = false) {p : Nat}
    (h : specIndex n i = .ok p) : indexIntCheck i n = .ok (p : Int) := by
  rw [indexIntCheck_spec i wf n hn hk, h]; rfl
theorem indexIntCheck_err {i : Idx} (wf : i.WF) {n : Nat} (hn : (n : Int) ≤ IntMax) (hk : kfBigIndex i = false) {e : Err}
    (h : specIndex n i = .error e) : indexIntCheck i n = .error e := by
  rw [indexIntCheck_spec i wf n hn hk, h]; rfl




theorem pick_prog_one (t : List Int) : ∀ (m : Nat) (a : Nat), a + m ≤ t.length →
    pick t (prog (a : Int) 1 m) = (t.drop a).take m := by
  intro m
  induction m with
  | zero => intro a _; simp [prog, pick]
  | succ m ih =>
    intro a h
    have ha : a < t.length := by omega
    have e : ((a : Int) + 1) = ((a + 1 : Nat) : Int) := by rw [Int.natCast_succ]
    simp only [prog, pick, List.map_cons, Int.toNat_natCast]
    rw [e]
    have := ih (a + 1) (by omega)
    simp only [pick] at this
    rw [this, List.drop_eq_getElem_cons ha, List.take_succ_cons]
    congr 1
    simp [List.getD_eq_getElem?_getD, ha]

theorem goSub_eq_pick (t : List Int) (a b : Int) (ha : 0 ≤ a) (hab : a ≤ b) (hb : b ≤ t.length) :
    goSub t a b = .ok (pick t (prog a 1 (b - a).toNat)) := by
  unfold goSub
  rw [if_pos ⟨ha, hab, hb⟩]
  have ea : a = ((a.toNat : Nat) : Int) := by omega
  rw [ea, pick_prog_one t _ a.toNat (by omega), List.drop_take]
  congr 3
  omega

/-- the contiguous (step 1) slice positions, from what GetIndices returned -/
theorem contiguous_len {n : Nat} {s e : Option Int} {a b len : Int} (h : SliceOK n s e 1 a b 1 len) :
    len.toNat = ((if b < a then a else b) - a).toNat ∧ 0 ≤ a ∧ a ≤ (if b < a then a else b) ∧ (if b < a then a else b) ≤ n := by
  obtain ⟨a0, a1, b0, b1, _, _, _, _, hm⟩ := h.lo (by omega)
  have hc := countUp_one a b
  split <;> (split at hc <;> omega)

theorem strSlice_eq (s : List Int) (a b : Int) (ha : 0 ≤ a ∧ a ≤ s.length) (hb : 0 ≤ b ∧ b ≤ s.length) :
    strSlice s a b s.length = .ok (pick s (prog a 1 ((if b < a then a else b) - a).toNat)) := by
  unfold strSlice
  by_cases hab : a ≥ b
  · rw [if_pos hab]
    have : ((if b < a then a else b) - a).toNat = 0 := by split <;> omega
    rw [this]; rfl
  · rw [if_neg hab]
    have hm : (if b < a then a else b) = b := by rw [if_neg (by omega)]
    rw [hm]
    by_cases h1 : (s.length : Int) = byteLen s
    · rw [if_pos h1]; exact goSub_eq_pick s a b ha.1 (by omega) hb.2
    · rw [if_neg h1]
      by_cases h2 : a ≤ 0 ∧ b ≥ s.length
      · rw [if_pos h2]
        have ea : a = ((0 : Nat) : Int) := by omega
        have eb : (b - a).toNat = s.length := by omega
        rw [eb, ea, pick_prog_one s _ 0 (by omega)]
        simp [pure, Except.pure]
      · rw [if_neg h2]
        have p1 : strPos s a = a := by unfold strPos; rw [if_pos ⟨ha.1, by omega⟩]
        have hlen : ((s.drop a.toNat).length : Int) = s.length - a := by rw [List.length_drop]; omega
        have p2 : strPos (s.drop a.toNat) (b - a) + a = b := by
          unfold strPos
          by_cases h3 : 0 ≤ b - a ∧ b - a < ((s.drop a.toNat).length : Int)
          · rw [if_pos h3]; omega
          · rw [if_neg h3]; omega
        simp only [p1, p2]
        exact goSub_eq_pick s a b ha.1 (by omega) hb.2




theorem removeFrom_congr_ge (idxs idxs' : List Int) : ∀ (xs : List Int) (q : Int),
    (∀ x, q ≤ x → idxs.contains x = idxs'.contains x) → removeFrom xs q idxs = removeFrom xs q idxs' := by
  intro xs
  induction xs with
  | nil => intro q _; rfl
  | cons x xs ih =>
    intro q h
    simp only [removeFrom]
    rw [h q (Int.le_refl _), ih (q + 1) (fun y hy => h y (by omega))]

theorem beq_pred (q i : Int) : (q == i - 1) = (q + 1 == i) := by
  by_cases h : q = i - 1
  · have h' : q + 1 = i := by omega
    rw [beq_iff_eq.mpr h, beq_iff_eq.mpr h']
  · have h' : ¬ q + 1 = i := by omega
    rw [beq_eq_false_iff_ne.mpr h, beq_eq_false_iff_ne.mpr h']

theorem contains_map_pred (idxs : List Int) (q : Int) :
    (idxs.map (fun i => i - 1)).contains q = idxs.contains (q + 1) := by
  induction idxs with
  | nil => rfl
  | cons i is ih =>
    simp only [List.map_cons, List.contains_cons, ih, beq_pred]

theorem removeFrom_shift (idxs : List Int) : ∀ (xs : List Int) (q : Int),
    removeFrom xs (q + 1) idxs = removeFrom xs q (idxs.map (fun i => i - 1)) := by
  intro xs
  induction xs with
  | nil => intro q; rfl
  | cons x xs ih =>
    intro q
    simp only [removeFrom, contains_map_pred, ih (q + 1)]

/-- deleting position `p` first, then the remaining (larger) positions shifted down by one -/
theorem removeFrom_cons (rest : List Int) (p : Int) (hrest : ∀ r ∈ rest, p < r) : ∀ (xs : List Int) (q : Int), q ≤ p →
    removeFrom xs q (p :: rest) = removeFrom (xs.eraseIdx (p - q).toNat) q (rest.map (fun i => i - 1)) := by
  intro xs
  induction xs with
  | nil => intro q _; rfl
  | cons x xs ih =>
    intro q hq
    by_cases hlt : q < p
    · have hnc : (p :: rest).contains q = false := by
        simp only [List.contains_cons, Bool.or_eq_false_iff]
        refine ⟨by simp; omega, ?_⟩
        apply Bool.eq_false_iff.mpr
        intro hc
        have := hrest q (List.contains_iff_mem.mp hc)
        omega
      have hnc2 : (rest.map (fun i => i - 1)).contains q = false := by
        rw [contains_map_pred]
        apply Bool.eq_false_iff.mpr
        intro hc
        have := hrest _ (List.contains_iff_mem.mp hc)
        omega
      have e : (p - q).toNat = (p - (q + 1)).toNat + 1 := by omega
      rw [e, List.eraseIdx_cons_succ]
      simp only [removeFrom, hnc, hnc2, Bool.false_eq_true, if_false]
      rw [ih (q + 1) (by omega)]
    · have hqp : q = p := by omega
      subst hqp
      have e : (q - q).toNat = 0 := by omega
      rw [e, List.eraseIdx_cons_zero]
      have hc : (q :: rest).contains q = true := by simp
      simp only [removeFrom, hc, if_true]
      rw [removeFrom_shift]
      apply removeFrom_congr_ge
      intro x hx
      rw [contains_map_pred, contains_map_pred]
      simp only [List.contains_cons]
      have : (x + 1 == q) = false := by simp; omega
      rw [this, Bool.false_or]

theorem prog_map_pred (k : Int) : ∀ (m : Nat) (a : Int), (prog a k m).map (fun i => i - 1) = prog (a - 1) k m := by
  intro m
  induction m with
  | zero => intro a; rfl
  | succ m ih =>
    intro a
    simp only [prog, List.map_cons, ih]
    congr 2; omega

theorem prog_gt (k : Int) (hk : 0 < k) : ∀ (m : Nat) (a : Int) (r : Int), r ∈ prog (a + k) k m → a < r := by
  intro m
  induction m with
  | zero => intro a r h; simp [prog] at h
  | succ m ih =>
    intro a r h
    simp only [prog, List.mem_cons] at h
    rcases h with rfl | h
    · omega
    · have := ih (a + k) r h; omega




/-- delete at p, then at p + t - 1, … (each deletion shifts the later positions down by one) -/
def delInc (l : List Int) (p t : Int) : Nat → Except Err (List Int)
  | 0 => .ok l
  | f + 1 => delItemAt l p >>= fun l' => delInc l' (p + t - 1) t f

theorem removeFrom_nil : ∀ (xs : List Int) (q : Int), removeFrom xs q [] = xs := by
  intro xs
  induction xs with
  | nil => intro q; rfl
  | cons x xs ih => intro q; simp only [removeFrom, List.contains_nil, Bool.false_eq_true, if_false, ih]

theorem delInc_spec (t : Int) (ht : 0 < t) : ∀ (f : Nat) (l : List Int) (p : Int), (l.length : Int) ≤ IntMax → 0 ≤ p →
    (∀ x ∈ prog p t f, x < l.length) → delInc l p t f = .ok (removeFrom l 0 (prog p t f)) := by
  intro f
  induction f with
  | zero => intro l p _ _ _; simp only [delInc, prog, removeFrom_nil]
  | succ f ih =>
    intro l p hl hp h
    have hpl : p < l.length := h p (by simp [prog])
    have ep : p = ((p.toNat : Nat) : Int) := by omega
    have hd : delItemAt l p = .ok (l.eraseIdx p.toNat) := by
      have := delItemAt_ok l p.toNat (by omega) hl
      rw [← ep] at this; exact this
    simp only [delInc, prog]
    rw [hd, bind_ok]
    have hlen : ((l.eraseIdx p.toNat).length : Int) = l.length - 1 := by
      rw [List.length_eraseIdx_of_lt (by omega)]; omega
    have e1 : p + t - 1 = (p + t) - 1 := by omega
    rw [ih (l.eraseIdx p.toNat) (p + t - 1) (by omega) (by omega) (by
      intro x hx
      rw [e1, ← prog_map_pred] at hx
      obtain ⟨y, hy, rfl⟩ := List.mem_map.mp hx
      have := h y (by simp only [prog, List.mem_cons]; right; exact hy)
      omega)]
    rw [removeFrom_cons (prog (p + t) t f) p (fun r hr => prog_gt t ht f p r hr) l 0 hp]
    rw [prog_map_pred, e1]
    have : (p - 0).toNat = p.toNat := by omega
    rw [this]

theorem delLoop_eq_delInc (s t : Int) (hs : 0 ≤ s) (ht : 0 < t) : ∀ (f : Nat) (l : List Int) (j : Nat),
    (∀ i : Nat, i < f → s + ((j + i : Nat) : Int) * t ≤ IntMax) →
    delLoop l s t j f = delInc l (s + j * t - j) t f := by
  intro f
  induction f with
  | zero => intro l j _; rfl
  | succ f ih =>
    intro l j h
    have h0 := h 0 (by omega)
    simp only [Nat.add_zero] at h0
    have hjt : 0 ≤ (j : Int) * t := Int.mul_nonneg (by omega) (by omega)
    have hjt2 : (j : Int) ≤ (j : Int) * t := by
      have : 0 ≤ (j : Int) * (t - 1) := Int.mul_nonneg (by omega) (by omega)
      rw [Int.mul_sub, Int.mul_one] at this; omega
    unfold IntMax at h0
    have w1 : wrap64 ((j : Int) * t) = (j : Int) * t := by unfold wrap64; omega
    have w2 : wrap64 (s + (j : Int) * t) = s + (j : Int) * t := by unfold wrap64; omega
    have w3 : wrap64 (s + (j : Int) * t - j) = s + (j : Int) * t - j := by unfold wrap64; omega
    simp only [delLoop, delInc]
    rw [w1, w2, w3]
    have e : ((j : Int) + 1) = ((j + 1 : Nat) : Int) := by rw [Int.natCast_succ]
    have e2 : s + (j : Int) * t - j + t - 1 = s + ((j + 1 : Nat) : Int) * t - ((j + 1 : Nat) : Int) := by
      rw [Int.natCast_succ, Int.add_mul]; omega
    rw [e, e2]
    congr 1
    funext l'
    exact ih l' (j + 1) (fun i hi => by
      have := h (i + 1) (by omega)
      have e3 : j + (i + 1) = j + 1 + i := by omega
      rw [e3] at this; exact this)




theorem mem_prog_iff (a k : Int) (m : Nat) (x : Int) : x ∈ prog a k m ↔ ∃ j : Nat, j < m ∧ x = a + j * k := by
  constructor
  · intro h
    obtain ⟨i, hi⟩ := List.mem_iff_getElem?.mp h
    have him : i < m := by
      have := (List.getElem?_eq_some_iff.mp hi).1
      rw [prog_length] at this; exact this
    rw [prog_getElem? k m a i him] at hi
    exact ⟨i, him, by injection hi with hi; exact hi.symm⟩
  · rintro ⟨j, hj, rfl⟩
    exact List.mem_of_getElem? (prog_getElem? k m a j hj)

/-- a progression and its reversal select the same positions -/
theorem prog_rev_contains (a k : Int) (m : Nat) (x : Int) :
    (prog a k (m + 1)).contains x = (prog (a + m * k) (-k) (m + 1)).contains x := by
  rw [Bool.eq_iff_iff, List.contains_iff_mem, List.contains_iff_mem, mem_prog_iff, mem_prog_iff]
  constructor
  · rintro ⟨j, hj, rfl⟩
    refine ⟨m - j, by omega, ?_⟩
    have e : (m : Int) = ((m - j : Nat) : Int) + j := by omega
    have : (m : Int) * k = ((m - j : Nat) : Int) * k + j * k := by rw [← Int.add_mul, ← e]
    rw [Int.mul_neg]; omega
  · rintro ⟨j, hj, rfl⟩
    refine ⟨m - j, by omega, ?_⟩
    have e : (m : Int) = ((m - j : Nat) : Int) + j := by omega
    have : (m : Int) * k = ((m - j : Nat) : Int) * k + j * k := by rw [← Int.add_mul, ← e]
    rw [Int.mul_neg]; omega

/-- the ascending loop of `M__delitem__` on an ascending in-range progression -/
theorem delLoop_spec (l : List Int) (hl : (l.length : Int) ≤ IntMax) (s t : Int) (m : Nat) (hs : 0 ≤ s) (ht : 0 < t)
    (h : ∀ x ∈ prog s t m, x < l.length) :
    delLoop l s t 0 m = .ok (removeFrom l 0 (prog s t m)) := by
  have := delLoop_eq_delInc s t hs ht m l 0 (fun i hi => by
    have hm : s + (i : Int) * t ∈ prog s t m := (mem_prog_iff s t m _).mpr ⟨i, hi, rfl⟩
    have := h _ hm
    simp only [Nat.zero_add]; omega)
  simp only [Int.natCast_zero, Int.zero_mul, Int.add_zero, Int.sub_zero] at this
  rw [this, delInc_spec t ht m l s hl hs h]


end GPy.C13
