/-
C13 helper lemmas and theorems, second part: ordering of list/tuple/str/bytes, membership,
repetition, slicing of a range.  (Core Lean only.)
-/
import GPy.C13.Proofs
namespace GPy.C13

/-! ### ordering (py/tuple.go seqOrder, py/string.go / py/bytes.go comparisons) -/

/-- Go's `<` on strings / `bytes.Compare` is the reference lexicographic order -/
theorem lexLt_eq_lexLtS : ∀ x y : List Int, lexLt x y = lexLtS x y := by
  intro x
  induction x with
  | nil => intro y; cases y <;> rfl
  | cons a x ih =>
    intro y
    cases y with
    | nil => rfl
    | cons b y =>
      simp only [lexLt, lexLtS, ih y]

/-- `seqOrder` with `Lt` (first pair of unequal items decides, otherwise the lengths) is the lexicographic `<` -/
theorem seqOrder_lt : ∀ x y : List Int, seqOrder .lt x y = lexLtS x y := by
  intro x
  induction x with
  | nil => intro y; cases y <;> simp [seqOrder, intCmp, lexLtS]
  | cons a x ih =>
    intro y
    cases y with
    | nil => simp [seqOrder, intCmp, lexLtS] <;> omega
    | cons b y =>
      simp only [seqOrder, lexLtS, ih y, intCmp]
      by_cases h : a = b
      · subst h; simp
      · have : (a == b) = false := by simp [h]
        simp only [this, Bool.false_eq_true, if_false]
        by_cases h2 : a < b
        · simp [h2]
        · have : a > b := by omega
          simp [h2, this]

theorem seqOrder_gt : ∀ x y : List Int, seqOrder .gt x y = lexLtS y x := by
  intro x
  induction x with
  | nil => intro y; cases y <;> simp [seqOrder, intCmp, lexLtS] <;> omega
  | cons a x ih =>
    intro y
    cases y with
    | nil => simp [seqOrder, intCmp, lexLtS]
    | cons b y =>
      simp only [seqOrder, lexLtS, ih y, intCmp]
      by_cases h : a = b
      · subst h; simp
      · have : (a == b) = false := by simp [h]
        simp only [this, Bool.false_eq_true, if_false]
        by_cases h2 : b < a
        · simp [h2]
        · have : b > a := by omega
          simp [h2, this] <;> omega

theorem seqOrder_le : ∀ x y : List Int, seqOrder .le x y = !lexLtS y x := by
  intro x
  induction x with
  | nil => intro y; cases y <;> simp [seqOrder, intCmp, lexLtS] <;> omega
  | cons a x ih =>
    intro y
    cases y with
    | nil => simp [seqOrder, intCmp, lexLtS] <;> omega
    | cons b y =>
      simp only [seqOrder, lexLtS, ih y, intCmp]
      by_cases h : a = b
      · subst h; simp
      · have : (a == b) = false := by simp [h]
        simp only [this, Bool.false_eq_true, if_false]
        by_cases h2 : b < a
        · simp [h2] <;> omega
        · have : b > a := by omega
          simp [h2, this] <;> omega

theorem seqOrder_ge : ∀ x y : List Int, seqOrder .ge x y = !lexLtS x y := by
  intro x
  induction x with
  | nil => intro y; cases y <;> simp [seqOrder, intCmp, lexLtS]
  | cons a x ih =>
    intro y
    cases y with
    | nil => simp [seqOrder, intCmp, lexLtS] <;> omega
    | cons b y =>
      simp only [seqOrder, lexLtS, ih y, intCmp]
      by_cases h : a = b
      · subst h; simp
      · have : (a == b) = false := by simp [h]
        simp only [this, Bool.false_eq_true, if_false]
        by_cases h2 : a < b
        · simp [h2] <;> omega
        · have : a > b := by omega
          simp [h2, this] <;> omega

/-- the reference comparison of two sequences of the same (non-range) kind, as one Boolean -/
def specOrd (op : CmpOp) (x y : List Int) : Bool :=
  match op with
  | .lt => lexLtS x y
  | .le => !lexLtS y x
  | .eq => x == y
  | .ne => x != y
  | .gt => lexLtS y x
  | .ge => !lexLtS x y

/-- the specification on two operands of the same kind (not range): never an error -/
theorem specCmp_same (k : Kind) (hk : k ≠ .range) (op : CmpOp) (x y : List Int) :
    specCmp op ⟨k, x⟩ ⟨k, y⟩ = .ok (.bool (specOrd op x y)) := by
  cases op <;> by_cases h : x = y <;> simp [specCmp, specOrd, hk, h]

/-- **list / tuple ordering** (C13-K02 repaired): for all six operators and all operands, `py.Lt … py.Ge`,
`py.Eq`, `py.Ne` on two lists (two tuples) return the Boolean Python's lexicographic comparison defines
(the common Boolean is `specOrd op x y`); no error, no panic.  No hypotheses. -/
theorem order_spec_lemma (op : CmpOp) (x y : List Int) :
    (∃ b, cmp op (.list x) (.list y) = .ok (.bool b) ∧ specCmp op ⟨.list, x⟩ ⟨.list, y⟩ = .ok (.bool b)) ∧
    (∃ b, cmp op (.tuple x) (.tuple y) = .ok (.bool b) ∧ specCmp op ⟨.tuple, x⟩ ⟨.tuple, y⟩ = .ok (.bool b)) := by
  have hm : ∀ op, (match op with
      | CmpOp.eq => (x == y) | .ne => (x != y) | op => seqOrder op x y) = specOrd op x y := by
    intro op
    cases op
    · exact seqOrder_lt x y
    · exact seqOrder_le x y
    · rfl
    · rfl
    · exact seqOrder_gt x y
    · exact seqOrder_ge x y
  refine ⟨⟨specOrd op x y, ?_, specCmp_same _ (by decide) op x y⟩, ⟨specOrd op x y, ?_, specCmp_same _ (by decide) op x y⟩⟩
  · rw [← hm op]; cases op <;> rfl
  · rw [← hm op]; cases op <;> rfl

/-- **str / bytes ordering**: the same for two strs (code points) and two bytes objects, all six operators.
No hypotheses. -/
theorem strbytes_order_spec_lemma (op : CmpOp) (x y : List Int) :
    (∃ b, cmp op (.str x) (.str y) = .ok (.bool b) ∧ specCmp op ⟨.str, x⟩ ⟨.str, y⟩ = .ok (.bool b)) ∧
    (∃ b, cmp op (.bytes x) (.bytes y) = .ok (.bool b) ∧ specCmp op ⟨.bytes, x⟩ ⟨.bytes, y⟩ = .ok (.bool b)) := by
  have hm : cmpOrd op x y = specOrd op x y := by
    cases op <;> simp only [cmpOrd, specOrd, lexLt_eq_lexLtS]
  exact ⟨⟨specOrd op x y, by rw [← hm]; rfl, specCmp_same _ (by decide) op x y⟩,
    ⟨specOrd op x y, by rw [← hm]; rfl, specCmp_same _ (by decide) op x y⟩⟩

/-! ### membership (py/sequence.go SequenceContains, String.M__contains__) -/

/-- comparing the first `len(needle)` items with the needle = `isPrefixOf` -/
theorem take_beq_isPrefixOf : ∀ (n l : List Int), (l.take n.length == n) = n.isPrefixOf l := by
  intro n
  induction n with
  | nil => intro l; simp
  | cons a n ih =>
    intro l
    cases l with
    | nil => simp
    | cons b l =>
      simp only [List.length_cons, List.take_succ_cons, List.isPrefixOf_cons_cons, List.cons_beq_cons, ih l]
      congr 1
      exact BEq.comm

/-- `strings.Contains` on code points = "the needle is a prefix of some suffix of the haystack" -/
theorem isInfix_spec (n hay : List Int) :
    isInfix n hay = (List.range (hay.length + 1)).any (fun i => n.isPrefixOf (hay.drop i)) := by
  unfold isInfix
  congr 1
  funext i
  exact take_beq_isPrefixOf n _

/-- **membership**: `e in s` for an integer `e` and a list / tuple / bytes operand is `xs.contains e`; with a str
operand it is a TypeError; `n in s` for a str needle is substring search on a str operand and `False` on a
sequence of integers.  Model = spec in every case, for all operands.  No hypotheses.
(range operands: `range_contains_spec_partial_lemma`.) -/
theorem contains_spec_lemma (xs : List Int) (e : Int) (n : List Int) :
    (contains (.list xs) (.int e) = .ok (.bool (xs.contains e)) ∧ specContains ⟨.list, xs⟩ e = .ok (.bool (xs.contains e))) ∧
    (contains (.tuple xs) (.int e) = .ok (.bool (xs.contains e)) ∧ specContains ⟨.tuple, xs⟩ e = .ok (.bool (xs.contains e))) ∧
    (contains (.bytes xs) (.int e) = .ok (.bool (xs.contains e)) ∧ specContains ⟨.bytes, xs⟩ e = .ok (.bool (xs.contains e))) ∧
    (contains (.str xs) (.int e) = .error .type ∧ specContains ⟨.str, xs⟩ e = .error .type) ∧
    (∃ b, contains (.str xs) (.str n) = .ok (.bool b) ∧ specContainsStr ⟨.str, xs⟩ n = .ok (.bool b)) ∧
    (contains (.list xs) (.str n) = .ok (.bool false) ∧ specContainsStr ⟨.list, xs⟩ n = .ok (.bool false)) ∧
    (contains (.tuple xs) (.str n) = .ok (.bool false) ∧ specContainsStr ⟨.tuple, xs⟩ n = .ok (.bool false)) ∧
    (contains (.bytes xs) (.str n) = .ok (.bool false) ∧ specContainsStr ⟨.bytes, xs⟩ n = .ok (.bool false)) := by
  refine ⟨⟨rfl, rfl⟩, ⟨rfl, rfl⟩, ⟨rfl, rfl⟩, ⟨rfl, rfl⟩, ⟨_, rfl, ?_⟩, ⟨rfl, rfl⟩, ⟨rfl, rfl⟩, ⟨rfl, rfl⟩⟩
  show Except.ok (SVal.bool _) = _
  rw [isInfix_spec]

/-! ### repetition (M__mul__ of List/Tuple/Bytes/String) -/

/-- the copy loop of `M__mul__` (`for i := 0; i < n; i += m { copy(new[i:i+m], items) }`) with `n = i + r·m ≤ IntMax`:
`r` more copies, no out-of-range slice expression -/
theorem mulLoop_ok (xs : List Int) (m n : Int) (hm : 0 < m) : ∀ (r fuel : Nat) (i : Int),
    0 ≤ i → n = i + r * m → n ≤ IntMax → r ≤ fuel →
    mulLoop xs m n i fuel = .ok (List.replicate r xs).flatten := by
  intro r
  induction r with
  | zero =>
    intro fuel i _ hn _ _
    have : ¬ i < n := by omega
    cases fuel with
    | zero => rfl
    | succ f => simp only [mulLoop, if_neg this]; rfl
  | succ r ih =>
    intro fuel i hi hn hmax hf
    cases fuel with
    | zero => omega
    | succ f =>
      have e : ((r + 1 : Nat) : Int) * m = r * m + m := by
        rw [Int.natCast_succ, Int.add_mul, Int.one_mul]
      rw [e] at hn
      have hq : 0 ≤ (r : Int) * m := Int.mul_nonneg (by omega) (by omega)
      generalize (r : Int) * m = q at hn hq ih
      have hw : wrap64 (i + m) = i + m := by unfold wrap64; unfold IntMax at hmax; omega
      simp only [mulLoop, hw]
      rw [if_pos (by omega), if_pos (by omega)]
      rw [ih f (i + m) (by omega) (by omega) hmax (by omega), bind_ok]
      simp only [List.replicate_succ, List.flatten_cons]
      rfl

theorem flatten_replicate_nil (k : Nat) : (List.replicate k ([] : List Int)).flatten = [] := by
  induction k with
  | zero => rfl
  | succ k ih => simp only [List.replicate_succ, List.flatten_cons, ih, List.nil_append]

/-- `List.M__mul__` / `Tuple.M__mul__` / `Bytes.M__mul__`: when the total length `b · len` is an int64, the
copy loop produces `b` copies (none for `b ≤ 0`) and never slices out of range (no panic) -/
theorem seqMul_spec_lemma (xs : List Int) (b : Int) (h : inRange (b * xs.length)) :
    seqMul xs b = .ok (List.replicate b.toNat xs).flatten := by
  unfold seqMul
  simp only []
  rw [wrap64_of_inRange h]
  unfold inRange IntMin IntMax at h
  by_cases hm : xs.length = 0
  · have hx : xs = [] := List.eq_nil_of_length_eq_zero hm
    subst hx
    simp only [List.length_nil, Int.natCast_zero, Int.mul_zero, flatten_replicate_nil]
    rfl
  · have hm' : 0 < (xs.length : Int) := by omega
    by_cases hb : b ≤ 0
    · have hp : b * xs.length ≤ 0 := by
        have : 0 ≤ (-b) * (xs.length : Int) := Int.mul_nonneg (by omega) (by omega)
        rw [Int.neg_mul] at this; omega
      have e : (if b * (xs.length : Int) < 0 then 0 else b * (xs.length : Int)) = 0 := by split <;> omega
      rw [e]
      have : b.toNat = 0 := by omega
      rw [this]; rfl
    · have hle : b ≤ b * xs.length := by
        have : 0 ≤ b * ((xs.length : Int) - 1) := Int.mul_nonneg (by omega) (by omega)
        rw [Int.mul_sub, Int.mul_one] at this; omega
      rw [if_neg (by omega)]
      exact mulLoop_ok xs xs.length _ hm' b.toNat _ 0 (Int.le_refl 0)
        (by rw [Int.toNat_of_nonneg (by omega)]; omega) (by unfold IntMax; omega) (by omega)

/-- the specification of `s * b` for an int64 count outside the MemoryError region -/
theorem specMul_int (k : Kind) (hk : k ≠ .range) (xs : List Int) (b : Int) (hb : inRange b)
    (hkf : ¬ b * xs.length > IntMax) :
    specMul ⟨k, xs⟩ (.int b) = .ok (.seq ⟨k, (List.replicate b.toNat xs).flatten⟩) := by
  unfold inRange at hb
  show (if k = Kind.range then Except.error Err.type
    else if ¬ (IntMin ≤ b ∧ b ≤ IntMax) then Except.error Err.overflow
    else if b ≤ 0 ∨ xs.length = 0 then Except.ok (SVal.seq ⟨k, []⟩)
    else if b * xs.length > IntMax then Except.error Err.memory
    else Except.ok (SVal.seq ⟨k, (List.replicate b.toNat xs).flatten⟩)) = _
  rw [if_neg hk, if_neg (not_not_intro hb)]
  by_cases h0 : b ≤ 0 ∨ xs.length = 0
  · rw [if_pos h0]
    rcases h0 with h0 | h0
    · have : b.toNat = 0 := by omega
      rw [this]; rfl
    · have hx : xs = [] := List.eq_nil_of_length_eq_zero h0
      subst hx; rw [flatten_replicate_nil]
  · rw [if_neg h0, if_neg hkf]

theorem strMul_eq (xs : List Int) (b : Int) : strMul xs b = (List.replicate b.toNat xs).flatten := by
  unfold strMul
  by_cases h : b < 0
  · have : b.toNat = 0 := by omega
    simp only [h, if_true, this]; rfl
  · simp only [h, if_false]

/-- **repetition** `s * b` / `b * s` for list, tuple, bytes, str and a `py.Int` count `b`: `b` copies (the empty sequence
for `b ≤ 0` or an empty operand), model = spec.
Excluded: (1) `kfMulOverflow` – the total length `b · len` exceeds int64 (known finding C13-K04);
(2) `b · len < IntMin` – a negative count times a length so large that the product wraps around to a positive
int64 (needs `len > 2^62`, i.e. no sequence that fits in memory; the code would then return copies instead of
the empty sequence).  `kfMulOverflow` only delimits the positive side, hence the extra hypothesis `hlo`.
`hb` says that a `py.Int` holds an int64. -/
theorem repeat_spec_partial_lemma (xs : List Int) (b : Int) (hb : inRange b)
    (hk : kfMulOverflow xs.length (.int b) = false) (hlo : IntMin ≤ b * xs.length) :
    (∃ r, mul (.list xs) (.int b) = .ok (.list r) ∧ specMul ⟨.list, xs⟩ (.int b) = .ok (.seq ⟨.list, r⟩)) ∧
    (∃ r, mul (.tuple xs) (.int b) = .ok (.tuple r) ∧ specMul ⟨.tuple, xs⟩ (.int b) = .ok (.seq ⟨.tuple, r⟩)) ∧
    (∃ r, mul (.bytes xs) (.int b) = .ok (.bytes r) ∧ specMul ⟨.bytes, xs⟩ (.int b) = .ok (.seq ⟨.bytes, r⟩)) ∧
    (∃ r, mul (.str xs) (.int b) = .ok (.str r) ∧ specMul ⟨.str, xs⟩ (.int b) = .ok (.seq ⟨.str, r⟩)) := by
  have hkf : ¬ b * xs.length > IntMax := by simpa [kfMulOverflow] using hk
  have hr : inRange (b * xs.length) := ⟨hlo, by omega⟩
  have hs := seqMul_spec_lemma xs b hr
  refine ⟨⟨_, ?_, specMul_int _ (by decide) xs b hb hkf⟩, ⟨_, ?_, specMul_int _ (by decide) xs b hb hkf⟩,
    ⟨_, ?_, specMul_int _ (by decide) xs b hb hkf⟩, ⟨_, ?_, specMul_int _ (by decide) xs b hb hkf⟩⟩
  · simp only [mul, convertToInt, hs]; rfl
  · simp only [mul, convertToInt, hs]; rfl
  · simp only [mul, convertToInt, hs]; rfl
  · simp only [mul, convertToInt, strMul_eq]; rfl


/-- why `hlo` is there: for a (hypothetical) operand of 2^62 items, `xs * -3` is `xs` in the model but `[]` in
the specification, and `kfMulOverflow` is false -/
theorem repeat_neg_wrap_witness_lemma (xs : List Int) (hx : xs.length = 4611686018427387904) :
    seqMul xs (-3) = .ok xs ∧ specMul ⟨.list, xs⟩ (.int (-3)) = .ok (.seq ⟨.list, []⟩) ∧
    kfMulOverflow xs.length (.int (-3)) = false := by
  refine ⟨?_, ?_, ?_⟩
  · unfold seqMul
    simp only [hx]
    have e1 : wrap64 (-3 * ((4611686018427387904 : Nat) : Int)) = 4611686018427387904 := by decide
    rw [e1]
    have e2 : (if (4611686018427387904 : Int) < 0 then 0 else (4611686018427387904 : Int)) = 4611686018427387904 := by decide
    rw [e2]
    have := mulLoop_ok xs ((4611686018427387904 : Nat) : Int) 4611686018427387904 (by decide) 1
      (4611686018427387904 : Int).toNat 0 (by decide) (by decide) (by decide) (by decide)
    rw [this]
    simp
  · rw [specMul_int .list (by decide) xs (-3) (by decide) (by rw [hx]; decide)]
    rfl
  · rw [hx]; decide

theorem specMul_bool (k : Kind) (hk : k ≠ .range) (xs : List Int) (c : Bool) (hl : (xs.length : Int) ≤ IntMax) :
    specMul ⟨k, xs⟩ (.bool c) = .ok (.seq ⟨k, (List.replicate (if c then 1 else 0 : Int).toNat xs).flatten⟩) := by
  generalize hb : (if c then 1 else 0 : Int) = b
  have hb01 : b = 0 ∨ b = 1 := by cases c <;> simp at hb <;> omega
  show (if k = Kind.range then Except.error Err.type
    else if ¬ (IntMin ≤ (Idx.bool c).denote.getD 0 ∧ (Idx.bool c).denote.getD 0 ≤ IntMax) then Except.error Err.overflow
    else if (Idx.bool c).denote.getD 0 ≤ 0 ∨ xs.length = 0 then Except.ok (SVal.seq ⟨k, []⟩)
    else if (Idx.bool c).denote.getD 0 * xs.length > IntMax then Except.error Err.memory
    else Except.ok (SVal.seq ⟨k, (List.replicate ((Idx.bool c).denote.getD 0).toNat xs).flatten⟩)) = _
  have hd : (Idx.bool c).denote.getD 0 = b := hb
  rw [hd, if_neg hk, if_neg (by unfold IntMin IntMax; omega)]
  by_cases h0 : b ≤ 0 ∨ xs.length = 0
  · rw [if_pos h0]
    rcases h0 with h0 | h0
    · have : b.toNat = 0 := by omega
      rw [this]; rfl
    · have hx : xs = [] := List.eq_nil_of_length_eq_zero h0
      subst hx; rw [flatten_replicate_nil]
  · have : b = 1 := by omega
    subst this
    rw [if_neg h0, if_neg (by omega)]

/-- repetition with a bool count (`convertToInt` accepts `py.Bool`): `s * True = s`, `s * False` is empty -/
theorem repeat_bool_spec_lemma (xs : List Int) (c : Bool) (hl : (xs.length : Int) ≤ IntMax) :
    (∃ r, mul (.list xs) (.bool c) = .ok (.list r) ∧ specMul ⟨.list, xs⟩ (.bool c) = .ok (.seq ⟨.list, r⟩)) ∧
    (∃ r, mul (.tuple xs) (.bool c) = .ok (.tuple r) ∧ specMul ⟨.tuple, xs⟩ (.bool c) = .ok (.seq ⟨.tuple, r⟩)) ∧
    (∃ r, mul (.bytes xs) (.bool c) = .ok (.bytes r) ∧ specMul ⟨.bytes, xs⟩ (.bool c) = .ok (.seq ⟨.bytes, r⟩)) ∧
    (∃ r, mul (.str xs) (.bool c) = .ok (.str r) ∧ specMul ⟨.str, xs⟩ (.bool c) = .ok (.seq ⟨.str, r⟩)) := by
  have hs := seqMul_spec_lemma xs (if c then 1 else 0) (by
    unfold inRange IntMin; unfold IntMax at *; cases c <;> simp <;> omega)
  refine ⟨⟨_, ?_, specMul_bool _ (by decide) xs c hl⟩, ⟨_, ?_, specMul_bool _ (by decide) xs c hl⟩,
    ⟨_, ?_, specMul_bool _ (by decide) xs c hl⟩, ⟨_, ?_, specMul_bool _ (by decide) xs c hl⟩⟩
  · simp only [mul, convertToInt, hs]; rfl
  · simp only [mul, convertToInt, hs]; rfl
  · simp only [mul, convertToInt, hs]; rfl
  · simp only [mul, convertToInt, strMul_eq]; rfl

example : ((([7, 8] : List Int).length : Int)) ≤ IntMax := by decide

/-! ### membership in a range -/

/-- draining `range(a, b, c)` (copy of the argument of `range_iter_spec_partial`, as a lemma on the constructed value) -/
theorem rangeDrain_rangeElems (a b c : Int) (h : RangeArgsOK a b c) (fuel : Nat)
    (hf : (rangeElems a b c).length ≤ fuel) :
    rangeDrain ⟨a, b, c, ((rangeElems a b c).length : Nat)⟩ 0 fuel = (rangeElems a b c, false) := by
  have hc0 : c ≠ 0 := h.2.2.2.1
  have hlen : (rangeElems a b c).length = count a b c := by rw [rangeElems_eq_prog a b c hc0, prog_length]
  have hd := rangeDrain_eq ⟨a, b, c, ((rangeElems a b c).length : Nat)⟩ (rangeElems a b c).length rfl
    (by rw [hlen]; exact count_le_IntMax h) fuel 0 (Nat.zero_le _) (by omega)
  simp only [Int.natCast_zero] at hd
  rw [hd]
  have hm := map_computeItem ⟨a, b, c, ((rangeElems a b c).length : Nat)⟩ (rangeElems a b c).length 0
    (fun i _ hi => range_item_inRange h i (by omega))
  simp only [Int.natCast_zero, Int.zero_mul, Int.add_zero, Nat.sub_zero] at hm ⊢
  rw [hm, hlen, ← rangeElems_eq_prog a b c hc0]

/-- `e in range(a, b, c)` (through the iterator, as `SequenceContains` does): membership in the items of the
progression.  Hypotheses: `RangeArgsOK` (the rest is C13-K05) and at most `drainCap` items (the model of the
iteration drains at most that many items – a bound of the model, not of the implementation). -/
theorem range_contains_spec_partial_lemma (a b c : Int) (h : RangeArgsOK a b c) (hcap : (rangeElems a b c).length ≤ drainCap)
    (e : Int) :
    ∃ r, rangeNew (.int a) (.int b) (.int c) = .ok r ∧
      contains (.range r) (.int e) = .ok (.bool ((rangeElems a b c).contains e)) ∧
      specContains ⟨.range, rangeElems a b c⟩ e = .ok (.bool ((rangeElems a b c).contains e)) := by
  refine ⟨_, rangeNew_ok h, ?_, rfl⟩
  simp only [contains, iterate]
  rw [rangeDrain_rangeElems a b c h drainCap hcap]
  rfl

example : RangeArgsOK 10 (-5) (-3) ∧ (rangeElems 10 (-5) (-3)).length ≤ drainCap :=
  ⟨by simp [RangeArgsOK, inRange, IntMin, IntMax], by decide⟩

/-! ### slicing a range (py/range.go computeRangeSlice); `wrap64` is a ring homomorphism onto the residues mod 2^64 -/

/-- `wrap64 x ≡ x (mod 2^64)` -/
theorem wrap64_emod (x : Int) : wrap64 x % 18446744073709551616 = x % 18446744073709551616 := by
  unfold wrap64; omega

theorem wrap64_congr {x y : Int} (h : x % 18446744073709551616 = y % 18446744073709551616) : wrap64 x = wrap64 y := by
  unfold wrap64; omega

theorem emod_add_congr {x x' y y' m : Int} (h1 : x % m = x' % m) (h2 : y % m = y' % m) : (x + y) % m = (x' + y') % m := by
  rw [Int.add_emod, h1, h2, ← Int.add_emod]

theorem emod_mul_congr {x x' y y' m : Int} (h1 : x % m = x' % m) (h2 : y % m = y' % m) : (x * y) % m = (x' * y') % m := by
  rw [Int.mul_emod, h1, h2, ← Int.mul_emod]

theorem wrap64_wrap64 (x : Int) : wrap64 (wrap64 x) = wrap64 x := wrap64_congr (wrap64_emod x)
theorem wrap64_add_left (x y : Int) : wrap64 (wrap64 x + y) = wrap64 (x + y) :=
  wrap64_congr (emod_add_congr (wrap64_emod x) rfl)
theorem wrap64_add_right (x y : Int) : wrap64 (x + wrap64 y) = wrap64 (x + y) :=
  wrap64_congr (emod_add_congr rfl (wrap64_emod y))
theorem wrap64_mul_left (x y : Int) : wrap64 (wrap64 x * y) = wrap64 (x * y) :=
  wrap64_congr (emod_mul_congr (wrap64_emod x) rfl)
theorem wrap64_mul_right (x y : Int) : wrap64 (x * wrap64 y) = wrap64 (x * y) :=
  wrap64_congr (emod_mul_congr rfl (wrap64_emod y))

/-- an item of the sliced range, computed with the wrapped fields, is the item of the original range at the
selected position – whatever wrapped in between, provided the final value is an int64 -/
theorem computeItem_slice (r : Range) (s0 k stop len j : Int) (hr : inRange (r.start + (s0 + j * k) * r.step)) :
    computeItem ⟨computeItem r s0, stop, wrap64 (k * r.step), len⟩ j = r.start + (s0 + j * k) * r.step := by
  unfold computeItem
  simp only []
  rw [← wrap64_of_inRange hr]
  apply wrap64_congr
  have e : r.start + (s0 + j * k) * r.step = (r.start + s0 * r.step) + j * (k * r.step) := by
    rw [Int.add_mul, Int.mul_assoc, Int.add_assoc]
  rw [e]
  refine emod_add_congr ?_ ?_
  · rw [wrap64_emod]; exact emod_add_congr rfl (wrap64_emod _)
  · rw [wrap64_emod]; exact emod_mul_congr rfl (wrap64_emod _)

theorem walk_length_le (stop step : Int) : ∀ (f : Nat) (i : Int), (walk i stop step f).length ≤ f := by
  intro f
  induction f with
  | zero => intro i; simp [walk]
  | succ f ih =>
    intro i
    simp only [walk]
    split
    · simp only [List.length_cons]; have := ih (i + step); omega
    · simp

theorem sliceIndices_length_le (n : Nat) (s e : Option Int) (d : Int) : (sliceIndices n s e d).length ≤ n := by
  unfold sliceIndices
  split <;> exact walk_length_le _ _ _ _


/-- the drained items of a sliced range -/
theorem map_computeItem_slice (a b c : Int) (h : RangeArgsOK a b c) (L s0 k stop len : Int) : ∀ (m : Nat) (j : Nat),
    (∀ x ∈ prog (s0 + j * k) k m, 0 ≤ x ∧ x < (count a b c : Nat)) →
    (prog j 1 m).map (computeItem ⟨computeItem ⟨a, b, c, L⟩ s0, stop, wrap64 (k * c), len⟩) =
      pick (rangeElems a b c) (prog (s0 + j * k) k m) := by
  intro m
  induction m with
  | zero => intro j _; rfl
  | succ m ih =>
    intro j hin
    have hc0 : c ≠ 0 := h.2.2.2.1
    have h0 := hin (s0 + j * k) (by simp [prog])
    have ep : s0 + (j : Int) * k = ((s0 + (j : Int) * k).toNat : Int) := by omega
    have hlt : (s0 + (j : Int) * k).toNat < count a b c := by omega
    have hr := range_item_inRange h _ hlt
    rw [← ep] at hr
    have hi := computeItem_slice ⟨a, b, c, L⟩ s0 k stop len j hr
    simp only [] at hi
    simp only [prog, List.map_cons, pick]
    rw [hi]
    have e1 : ((j : Int) + 1) = ((j + 1 : Nat) : Int) := by rw [Int.natCast_succ]
    have e2 : s0 + (j : Int) * k + k = s0 + ((j + 1 : Nat) : Int) * k := by
      rw [Int.natCast_succ, Int.add_mul, Int.one_mul, Int.add_assoc]
    have ih' := ih (j + 1) (fun x hx => hin x (by
      simp only [prog, List.mem_cons]; right; rw [e2]; exact hx))
    simp only [pick] at ih'
    rw [e1, ih', e2]
    congr 1
    rw [rangeElems_eq_prog a b c hc0]
    have := prog_getElem? c _ a _ hlt
    simp only [List.getD_eq_getElem?_getD, this, Option.getD_some]
    rw [← ep]

/-- **slicing a range** `range(a, b, c)[start:stop:step]`, every slice key (None, integers of any magnitude, bools,
non-integers): the same exception as Python (TypeError / ValueError, step examined first), or a range object whose
length is the number of selected positions and whose iteration yields exactly the selected items in order and then
stops.  No in-range hypothesis on `start + i·step` / `step · r.step` of the new object is needed: its fields are computed
mod 2^64 (`wrap64` is a ring homomorphism) and every delivered item is an item of the original range, hence an int64.
(The theorem is about the length and the items; the `Start/Stop/Step` fields of the new object may be wrapped values,
e.g. `Stop` when the slice ends beyond the last item.)
Excluded: range arguments outside `RangeArgsOK` (known finding C13-K05). -/
theorem range_slice_spec_partial_lemma (a b c : Int) (h : RangeArgsOK a b c) (sl : Slice) (wf : sl.WF) :
    ∃ r, rangeNew (.int a) (.int b) (.int c) = .ok r ∧
      match specSliceIdx (rangeElems a b c).length sl with
      | .ok idxs => ∃ r', computeRangeSlice r sl = .ok r' ∧ r'.length = idxs.length ∧
          ∀ fuel, idxs.length ≤ fuel → rangeDrain r' 0 fuel = (pick (rangeElems a b c) idxs, false)
      | .error e => computeRangeSlice r sl = .error e := by
  refine ⟨_, rangeNew_ok h, ?_⟩
  have hc0 : c ≠ 0 := h.2.2.2.1
  have hlen : (rangeElems a b c).length = count a b c := by rw [rangeElems_eq_prog a b c hc0, prog_length]
  have hL : ((rangeElems a b c).length : Int) ≤ IntMax := by rw [hlen]; exact count_le_IntMax h
  have hg := getIndices_agree sl wf (rangeElems a b c).length hL
  unfold computeRangeSlice specSliceIdx
  simp only []
  generalize getIndices sl ↑(rangeElems a b c).length = m at hg ⊢
  generalize specSliceArgs sl = s at hg ⊢
  match m, s, hg with
  | .error e1, .error e2, hg => simp only [SliceAgree] at hg; subst hg; rfl
  | .ok (s0, s1, k, len), .ok (s, e, d), hg =>
    simp only [SliceAgree] at hg
    rw [bind_ok, bind_ok]
    have hm0 := hg.len_nonneg
    have hil : (sliceIndices (rangeElems a b c).length s e d).length = len.toNat := by
      rw [hg.eq_prog, prog_length]
    have hle := sliceIndices_length_le (rangeElems a b c).length s e d
    refine ⟨_, rfl, ?_, ?_⟩
    · show len = _
      rw [hil]; omega
    · intro fuel hf
      change (sliceIndices (rangeElems a b c).length s e d).length ≤ fuel at hf
      show _ = (pick (rangeElems a b c) (sliceIndices (rangeElems a b c).length s e d), false)
      have hd := rangeDrain_eq ⟨computeItem ⟨a, b, c, ((rangeElems a b c).length : Nat)⟩ s0,
          computeItem ⟨a, b, c, ((rangeElems a b c).length : Nat)⟩ s1, wrap64 (k * c), len⟩ len.toNat
        (by show len = _; omega) (by omega) fuel 0 (Nat.zero_le _) (by omega)
      simp only [Int.natCast_zero, Nat.sub_zero] at hd
      rw [hd]
      have hm := map_computeItem_slice a b c h ((rangeElems a b c).length : Nat) s0 k
        (computeItem ⟨a, b, c, ((rangeElems a b c).length : Nat)⟩ s1) len len.toNat 0 (by
          simp only [Int.natCast_zero, Int.zero_mul, Int.add_zero]
          rw [← hg.eq_prog, ← hlen]; exact hg.inb)
      simp only [Int.natCast_zero, Int.zero_mul, Int.add_zero] at hm
      rw [hm, hg.eq_prog]

/-! ### non-vacuity of the hypotheses, sample evaluations (tests, not proofs) -/

example : inRange (3 * (([7, 8] : List Int).length : Int)) := by decide
example : inRange 3 ∧ kfMulOverflow ([7, 8] : List Int).length (.int 3) = false ∧ IntMin ≤ 3 * (([7, 8] : List Int).length : Int) := by decide
example : inRange (-2) ∧ kfMulOverflow ([7, 8] : List Int).length (.int (-2)) = false ∧ IntMin ≤ -2 * (([7, 8] : List Int).length : Int) := by decide
example : RangeArgsOK 10 (-5) (-3) ∧ Slice.WF ⟨.int (-2), .big (-18446744073709551616), .int (-1)⟩ :=
  ⟨by simp [RangeArgsOK, inRange, IntMin, IntMax], by simp [Slice.WF, Idx.WF, inRange, IntMin, IntMax]⟩
example : cmp .lt (.list [1, 2]) (.list [1, 2, 0]) = .ok (.bool true) ∧ cmp .ge (.tuple [1, 3]) (.tuple [1, 2, 9]) = .ok (.bool true) := by decide
example : mul (.list [7, 8]) (.int 3) = .ok (.list [7, 8, 7, 8, 7, 8]) := by decide
example : contains (.str [97, 98, 99]) (.str [98, 99]) = .ok (.bool true) := by decide
example : (rangeNew (.int 10) (.int (-5)) (.int (-3)) >>= fun r => computeRangeSlice r ⟨.int (-2), .none, .int (-1)⟩) =
    .ok ⟨1, 13, 3, 4⟩ := by decide

end GPy.C13
