/-
C13 property theorems: indexing and slicing follow Python's sequence model for all indices.

Every theorem quantifies over all sequences (any length that a Go slice can have: `length ≤ IntMax`)
and all index/slice operands: `None`, any integer of any magnitude (`Idx.int` = a py.Int word,
`Idx.big` = a *py.BigInt of any value), bools, and objects without `__index__`.  `Idx.WF`/`Slice.WF`
only say that a `py.Int` holds an int64.  Equalities are between `Except` values, so they cover the
exception raised as well as the result, and imply that no Go panic (`Err.panic`) is reached.

`…_partial` theorems carry a named exclusion (a known finding of KNOWN_FINDINGS.txt); the matching `…_witness` theorems show the model really departs from the spec there.
-/
import GPy.C13.Proofs
import GPy.C13.HeapProofs
import GPy.C13.Proofs2
import GPy.C13.GenProofs
namespace GPy.C13

/-! ### slice normalisation (py/slice.go GetIndices) -/

/-- **Headline.** For every length and every start/stop/step, `GetIndices` either raises exactly the
exception Python raises (TypeError for a non-integer component, ValueError for step 0; the step is
examined first), or returns `(a, b, k, m)` such that Python's slice positions are exactly
`a, a+k, …, a+(m-1)k` (`m ≥ 0` of them) and every one of them is a valid index `0 ≤ · < n`. -/
theorem getindices_spec (sl : Slice) (wf : sl.WF) (n : Nat) (hn : (n : Int) ≤ IntMax) :
    match getIndices sl n, specSliceIdx n sl with
    | .ok (a, _, k, m), .ok idxs =>
        0 ≤ m ∧ idxs.length = m.toNat ∧
        ∀ j : Nat, j < m.toNat → idxs[j]? = some (a + j * k) ∧ 0 ≤ a + j * k ∧ a + j * k < n
    | .error e1, .error e2 => e1 = e2
    | _, _ => False := by
  have h := getIndices_agree sl wf n hn
  unfold specSliceIdx
  generalize getIndices sl ↑n = m at h ⊢
  generalize specSliceArgs sl = s at h ⊢
  match m, s, h with
  | .error e1, .error e2, h => simpa [SliceAgree, bind, Except.bind] using h
  | .ok (a, b, k, len), .ok (s, e, d), h =>
    simp only [SliceAgree] at h
    simp only [bind, Except.bind, pure, Except.pure]
    refine ⟨h.len_nonneg, by rw [h.eq_prog, prog_length], ?_⟩
    intro j hj
    have hg : (sliceIndices n s e d)[j]? = some (a + j * k) := by rw [h.eq_prog]; exact prog_getElem? k _ a j hj
    exact ⟨hg, h.inb _ (List.mem_of_getElem? hg)⟩


/-! ### regenerated tie (extract/goint, slice mode): `(*Slice).GetIndices` as it stands in the working tree -/

/-- the Lean TRANSLATION of py/slice.go's `GetIndices` (regenerated on every run) is the model the theorems speak about -/
theorem generated_getindices_is_model (r : Slice) (length : Int) :
    Gen.Slice_GetIndices r length = getIndices r length := gen_getIndices r length

/-- **Headline on the regenerated code.** `getindices_spec` restated for the translated Go function: for every length
and every well-formed slice the code of the working tree raises Python's exception or returns `(a, _, k, m)` enumerating
exactly Python's slice positions, all of them valid indices. -/
theorem generated_getindices_spec (sl : Slice) (wf : sl.WF) (n : Nat) (hn : (n : Int) ≤ IntMax) :
    match Gen.Slice_GetIndices sl n, specSliceIdx n sl with
    | .ok (a, _, k, m), .ok idxs =>
        0 ≤ m ∧ idxs.length = m.toNat ∧
        ∀ j : Nat, j < m.toNat → idxs[j]? = some (a + j * k) ∧ 0 ≤ a + j * k ∧ a + j * k < n
    | .error e1, .error e2 => e1 = e2
    | _, _ => False := by
  rw [gen_getIndices]; exact getindices_spec sl wf n hn

theorem generated_slice_translation_covers : Gen.translated = ["Slice.GetIndices"] := by decide

/-- the bounds GetIndices returns are themselves inside the sequence (what `l.Items[stop:]`,
`l.Items[:start]`, `t[start:stop]` rely on) -/
theorem getindices_bounds (sl : Slice) (wf : sl.WF) (n : Nat) (hn : (n : Int) ≤ IntMax)
    (a b k m : Int) (h : getIndices sl n = .ok (a, b, k, m)) :
    k ≠ 0 ∧ (k > 0 → 0 ≤ a ∧ a ≤ n ∧ 0 ≤ b ∧ b ≤ n) ∧ (k < 0 → -1 ≤ a ∧ a ≤ n - 1 ∧ -1 ≤ b ∧ b ≤ n - 1) := by
  have hh := getIndices_agree sl wf n hn
  rw [h] at hh
  generalize specSliceArgs sl = s at hh
  match s, hh with
  | .ok (s, e, d), hh =>
    simp only [SliceAgree] at hh
    exact ⟨hh.step_ne, fun hk => by have := hh.lo hk; omega, hh.hi⟩

/-- a zero step is a ValueError whatever the other components are (unless the step itself is not an integer) -/
theorem step0_valueerror (a b : Idx) (n : Int) :
    getIndices ⟨a, b, .int 0⟩ n = .error .value ∧ getIndices ⟨a, b, .bool false⟩ n = .error .value := by
  constructor <;> rfl

/-! ### lists (py/list.go) -/

/-- `l[start:stop:step]` on a list: exactly the items at Python's slice positions, in order – for every list,
every start/stop/step (None, any integer of any magnitude, bool, non-integer), including which exception is raised;
in particular the copy loop never indexes out of range (no panic). -/
theorem list_getslice_spec (l : List Int) (sl : Slice) (wf : sl.WF) (hl : (l.length : Int) ≤ IntMax) :
    listGetItem l (.slice sl) = (specSliceIdx l.length sl).map (fun idxs => Sum.inr (pick l idxs)) := by
  have h := getIndices_agree sl wf l.length hl
  simp only [listGetItem, specSliceIdx]
  generalize getIndices sl ↑l.length = m at h ⊢
  generalize specSliceArgs sl = s at h ⊢
  match m, s, h with
  | .error e1, .error e2, h => simp only [SliceAgree] at h; subst h; rfl
  | .ok (a, b, k, len), .ok (s, e, d), h =>
    simp only [SliceAgree] at h
    simp only [bind, Except.bind, getSliceLoop, Except.map, pure, Except.pure]
    rw [if_neg (by have := h.len_nonneg; omega)]
    rw [getLoop_prog l hl k _ a (by rw [← h.eq_prog]; exact h.inb), ← h.eq_prog]

/-- `l[start:stop:step] = v` on a list, all keys, all values (iterable or not): contiguous slices splice
`v` in, extended slices assign position by position or raise ValueError on a size mismatch. -/
theorem list_setslice_spec (l : List Int) (sl : Slice) (wf : sl.WF) (hl : (l.length : Int) ≤ IntMax) (v : Option (List Int)) :
    listSetSlice l sl (match v with | some x => .ok x | Option.none => .error .type) = specSetSlice l sl v := by
  have h := getIndices_agree sl wf l.length hl
  unfold listSetSlice specSetSlice
  generalize getIndices sl ↑l.length = m at h ⊢
  generalize specSliceArgs sl = s at h ⊢
  match m, s, h with
  | .error e1, .error e2, h => simp only [SliceAgree] at h; subst h; rfl
  | .ok (a, b, k, len), .ok (s, e, d), h =>
    simp only [SliceAgree] at h
    cases v with
    | none => rfl
    | some x =>
      simp only [bind, Except.bind, pure, Except.pure]
      by_cases h1 : d = 1
      · have hk : k = 1 := by rw [h.step_eq]; exact (clampStep_eq_one d).mpr h1
        subst h1; subst hk
        obtain ⟨a0, a1, b0, b1, _, _, ea, eb, _⟩ := h.lo (by omega)
        simp only [beq_self_eq_true, if_true, goFrom, goTo]
        rw [← ea, ← eb]
        by_cases hba : b < a
        · rw [if_pos hba, if_pos ⟨a0, a1⟩, if_pos ⟨a0, a1⟩]
          have : max a b = a := by omega
          rw [this]; rfl
        · rw [if_neg hba, if_pos ⟨b0, b1⟩, if_pos ⟨a0, a1⟩]
          have : max a b = b := by omega
          rw [this]; rfl
      · have hk : k ≠ 1 := by rw [h.step_eq]; exact fun hh => h1 ((clampStep_eq_one d).mp hh)
        have e1 : (k == 1) = false := by simp [hk]
        have e2 : (d == 1) = false := by simp [h1]
        simp only [e1, e2, Bool.false_eq_true, if_false]
        have hlen : (sliceIndices l.length s e d).length = len.toNat := by rw [h.eq_prog]; exact prog_length _ _ _
        by_cases hx : (x.length : Int) = len
        · have hx' : x.length = len.toNat := by omega
          rw [if_neg (by simpa using hx), if_neg (by rw [hlen]; simpa using hx')]
          rw [h.eq_prog, ← hx']
          exact setLoop_prog k x l a hl (by rw [hx', ← h.eq_prog]; exact h.inb)
        · have hx' : x.length ≠ len.toNat := by have := h.len_nonneg; omega
          rw [if_pos (by simpa using hx), if_pos (by rw [hlen]; simpa using hx')]


/-- `del l[start:stop:step]` on a list, every key (contiguous, extended, negative steps, bounds of any magnitude):
exactly the items at Python's slice positions are removed, the others keep their order; the deletion loop
(ascending, each index corrected by the number of items already gone) never leaves the list (no panic). -/
theorem list_delslice_spec (l : List Int) (sl : Slice) (wf : sl.WF) (hl : (l.length : Int) ≤ IntMax) :
    listDelSlice l sl = specDelSlice l sl := by
  have h := getIndices_agree sl wf l.length hl
  unfold listDelSlice specDelSlice specSliceIdx
  generalize getIndices sl ↑l.length = m at h ⊢
  generalize hs : specSliceArgs sl = s at h ⊢
  match m, s, h with
  | .error e1, .error e2, h => simp only [SliceAgree] at h; subst h; rfl
  | .ok (a, b, k, len), .ok (s, e, d), h =>
    simp only [SliceAgree] at h
    rw [bind_ok]
    show _ = Except.ok (removeFrom l 0 (sliceIndices l.length s e d))
    have hmem : ∀ x ∈ prog a k len.toNat, 0 ≤ x ∧ x < l.length := by rw [← h.eq_prog]; exact h.inb
    by_cases hk1 : k = 1
    · subst hk1
      obtain ⟨a0, a1, b0, b1, _, _, _, _, hm⟩ := h.lo (by omega)
      simp only [beq_self_eq_true, if_true, goFrom, goTo]
      rw [h.eq_prog, removeFrom_le a _ l 0 a0]
      have hc := countUp_one a b
      by_cases hba : b < a
      · rw [if_pos hba, if_pos ⟨a0, a1⟩, if_pos ⟨a0, a1⟩]
        rw [if_neg (by omega)] at hc
        have e1 : (a - 0).toNat = a.toNat := by omega
        have e2 : (a + ↑len.toNat - 0).toNat = a.toNat := by omega
        rw [e1, e2]; rfl
      · rw [if_neg hba, if_pos ⟨b0, b1⟩, if_pos ⟨a0, a1⟩]
        have e1 : (a - 0).toNat = a.toNat := by omega
        have e2 : (a + ↑len.toNat - 0).toNat = b.toNat := by split at hc <;> omega
        rw [e1, e2]; rfl
    · have e1 : (k == 1) = false := by simp [hk1]
      simp only [e1, Bool.false_eq_true, if_false]
      rw [h.eq_prog]
      by_cases hpos : k > 0
      · rw [if_neg (by omega), if_neg (by omega)]
        obtain ⟨a0, _⟩ := h.lo hpos
        exact delLoop_spec l hl a k _ a0 hpos (fun x hx => (hmem x hx).2)
      · have hneg : k < 0 := by have := h.step_ne; omega
        rw [if_pos hneg, if_pos hneg]
        have hkr := h.step_rng
        have wk : wrap64 (-k) = -k := by unfold wrap64; unfold IntMax at hkr; omega
        rw [wk]
        cases hm : len.toNat with
        | zero => simp only [delLoop, prog, removeFrom_nil]; rfl
        | succ m' =>
          have hlen : len = (m' : Int) + 1 := by have := h.len_nonneg; omega
          have hlast : a + (m' : Int) * k ∈ prog a k len.toNat := by
            rw [hm]; exact (mem_prog_iff a k _ _).mpr ⟨m', by omega, rfl⟩
          have hb := hmem _ hlast
          have ha := hmem a (by rw [hm]; simp [prog])
          have hm'le : (m' : Int) ≤ -((m' : Int) * k) := by
            have : 0 ≤ (m' : Int) * (-k - 1) := Int.mul_nonneg (by omega) (by omega)
            rw [Int.mul_sub, Int.mul_neg, Int.mul_one] at this; omega
          have w0 : wrap64 (len - 1) = (m' : Int) := by unfold wrap64; unfold IntMax at hl; omega
          rw [w0]
          generalize hy : (m' : Int) * k = y at hb ⊢
          have w1 : wrap64 y = y := by unfold wrap64; unfold IntMax at hl; omega
          have w2 : wrap64 (a + y) = a + y := by unfold wrap64; unfold IntMax at hl; omega
          rw [w1, w2, ← hy]
          have hrev : ∀ x, 0 ≤ x → (prog a k (m' + 1)).contains x = (prog (a + ↑m' * k) (-k) (m' + 1)).contains x :=
            fun x _ => prog_rev_contains a k m' x
          rw [removeFrom_congr_ge _ _ l 0 hrev]
          apply delLoop_spec l hl _ (-k) _ (by rw [hy]; exact hb.1) (by omega)
          intro x hx
          have hc : (prog (a + ↑m' * k) (-k) (m' + 1)).contains x = true := List.contains_iff_mem.mpr hx
          rw [← prog_rev_contains] at hc
          have := hmem x (by rw [hm]; exact List.contains_iff_mem.mp hc)
          exact this.2


/-- `l[i]`: IndexError exactly when Python's index normalisation fails, TypeError for None / non-integers.
Excluded: an index outside int64 (known finding C13-K03: OverflowError instead of IndexError). -/
theorem list_getitem_spec_partial (l : List Int) (i : Idx) (wf : i.WF) (hl : (l.length : Int) ≤ IntMax)
    (hk : kfBigIndex i = false) :
    listGetItem l (.idx i) = (specIndex l.length i).map (fun p => Sum.inl (l.getD p 0)) := by
  simp only [listGetItem]
  cases h : specIndex l.length i with
  | error e => rw [indexIntCheck_err wf hl hk h, bind_err]; rfl
  | ok p =>
    have hp := specIndex_lt h
    have c : 0 ≤ (p : Int) ∧ (p : Int) < l.length := by omega
    rw [indexIntCheck_ok wf hl hk h, bind_ok]
    unfold goAt
    rw [if_pos c, Int.toNat_natCast]; rfl

/-- `l[i] = x` (same exclusion as `list_getitem_spec_partial`) -/
theorem list_setitem_spec_partial (l : List Int) (i : Idx) (x : Int) (wf : i.WF) (hl : (l.length : Int) ≤ IntMax)
    (hk : kfBigIndex i = false) :
    listSetIndex l i x = (specIndex l.length i).map (fun p => l.set p x) := by
  unfold listSetIndex
  cases h : specIndex l.length i with
  | error e => rw [indexIntCheck_err wf hl hk h, bind_err]; rfl
  | ok p =>
    have hp := specIndex_lt h
    have c : 0 ≤ (p : Int) ∧ (p : Int) < l.length := by omega
    rw [indexIntCheck_ok wf hl hk h, bind_ok]
    unfold goSet
    rw [if_pos c, Int.toNat_natCast]; rfl

/-- `del l[i]` (same exclusion) -/
theorem list_delitem_spec_partial (l : List Int) (i : Idx) (wf : i.WF) (hl : (l.length : Int) ≤ IntMax)
    (hk : kfBigIndex i = false) :
    listDelIndex l i = (specIndex l.length i).map (fun p => l.eraseIdx p) := by
  unfold listDelIndex
  cases h : specIndex l.length i with
  | error e => rw [indexIntCheck_err wf hl hk h, bind_err]; rfl
  | ok p =>
    rw [indexIntCheck_ok wf hl hk h, bind_ok, delItemAt_ok l p (specIndex_lt h) hl]; rfl

/-- the model really departs from the spec inside the exclusion: `[1,2,3][2**63]` -/
theorem big_index_witness :
    listGetItem [1, 2, 3] (.idx (.big 9223372036854775808)) = .error .overflow ∧
    specIndex 3 (.big 9223372036854775808) = .error .index ∧
    kfBigIndex (.big 9223372036854775808) = true := by decide

/-! ### tuples and strings (py/tuple.go, py/string.go) -/

/-- `t[start:stop:step]` on a tuple, all keys: step 1 takes the sub-slice `t[start:max(start,stop)]`, other steps
copy item by item; either way exactly Python's slice positions (no panic: the `t[3:1]` defect is fixed). -/
theorem tuple_getslice_spec (t : List Int) (sl : Slice) (wf : sl.WF) (hl : (t.length : Int) ≤ IntMax) :
    tupleGetItem t (.slice sl) = (specSliceIdx t.length sl).map (fun idxs => Sum.inr (pick t idxs)) := by
  have h := getIndices_agree sl wf t.length hl
  simp only [tupleGetItem, specSliceIdx]
  generalize getIndices sl ↑t.length = m at h ⊢
  generalize specSliceArgs sl = s at h ⊢
  match m, s, h with
  | .error e1, .error e2, h => simp only [SliceAgree] at h; subst h; rfl
  | .ok (a, b, k, len), .ok (s, e, d), h =>
    simp only [SliceAgree] at h
    rw [bind_ok, bind_ok]
    by_cases hk : k = 1
    · subst hk
      have hd : d = 1 := (clampStep_eq_one d).mp h.step_eq.symm
      subst hd
      obtain ⟨hlen, c0, c1, c2⟩ := contiguous_len h
      simp only [beq_self_eq_true, if_true]
      rw [goSub_eq_pick t a _ c0 c1 c2, bind_ok, ← hlen, ← h.eq_prog]; rfl
    · have e1 : (k == 1) = false := by simp [hk]
      simp only [e1, Bool.false_eq_true, if_false, getSliceLoop]
      rw [if_neg (by have := h.len_nonneg; omega)]
      rw [getLoop_prog t hl k _ a (by rw [← h.eq_prog]; exact h.inb), ← h.eq_prog]; rfl



/-- `t[i]` on a tuple (exclusion: C13-K03) -/
theorem tuple_getitem_spec_partial (l : List Int) (i : Idx) (wf : i.WF) (hl : (l.length : Int) ≤ IntMax)
    (hk : kfBigIndex i = false) :
    tupleGetItem l (.idx i) = (specIndex l.length i).map (fun p => Sum.inl (l.getD p 0)) := by
  simp only [tupleGetItem]
  cases h : specIndex l.length i with
  | error e => rw [indexIntCheck_err wf hl hk h, bind_err]; rfl
  | ok p =>
    have hp := specIndex_lt h
    have c : 0 ≤ (p : Int) ∧ (p : Int) < l.length := by omega
    rw [indexIntCheck_ok wf hl hk h, bind_ok]
    unfold goAt
    rw [if_pos c, Int.toNat_natCast]; rfl

/-- `s[start:stop:step]` on a str (a list of code points; every branch of `String.slice` – empty, ASCII byte
slice, whole string, `pos`-based – denotes the same code points) -/
theorem str_getslice_spec (t : List Int) (sl : Slice) (wf : sl.WF) (hl : (t.length : Int) ≤ IntMax) :
    strGetItem t (.slice sl) = (specSliceIdx t.length sl).map (fun idxs => pick t idxs) := by
  have h := getIndices_agree sl wf t.length hl
  simp only [strGetItem, specSliceIdx]
  generalize getIndices sl ↑t.length = m at h ⊢
  generalize specSliceArgs sl = s at h ⊢
  match m, s, h with
  | .error e1, .error e2, h => simp only [SliceAgree] at h; subst h; rfl
  | .ok (a, b, k, len), .ok (s, e, d), h =>
    simp only [SliceAgree] at h
    rw [bind_ok, bind_ok]
    by_cases hk : k = 1
    · subst hk
      have hd : d = 1 := (clampStep_eq_one d).mp h.step_eq.symm
      subst hd
      obtain ⟨hlen, c0, c1, c2⟩ := contiguous_len h
      obtain ⟨a0, a1, b0, b1, _⟩ := h.lo (by omega)
      simp only [beq_self_eq_true, if_true]
      rw [strSlice_eq t a b ⟨a0, a1⟩ ⟨b0, b1⟩, ← hlen, ← h.eq_prog]; rfl
    · have e1 : (k == 1) = false := by simp [hk]
      simp only [e1, Bool.false_eq_true, if_false, getSliceLoop]
      rw [if_neg (by have := h.len_nonneg; omega)]
      rw [getLoop_prog t hl k _ a (by rw [← h.eq_prog]; exact h.inb), ← h.eq_prog]; rfl


/-- `s[i]` on a str: the one-character string at Python's normalised index (exclusion: C13-K03) -/
theorem str_getitem_spec_partial (l : List Int) (i : Idx) (wf : i.WF) (hl : (l.length : Int) ≤ IntMax)
    (hk : kfBigIndex i = false) :
    strGetItem l (.idx i) = (specIndex l.length i).map (fun p => [l.getD p 0]) := by
  simp only [strGetItem]
  cases h : specIndex l.length i with
  | error e => rw [indexIntCheck_err wf hl hk h, bind_err]; rfl
  | ok p =>
    have hp := specIndex_lt h
    have c : 0 ≤ (p : Int) ∧ (p : Int) < l.length := by omega
    rw [indexIntCheck_ok wf hl hk h, bind_ok]
    unfold goAt
    rw [if_pos c, Int.toNat_natCast]; rfl

/-! ### concatenation, equality, the recorded gaps -/

/-- `+` on two sequences of the same kind is concatenation (a fresh value), of different kinds TypeError -/
theorem concat_spec (x y : List Int) :
    add (.list x) (.list y) = .ok (.list (x ++ y)) ∧ add (.tuple x) (.tuple y) = .ok (.tuple (x ++ y)) ∧
    add (.str x) (.str y) = .ok (.str (x ++ y)) ∧ add (.bytes x) (.bytes y) = .ok (.bytes (x ++ y)) ∧
    add (.list x) (.tuple y) = .error .type ∧ add (.tuple x) (.list y) = .error .type := by
  refine ⟨rfl, rfl, rfl, rfl, rfl, rfl⟩

/-- `==` / `!=` on lists and tuples is item-wise equality (`==` on `List Int` is lawful: `x == y ↔ x = y`) -/
theorem eq_spec (x y : List Int) :
    cmp .eq (.list x) (.list y) = .ok (.bool (x == y)) ∧ cmp .ne (.tuple x) (.tuple y) = .ok (.bool (x != y)) ∧
    cmp .eq (.list x) (.tuple y) = .ok (.bool false) ∧ ((x == y) = true ↔ x = y) := by
  refine ⟨rfl, rfl, rfl, beq_iff_eq⟩

/-- bytes (C13-K01 repaired by fix 8b172df: `Bytes.M__getitem__` has the shape of `Tuple.M__getitem__`): slicing for
every key, `len`, iteration -/
theorem bytes_ops_spec (t : List Int) (sl : Slice) (wf : sl.WF) (hl : (t.length : Int) ≤ IntMax) :
    getItem (.bytes t) (.slice sl) = (specSliceIdx t.length sl).map (fun idxs => Obj.bytes (pick t idxs)) ∧
    len (.bytes t) = .ok (.int t.length) ∧ iterate (.bytes t) = .ok (t, false) := by
  refine ⟨?_, rfl, rfl⟩
  simp only [getItem]
  rw [tuple_getslice_spec t sl wf hl]
  cases specSliceIdx t.length sl <;> rfl

/-- `b[i]` on bytes (exclusion: C13-K03) -/
theorem bytes_getitem_spec_partial (l : List Int) (i : Idx) (wf : i.WF) (hl : (l.length : Int) ≤ IntMax)
    (hk : kfBigIndex i = false) :
    getItem (.bytes l) (.idx i) = (specIndex l.length i).map (fun p => Obj.int (l.getD p 0)) := by
  simp only [getItem]
  rw [tuple_getitem_spec_partial l i wf hl hk]
  cases specIndex l.length i <;> rfl

/-- C13-K04: `[0,1] * 2**62` is `[]` (Python: MemoryError) and `[0,1,2] * 6148914691236517206` panics -/
theorem mul_overflow_witness :
    mul (.list [0, 1]) (.int 4611686018427387904) = .ok (.list []) ∧
    specMul ⟨.list, [0, 1]⟩ (.int 4611686018427387904) = .error .memory ∧
    mul (.list [0, 1, 2]) (.int 6148914691236517206) = .error .panic ∧
    kfMulOverflow 2 (.int 4611686018427387904) = true := by decide

/-! ### range (py/range.go) -/

/-- `range(a, b, 0)` is a ValueError -/
theorem range_step0 (a b : Int) :
    rangeNew (.int a) (.int b) (.int 0) = .error .value ∧ (SeqLit.range (.int a) (.int b) (.int 0)).spec = .error .value := by
  constructor <;> rfl

/-- `len(range(a, b, c))` = the number of items of the progression, for all int64 arguments whose span
`b - a` fits a word (`RangeArgsOK`; the rest is known finding C13-K05) -/
theorem range_len_spec_partial (a b c : Int) (h : RangeArgsOK a b c) :
    ∃ r, rangeNew (.int a) (.int b) (.int c) = .ok r ∧ r.length = (rangeElems a b c).length ∧
      len (.range r) = .ok (.int (rangeElems a b c).length) :=
  ⟨_, rangeNew_ok h, rfl, rfl⟩

/-- `range(a, b, c)[i]`: the i-th item of the progression, IndexError outside, negative indices from the end -/
theorem range_item_spec_partial (a b c : Int) (h : RangeArgsOK a b c) (i : Idx) (wf : i.WF) (hk : kfBigIndex i = false) :
    ∃ r, rangeNew (.int a) (.int b) (.int c) = .ok r ∧
      rangeGetItem r (.idx i) = (specIndex (rangeElems a b c).length i).map (fun p => Sum.inl ((rangeElems a b c).getD p 0)) := by
  refine ⟨_, rangeNew_ok h, ?_⟩
  have hc0 : c ≠ 0 := h.2.2.2.1
  have hlen : (rangeElems a b c).length = count a b c := by rw [rangeElems_eq_prog a b c hc0, prog_length]
  have hL : ((rangeElems a b c).length : Int) ≤ IntMax := by rw [hlen]; exact count_le_IntMax h
  rw [rangeGetItem_idx]
  cases hs : specIndex (rangeElems a b c).length i with
  | error e => rw [indexIntCheck_err wf hL hk hs, bind_err]; rfl
  | ok p =>
    have hp : p < count a b c := by rw [← hlen]; exact specIndex_lt hs
    rw [indexIntCheck_ok wf hL hk hs, bind_ok]
    show Except.ok (Sum.inl (computeItem ⟨a, b, c, _⟩ (p : Int))) = Except.ok (Sum.inl ((rangeElems a b c).getD p 0))
    rw [computeItem_eq _ _ (range_item_inRange h p hp), rangeElems_eq_prog a b c hc0]
    have := prog_getElem? c _ a p hp
    simp only [List.getD_eq_getElem?_getD, this, Option.getD_some]

/-- iterating `range(a, b, c)` yields exactly the items of the progression and then stops -/
theorem range_iter_spec_partial (a b c : Int) (h : RangeArgsOK a b c) (fuel : Nat)
    (hf : (rangeElems a b c).length ≤ fuel) :
    ∃ r, rangeNew (.int a) (.int b) (.int c) = .ok r ∧ rangeDrain r 0 fuel = (rangeElems a b c, false) := by
  refine ⟨_, rangeNew_ok h, ?_⟩
  have hc0 : c ≠ 0 := h.2.2.2.1
  have hlen : (rangeElems a b c).length = count a b c := by rw [rangeElems_eq_prog a b c hc0, prog_length]
  have hd := rangeDrain_eq ⟨a, b, c, ((rangeElems a b c).length : Nat)⟩ (rangeElems a b c).length rfl
    (by rw [hlen]; exact count_le_IntMax h) fuel 0 (Nat.zero_le _) (by omega)
  simp only [Int.natCast_zero] at hd
  rw [hd]
  have hm := map_computeItem ⟨a, b, c, ((rangeElems a b c).length : Nat)⟩ (rangeElems a b c).length 0
    (fun i _ hi => range_item_inRange h i (by omega))
  simp only [Int.natCast_zero, Int.zero_mul, Int.add_zero, Nat.sub_zero] at hm ⊢
  rw [hm, hlen, ← rangeElems_eq_prog a b c hc0]

/-- C13-K05: `len(range(-2**63, 2**63-1, 2**63-1))` is 1, not 3 -/
theorem range_wide_witness :
    (rangeNew (.int (-9223372036854775808)) (.int 9223372036854775807) (.int 9223372036854775807)).map (·.length) = .ok 1 ∧
    kfRangeWide (.int (-9223372036854775808)) (.int 9223372036854775807) (.int 9223372036854775807) = true := by decide

/-! ### ordering, membership, repetition, range slicing (proofs in Proofs2.lean) -/

/-- **list / tuple ordering** (C13-K02 repaired): for all six operators and all operands, `py.Lt … py.Ge`,
`py.Eq`, `py.Ne` on two lists (two tuples) return the Boolean Python's lexicographic comparison defines
(the common Boolean is `specOrd op x y`); no error, no panic.  No hypotheses. -/
theorem order_spec (op : CmpOp) (x y : List Int) :
    (∃ b, cmp op (.list x) (.list y) = .ok (.bool b) ∧ specCmp op ⟨.list, x⟩ ⟨.list, y⟩ = .ok (.bool b)) ∧
    (∃ b, cmp op (.tuple x) (.tuple y) = .ok (.bool b) ∧ specCmp op ⟨.tuple, x⟩ ⟨.tuple, y⟩ = .ok (.bool b)) :=
  order_spec_lemma op x y

/-- **str / bytes ordering**: the same for two strs (code points) and two bytes objects, all six operators.
No hypotheses. -/
theorem strbytes_order_spec (op : CmpOp) (x y : List Int) :
    (∃ b, cmp op (.str x) (.str y) = .ok (.bool b) ∧ specCmp op ⟨.str, x⟩ ⟨.str, y⟩ = .ok (.bool b)) ∧
    (∃ b, cmp op (.bytes x) (.bytes y) = .ok (.bool b) ∧ specCmp op ⟨.bytes, x⟩ ⟨.bytes, y⟩ = .ok (.bool b)) :=
  strbytes_order_spec_lemma op x y

/-- **membership**: `e in s` for an integer `e` and a list / tuple / bytes operand is `xs.contains e`; with a str
operand it is a TypeError; `n in s` for a str needle is substring search on a str operand and `False` on a
sequence of integers.  Model = spec in every case, for all operands.  No hypotheses.
(range operands: `range_contains_spec_partial`.) -/
theorem contains_spec (xs : List Int) (e : Int) (n : List Int) :
    (contains (.list xs) (.int e) = .ok (.bool (xs.contains e)) ∧ specContains ⟨.list, xs⟩ e = .ok (.bool (xs.contains e))) ∧
    (contains (.tuple xs) (.int e) = .ok (.bool (xs.contains e)) ∧ specContains ⟨.tuple, xs⟩ e = .ok (.bool (xs.contains e))) ∧
    (contains (.bytes xs) (.int e) = .ok (.bool (xs.contains e)) ∧ specContains ⟨.bytes, xs⟩ e = .ok (.bool (xs.contains e))) ∧
    (contains (.str xs) (.int e) = .error .type ∧ specContains ⟨.str, xs⟩ e = .error .type) ∧
    (∃ b, contains (.str xs) (.str n) = .ok (.bool b) ∧ specContainsStr ⟨.str, xs⟩ n = .ok (.bool b)) ∧
    (contains (.list xs) (.str n) = .ok (.bool false) ∧ specContainsStr ⟨.list, xs⟩ n = .ok (.bool false)) ∧
    (contains (.tuple xs) (.str n) = .ok (.bool false) ∧ specContainsStr ⟨.tuple, xs⟩ n = .ok (.bool false)) ∧
    (contains (.bytes xs) (.str n) = .ok (.bool false) ∧ specContainsStr ⟨.bytes, xs⟩ n = .ok (.bool false)) :=
  contains_spec_lemma xs e n

/-- `e in range(a, b, c)` (through the iterator, as `SequenceContains` does): membership in the items of the
progression.  Hypotheses: `RangeArgsOK` (the rest is C13-K05) and at most `drainCap` items (the model of the
iteration drains at most that many items – a bound of the model, not of the implementation). -/
theorem range_contains_spec_partial (a b c : Int) (h : RangeArgsOK a b c) (hcap : (rangeElems a b c).length ≤ drainCap)
    (e : Int) :
    ∃ r, rangeNew (.int a) (.int b) (.int c) = .ok r ∧
      contains (.range r) (.int e) = .ok (.bool ((rangeElems a b c).contains e)) ∧
      specContains ⟨.range, rangeElems a b c⟩ e = .ok (.bool ((rangeElems a b c).contains e)) :=
  range_contains_spec_partial_lemma a b c h hcap e

/-- `List.M__mul__` / `Tuple.M__mul__` / `Bytes.M__mul__`: when the total length `b · len` is an int64, the
copy loop produces `b` copies (none for `b ≤ 0`) and never slices out of range (no panic) -/
theorem seqMul_spec (xs : List Int) (b : Int) (h : inRange (b * xs.length)) :
    seqMul xs b = .ok (List.replicate b.toNat xs).flatten :=
  seqMul_spec_lemma xs b h

/-- **repetition** `s * b` / `b * s` for list, tuple, bytes, str and a `py.Int` count `b`: `b` copies (the empty sequence
for `b ≤ 0` or an empty operand), model = spec.
Excluded: (1) `kfMulOverflow` – the total length `b · len` exceeds int64 (known finding C13-K04);
(2) `b · len < IntMin` – a negative count times a length so large that the product wraps around to a positive
int64 (needs `len > 2^62`, i.e. no sequence that fits in memory; the code would then return copies instead of
the empty sequence).  `kfMulOverflow` only delimits the positive side, hence the extra hypothesis `hlo`.
`hb` says that a `py.Int` holds an int64. -/
theorem repeat_spec_partial (xs : List Int) (b : Int) (hb : inRange b)
    (hk : kfMulOverflow xs.length (.int b) = false) (hlo : IntMin ≤ b * xs.length) :
    (∃ r, mul (.list xs) (.int b) = .ok (.list r) ∧ specMul ⟨.list, xs⟩ (.int b) = .ok (.seq ⟨.list, r⟩)) ∧
    (∃ r, mul (.tuple xs) (.int b) = .ok (.tuple r) ∧ specMul ⟨.tuple, xs⟩ (.int b) = .ok (.seq ⟨.tuple, r⟩)) ∧
    (∃ r, mul (.bytes xs) (.int b) = .ok (.bytes r) ∧ specMul ⟨.bytes, xs⟩ (.int b) = .ok (.seq ⟨.bytes, r⟩)) ∧
    (∃ r, mul (.str xs) (.int b) = .ok (.str r) ∧ specMul ⟨.str, xs⟩ (.int b) = .ok (.seq ⟨.str, r⟩)) :=
  repeat_spec_partial_lemma xs b hb hk hlo

/-- why `hlo` is there: for a (hypothetical) operand of 2^62 items, `xs * -3` is `xs` in the model but `[]` in
the specification, and `kfMulOverflow` is false -/
theorem repeat_neg_wrap_witness (xs : List Int) (hx : xs.length = 4611686018427387904) :
    seqMul xs (-3) = .ok xs ∧ specMul ⟨.list, xs⟩ (.int (-3)) = .ok (.seq ⟨.list, []⟩) ∧
    kfMulOverflow xs.length (.int (-3)) = false :=
  repeat_neg_wrap_witness_lemma xs hx

/-- repetition with a bool count (`convertToInt` accepts `py.Bool`): `s * True = s`, `s * False` is empty -/
theorem repeat_bool_spec (xs : List Int) (c : Bool) (hl : (xs.length : Int) ≤ IntMax) :
    (∃ r, mul (.list xs) (.bool c) = .ok (.list r) ∧ specMul ⟨.list, xs⟩ (.bool c) = .ok (.seq ⟨.list, r⟩)) ∧
    (∃ r, mul (.tuple xs) (.bool c) = .ok (.tuple r) ∧ specMul ⟨.tuple, xs⟩ (.bool c) = .ok (.seq ⟨.tuple, r⟩)) ∧
    (∃ r, mul (.bytes xs) (.bool c) = .ok (.bytes r) ∧ specMul ⟨.bytes, xs⟩ (.bool c) = .ok (.seq ⟨.bytes, r⟩)) ∧
    (∃ r, mul (.str xs) (.bool c) = .ok (.str r) ∧ specMul ⟨.str, xs⟩ (.bool c) = .ok (.seq ⟨.str, r⟩)) :=
  repeat_bool_spec_lemma xs c hl

/-- **slicing a range** `range(a, b, c)[start:stop:step]`, every slice key (None, integers of any magnitude, bools,
non-integers): the same exception as Python (TypeError / ValueError, step examined first), or a range object whose
length is the number of selected positions and whose iteration yields exactly the selected items in order and then
stops.  No in-range hypothesis on `start + i·step` / `step · r.step` of the new object is needed: its fields are computed
mod 2^64 (`wrap64` is a ring homomorphism) and every delivered item is an item of the original range, hence an int64.
(The theorem is about the length and the items; the `Start/Stop/Step` fields of the new object may be wrapped values,
e.g. `Stop` when the slice ends beyond the last item.)
Excluded: range arguments outside `RangeArgsOK` (known finding C13-K05). -/
theorem range_slice_spec_partial (a b c : Int) (h : RangeArgsOK a b c) (sl : Slice) (wf : sl.WF) :
    ∃ r, rangeNew (.int a) (.int b) (.int c) = .ok r ∧
      match specSliceIdx (rangeElems a b c).length sl with
      | .ok idxs => ∃ r', computeRangeSlice r sl = .ok r' ∧ r'.length = idxs.length ∧
          ∀ fuel, idxs.length ≤ fuel → rangeDrain r' 0 fuel = (pick (rangeElems a b c) idxs, false)
      | .error e => computeRangeSlice r sl = .error e :=
  range_slice_spec_partial_lemma a b c h sl wf

/-! ### results never alias a mutable operand, operands are never corrupted (slice-header model of Heap.lean)

Go slices are headers `(array, offset, len, cap)`; `grow` is the allocator's growth rule for `append`
(arbitrary: no assumption is needed).  A tuple / bytes value IS a header, a list is a reference to one. -/

/-- **operand_unchanged (tuple, bytes).**  Over ANY finite history of tuple / bytes operations - slicing (which returns
a sub-slice of the operand's array that keeps the operand's spare capacity), `+`, `+=`, `*`, `*=`, `tuple(x)`, `bytes(x)` -
applied to ANY headers (in particular to earlier results, with whatever offset, length, spare capacity and sharing
they have), no cell of any array that existed at the start is ever written and no list object changes: whatever is
later done with a result, the operand still reads the same. -/
theorem operand_unchanged_immutable (grow : Nat → Nat → Nat) {h h' : Heap} (r : ImmReach grow h h') (s : Hdr)
    (hs : s.arr < h.arrs.length) : h'.read s = h.read s ∧ h'.lists = h.lists :=
  ⟨read_congr (r.noWrite.cells _ hs), r.noWrite.lists⟩

/-- the statement above is not vacuous about `append`: the seeded variant `Tuple.M__iadd__ = append(a, b...)` is
`goAppendH`, and on the sub-slice `s[0:2]` of `s = (1,2,3,4,5)` it overwrites the parent (a test by evaluation) -/
theorem append_in_place_witness :
    let (h, s) := Heap.empty.alloc [1, 2, 3, 4, 5] 0
    (goSliceH s 0 2).map (fun t => ((goAppendH (fun _ n => n) h t [9]).1.read s, sharing t s)) = .ok ([1, 2, 9, 4, 5], (2, 3, 0)) := by
  decide

/-- **value of a sub-slice.**  The heap-level tuple / bytes slicing (which for step 1 returns a header into the operand's
array, keeping its spare capacity) computes the value of the List-level model (`tupleGetItem`, which
`tuple_getslice_spec` equates with Python's slice): for a well-formed header, whatever its spare capacity -/
theorem tuple_slice_value (h h' : Heap) (t s : Hdr) (sl : Slice) (wf : sl.WF) (w1 : t.len ≤ t.cap)
    (w2 : t.off + t.cap ≤ (h.cells t.arr).length) (hl : (t.len : Int) ≤ IntMax)
    (hok : hTupleGetSlice h t sl = .ok (h', s)) :
    tupleGetItem (h.read t) (.slice sl) = .ok (.inr (h'.read s)) := by
  have hlen := read_length h t w1 w2
  unfold hTupleGetSlice at hok
  simp only [tupleGetItem, hlen]
  cases hgi : getIndices sl t.len with
  | error e => rw [hgi] at hok; cases hok
  | ok q =>
    obtain ⟨start, stop, step, len⟩ := q
    have hb := getindices_bounds sl wf t.len hl start stop step len hgi
    rw [hgi] at hok
    rw [bind_ok]
    simp only [bind, Except.bind, pure, Except.pure] at hok ⊢
    split at hok
    · rename_i hstep
      have h1 : step = 1 := by simpa using hstep
      subst h1
      obtain ⟨a0, a1, b0, b1⟩ := hb.2.1 (by omega)
      rw [if_pos hstep]
      have hc' : ∀ q : Int, q = (if stop < start then start else stop) → 0 ≤ start ∧ start ≤ q ∧ q ≤ (t.len : Int) := by
        intro q hq; subst hq; split <;> omega
      generalize (if stop < start then start else stop) = q at hok hc' ⊢
      have hq := hc' q rfl
      have hgs : goSliceH t start q = .ok ⟨t.arr, t.off + start.toNat, (q - start).toNat, t.cap - start.toNat⟩ := by
        unfold goSliceH; rw [if_pos ⟨hq.1, hq.2.1, by omega⟩]; rfl
      rw [hgs] at hok
      simp only at hok
      injection hok with hok; injection hok with e1 e2; subst e1; subst e2
      unfold goSub
      rw [hlen, if_pos hq]
      have := read_sub h t start.toNat q.toNat (by omega) (by omega)
      have e : (q - start).toNat = q.toNat - start.toNat := by omega
      rw [e, this]; rfl
    · rename_i hstep
      rw [if_neg hstep]
      split at hok
      · cases hok
      · rename_i _ out hout
        injection hok with hok
        rw [fst_eq hok, snd_eq hok, read_alloc]

/-- **result_fresh.**  The result of slicing, concatenating, repeating or copy-constructing a LIST is a new list object
whose items live in an array that did not exist before (or it has no capacity at all): it shares no array cell with
any operand; every existing list object and every existing array is unchanged. -/
theorem result_fresh (grow : Nat → Nat → Nat) {h h' : Heap} {op : ListMk} {r : Nat} (hok : runListMk grow h op = .ok (h', r)) :
    r = h.lists.length ∧ (∀ r', r' < h.lists.length → h'.list r' = h.list r') ∧
    (∀ s : Hdr, s.arr < h.arrs.length → h'.read s = h.read s) ∧
    ((h'.list r).cap = 0 ∨ h.arrs.length ≤ (h'.list r).arr) := by
  obtain ⟨_, fcells, fref, s, hls, _, hs⟩ := runListMk_fresh grow hok
  refine ⟨fref, fun r' hr' => ?_, fun s hs => read_congr (fcells _ hs), ?_⟩
  · simp only [Heap.list, hls, List.getD_eq_getElem?_getD]
    rw [List.getElem?_append_left hr']
  · have : h'.list r = s := by rw [fref]; simp [Heap.list, hls]
    rw [this]; exact hs.imp id (fun x => x.1)

/-- **operand_unchanged (in-place list operations: `+=`, `append`, `extend`, slice/index assignment and deletion).**
They write only to the list's own array or to new arrays: every other list object keeps its header, and every
header into another array reads the same afterwards. -/
theorem operand_unchanged_inplace (grow : Nat → Nat → Nat) {h h' : Heap} {r : Nat} {op : ListOp} (hr : r < h.lists.length)
    (hok : runListOp grow h r op = .ok h') :
    (∀ r', r' ≠ r → h'.list r' = h.list r') ∧
    (∀ s : Hdr, s.arr < h.arrs.length → s.arr ≠ (h.list r).arr → h'.read s = h.read s) := by
  have ip := runListOp_inPlace grow hr hok
  exact ⟨ip.others, fun s hs hne => read_congr (ip.cells _ hs hne)⟩

/-- **separation.**  From the empty heap, over any finite history mixing tuple / bytes operations on live values,
list-producing operations and in-place list operations, every list object owns its array: no other list and no live
tuple / bytes value has a header into it (`WInv`). -/
theorem lists_own_their_arrays (grow : Nat → Nat → Nat) {w : World} (r : WReach grow ⟨Heap.empty, []⟩ w) : WInv w :=
  r.inv WInv.empty

/-- hence, at any point of any history, an in-place operation on the list `r` changes the VALUE of no other list and of
no live tuple / bytes value.  Excluded (`_partial`): a target list whose `Items` has no capacity at all (a nil slice:
the frame lemma identifies arrays by id and a capacity-less header carries no meaningful id). -/
theorem other_values_unchanged_partial (grow : Nat → Nat → Nat) {w : World} (iv : WInv w) {r : Nat} {op : ListOp} {h' : Heap}
    (hr : r < w.h.lists.length) (hcap : (w.h.list r).cap ≠ 0) (hok : runListOp grow w.h r op = .ok h') :
    (∀ r', r' < w.h.lists.length → r' ≠ r → h'.read (h'.list r') = w.h.read (w.h.list r')) ∧
    (∀ t, t ∈ w.live → t.cap ≠ 0 → h'.read t = w.h.read t) := by
  have ip := runListOp_inPlace grow hr hok
  refine ⟨fun r' hr' hne => ?_, fun t ht hc => ?_⟩
  · rw [ip.others r' hne]
    obtain ⟨hlc, harr⟩ := iv.own r' hr'
    rcases iv.sep r' r hr' hr hne with c0 | c1 | c2
    · have : (w.h.list r').len = 0 := by omega
      simp [Heap.read, this]
    · exact absurd c1 hcap
    · rcases harr with c0 | c3
      · have : (w.h.list r').len = 0 := by omega
        simp [Heap.read, this]
      · exact read_congr (ip.cells _ c3 c2)
  · rcases iv.imm t ht with c0 | c1
    · exact absurd c0 hc
    · rcases c1.2 r hr with d0 | d1
      · exact absurd d0 hcap
      · exact read_congr (ip.cells _ c1.1 (Ne.symm d1))

example : ImmReach (fun _ n => n) Heap.empty (Heap.empty.alloc [] 0).1 :=
  .step (.add Hdr.nil Hdr.nil) (Heap.empty.alloc [] 0).2 (.refl _) rfl

/-! ### non-vacuity -/

example : Slice.WF ⟨.int (-3), .big 18446744073709551616, .none⟩ := by simp [Slice.WF, Idx.WF, inRange, IntMin, IntMax]
example : RangeArgsOK 10 (-5) (-3) := by simp [RangeArgsOK, inRange, IntMin, IntMax]
example : kfBigIndex (.int (-4)) = false := rfl
/-- a sample evaluation (a test, not a proof): `[0,1,2,3,4][::-2]` -/
example : listGetItem [0, 1, 2, 3, 4] (.slice ⟨.none, .none, .int (-2)⟩) = .ok (.inr [4, 2, 0]) := by decide

end GPy.C13
