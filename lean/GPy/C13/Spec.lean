/-
C13 specification: Python's sequence model, written from the language reference
(Data model §3.2 "Sequences", §6.3.2/6.3.3 subscriptions and slicings, the `range`
and `list` documentation) on unbounded integers – independently of the formulas in
`GetIndices`.  A sequence is the list of its items; every operation is defined on
that list.  Also: the known-finding predicates (`kf…`).
-/
import GPy.C13.Model
namespace GPy.C13

/-! ### slice semantics -/

/-- the mathematical integer an index operand denotes (`None`/non-integers: nothing) -/
def Idx.denote : Idx → Option Int
  | .int v => some v
  | .big v => some v
  | .bool b => some (if b then 1 else 0)
  | .none => Option.none
  | .bad => Option.none

/-- Python's adjustment of one explicit slice bound `v` for a sequence of length `n`
(negative values count from the end, then the value is clamped): for a positive step into
`[0, n]`, for a negative step into `[-1, n-1]`. -/
def specBound (n : Int) (neg : Bool) (v : Option Int) (dflt : Int) : Int :=
  match v with
  | Option.none => dflt
  | some v =>
    let v := if v < 0 then v + n else v
    if neg then max (-1) (min v (n - 1)) else max 0 (min v n)

/-- the progression `i, i+step, i+2·step, …` strictly before `stop` (in the direction of `step`) -/
def walk (i stop step : Int) : Nat → List Int
  | 0 => []
  | f + 1 =>
    if (step > 0 ∧ i < stop) ∨ (step < 0 ∧ i > stop) then i :: walk (i + step) stop step f else []

/-- The indices selected by `[start:stop:step]` (step ≠ 0) in a sequence of length `n`, in order.
`n` steps always suffice: the indices are pairwise distinct elements of `[0, n)`. -/
def sliceIndices (n : Nat) (start stop : Option Int) (step : Int) : List Int :=
  if step > 0 then walk (specBound n false start 0) (specBound n false stop n) step n
  else walk (specBound n true start (n - 1)) (specBound n true stop (-1)) step n

/-- `x[i]` for an integer `i`: the position, or IndexError -/
def normIndex (n : Nat) (i : Int) : Except Err Nat :=
  let j := if i < 0 then i + n else i
  if 0 ≤ j ∧ j < n then .ok j.toNat else .error .index

/-- items at the given positions -/
def pick (xs : List Int) (idxs : List Int) : List Int := idxs.map (fun i => xs.getD i.toNat 0)

/-- one slice component: `None`, an integer, or (TypeError) something else -/
def specComp (c : Idx) : Except Err (Option Int) :=
  match c with
  | .none => .ok Option.none
  | .bad => .error .type
  | c => .ok c.denote

/-- a slice key, resolved as Python does: the step is examined first (0 ⇒ ValueError),
a component that is neither None nor an integer ⇒ TypeError.  Result: (start, stop, step). -/
def specSliceArgs (s : Slice) : Except Err (Option Int × Option Int × Int) := do
  let step ← specComp s.step
  if step == some 0 then throw .value
  let start ← specComp s.start
  let stop ← specComp s.stop
  pure (start, stop, step.getD 1)

/-- the positions a slice key selects in a sequence of length `n` -/
def specSliceIdx (n : Nat) (s : Slice) : Except Err (List Int) := do
  let (start, stop, step) ← specSliceArgs s
  pure (sliceIndices n start stop step)

/-- an index key: TypeError for None / non-integers -/
def specIndex (n : Nat) (i : Idx) : Except Err Nat :=
  match i.denote with
  | Option.none => .error .type
  | some v => normIndex n v

/-! ### operations on item lists -/

/-- assignment to the positions `idxs` (extended slice) -/
def assignAt : List Int → List Int → List Int → List Int
  | xs, i :: is, v :: vs => assignAt (xs.set i.toNat v) is vs
  | xs, _, _ => xs

/-- deletion of the positions `idxs`: the items whose position (counted from `p`) is not listed survive -/
def removeFrom : List Int → Int → List Int → List Int
  | [], _, _ => []
  | x :: xs, p, idxs => if idxs.contains p then removeFrom xs (p + 1) idxs else x :: removeFrom xs (p + 1) idxs

def removeAt (xs : List Int) (idxs : List Int) : List Int := removeFrom xs 0 idxs

/-- `range(start, stop, step)` as the list of its items -/
def rangeElems (start stop step : Int) : List Int := walk start stop step (stop - start).natAbs

def lexLtS : List Int → List Int → Bool
  | [], [] => false
  | [], _ :: _ => true
  | _ :: _, [] => false
  | x :: xs, y :: ys => if x < y then true else if x > y then false else lexLtS xs ys

/-! ### the sequence values of the specification -/

inductive Kind where
  | list | tuple | str | bytes | range
deriving DecidableEq, Repr, Inhabited

/-- a sequence = its kind and its items -/
structure SSeq where
  kind : Kind
  items : List Int
deriving DecidableEq, Repr, Inhabited

inductive SVal where
  | seq (s : SSeq)
  | int (v : Int)
  | bool (b : Bool)
  | none
  | items (xs : List Int)    -- what iteration yields
deriving DecidableEq, Repr, Inhabited

/-- a case operand: a sequence literal, or `range(a, b, c)` -/
inductive SeqLit where
  | list (xs : List Int) | tuple (xs : List Int) | str (xs : List Int) | bytes (xs : List Int)
  | range (a b c : Idx)
deriving DecidableEq, Repr, Inhabited

/-- value of a literal in the specification (range: ValueError for step 0, TypeError for non-integers) -/
def SeqLit.spec : SeqLit → Except Err SSeq
  | .list xs => .ok ⟨.list, xs⟩
  | .tuple xs => .ok ⟨.tuple, xs⟩
  | .str xs => .ok ⟨.str, xs⟩
  | .bytes xs => .ok ⟨.bytes, xs⟩
  | .range a b c =>
    match a.denote, b.denote, c.denote with
    | some a, some b, some c => if c = 0 then .error .value else .ok ⟨.range, rangeElems a b c⟩
    | _, _, _ => .error .type

/-- value of a literal in the model -/
def SeqLit.model : SeqLit → Except Err Obj
  | .list xs => .ok (.list xs)
  | .tuple xs => .ok (.tuple xs)
  | .str xs => .ok (.str xs)
  | .bytes xs => .ok (.bytes xs)
  | .range a b c => .range <$> rangeNew a b c

def specGetItem (s : SSeq) (k : Key) : Except Err SVal :=
  match k with
  | .idx i => do
    let p ← specIndex s.items.length i
    let x := s.items.getD p 0
    pure (if s.kind = .str then .seq ⟨.str, [x]⟩ else .int x)
  | .slice sl => do
    let idxs ← specSliceIdx s.items.length sl
    pure (.seq ⟨s.kind, pick s.items idxs⟩)

/-- `l[key] = value` on a list; `v` = the items of an iterable value, or nothing -/
def specSetSlice (xs : List Int) (sl : Slice) (v : Option (List Int)) : Except Err (List Int) := do
  let n := xs.length
  let (start, stop, step) ← specSliceArgs sl
  match v with
  | Option.none => throw .type
  | some v =>
    if step == 1 then
      -- l[a:b] = v  replaces the items a ≤ i < max(a, b)
      let a := specBound n false start 0
      let b := specBound n false stop n
      pure (xs.take a.toNat ++ v ++ xs.drop (max a b).toNat)
    else
      let idxs := sliceIndices n start stop step
      if v.length ≠ idxs.length then throw .value
      else pure (assignAt xs idxs v)

def specDelSlice (xs : List Int) (sl : Slice) : Except Err (List Int) := do
  let idxs ← specSliceIdx xs.length sl
  pure (removeAt xs idxs)

/-- `s * n` -/
def specMul (s : SSeq) (n : Idx) : Except Err SVal :=
  match n with
  | .none | .bad => .error .type
  | n =>
    let c := n.denote.getD 0
    if s.kind = .range then .error .type
    else if ¬ (IntMin ≤ c ∧ c ≤ IntMax) then .error .overflow     -- "cannot fit 'int' into an index-sized integer"
    else if c ≤ 0 ∨ s.items.length = 0 then .ok (.seq ⟨s.kind, []⟩)
    else if c * s.items.length > IntMax then .error .memory
    else .ok (.seq ⟨s.kind, (List.replicate c.toNat s.items).flatten⟩)

def specCmp (op : CmpOp) (a b : SSeq) : Except Err SVal :=
  match op with
  | .eq => .ok (.bool (a.kind = b.kind ∧ a.items = b.items))
  | .ne => .ok (.bool (¬ (a.kind = b.kind ∧ a.items = b.items)))
  | op =>
    if a.kind ≠ b.kind ∨ a.kind = .range then .error .type
    else
      let lt := lexLtS a.items b.items
      let gt := lexLtS b.items a.items
      .ok (.bool (match op with | .lt => lt | .le => !gt | .gt => gt | _ => !lt))

/-- `e in s` (`e` an integer; for str operands see `specContainsStr`) -/
def specContains (s : SSeq) (e : Int) : Except Err SVal :=
  if s.kind = .str then .error .type else .ok (.bool (s.items.contains e))

def specContainsStr (s : SSeq) (needle : List Int) : Except Err SVal :=
  if s.kind = .str then
    .ok (.bool ((List.range (s.items.length + 1)).any (fun i => needle.isPrefixOf (s.items.drop i))))
  else .ok (.bool false)   -- a str is never an item of a sequence of integers

/-! ### known-finding predicates -/

/- C13-K01 (bytes had no len/indexing/iteration/repetition) and C13-K02 (no list/tuple ordering) were
repaired by `fix:` commits in the extension round; their predicates are gone, the full theorems
(`bytes_ops_spec`, `order_spec`) replace the `_witness` theorems. -/

/-- C13-K03: a plain index that does not fit int64 raises OverflowError (Python: IndexError). -/
def kfBigIndex (i : Idx) : Bool :=
  match i with
  | .big v => !(decide (IntMin ≤ v ∧ v ≤ IntMax))
  | _ => false

/-- C13-K04: repetition whose total length `count · len` leaves int64 wraps around
(Python: MemoryError), and a count outside int64 is a TypeError (Python: OverflowError). -/
def kfMulOverflow (len : Nat) (n : Idx) : Bool :=
  match n with
  | .big v => !(decide (IntMin ≤ v ∧ v ≤ IntMax))
  | .int v => decide (v * len > IntMax)
  | _ => false

/-- C13-K05: `range` keeps int64 fields: an argument outside int64 (or the step -2^63) is not
handled, and the length computation wraps when `stop - start` leaves int64. -/
def kfRangeWide (a b c : Idx) : Bool :=
  match a.denote, b.denote, c.denote with
  | some a, some b, some c =>
    !(decide (IntMin ≤ a ∧ a ≤ IntMax ∧ IntMin ≤ b ∧ b ≤ IntMax ∧ -IntMax ≤ c ∧ c ≤ IntMax))
    || !(decide (-IntMax ≤ b - a ∧ b - a ≤ IntMax))
  | _, _, _ => false

end GPy.C13
