/-
C14, third round: `ascii(s)` = `StringEscape(repr(s), true)` writes ASCII only and is itself a literal of
`s`: re-escaping the repr text in ascii mode gives exactly the repr text a `strconv.IsPrint` that
holds NOTHING printable would have produced, so the round trip is `repr_roundtrip_str` at that
predicate.
-/
import GPy.C14.Proofs
namespace GPy.C14
open Spec (Scalar)

theorem asciiRunes_append (a b : List Nat) : asciiRunes (a ++ b) = asciiRunes a ++ asciiRunes b := by
  induction a with
  | nil => rfl
  | cons c t ih => simp only [List.cons_append, asciiRunes, ih, List.append_assoc]

/-- text made of printable ASCII characters passes through the ascii-mode escape unchanged -/
theorem asciiRunes_plain (l : List Nat) (h : ∀ x ∈ l, 0x20 ≤ x ∧ x < 0x7F) : asciiRunes l = l := by
  induction l with
  | nil => rfl
  | cons c t ih =>
    have hc := h c (by simp)
    have : asciiRune c = [c] := by
      unfold asciiRune
      rw [if_neg (by omega), if_pos hc.2]
    simp only [asciiRunes, this, ih (fun x hx => h x (by simp [hx])), List.singleton_append]

theorem hexDigits_plain (n k : Nat) : ∀ x ∈ hexDigits n k, 0x20 ≤ x ∧ x < 0x7F := by
  intro x hx
  rcases hexDigits_mem n k x hx with h | h <;> omega

theorem asciiRunes_esc (p : List Nat) (hp : ∀ x ∈ p, 0x20 ≤ x ∧ x < 0x7F) (n k : Nat) :
    asciiRunes (p ++ hexDigits n k) = p ++ hexDigits n k := by
  apply asciiRunes_plain
  intro x hx
  rcases List.mem_append.mp hx with h | h
  · exact hp x h
  · exact hexDigits_plain n k x h

/-- ascii mode on the escape of one rune = the escape of that rune when nothing is printable -/
theorem asciiRunes_escRune (isPrint : Nat → Bool) (q c : Nat) (hq : 0x20 ≤ q ∧ q < 0x7F) :
    asciiRunes (escRune isPrint q c) = escRune (fun _ => false) q c := by
  have h2 : ∀ x ∈ [92, 120], 0x20 ≤ x ∧ x < 0x7F := by decide
  have h3 : ∀ x ∈ [92, 117], 0x20 ≤ x ∧ x < 0x7F := by decide
  have h4 : ∀ x ∈ [92, 85], 0x20 ≤ x ∧ x < 0x7F := by decide
  unfold escRune
  by_cases h1 : c < 0x20
  · simp only [if_pos h1]
    by_cases a : c = 9
    · simp only [if_pos a]; decide
    · by_cases b : c = 10
      · simp only [if_neg a, if_pos b]; decide
      · by_cases d : c = 13
        · simp only [if_neg a, if_neg b, if_pos d]; decide
        · simp only [if_neg a, if_neg b, if_neg d]; exact asciiRunes_esc _ h2 c 2
  · simp only [if_neg h1]
    by_cases h7 : c < 0x7F
    · simp only [if_pos h7]
      by_cases hb : c = 92 ∨ c = q
      · simp only [if_pos hb]
        apply asciiRunes_plain
        intro x hx
        simp only [List.mem_cons, List.mem_nil_iff, or_false] at hx
        rcases hx with rfl | rfl <;> omega
      · simp only [if_neg hb]
        apply asciiRunes_plain
        intro x hx
        simp only [List.mem_cons, List.mem_nil_iff, or_false] at hx
        subst hx; omega
    · simp only [if_neg h7]
      by_cases h8 : c < 0x100
      · simp only [if_pos h8, Bool.false_eq_true, if_false]
        cases isPrint c with
        | false => simp only [Bool.false_eq_true, if_false]; exact asciiRunes_esc _ h2 c 2
        | true =>
          simp only [if_true, asciiRunes, List.append_nil]
          unfold asciiRune
          rw [if_neg h1, if_neg h7, if_pos h8]
      · simp only [if_neg h8]
        by_cases h9 : c < 0x10000
        · simp only [if_pos h9, Bool.false_eq_true, if_false]
          cases isPrint c with
          | false => simp only [Bool.false_eq_true, if_false]; exact asciiRunes_esc _ h3 c 4
          | true =>
            simp only [if_true, asciiRunes, List.append_nil]
            unfold asciiRune
            rw [if_neg h1, if_neg h7, if_neg h8, if_pos h9]
        · simp only [if_neg h9, Bool.false_eq_true, if_false]
          cases isPrint c with
          | false => simp only [Bool.false_eq_true, if_false]; exact asciiRunes_esc _ h4 c 8
          | true =>
            simp only [if_true, asciiRunes, List.append_nil]
            unfold asciiRune
            rw [if_neg h1, if_neg h7, if_neg h8, if_neg h9]

theorem asciiRunes_escBody (isPrint : Nat → Bool) (q : Nat) (hq : 0x20 ≤ q ∧ q < 0x7F) (cs : List Nat) :
    asciiRunes (escBody isPrint q cs) = escBody (fun _ => false) q cs := by
  induction cs with
  | nil => rfl
  | cons c t ih => simp only [escBody, asciiRunes_append, asciiRunes_escRune isPrint q c hq, ih]

theorem chooseQuote_plain (cs : List Nat) : 0x20 ≤ chooseQuote cs ∧ chooseQuote cs < 0x7F := by
  unfold chooseQuote; split <;> omega

/-- `ascii(s)` is the repr text of `s` under the predicate "nothing is printable" -/
theorem strAscii_eq (isPrint : Nat → Bool) (cs : List Nat) :
    strAscii isPrint cs = escapeRunes (fun _ => false) cs := by
  have hq := chooseQuote_plain cs
  have hq1 : asciiRunes [chooseQuote cs] = [chooseQuote cs] :=
    asciiRunes_plain _ (by intro x hx; simp only [List.mem_cons, List.mem_nil_iff, or_false] at hx; subst hx; exact hq)
  unfold strAscii escapeRunes
  simp only [asciiRunes_append, hq1, asciiRunes_escBody isPrint _ hq cs]

/-- every character `asciiRunes` writes is ASCII -/
theorem asciiRunes_ascii (l : List Nat) : ∀ x ∈ asciiRunes l, x < 0x80 := by
  induction l with
  | nil => intro x hx; cases hx
  | cons c t ih =>
    intro x hx
    simp only [asciiRunes, List.mem_append] at hx
    rcases hx with h | h
    · unfold asciiRune at h
      have hd : ∀ n k, ∀ y ∈ hexDigits n k, y < 0x80 := fun n k y hy => by
        have := hexDigits_plain n k y hy; omega
      repeat' split at h
      all_goals
        first
        | (simp only [List.mem_cons, List.mem_nil_iff, or_false] at h; omega)
        | (simp only [List.mem_append, List.mem_cons, List.mem_nil_iff, or_false] at h
           rcases h with (h | h) | h
           · omega
           · omega
           · exact hd _ _ x h)
    · exact ih x h

end GPy.C14
