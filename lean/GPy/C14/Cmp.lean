/-
C14: Go compares strings bytewise; Python compares them code point by code point.
On valid UTF-8 the two orders coincide.
-/
import GPy.C14.Proofs
namespace GPy.C14
open Spec (Scalar)

/-! ### the four shapes of an encoded scalar value -/

theorem encodeRune_cases (c : Nat) (h : Scalar c) :
    (c < 0x80 ∧ encodeRune c = [c]) ∨
    (0x80 ≤ c ∧ c < 0x800 ∧ encodeRune c = [0xC0 + c / 64, 0x80 + c % 64]) ∨
    (0x800 ≤ c ∧ c < 0x10000 ∧ encodeRune c = [0xE0 + c / 4096, 0x80 + c / 64 % 64, 0x80 + c % 64]) ∨
    (0x10000 ≤ c ∧ c < 0x110000 ∧
      encodeRune c = [0xF0 + c / 262144, 0x80 + c / 4096 % 64, 0x80 + c / 64 % 64, 0x80 + c % 64]) := by
  unfold Scalar at h
  unfold encodeRune
  by_cases h1 : c < 0x80
  · left; simp [h1]
  · by_cases h2 : c < 0x800
    · right; left; simp only [h1, h2, if_true, if_false]; exact ⟨by omega, trivial, trivial⟩
    · have h3 : ¬ ((0xD800 ≤ c ∧ c < 0xE000) ∨ c > 0x10FFFF) := by omega
      by_cases h4 : c < 0x10000
      · right; right; left; simp only [h1, h2, h3, h4, if_true, if_false]; exact ⟨by omega, trivial, trivial⟩
      · right; right; right; simp only [h1, h2, h3, h4, if_false]; exact ⟨by omega, by omega, trivial⟩

/-! ### generic facts about the bytewise order -/

theorem ltBytes_cons_lt {x y : Nat} (h : x < y) (s t : Bytes) : ltBytes (x :: s) (y :: t) = true := by
  simp [ltBytes, h]

theorem ltBytes_cons_gt {x y : Nat} (h : y < x) (s t : Bytes) : ltBytes (x :: s) (y :: t) = false := by
  have : ¬ x < y := by omega
  simp [ltBytes, h, this]

theorem ltBytes_cons_eq (x : Nat) (s t : Bytes) : ltBytes (x :: s) (x :: t) = ltBytes s t := by
  simp [ltBytes]

theorem ltBytes_append_left (p s t : Bytes) : ltBytes (p ++ s) (p ++ t) = ltBytes s t := by
  induction p with
  | nil => rfl
  | cons x p ih => simp only [List.cons_append, ltBytes_cons_eq, ih]

theorem ltBytes_nil_cons (y : Nat) (t : Bytes) : ltBytes [] (y :: t) = true := rfl

theorem ltBytes_nil_right (s : Bytes) : ltBytes s [] = false := by
  cases s <;> rfl

/-! ### one code point: smaller code point ⇒ smaller byte sequence -/

theorem ltBytes_enc_lt (c d : Nat) (hc : Scalar c) (hd : Scalar d) (h : c < d) (x y : Bytes) :
    ltBytes (encodeRune c ++ x) (encodeRune d ++ y) = true ∧
    ltBytes (encodeRune d ++ y) (encodeRune c ++ x) = false := by
  rcases encodeRune_cases c hc with ⟨c1, ec⟩ | ⟨c1, c2, ec⟩ | ⟨c1, c2, ec⟩ | ⟨c1, c2, ec⟩ <;>
  rcases encodeRune_cases d hd with ⟨d1, ed⟩ | ⟨d1, d2, ed⟩ | ⟨d1, d2, ed⟩ | ⟨d1, d2, ed⟩ <;>
  (rw [ec, ed]
   simp only [List.cons_append, List.nil_append, ltBytes]
   refine ⟨?_, ?_⟩ <;> (repeat' split) <;> first | rfl | omega)

/-! ### whole strings -/

theorem ltBytes_encode (a b : List Nat) (ha : ∀ c ∈ a, Scalar c) (hb : ∀ c ∈ b, Scalar c) :
    ltBytes (encodeAll a) (encodeAll b) = Spec.ltStr a b := by
  induction a generalizing b with
  | nil =>
    cases b with
    | nil => rfl
    | cons d b' =>
      simp only [encodeAll, Spec.ltStr]
      obtain ⟨z, w, hz⟩ : ∃ z w, encodeRune d ++ encodeAll b' = z :: w := by
        cases hh : encodeRune d ++ encodeAll b' with
        | nil => exact absurd (List.append_eq_nil_iff.mp hh).1 (encodeRune_ne_nil d)
        | cons z w => exact ⟨z, w, rfl⟩
      rw [hz]; rfl
  | cons c a' ih =>
    cases b with
    | nil => simp only [encodeAll, Spec.ltStr]; exact ltBytes_nil_right _
    | cons d b' =>
      have hc : Scalar c := ha c (by simp)
      have hd : Scalar d := hb d (by simp)
      have ha' : ∀ x ∈ a', Scalar x := fun x hx => ha x (by simp [hx])
      have hb' : ∀ x ∈ b', Scalar x := fun x hx => hb x (by simp [hx])
      simp only [encodeAll, Spec.ltStr]
      rcases Nat.lt_trichotomy c d with hlt | heq | hgt
      · rw [(ltBytes_enc_lt c d hc hd hlt _ _).1]; simp [hlt]
      · subst heq
        rw [ltBytes_append_left, ih b' ha' hb']
        simp
      · have hn : ¬ c < d := by omega
        rw [(ltBytes_enc_lt d c hd hc hgt _ _).2]; simp [hn, hgt]

theorem encodeAll_inj (a b : List Nat) (ha : ∀ c ∈ a, Scalar c) (hb : ∀ c ∈ b, Scalar c)
    (h : encodeAll a = encodeAll b) : a = b := by
  rw [← runes_encodeAll a ha, ← runes_encodeAll b hb, h]

theorem strCmp_encode (op : Nat) (a b : List Nat) (ha : ∀ c ∈ a, Scalar c) (hb : ∀ c ∈ b, Scalar c) :
    strCmp op (encodeAll a) (encodeAll b) = Spec.strCmp op a b := by
  have heq : (encodeAll a == encodeAll b) = (a == b) := by
    rw [Bool.eq_iff_iff, beq_iff_eq, beq_iff_eq]
    exact ⟨encodeAll_inj a b ha hb, fun h => by rw [h]⟩
  rcases op with _ | _ | _ | _ | _ | n <;>
    simp only [strCmp, Spec.strCmp, ltBytes_encode a b ha hb, ltBytes_encode b a hb ha, heq]

end GPy.C14
